(* Stretch (C02), AES-CTR-HMAC: "a valid ciphertext with any bit flipped, any truncation
   or extension, or presented with different associated data yields an error" as a
   REDUCTION to the MAC, proved from the model (only the output lengths of AES and
   HMAC are assumed):
     if Encrypt(p, ad) = c and Decrypt accepts (c', ad') <> (c, ad), then c' carries a
     valid truncated-HMAC tag for a MAC input x' that differs from the only input x
     Encrypt authenticated (mac_input is injective below 2^61 bytes of AD) — an
     existential forgery against HMAC truncated to the tag size.
   Corollaries: modifications that leave (ad, prefix||iv||body) alone (tag-only
   flips) are rejected outright; a modification is rejected when the presented tag is
   not the truncated HMAC of THE MAC input this mutant parses to (per-instance
   hypothesis, one input); modifications that keep the tag bytes are rejected when the
   truncated HMACs of that input and of x differ (per-instance, one pair).  No hypothesis
   quantifies over all messages: such a law is false of any real MAC by counting. *)
From Coq Require Import List NArith Bool Arith Lia ZifyN ZifyNat ZifyBool.
From Tink Require Import Bytes AeadFrame AeadFrameProofs Ctr CtrProofs EtM EtMProofs Mutation.
Import ListNotations.
Open Scope N_scope.

(* beyond 2^61 bytes of AD the 64-bit bit-length wraps and the MAC input IS ambiguous:
   the bound of mac_input_injective is necessary (no Go slice can be that long: 2 EiB) *)
Lemma mac_input_not_injective_at_2_61 :
  exists ad1 x1 ad2 x2, lenN ad1 = 2 ^ 61 /\ (ad1, x1) <> (ad2, x2) /\ mac_input ad1 x1 = mac_input ad2 x2.
Proof.
  assert (Hz : exists z, lenN z = 2 ^ 61).
  { exists (zeros (N.to_nat (2 ^ 61))). unfold lenN. rewrite zeros_length. apply Nnat.N2Nat.id. }
  destruct Hz as [z Hl].
  exists z, [], [], z. split; [exact Hl|]. split.
  - intros E. apply (f_equal (fun q => lenN (fst q))) in E. cbn [fst] in E. rewrite Hl in E. discriminate.
  - unfold mac_input, ad_bits. rewrite Hl. cbn [app]. f_equal.
Qed.

Section EtMMutation.
  Variable aes : bytes -> bytes -> bytes.
  Variable hmac : bytes -> bytes -> bytes.
  Variable hlen : nat.
  Hypothesis aes_len : forall k b, length (aes k b) = 16%nat.
  Hypothesis hmac_len : forall k m, length (hmac k m) = hlen.

  Notation payload_of := (payload_of).
  Notation tag_of := (tag_of).
  Notation mac_of := (mac_of hmac).
  Notation dec_canon := (etm_dec_canon aes hmac).

  (* the truncated tag of the key k on a raw MAC input *)
  Definition tmac (k : etm_key) (x : bytes) : bytes := firstn (ek_tag k) (hmac (ek_hmac k) x).

  (* (x', tag') is a forgery relative to the single authenticated input x *)
  Definition hmac_forgery (k : etm_key) (x x' tag' : bytes) : Prop := x' <> x /\ tmac k x' = tag'.

  (* what an accepted (c', ad') looks like *)
  Lemma etm_dec_ok_inv prefix k c' ad' p' : dec_canon prefix k c' ad' = Ok p' ->
    (length prefix + ek_iv k + ek_tag k <= length c')%nat /\
    firstn (length prefix) c' = prefix /\
    mac_of k ad' (payload_of (length prefix) k c') = tag_of k c' /\
    c' = prefix ++ payload_of (length prefix) k c' ++ tag_of k c'.
  Proof.
    unfold etm_dec_canon. set (pl := length prefix).
    destruct (Nat.leb_spec (pl + ek_iv k + ek_tag k) (length c')) as [Hl|]; [|discriminate].
    destruct (beq (firstn pl c') prefix) eqn:Ep; [|discriminate].
    destruct (beq (mac_of k ad' (payload_of pl k c')) (tag_of k c')) eqn:Em; [|discriminate].
    intros _. apply beq_eq in Ep. apply beq_eq in Em. repeat split; try assumption.
    rewrite <- Ep at 1. unfold EtMProofs.payload_of, EtMProofs.tag_of.
    replace (length c' - ek_tag k)%nat with (pl + (length c' - ek_tag k - pl))%nat at 2 by lia.
    apply split3. lia.
  Qed.

  (* the presented tag of an accepted ciphertext has exactly the key's tag size (>= 10 bytes for
     every key the constructors accept: EtM.etm_valid; internal/mac/hmac.New and
     aead/subtle.NewEncryptThenAuthenticate minTagSizeInBytes = 10, aesctrhmac.NewParameters) *)
  Lemma etm_accepted_tag_length prefix k c' ad' p' :
    dec_canon prefix k c' ad' = Ok p' -> length (tag_of k c') = ek_tag k.
  Proof.
    intros Hd. destruct (etm_dec_ok_inv _ _ _ _ _ Hd) as [Hl _].
    unfold EtMProofs.tag_of. rewrite skipn_length. lia.
  Qed.

  (* ---- the reduction: an accepted mutant is a MAC forgery ---- *)
  Theorem etm_accepted_mutant_is_forgery prefix k iv p ad c c' ad' p' :
    (ek_tag k <= hlen)%nat -> lenN ad < 2 ^ 61 -> lenN ad' < 2 ^ 61 ->
    etm_enc aes hmac prefix k iv p ad = Ok c ->
    dec_canon prefix k c' ad' = Ok p' ->
    (c', ad') <> (c, ad) ->
    let x := mac_input ad (iv ++ aes_ctr (aes (ek_aes k)) iv p) in
    let x' := mac_input ad' (payload_of (length prefix) k c') in
    hmac_forgery k x x' (tag_of k c') /\ tmac k x = tag_of k c.
  Proof.
    intros Ht Ha Ha' He Hd Hne x x'.
    apply (etm_enc_inv aes hmac hlen aes_len hmac_len) in He; [|exact Ht]. destruct He as [_ Hc].
    set (body := aes_ctr (aes (ek_aes k)) iv p) in *.
    destruct (etm_dec_ok_inv _ _ _ _ _ Hd) as [Hl [Hp [Hm Hsplit]]].
    assert (Htag : tag_of k c = tmac k x).
    { subst c. unfold EtMProofs.tag_of.
      assert (Hml : length (EtMProofs.mac_of hmac k ad (iv ++ body)) = ek_tag k)
        by (apply (mac_of_length aes hmac hlen aes_len hmac_len); exact Ht).
      replace (prefix ++ (iv ++ body) ++ EtMProofs.mac_of hmac k ad (iv ++ body))
        with ((prefix ++ iv ++ body) ++ EtMProofs.mac_of hmac k ad (iv ++ body))
        by (rewrite <- !app_assoc; reflexivity).
      rewrite skipn_app_len by (rewrite !app_length, Hml; lia). reflexivity. }
    split; [split|symmetry; exact Htag].
    - intros Ex. apply mac_input_injective in Ex; [|exact Ha'|exact Ha]. destruct Ex as [Ead Epl].
      apply Hne. f_equal; [|exact Ead].
      rewrite Hsplit, Hc. rewrite <- Hm, Epl, Ead. reflexivity.
    - exact Hm.
  Qed.

  (* the same for the Go bodies (aead/aesctrhmac Decrypt and subtle.EncryptThenAuthenticate) *)
  Corollary etm_dec_accepted_mutant_is_forgery prefix k iv p ad c c' ad' p' :
    (ek_tag k <= hlen)%nat -> lenN ad < 2 ^ 61 -> lenN ad' < 2 ^ 61 ->
    etm_enc aes hmac prefix k iv p ad = Ok c ->
    etm_dec aes hmac prefix k c' ad' = Ok p' ->
    (c', ad') <> (c, ad) ->
    hmac_forgery k (mac_input ad (iv ++ aes_ctr (aes (ek_aes k)) iv p))
                   (mac_input ad' (payload_of (length prefix) k c')) (tag_of k c') /\
    tmac k (mac_input ad (iv ++ aes_ctr (aes (ek_aes k)) iv p)) = tag_of k c.
  Proof.
    intros Ht Ha Ha' He Hd Hne. rewrite (etm_dec_is_canon aes hmac hlen aes_len hmac_len) in Hd by exact Ht.
    exact (etm_accepted_mutant_is_forgery prefix k iv p ad c c' ad' p' Ht Ha Ha' He Hd Hne).
  Qed.

  Lemma dec_canon_err_or_ok prefix k c ad : dec_canon prefix k c ad = Err \/ exists p, dec_canon prefix k c ad = Ok p.
  Proof. unfold etm_dec_canon. destruct (_ && _ && _)%bool; [right; eauto|left; reflexivity]. Qed.

  (* ---- what happens to a modified pair, with the ONE MAC input it parses to:
     x' = mac_input ad' (payload of c').  Either x' is the authenticated input x — then only
     the tag bytes can have changed and the pair is rejected outright — or x' is fresh (Encrypt
     never authenticated it) and the pair is rejected unless the presented tag IS the truncated
     HMAC of x'.  The hypothesis of the middle clause is per-instance: it speaks of this
     mutant's MAC input only; real HMAC satisfies it except with the forgery probability. ---- *)
  Theorem etm_mutant_rejected_unless_forged prefix k iv p ad c c' ad' :
    (ek_tag k <= hlen)%nat -> lenN ad < 2 ^ 61 -> lenN ad' < 2 ^ 61 ->
    etm_enc aes hmac prefix k iv p ad = Ok c ->
    (c', ad') <> (c, ad) ->
    let x := mac_input ad (iv ++ aes_ctr (aes (ek_aes k)) iv p) in
    let x' := mac_input ad' (payload_of (length prefix) k c') in
    (x' = x -> etm_dec aes hmac prefix k c' ad' = Err) /\
    (tag_of k c' <> tmac k x' -> etm_dec aes hmac prefix k c' ad' = Err) /\
    (forall p', etm_dec aes hmac prefix k c' ad' = Ok p' -> x' <> x /\ tag_of k c' = tmac k x').
  Proof.
    intros Ht Ha Ha' He Hne x x'. rewrite (etm_dec_is_canon aes hmac hlen aes_len hmac_len) by exact Ht.
    assert (Hacc : forall p', dec_canon prefix k c' ad' = Ok p' -> x' <> x /\ tag_of k c' = tmac k x').
    { intros p' E.
      destruct (etm_accepted_mutant_is_forgery prefix k iv p ad c c' ad' p' Ht Ha Ha' He E Hne) as [[Hx Hv] _].
      split; [exact Hx|symmetry; exact Hv]. }
    split; [|split; [|exact Hacc]].
    - intros Ex. destruct (dec_canon_err_or_ok prefix k c' ad') as [E|[p' E]]; [exact E|].
      exfalso. exact (proj1 (Hacc p' E) Ex).
    - intros Hn. destruct (dec_canon_err_or_ok prefix k c' ad') as [E|[p' E]]; [exact E|].
      exfalso. exact (Hn (proj2 (Hacc p' E))).
  Qed.

  (* ---- no law at all: whatever leaves ad and prefix||iv||body alone is rejected
     (every modification confined to the tag: the whole tag is compared) ---- *)
  Theorem etm_tag_only_mutation_rejected prefix k iv p ad c c' :
    (ek_tag k <= hlen)%nat ->
    etm_enc aes hmac prefix k iv p ad = Ok c ->
    length c' = length c -> firstn (length c - ek_tag k) c' = firstn (length c - ek_tag k) c ->
    c' <> c ->
    etm_dec aes hmac prefix k c' ad = Err.
  Proof.
    intros Ht He Hlen Hsame Hne. rewrite (etm_dec_is_canon aes hmac hlen aes_len hmac_len) by exact Ht.
    destruct (dec_canon_err_or_ok prefix k c' ad) as [E|[p' E]]; [exact E|exfalso].
    destruct (etm_dec_ok_inv _ _ _ _ _ E) as [Hl [Hp [Hm Hsplit]]].
    apply (etm_enc_inv aes hmac hlen aes_len hmac_len) in He; [|exact Ht]. destruct He as [_ Hc].
    set (body := aes_ctr (aes (ek_aes k)) iv p) in *.
    set (tag := EtMProofs.mac_of hmac k ad (iv ++ body)) in *.
    assert (Htl : length tag = ek_tag k) by (apply (mac_of_length aes hmac hlen aes_len hmac_len); exact Ht).
    assert (Hcl : (length c - ek_tag k)%nat = length (prefix ++ iv ++ body)).
    { rewrite Hc, !app_length, Htl. lia. }
    assert (Hhead : firstn (length c - ek_tag k) c = prefix ++ iv ++ body).
    { rewrite Hcl, Hc. replace (prefix ++ (iv ++ body) ++ tag) with ((prefix ++ iv ++ body) ++ tag)
        by (rewrite <- !app_assoc; reflexivity). apply firstn_app_exact. }
    assert (Hpay : payload_of (length prefix) k c' = iv ++ body).
    { unfold EtMProofs.payload_of. rewrite firstn_skipn_comm.
      replace (length prefix + (length c' - ek_tag k - length prefix))%nat with (length c - ek_tag k)%nat by lia.
      rewrite Hsame, Hhead. apply skipn_app_exact. }
    apply Hne. rewrite <- (firstn_skipn (length c - ek_tag k) c'). rewrite Hsame, Hhead.
    unfold EtMProofs.tag_of in Hm. rewrite Hlen in Hm. rewrite <- Hm, Hpay.
    rewrite Hc, <- !app_assoc. reflexivity.
  Qed.

  (* ---- modifications that keep the tag bytes (flips in IV or body, cuts and extensions that
     re-attach the tag, other AD): rejected when the truncated HMACs of THIS mutant's MAC input
     and of the authenticated input differ (per-instance: one pair of inputs; real HMAC
     satisfies it except with the collision probability 2^-(8 tag size)) ---- *)
  Theorem etm_tag_kept_mutation_rejected prefix k iv p ad c c' ad' :
    (ek_tag k <= hlen)%nat -> lenN ad < 2 ^ 61 -> lenN ad' < 2 ^ 61 ->
    etm_enc aes hmac prefix k iv p ad = Ok c ->
    (c', ad') <> (c, ad) -> tag_of k c' = tag_of k c ->
    let x := mac_input ad (iv ++ aes_ctr (aes (ek_aes k)) iv p) in
    let x' := mac_input ad' (payload_of (length prefix) k c') in
    (x' <> x -> tmac k x' <> tmac k x) ->
    etm_dec aes hmac prefix k c' ad' = Err.
  Proof.
    intros Ht Ha Ha' He Hne Htag x x' Hinst. rewrite (etm_dec_is_canon aes hmac hlen aes_len hmac_len) by exact Ht.
    destruct (dec_canon_err_or_ok prefix k c' ad') as [E|[p' E]]; [exact E|exfalso].
    destruct (etm_accepted_mutant_is_forgery prefix k iv p ad c c' ad' p' Ht Ha Ha' He E Hne) as [[Hx Hv] Ho].
    apply (Hinst Hx). fold x' in Hv. fold x in Ho. rewrite Hv, Ho. exact Htag.
  Qed.
End EtMMutation.

(* ---- non-vacuity.
   (1) With a MAC without any strength (constant) the "bad" event of the reduction really
   happens: a body flip IS accepted and is a forgery in the sense above (two different MAC
   inputs, same 10-byte tag) — the forgery conclusion is not an artefact.
   (2) ONE instance inhabits the round-trip theorem and the rejection theorems together: a toy
   MAC that copies the end of its input (toy_hmac_copy), key with 12-byte IV and 10-byte tag:
   Encrypt succeeds, Decrypt returns the plaintext, and for the mutant with one body bit
   flipped the per-instance hypotheses hold (the presented tag is not the truncated MAC of the
   mutant's MAC input; the two MAC inputs have different truncated MACs) and it is rejected. *)
Definition toy_aes (k b : bytes) : bytes := zeros 16.
Definition toy_hmac_const (k m : bytes) : bytes := zeros 20.
Definition toy_hmac_copy (k m : bytes) : bytes := firstn 20 (rev m ++ zeros 20).
Definition toy_key : etm_key := mkEtm (zeros 16) (zeros 16) 12 10.

Example etm_forgery_event_is_real :
  let c := match etm_enc toy_aes toy_hmac_const [] toy_key (zeros 12) [1; 2; 3] [9] with Ok c => c | _ => [] end in
  let c' := flip_bit 13 0 c in
  etm_dec toy_aes toy_hmac_const [] toy_key c' [9] = Ok [1; 3; 3] /\
  hmac_forgery toy_hmac_const toy_key (mac_input [9] (zeros 12 ++ [1; 2; 3]))
               (mac_input [9] (payload_of 0 toy_key c')) (tag_of toy_key c').
Proof. cbv zeta. split; [vm_compute; reflexivity|]. split; [vm_compute; discriminate|vm_compute; reflexivity]. Qed.

Example etm_one_instance_round_trip_and_rejection :
  let k := toy_key in
  let x := mac_input [9] (zeros 12 ++ aes_ctr (toy_aes (ek_aes k)) (zeros 12) [1; 2; 3]) in
  exists c, etm_enc toy_aes toy_hmac_copy [] k (zeros 12) [1; 2; 3] [9] = Ok c /\
    etm_dec toy_aes toy_hmac_copy [] k c [9] = Ok [1; 2; 3] /\
    let c' := flip_bit 13 0 c in
    let x' := mac_input [9] (payload_of 0 k c') in
    (c', [9]) <> (c, [9]) /\ x' <> x /\
    tag_of k c' <> tmac toy_hmac_copy k x' /\                 (* hypothesis of etm_mutant_rejected_unless_forged *)
    tag_of k c' = tag_of k c /\ tmac toy_hmac_copy k x' <> tmac toy_hmac_copy k x /\   (* of etm_tag_kept_mutation_rejected *)
    etm_dec toy_aes toy_hmac_copy [] k c' [9] = Err.
Proof.
  cbv zeta. eexists. split; [vm_compute; reflexivity|]. split; [vm_compute; reflexivity|].
  repeat split; try (vm_compute; reflexivity); vm_compute; discriminate.
Qed.
