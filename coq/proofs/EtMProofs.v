(* Proofs about model/EtM.v (AES-CTR-HMAC): canonical form of Decrypt, round
   trip, exact acceptance set proved from the model (only the output lengths
   of AES and HMAC are assumed), MAC-input injectivity, no panic. *)
From Coq Require Import List NArith Bool Arith Lia ZifyN ZifyNat ZifyBool.
From Tink Require Import Bytes AeadFrame AeadFrameProofs Ctr CtrProofs EtM.
Import ListNotations.
Open Scope N_scope.

Lemma app_eq_len_l {A} (a a' b b' : list A) : length a = length a' -> a ++ b = a' ++ b' -> a = a' /\ b = b'.
Proof.
  intros Hl H. split.
  - apply (f_equal (firstn (length a))) in H. rewrite firstn_app_exact in H.
    rewrite Hl, firstn_app_exact in H. exact H.
  - apply (f_equal (skipn (length a))) in H. rewrite skipn_app_exact in H.
    rewrite Hl, skipn_app_exact in H. exact H.
Qed.

Lemma app_eq_len_r {A} (a a' b b' : list A) : length b = length b' -> a ++ b = a' ++ b' -> a = a' /\ b = b'.
Proof.
  intros Hl H. apply app_eq_len_l; [|exact H].
  apply (f_equal (@length A)) in H. rewrite !app_length in H. lia.
Qed.

Lemma firstn_plus {A} a b (l : list A) : firstn (a + b) l = firstn a l ++ firstn b (skipn a l).
Proof.
  revert l; induction a as [|a IH]; intros l; [reflexivity|].
  destruct l; simpl; [rewrite firstn_nil; reflexivity|]. f_equal. apply IH.
Qed.

(* ---- the MAC input  ad || payload || be64(8|ad|)  determines (ad, payload) ---- *)
Lemma mac_input_injective ad1 x1 ad2 x2 :
  lenN ad1 < 2 ^ 61 -> lenN ad2 < 2 ^ 61 ->
  mac_input ad1 x1 = mac_input ad2 x2 -> ad1 = ad2 /\ x1 = x2.
Proof.
  intros H1 H2 H. unfold mac_input in H. rewrite !app_assoc in H.
  apply app_eq_len_r in H; [|unfold ad_bits; rewrite !be_bytes_length; reflexivity].
  destruct H as [Hax Hb]. unfold ad_bits in Hb.
  apply (be_bytes_inj 8) in Hb; [| change (256 ^ N.of_nat 8) with (2 ^ 64); lia ..].
  apply app_eq_len_l in Hax; [exact Hax|]. unfold lenN in *. lia.
Qed.

Section EtMProofs.
  Variable aes : bytes -> bytes -> bytes.
  Variable hmac : bytes -> bytes -> bytes.
  Variable hlen : nat.
  Hypothesis aes_len : forall k b, length (aes k b) = 16%nat.
  Hypothesis hmac_len : forall k m, length (hmac k m) = hlen.

  Definition payload_of (pl : nat) (k : etm_key) (c : bytes) : bytes :=
    firstn (length c - ek_tag k - pl) (skipn pl c).
  Definition tag_of (k : etm_key) (c : bytes) : bytes := skipn (length c - ek_tag k) c.
  Definition mac_of (k : etm_key) (ad payload : bytes) : bytes :=
    firstn (ek_tag k) (hmac (ek_hmac k) (mac_input ad payload)).

  Lemma compute_mac_ok k ad payload : (ek_tag k <= hlen)%nat ->
    compute_mac hmac k ad payload = Ok (mac_of k ad payload).
  Proof.
    intros H. unfold compute_mac. rewrite slice_ok by (rewrite ?hmac_len; lia).
    rewrite Nat.sub_0_r. reflexivity.
  Qed.

  Lemma mac_of_length k ad payload : (ek_tag k <= hlen)%nat -> length (mac_of k ad payload) = ek_tag k.
  Proof. intros H. unfold mac_of. rewrite firstn_length, hmac_len. lia. Qed.

  Definition etm_dec_canon (prefix : bytes) (k : etm_key) (c ad : bytes) : outcome bytes :=
    let pl := length prefix in
    let payload := payload_of pl k c in
    if Nat.leb (pl + ek_iv k + ek_tag k) (length c) && beq (firstn pl c) prefix
       && beq (mac_of k ad payload) (tag_of k c)
    then Ok (aes_ctr (aes (ek_aes k)) (firstn (ek_iv k) payload) (skipn (ek_iv k) payload))
    else Err.

  Lemma ctr_decrypt_ok k payload : (ek_iv k <= length payload)%nat ->
    ctr_decrypt aes k payload = Ok (aes_ctr (aes (ek_aes k)) (firstn (ek_iv k) payload) (skipn (ek_iv k) payload)).
  Proof.
    intros H. unfold ctr_decrypt. destruct (Nat.ltb_spec (length payload) (ek_iv k)); [lia|].
    rewrite slice_ok by lia. simpl. rewrite slice_ok by lia. simpl.
    rewrite Nat.sub_0_r. rewrite (firstn_all2 (n := (length payload - ek_iv k)%nat)) by (rewrite skipn_length; lia).
    reflexivity.
  Qed.

  Lemma etm_dec_is_canon prefix k c ad : (ek_tag k <= hlen)%nat ->
    etm_dec aes hmac prefix k c ad = etm_dec_canon prefix k c ad.
  Proof.
    intros Ht. unfold etm_dec, etm_dec_canon. set (pl := length prefix).
    destruct (Nat.ltb_spec (length c) (pl + ek_iv k + ek_tag k)) as [Hs|Hl];
      destruct (Nat.leb_spec (pl + ek_iv k + ek_tag k) (length c)); try lia; [reflexivity|].
    simpl. rewrite slice_ok by lia. simpl. rewrite Nat.sub_0_r.
    destruct (beq (firstn pl c) prefix); simpl; [|reflexivity].
    rewrite slice_ok by lia. simpl. rewrite slice_ok by lia. simpl.
    rewrite compute_mac_ok by exact Ht. simpl.
    unfold payload_of, tag_of.
    rewrite (firstn_all2 (n := (length c - (length c - ek_tag k))%nat)) by (rewrite skipn_length; lia).
    destruct (beq _ _); simpl; [|reflexivity].
    apply ctr_decrypt_ok. rewrite firstn_length, skipn_length. lia.
  Qed.

  Lemma etm_enc_ok prefix k iv p ad : (ek_tag k <= hlen)%nat -> lenN p <= MaxInt - N.of_nat (ek_iv k) ->
    etm_enc aes hmac prefix k iv p ad =
    Ok (prefix ++ (iv ++ aes_ctr (aes (ek_aes k)) iv p)
        ++ mac_of k ad (iv ++ aes_ctr (aes (ek_aes k)) iv p)).
  Proof.
    intros Ht Hp. unfold etm_enc, ctr_encrypt.
    destruct (N.ltb_spec (MaxInt - N.of_nat (ek_iv k)) (lenN p)); [lia|]. simpl.
    rewrite compute_mac_ok by exact Ht. simpl. rewrite mac_of_length by exact Ht.
    rewrite Nat.eqb_refl. reflexivity.
  Qed.

  Lemma etm_enc_inv prefix k iv p ad c : (ek_tag k <= hlen)%nat ->
    etm_enc aes hmac prefix k iv p ad = Ok c ->
    lenN p <= MaxInt - N.of_nat (ek_iv k) /\
    c = prefix ++ (iv ++ aes_ctr (aes (ek_aes k)) iv p) ++ mac_of k ad (iv ++ aes_ctr (aes (ek_aes k)) iv p).
  Proof.
    intros Ht H. destruct (N.ltb_spec (MaxInt - N.of_nat (ek_iv k)) (lenN p)) as [Hb|Hb].
    - unfold etm_enc, ctr_encrypt in H. destruct (N.ltb_spec (MaxInt - N.of_nat (ek_iv k)) (lenN p)); [discriminate|lia].
    - rewrite etm_enc_ok in H by assumption. inversion H. auto.
  Qed.

  (* -- C01: round trip -- *)
  Lemma etm_round_trip prefix k iv p ad c : (ek_tag k <= hlen)%nat -> length iv = ek_iv k ->
    etm_enc aes hmac prefix k iv p ad = Ok c -> etm_dec_canon prefix k c ad = Ok p.
  Proof.
    intros Ht Hiv H. apply etm_enc_inv in H; [|exact Ht]. destruct H as [_ ->].
    set (body := aes_ctr (aes (ek_aes k)) iv p).
    set (tag := mac_of k ad (iv ++ body)).
    assert (Hbl : length body = length p) by (apply aes_ctr_length; apply aes_len).
    assert (Htl : length tag = ek_tag k) by (apply mac_of_length; exact Ht).
    unfold etm_dec_canon, payload_of, tag_of.
    rewrite !app_length, Htl, firstn_app_exact, beq_refl.
    destruct (Nat.leb_spec (length prefix + ek_iv k + ek_tag k) (length prefix + (length iv + length body + ek_tag k))); [|lia].
    rewrite skipn_app_exact.
    replace (length prefix + (length iv + length body + ek_tag k) - ek_tag k - length prefix)%nat
      with (length (iv ++ body)) by (rewrite app_length; lia).
    rewrite firstn_app_exact. fold tag.
    replace (length prefix + (length iv + length body + ek_tag k) - ek_tag k)%nat
      with (length (prefix ++ iv ++ body)) by (rewrite !app_length; lia).
    replace (prefix ++ (iv ++ body) ++ tag) with ((prefix ++ iv ++ body) ++ tag) by (rewrite <- !app_assoc; reflexivity).
    rewrite skipn_app_exact, beq_refl. simpl.
    rewrite <- Hiv, firstn_app_exact, skipn_app_exact. f_equal.
    apply aes_ctr_involutive. apply aes_len.
  Qed.

  (* -- C02: exact acceptance set, proved from the model -- *)
  Lemma etm_accept_iff prefix k c ad p : (ek_tag k <= hlen)%nat -> lenN c <= MaxInt ->
    (etm_dec_canon prefix k c ad = Ok p <->
     exists iv, length iv = ek_iv k /\ etm_enc aes hmac prefix k iv p ad = Ok c).
  Proof.
    intros Ht Hc. split.
    2:{ intros [iv [Hiv H]]. eapply etm_round_trip; eauto. }
    unfold etm_dec_canon. set (pl := length prefix). set (payload := payload_of pl k c).
    destruct (Nat.leb_spec (pl + ek_iv k + ek_tag k) (length c)) as [Hl|]; [|discriminate].
    destruct (beq (firstn pl c) prefix) eqn:Ep; [|discriminate].
    destruct (beq (mac_of k ad payload) (tag_of k c)) eqn:Em; [|discriminate].
    simpl. intros H. inversion H as [Hp]; clear H.
    apply beq_eq in Ep. apply beq_eq in Em.
    assert (Hpl : length payload = (length c - ek_tag k - pl)%nat).
    { unfold payload, payload_of. rewrite firstn_length, skipn_length. lia. }
    exists (firstn (ek_iv k) payload). split; [rewrite firstn_length; lia|].
    rewrite etm_enc_ok; [| exact Ht |].
    2:{ unfold lenN in *. rewrite aes_ctr_length by apply aes_len. rewrite skipn_length. lia. }
    f_equal. rewrite aes_ctr_involutive by apply aes_len. rewrite firstn_skipn.
    rewrite Em.
    transitivity (firstn pl c ++ firstn (length c - ek_tag k - pl) (skipn pl c)
                  ++ skipn (pl + (length c - ek_tag k - pl)) c).
    2:{ symmetry. apply split3. lia. }
    rewrite Ep. unfold payload, payload_of, tag_of. do 2 f_equal. f_equal. lia.
  Qed.

  (* -- C02: short / wrong prefix / wrong tag are errors -- *)
  Lemma etm_too_short prefix k c ad :
    (length c < length prefix + ek_iv k + ek_tag k)%nat -> etm_dec_canon prefix k c ad = Err.
  Proof.
    intros H. unfold etm_dec_canon.
    destruct (Nat.leb_spec (length prefix + ek_iv k + ek_tag k) (length c)); [lia|]. reflexivity.
  Qed.

  Lemma etm_wrong_prefix prefix k c ad :
    firstn (length prefix) c <> prefix -> etm_dec_canon prefix k c ad = Err.
  Proof.
    intros H. unfold etm_dec_canon.
    destruct (beq (firstn (length prefix) c) prefix) eqn:E; [apply beq_eq in E; contradiction|].
    rewrite andb_false_r. reflexivity.
  Qed.

  (* the whole tag is compared *)
  Lemma etm_wrong_tag prefix k c ad :
    tag_of k c <> mac_of k ad (payload_of (length prefix) k c) -> etm_dec_canon prefix k c ad = Err.
  Proof.
    intros H. unfold etm_dec_canon.
    destruct (beq (mac_of k ad (payload_of (length prefix) k c)) (tag_of k c)) eqn:E;
      [apply beq_eq in E; congruence|].
    rewrite andb_false_r. reflexivity.
  Qed.

  (* -- C02: no panic -- *)
  Lemma etm_dec_no_panic prefix k c ad : (ek_tag k <= hlen)%nat -> etm_dec aes hmac prefix k c ad <> Panic.
  Proof.
    intros Ht. rewrite etm_dec_is_canon by exact Ht. unfold etm_dec_canon.
    destruct (_ && _ && _)%bool; discriminate.
  Qed.

  Lemma etm_enc_no_panic prefix k iv p ad : (ek_tag k <= hlen)%nat -> etm_enc aes hmac prefix k iv p ad <> Panic.
  Proof.
    intros Ht. destruct (N.ltb_spec (MaxInt - N.of_nat (ek_iv k)) (lenN p)) as [Hb|Hb].
    - unfold etm_enc, ctr_encrypt. destruct (N.ltb_spec (MaxInt - N.of_nat (ek_iv k)) (lenN p)); [discriminate|lia].
    - rewrite etm_enc_ok by assumption. discriminate.
  Qed.

  (* subtle.EncryptThenAuthenticate.Decrypt is the same function (no prefix) *)
  Lemma etm_subtle_dec_eq k c ad : (ek_tag k <= hlen)%nat ->
    etm_subtle_dec aes hmac k c ad = etm_dec aes hmac [] k c ad.
  Proof.
    intros Ht. unfold etm_subtle_dec, etm_dec. cbn [length Nat.add].
    destruct (Nat.ltb_spec (length c) (ek_tag k)) as [H1|H1].
    - destruct (Nat.ltb_spec (length c) (ek_iv k + ek_tag k)); [reflexivity|lia].
    - rewrite !slice_ok by lia. cbn [bind]. rewrite compute_mac_ok by exact Ht. cbn [bind firstn beq negb].
      destruct (Nat.ltb_spec (length c) (ek_iv k + ek_tag k)) as [H2|H2]; [|reflexivity].
      destruct (negb _); [reflexivity|].
      unfold ctr_decrypt. rewrite firstn_length, skipn_length.
      destruct (Nat.ltb_spec (Nat.min (length c - ek_tag k - 0) (length c - 0)) (ek_iv k)); [reflexivity|lia].
  Qed.
End EtMProofs.
