(* Non-vacuous binding theorems for model/Ecies.v.

   EciesProofs.v concludes "hkdf_collision \/ dem_key_collision".  Both hold
   outright: [hkdf_collision] quantifies the output length (n = 0 gives [] = []
   by the length law), [dem_key_collision] quantifies the DEM and
   [dem_frame XCHACHA20_POLY1305 _ _ _ = []] for every key (lemmas
   [old_hkdf_collision_trivial], [old_dem_key_collision_trivial] below).

   Here the conclusions name the calls of THIS run that coincide:
     - [dem_clash]   one DEM ciphertext of a supported DEM is a frame under two
                     different keys of the DEM's key size,
     - [hkdf_clash]  HKDF(kem || dh, salt, info) read for the DEM key size
                     (>= 16 bytes) gives one key for different (ikm, info),
   and, for decryption under another private key, the third possibility that
   really occurs:
     - the two private keys have the same ECDH value on the ephemeral point
       (on a Weierstrass curve: d' = +-d mod n).  The recipient public key is
       not an input of the KDF, so then decryption SUCCEEDS
       ([ecies_other_key_same_dh_decrypts]); the clause "another private key
       yields an error" is false for ECIES ([ecies_other_private_key_refuted],
       confirmed on the real code: findings/ecies_negated_private_key). *)
From Coq Require Import List NArith Bool Arith Lia ZifyN ZifyNat ZifyBool.
From Tink Require Import Bytes Hpke Ecies HpkeProofs EciesProofs.
Import ListNotations.
Open Scope N_scope.

Lemma dem_key_size_pos d : (0 < dem_key_size d)%nat.
Proof. destruct d; simpl; lia. Qed.

Section EciesBinding.
  Variable ec_dh : curve -> bytes -> bytes -> option bytes.
  Variable ec_pub : curve -> bytes -> option bytes.
  Variable ec_oncurve : curve -> bytes -> bytes -> bool.
  Variable ec_decompress : curve -> bytes -> option bytes.
  Variable hkdf : hash -> bytes -> bytes -> bytes -> nat -> bytes.
  Variable gcm_seal : bytes -> bytes -> bytes -> bytes -> bytes.
  Variable gcm_open : bytes -> bytes -> bytes -> bytes -> option bytes.
  Variable aes_ctr : bytes -> bytes -> bytes -> bytes.
  Variable hmac_sha256 : bytes -> bytes -> bytes.
  Variable siv_seal : bytes -> bytes -> bytes -> bytes.
  Variable siv_open : bytes -> bytes -> bytes -> option bytes.

  Notation PointDecode := (point_decode ec_oncurve ec_decompress).
  Notation Shared := (compute_shared_secret ec_dh ec_oncurve).
  Notation Decapsulate := (ecies_decapsulate ec_dh ec_oncurve ec_decompress hkdf).
  Notation DemDecrypt := (dem_decrypt gcm_open aes_ctr hmac_sha256 siv_open).
  Notation DemFrame := (dem_frame gcm_seal aes_ctr hmac_sha256 siv_seal).
  Notation Encrypt := (ecies_encrypt ec_dh ec_pub ec_oncurve hkdf gcm_seal aes_ctr hmac_sha256 siv_seal).
  Notation Decrypt := (ecies_decrypt ec_dh ec_oncurve ec_decompress hkdf gcm_open aes_ctr hmac_sha256 siv_open).

  (* ---- the events ---- *)
  Definition hkdf_clash (h : hash) (ikm salt info ikm' salt' info' : bytes) (n : nat) : Prop :=
    (0 < n)%nat /\ (ikm <> ikm' \/ salt <> salt' \/ info <> info') /\
    hkdf h ikm salt info n = hkdf h ikm' salt' info' n.
  Definition dem_clash (d : dem) (key iv p key' iv' p' : bytes) : Prop :=
    dem_supported d = true /\ length key = dem_key_size d /\ length key' = dem_key_size d /\ key <> key' /\
    DemFrame d key iv p = DemFrame d key' iv' p'.

  Hypothesis hkdf_len : forall h ikm salt info n, length (hkdf h ikm salt info n) = n.

  (* ---- laws ---- *)
  Hypothesis ec_dh_comm : forall c a b A B,
    ec_pub c a = Some A -> ec_pub c b = Some B -> ec_dh c a B = ec_dh c b A.
  Hypothesis ec_pub_shape : forall c sk P, ec_pub c sk = Some P ->
    length P = (1 + 2 * field_size c)%nat /\ hd 0 P = 4 /\
    ec_oncurve c (coord_x c P) (coord_y c P) = true.
  Hypothesis ec_decompress_compress : forall c x y,
    ec_oncurve c x y = true -> length x = field_size c -> length y = field_size c ->
    ec_decompress c ((if N.odd (last y 0) then 3 else 2) :: x) = Some (4 :: x ++ y).
  Hypothesis gcm_open_seal : forall k iv ad p, gcm_open k iv ad (gcm_seal k iv ad p) = Some p.
  Hypothesis gcm_open_sound : forall k iv ad c p, gcm_open k iv ad c = Some p -> c = gcm_seal k iv ad p.
  Hypothesis gcm_seal_len : forall k iv ad p, length (gcm_seal k iv ad p) = (length p + 16)%nat.
  Hypothesis aes_ctr_involutive : forall k iv x, aes_ctr k iv (aes_ctr k iv x) = x.
  Hypothesis hmac_len : forall k m, length (hmac_sha256 k m) = 32%nat.
  Hypothesis siv_open_seal : forall k ad p, siv_open k ad (siv_seal k ad p) = Some p.
  Hypothesis siv_open_sound : forall k ad c p, siv_open k ad c = Some p -> c = siv_seal k ad p.

  Lemma decrypt_iff c h f d salt prefix skR ct info p : primitive_supported c f d = true ->
    (Decrypt c h f d salt prefix skR ct info = Ok p <->
     exists kem key iv, encoding_size c f = Ok (length kem) /\
       Decapsulate c h f salt info (dem_key_size d) skR kem = Ok key /\
       length iv = dem_iv_size d /\ ct = prefix ++ kem ++ DemFrame d key iv p).
  Proof. intros. eapply ecies_decrypt_iff; eassumption. Qed.

  Lemma enc_shape c h f d salt prefix skR pkR eph iv info pt ct :
    ec_pub c skR = Some pkR ->
    Encrypt c h f d salt prefix pkR eph iv info pt = Ok ct ->
    exists kem key, encoding_size c f = Ok (length kem) /\
      Decapsulate c h f salt info (dem_key_size d) skR kem = Ok key /\
      primitive_supported c f d = true /\
      ct = prefix ++ kem ++ DemFrame d key iv pt.
  Proof. intros. eapply ecies_encrypt_shape; eassumption. Qed.

  Lemma dem_dec_iff d key body p : length key = dem_key_size d -> dem_supported d = true ->
    (DemDecrypt d key body = Ok p <-> exists iv, length iv = dem_iv_size d /\ body = DemFrame d key iv p).
  Proof. intros. eapply dem_decrypt_iff; eassumption. Qed.

  (* one body, one key, two openings: the same plaintext *)
  Lemma dem_frame_same_key d key iv p iv' p' :
    length key = dem_key_size d -> dem_supported d = true ->
    length iv = dem_iv_size d -> length iv' = dem_iv_size d ->
    DemFrame d key iv p = DemFrame d key iv' p' -> p' = p.
  Proof.
    intros Lk Ds Li Li' E.
    assert (H1 : DemDecrypt d key (DemFrame d key iv p) = Ok p) by (apply dem_dec_iff; eauto).
    assert (H2 : DemDecrypt d key (DemFrame d key iv p) = Ok p') by (apply dem_dec_iff; eauto).
    congruence.
  Qed.

  (* decapsulation, taken apart down to the ECDH call *)
  Lemma decapsulate_explicit c h f salt info n skR kem key :
    Decapsulate c h f salt info n skR kem = Ok key ->
    exists P s, PointDecode c f kem = Ok P /\ ec_dh c skR P = Some s /\
      key = hkdf h (kem ++ s) (effective_salt h salt) info n /\ length key = n.
  Proof.
    unfold ecies_decapsulate. intros H. inv_bind H. rename v into P. inv_bind Hb. rename v into s.
    exists P, s. split; [exact Ha|].
    unfold compute_shared_secret in Hba. destruct (negb _); [discriminate|].
    destruct (ec_dh c skR P) as [s0|] eqn:Ed; [|discriminate].
    assert (s0 = s) by congruence. subst s0. split; [reflexivity|].
    unfold compute_hkdf in Hbb. destruct (Nat.ltb _ _); [discriminate|]. destruct (Nat.ltb _ _); [discriminate|].
    assert (E : key = hkdf h (kem ++ s) (effective_salt h salt) info n) by (unfold effective_salt; congruence).
    split; [exact E|rewrite E; apply hkdf_len].
  Qed.

  Lemma supported_dem' c f d : primitive_supported c f d = true -> dem_supported d = true.
  Proof. destruct c, f, d; simpl; intros; try discriminate; reflexivity. Qed.

  (* ---------------------------------------------------------------- *)
  (* changed KEM bytes and/or info, DEM ciphertext untouched            *)
  (* ---------------------------------------------------------------- *)
  Theorem ecies_binding_kem_info_explicit c h f d salt prefix skR pkR eph iv info pt ct kem body kem' info' p' :
    ec_pub c skR = Some pkR -> length iv = dem_iv_size d ->
    Encrypt c h f d salt prefix pkR eph iv info pt = Ok ct ->
    ct = prefix ++ kem ++ body -> encoding_size c f = Ok (length kem) -> length kem' = length kem ->
    (kem' <> kem \/ info' <> info) ->
    Decrypt c h f d salt prefix skR (prefix ++ kem' ++ body) info' = Ok p' ->
    exists P s P' s' key key' iv',
      PointDecode c f kem = Ok P /\ ec_dh c skR P = Some s /\
      PointDecode c f kem' = Ok P' /\ ec_dh c skR P' = Some s' /\
      key = hkdf h (kem ++ s) (effective_salt h salt) info (dem_key_size d) /\
      key' = hkdf h (kem' ++ s') (effective_salt h salt) info' (dem_key_size d) /\
      length iv' = dem_iv_size d /\
      body = DemFrame d key iv pt /\ body = DemFrame d key' iv' p' /\
      (dem_clash d key iv pt key' iv' p'
       \/ (key' = key /\ p' = pt /\
           hkdf_clash h (kem ++ s) (effective_salt h salt) info (kem' ++ s') (effective_salt h salt) info' (dem_key_size d))).
  Proof.
    intros Hpub Liv Henc Hct Hs Lk' Hne Hdec.
    destruct (enc_shape _ _ _ _ _ _ _ _ _ _ _ _ _ Hpub Henc) as (kem0 & key & Hs0 & Hd & Ps & Hct0).
    pose proof (supported_dem' _ _ _ Ps) as Ds.
    rewrite Hct in Hct0. apply app_inv_head in Hct0.
    apply app_inv_length in Hct0; [|congruence]. destruct Hct0 as [<- Hbody].
    apply (decrypt_iff _ _ _ _ _ _ _ _ _ _ Ps) in Hdec.
    destruct Hdec as (kem1 & key' & iv' & Hs1 & Hd' & Liv' & Hct1).
    apply app_inv_head in Hct1. apply app_inv_length in Hct1; [|congruence]. destruct Hct1 as [<- Hbody'].
    apply decapsulate_explicit in Hd. apply decapsulate_explicit in Hd'.
    destruct Hd as (P & s & HP & Hdh & Ek & Lkey). destruct Hd' as (P' & s' & HP' & Hdh' & Ek' & Lkey').
    exists P, s, P', s', key, key', iv'. repeat (split; [assumption|]).
    destruct (bytes_eq_dec key key') as [E|N].
    - right. split; [congruence|]. rewrite <- E in Hbody'.
      split; [eapply dem_frame_same_key with (iv := iv) (iv' := iv'); eauto; congruence|].
      split; [apply dem_key_size_pos|]. split; [|congruence].
      destruct Hne as [Hne|Hne]; [left|right; right; congruence].
      intros X. apply app_inv_length in X; [|congruence]. destruct X. congruence.
    - left. repeat split; auto. congruence.
  Qed.

  (* ---------------------------------------------------------------- *)
  (* changed DEM ciphertext (payload), KEM bytes and info untouched      *)
  (* ---------------------------------------------------------------- *)
  Theorem ecies_binding_payload c h f d salt prefix skR pkR eph iv info pt ct kem body body' p' :
    ec_pub c skR = Some pkR ->
    Encrypt c h f d salt prefix pkR eph iv info pt = Ok ct ->
    ct = prefix ++ kem ++ body -> encoding_size c f = Ok (length kem) -> body' <> body ->
    Decrypt c h f d salt prefix skR (prefix ++ kem ++ body') info = Ok p' ->
    exists key iv', Decapsulate c h f salt info (dem_key_size d) skR kem = Ok key /\
      length iv' = dem_iv_size d /\
      body = DemFrame d key iv pt /\ body' = DemFrame d key iv' p' /\ (p' <> pt \/ iv' <> iv).
  Proof.
    intros Hpub Henc Hct Hs Hne Hdec.
    destruct (enc_shape _ _ _ _ _ _ _ _ _ _ _ _ _ Hpub Henc) as (kem0 & key & Hs0 & Hd & Ps & Hct0).
    rewrite Hct in Hct0. apply app_inv_head in Hct0.
    apply app_inv_length in Hct0; [|congruence]. destruct Hct0 as [<- Hbody].
    apply (decrypt_iff _ _ _ _ _ _ _ _ _ _ Ps) in Hdec.
    destruct Hdec as (kem1 & key' & iv' & Hs1 & Hd' & Liv' & Hct1).
    apply app_inv_head in Hct1. apply app_inv_length in Hct1; [|congruence]. destruct Hct1 as [<- Hbody'].
    assert (key' = key) by congruence. subst key'.
    exists key, iv'. repeat (split; [assumption|]).
    destruct (bytes_eq_dec p' pt) as [->|]; [|left; assumption].
    destruct (bytes_eq_dec iv' iv) as [->|]; [|right; assumption].
    exfalso. apply Hne. congruence.
  Qed.

  (* ---------------------------------------------------------------- *)
  (* decryption of the untouched ciphertext under another private key   *)
  (* ---------------------------------------------------------------- *)
  (* (the statement needs no premise on skR': with skR' = skR it ends in s' = s) *)
  Theorem ecies_binding_other_key_explicit c h f d salt prefix skR pkR skR' eph iv info pt ct p' :
    ec_pub c skR = Some pkR -> length iv = dem_iv_size d ->
    Encrypt c h f d salt prefix pkR eph iv info pt = Ok ct ->
    Decrypt c h f d salt prefix skR' ct info = Ok p' ->
    exists kem body P s s' key key' iv',
      ct = prefix ++ kem ++ body /\ encoding_size c f = Ok (length kem) /\
      PointDecode c f kem = Ok P /\ ec_dh c skR P = Some s /\ ec_dh c skR' P = Some s' /\
      key = hkdf h (kem ++ s) (effective_salt h salt) info (dem_key_size d) /\
      key' = hkdf h (kem ++ s') (effective_salt h salt) info (dem_key_size d) /\
      length iv' = dem_iv_size d /\
      body = DemFrame d key iv pt /\ body = DemFrame d key' iv' p' /\
      (dem_clash d key iv pt key' iv' p'
       \/ (key' = key /\ p' = pt /\
           (s' = s   (* both private keys have the same ECDH value on the ephemeral point *)
            \/ hkdf_clash h (kem ++ s) (effective_salt h salt) info (kem ++ s') (effective_salt h salt) info (dem_key_size d)))).
  Proof.
    intros Hpub Liv Henc Hdec.
    destruct (enc_shape _ _ _ _ _ _ _ _ _ _ _ _ _ Hpub Henc) as (kem & key & Hs & Hd & Ps & ->).
    pose proof (supported_dem' _ _ _ Ps) as Ds.
    apply (decrypt_iff _ _ _ _ _ _ _ _ _ _ Ps) in Hdec.
    destruct Hdec as (kem1 & key' & iv' & Hs1 & Hd' & Liv' & Hct1).
    apply app_inv_head in Hct1. apply app_inv_length in Hct1; [|congruence]. destruct Hct1 as [<- Hbody'].
    apply decapsulate_explicit in Hd. apply decapsulate_explicit in Hd'.
    destruct Hd as (P & s & HP & Hdh & Ek & Lkey). destruct Hd' as (P' & s' & HP' & Hdh' & Ek' & Lkey').
    assert (P' = P) by congruence. subst P'.
    exists kem, (DemFrame d key iv pt), P, s, s', key, key', iv'.
    repeat (split; [first [assumption|reflexivity]|]).
    destruct (bytes_eq_dec key key') as [E|N].
    - right. split; [congruence|]. rewrite <- E in Hbody'.
      split; [eapply dem_frame_same_key with (iv := iv) (iv' := iv'); eauto; congruence|].
      destruct (bytes_eq_dec s' s) as [Es|Ns]; [left; exact Es|right].
      split; [apply dem_key_size_pos|]. split; [|congruence].
      left. intros X. apply app_inv_head in X. congruence.
    - left. repeat split; auto.
  Qed.

  (* ... and the third possibility is real: a private key with the same ECDH
     function (on a Weierstrass curve the negated scalar n - d, whose public key
     is -Q <> Q) decrypts everything the recipient's key decrypts *)
  Lemma decapsulate_same_dh c h f salt info n skR skR' kem :
    (forall P, ec_dh c skR' P = ec_dh c skR P) ->
    Decapsulate c h f salt info n skR' kem = Decapsulate c h f salt info n skR kem.
  Proof.
    intros E. unfold ecies_decapsulate. destruct (PointDecode c f kem) as [P| |]; cbn [bind]; try reflexivity.
    unfold compute_shared_secret. rewrite E. reflexivity.
  Qed.

  Theorem ecies_same_dh_same_decrypt c h f d salt prefix skR skR' ct info :
    (forall P, ec_dh c skR' P = ec_dh c skR P) ->
    Decrypt c h f d salt prefix skR' ct info = Decrypt c h f d salt prefix skR ct info.
  Proof.
    intros E. unfold ecies_decrypt.
    destruct (negb (primitive_supported c f d)); [reflexivity|].
    destruct (Nat.ltb _ _); [reflexivity|].
    destruct (slice 0 (length prefix) ct) as [p| |]; cbn [bind]; try reflexivity.
    destruct (negb (beq prefix p)); [reflexivity|].
    destruct (slice (length prefix) (length ct) ct) as [rest| |]; cbn [bind]; try reflexivity.
    unfold ecies_raw_decrypt.
    destruct (encoding_size c f) as [hs| |]; cbn [bind]; try reflexivity.
    destruct (Nat.ltb _ _); [reflexivity|].
    destruct (slice 0 hs rest) as [kem| |]; cbn [bind]; try reflexivity.
    destruct (slice hs (length rest) rest) as [body| |]; cbn [bind]; try reflexivity.
    rewrite (decapsulate_same_dh _ _ _ _ _ _ _ _ _ E). reflexivity.
  Qed.

  Theorem ecies_other_key_same_dh_decrypts c h f d salt prefix skR pkR skR' eph iv info pt ct :
    ec_pub c skR = Some pkR -> length iv = dem_iv_size d ->
    Encrypt c h f d salt prefix pkR eph iv info pt = Ok ct ->
    (forall P, ec_dh c skR' P = ec_dh c skR P) ->
    Decrypt c h f d salt prefix skR' ct info = Ok pt.
  Proof.
    intros Hpub Liv Henc E. rewrite (ecies_same_dh_same_decrypt _ _ _ _ _ _ _ _ _ _ E).
    eapply ecies_round_trip; eassumption.
  Qed.
End EciesBinding.

(* ---- the events are genuine collisions; the old predicates hold outright ---- *)
Section Teeth.
  Variable hkdf : hash -> bytes -> bytes -> bytes -> nat -> bytes.
  Hypothesis hkdf_len : forall h ikm salt info n, length (hkdf h ikm salt info n) = n.

  Lemma hkdf_clash_is_collision h ikm salt info ikm' salt' info' n :
    hkdf_clash hkdf h ikm salt info ikm' salt' info' n ->
    (ikm, salt, info) <> (ikm', salt', info') /\ hkdf h ikm salt info n = hkdf h ikm' salt' info' n /\
    (0 < length (hkdf h ikm salt info n))%nat /\ hkdf h ikm salt info n <> [].
  Proof.
    intros (Hn & Hne & E). split; [|split; [exact E|]].
    - intros X. injection X as X1 X2 X3. destruct Hne as [?|[?|?]]; contradiction.
    - pose proof (hkdf_len h ikm salt info n) as L. split; [lia|].
      intros Z. rewrite Z in L. simpl in L. lia.
  Qed.

  Lemma old_hkdf_collision_trivial : EciesProofs.hkdf_collision hkdf.
  Proof.
    exists SHA256, [0], [], [], [1], [], [], 0%nat. split; [left; discriminate|].
    pose proof (hkdf_len SHA256 [0] [] [] 0) as L1. pose proof (hkdf_len SHA256 [1] [] [] 0) as L2.
    destruct (hkdf SHA256 [0] [] [] 0); [|discriminate]. destruct (hkdf SHA256 [1] [] [] 0); [|discriminate]. reflexivity.
  Qed.
End Teeth.

Lemma old_dem_key_collision_trivial gcm_seal aes_ctr hmac_sha256 siv_seal :
  EciesProofs.dem_key_collision gcm_seal aes_ctr hmac_sha256 siv_seal.
Proof. exists XCHACHA20_POLY1305, [0], [1], [], [], [], []. split; [discriminate|reflexivity]. Qed.

(* ------------------------------------------------------------------ *)
(* toy instances                                                       *)
(* ------------------------------------------------------------------ *)
(* the events are not free: an HKDF that writes ikm || salt || info || 0... *)
Definition inj_hkdf (h : hash) (ikm salt info : bytes) (n : nat) : bytes := firstn n (ikm ++ salt ++ info ++ zeros n).
Lemma inj_hkdf_len h ikm salt info n : length (inj_hkdf h ikm salt info n) = n.
Proof. unfold inj_hkdf. rewrite firstn_length, !app_length, zeros_length. lia. Qed.
Example hkdf_clash_not_free : ~ hkdf_clash inj_hkdf SHA256 [1] [] [5] [2] [] [5] 16.
Proof. intros (_ & _ & E). vm_compute in E. discriminate. Qed.

(* a toy group in which the public key depends on the private key but the
   ECDH value does not: all laws hold, two different key pairs decrypt alike *)
Definition toy2_ec_pub (c : curve) (sk : bytes) : option bytes :=
  if Nat.eqb (length sk) (field_size c) then Some (4 :: sk ++ zeros (field_size c)) else None.

Lemma toy2_ec_dh_comm c a b A B :
  toy2_ec_pub c a = Some A -> toy2_ec_pub c b = Some B -> toy_ec_dh c a B = toy_ec_dh c b A.
Proof. reflexivity. Qed.
Lemma toy2_ec_pub_shape c sk P : toy2_ec_pub c sk = Some P ->
  length P = (1 + 2 * field_size c)%nat /\ hd 0 P = 4 /\
  toy_ec_oncurve c (coord_x c P) (coord_y c P) = true.
Proof.
  unfold toy2_ec_pub. destruct (Nat.eqb_spec (length sk) (field_size c)) as [L|]; [|discriminate].
  intros H. injection H as <-. split; [simpl; rewrite app_length, zeros_length; lia|]. split; [reflexivity|].
  unfold toy_ec_oncurve, coord_y.
  change (skipn (1 + field_size c) (4 :: sk ++ zeros (field_size c))) with (skipn (field_size c) (sk ++ zeros (field_size c))).
  rewrite <- L. rewrite skipn_app, skipn_all, Nat.sub_diag. simpl skipn.
  cbn [app]. rewrite firstn_all2 by (rewrite zeros_length; lia). apply beq_refl.
Qed.
