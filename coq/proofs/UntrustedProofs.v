(* C14 — proofs about model/Untrusted.v against the vocabulary of
   model/UntrustedSpec.v. *)
From Coq Require Import String Ascii List Arith NArith Bool Lia ZifyN ZifyNat ZifyBool.
From Tink Require Import Bytes UntrustedConsts Untrusted UntrustedSpec.
Import ListNotations.
Open Scope list_scope.
Open Scope N_scope.

(* ------------------------------------------------------------------ *)
(* validate                                                            *)
(* ------------------------------------------------------------------ *)
Lemma memN_In x l : memN x l = true <-> In x l.
Proof.
  unfold memN. rewrite existsb_exists. split.
  - intros [y [Hy E]]. apply N.eqb_eq in E. subst. exact Hy.
  - intros H. exists x. split; auto. apply N.eqb_refl.
Qed.

Lemma known_prefix_spec p : known_prefix p = true <-> (p = 1 \/ p = 2 \/ p = 3 \/ p = 4).
Proof. unfold known_prefix, pt_tink, pt_legacy, pt_raw, pt_crunchy. lia. Qed.

Lemma valid_prefix_spec p : valid_prefix p = true <-> (p = 1 \/ p = 2 \/ p = 3 \/ p = 4 \/ p = 5).
Proof. unfold valid_prefix, known_prefix, pt_tink, pt_legacy, pt_raw, pt_crunchy, pt_with_id_requirement. lia. Qed.

Lemma known_status_spec s : known_status s = true <-> (s = 1 \/ s = 2 \/ s = 3).
Proof. unfold known_status, st_enabled, st_disabled, st_destroyed. lia. Qed.

Lemma validate_key_spec k : validate_key k = true <-> key_known k.
Proof.
  unfold validate_key, key_known. destruct k as [pk|].
  - destruct (k_data pk) as [kd|] eqn:E.
    + rewrite andb_true_iff, valid_prefix_spec, known_status_spec. split.
      * intros [A B]. exists pk, kd. auto.
      * intros [pk' [kd' [H1 [H2 [H3 H4]]]]]. inversion H1; subst. auto.
    + split; [discriminate|]. intros [pk' [kd' [H1 [H2 _]]]]. inversion H1; subst. congruence.
  - split; [discriminate|]. intros [pk' [kd' [H1 _]]]. discriminate.
Qed.

(* what the loop of Validate has established when it answers true *)
Lemma validate_loop_sound primary keys : forall seen hasp nen,
  validate_loop primary keys seen hasp nen = true ->
  Forall key_known keys
  /\ NoDup (map key_id keys)
  /\ (forall id, In id (map key_id keys) -> ~ In id seen)
  /\ (forall pk, In (Some pk) keys -> k_id pk = primary -> k_status pk = 1)
  /\ (hasp = true -> forall pk, In (Some pk) keys -> k_id pk <> primary)
  /\ (hasp = true \/ exists pk, In (Some pk) keys /\ k_id pk = primary /\ k_status pk = 1).
Proof.
  induction keys as [|ok t IH]; intros seen hasp nen H; cbn [validate_loop] in H.
  - apply andb_true_iff in H. destruct H as [_ H]. repeat split; auto; try constructor; simpl; try tauto.
  - destruct (validate_key ok) eqn:VK; cbn [negb] in H; [|discriminate].
    destruct ok as [k|]; [|discriminate].
    destruct (memN (k_id k) seen) eqn:M; [discriminate|].
    assert (Hns : ~ In (k_id k) seen) by (rewrite <- memN_In; congruence).
    unfold st_enabled in H.
    destruct (k_status k =? 1) eqn:ES; cbn [negb andb] in H.
    + apply N.eqb_eq in ES.
      destruct (k_id k =? primary) eqn:EP.
      * apply N.eqb_eq in EP. destruct hasp; [discriminate|].
        apply IH in H. destruct H as [A [B [C [D [E F]]]]].
        repeat split.
        -- constructor; auto. apply validate_key_spec. exact VK.
        -- cbn [map key_id]. constructor; auto. intros Hin. apply (C _ Hin). left. reflexivity.
        -- intros id [<-|Hin]; auto. intros Hs. apply (C _ Hin). right. exact Hs.
        -- intros pk [Hpk|Hpk] Hid; [inversion Hpk; subst; auto|]. exfalso. apply (E eq_refl pk Hpk Hid).
        -- discriminate.
        -- right. exists k. repeat split; auto. left. reflexivity.
      * apply N.eqb_neq in EP.
        apply IH in H. destruct H as [A [B [C [D [E F]]]]].
        repeat split.
        -- constructor; auto. apply validate_key_spec. exact VK.
        -- cbn [map key_id]. constructor; auto. intros Hin. apply (C _ Hin). left. reflexivity.
        -- intros id [<-|Hin]; auto. intros Hs. apply (C _ Hin). right. exact Hs.
        -- intros pk [Hpk|Hpk] Hid; [inversion Hpk; subst; auto|]. auto.
        -- intros Hh pk [Hpk|Hpk]; [inversion Hpk; subst; auto|]. auto.
        -- destruct F as [F|[pk [F1 F2]]]; [left; auto|]. right. exists pk. split; auto. right. exact F1.
    + apply N.eqb_neq in ES.
      destruct (k_id k =? primary) eqn:EP; [discriminate|]. apply N.eqb_neq in EP.
      apply IH in H. destruct H as [A [B [C [D [E F]]]]].
      repeat split.
      -- constructor; auto. apply validate_key_spec. exact VK.
      -- cbn [map key_id]. constructor; auto. intros Hin. apply (C _ Hin). left. reflexivity.
      -- intros id [<-|Hin]; auto. intros Hs. apply (C _ Hin). right. exact Hs.
      -- intros pk [Hpk|Hpk] Hid; [inversion Hpk; subst; congruence|]. auto.
      -- intros Hh pk [Hpk|Hpk]; [inversion Hpk; subst; auto|]. auto.
      -- destruct F as [F|[pk [F1 F2]]]; [left; auto|]. right. exists pk. split; auto. right. exact F1.
Qed.

Theorem validate_sound ks : validate (Some ks) = true -> wf_keyset ks.
Proof.
  unfold validate, wf_keyset, ids. destruct (ks_keys ks) as [|k t] eqn:E; [discriminate|].
  intros H. apply validate_loop_sound in H. destruct H as [A [B [C [D [_ F]]]]].
  split; [discriminate|]. split; auto. split; auto.
  destruct F as [F|F]; [discriminate|exact F].
Qed.

(* ... and conversely the loop answers true on every well-formed rest *)
Lemma validate_loop_complete primary keys : forall seen hasp nen,
  Forall key_known keys ->
  NoDup (map key_id keys) ->
  (forall id, In id (map key_id keys) -> ~ In id seen) ->
  (forall pk, In (Some pk) keys -> k_id pk = primary -> k_status pk = 1) ->
  (hasp = true -> forall pk, In (Some pk) keys -> k_id pk <> primary) ->
  (hasp = true -> nen <> 0) ->
  (hasp = true \/ exists pk, In (Some pk) keys /\ k_id pk = primary /\ k_status pk = 1) ->
  validate_loop primary keys seen hasp nen = true.
Proof.
  induction keys as [|ok t IH]; intros seen hasp nen A B C D E G F; cbn [validate_loop].
  - destruct F as [F|[pk [[] _]]]. subst. specialize (G eq_refl). apply andb_true_iff. split; auto.
    apply negb_true_iff. apply N.eqb_neq. exact G.
  - inversion A as [|? ? Ak At]; subst. pose proof Ak as Ak'. apply validate_key_spec in Ak. rewrite Ak. cbn [negb].
    destruct Ak' as [k [kd [-> _]]].
    cbn [map key_id] in B, C. inversion B as [|? ? Bn Bt]; subst.
    destruct (memN (k_id k) seen) eqn:M.
    { exfalso. apply memN_In in M. apply (C (k_id k)); auto. left. reflexivity. }
    unfold st_enabled.
    destruct (k_status k =? 1) eqn:ES; cbn [negb andb].
    + apply N.eqb_eq in ES. destruct (k_id k =? primary) eqn:EP.
      * apply N.eqb_eq in EP. destruct hasp.
        { exfalso. apply (E eq_refl k); auto. left. reflexivity. }
        apply IH; auto.
        -- intros id Hin [<-|Hs]; [apply Bn; exact Hin|]. apply (C id); auto. right. exact Hin.
        -- intros pk Hpk. apply D. right. exact Hpk.
        -- intros _ pk Hpk Hid. apply Bn. rewrite EP, <- Hid.
           change (k_id pk) with (key_id (Some pk)). apply in_map. exact Hpk.
        -- intros _. lia.
      * apply N.eqb_neq in EP. apply IH; auto.
        -- intros id Hin [<-|Hs]; [apply Bn; exact Hin|]. apply (C id); auto. right. exact Hin.
        -- intros pk Hpk. apply D. right. exact Hpk.
        -- intros Hh pk Hpk. apply (E Hh). right. exact Hpk.
        -- intros _. lia.
        -- destruct F as [F|[pk [[F1|F1] [F2 F3]]]]; [left; auto| |].
           ++ inversion F1; subst. congruence.
           ++ right. exists pk. auto.
    + apply N.eqb_neq in ES. destruct (k_id k =? primary) eqn:EP.
      { apply N.eqb_eq in EP. exfalso. apply ES. apply D; auto. left. reflexivity. }
      apply N.eqb_neq in EP. apply IH; auto.
      -- intros id Hin [<-|Hs]; [apply Bn; exact Hin|]. apply (C id); auto. right. exact Hin.
      -- intros pk Hpk. apply D. right. exact Hpk.
      -- intros Hh pk Hpk. apply (E Hh). right. exact Hpk.
      -- destruct F as [F|[pk [[F1|F1] [F2 F3]]]]; [left; auto| |].
         ++ inversion F1; subst. congruence.
         ++ right. exists pk. auto.
Qed.

Theorem validate_complete ks : wf_keyset ks -> validate (Some ks) = true.
Proof.
  unfold validate, wf_keyset, ids. intros [A [B [C [pk [D1 [D2 D3]]]]]].
  destruct (ks_keys ks) as [|k t] eqn:E; [congruence|].
  apply validate_loop_complete; auto.
  - intros pk' Hin Hid.
    (* two keys with the primary id are the same key *)
    assert (forall l, NoDup (map key_id l) -> In (Some pk) l -> In (Some pk') l -> k_id pk = k_id pk' -> pk = pk') as U.
    { induction l as [|x l IHl]; simpl; intros Hnd H1 H2 Heq; [tauto|].
      inversion Hnd as [|? ? Hn Hd]; subst.
      destruct H1 as [->|H1], H2 as [H2|H2].
      - inversion H2. reflexivity.
      - exfalso. apply Hn. simpl. rewrite Heq. change (k_id pk') with (key_id (Some pk')). apply in_map. exact H2.
      - subst x. exfalso. apply Hn. simpl. rewrite <- Heq. change (k_id pk) with (key_id (Some pk)). apply in_map. exact H1.
      - auto. }
    rewrite <- (U (k :: t) C D1 Hin); [exact D3|congruence].
  - discriminate.
  - discriminate.
  - right. exists pk. auto.
Qed.

Theorem validate_iff ks : validate (Some ks) = true <-> wf_keyset ks.
Proof. split; [apply validate_sound|apply validate_complete]. Qed.

(* ------------------------------------------------------------------ *)
(* never Panic                                                         *)
(* ------------------------------------------------------------------ *)
Lemma bind_np {A B} (o : outcome A) (f : A -> outcome B) :
  o <> Panic -> (forall a, o = Ok a -> f a <> Panic) -> bind o f <> Panic.
Proof. destruct o; simpl; intros H1 H2; auto; try discriminate. Qed.

Lemma bind_ok {A B} (o : outcome A) (f : A -> outcome B) b :
  bind o f = Ok b -> exists a, o = Ok a /\ f a = Ok b.
Proof. destruct o; simpl; intros H; try discriminate. eauto. Qed.

Lemma okb_np c d : okb c d <> Panic.
Proof. unfold okb. destruct c; discriminate. Qed.

Lemma okb_ok c d d' : okb c d = Ok d' -> c = true /\ d' = d.
Proof. unfold okb. destruct c; intros H; inversion H; auto. Qed.

Lemma slice_ok lo hi s : (lo <= hi)%nat -> (hi <= length s)%nat -> exists r, slice lo hi s = Ok r /\ length r = (hi - lo)%nat.
Proof.
  intros H1 H2. unfold slice.
  destruct (Nat.leb lo hi && Nat.leb hi (length s))%bool eqn:E.
  - eexists. split; [reflexivity|]. rewrite firstn_length, skipn_length. lia.
  - exfalso. apply andb_false_iff in E. destruct E as [E|E]; apply Nat.leb_gt in E; lia.
Qed.

Lemma fixed_size_np b n : fixed_size b n <> Panic.
Proof.
  unfold fixed_size. destruct (Nat.eqb (length b) n); [discriminate|].
  destruct (Nat.ltb (length b) n) eqn:L; [discriminate|].
  apply Nat.ltb_ge in L.
  destruct (all_zero _); [|discriminate].
  destruct (slice_ok (length b - n) (length b) b) as [r [-> _]]; try lia. discriminate.
Qed.

Lemma fixed_size_length b n r : fixed_size b n = Ok r -> length r = n.
Proof.
  unfold fixed_size. destruct (Nat.eqb (length b) n) eqn:E.
  - apply Nat.eqb_eq in E. intros H. inversion H as [Hr]. rewrite <- Hr. exact E.
  - destruct (Nat.ltb (length b) n) eqn:L.
    + apply Nat.ltb_lt in L. intros H. inversion H as [Hr]. rewrite app_length, zeros_length. lia.
    + apply Nat.ltb_ge in L. destruct (all_zero _); [|discriminate].
      destruct (slice_ok (length b - n) (length b) b) as [r' [E' Hl]]; try lia.
      rewrite E'. intros H. inversion H as [Hr]. rewrite <- Hr. lia.
Qed.

Lemma encode_point_ok x y c : length x = c -> length y = c ->
  exists t, encode_point x y c = Ok (4 :: t).
Proof.
  intros Hx Hy. unfold encode_point.
  assert (Hb : length (4 :: zeros (2 * c)) = S (2 * c)) by (simpl; rewrite zeros_length; reflexivity).
  destruct (Nat.ltb (1 + c) (length x)) eqn:L1; [apply Nat.ltb_lt in L1; lia|].
  destruct (slice_ok (1 + c - length x) (1 + 2 * c) (4 :: zeros (2 * c))) as [r1 [-> _]]; try lia.
  cbn [bind].
  destruct (Nat.ltb (1 + 2 * c) (length y)) eqn:L2; [apply Nat.ltb_lt in L2; lia|].
  destruct (slice_ok (1 + 2 * c - length y) (1 + 2 * c) (4 :: zeros (2 * c))) as [r2 [-> _]]; try lia.
  cbn [bind]. eexists. reflexivity.
Qed.

Section KeysProofs.
Variable L : stdlib.
Notation parse_key := (parse_key L).
Notation ecdsa_pub_of := (ecdsa_pub_of L).

Lemma coord_size_pos curve c : coord_size curve = Some c -> True.
Proof. auto. Qed.

Lemma ecdsa_pub_of_np fs prefix idreq : ecdsa_pub_of fs prefix idreq <> Panic.
Proof.
  unfold Untrusted.ecdsa_pub_of.
  destruct (negb (get_u32 1 fs =? 0)); [discriminate|].
  destruct (negb (ecdsa_params_ok _ _ _ _)); [discriminate|].
  destruct (coord_size _) as [c|]; [|discriminate].
  apply bind_np; [apply fixed_size_np|]. intros x Hx. apply fixed_size_length in Hx.
  apply bind_np; [apply fixed_size_np|]. intros y Hy. apply fixed_size_length in Hy.
  destruct (encode_point_ok x y c Hx Hy) as [t ->]. cbn [bind].
  destruct (negb _); [discriminate|]. destruct (ec_point_ok _ _); discriminate.
Qed.

Lemma ecdsa_pub_of_ok fs prefix idreq curve hash enc pt :
  ecdsa_pub_of fs prefix idreq = Ok (curve, hash, enc, pt) ->
  curve = get_u32 2 (get_sub 2 fs) /\ hash = get_u32 1 (get_sub 2 fs)
  /\ ecdsa_params_ok curve hash enc prefix = true /\ exists t, pt = 4 :: t.
Proof.
  unfold Untrusted.ecdsa_pub_of.
  destruct (negb (get_u32 1 fs =? 0)); [discriminate|].
  destruct (negb (ecdsa_params_ok _ _ _ _)) eqn:P; [discriminate|].
  apply negb_false_iff in P.
  destruct (coord_size _) as [c|]; [|discriminate].
  intros H. apply bind_ok in H. destruct H as [x [Hx H]]. apply fixed_size_length in Hx.
  apply bind_ok in H. destruct H as [y [Hy H]]. apply fixed_size_length in Hy.
  destruct (encode_point_ok x y c Hx Hy) as [t Ht]. rewrite Ht in H. cbn [bind] in H.
  destruct (negb _); [discriminate|]. destruct (ec_point_ok _ _); [|discriminate].
  inversion H; subst. repeat split; auto. eauto.
Qed.

Ltac np :=
  repeat match goal with
  | |- okb _ _ <> Panic => apply okb_np
  | |- Err <> Panic => discriminate
  | |- Ok _ <> Panic => discriminate
  | |- (if ?c then _ else _) <> Panic => destruct c
  end.

(* ---- the parsers written as functions of their own ---- *)
Lemma ed25519_from_seed_ok seed : blen seed = ed25519_seed_size ->
  ed25519_from_seed L seed = Ok (ed25519_pub L seed).
Proof. intros H. unfold ed25519_from_seed. rewrite H, N.eqb_refl. reflexivity. Qed.

Lemma parse_ed25519_pub_np kd prefix idreq : parse_ed25519_pub kd prefix idreq <> Panic.
Proof. unfold parse_ed25519_pub. np. Qed.

Lemma parse_ed25519_priv_np kd prefix idreq : parse_ed25519_priv L kd prefix idreq <> Panic.
Proof.
  unfold parse_ed25519_priv.
  destruct (negb (kd_mat kd =? km_private)); [discriminate|].
  destruct (negb (wire_ok _ _)); [discriminate|].
  destruct (negb (_ && _)); [discriminate|].
  match goal with |- context [ed25519_from_seed L ?s] => destruct (blen s =? ed25519_seed_size) eqn:E end;
    cbn [negb]; [|discriminate].
  apply N.eqb_eq in E. rewrite (ed25519_from_seed_ok _ E). cbn [bind]. np.
Qed.

Lemma parse_rsa_priv_np pss kd prefix idreq : parse_rsa_priv L pss kd prefix idreq <> Panic.
Proof.
  unfold parse_rsa_priv. np.
  destruct (rsa_crt L _ _ _ _ _) as [[[dp dq] qinv]|]; np.
Qed.

(* ECIES *)
Lemma ecies_pk_np curve (x y : bytes) :
  (if curve =? c_x25519 then Ok x
   else match coord_size curve with
        | None => Err
        | Some c => bind (fixed_size x c) (fun x' => bind (fixed_size y c) (fun y' => Ok (4 :: x' ++ y')))
        end) <> Panic.
Proof.
  destruct (curve =? c_x25519); [discriminate|]. destruct (coord_size curve) as [c|]; [|discriminate].
  apply bind_np; [apply fixed_size_np|]. intros x' _. apply bind_np; [apply fixed_size_np|]. intros y' _. discriminate.
Qed.

Lemma ecies_pub_of_np fs prefix idreq : ecies_pub_of L fs prefix idreq <> Panic.
Proof.
  unfold ecies_pub_of.
  destruct (negb (get_u32 1 fs =? 0)); [discriminate|].
  destruct (negb (_ && _)); [discriminate|].
  destruct (ecies_dem _) as [dem|]; [|discriminate].
  destruct (_ && negb _); [discriminate|].
  apply bind_np; [apply ecies_pk_np|]. intros pt _. np.
Qed.

(* the public key bytes of an accepted ECIES key on a NIST curve are 04 || x || y *)
Lemma ecies_pub_of_ok fs prefix idreq curve dem pt :
  ecies_pub_of L fs prefix idreq = Ok (curve, dem, pt) ->
  forall c, coord_size curve = Some c -> length pt = (1 + 2 * c)%nat.
Proof.
  unfold ecies_pub_of.
  destruct (negb (get_u32 1 fs =? 0)); [discriminate|].
  destruct (negb (_ && _)); [discriminate|].
  destruct (ecies_dem _) as [dem'|]; [|discriminate].
  destruct (_ && negb _); [discriminate|].
  intros H. apply bind_ok in H. destruct H as [pt' [Hpk H]].
  destruct (negb (negb _ || _)); [discriminate|].
  destruct (ec_point_ok L _ pt'); [|discriminate]. inversion H as [[H1 H2 H3]]. clear H.
  subst pt'. intros c Hc. rewrite H1 in Hpk, Hc.
  destruct (curve =? c_x25519) eqn:EX.
  { apply N.eqb_eq in EX. rewrite EX in Hc. vm_compute in Hc. discriminate. }
  rewrite Hc in Hpk. apply bind_ok in Hpk. destruct Hpk as [x [Hx Hpk]]. apply fixed_size_length in Hx.
  apply bind_ok in Hpk. destruct Hpk as [y [Hy Hpk]]. apply fixed_size_length in Hy.
  inversion Hpk. cbn [length]. rewrite app_length. lia.
Qed.

Lemma parse_ecies_pub_np kd prefix idreq : parse_ecies_pub L kd prefix idreq <> Panic.
Proof.
  unfold parse_ecies_pub. np. apply bind_np; [apply ecies_pub_of_np|]. intros [[c d] pt] _. discriminate.
Qed.

Lemma ecies_priv_np curve (b : bytes) :
  (if curve =? c_x25519 then Ok b
   else match coord_size curve with None => Err | Some c => fixed_size b c end) <> Panic.
Proof.
  destruct (curve =? c_x25519); [discriminate|]. destruct (coord_size curve); [apply fixed_size_np|discriminate].
Qed.

Lemma parse_ecies_priv_np kd prefix idreq : parse_ecies_priv L kd prefix idreq <> Panic.
Proof.
  unfold parse_ecies_priv. np. apply bind_np; [apply ecies_pub_of_np|]. intros [[c d] pt] _.
  apply bind_np; [apply ecies_priv_np|]. intros sk _.
  destruct (ec_pub_of_priv L c sk); np.
Qed.

(* HPKE *)
Lemma hpke_pub_of_np fs prefix idreq : hpke_pub_of L fs prefix idreq <> Panic.
Proof. unfold hpke_pub_of. np. Qed.

Lemma parse_hpke_pub_np kd prefix idreq : parse_hpke_pub L kd prefix idreq <> Panic.
Proof.
  unfold parse_hpke_pub. np. apply bind_np; [apply hpke_pub_of_np|]. intros [kem pk] _. discriminate.
Qed.

Lemma parse_hpke_priv_np kd prefix idreq : parse_hpke_priv L kd prefix idreq <> Panic.
Proof.
  unfold parse_hpke_priv. np. apply bind_np; [apply hpke_pub_of_np|]. intros [kem pk] _.
  match goal with |- match ?o with Some _ => _ | None => _ end <> Panic => destruct o end; np.
Qed.

(* streaming AEAD, JWT, ML-DSA, SLH-DSA *)
Lemma parse_stream_gcm_hkdf_np kd prefix idreq : parse_stream_gcm_hkdf kd prefix idreq <> Panic.
Proof. unfold parse_stream_gcm_hkdf. np. Qed.
Lemma parse_stream_ctr_hmac_np kd prefix idreq : parse_stream_ctr_hmac kd prefix idreq <> Panic.
Proof. unfold parse_stream_ctr_hmac. np. Qed.
Lemma parse_jwt_hmac_np kd prefix idreq : parse_jwt_hmac kd prefix idreq <> Panic.
Proof. unfold parse_jwt_hmac. np. Qed.
Lemma parse_jwt_rsa_pub_np pss kd prefix idreq : parse_jwt_rsa_pub pss kd prefix idreq <> Panic.
Proof. unfold parse_jwt_rsa_pub. np. Qed.
Lemma parse_jwt_mldsa_pub_np kd prefix idreq : parse_jwt_mldsa_pub kd prefix idreq <> Panic.
Proof. unfold parse_jwt_mldsa_pub. np. Qed.
Lemma parse_jwt_rsa_priv_np pss kd prefix idreq : parse_jwt_rsa_priv L pss kd prefix idreq <> Panic.
Proof. unfold parse_jwt_rsa_priv. np. destruct (rsa_crt L _ _ _ _ _) as [[[dp dq] qinv]|]; np. Qed.
Lemma parse_mldsa_pub_np kd prefix idreq : parse_mldsa_pub kd prefix idreq <> Panic.
Proof. unfold parse_mldsa_pub. np. Qed.
Lemma parse_slhdsa_pub_np kd prefix idreq : parse_slhdsa_pub kd prefix idreq <> Panic.
Proof. unfold parse_slhdsa_pub. np. Qed.
Lemma parse_mldsa_priv_np kd prefix idreq : parse_mldsa_priv L kd prefix idreq <> Panic.
Proof. unfold parse_mldsa_priv. np. Qed.
Lemma parse_jwt_mldsa_priv_np kd prefix idreq : parse_jwt_mldsa_priv L kd prefix idreq <> Panic.
Proof. unfold parse_jwt_mldsa_priv. np. Qed.

Lemma jwt_ecdsa_pub_of_np fs prefix idreq : jwt_ecdsa_pub_of L fs prefix idreq <> Panic.
Proof.
  unfold jwt_ecdsa_pub_of. destruct (negb _); [discriminate|].
  destruct (coord_size _) as [c|]; [|discriminate].
  apply bind_np; [apply fixed_size_np|]. intros x _. apply bind_np; [apply fixed_size_np|]. intros y _. np.
Qed.

Lemma jwt_ecdsa_pub_of_ok fs prefix idreq alg pt :
  jwt_ecdsa_pub_of L fs prefix idreq = Ok (alg, pt) -> pt <> [].
Proof.
  unfold jwt_ecdsa_pub_of. destruct (negb _); [discriminate|].
  destruct (coord_size _) as [c|]; [|discriminate].
  intros H. apply bind_ok in H. destruct H as [x [_ H]]. apply bind_ok in H. destruct H as [y [_ H]].
  destruct (negb _); [discriminate|]. destruct (ec_point_ok L _ _); [|discriminate].
  inversion H. discriminate.
Qed.

Lemma parse_jwt_ecdsa_pub_np kd prefix idreq : parse_jwt_ecdsa_pub L kd prefix idreq <> Panic.
Proof.
  unfold parse_jwt_ecdsa_pub. np. apply bind_np; [apply jwt_ecdsa_pub_of_np|]. intros [a pt] _. discriminate.
Qed.

Lemma parse_jwt_ecdsa_priv_np kd prefix idreq : parse_jwt_ecdsa_priv L kd prefix idreq <> Panic.
Proof.
  unfold parse_jwt_ecdsa_priv. np. apply bind_np; [apply jwt_ecdsa_pub_of_np|]. intros [a pt] _.
  destruct (coord_size _) as [c|]; [|discriminate].
  apply bind_np; [apply fixed_size_np|]. intros d _. destruct (ec_pub_of_priv L _ d); np.
Qed.

(* the two slices of DecodeSecretKey are within a private key of 4n bytes *)
Lemma parse_slhdsa_priv_np kd prefix idreq : parse_slhdsa_priv kd prefix idreq <> Panic.
Proof.
  unfold parse_slhdsa_priv. np.
  destruct (slhdsa_pub_of _ _ _) as [ks|] eqn:E; [|discriminate].
  match goal with |- context [negb (blen ?sk =? ks)] => destruct (blen sk =? ks) eqn:El; cbn [negb]; [|discriminate];
    set (skb := sk) in * end.
  apply N.eqb_eq in El. unfold blen in El.
  assert (Hks : ks = slhdsa_key_a \/ ks = slhdsa_key_b \/ ks = slhdsa_key_c).
  { unfold slhdsa_pub_of in E. destruct (_ && _) eqn:C in E; [|discriminate]. inversion E; subst.
    repeat rewrite andb_true_iff in C. destruct C as [[[_ C] _] _]. lia. }
  assert (Hn : (4 * N.to_nat (ks / 4) = length skb)%nat).
  { destruct Hks as [->|[->| ->]]; vm_compute (N.to_nat (_ / 4)); unfold slhdsa_key_a, slhdsa_key_b, slhdsa_key_c in El; lia. }
  destruct (slice_ok (2 * N.to_nat (ks / 4)) (3 * N.to_nat (ks / 4)) skb) as [r1 [-> _]]; try lia. cbn [bind].
  destruct (slice_ok (3 * N.to_nat (ks / 4)) (4 * N.to_nat (ks / 4)) skb) as [r2 [-> _]]; try lia. cbn [bind]. np.
Qed.

Create HintDb npdb.
Hint Resolve parse_ed25519_pub_np parse_ed25519_priv_np parse_rsa_priv_np
  parse_ecies_pub_np parse_ecies_priv_np parse_hpke_pub_np parse_hpke_priv_np
  parse_stream_gcm_hkdf_np parse_stream_ctr_hmac_np parse_jwt_hmac_np parse_jwt_rsa_pub_np
  parse_mldsa_pub_np parse_slhdsa_pub_np parse_jwt_ecdsa_pub_np parse_jwt_ecdsa_priv_np parse_slhdsa_priv_np
  parse_jwt_mldsa_pub_np parse_jwt_rsa_priv_np parse_mldsa_priv_np parse_jwt_mldsa_priv_np : npdb.

Lemma parse_key_more_np kd prefix idreq : parse_key_more L kd prefix idreq <> Panic.
Proof. unfold parse_key_more. np; auto with npdb. Qed.
Hint Resolve parse_key_more_np : npdb.

Theorem parse_key_base_np kd prefix idreq : parse_key_base L kd prefix idreq <> Panic.
Proof.
  unfold Untrusted.parse_key_base. np; try solve [auto with npdb].
  - apply bind_np; [apply ecdsa_pub_of_np|]. intros [[[curve hash] enc] pt] _. discriminate.
  - apply bind_np; [apply ecdsa_pub_of_np|]. intros [[[curve hash] enc] pt] _.
    destruct (coord_size curve); [|discriminate].
    apply bind_np; [apply fixed_size_np|]. intros d _.
    destruct (ec_pub_of_priv L curve d); [|discriminate]. destruct (beq _ _); discriminate.
Qed.

Lemma composite_of_classical_np private alg d : composite_of_classical private alg d <> Panic.
Proof. unfold composite_of_classical. destruct d; try discriminate; try apply okb_np. destruct pss; apply okb_np. Qed.

Lemma parse_composite_np private kd prefix idreq : parse_composite L private kd prefix idreq <> Panic.
Proof.
  unfold parse_composite. cbv zeta.
  destruct (negb (kd_mat kd =? _)); [discriminate|]. destruct (negb (wire_ok _ _)); [discriminate|].
  destruct (negb (_ && _)); [discriminate|].
  apply bind_np.
  - destruct private; (destruct (url_is _ _); [|discriminate]); auto with npdb.
  - intros _ _. destruct (negb _); [discriminate|].
    apply bind_np; [apply parse_key_base_np|]. intros cd _.
    destruct (negb _); [discriminate|]. apply composite_of_classical_np.
Qed.

Theorem parse_key_np kd prefix idreq : parse_key kd prefix idreq <> Panic.
Proof.
  unfold Untrusted.parse_key. destruct (url_is kd u_composite_pub); [apply parse_composite_np|].
  destruct (url_is kd u_composite_priv); [apply parse_composite_np | apply parse_key_base_np].
Qed.

(* the keys the parser hands out are such that their constructors do not panic *)
Definition point_shaped (d : pkd) : Prop :=
  match d with
  | PEcdsaPub _ _ _ pt | PEcdsaPriv _ _ _ pt _ | PJwtEcdsa _ _ pt => pt <> []
  | PEd25519Priv seed => blen seed = ed25519_seed_size
  | PEcies _ curve _ pt => forall c, coord_size curve = Some c -> length pt = (1 + 2 * c)%nat
  | PComposite _ _ (Some seed) => blen seed = ed25519_seed_size
  | _ => True
  end.

Ltac shape :=
  repeat match goal with
  | |- (if ?c then _ else _) = Ok _ -> _ => destruct c
  | |- okb _ _ = Ok _ -> _ => let H := fresh in intros H; apply okb_ok in H; destruct H as [_ ->]; exact I
  | |- Err = Ok _ -> _ => discriminate
  end.

Lemma parse_ed25519_pub_point kd prefix idreq d : parse_ed25519_pub kd prefix idreq = Ok d -> point_shaped d.
Proof. unfold parse_ed25519_pub. shape. Qed.

Lemma parse_ed25519_priv_point kd prefix idreq d : parse_ed25519_priv L kd prefix idreq = Ok d -> point_shaped d.
Proof.
  unfold parse_ed25519_priv.
  destruct (negb (kd_mat kd =? km_private)); [discriminate|].
  destruct (negb (wire_ok _ _)); [discriminate|].
  destruct (negb (_ && _)); [discriminate|].
  match goal with |- context [ed25519_from_seed L ?s] => destruct (blen s =? ed25519_seed_size) eqn:E end;
    cbn [negb]; [|discriminate].
  apply N.eqb_eq in E. rewrite (ed25519_from_seed_ok _ E). cbn [bind].
  destruct (beq _ _); [|discriminate]. intros H. inversion H. exact E.
Qed.
Lemma parse_rsa_priv_point pss kd prefix idreq d : parse_rsa_priv L pss kd prefix idreq = Ok d -> point_shaped d.
Proof.
  unfold parse_rsa_priv. shape.
  destruct (rsa_crt L _ _ _ _ _) as [[[dp dq] qinv]|]; shape.
Qed.
Lemma parse_ecies_pub_point kd prefix idreq d : parse_ecies_pub L kd prefix idreq = Ok d -> point_shaped d.
Proof.
  unfold parse_ecies_pub. shape. intros H. apply bind_ok in H. destruct H as [[[c dem] pt] [H1 H2]].
  inversion H2; subst. cbn [point_shaped]. eapply ecies_pub_of_ok. exact H1.
Qed.

Lemma parse_ecies_priv_point kd prefix idreq d : parse_ecies_priv L kd prefix idreq = Ok d -> point_shaped d.
Proof.
  unfold parse_ecies_priv. shape. intros H. apply bind_ok in H. destruct H as [[[c dem] pt] [H1 H2]].
  apply bind_ok in H2. destruct H2 as [sk [_ H2]].
  destruct (ec_pub_of_priv L c sk); [|discriminate].
  destruct (negb _); [discriminate|]. destruct (beq _ _); [|discriminate].
  inversion H2; subst. cbn [point_shaped]. eapply ecies_pub_of_ok. exact H1.
Qed.

Lemma parse_hpke_pub_point kd prefix idreq d : parse_hpke_pub L kd prefix idreq = Ok d -> point_shaped d.
Proof.
  unfold parse_hpke_pub. shape. intros H. apply bind_ok in H. destruct H as [[kem pk] [_ H2]].
  inversion H2. exact I.
Qed.

Lemma parse_hpke_priv_point kd prefix idreq d : parse_hpke_priv L kd prefix idreq = Ok d -> point_shaped d.
Proof.
  unfold parse_hpke_priv. shape. intros H. apply bind_ok in H. destruct H as [[kem pk] [_ H2]].
  match type of H2 with match ?o with Some _ => _ | None => _ end = _ => destruct o end; [|discriminate].
  destruct (beq _ _); [|discriminate]. inversion H2. exact I.
Qed.
Lemma parse_stream_gcm_hkdf_point kd prefix idreq d : parse_stream_gcm_hkdf kd prefix idreq = Ok d -> point_shaped d.
Proof. unfold parse_stream_gcm_hkdf. shape. Qed.
Lemma parse_stream_ctr_hmac_point kd prefix idreq d : parse_stream_ctr_hmac kd prefix idreq = Ok d -> point_shaped d.
Proof. unfold parse_stream_ctr_hmac. shape. Qed.
Lemma parse_jwt_hmac_point kd prefix idreq d : parse_jwt_hmac kd prefix idreq = Ok d -> point_shaped d.
Proof. unfold parse_jwt_hmac. shape. Qed.
Lemma parse_jwt_rsa_pub_point pss kd prefix idreq d : parse_jwt_rsa_pub pss kd prefix idreq = Ok d -> point_shaped d.
Proof. unfold parse_jwt_rsa_pub. shape. Qed.
Lemma parse_jwt_mldsa_pub_point kd prefix idreq d : parse_jwt_mldsa_pub kd prefix idreq = Ok d -> point_shaped d.
Proof. unfold parse_jwt_mldsa_pub. shape. Qed.
Lemma parse_jwt_rsa_priv_point pss kd prefix idreq d : parse_jwt_rsa_priv L pss kd prefix idreq = Ok d -> point_shaped d.
Proof. unfold parse_jwt_rsa_priv. shape. destruct (rsa_crt L _ _ _ _ _) as [[[dp dq] qinv]|]; shape. Qed.
Lemma parse_mldsa_pub_point kd prefix idreq d : parse_mldsa_pub kd prefix idreq = Ok d -> point_shaped d.
Proof. unfold parse_mldsa_pub. shape. Qed.
Lemma parse_slhdsa_pub_point kd prefix idreq d : parse_slhdsa_pub kd prefix idreq = Ok d -> point_shaped d.
Proof. unfold parse_slhdsa_pub. shape. intros H. inversion H. exact I. Qed.
Lemma parse_slhdsa_priv_point kd prefix idreq d : parse_slhdsa_priv kd prefix idreq = Ok d -> point_shaped d.
Proof.
  unfold parse_slhdsa_priv. shape. destruct (slhdsa_pub_of _ _ _); [|discriminate]. shape.
  intros H. apply bind_ok in H. destruct H as [a [_ H]]. apply bind_ok in H. destruct H as [b [_ H]].
  destruct (beq _ _); [|discriminate]. inversion H. exact I.
Qed.
Lemma parse_jwt_ecdsa_pub_point kd prefix idreq d : parse_jwt_ecdsa_pub L kd prefix idreq = Ok d -> point_shaped d.
Proof.
  unfold parse_jwt_ecdsa_pub. shape. intros H. apply bind_ok in H. destruct H as [[a pt] [H1 H2]].
  inversion H2; subst. cbn [point_shaped]. eapply jwt_ecdsa_pub_of_ok. exact H1.
Qed.
Lemma parse_jwt_ecdsa_priv_point kd prefix idreq d : parse_jwt_ecdsa_priv L kd prefix idreq = Ok d -> point_shaped d.
Proof.
  unfold parse_jwt_ecdsa_priv. shape. intros H. apply bind_ok in H. destruct H as [[a pt] [H1 H2]].
  destruct (coord_size _) as [c|]; [|discriminate]. apply bind_ok in H2. destruct H2 as [dd [_ H2]].
  destruct (ec_pub_of_priv L _ dd); [|discriminate]. destruct (beq _ _); [|discriminate].
  inversion H2; subst. cbn [point_shaped]. eapply jwt_ecdsa_pub_of_ok. exact H1.
Qed.
Lemma parse_mldsa_priv_point kd prefix idreq d : parse_mldsa_priv L kd prefix idreq = Ok d -> point_shaped d.
Proof. unfold parse_mldsa_priv. shape. intros H. inversion H. exact I. Qed.
Lemma parse_jwt_mldsa_priv_point kd prefix idreq d : parse_jwt_mldsa_priv L kd prefix idreq = Ok d -> point_shaped d.
Proof. unfold parse_jwt_mldsa_priv. shape. intros H. inversion H. exact I. Qed.
Hint Resolve parse_mldsa_priv_point parse_jwt_mldsa_priv_point : npdb.
Hint Resolve parse_ed25519_pub_point parse_ed25519_priv_point parse_rsa_priv_point
  parse_ecies_pub_point parse_ecies_priv_point parse_hpke_pub_point parse_hpke_priv_point
  parse_stream_gcm_hkdf_point parse_stream_ctr_hmac_point parse_jwt_hmac_point parse_jwt_rsa_pub_point
  parse_mldsa_pub_point parse_slhdsa_pub_point parse_slhdsa_priv_point
  parse_jwt_ecdsa_pub_point parse_jwt_ecdsa_priv_point parse_jwt_mldsa_pub_point parse_jwt_rsa_priv_point : npdb.

Lemma parse_key_more_point kd prefix idreq d : parse_key_more L kd prefix idreq = Ok d -> point_shaped d.
Proof. unfold parse_key_more. shape; eauto with npdb. Qed.
Hint Resolve parse_key_more_point : npdb.

(* the second-round parsers and the fallback hand out none of the 16
   first-round kinds of key (used by proofs/SecretsProofs.v) *)
Definition more_kind (d : pkd) : bool :=
  match d with
  | PHmac _ _ _ | PAesCmac _ _ | PAesGcm _ | PAesGcmSiv _ | PAesCtrHmac _ _ _ _ _ | PAesSiv _
  | PHkdfPrf _ _ | PHmacPrf _ _ | PAesCmacPrf _ | PEcdsaPub _ _ _ _ | PEcdsaPriv _ _ _ _ _
  | PRsaPkcs1Pub _ _ _ | PRsaPssPub _ _ _ _ | PChaCha _ | PXChaCha _ | PXAesGcm _ _ => false
  | _ => true
  end.

Ltac kind :=
  repeat match goal with
  | |- (if ?c then _ else _) = Ok _ -> _ => destruct c
  | |- okb _ _ = Ok _ -> _ => let H := fresh in intros H; apply okb_ok in H; destruct H as [_ ->]; reflexivity
  | |- bind _ _ = Ok _ -> _ => let H := fresh in let a := fresh in intros H; apply bind_ok in H; destruct H as [a [_ H]]; revert H
  | |- Ok _ = Ok _ -> _ => let H := fresh in intros H; inversion H; reflexivity
  | |- Err = Ok _ -> _ => discriminate
  end.

Lemma parse_key_more_kind kd prefix idreq d : parse_key_more L kd prefix idreq = Ok d -> more_kind d = true.
Proof.
  unfold parse_key_more, parse_ed25519_pub, parse_ed25519_priv, parse_rsa_priv,
    parse_ecies_pub, parse_ecies_priv, parse_hpke_pub, parse_hpke_priv,
    parse_stream_gcm_hkdf, parse_stream_ctr_hmac, parse_jwt_hmac, parse_jwt_ecdsa_pub, parse_jwt_ecdsa_priv,
    parse_jwt_rsa_pub, parse_mldsa_pub, parse_slhdsa_pub, parse_slhdsa_priv,
    parse_jwt_rsa_priv, parse_jwt_mldsa_pub, parse_mldsa_priv, parse_jwt_mldsa_priv. kind.
  all: try (destruct (rsa_crt L _ _ _ _ _) as [[[dp dq] qinv]|]; kind).
  all: repeat (kind; match goal with
       | |- (let (_, _) := ?p in _) = Ok _ -> _ => destruct p
       | |- match ?o with Some _ => _ | None => _ end = Ok _ -> _ => destruct o
       end); kind.
Qed.

Lemma parse_key_base_point kd prefix idreq d : parse_key_base L kd prefix idreq = Ok d -> point_shaped d.
Proof.
  unfold Untrusted.parse_key_base. shape; try solve [eauto with npdb].
  - intros H. apply bind_ok in H. destruct H as [[[[curve hash] enc] pt] [H1 H2]].
    apply ecdsa_pub_of_ok in H1. destruct H1 as [_ [_ [_ [t ->]]]]. inversion H2; subst. simpl. discriminate.
  - intros H. apply bind_ok in H. destruct H as [[[[curve hash] enc] pt] [H1 H2]].
    apply ecdsa_pub_of_ok in H1. destruct H1 as [_ [_ [_ [t ->]]]].
    destruct (coord_size curve); [|discriminate].
    apply bind_ok in H2. destruct H2 as [dd [_ H2]].
    destruct (ec_pub_of_priv L curve dd); [|discriminate]. destruct (beq _ _); [|discriminate].
    inversion H2; subst. simpl. discriminate.
Qed.

Lemma composite_of_classical_point private alg d d' :
  point_shaped d -> composite_of_classical private alg d = Ok d' -> point_shaped d'.
Proof.
  unfold composite_of_classical. intros P.
  destruct d; try discriminate; try (destruct pss); intros H; apply okb_ok in H; destruct H as [_ ->]; cbn; auto.
Qed.

Lemma parse_composite_point private kd prefix idreq d :
  parse_composite L private kd prefix idreq = Ok d -> point_shaped d.
Proof.
  unfold parse_composite. cbv zeta.
  destruct (negb (kd_mat kd =? _)); [discriminate|]. destruct (negb (wire_ok _ _)); [discriminate|].
  destruct (negb (_ && _)); [discriminate|].
  intros H. apply bind_ok in H. destruct H as [m [_ H]]. revert H. match goal with |- (if ?c then Err else _) = Ok _ -> _ => destruct c; [discriminate|] end.
  intros H. apply bind_ok in H. destruct H as [cd [Hc H]]. revert H. match goal with |- (if ?c then Err else _) = Ok _ -> _ => destruct c; [discriminate|] end. intros H.
  eapply composite_of_classical_point; [eapply parse_key_base_point; exact Hc | exact H].
Qed.

(* the composite parsers hand out composite key objects of the right half *)
Lemma composite_of_classical_kind private alg d d' :
  composite_of_classical private alg d = Ok d' -> exists pt seed, d' = PComposite private pt seed.
Proof.
  unfold composite_of_classical.
  destruct d; try discriminate; try (destruct pss); intros H; apply okb_ok in H; destruct H as [_ ->]; eauto.
Qed.

Lemma parse_composite_kind private kd prefix idreq d :
  parse_composite L private kd prefix idreq = Ok d ->
  kd_mat kd = (if private then km_private else km_public) /\ exists pt seed, d = PComposite private pt seed.
Proof.
  unfold parse_composite. cbv zeta.
  destruct (negb (kd_mat kd =? _)) eqn:M; [discriminate|]. destruct (negb (wire_ok _ _)); [discriminate|].
  destruct (negb (_ && _)); [discriminate|].
  intros H. apply bind_ok in H. destruct H as [m [_ H]]. revert H. match goal with |- (if ?c then Err else _) = Ok _ -> _ => destruct c; [discriminate|] end.
  intros H. apply bind_ok in H. destruct H as [cd [_ H]]. revert H. match goal with |- (if ?c then Err else _) = Ok _ -> _ => destruct c; [discriminate|] end. intros H.
  apply negb_false_iff, N.eqb_eq in M. split; [exact M | eapply composite_of_classical_kind; exact H].
Qed.

Lemma parse_key_point kd prefix idreq d : parse_key kd prefix idreq = Ok d -> point_shaped d.
Proof.
  unfold Untrusted.parse_key. destruct (url_is kd u_composite_pub); [apply parse_composite_point|].
  destruct (url_is kd u_composite_priv); [apply parse_composite_point | apply parse_key_base_point].
Qed.

Lemma prim_ok_np d : point_shaped d -> prim_ok L d <> Panic.
Proof.
  assert (P : forall pt : bytes, pt <> [] ->
    bind (slice 1 (length pt) pt) (fun xy =>
    bind (slice 0 (Nat.div (length xy) 2) xy) (fun _ =>
    bind (slice (Nat.div (length xy) 2) (length xy) xy) (fun _ => Ok true))) <> Panic).
  { intros pt Hpt. destruct pt as [|p0 pt]; [congruence|].
    destruct (slice_ok 1 (length (p0 :: pt)) (p0 :: pt)) as [xy [E _]]; [cbn [length]; lia|cbn [length]; lia|].
    rewrite E. cbn [bind].
    assert (Hd : (Nat.div (length xy) 2 <= length xy)%nat) by (apply Nat.div_le_upper_bound; lia).
    destruct (slice_ok 0 (Nat.div (length xy) 2) xy) as [r1 [-> _]]; try lia. cbn [bind].
    destruct (slice_ok (Nat.div (length xy) 2) (length xy) xy) as [r2 [-> _]]; try lia. cbn [bind]. discriminate. }
  destruct d; simpl; intros H; try discriminate; try (apply P; exact H).
  - rewrite (ed25519_from_seed_ok _ H). discriminate.
  - (* ECIES: the slices of 04 || x || y *)
    destruct private.
    + destruct (coord_size curve); discriminate.
    + destruct (coord_size curve) as [c|] eqn:Hc; [|discriminate]. specialize (H c eq_refl).
      destruct (slice_ok 1 (length point) point) as [xy [E Hl]]; try lia.
      rewrite E. cbn [bind]. destruct (dem =? dem_xchacha); [discriminate|].
      destruct (slice_ok 0 c xy) as [r1 [-> _]]; try lia. cbn [bind].
      destruct (slice_ok c (length xy) xy) as [r2 [-> _]]; try lia. cbn [bind]. discriminate.
  - (* composite ML-DSA: the classical half *)
    apply bind_np.
    + destruct point as [|p0 pt]; [discriminate|]. unfold ecdsa_point_slices. apply P. discriminate.
    + intros _ _. destruct seed as [sd|]; [|discriminate]. rewrite (ed25519_from_seed_ok _ H). discriminate.
Qed.

Theorem parse_then_prim_np kd prefix idreq d :
  parse_key kd prefix idreq = Ok d -> prim_ok L d <> Panic.
Proof. intros H. apply prim_ok_np. eapply parse_key_point. exact H. Qed.

Notation to_entry := (to_entry L).
Notation to_entries := (to_entries L).
Notation handle_from_proto := (handle_from_proto L).

Lemma to_entry_np primary k : to_entry primary k <> Panic.
Proof.
  unfold Untrusted.to_entry. destruct (k_data k); [|discriminate].
  apply bind_np; [apply parse_key_np|]. intros d _. destruct (negb _); discriminate.
Qed.

Lemma to_entries_np primary keys : to_entries primary keys <> Panic.
Proof.
  induction keys as [|[k|] t IH]; simpl; try discriminate.
  apply bind_np; [apply to_entry_np|]. intros e _.
  apply bind_np; [exact IH|]. intros es _. discriminate.
Qed.

Lemma new_from_entries_np es : new_from_entries es <> Panic.
Proof. unfold new_from_entries. destruct (existsb _ es); [discriminate|]. destruct (existsb eprim es); discriminate. Qed.

Theorem handle_from_proto_np ks : handle_from_proto ks <> Panic.
Proof.
  unfold Untrusted.handle_from_proto. destruct (validate ks); [|discriminate].
  destruct ks; [|discriminate]. apply bind_np; [apply to_entries_np|]. intros es _. apply new_from_entries_np.
Qed.

Theorem read_np b : read L b <> Panic.
Proof.
  unfold read. destruct (decode_keyset b); [|discriminate].
  destruct (ks_keys k); [discriminate|]. apply handle_from_proto_np.
Qed.

Theorem read_proto_np ks : read_proto L ks <> Panic.
Proof.
  unfold read_proto. destruct ks as [k|]; [|discriminate].
  destruct (ks_keys k); [discriminate|]. apply handle_from_proto_np.
Qed.

Theorem handle_no_secrets_np ks : handle_no_secrets L ks <> Panic.
Proof.
  unfold handle_no_secrets. destruct ks as [k|]; [|discriminate].
  destruct (has_secrets k); [discriminate|]. apply bind_np; [apply handle_from_proto_np|].
  intros h _. destruct (handle_has_secrets h); discriminate.
Qed.

Theorem read_no_secrets_np b : read_no_secrets L b <> Panic.
Proof. unfold read_no_secrets. destruct (decode_keyset b); [|discriminate]. apply handle_no_secrets_np. Qed.

Theorem read_encrypted_np kek b ad : read_encrypted L kek b ad <> Panic.
Proof.
  unfold read_encrypted. destruct (decode_encrypted b); [|discriminate].
  destruct (kek _ ad); [|discriminate]. destruct (decode_keyset _); [|discriminate]. apply handle_from_proto_np.
Qed.

End KeysProofs.

(* ------------------------------------------------------------------ *)
(* mismatched public / private parts are rejected                      *)
(* ------------------------------------------------------------------ *)
Lemma skipn_add {A} (a b : nat) (l : list A) : skipn (a + b) l = skipn a (skipn b l).
Proof.
  revert l. induction b as [|b IH]; intros l.
  - rewrite Nat.add_0_r. reflexivity.
  - destruct l as [|x t]; [repeat rewrite skipn_nil; reflexivity|].
    rewrite Nat.add_succ_r. cbn [skipn]. apply IH.
Qed.

Lemma halves_concat {A} (s : list A) (n : nat) : length s = (4 * n)%nat ->
  firstn (3 * n - 2 * n) (skipn (2 * n) s) ++ firstn (4 * n - 3 * n) (skipn (3 * n) s) = skipn (2 * n) s.
Proof.
  intros Hl.
  replace (3 * n - 2 * n)%nat with n by lia. replace (4 * n - 3 * n)%nat with n by lia.
  replace (3 * n)%nat with (n + 2 * n)%nat by lia. rewrite skipn_add.
  remember (skipn (2 * n) s) as t eqn:Et.
  assert (Ht : length t = (2 * n)%nat) by (subst t; rewrite skipn_length; lia).
  rewrite <- (firstn_skipn n t) at 3. f_equal.
  rewrite firstn_all2; [reflexivity|]. rewrite skipn_length. lia.
Qed.

Section Consistency.
Variable L : stdlib.

(* Ed25519: the public part is the public key of the 32-byte seed *)
Lemma ed25519_priv_consistent kd prefix idreq d :
  parse_ed25519_priv L kd prefix idreq = Ok d ->
  let fs := fields_or_nil (kd_value kd) in
  blen (get_len 2 fs) = ed25519_seed_size
  /\ get_len 2 (get_sub 3 fs) = ed25519_pub L (get_len 2 fs)
  /\ d = PEd25519Priv (get_len 2 fs).
Proof.
  unfold parse_ed25519_priv. cbv zeta.
  destruct (negb (kd_mat kd =? km_private)); [discriminate|].
  destruct (negb (wire_ok _ _)); [discriminate|].
  destruct (negb (_ && _)); [discriminate|].
  match goal with |- context [ed25519_from_seed L ?s] => destruct (blen s =? ed25519_seed_size) eqn:E end;
    cbn [negb]; [|discriminate].
  apply N.eqb_eq in E. rewrite (ed25519_from_seed_ok _ _ E). cbn [bind].
  destruct (beq _ _) eqn:B; [|discriminate]. apply beq_eq in B. intros H. inversion H. auto.
Qed.

(* RSA (plain and JWT): the key passed crypto/rsa's Validate and the three
   CRT values of the message are the ones Precompute derives *)
Definition rsa_crt_consistent (n : bytes) (e : N) (fs : list field) : Prop :=
  exists dp dq qinv,
    rsa_crt L n e (get_len 3 fs) (get_len 4 fs) (get_len 5 fs) = Some (dp, dq, qinv)
    /\ dp = strip_zeros (get_len 6 fs) /\ dq = strip_zeros (get_len 7 fs) /\ qinv = strip_zeros (get_len 8 fs).

Lemma rsa_priv_consistent pss kd prefix idreq d :
  parse_rsa_priv L pss kd prefix idreq = Ok d ->
  let fs := fields_or_nil (kd_value kd) in
  let pub := get_sub 2 fs in
  rsa_crt_consistent (get_len 3 pub) (exponent_value (rsa_exponent (get_len 4 pub))) fs
  /\ exponent_value (rsa_exponent (get_len 4 pub)) = rsa_exponent_prim
  /\ exists hash salt, rsa_selfcheck L pss hash salt (get_len 3 pub) rsa_exponent_prim
                         (get_len 3 fs) (get_len 4 fs) (get_len 5 fs) = true.
Proof.
  unfold parse_rsa_priv. cbv zeta.
  repeat match goal with |- (if ?c then Err else _) = Ok _ -> _ => destruct c eqn:?; [discriminate|] end.
  destruct (rsa_crt L _ _ _ _ _) as [[[dp dq] qinv]|] eqn:V; [|discriminate].
  destruct (negb (_ && (_ =? rsa_exponent_prim))) eqn:P; [discriminate|].
  destruct (negb (rsa_selfcheck _ _ _ _ _ _ _ _ _)) eqn:SC; [discriminate|].
  intros H. apply okb_ok in H. destruct H as [C _].
  apply negb_false_iff in P. apply andb_true_iff in P. destruct P as [_ P]. apply N.eqb_eq in P.
  apply negb_false_iff in SC. rewrite P in SC.
  repeat rewrite andb_true_iff in C. destruct C as [[C1 C2] C3].
  apply beq_eq in C1. apply beq_eq in C2. apply beq_eq in C3.
  split; [|split; [exact P|eauto]].
  exists dp, dq, qinv. auto.
Qed.

Lemma jwt_rsa_priv_consistent pss kd prefix idreq d :
  parse_jwt_rsa_priv L pss kd prefix idreq = Ok d ->
  let fs := fields_or_nil (kd_value kd) in
  let pub := get_sub 2 fs in
  rsa_crt_consistent (get_len 3 pub) (exponent_value (rsa_exponent (get_len 4 pub))) fs.
Proof.
  unfold parse_jwt_rsa_priv. cbv zeta.
  repeat match goal with |- (if ?c then Err else _) = Ok _ -> _ => destruct c eqn:?; [discriminate|] end.
  destruct (rsa_crt L _ _ _ _ _) as [[[dp dq] qinv]|] eqn:V; [|discriminate].
  intros H. apply okb_ok in H. destruct H as [C _].
  repeat rewrite andb_true_iff in C. destruct C as [[C1 C2] C3].
  apply beq_eq in C1. apply beq_eq in C2. apply beq_eq in C3.
  exists dp, dq, qinv. auto.
Qed.

(* ECIES, JWT-ECDSA: the point of the key object is the public key crypto/ecdh
   derives from the (padded) private scalar *)
Lemma ecies_priv_consistent kd prefix idreq d :
  parse_ecies_priv L kd prefix idreq = Ok d ->
  exists curve dem pt sk, d = PEcies true curve dem pt /\ ec_pub_of_priv L curve sk = Some pt
    /\ ec_point_ok L curve pt = true.
Proof.
  unfold parse_ecies_priv. cbv zeta.
  repeat match goal with |- (if ?c then Err else _) = Ok _ -> _ => destruct c; [discriminate|] end.
  intros H. apply bind_ok in H. destruct H as [[[c dem] pt] [_ H]].
  apply bind_ok in H. destruct H as [sk [_ H]].
  destruct (ec_pub_of_priv L c sk) as [pt'|] eqn:E; [|discriminate].
  destruct (negb (ec_point_ok L c pt)) eqn:V; [discriminate|]. apply negb_false_iff in V.
  destruct (beq pt' pt) eqn:B; [|discriminate]. apply beq_eq in B. subst pt'.
  inversion H. exists c, dem, pt, sk. auto.
Qed.

Lemma jwt_ecdsa_priv_consistent kd prefix idreq d :
  parse_jwt_ecdsa_priv L kd prefix idreq = Ok d ->
  exists alg pt sk, d = PJwtEcdsa true alg pt /\ ec_pub_of_priv L (jwt_curve alg) sk = Some pt.
Proof.
  unfold parse_jwt_ecdsa_priv. cbv zeta.
  repeat match goal with |- (if ?c then Err else _) = Ok _ -> _ => destruct c; [discriminate|] end.
  intros H. apply bind_ok in H. destruct H as [[alg pt] [_ H]].
  destruct (coord_size _) as [c|]; [|discriminate].
  apply bind_ok in H. destruct H as [sk [_ H]].
  destruct (ec_pub_of_priv L _ sk) as [pt'|] eqn:E; [|discriminate].
  destruct (beq pt pt') eqn:B; [|discriminate]. apply beq_eq in B. subst pt'.
  inversion H. exists alg, pt, sk. auto.
Qed.

(* HPKE: the public key bytes are what the KEM derives from the private key
   (crypto/ecdh, X-Wing = SHAKE256 + ML-KEM-768 + X25519, ML-KEM) *)
Lemma hpke_priv_consistent kd prefix idreq d :
  parse_hpke_priv L kd prefix idreq = Ok d ->
  let fs := fields_or_nil (kd_value kd) in
  let kem := get_u32 1 (get_sub 2 (get_sub 2 fs)) in
  let pk := get_len 3 (get_sub 2 fs) in
  let sk := get_len 3 fs in
  match hpke_ecdh_curve kem with
  | Some c => ec_pub_of_priv L c sk = Some pk /\ ec_point_ok L c pk = true
  | None => if kem =? kem_xwing then xwing_pub L sk = Some pk
            else if kem =? kem_mlkem768 then mlkem_pub L 768 sk = Some pk
            else mlkem_pub L 1024 sk = Some pk
  end.
Proof.
  unfold parse_hpke_priv. cbv zeta.
  repeat match goal with |- (if ?c then Err else _) = Ok _ -> _ => destruct c; [discriminate|] end.
  intros H. apply bind_ok in H. destruct H as [[kem pk] [Hp H]].
  unfold hpke_pub_of in Hp. destruct (negb _) in Hp; [discriminate|].
  match type of Hp with (if ?v then _ else _) = _ => destruct v; [|discriminate] end.
  inversion Hp; subst kem pk. clear Hp.
  destruct (hpke_ecdh_curve _) as [c|].
  - destruct (ec_point_ok L c _) eqn:V; [|discriminate].
    destruct (ec_pub_of_priv L c _) as [p|] eqn:E; [|discriminate].
    destruct (beq p _) eqn:B; [|discriminate]. apply beq_eq in B. subst p. auto.
  - destruct (_ =? kem_xwing).
    + destruct (xwing_pub L _) as [p|]; [|discriminate]. destruct (beq p _) eqn:B; [|discriminate].
      apply beq_eq in B. subst p. reflexivity.
    + destruct (_ =? kem_mlkem768).
      * destruct (mlkem_pub L 768 _) as [p|]; [|discriminate]. destruct (beq p _) eqn:B; [|discriminate].
        apply beq_eq in B. subst p. reflexivity.
      * destruct (mlkem_pub L 1024 _) as [p|]; [|discriminate]. destruct (beq p _) eqn:B; [|discriminate].
        apply beq_eq in B. subst p. reflexivity.
Qed.

(* SLH-DSA: the public part is the second half of the private key *)
Lemma slhdsa_priv_consistent kd prefix idreq d :
  parse_slhdsa_priv kd prefix idreq = Ok d ->
  let fs := fields_or_nil (kd_value kd) in
  let sk := get_len 2 fs in
  exists ks, blen sk = ks /\ (ks = slhdsa_key_a \/ ks = slhdsa_key_b \/ ks = slhdsa_key_c)
    /\ get_len 2 (get_sub 3 fs) = skipn (N.to_nat (ks / 2)) sk.
Proof.
  unfold parse_slhdsa_priv. cbv zeta.
  repeat match goal with |- (if ?c then Err else _) = Ok _ -> _ => destruct c; [discriminate|] end.
  destruct (slhdsa_pub_of _ _ _) as [ks|] eqn:E; [|discriminate].
  match goal with |- context [negb (blen ?sk =? ks)] => destruct (blen sk =? ks) eqn:El; cbn [negb]; [|discriminate];
    set (skb := sk) in * end.
  apply N.eqb_eq in El.
  assert (Hks : ks = slhdsa_key_a \/ ks = slhdsa_key_b \/ ks = slhdsa_key_c).
  { unfold slhdsa_pub_of in E. destruct (_ && _) eqn:C in E; [|discriminate]. inversion E; subst.
    repeat rewrite andb_true_iff in C. destruct C as [[[_ C] _] _]. lia. }
  intros H. apply bind_ok in H. destruct H as [a [Ha H]]. apply bind_ok in H. destruct H as [b [Hb H]].
  destruct (beq _ _) eqn:B; [|discriminate]. apply beq_eq in B.
  exists ks. split; [exact El|]. split; [exact Hks|]. rewrite <- B.
  unfold blen in El.
  assert (Hn : (4 * N.to_nat (ks / 4) = length skb)%nat /\ N.to_nat (ks / 2) = (2 * N.to_nat (ks / 4))%nat).
  { destruct Hks as [->|[->| ->]]; vm_compute (N.to_nat (_ / 4)); vm_compute (N.to_nat (_ / 2));
      unfold slhdsa_key_a, slhdsa_key_b, slhdsa_key_c in El; lia. }
  destruct Hn as [Hn Hh]. rewrite Hh.
  unfold slice in Ha, Hb.
  destruct (_ && _)%bool in Ha; [|discriminate]. destruct (_ && _)%bool in Hb; [|discriminate].
  injection Ha as <-. injection Hb as <-.
  exact (halves_concat skb (N.to_nat (ks / 4)) (eq_sym Hn)).
Qed.

End Consistency.

(* ------------------------------------------------------------------ *)
(* accepted keysets give well-formed handles                           *)
(* ------------------------------------------------------------------ *)
Section HandleProofs.
Variable L : stdlib.
Notation to_entry := (to_entry L).
Notation to_entries := (to_entries L).
Notation handle_from_proto := (handle_from_proto L).

(* entry e is what keysetToEntries makes of key k *)
Definition entry_of (primary : N) (k : option pkey) (e : entry) : Prop :=
  exists pk, k = Some pk /\ eid e = k_id pk /\ estatus e = k_status pk
    /\ eprim e = (k_id pk =? primary) /\ eprefix e = k_prefix pk
    /\ ereq e = (if k_prefix pk =? 3 then None else Some (k_id pk)).

Lemma to_entry_shape primary k e : to_entry primary k = Ok e -> entry_of primary (Some k) e.
Proof.
  unfold Untrusted.to_entry. destruct (k_data k) as [kd|]; [|discriminate].
  intros H. apply bind_ok in H. destruct H as [d [_ H]].
  destruct (negb _); [discriminate|]. inversion H; subst. exists k. cbn. unfold pt_raw. repeat split; reflexivity.
Qed.

Lemma to_entries_shape primary keys es :
  to_entries primary keys = Ok es -> Forall2 (entry_of primary) keys es.
Proof.
  revert es. induction keys as [|[k|] t IH]; simpl; intros es H.
  - inversion H. constructor.
  - apply bind_ok in H. destruct H as [e [He H]]. apply bind_ok in H. destruct H as [es' [Hes H]].
    inversion H; subst. constructor; [apply to_entry_shape; exact He|apply IH; exact Hes].
  - discriminate.
Qed.

Lemma forall2_ids primary keys es : Forall2 (entry_of primary) keys es -> map eid es = map key_id keys.
Proof.
  induction 1 as [|k e keys es [pk [-> [A _]]] _ IH]; simpl; [reflexivity|]. rewrite A, IH. reflexivity.
Qed.

Lemma forall2_in primary keys es e : Forall2 (entry_of primary) keys es -> In e es ->
  exists k, In k keys /\ entry_of primary k e.
Proof.
  induction 1 as [|k e' keys es Hk _ IH]; simpl; [tauto|]. intros [<-|Hin].
  - exists k. auto.
  - destruct (IH Hin) as [k' [H1 H2]]. exists k'. auto.
Qed.

(* with distinct ids, exactly one entry is the primary *)
Lemma count_prim_one primary keys es :
  Forall2 (entry_of primary) keys es -> NoDup (map key_id keys) ->
  (exists pk, In (Some pk) keys /\ k_id pk = primary) -> count_prim es = 1%nat.
Proof.
  unfold count_prim. induction 1 as [|k e keys es [pk [-> [A [_ [P _]]]]] Hrest IH]; simpl; intros Hnd [pk0 [Hin Hid]].
  - tauto.
  - inversion Hnd as [|? ? Hn Hd]; subst. rewrite P.
    destruct (k_id pk =? k_id pk0) eqn:E.
    + apply N.eqb_eq in E. simpl. f_equal.
      (* no other entry has the primary id *)
      assert (Z : forall keys es, Forall2 (entry_of (k_id pk0)) keys es -> ~ In (k_id pk0) (map key_id keys) ->
                  length (filter eprim es) = 0%nat).
      { clear. induction 1 as [|k e keys es [pk [-> [A [_ [P _]]]]] _ IH]; simpl; intros Hn; [reflexivity|].
        rewrite P. destruct (k_id pk =? k_id pk0) eqn:E.
        - apply N.eqb_eq in E. exfalso. apply Hn. left. exact E.
        - apply IH. intros Hc. apply Hn. right. exact Hc. }
      apply Z with (keys := keys); auto. rewrite <- E. exact Hn.
    + apply N.eqb_neq in E. apply IH; auto. exists pk0. split; auto.
      destruct Hin as [Hin|Hin]; [inversion Hin; subst; congruence|exact Hin].
Qed.

Lemma primary_unique keys pk pk' :
  NoDup (map key_id keys) -> In (Some pk) keys -> In (Some pk') keys -> k_id pk = k_id pk' -> pk = pk'.
Proof.
  induction keys as [|x l IHl]; simpl; intros Hnd H1 H2 Heq; [tauto|].
  inversion Hnd as [|? ? Hn Hd]; subst.
  destruct H1 as [->|H1], H2 as [H2|H2].
  - inversion H2. reflexivity.
  - exfalso. apply Hn. simpl. rewrite Heq. change (k_id pk') with (key_id (Some pk')). apply in_map. exact H2.
  - subst x. exfalso. apply Hn. simpl. rewrite <- Heq. change (k_id pk) with (key_id (Some pk)). apply in_map. exact H1.
  - auto.
Qed.

Theorem handle_from_proto_wf ks h :
  handle_from_proto ks = Ok h ->
  exists k, ks = Some k /\ wf_keyset k /\ wf_handle h
    /\ Forall2 (entry_of (ks_primary k)) (ks_keys k) h.
Proof.
  unfold Untrusted.handle_from_proto. destruct (validate ks) eqn:V; [|discriminate].
  destruct ks as [k|]; [|discriminate]. intros H. apply bind_ok in H. destruct H as [es [Hes H]].
  apply validate_sound in V. apply to_entries_shape in Hes.
  unfold new_from_entries in H. destruct (existsb _ es); [discriminate|].
  destruct (existsb eprim es); [|discriminate]. inversion H; subst h. clear H.
  exists k. split; [reflexivity|]. split; [exact V|]. split; [|exact Hes].
  destruct V as [Hne [Hk [Hnd [pk [P1 [P2 P3]]]]]]. unfold ids in Hnd.
  unfold wf_handle. repeat split.
  - intros ->. inversion Hes as [E|]. congruence.
  - rewrite (forall2_ids _ _ _ Hes). exact Hnd.
  - eapply count_prim_one; eauto.
  - intros e Hin Hp. destruct (forall2_in _ _ _ _ Hes Hin) as [k' [Hk' [pk' [-> [A [B [C _]]]]]]].
    rewrite Hp in C. symmetry in C. apply N.eqb_eq in C.
    assert (pk' = pk) by (eapply primary_unique; eauto; congruence). subst. congruence.
  - intros e Hin. destruct (forall2_in _ _ _ _ Hes Hin) as [k' [Hk' [pk' [-> [A [B _]]]]]].
    rewrite Forall_forall in Hk. destruct (Hk _ Hk') as [pk'' [kd [E [_ [_ S]]]]]. inversion E; subst. rewrite B. exact S.
  - intros e Hin. destruct (forall2_in _ _ _ _ Hes Hin) as [k' [Hk' [pk' [-> [A [B [C [D _]]]]]]]].
    rewrite Forall_forall in Hk. destruct (Hk _ Hk') as [pk'' [kd [E [_ [S _]]]]]. inversion E; subst. rewrite D. exact S.
  - intros e Hin. destruct (forall2_in _ _ _ _ Hes Hin) as [k' [Hk' [pk' [-> [A [B [C [D R]]]]]]]].
    rewrite R, D, A. reflexivity.
Qed.

Theorem read_wf b h : read L b = Ok h ->
  exists ks, decode_keyset b = Some ks /\ wf_keyset ks /\ wf_handle h
    /\ Forall2 (entry_of (ks_primary ks)) (ks_keys ks) h.
Proof.
  unfold read. destruct (decode_keyset b) as [ks|]; [|discriminate].
  destruct (ks_keys ks) eqn:E; [discriminate|]. intros H.
  apply handle_from_proto_wf in H. destruct H as [k [Hk H]]. inversion Hk; subst. exists k. auto.
Qed.

(* the malformed keysets of the property are rejected by every entry point *)
Theorem malformed_rejected ks : ~ wf_keyset ks -> handle_from_proto (Some ks) = Err.
Proof.
  intros H. unfold Untrusted.handle_from_proto. destruct (validate (Some ks)) eqn:V; [|reflexivity].
  exfalso. apply H. apply validate_sound. exact V.
Qed.

End HandleProofs.

(* ------------------------------------------------------------------ *)
(* a usable key is at least as strong as the property demands          *)
(* ------------------------------------------------------------------ *)
Section StrengthProofs.
Variable L : stdlib.
Notation usable := (usable L).

(* select the parser of the key's type URL: every comparison of two constant
   URLs is evaluated *)
Ltac dispatch H U :=
  unfold Untrusted.usable, Untrusted.parse_key, Untrusted.parse_key_base, url_is in H; rewrite U in H;
  repeat match type of H with context [beq ?a ?b] =>
     let v := eval vm_compute in (beq a b) in change (beq a b) with v in H end;
  cbv iota zeta in H.

(* peel the guards; leaves C: the parser's condition, P: the constructor's *)
Ltac peel H C P :=
  repeat match type of H with context [if ?c then Err else _] => destruct c; [discriminate|] end;
  match type of H with context [okb ?c ?d] => destruct c eqn:C end; cbn [okb] in H; [|discriminate];
  cbn [prim_ok] in H;
  match type of H with
  | context [Ok ?b] => destruct b eqn:P
  | context [if ?b then _ else _] => destruct b eqn:P
  end; [|discriminate]; clear H.

Lemma hmac_params_strong hash kl tag : hmac_params_ok hash kl tag = true -> 16 <= kl /\ 10 <= tag.
Proof.
  unfold hmac_params_ok. destruct (digest_size hash); [|discriminate].
  unfold hmac_min_tag_prim, hmac_min_key_prim. lia.
Qed.

Lemma strength_hmac kd prefix idreq : usable kd prefix idreq = true -> is_url kd url_hmac ->
  16 <= blen (get_len 3 (vfields kd)) /\ 10 <= get_u32 2 (get_sub 2 (vfields kd)).
Proof.
  intros H U. change (kd_url kd = u_hmac) in U. dispatch H U. peel H C P.
  unfold vfields. apply hmac_params_strong in P. exact P.
Qed.

Lemma strength_aes_gcm kd prefix idreq : usable kd prefix idreq = true -> is_url kd url_aes_gcm ->
  aes_size_ok (blen (get_len 3 (vfields kd))).
Proof.
  intros H U. change (kd_url kd = u_aes_gcm) in U. dispatch H U. peel H C P.
  unfold vfields, aes_size_ok. unfold aes_16_32, aes_k16, aes_k32 in P. lia.
Qed.

Lemma strength_aes_gcm_siv kd prefix idreq : usable kd prefix idreq = true -> is_url kd url_aes_gcm_siv ->
  aes_size_ok (blen (get_len 3 (vfields kd))).
Proof.
  intros H U. change (kd_url kd = u_aes_gcm_siv) in U. dispatch H U. peel H C P.
  unfold vfields, aes_size_ok. unfold aes_16_32, aes_k16, aes_k32 in P. lia.
Qed.

Lemma strength_aes_cmac kd prefix idreq : usable kd prefix idreq = true -> is_url kd url_aes_cmac ->
  aes_size_ok (blen (get_len 2 (vfields kd))).
Proof.
  intros H U. change (kd_url kd = u_aes_cmac) in U. dispatch H U. peel H C P.
  unfold vfields, aes_size_ok. unfold cmac_key_prim in P. lia.
Qed.

Lemma strength_aes_cmac_prf kd prefix idreq : usable kd prefix idreq = true -> is_url kd url_aes_cmac_prf ->
  aes_size_ok (blen (get_len 2 (vfields kd))).
Proof.
  intros H U. change (kd_url kd = u_aes_cmac_prf) in U. dispatch H U. peel H C P.
  unfold vfields, aes_size_ok. unfold cmacprf_key_prim in P. lia.
Qed.

Lemma strength_aes_siv kd prefix idreq : usable kd prefix idreq = true -> is_url kd url_aes_siv ->
  blen (get_len 2 (vfields kd)) = 32 \/ blen (get_len 2 (vfields kd)) = 64.
Proof.
  intros H U. change (kd_url kd = u_aes_siv) in U. dispatch H U. peel H C P.
  unfold vfields. unfold siv_key_prim in P. lia.
Qed.

Lemma strength_aes_ctr_hmac kd prefix idreq : usable kd prefix idreq = true -> is_url kd url_aes_ctr_hmac ->
  aes_size_ok (blen (get_len 3 (get_sub 2 (vfields kd))))
  /\ 16 <= blen (get_len 3 (get_sub 3 (vfields kd)))
  /\ 10 <= get_u32 2 (get_sub 2 (get_sub 3 (vfields kd))).
Proof.
  intros H U. change (kd_url kd = u_aes_ctr_hmac) in U. dispatch H U. peel H C P.
  unfold vfields, aes_size_ok. repeat rewrite andb_true_iff in P. destruct P as [[[P1 _] _] P2].
  apply hmac_params_strong in P2. unfold aes_16_32, aes_k16, aes_k32 in P1. lia.
Qed.

Lemma strength_hkdf_prf kd prefix idreq : usable kd prefix idreq = true -> is_url kd url_hkdf_prf ->
  32 <= blen (get_len 3 (vfields kd)).
Proof.
  intros H U. change (kd_url kd = u_hkdf_prf) in U. dispatch H U. peel H C P.
  unfold vfields. unfold hkdf_min_key_prim in P. lia.
Qed.

Lemma rsa_exponent_exact e v : rsa_exponent_parse_ok (rsa_exponent e) = true ->
  exponent_value (rsa_exponent e) = v -> be_val e = v.
Proof.
  unfold rsa_exponent. destruct (be_val e <? 9223372036854775808); simpl; [|discriminate].
  intros _ H. exact H.
Qed.

Lemma strength_rsa_pkcs1 kd prefix idreq : usable kd prefix idreq = true ->
  is_url kd url_rsa_pkcs1_pub -> rsa_strong (vfields kd).
Proof.
  intros H U. change (kd_url kd = u_rsa_pkcs1_pub) in U. dispatch H U. peel H C P.
  unfold rsa_strong. unfold vfields in *.
  repeat rewrite andb_true_iff in C. destruct C as [_ C].
  repeat rewrite andb_true_iff in P. destruct P as [[P1 P2] _].
  unfold rsa_exponent_prim in P2. apply N.eqb_eq in P2. apply (rsa_exponent_exact _ _ C) in P2.
  unfold rsa_min_bits_prim in P1. split; [lia|exact P2].
Qed.

Lemma strength_rsa_pss kd prefix idreq : usable kd prefix idreq = true ->
  is_url kd url_rsa_pss_pub -> rsa_strong (vfields kd).
Proof.
  intros H U. change (kd_url kd = u_rsa_pss_pub) in U. dispatch H U. peel H C P.
  unfold rsa_strong. unfold vfields in *.
  repeat rewrite andb_true_iff in C. destruct C as [_ C].
  repeat rewrite andb_true_iff in P. destruct P as [[P1 P2] _].
  unfold rsa_exponent_prim in P2. apply N.eqb_eq in P2. apply (rsa_exponent_exact _ _ C) in P2.
  unfold rsa_min_bits_prim in P1. split; [lia|exact P2].
Qed.

Lemma ecdsa_params_level curve hash enc prefix :
  ecdsa_params_ok curve hash enc prefix = true -> curve_level curve <= hash_level hash.
Proof.
  unfold ecdsa_params_ok, curve_level, hash_level, c_p256, c_p384, c_p521, h_sha256, h_sha384, h_sha512.
  intros H. repeat rewrite andb_true_iff in H. destruct H as [_ H].
  destruct (curve =? 2) eqn:C2.
  - apply N.eqb_eq in H. subst hash. cbn. lia.
  - destruct (curve =? 3) eqn:C3.
    + apply orb_true_iff in H. destruct H as [H|H]; apply N.eqb_eq in H; subst hash; cbn; lia.
    + destruct (curve =? 4) eqn:C4; [|discriminate]. apply N.eqb_eq in H. subst hash. cbn. lia.
Qed.

Lemma strength_ecdsa_pub kd prefix idreq : usable kd prefix idreq = true -> is_url kd url_ecdsa_pub ->
  ecdsa_params_strong (get_sub 2 (vfields kd)).
Proof.
  intros H U. change (kd_url kd = u_ecdsa_pub) in U. dispatch H U.
  repeat match type of H with context [if ?c then Err else _] => destruct c; [discriminate|] end.
  destruct (ecdsa_pub_of _ _ _ _) as [[[[curve hash] enc] pt]| |] eqn:EP; cbn [bind] in H; try discriminate.
  apply ecdsa_pub_of_ok in EP. destruct EP as [-> [-> [EP _]]].
  unfold ecdsa_params_strong, vfields. eapply ecdsa_params_level. exact EP.
Qed.

Lemma strength_ecdsa_priv kd prefix idreq : usable kd prefix idreq = true -> is_url kd url_ecdsa_priv ->
  ecdsa_params_strong (get_sub 2 (get_sub 2 (vfields kd))).
Proof.
  intros H U. change (kd_url kd = u_ecdsa_priv) in U. dispatch H U.
  repeat match type of H with context [if ?c then Err else _] => destruct c; [discriminate|] end.
  destruct (ecdsa_pub_of _ _ _ _) as [[[[curve hash] enc] pt]| |] eqn:EP; cbn [bind] in H; try discriminate.
  apply ecdsa_pub_of_ok in EP. destruct EP as [-> [-> [EP _]]].
  unfold ecdsa_params_strong, vfields. eapply ecdsa_params_level. exact EP.
Qed.

Lemma strength_xaes_gcm kd prefix idreq : usable kd prefix idreq = true -> is_url kd url_xaes_gcm ->
  aes_size_ok (blen (get_len 3 (vfields kd))).
Proof.
  intros H U. change (kd_url kd = u_xaes_gcm) in U. dispatch H U. peel H C P.
  unfold vfields, aes_size_ok. unfold aes_16_32, aes_k16, aes_k32 in P. lia.
Qed.

Lemma strength_rsa_priv pss kd prefix idreq d :
  parse_rsa_priv L pss kd prefix idreq = Ok d -> prim_ok L d = Ok true -> rsa_strong (get_sub 2 (vfields kd)).
Proof.
  unfold parse_rsa_priv, vfields.
  repeat match goal with |- (if ?c then Err else _) = Ok _ -> _ => destruct c eqn:?; [discriminate|] end.
  destruct (rsa_crt L _ _ _ _ _) as [[[dp dq] qinv]|]; [|discriminate].
  repeat match goal with |- (if ?c then Err else _) = Ok _ -> _ => destruct c eqn:?; [discriminate|] end.
  intros H. apply okb_ok in H. destruct H as [_ ->]. cbn [prim_ok]. intros P. inversion P as [P'].
  repeat rewrite andb_true_iff in P'. destruct P' as [[P1 P2] _].
  match goal with H : negb (_ && _ && _ && _ && _ && rsa_exponent_parse_ok _ && _ && _) = false |- _ =>
    apply negb_false_iff in H; repeat rewrite andb_true_iff in H; destruct H as [[[_ C] _] _] end.
  unfold rsa_exponent_prim in P2. apply N.eqb_eq in P2. apply (rsa_exponent_exact _ _ C) in P2.
  unfold rsa_min_bits_prim in P1. split; [lia|exact P2].
Qed.

Lemma strength_rsa_pkcs1_priv kd prefix idreq : usable kd prefix idreq = true ->
  is_url kd url_rsa_pkcs1_priv -> rsa_strong (get_sub 2 (vfields kd)).
Proof.
  intros H U. change (kd_url kd = u_rsa_pkcs1_priv) in U.
  unfold Untrusted.usable, Untrusted.parse_key, Untrusted.parse_key_base, parse_key_more, url_is in H; rewrite U in H;
  repeat match type of H with context [beq ?a ?b] =>
     let v := eval vm_compute in (beq a b) in change (beq a b) with v in H end;
  cbv iota in H.
  destruct (parse_rsa_priv L false kd prefix idreq) as [d| |] eqn:P; try discriminate.
  destruct (prim_ok L d) as [[|]| |] eqn:Q; try discriminate.
  eapply strength_rsa_priv; eauto.
Qed.

Lemma strength_rsa_pss_priv kd prefix idreq : usable kd prefix idreq = true ->
  is_url kd url_rsa_pss_priv -> rsa_strong (get_sub 2 (vfields kd)).
Proof.
  intros H U. change (kd_url kd = u_rsa_pss_priv) in U.
  unfold Untrusted.usable, Untrusted.parse_key, Untrusted.parse_key_base, parse_key_more, url_is in H; rewrite U in H;
  repeat match type of H with context [beq ?a ?b] =>
     let v := eval vm_compute in (beq a b) in change (beq a b) with v in H end;
  cbv iota in H.
  destruct (parse_rsa_priv L true kd prefix idreq) as [d| |] eqn:P; try discriminate.
  destruct (prim_ok L d) as [[|]| |] eqn:Q; try discriminate.
  eapply strength_rsa_priv; eauto.
Qed.

Ltac dispatch_more H U :=
  unfold Untrusted.usable, Untrusted.parse_key, Untrusted.parse_key_base, parse_key_more, url_is in H; rewrite U in H;
  repeat match type of H with context [beq ?a ?b] =>
     let v := eval vm_compute in (beq a b) in change (beq a b) with v in H end;
  cbv iota in H.

Lemma strength_jwt_rsa pss kd prefix idreq d :
  parse_jwt_rsa_pub pss kd prefix idreq = Ok d -> prim_ok L d = Ok true -> rsa_strong (vfields kd).
Proof.
  unfold parse_jwt_rsa_pub, vfields.
  repeat match goal with |- (if ?c then Err else _) = Ok _ -> _ => destruct c; [discriminate|] end.
  intros H. apply okb_ok in H. destruct H as [C ->]. cbn [prim_ok]. intros P. inversion P as [P'].
  repeat rewrite andb_true_iff in P'. destruct P' as [P1 P2].
  repeat rewrite andb_true_iff in C. destruct C as [[_ C] _].
  unfold rsa_exponent_prim in P2. apply N.eqb_eq in P2. apply (rsa_exponent_exact _ _ C) in P2.
  unfold rsa_min_bits_prim in P1. split; [lia|exact P2].
Qed.

Lemma strength_jwt_rsa_pkcs1 kd prefix idreq : usable kd prefix idreq = true ->
  is_url kd url_jwt_rsa_pkcs1_pub -> rsa_strong (vfields kd).
Proof.
  intros H U. change (kd_url kd = u_jwt_rsa_pkcs1_pub) in U. dispatch_more H U.
  destruct (parse_jwt_rsa_pub false kd prefix idreq) as [d| |] eqn:P; try discriminate.
  destruct (prim_ok L d) as [[|]| |] eqn:Q; try discriminate. eapply strength_jwt_rsa; eauto.
Qed.

Lemma strength_jwt_rsa_pss kd prefix idreq : usable kd prefix idreq = true ->
  is_url kd url_jwt_rsa_pss_pub -> rsa_strong (vfields kd).
Proof.
  intros H U. change (kd_url kd = u_jwt_rsa_pss_pub) in U. dispatch_more H U.
  destruct (parse_jwt_rsa_pub true kd prefix idreq) as [d| |] eqn:P; try discriminate.
  destruct (prim_ok L d) as [[|]| |] eqn:Q; try discriminate. eapply strength_jwt_rsa; eauto.
Qed.

Lemma strength_jwt_rsa_priv pss kd prefix idreq d :
  parse_jwt_rsa_priv L pss kd prefix idreq = Ok d -> prim_ok L d = Ok true -> rsa_strong (get_sub 2 (vfields kd)).
Proof.
  unfold parse_jwt_rsa_priv, vfields.
  repeat match goal with |- (if ?c then Err else _) = Ok _ -> _ => destruct c eqn:?; [discriminate|] end.
  destruct (rsa_crt L _ _ _ _ _) as [[[dp dq] qinv]|] eqn:V; [|discriminate].
  intros H. apply okb_ok in H. destruct H as [_ ->]. cbn [prim_ok]. rewrite V. intros P. inversion P as [P'].
  cbn [andb] in P'. repeat rewrite andb_true_iff in P'. destruct P' as [[P1 P2] _].
  match goal with H : negb (_ && _ && _ && _ && rsa_exponent_parse_ok _ && _) = false |- _ =>
    apply negb_false_iff in H; repeat rewrite andb_true_iff in H; destruct H as [[_ C] _] end.
  unfold rsa_exponent_prim in P2. apply N.eqb_eq in P2. apply (rsa_exponent_exact _ _ C) in P2.
  unfold rsa_min_bits_prim in P1. split; [lia|exact P2].
Qed.

Lemma strength_jwt_rsa_pkcs1_priv kd prefix idreq : usable kd prefix idreq = true ->
  is_url kd url_jwt_rsa_pkcs1_priv -> rsa_strong (get_sub 2 (vfields kd)).
Proof.
  intros H U. change (kd_url kd = u_jwt_rsa_pkcs1_priv) in U. dispatch_more H U.
  destruct (parse_jwt_rsa_priv L false kd prefix idreq) as [d| |] eqn:P; try discriminate.
  destruct (prim_ok L d) as [[|]| |] eqn:Q; try discriminate. eapply strength_jwt_rsa_priv; eauto.
Qed.

Lemma strength_jwt_rsa_pss_priv kd prefix idreq : usable kd prefix idreq = true ->
  is_url kd url_jwt_rsa_pss_priv -> rsa_strong (get_sub 2 (vfields kd)).
Proof.
  intros H U. change (kd_url kd = u_jwt_rsa_pss_priv) in U. dispatch_more H U.
  destruct (parse_jwt_rsa_priv L true kd prefix idreq) as [d| |] eqn:P; try discriminate.
  destruct (prim_ok L d) as [[|]| |] eqn:Q; try discriminate. eapply strength_jwt_rsa_priv; eauto.
Qed.

Lemma strength_jwt_hmac kd prefix idreq : usable kd prefix idreq = true ->
  is_url kd url_jwt_hmac -> 16 <= blen (get_len 3 (vfields kd)).
Proof.
  intros H U. change (kd_url kd = u_jwt_hmac) in U. dispatch_more H U.
  unfold parse_jwt_hmac in H.
  repeat match type of H with context [if ?c then Err else _] => destruct c; [discriminate|] end.
  match type of H with context [okb ?c ?d] => destruct c eqn:C end; cbn [okb] in H; [|discriminate].
  cbn [prim_ok] in H.
  match type of H with
  | context [Ok ?b] => destruct b eqn:P
  | context [if ?b then _ else _] => destruct b eqn:P
  end; [|discriminate].
  apply hmac_params_strong in P. unfold vfields. tauto.
Qed.

Lemma strength_stream_gcm_hkdf kd prefix idreq : usable kd prefix idreq = true ->
  is_url kd url_stream_gcm_hkdf -> aes_size_ok (get_u32 2 (get_sub 2 (vfields kd))).
Proof.
  intros H U. change (kd_url kd = u_stream_gcm_hkdf) in U. dispatch_more H U.
  unfold parse_stream_gcm_hkdf in H.
  repeat match type of H with context [if ?c then Err else _] => destruct c; [discriminate|] end.
  match type of H with context [okb ?c ?d] => destruct c eqn:C end; cbn [okb] in H; [|discriminate].
  cbn [prim_ok] in H.
  match type of H with
  | context [Ok ?b] => destruct b eqn:P
  | context [if ?b then _ else _] => destruct b eqn:P
  end; [|discriminate].
  repeat rewrite andb_true_iff in P. destruct P as [[_ P] _].
  unfold vfields, aes_size_ok. unfold aes_16_32, aes_k16, aes_k32 in P. lia.
Qed.

Lemma strength_stream_ctr_hmac kd prefix idreq : usable kd prefix idreq = true ->
  is_url kd url_stream_ctr_hmac ->
  aes_size_ok (get_u32 2 (get_sub 2 (vfields kd))) /\ 10 <= get_u32 2 (get_sub 4 (get_sub 2 (vfields kd))).
Proof.
  intros H U. change (kd_url kd = u_stream_ctr_hmac) in U. dispatch_more H U.
  unfold parse_stream_ctr_hmac in H.
  repeat match type of H with context [if ?c then Err else _] => destruct c; [discriminate|] end.
  match type of H with context [okb ?c ?d] => destruct c eqn:C end; cbn [okb] in H; [|discriminate].
  cbn [prim_ok] in H.
  match type of H with
  | context [Ok ?b] => destruct b eqn:P
  | context [if ?b then _ else _] => destruct b eqn:P
  end; [|discriminate].
  repeat rewrite andb_true_iff in P. destruct P as [[[[_ P1] P2] _] _].
  unfold vfields, aes_size_ok. unfold aes_16_32, aes_k16, aes_k32 in P1. unfold stream_min_tag in P2. lia.
Qed.

Theorem usable_strength kd prefix idreq :
  usable kd prefix idreq = true -> strength_ok kd.
Proof.
  intros H. unfold strength_ok. cbv zeta.
  split; [intros U; eapply strength_hmac; eauto|].
  split; [intros U; eapply strength_aes_gcm; eauto|].
  split; [intros U; eapply strength_aes_gcm_siv; eauto|].
  split; [intros U; eapply strength_aes_cmac; eauto|].
  split; [intros U; eapply strength_aes_cmac_prf; eauto|].
  split; [intros U; eapply strength_aes_siv; eauto|].
  split; [intros U; eapply strength_aes_ctr_hmac; eauto|].
  split; [intros U; eapply strength_hkdf_prf; eauto|].
  split; [intros U; eapply strength_rsa_pkcs1; eauto|].
  split; [intros U; eapply strength_rsa_pss; eauto|].
  split; [intros U; eapply strength_ecdsa_pub; eauto|].
  split; [intros U; eapply strength_ecdsa_priv; eauto|].
  split; [intros U; eapply strength_xaes_gcm; eauto|].
  split; [intros U; eapply strength_rsa_pkcs1_priv; eauto|].
  split; [intros U; eapply strength_rsa_pss_priv; eauto|].
  split; [intros U; eapply strength_jwt_rsa_pkcs1; eauto|].
  split; [intros U; eapply strength_jwt_rsa_pss; eauto|].
  split; [intros U; eapply strength_jwt_rsa_pkcs1_priv; eauto|].
  split; [intros U; eapply strength_jwt_rsa_pss_priv; eauto|].
  split; [intros U; eapply strength_jwt_hmac; eauto|].
  split; [intros U; eapply strength_stream_gcm_hkdf; eauto|].
  intros U; eapply strength_stream_ctr_hmac; eauto.
Qed.

(* Regression (defect fixed in /repo, commit 067e856): an RSA public key whose
   exponent field is 2^64 + 65537 used to be parsed as e = 65537 by
   int(exponent.Int64()); with the IsInt64 check it is rejected. *)
Definition rsa_trunc_value : bytes :=
  [18; 2; 8; 3; 26; 128; 2] ++ (128 :: repeat 1 255%nat) ++ [34; 9; 1; 0; 0; 0; 0; 0; 1; 0; 1].
Definition rsa_trunc_kd : keydata := mkKD u_rsa_pkcs1_pub rsa_trunc_value km_public.

Theorem rsa_exponent_truncation_rejected :
  ~ strength_ok rsa_trunc_kd /\ parse_key L rsa_trunc_kd pt_tink 7 = Err.
Proof.
  split; [|vm_compute; reflexivity].
  intros S. destruct S as [_ [_ [_ [_ [_ [_ [_ [_ [S _]]]]]]]]].
  assert (U : is_url rsa_trunc_kd url_rsa_pkcs1_pub) by (vm_compute; reflexivity).
  destruct (S U) as [_ E]. vm_compute in E. discriminate.
Qed.

End StrengthProofs.

(* ------------------------------------------------------------------ *)
(* the rejections the property names, and every entry point            *)
(* ------------------------------------------------------------------ *)
Lemma validate_false_of_not_wf ks : ~ wf_keyset ks -> validate (Some ks) = false.
Proof. intros H. destruct (validate (Some ks)) eqn:V; [|reflexivity]. exfalso. apply H, validate_sound, V. Qed.

Theorem repeated_id_rejected ks : ~ NoDup (ids ks) -> validate (Some ks) = false.
Proof. intros H. apply validate_false_of_not_wf. intros [_ [_ [N _]]]. auto. Qed.

Theorem no_enabled_primary_rejected ks :
  (forall pk, In (Some pk) (ks_keys ks) -> k_id pk = ks_primary ks -> k_status pk <> 1) ->
  validate (Some ks) = false.
Proof.
  intros H. apply validate_false_of_not_wf. intros [_ [_ [_ [pk [A [B C]]]]]]. exact (H pk A B C).
Qed.

Theorem unknown_enum_rejected ks pk :
  In (Some pk) (ks_keys ks) ->
  (~ (k_status pk = 1 \/ k_status pk = 2 \/ k_status pk = 3)
   \/ ~ (k_prefix pk = 1 \/ k_prefix pk = 2 \/ k_prefix pk = 3 \/ k_prefix pk = 4 \/ k_prefix pk = 5)) ->
  validate (Some ks) = false.
Proof.
  intros Hin H. apply validate_false_of_not_wf. intros [_ [K _]]. rewrite Forall_forall in K.
  destruct (K _ Hin) as [pk' [kd [E [_ [P S]]]]]. inversion E; subst. tauto.
Qed.

Theorem nil_parts_rejected ks :
  (In None (ks_keys ks) \/ exists pk, In (Some pk) (ks_keys ks) /\ k_data pk = None) ->
  validate (Some ks) = false.
Proof.
  intros H. apply validate_false_of_not_wf. intros [_ [K _]]. rewrite Forall_forall in K.
  destruct H as [H|[pk [H1 H2]]].
  - destruct (K _ H) as [pk [kd [E _]]]. discriminate.
  - destruct (K _ H1) as [pk' [kd [E [D _]]]]. inversion E; subst. congruence.
Qed.

Section EntryPoints.
Variable L : stdlib.

Definition accepted_as (ks : keyset) (h : handle) : Prop :=
  wf_keyset ks /\ wf_handle h /\ Forall2 (entry_of (ks_primary ks)) (ks_keys ks) h.

Theorem read_proto_wf ks h : read_proto L ks = Ok h ->
  exists k, ks = Some k /\ accepted_as k h.
Proof.
  unfold read_proto. destruct ks as [k|]; [|discriminate]. destruct (ks_keys k); [discriminate|].
  intros H. apply handle_from_proto_wf in H. destruct H as [k' [E H]]. inversion E; subst. exists k'. split; auto.
Qed.

Theorem handle_no_secrets_wf ks h : handle_no_secrets L ks = Ok h ->
  exists k, ks = Some k /\ has_secrets k = false /\ accepted_as k h.
Proof.
  unfold handle_no_secrets. destruct ks as [k|]; [|discriminate]. destruct (has_secrets k) eqn:S; [discriminate|].
  intros H. apply bind_ok in H. destruct H as [h0 [H H2]]. destruct (handle_has_secrets h0); [discriminate|].
  inversion H2; subst h0. apply handle_from_proto_wf in H. destruct H as [k' [E H]]. inversion E; subst. exists k'. auto.
Qed.

(* since /repo b141c20: the handle is the one of the cleartext construction and
   none of its key objects serialises to secret material *)
Theorem handle_no_secrets_inv ks h : handle_no_secrets L ks = Ok h ->
  handle_from_proto L ks = Ok h /\ handle_has_secrets h = false.
Proof.
  unfold handle_no_secrets. destruct ks as [k|]; [|discriminate]. destruct (has_secrets k); [discriminate|].
  intros H. apply bind_ok in H. destruct H as [h0 [H H2]]. destruct (handle_has_secrets h0) eqn:S; [discriminate|].
  inversion H2; subst h0. auto.
Qed.

Theorem read_no_secrets_wf b h : read_no_secrets L b = Ok h ->
  exists k, decode_keyset b = Some k /\ has_secrets k = false /\ accepted_as k h.
Proof.
  unfold read_no_secrets. destruct (decode_keyset b) as [k|]; [|discriminate]. intros H.
  apply handle_no_secrets_wf in H. destruct H as [k' [E H]]. inversion E; subst. exists k'. auto.
Qed.

Theorem read_encrypted_wf kek b ad h : read_encrypted L kek b ad = Ok h ->
  exists ct pt k, decode_encrypted b = Some ct /\ kek ct ad = Some pt /\ decode_keyset pt = Some k /\ accepted_as k h.
Proof.
  unfold read_encrypted. destruct (decode_encrypted b) as [ct|]; [|discriminate].
  destruct (kek ct ad) as [pt|] eqn:D; [|discriminate]. destruct (decode_keyset pt) as [k|] eqn:K; [|discriminate].
  intros H. apply handle_from_proto_wf in H. destruct H as [k' [E H]]. inversion E; subst.
  exists ct, pt, k'. auto.
Qed.

Theorem malformed_rejected_everywhere ks : ~ wf_keyset ks ->
  read_proto L (Some ks) = Err
  /\ handle_no_secrets L (Some ks) = Err
  /\ (forall b, decode_keyset b = Some ks ->
        read L b = Err /\ read_no_secrets L b = Err)
  /\ (forall kek b ad ct pt, decode_encrypted b = Some ct -> kek ct ad = Some pt -> decode_keyset pt = Some ks ->
        read_encrypted L kek b ad = Err).
Proof.
  intros H. pose proof (malformed_rejected L ks H) as M.
  assert (A : read_proto L (Some ks) = Err).
  { unfold read_proto. destruct (ks_keys ks); [reflexivity|exact M]. }
  assert (B : handle_no_secrets L (Some ks) = Err).
  { unfold handle_no_secrets. destruct (has_secrets ks); [reflexivity|rewrite M; reflexivity]. }
  split; [exact A|]. split; [exact B|]. split.
  - intros b D. unfold read, read_no_secrets. rewrite D. split; [|exact B].
    destruct (ks_keys ks); [reflexivity|exact M].
  - intros kek b ad ct pt D1 D2 D3. unfold read_encrypted. rewrite D1, D2, D3. exact M.
Qed.

(* undecodable input and failed decryption are errors *)
Theorem undecodable_rejected b : decode_keyset b = None ->
  read L b = Err /\ read_no_secrets L b = Err.
Proof. intros D. unfold read, read_no_secrets. rewrite D. auto. Qed.

Theorem wrong_kek_rejected kek b ad ct : decode_encrypted b = Some ct -> kek ct ad = None ->
  read_encrypted L kek b ad = Err.
Proof. intros D1 D2. unfold read_encrypted. rewrite D1, D2. reflexivity. Qed.

End EntryPoints.

(* ------------------------------------------------------------------ *)
(* exact acceptance: which byte strings yield a handle                 *)
(* ------------------------------------------------------------------ *)
Section Acceptance.
Variable L : stdlib.
Notation parse_key := (parse_key L).
Notation to_entry := (to_entry L).
Notation to_entries := (to_entries L).
Notation handle_from_proto := (handle_from_proto L).

(* the key's own parser (or the fallback) accepts it, with id requirement 0 for RAW *)
Definition key_parses (k : option pkey) : Prop :=
  exists pk kd d, k = Some pk /\ k_data pk = Some kd
    /\ parse_key kd (k_prefix pk) (if k_prefix pk =? pt_raw then 0 else k_id pk) = Ok d.

Lemma to_entries_ok_iff primary keys :
  Forall key_known keys ->
  ((exists es, to_entries primary keys = Ok es) <-> Forall key_parses keys).
Proof.
  induction keys as [|k t IH]; intros K.
  - split; [constructor|]. intros _. exists []. reflexivity.
  - inversion K as [|? ? Kk Kt]; subst. destruct Kk as [pk [kd [-> [D [_ S]]]]].
    apply known_status_spec in S. specialize (IH Kt). cbn [Untrusted.to_entries]. split.
    + intros [es H]. apply bind_ok in H. destruct H as [e [He H]]. apply bind_ok in H. destruct H as [es' [Hes _]].
      constructor; [|apply IH; eauto].
      unfold Untrusted.to_entry in He. rewrite D in He. apply bind_ok in He. destruct He as [d [Hd _]].
      exists pk, kd, d. auto.
    + intros H. inversion H as [|? ? [pk' [kd' [d [E [D' P]]]]] Ht]; subst. inversion E; subst pk'.
      rewrite D in D'. inversion D'; subst kd'.
      apply IH in Ht. destruct Ht as [es Hes].
      unfold Untrusted.to_entry. rewrite D, P. cbn [bind]. rewrite S. cbn [negb bind]. rewrite Hes. cbn [bind].
      eexists. reflexivity.
Qed.

Lemma existsb_eprim_of_primary primary keys es pk :
  Forall2 (entry_of primary) keys es -> In (Some pk) keys -> k_id pk = primary -> existsb eprim es = true.
Proof.
  induction 1 as [|k e keys es [pk' [-> [_ [_ [Pe _]]]]] _ IH']; intros Hin Hid; [destruct Hin|].
  simpl. destruct Hin as [E|Hin].
  - inversion E; subst pk'. rewrite Pe, Hid, N.eqb_refl. reflexivity.
  - rewrite IH'; auto. apply orb_true_r.
Qed.

Theorem handle_from_proto_ok_iff ks :
  (exists h, handle_from_proto (Some ks) = Ok h) <-> (wf_keyset ks /\ Forall key_parses (ks_keys ks)).
Proof.
  split.
  - intros [h H]. pose proof (handle_from_proto_wf _ _ _ H) as [k [E [W _]]]. inversion E; subst k.
    split; [exact W|]. unfold Untrusted.handle_from_proto in H. destruct (validate (Some ks)); [|discriminate].
    apply bind_ok in H. destruct H as [es [Hes _]]. destruct W as [_ [K _]].
    apply (to_entries_ok_iff (ks_primary ks) _ K). eauto.
  - intros [W P]. pose proof W as [Hne [K [Hnd [pk [P1 [P2 P3]]]]]].
    unfold Untrusted.handle_from_proto. rewrite (validate_complete ks W).
    apply (to_entries_ok_iff (ks_primary ks) _ K) in P. destruct P as [es Hes]. rewrite Hes. cbn [bind].
    pose proof (to_entries_shape _ _ _ _ Hes) as F.
    unfold new_from_entries.
    assert (S : existsb (fun e => negb (known_status (estatus e))) es = false).
    { destruct (existsb _ es) eqn:X; [|reflexivity]. exfalso. apply existsb_exists in X. destruct X as [e [Hin He]].
      destruct (forall2_in _ _ _ _ F Hin) as [k' [Hk' [pk' [-> [_ [B _]]]]]].
      rewrite Forall_forall in K. destruct (K _ Hk') as [pk'' [kd [E [_ [_ S]]]]]. inversion E; subst.
      apply known_status_spec in S. rewrite B, S in He. discriminate. }
    rewrite S.
    assert (Q : existsb eprim es = true).
    { eapply existsb_eprim_of_primary; eauto. }
    rewrite Q. eauto.
Qed.

Theorem read_ok_iff b :
  (exists h, read L b = Ok h) <->
  (exists ks, decode_keyset b = Some ks /\ wf_keyset ks /\ Forall key_parses (ks_keys ks)).
Proof.
  unfold read. split.
  - intros [h H]. destruct (decode_keyset b) as [ks|]; [|discriminate]. exists ks. split; [reflexivity|].
    destruct (ks_keys ks) eqn:E; [discriminate|]. rewrite <- E. apply handle_from_proto_ok_iff. eauto.
  - intros [ks [D [W P]]]. rewrite D. destruct (ks_keys ks) eqn:E.
    + destruct W as [Hne _]. congruence.
    + rewrite <- E in P. apply handle_from_proto_ok_iff. auto.
Qed.

End Acceptance.

(* ------------------------------------------------------------------ *)
(* the fuel of the decoder is never what stops it                      *)
(* ------------------------------------------------------------------ *)
Lemma varint_aux_shorter : forall k idx acc b v r,
  varint_aux k idx acc b = Some (v, r) -> (length r < length b)%nat.
Proof.
  induction k as [|k IH]; intros idx acc b v r H; [discriminate|].
  cbn [varint_aux] in H. destruct b as [|x t]; [discriminate|].
  destruct (x <? 128).
  - destruct ((idx =? 9) && negb (x <? 2)); [discriminate|]. inversion H; subst. simpl. lia.
  - apply IH in H. simpl. lia.
Qed.

Lemma varint_shorter b v r : varint b = Some (v, r) -> (length r < length b)%nat.
Proof. apply varint_aux_shorter. Qed.

Lemma take_shorter n b p r : take n b = Some (p, r) -> (length r <= length b)%nat.
Proof.
  unfold take. destruct (n <=? blen b); [|discriminate]. intros H. inversion H; subst.
  rewrite skipn_length. lia.
Qed.

Lemma skip_scalar_shorter wt b r : skip_scalar wt b = Some r -> (length r <= length b)%nat.
Proof.
  unfold skip_scalar.
  destruct (wt =? 0).
  { destruct (varint b) as [[v r']|] eqn:V; [|discriminate]. intros H. inversion H; subst. apply varint_shorter in V. lia. }
  destruct (wt =? 1).
  { destruct (take 8 b) as [[p r']|] eqn:T; [|discriminate]. intros H. inversion H; subst. eapply take_shorter; eauto. }
  destruct (wt =? 2).
  { destruct (varint b) as [[m r']|] eqn:V; [|discriminate]. destruct (take m r') as [[p r'']|] eqn:T; [|discriminate].
    intros H. inversion H; subst. apply varint_shorter in V. apply take_shorter in T. lia. }
  destruct (wt =? 5); [|discriminate].
  destruct (take 4 b) as [[p r']|] eqn:T; [|discriminate]. intros H. inversion H; subst. eapply take_shorter; eauto.
Qed.

Lemma skip_groups_shorter : forall f st b r, skip_groups f st b = Some r -> (length r <= length b)%nat.
Proof.
  induction f as [|f IH]; intros st b r H; destruct st as [|top rest]; cbn [skip_groups] in H;
    try (inversion H; subst; lia); try discriminate.
  destruct (varint b) as [[tag b1]|] eqn:V; [|discriminate]. apply varint_shorter in V.
  destruct ((tag / 8 <? 1) || (max_int32 <? tag / 8)); [discriminate|].
  destruct (tag mod 8 =? 4).
  { destruct (tag / 8 =? top); [|discriminate]. apply IH in H. lia. }
  destruct (tag mod 8 =? 3).
  { destruct (group_depth_limit + 1 <? _); [discriminate|]. apply IH in H. lia. }
  destruct (skip_scalar (tag mod 8) b1) as [b2|] eqn:S; [|discriminate].
  apply skip_scalar_shorter in S. apply IH in H. lia.
Qed.

(* any fuel above the input length gives the same answer *)
Lemma skip_groups_fuel : forall f1 f2 st b,
  (length b < f1)%nat -> (length b < f2)%nat -> skip_groups f1 st b = skip_groups f2 st b.
Proof.
  induction f1 as [|f1 IH]; intros f2 st b H1 H2; [lia|]. destruct f2 as [|f2]; [lia|].
  destruct st as [|top rest]; cbn [skip_groups]; [reflexivity|].
  destruct (varint b) as [[tag b1]|] eqn:V; [|reflexivity]. apply varint_shorter in V.
  destruct ((tag / 8 <? 1) || (max_int32 <? tag / 8)); [reflexivity|].
  destruct (tag mod 8 =? 4).
  { destruct (tag / 8 =? top); [|reflexivity]. apply IH; lia. }
  destruct (tag mod 8 =? 3).
  { destruct (group_depth_limit + 1 <? _); [reflexivity|]. apply IH; lia. }
  destruct (skip_scalar (tag mod 8) b1) as [b2|] eqn:S; [|reflexivity].
  apply skip_scalar_shorter in S. apply IH; lia.
Qed.

Lemma fields_aux_fuel : forall f1 f2 b,
  (length b <= f1)%nat -> (length b <= f2)%nat -> fields_aux f1 b = fields_aux f2 b.
Proof.
  induction f1 as [|f1 IH]; intros f2 b H1 H2.
  - destruct b; [|simpl in H1; lia]. destruct f2; reflexivity.
  - destruct b as [|x t]; [destruct f2; reflexivity|]. destruct f2 as [|f2]; [simpl in H2; lia|].
    cbn [fields_aux]. set (b := x :: t) in *.
    destruct (varint b) as [[tag b1]|] eqn:V; [|reflexivity]. apply varint_shorter in V.
    destruct ((tag / 8 <? 1) || (max_field_number <? tag / 8)); [reflexivity|].
    destruct (tag mod 8 =? 0).
    { destruct (varint b1) as [[v b2]|] eqn:V2; [|reflexivity]. apply varint_shorter in V2.
      rewrite (IH f2 b2); [reflexivity|lia|lia]. }
    destruct (tag mod 8 =? 2).
    { destruct (varint b1) as [[m b2]|] eqn:V2; [|reflexivity]. apply varint_shorter in V2.
      destruct (take m b2) as [[p b3]|] eqn:T; [|reflexivity]. apply take_shorter in T.
      rewrite (IH f2 b3); [reflexivity|lia|lia]. }
    destruct (tag mod 8 =? 3).
    { destruct (skip_groups (S (length b1)) [tag / 8] b1) as [b2|] eqn:G; [|reflexivity].
      apply skip_groups_shorter in G. rewrite (IH f2 b2); [reflexivity|lia|lia]. }
    destruct (skip_scalar (tag mod 8) b1) as [b2|] eqn:S; [|reflexivity].
    apply skip_scalar_shorter in S. rewrite (IH f2 b2); [reflexivity|lia|lia].
Qed.

Theorem fields_fuel_adequate f b : (length b <= f)%nat -> fields_aux f b = fields b.
Proof. intros H. unfold fields. apply fields_aux_fuel; lia. Qed.

Theorem skip_groups_fuel_adequate f st b : (length b < f)%nat ->
  skip_groups f st b = skip_groups (S (length b)) st b.
Proof. intros H. apply skip_groups_fuel; lia. Qed.
