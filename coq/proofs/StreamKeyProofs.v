(* C07, the whole single-key reader (NewDecryptingReader + Reads): constructors
   case by case, constructor and whole-history I/O faults, the honest stream.
   Laws of the primitives are explicit hypotheses. *)
From Coq Require Import List NArith Bool Arith Lia.
From Tink Require Import Bytes Stream StreamProofs StreamIO StreamIOProofs.
Import ListNotations.
Open Scope nat_scope.

Definition k_hash (k : skey) : hash :=
  match k with GcmHkdf _ h _ _ _ => h | CtrHmac _ h _ _ _ _ _ => h end.
(* number of bytes deriveKey asks HKDF for *)
Definition k_dlen (k : skey) : nat :=
  match k with GcmHkdf _ _ dk _ _ => dk | CtrHmac _ _ dk _ _ _ _ => dk + 32 end.
Definition hdr_byte (k : skey) : N := (N.of_nat (hdr_len k) mod 256)%N.

Lemma bytes_eq_dec (a b : bytes) : {a = b} + {a <> b}.
Proof. apply list_eq_dec. apply N.eq_dec. Qed.

(* the session keys are the HKDF output, cut in two for AES-CTR-HMAC *)
Lemma derive_eq_hkdf hkdf k s a s' a' :
  derive hkdf k s a = derive hkdf k s' a' ->
  hkdf (k_hash k) (k_main k) s a (k_dlen k) = hkdf (k_hash k) (k_main k) s' a' (k_dlen k).
Proof.
  destruct k as [mk h dk cs fo|mk h dk th tg cs fo]; cbn [derive k_hash k_main k_dlen]; intros H.
  - inversion H. reflexivity.
  - inversion H as [[H1 H2]].
    rewrite <- (firstn_skipn dk (hkdf h mk s a (dk + 32))), <- (firstn_skipn dk (hkdf h mk s' a' (dk + 32))).
    rewrite H1, H2. reflexivity.
Qed.

(* ------------------------------------------------------------------ *)
(* more facts about read_full                                          *)
(* ------------------------------------------------------------------ *)
Lemma read_full_ok s w : w <= limit s -> read_full s w = (src_adv s w, firstn w (srem s), RFok).
Proof.
  unfold limit, read_full. intros H.
  destruct (w <=? _) eqn:E; [reflexivity|apply Nat.leb_gt in E; lia].
Qed.

Lemma read_full_ok_inv s w s' g : read_full s w = (s', g, RFok) ->
  w <= limit s /\ s' = src_adv s w /\ g = firstn w (srem s).
Proof.
  unfold limit, read_full.
  destruct (Nat.leb_spec w (match sfailr s with Some k => Nat.min k (length (srem s)) | None => length (srem s) end)) as [H|H].
  - intros E; inversion E; subst. auto.
  - intros E; inversion E as [[E1 E2 E3]].
    destruct (match sfailr s with Some k => k <=? length (srem s) | None => false end); [discriminate|].
    destruct (_ =? 0); discriminate.
Qed.

Lemma limit_adv s w : limit (src_adv s w) = limit s - w.
Proof.
  unfold limit, src_adv. cbn [srem sfailr]. rewrite skipn_length. destruct (sfailr s); lia.
Qed.

Lemma split3 {A} (l : list A) a b c :
  l = firstn a l ++ firstn b (skipn a l) ++ firstn c (skipn (a + b) l) ++ skipn (a + b + c) l.
Proof.
  rewrite <- (skipn_skipn' l c (a + b)), <- (skipn_skipn' l b a).
  rewrite !firstn_skipn. reflexivity.
Qed.

Lemma limit_le_len s : limit s <= length (srem s).
Proof. unfold limit. destruct (sfailr s); lia. Qed.

(* ------------------------------------------------------------------ *)
(* NewDecryptingReader, case by case                                   *)
(* ------------------------------------------------------------------ *)
Section Constructor.
  Variable hkdf : hash -> bytes -> bytes -> bytes -> nat -> bytes.

  Lemma nonce_room k (pre : bytes) : length pre <= nonce_prefix_size -> (k_nonce_size k - length pre <? 5) = false.
  Proof. unfold nonce_prefix_size. intros H. apply Nat.ltb_ge. destruct k; cbn [k_nonce_size]; lia. Qed.

  (* success: exactly when hdr_len bytes can be read and the first is the header length *)
  Lemma new_dec_reader_ok k aad s :
    hdr_len k <= limit s -> firstn 1 (srem s) = [hdr_byte k] ->
    new_dec_reader hkdf src read_full k aad s =
      (let salt := firstn (k_dk k) (skipn 1 (srem s)) in
       let pre := firstn nonce_prefix_size (skipn (1 + k_dk k) (srem s)) in
       let sk := derive hkdf k salt aad in
       (Some (fst sk, snd sk, pre, mkR [] 0 [] 0%N false (src_adv s (hdr_len k))), src_adv s (hdr_len k))).
  Proof.
    unfold hdr_len. intros Hl Hb. unfold new_dec_reader.
    rewrite (read_full_ok s 1) by lia. rewrite Hb. unfold hdr_byte, hdr_len. rewrite beq_refl. cbn [negb].
    rewrite (read_full_ok (src_adv s 1) (k_dk k)) by (rewrite limit_adv; lia).
    rewrite src_adv_adv.
    rewrite (read_full_ok (src_adv s (1 + k_dk k)) nonce_prefix_size) by (rewrite limit_adv; lia).
    rewrite src_adv_adv.
    assert (Hs1 : srem (src_adv s 1) = skipn 1 (srem s)) by reflexivity.
    assert (Hs2 : srem (src_adv s (1 + k_dk k)) = skipn (1 + k_dk k) (srem s)) by reflexivity.
    rewrite Hs1, Hs2. cbn zeta.
    unfold new_reader, k_rparams. cbn [r_nonce_size r_prefix].
    rewrite nonce_room by (rewrite firstn_length; lia).
    reflexivity.
  Qed.

  Lemma new_dec_reader_some k aad s k1 k2 pre st s3 :
    new_dec_reader hkdf src read_full k aad s = (Some (k1, k2, pre, st), s3) ->
    hdr_len k <= limit s /\ firstn 1 (srem s) = [hdr_byte k].
  Proof.
    unfold new_dec_reader.
    destruct (read_full s 1) as ((s1, hl), r1) eqn:E1. destruct r1; try discriminate.
    apply read_full_ok_inv in E1. destruct E1 as (L1 & -> & ->).
    destruct (beq (firstn 1 (srem s)) _) eqn:Eb; cbn [negb]; [|discriminate].
    apply beq_eq in Eb.
    destruct (read_full (src_adv s 1) (k_dk k)) as ((s2, salt), r2) eqn:E2. destruct r2; try discriminate.
    apply read_full_ok_inv in E2. destruct E2 as (L2 & -> & ->).
    destruct (read_full _ nonce_prefix_size) as ((s3', pre'), r3) eqn:E3. destruct r3; try discriminate.
    apply read_full_ok_inv in E3. destruct E3 as (L3 & -> & ->).
    intros _. rewrite !limit_adv in *. unfold hdr_len. split; [lia|exact Eb].
  Qed.

  (* (b) CONSTRUCTOR, reader side: the constructor succeeds iff the header can be
     read in full (the source neither ends nor fails within the first hdr_len
     bytes) and its first byte is the header length *)
  Theorem new_dec_reader_iff k aad s :
    fst (new_dec_reader hkdf src read_full k aad s) <> None <->
    hdr_len k <= limit s /\ firstn 1 (srem s) = [hdr_byte k].
  Proof.
    split.
    - destruct (new_dec_reader hkdf src read_full k aad s) as ([[[[k1 k2] pre] st]|], s3) eqn:E; cbn [fst].
      + intros _. exact (new_dec_reader_some _ _ _ _ _ _ _ _ E).
      + congruence.
    - intros (H1 & H2). rewrite (new_dec_reader_ok k aad s H1 H2). cbn. discriminate.
  Qed.

  Corollary new_dec_reader_io_error k aad data F :
    (length data < hdr_len k \/ exists f, F = Some f /\ f < hdr_len k) ->
    fst (new_dec_reader hkdf src read_full k aad (mkSrc data F)) = None.
  Proof.
    intros H.
    destruct (fst (new_dec_reader hkdf src read_full k aad (mkSrc data F))) eqn:E; [|reflexivity].
    exfalso. assert (Hn : fst (new_dec_reader hkdf src read_full k aad (mkSrc data F)) <> None) by congruence.
    apply new_dec_reader_iff in Hn. destruct Hn as (Hl & _). unfold limit in Hl. cbn [srem sfailr] in Hl.
    destruct H as [H|(f & -> & H)]; [destruct F|]; lia.
  Qed.

  (* (b) CONSTRUCTOR, writer side: NewEncryptingWriter succeeds iff the sink
     takes the whole header; on failure only a prefix of the header was written *)
  Theorem new_enc_writer_iff k tape aad w :
    let hd := header k (firstn (k_dk k) tape) (firstn nonce_prefix_size (skipn (k_dk k) tape)) in
    (fst (new_enc_writer hkdf k tape aad w) <> None <->
     (forall f, sfail w = Some f -> length (sout w) + length hd <= f)) /\
    (exists n, sout (snd (new_enc_writer hkdf k tape aad w)) = sout w ++ firstn n hd) /\
    sfail (snd (new_enc_writer hkdf k tape aad w)) = sfail w /\
    match fst (new_enc_writer hkdf k tape aad w) with
    | Some (k1, k2, pre, st) =>
        (k1, k2) = derive hkdf k (firstn (k_dk k) tape) aad /\
        pre = firstn nonce_prefix_size (skipn (k_dk k) tape) /\
        st = mkW [] 0%N false (snd (new_enc_writer hkdf k tape aad w)) /\
        sout (snd (new_enc_writer hkdf k tape aad w)) = sout w ++ hd
    | None => True
    end.
  Proof.
    cbn zeta. unfold new_enc_writer.
    set (salt := firstn (k_dk k) tape). set (pre := firstn nonce_prefix_size (skipn (k_dk k) tape)).
    set (hd := header k salt pre).
    assert (Hnw : forall w', new_writer (k_wparams k pre) w' = Some (mkW [] 0%N false w')).
    { intros w'. unfold new_writer, k_wparams. cbn [w_nonce_size w_prefix].
      rewrite nonce_room by (unfold pre; rewrite firstn_length; lia). reflexivity. }
    unfold sink_write. destruct (sfail w) as [f|] eqn:Ef.
    - destruct (Nat.leb_spec (length (sout w) + length hd) f) as [Hle|Hgt].
      + rewrite Hnw. cbn [fst snd sout sfail]. repeat split.
        * intros _ f0 E; inversion E; subst; exact Hle.
        * discriminate.
        * exists (length hd). rewrite firstn_all. reflexivity.
        * destruct (derive hkdf k salt aad); reflexivity.
      + cbn [fst snd sout sfail]. repeat split.
        * congruence.
        * intros H. specialize (H f eq_refl). lia.
        * eexists; reflexivity.
    - rewrite Hnw. cbn [fst snd sout sfail]. repeat split.
      + intros _ f0 E; discriminate.
      + discriminate.
      + exists (length hd). rewrite firstn_all. reflexivity.
      + destruct (derive hkdf k salt aad); reflexivity.
  Qed.
End Constructor.

(* ------------------------------------------------------------------ *)
(* a reader under whose nonces nothing decrypts hands out nothing       *)
(* ------------------------------------------------------------------ *)
Section NoDecrypt.
  Variable decs : bytes -> bytes -> option bytes.
  Variable P : rparams.
  Hypothesis Hoff : r_off P <= r_ctseg P + 1.

  (* enough: under the two nonces of segment 0 no PREFIX of what the source
     holds decrypts *)
  Lemma first_read_fails_at (s : src) n :
    (forall last c, (exists b, srem s = c ++ b) ->
                    decs (nonce_of (r_nonce_size P) (r_prefix P) 0%N last) c = None) ->
    exists st', read decs read_full P (mkR [] 0 [] 0%N false s) n = (st', RErr).
  Proof.
    intros Hnone.
    unfold read. cbn [rpos rpt rlast rcnt rcarry rsrc length].
    unfold rlim. cbn [N.eqb]. destruct (Nat.leb_spec (r_off P) (r_ctseg P + 1)); [|lia].
    cbn [Nat.ltb Nat.leb].
    destruct (read_full _ _) as ((s', got), k) eqn:Erf.
    apply read_full_split in Erf. destruct Erf as (Hsplit & _).
    assert (Hg : forall l segm st1, (exists b, srem s = segm ++ b) ->
              exists st', match gen_nonce (r_nonce_size P) (r_prefix P) 0%N l with
                          | None => (st1, RErr)
                          | Some nonce => match decs nonce segm with
                                          | None => (st1, RErr)
                                          | Some pt => (mkR pt (Nat.min n (length pt)) (if l then [] else [List.last (@nil N ++ got) 0%N]) 1%N l s',
                                                        RData (firstn (Nat.min n (length pt)) pt))
                                          end
                          end = (st', @RErr)).
    { intros l segm st1 Hpre. unfold gen_nonce. destruct (max_segments <=? 0)%N; [eexists; reflexivity|].
      rewrite (Hnone l segm Hpre). eexists; reflexivity. }
    assert (Hwhole : exists b, srem s = ([] ++ got) ++ b) by (exists (srem s'); exact Hsplit).
    destruct k; cbn [negb andb]; try (eexists; reflexivity); try (apply Hg; exact Hwhole).
    destruct (Nat.eqb_spec (length ([] ++ got)) 0) as [E0|E0]; [eexists; reflexivity|]. apply Hg.
    cbn [app] in *. exists ([List.last got 0%N] ++ srem s').
    rewrite app_assoc, <- app_removelast_last; [exact Hsplit|].
    intros E. rewrite E in E0. cbn in E0. lia.
  Qed.

  Hypothesis Hnone : forall cnt last c, decs (nonce_of (r_nonce_size P) (r_prefix P) cnt last) c = None.

  Lemma first_read_fails (s : src) n :
    exists st', read decs read_full P (mkR [] 0 [] 0%N false s) n = (st', RErr).
  Proof. apply first_read_fails_at. intros last c _. apply Hnone. Qed.

  Lemma nothing_decrypts_prefix (s : src) sizes st0 :
    new_reader P s = Some st0 ->
    drive decs read_full P sizes st0 [] = ([], match sizes with [] => Pending | _ => Failed end).
  Proof.
    intros Hnew. unfold new_reader in Hnew. destruct (_ <? 5); [discriminate|]. inversion Hnew; subst st0.
    destruct sizes as [|n ns]; [reflexivity|]. cbn [drive].
    destruct (first_read_fails s n) as (st' & ->). reflexivity.
  Qed.
End NoDecrypt.

(* ------------------------------------------------------------------ *)
(* the ciphertext as written; the salt field (the manipulation theorems  *)
(* are in StreamKeyReduction.v)                                          *)
(* ------------------------------------------------------------------ *)
Section KeyManipulation.
  Variable hkdf : hash -> bytes -> bytes -> bytes -> nat -> bytes.
  Variable gcm_seal : bytes -> bytes -> bytes -> bytes.
  Variable gcm_open : bytes -> bytes -> bytes -> option bytes.
  Variable aes_ctr : bytes -> bytes -> bytes -> bytes.
  Variable hmac : hash -> bytes -> bytes -> bytes.
  Local Notation SENC := (seg_enc gcm_seal aes_ctr hmac).
  Local Notation SDEC := (seg_dec gcm_open aes_ctr hmac).
  Local Notation KREAD := (key_read hkdf gcm_open aes_ctr hmac src read_full).

  (* the one stream that was encrypted under the key k *)
  Variable k : skey.
  Variables salt prefix aad p : bytes.
  Hypothesis Hv : key_valid k = true.
  Hypothesis Hsalt : length salt = k_dk k.
  Hypothesis Hpre : length prefix = nonce_prefix_size.
  Local Notation seg := (k_cseg k - k_tag k).
  Local Notation off := (k_foff k + hdr_len k).
  Local Notation ss := (segments seg off p).
  Local Notation sk := (derive hkdf k salt aad).
  Hypothesis Hb : (N.of_nat (length ss) <= max_segments)%N.

  (* the ciphertext as written (C07_key_roundtrip) *)
  Definition key_ciphertext : bytes :=
    header k salt prefix ++ encode_stream (SENC k sk) (k_nonce_size k) prefix seg off p.

  (* the salt field of whatever bytes the reader is given *)
  Definition salt_field (c' : bytes) : bytes := firstn (k_dk k) (skipn 1 c').

  Lemma kv_facts : k_foff k + hdr_len k + k_tag k < k_cseg k /\ 0 < k_tag k.
  Proof. destruct (key_valid_facts k Hv) as (A & B & _). auto. Qed.

  Lemma header_len : length (header k salt prefix) = hdr_len k.
  Proof. unfold header, hdr_len. rewrite !app_length, Hsalt, Hpre. reflexivity. Qed.


End KeyManipulation.

(* ------------------------------------------------------------------ *)
(* (b)/(d) persistent I/O faults, whole history of one key              *)
(* ------------------------------------------------------------------ *)
Section KeyFaults.
  Variable hkdf : hash -> bytes -> bytes -> bytes -> nat -> bytes.
  Variable gcm_seal : bytes -> bytes -> bytes -> bytes.
  Variable gcm_open : bytes -> bytes -> bytes -> option bytes.
  Variable aes_ctr : bytes -> bytes -> bytes -> bytes.
  Variable hmac : hash -> bytes -> bytes -> bytes.
  Local Notation SENC := (seg_enc gcm_seal aes_ctr hmac).
  Local Notation SDEC := (seg_dec gcm_open aes_ctr hmac).

  (* a sink that cannot take header || segments: the constructor, a Write or
     Close reports an error *)
  Theorem key_writer_fault_surfaces : forall k salt prefix aad base f chunks,
    key_valid k = true -> length salt = k_dk k -> length prefix = nonce_prefix_size ->
    (N.of_nat (length (segments (k_cseg k - k_tag k) (k_foff k + hdr_len k) (concat chunks))) <= max_segments)%N ->
    f < length base + hdr_len k +
        length (encode_stream (SENC k (derive hkdf k salt aad)) (k_nonce_size k) prefix
                              (k_cseg k - k_tag k) (k_foff k + hdr_len k) (concat chunks)) ->
    match new_enc_writer hkdf k (salt ++ prefix) aad (mkSink base (Some f)) with
    | (None, _) => True
    | (Some (k1, k2, pre, w0), _) =>
      let '(w1, rs) := wwrites (SENC k (k1, k2)) (k_wparams k pre) w0 chunks in
      let '(w2, ok) := wclose (SENC k (k1, k2)) (k_wparams k pre) w1 in
      (exists n, In (WErr n) rs) \/ ok = false
    end.
  Proof.
    intros k salt prefix aad base f chunks Hv Hsalt Hpre Hb Hf.
    destruct (key_valid_facts k Hv) as (Hseg & Htag & _).
    pose proof (new_enc_writer_iff hkdf k (salt ++ prefix) aad (mkSink base (Some f))) as H.
    cbn zeta in H. destruct H as (_ & _ & Hsf & Hsome).
    assert (Et1 : firstn (k_dk k) (salt ++ prefix) = salt).
    { rewrite <- Hsalt, firstn_app, Nat.sub_diag, firstn_all, firstn_O, app_nil_r. reflexivity. }
    assert (Et2 : firstn nonce_prefix_size (skipn (k_dk k) (salt ++ prefix)) = prefix).
    { rewrite <- Hsalt, skipn_app, Nat.sub_diag, skipn_all, skipn_O, app_nil_l, <- Hpre. apply firstn_all. }
    rewrite Et1, Et2 in Hsome.
    destruct (new_enc_writer hkdf k (salt ++ prefix) aad (mkSink base (Some f))) as ([[[[k1 k2] pre] w0]|], w').
    2:{ exact I. }
    cbn [fst snd sout sfail] in *. destruct Hsome as (Hk & -> & -> & Hout). rewrite Hk.
    assert (Hpos : 0 < w_seg (k_wparams k prefix) - w_off (k_wparams k prefix))
      by (unfold k_wparams; cbn [w_seg w_off]; lia).
    assert (Hnw : new_writer (k_wparams k prefix) w' = Some (mkW [] 0%N false w')).
    { unfold new_writer, k_wparams. cbn [w_nonce_size w_prefix]. rewrite nonce_room by lia. reflexivity. }
    assert (Hhl : length (header k salt prefix) = hdr_len k).
    { unfold header, hdr_len. rewrite !app_length, Hsalt, Hpre. reflexivity. }
    refine (writer_fault_surfaces (SENC k (derive hkdf k salt aad)) (k_wparams k prefix) Hpos w' f chunks _
              Hsf _ Hb Hnw).
    rewrite Hout, app_length, Hhl. unfold k_wparams. cbn [w_nonce_size w_prefix w_seg w_off]. lia.
  Qed.

  (* a source that fails persistently (anywhere, also inside the header): the
     constructor or a Read reports an error; never a clean EOF *)
  Theorem key_reader_fault_never_clean_eof : forall k aad' c' f sizes,
    f <= length c' ->
    snd (key_read hkdf gcm_open aes_ctr hmac src read_full k aad' (mkSrc c' (Some f)) sizes) <> AtEof.
  Proof.
    intros k aad' c' f sizes Hf. unfold key_read.
    destruct (new_dec_reader hkdf src read_full k aad' (mkSrc c' (Some f))) as (o, s3) eqn:End.
    destruct o as [[[[k1 k2] pre] st]|]; [|cbn; discriminate].
    pose proof (new_dec_reader_some hkdf _ _ _ _ _ _ _ _ End) as (Hlim & Hfb).
    rewrite (new_dec_reader_ok hkdf k aad' _ Hlim Hfb) in End. cbn zeta in End.
    inversion End; subst st. apply reader_fault_never_eof.
    split; [reflexivity|]. cbn [rsrc]. unfold src_adv. cbn [srem sfailr].
    exists (f - hdr_len k). split; [reflexivity|]. rewrite skipn_length. lia.
  Qed.
End KeyFaults.

(* ------------------------------------------------------------------ *)
(* (a) at the KEYSET level (streamingaead.New(handle), decrypt_reader.go)*)
(* ------------------------------------------------------------------ *)
Lemma drive_outcome {SRC} decs (rfull : SRC -> nat -> SRC * bytes * rfk) P : forall sizes st acc,
  drive decs rfull P sizes st acc = outcome acc (snd (reads decs rfull P st sizes)).
Proof.
  induction sizes as [|n ns IH]; intros st acc; cbn [drive reads]; [reflexivity|].
  destruct (read decs rfull P st n) as (st1, r). specialize (IH st1).
  destruct (reads decs rfull P st1 ns) as (st2, rs). cbn [snd outcome] in *.
  destruct r; try reflexivity. apply IH.
Qed.


(* ------------------------------------------------------------------ *)
(* the honest stream through the keyset-level reader: any keyset that   *)
(* contains the key, decoys first                                      *)
(* ------------------------------------------------------------------ *)
Lemma read_eof_last {SRC} decs (rfull : SRC -> nat -> SRC * bytes * rfk) P st n st' :
  read decs rfull P st n = (st', REof) -> rlast st = true.
Proof.
  unfold read. destruct (rpos st <? length (rpt st)); [discriminate|].
  destruct (rlast st); [reflexivity|].
  destruct (rlim P (rcnt st)); [|discriminate].
  destruct (_ <? length (rcarry st)); [discriminate|].
  destruct (rfull _ _) as ((s', got), kk).
  destruct kk; cbn [negb andb]; try discriminate.
  - destruct (_ =? 0); [discriminate|]. destruct (gen_nonce _ _ _ _); [|discriminate]. destruct (decs _ _); discriminate.
  - destruct (gen_nonce _ _ _ _); [|discriminate]. destruct (decs _ _); discriminate.
  - destruct (gen_nonce _ _ _ _); [|discriminate]. destruct (decs _ _); discriminate.
Qed.

Section KeysetHonest.
  Variable hkdf : hash -> bytes -> bytes -> bytes -> nat -> bytes.
  Variable gcm_seal : bytes -> bytes -> bytes -> bytes.
  Variable gcm_open : bytes -> bytes -> bytes -> option bytes.
  Variable aes_ctr : bytes -> bytes -> bytes -> bytes.
  Variable hmac : hash -> bytes -> bytes -> bytes.
  Hypothesis gcm_len : forall k n p, length (gcm_seal k n p) = length p + 16.
  Hypothesis gcm_inv : forall k n p, gcm_open k n (gcm_seal k n p) = Some p.
  Hypothesis ctr_len : forall k iv x, length (aes_ctr k iv x) = length x.
  Hypothesis ctr_inv : forall k iv x, aes_ctr k iv (aes_ctr k iv x) = x.
  Hypothesis hmac_len : forall h k m, length (hmac h k m) = digest_size h.
  Local Notation SENC := (seg_enc gcm_seal aes_ctr hmac).
  Local Notation SDEC := (seg_dec gcm_open aes_ctr hmac).
  Local Notation KREAD := (key_read hkdf gcm_open aes_ctr hmac src read_full).

  Variable k : skey.
  Variables salt prefix aad p : bytes.
  Hypothesis Hv : key_valid k = true.
  Hypothesis Hsalt : length salt = k_dk k.
  Hypothesis Hpre : length prefix = nonce_prefix_size.
  Local Notation seg := (k_cseg k - k_tag k).
  Local Notation off := (k_foff k + hdr_len k).
  Local Notation ss := (segments seg off p).
  Local Notation sk := (derive hkdf k salt aad).
  Local Notation C := (key_ciphertext hkdf gcm_seal aes_ctr hmac k salt prefix aad p).
  Local Notation ENC := (encode_stream (SENC k sk) (k_nonce_size k) prefix seg off p).
  Hypothesis Hb : (N.of_nat (length ss) <= max_segments)%N.

  Lemma honest_constructor :
    new_dec_reader hkdf src read_full k aad (mkSrc C None) =
    (Some (fst sk, snd sk, prefix, mkR [] 0 [] 0%N false (mkSrc ENC None)), mkSrc ENC None).
  Proof.
    assert (Hhl : length (header k salt prefix) = hdr_len k).
    { unfold header, hdr_len. rewrite !app_length, Hsalt, Hpre. reflexivity. }
    rewrite new_dec_reader_ok.
    - cbn zeta. cbn [srem]. unfold key_ciphertext.
      assert (E1 : firstn (k_dk k) (skipn 1 (header k salt prefix ++ ENC)) = salt).
      { unfold header. cbn [app skipn]. rewrite <- app_assoc, <- Hsalt, firstn_app, Nat.sub_diag, firstn_all, firstn_O, app_nil_r.
        reflexivity. }
      assert (E2 : firstn nonce_prefix_size (skipn (1 + k_dk k) (header k salt prefix ++ ENC)) = prefix).
      { unfold header. cbn [app skipn Nat.add]. rewrite <- app_assoc, <- Hsalt, skipn_app, Nat.sub_diag, skipn_all, skipn_O.
        cbn [app]. rewrite <- Hpre, firstn_app, Nat.sub_diag, firstn_all, firstn_O, app_nil_r. reflexivity. }
      rewrite E1, E2.
      assert (E3 : src_adv (mkSrc (header k salt prefix ++ ENC) None) (hdr_len k) = mkSrc ENC None).
      { unfold src_adv. cbn [srem sfailr]. rewrite <- Hhl, skipn_app, Nat.sub_diag, skipn_all, skipn_O. reflexivity. }
      rewrite E3. reflexivity.
    - unfold limit. cbn [srem sfailr]. unfold key_ciphertext. rewrite app_length, Hhl. lia.
    - cbn [srem]. reflexivity.
  Qed.

  (* the read half of C07_key_roundtrip in key_read vocabulary *)
  Theorem key_read_honest : forall sizes,
    let '(outb, f) := KREAD k aad (mkSrc C None) sizes in
    (f = AtEof \/ f = Pending) /\ (f = AtEof -> outb = p) /\ (exists tl, p = outb ++ tl) /\
    (Forall (fun n => 0 < n) sizes -> length p + length ss < length sizes -> f = AtEof).
  Proof.
    intros sizes. unfold key_read. rewrite honest_constructor. rewrite <- surjective_pairing.
    destruct (key_valid_facts k Hv) as (Hseg & Htag & _).
    assert (Hct : r_ctseg (k_rparams k prefix) = seg + k_tag k) by (unfold k_rparams; cbn [r_ctseg]; lia).
    assert (Hpos : 0 < seg - r_off (k_rparams k prefix)) by (unfold k_rparams; cbn [r_off]; lia).
    assert (Hnr : new_reader (k_rparams k prefix) (mkSrc ENC None) = Some (mkR [] 0 [] 0%N false (mkSrc ENC None))).
    { unfold new_reader, k_rparams. cbn [r_nonce_size r_prefix]. rewrite nonce_room by lia. reflexivity. }
    exact (read_partition_independent (SENC k sk) (SDEC k sk) (k_rparams k prefix) seg (k_tag k) Hct Hpos Htag
             (fun n s => seg_enc_len gcm_seal aes_ctr hmac gcm_len ctr_len hmac_len k sk n s Hv)
             (fun n s => seg_dec_enc gcm_seal gcm_open aes_ctr hmac gcm_len gcm_inv ctr_inv hmac_len k sk n s Hv)
             sizes p _ Hb Hnr).
  Qed.

End KeysetHonest.
