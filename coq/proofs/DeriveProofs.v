(* Proofs about model/Derive.v (C17). *)
From Coq Require Import List NArith Bool Arith Lia.
From Tink Require Import Bytes Manager ManagerProofs Derive.
Import ListNotations.
Open Scope N_scope.

Section P.
Variable hmac : hash -> bytes -> bytes -> bytes.
Variable edpub : bytes -> bytes.
(* the only law of HMAC that is used: its output has the hash's length *)
Hypothesis hmac_len : forall h k m, length (hmac h k m) = hash_len h.

Lemma hash_len_pos h : (0 < hash_len h)%nat.
Proof. destruct h; simpl; lia. Qed.

(* ---- HKDF --------------------------------------------------------------- *)

Lemma hkdf_t_length h prk info n : forall i prev,
  length (hkdf_t hmac h prk info n i prev) = (n * hash_len h)%nat.
Proof.
  induction n as [|n IH]; simpl; intros i prev; auto.
  rewrite app_length, hmac_len, IH. reflexivity.
Qed.

(* more blocks only append: the stream is prefix-consistent *)
Lemma hkdf_t_app h prk info n m : forall i prev,
  exists rest, hkdf_t hmac h prk info (n + m) i prev = hkdf_t hmac h prk info n i prev ++ rest.
Proof.
  induction n as [|n IH]; simpl; intros i prev.
  - eexists. reflexivity.
  - destruct (IH (i + 1) (hmac h prk (prev ++ info ++ [i]))) as [rest Hr].
    exists rest. rewrite Hr, app_assoc. reflexivity.
Qed.

Lemma blocks_cover h len : (len <= blocks_for h len * hash_len h)%nat.
Proof.
  unfold blocks_for. pose proof (hash_len_pos h) as Hp.
  set (hl := hash_len h) in *.
  pose proof (Nat.div_mod (len + hl - 1) hl ltac:(lia)) as D.
  pose proof (Nat.mod_upper_bound (len + hl - 1) hl ltac:(lia)) as U.
  nia.
Qed.

Lemma blocks_mono h n m : (n <= m)%nat -> (blocks_for h n <= blocks_for h m)%nat.
Proof.
  intros H. unfold blocks_for. apply Nat.div_le_mono; [pose proof (hash_len_pos h); lia | lia].
Qed.

Theorem hkdf_length h ikm salt info n okm :
  hkdf hmac h ikm salt info n = Some okm -> length okm = n.
Proof.
  unfold hkdf. destruct (Nat.ltb 255 (blocks_for h n)); [discriminate|].
  intros H; inversion H; subst. apply firstn_length_le.
  rewrite hkdf_t_length. apply blocks_cover.
Qed.

(* reading n bytes from the stream = the leading n bytes of any longer read *)
Theorem hkdf_prefix h ikm salt info n m okm :
  (n <= m)%nat -> hkdf hmac h ikm salt info m = Some okm ->
  hkdf hmac h ikm salt info n = Some (firstn n okm).
Proof.
  unfold hkdf. intros Hnm.
  destruct (Nat.ltb 255 (blocks_for h m)) eqn:Em; [discriminate|].
  apply Nat.ltb_ge in Em. pose proof (blocks_mono h n m Hnm) as Hb.
  assert (En : Nat.ltb 255 (blocks_for h n) = false) by (apply Nat.ltb_ge; lia).
  rewrite En. intros H; inversion H; subst. f_equal.
  set (prk := hkdf_extract hmac h salt ikm).
  replace (blocks_for h m) with (blocks_for h n + (blocks_for h m - blocks_for h n))%nat by lia.
  destruct (hkdf_t_app h prk info (blocks_for h n) (blocks_for h m - blocks_for h n) 1 []) as [rest ->].
  rewrite firstn_firstn. replace (Nat.min n m) with n by lia.
  rewrite firstn_app.
  replace (n - length (hkdf_t hmac h prk info (blocks_for h n) 1 []))%nat with 0%nat.
  - simpl. rewrite app_nil_r. reflexivity.
  - rewrite hkdf_t_length. pose proof (blocks_cover h n). lia.
Qed.

Theorem hkdf_ok h ikm salt info n :
  (n <= 255 * hash_len h)%nat -> exists okm, hkdf hmac h ikm salt info n = Some okm.
Proof.
  intros H. unfold hkdf.
  assert (E : Nat.ltb 255 (blocks_for h n) = false).
  { apply Nat.ltb_ge. unfold blocks_for. pose proof (hash_len_pos h) as Hp.
    assert ((n + hash_len h - 1) / hash_len h < 256)%nat; [|lia].
    apply Nat.div_lt_upper_bound; [lia|]. nia. }
  rewrite E. eexists. reflexivity.
Qed.

(* the caller's salt enters as the info of the first expand block (RFC 5869 2.3) *)
Theorem hkdf_first_block h ikm salt info n :
  (0 < n)%nat -> (n <= hash_len h)%nat ->
  hkdf hmac h ikm salt info n =
  Some (firstn n (hmac h (hkdf_extract hmac h salt ikm) (info ++ [1]))).
Proof.
  intros H0 Hn. unfold hkdf.
  assert (B : blocks_for h n = 1%nat).
  { unfold blocks_for. pose proof (hash_len_pos h) as Hp.
    symmetry. apply Nat.div_unique with (r := (n - 1)%nat); lia. }
  rewrite B. simpl. rewrite app_nil_r. reflexivity.
Qed.

Lemma info_message_injective (a b : bytes) : a ++ [1] = b ++ [1] -> a = b.
Proof. apply app_inv_tail. Qed.

(* ---- one derived key ------------------------------------------------------ *)

Theorem derive_key_spec k id salt dk :
  derive_key hmac edpub k id salt = Some dk ->
  hkdf hmac (k_hash k) (k_ikm k) (k_salt k) salt (consumption (k_type k)) = Some (r_material dk) /\
  length (r_material dk) = consumption (k_type k) /\
  r_type dk = k_type k /\
  r_req dk = (if has_id_req (k_type k) (k_variant k) then Some id else None) /\
  r_variant dk = (if has_id_req (k_type k) (k_variant k) then k_variant k else VRaw) /\
  r_public dk = (match k_type k with DEd25519 => edpub (r_material dk) | _ => [] end).
Proof.
  unfold derive_key.
  destruct (hkdf hmac (k_hash k) (k_ikm k) (k_salt k) salt (consumption (k_type k))) as [okm|] eqn:E; [|discriminate].
  intros H; inversion H; subst; simpl. repeat split; auto.
  eapply hkdf_length; eauto.
Qed.

(* ---- the loop --------------------------------------------------------------- *)

Definition out_entry (prim : N) (e : dentry) (dk : derived) (i : nat) : entry :=
  mkEntry (d_id e) Enabled (N.eqb (d_id e) prim) (r_req dk) (N.of_nat i).

Fixpoint out_entries (prim : N) (es : list dentry) (dks : list derived) (start : nat) : list entry :=
  match es, dks with
  | e :: es', dk :: dks' => out_entry prim e dk start :: out_entries prim es' dks' (S start)
  | _, _ => []
  end.

Lemma find_entry_last l x :
  (forall y, In y l -> eid y <> eid x) -> find_entry (l ++ [x]) (eid x) = Some x.
Proof.
  induction l as [|y l IH]; simpl; intros H.
  - rewrite N.eqb_refl. reflexivity.
  - destruct (eid y =? eid x) eqn:E.
    + apply N.eqb_eq in E. exfalso. eapply H; eauto.
    + apply IH. intros z Hz. apply H. auto.
Qed.

Lemma set_primary_last l x :
  (forall y, In y l -> eid y <> eid x /\ eprim y = false) ->
  set_primary (eid x) (l ++ [x]) = l ++ [mkEntry (eid x) (est x) true (ereq x) (ekey x)].
Proof.
  intros H. rewrite set_primary_unfold.
  induction l as [|y l IH]; simpl.
  - rewrite N.eqb_refl. simpl. unfold clr_other. simpl. rewrite N.eqb_refl. reflexivity.
  - destruct (H y (or_introl eq_refl)) as [Hy Hp].
    destruct (eid y =? eid x) eqn:E; [apply N.eqb_eq in E; contradiction|].
    simpl. rewrite IH by (intros z Hz; apply H; right; auto).
    f_equal. unfold clr_other. rewrite E. destruct y; simpl in *. subst. reflexivity.
Qed.

(* what the loop needs of the manager state *)
Definition LInv (prim : N) (s : state) : Prop :=
  (forall x, In x (ents (smgr s)) -> In (eid x) (unavail (smgr s))) /\
  (forall x, In x (ents (smgr s)) -> eprim x = N.eqb (eid x) prim).

Lemma add_derived_spec s id req k s1 :
  add_derived s id req k = Some s1 ->
  ~ In id (unavail (smgr s)) /\
  (forall r, req = Some r -> r = id) /\
  ents (smgr s1) = ents (smgr s) ++ [mkEntry id Enabled false req k] /\
  unavail (smgr s1) = id :: unavail (smgr s) /\
  shandles s1 = shandles s.
Proof.
  unfold add_derived. destruct req as [r|].
  - destruct (r =? id) eqn:E; [|discriminate]. apply N.eqb_eq in E. subst r.
    simpl. destruct (mem id (unavail (smgr s))) eqn:M; [discriminate|].
    intros H; inversion H; subst; simpl. repeat split; auto.
    + intros Hc. apply mem_In in Hc. congruence.
    + intros r Hr; inversion Hr; auto.
  - destruct (mem id (unavail (smgr s))) eqn:M; [discriminate|].
    intros H; inversion H; subst; simpl. repeat split; auto.
    + intros Hc. apply mem_In in Hc. congruence.
    + intros r Hr; discriminate.
Qed.

Lemma add_derived_ok s id req k :
  ~ In id (unavail (smgr s)) -> (forall r, req = Some r -> r = id) ->
  exists s1, add_derived s id req k = Some s1.
Proof.
  intros Hn Hr. unfold add_derived.
  assert (M : mem id (unavail (smgr s)) = false).
  { destruct (mem id (unavail (smgr s))) eqn:M; auto. apply mem_In in M. contradiction. }
  destruct req as [r|].
  - rewrite (Hr r eq_refl), N.eqb_refl. simpl. rewrite M. eexists. reflexivity.
  - rewrite M. eexists. reflexivity.
Qed.

Theorem derive_loop_spec es : forall prim salt s keys s' keys',
  LInv prim s ->
  derive_loop hmac edpub es prim salt s keys = Some (s', keys') ->
  exists dks,
    Forall2 (fun e dk => derive_key hmac edpub (d_key e) (d_id e) salt = Some dk) es dks /\
    keys' = keys ++ dks /\
    ents (smgr s') = ents (smgr s) ++ out_entries prim es dks (length keys) /\
    NoDup (map d_id es) /\
    (forall e, In e es -> ~ In (d_id e) (unavail (smgr s))) /\
    shandles s' = shandles s /\ LInv prim s'.
Proof.
  induction es as [|e rest IH]; simpl; intros prim salt s keys s' keys' HI H.
  - inversion H; subst. exists []. rewrite !app_nil_r. destruct HI as [I1 I2].
    repeat split; auto; try constructor; tauto.
  - destruct (derive_key hmac edpub (d_key e) (d_id e) salt) as [dk|] eqn:DK; [|discriminate].
    destruct (add_derived s (d_id e) (r_req dk) (N.of_nat (length keys))) as [s1|] eqn:AD; [|discriminate].
    apply add_derived_spec in AD. destruct AD as (Hn & Hr & He & Hu & Hh).
    destruct HI as [I1 I2].
    (* the state after the optional SetPrimary *)
    assert (X : exists s2,
      (if d_id e =? prim
       then match set_primary_op s1 (d_id e) with
            | Some s2 => derive_loop hmac edpub rest prim salt s2 (keys ++ [dk])
            | None => None end
       else derive_loop hmac edpub rest prim salt s1 (keys ++ [dk]))
      = derive_loop hmac edpub rest prim salt s2 (keys ++ [dk]) /\
      ents (smgr s2) = ents (smgr s) ++ [out_entry prim e dk (length keys)] /\
      unavail (smgr s2) = d_id e :: unavail (smgr s) /\ shandles s2 = shandles s).
    { destruct (d_id e =? prim) eqn:EP.
      - apply N.eqb_eq in EP.
        set (x := mkEntry (d_id e) Enabled false (r_req dk) (N.of_nat (length keys))) in *.
        assert (Hl : forall y, In y (ents (smgr s)) -> eid y <> eid x /\ eprim y = false).
        { intros y Hy. assert (Hne : eid y <> d_id e).
          { intros Hc. apply Hn. rewrite <- Hc. apply I1; auto. }
          split; auto. rewrite (I2 y Hy). apply N.eqb_neq. congruence. }
        unfold set_primary_op. simpl. rewrite He.
        change (d_id e) with (eid x) at 1.
        rewrite find_entry_last by (intros y Hy; apply Hl; auto). simpl.
        eexists. split; [reflexivity|]. simpl.
        change (d_id e) with (eid x). rewrite set_primary_last by exact Hl.
        repeat split; auto. unfold out_entry. simpl. rewrite EP, N.eqb_refl. reflexivity.
      - exists s1. repeat split; auto. rewrite He. unfold out_entry. rewrite EP. reflexivity. }
    destruct X as (s2 & EQ & E2 & U2 & H2). rewrite EQ in H. clear EQ.
    assert (HI2 : LInv prim s2).
    { split.
      - intros x Hx. rewrite E2 in Hx. rewrite U2. apply in_app_iff in Hx.
        destruct Hx as [Hx|[Hx|[]]]; [right; apply I1; auto | subst; left; reflexivity].
      - intros x Hx. rewrite E2 in Hx. apply in_app_iff in Hx.
        destruct Hx as [Hx|[Hx|[]]]; [apply I2; auto | subst; reflexivity]. }
    destruct (IH _ _ _ _ _ _ HI2 H) as (dks & F & K & EE & ND & NU & HH & LI).
    destruct LI as [L1 L2].
    exists (dk :: dks). repeat split; auto.
    + subst keys'. rewrite <- app_assoc. reflexivity.
    + rewrite EE, E2, <- app_assoc. simpl. rewrite app_length. simpl.
      replace (length keys + 1)%nat with (S (length keys)) by lia. reflexivity.
    + constructor; auto. intros Hin. apply in_map_iff in Hin. destruct Hin as (e' & Hid & Hin).
      apply (NU e' Hin). rewrite U2. left. auto.
    + intros e' [<-|Hin]; auto. intros Hc. apply (NU e' Hin). rewrite U2. right. auto.
    + congruence.
Qed.

(* ---- success on well-formed deriver keysets ------------------------------- *)

Theorem derive_loop_ok es : forall prim salt s keys,
  LInv prim s -> NoDup (map d_id es) ->
  (forall e, In e es -> ~ In (d_id e) (unavail (smgr s))) ->
  (forall e, In e es -> (consumption (k_type (d_key e)) <= 255 * hash_len (k_hash (d_key e)))%nat) ->
  exists s' keys', derive_loop hmac edpub es prim salt s keys = Some (s', keys').
Proof.
  induction es as [|e rest IH]; simpl; intros prim salt s keys HI ND NU HL.
  - eexists; eexists; reflexivity.
  - inversion ND as [|? ? Hnin ND']; subst.
    destruct (hkdf_ok (k_hash (d_key e)) (k_ikm (d_key e)) (k_salt (d_key e)) salt
                      (consumption (k_type (d_key e))) (HL e (or_introl eq_refl))) as [okm Hk].
    unfold derive_key at 1. rewrite Hk.
    set (dk := mkDerived _ _ _ _ _).
    assert (Hreq : forall r, r_req dk = Some r -> r = d_id e).
    { unfold dk; simpl. destruct (has_id_req _ _); intros r Hr; inversion Hr; auto. }
    destruct (add_derived_ok s (d_id e) (r_req dk) (N.of_nat (length keys))
                             (NU e (or_introl eq_refl)) Hreq) as [s1 AD].
    rewrite AD. pose proof (add_derived_spec _ _ _ _ _ AD) as (Hn & _ & He & Hu & Hh).
    destruct HI as [I1 I2].
    set (x := mkEntry (d_id e) Enabled false (r_req dk) (N.of_nat (length keys))) in *.
    assert (Hl : d_id e = prim -> forall y, In y (ents (smgr s)) -> eid y <> eid x /\ eprim y = false).
    { intros EP y Hy. assert (Hne : eid y <> d_id e).
      { intros Hc. apply Hn. rewrite <- Hc. apply I1; auto. }
      split; auto. rewrite (I2 y Hy). apply N.eqb_neq. congruence. }
    destruct (d_id e =? prim) eqn:EP.
    + apply N.eqb_eq in EP. specialize (Hl EP).
      unfold set_primary_op. simpl. rewrite He.
      change (d_id e) with (eid x) at 1.
      rewrite find_entry_last by (intros y Hy; apply Hl; auto). simpl.
      apply IH; [ | exact ND' | | intros e' He'; apply HL; right; exact He'].
      * split; simpl.
        -- intros y Hy. change (d_id e) with (eid x) in Hy. rewrite set_primary_last in Hy by exact Hl.
           rewrite Hu. apply in_app_iff in Hy. destruct Hy as [Hy|[Hy|[]]]; [right; apply I1; auto | subst; left; reflexivity].
        -- intros y Hy. change (d_id e) with (eid x) in Hy. rewrite set_primary_last in Hy by exact Hl.
           apply in_app_iff in Hy. destruct Hy as [Hy|[Hy|[]]]; [apply I2; auto|].
           subst y. simpl. rewrite EP, N.eqb_refl. reflexivity.
      * simpl. rewrite Hu. intros e' Hin [Hc|Hc]; [|apply (NU e' (or_intror Hin) Hc)].
        apply Hnin. apply in_map_iff. exists e'. auto.
    + apply IH; [ | exact ND' | | intros e' He'; apply HL; right; exact He'].
      * split.
        -- intros y Hy. rewrite He in Hy. rewrite Hu. apply in_app_iff in Hy.
           destruct Hy as [Hy|[Hy|[]]]; [right; apply I1; auto | subst; left; reflexivity].
        -- intros y Hy. rewrite He in Hy. apply in_app_iff in Hy.
           destruct Hy as [Hy|[Hy|[]]]; [apply I2; auto|]. subst y. simpl. rewrite EP. reflexivity.
      * rewrite Hu. intros e' Hin [Hc|Hc]; [|apply (NU e' (or_intror Hin) Hc)].
        apply Hnin. apply in_map_iff. exists e'. auto.
Qed.

(* ---- the whole derivation --------------------------------------------------- *)

Definition st0 : state := mkState new_manager [] [] 0.

Lemma LInv_st0 prim : LInv prim st0.
Proof. split; simpl; tauto. Qed.

(* a valid deriver keyset handle (C11 / keyset.Validate): distinct ids, exactly
   one primary, and it is ENABLED *)
Definition wf_deriver (ks : list dentry) : Prop :=
  NoDup (map d_id ks) /\
  (exists p, In p ks /\ d_prim p = true /\ d_status p = Enabled /\
             forall e, In e ks -> d_prim e = true -> e = p).

Lemma enabled_In ks e : In e (enabled ks) <-> In e ks /\ d_status e = Enabled.
Proof.
  unfold enabled. rewrite filter_In. rewrite status_eqb_eq. tauto.
Qed.

Lemma NoDup_map_filter (A B : Type) (f : A -> B) (p : A -> bool) l :
  NoDup (map f l) -> NoDup (map f (filter p l)).
Proof.
  induction l as [|x l IH]; simpl; intros H; [constructor|].
  inversion H; subst. destruct (p x); simpl; auto.
  constructor; auto. intros Hin. apply H2. apply in_map_iff in Hin.
  destruct Hin as (y & Hy & Hin). apply filter_In in Hin. apply in_map_iff. exists y. tauto.
Qed.

(* with a unique primary that is enabled, primaryKeyID is its id *)
Lemma primary_id_wf ks p :
  In p ks -> d_prim p = true -> d_status p = Enabled ->
  (forall e, In e ks -> d_prim e = true -> e = p) ->
  primary_id ks = d_id p.
Proof.
  intros Hin Hp Hs Hu. unfold primary_id.
  assert (Hen : In p (enabled ks)) by (apply enabled_In; auto).
  assert (Hu' : forall e, In e (enabled ks) -> d_prim e = true -> e = p).
  { intros e He. apply Hu. apply enabled_In in He. tauto. }
  clear Hin Hs Hu. revert Hen Hu'. generalize (enabled ks) as l. generalize 0 as acc.
  assert (G : forall l acc, (forall e, In e l -> d_prim e = true -> e = p) ->
            fold_left (fun a e => if d_prim e then d_id e else a) l acc
            = if existsb d_prim l then d_id p else acc).
  { induction l as [|x l IH]; simpl; intros acc H; auto.
    rewrite IH by (intros e He; apply H; auto).
    destruct (d_prim x) eqn:Px; simpl.
    - rewrite (H x (or_introl eq_refl) Px). destruct (existsb d_prim l); reflexivity.
    - reflexivity. }
  intros acc l Hen Hu'. rewrite G by exact Hu'.
  assert (E : existsb d_prim l = true) by (apply existsb_exists; exists p; auto).
  rewrite E. reflexivity.
Qed.

(* SHAPE: the derived keyset has exactly one ENABLED key per enabled deriver
   key, in order, with the same id and primary flag, the id requirement and
   prefix type of the derived-key parameters, and material = HKDF(info = salt) *)
Theorem derive_keyset_shape ks salt h keys :
  wf_deriver ks ->
  derive_keyset hmac edpub ks salt = DOk h keys ->
  Forall2 (fun e dk => derive_key hmac edpub (d_key e) (d_id e) salt = Some dk) (enabled ks) keys /\
  Forall2 (fun e x =>
             eid x = d_id e /\ est x = Enabled /\ eprim x = d_prim e /\
             ereq x = (if has_id_req (k_type (d_key e)) (k_variant (d_key e)) then Some (d_id e) else None))
          (enabled ks) h /\
  map ekey h = map N.of_nat (seq 0 (length keys)).
Proof.
  intros (ND & p & Hin & Hp & Hs & Hu) H. unfold derive_keyset in H.
  destruct (new_ok ks); [|discriminate].
  destruct (derive_loop hmac edpub (enabled ks) (primary_id ks) salt (mkState new_manager [] [] 0) [])
    as [[s keys']|] eqn:L; [|discriminate].
  destruct (derive_loop_spec _ _ _ _ _ _ _ (LInv_st0 _) L) as (dks & F & K & EE & _ & _ & _ & _).
  simpl in K, EE. subst keys'.
  simpl in H. destruct (make_handle (ents (smgr s))) as [h0|] eqn:MH; [|discriminate].
  inversion H; subst h0 keys. clear H.
  unfold make_handle in MH.
  destruct (existsb _ _); [discriminate|]. destruct (existsb eprim _); [|discriminate].
  inversion MH; subst h. rewrite EE.
  rewrite (primary_id_wf ks p Hin Hp Hs Hu).
  split; [exact F|].
  assert (Hprim : forall e, In e (enabled ks) -> (d_id e =? d_id p) = d_prim e).
  { intros e He. apply enabled_In in He. destruct He as [He _].
    destruct (d_prim e) eqn:Pe.
    - rewrite (Hu e He Pe). apply N.eqb_refl.
    - apply N.eqb_neq. intros Hc.
      assert (e = p).
      { clear - ND He Hin Hc. induction ks as [|x l IH]; simpl in *; [tauto|].
        inversion ND; subst. destruct He as [<-|He], Hin as [<-|Hin]; auto.
        - exfalso. apply H1. apply in_map_iff. exists p. auto.
        - exfalso. apply H1. apply in_map_iff. exists e. auto. }
      subst e. congruence. }
  clear L EE MH. revert Hprim. generalize 0%nat as st.
  induction F as [|e dk es dks Hd F IH]; simpl; intros st Hprim.
  - split; constructor.
  - destruct (IH (S st)) as [A B]; [intros e' He'; apply Hprim; right; auto|].
    split.
    + constructor; auto. simpl. repeat split; auto.
      apply derive_key_spec in Hd. tauto.
    + simpl. f_equal. rewrite B. rewrite <- seq_shift, map_map. reflexivity.
Qed.

(* On every well-formed deriver keyset of supported keys DeriveKeyset succeeds *)
Theorem derive_keyset_ok ks salt :
  wf_deriver ks -> new_ok ks = true ->
  (forall e, In e ks -> (consumption (k_type (d_key e)) <= 255 * hash_len (k_hash (d_key e)))%nat) ->
  exists h keys, derive_keyset hmac edpub ks salt = DOk h keys.
Proof.
  intros (ND & p & Hin & Hp & Hs & Hu) Hnew HL. unfold derive_keyset. rewrite Hnew.
  destruct (derive_loop_ok (enabled ks) (primary_id ks) salt (mkState new_manager [] [] 0) [])
    as (s & keys & L); auto.
  - apply LInv_st0.
  - apply NoDup_map_filter; auto.
  - intros e He. apply HL. apply enabled_In in He. tauto.
  - fold st0 in L. unfold st0 in L. rewrite L.
    destruct (derive_loop_spec _ _ _ _ _ _ _ (LInv_st0 _) L) as (dks & F & K & EE & _ & _ & _ & _).
    simpl in EE. simpl. unfold make_handle. rewrite EE.
    rewrite (primary_id_wf ks p Hin Hp Hs Hu).
    assert (Hpe : In p (enabled ks)) by (apply enabled_In; auto).
    assert (U : existsb (fun e => status_eqb (est e) UnknownStatus) (out_entries (d_id p) (enabled ks) dks 0) = false).
    { clear. generalize 0%nat. revert dks. induction (enabled ks) as [|e l IH]; intros dks st; simpl; auto.
      destruct dks; simpl; auto. }
    rewrite U.
    assert (P : existsb eprim (out_entries (d_id p) (enabled ks) dks 0) = true).
    { clear - F Hpe. revert Hpe. generalize 0%nat.
      induction F as [|e dk es dks Hd F IH]; simpl; intros st Hin; [tauto|].
      destruct Hin as [<-|Hin]; [rewrite N.eqb_refl; reflexivity|].
      rewrite (IH (S st) Hin). apply orb_true_r. }
    rewrite P. eexists; eexists; reflexivity.
Qed.

(* WELL-FORMEDNESS of the result, for ANY deriver keyset (through the C11 invariant) *)
Lemma add_derived_inv s id req k s1 : SInv s -> add_derived s id req k = Some s1 -> SInv s1.
Proof.
  intros HS H. pose proof HS as [[HE HU] HH]. unfold add_derived in H. destruct req as [r|].
  - destruct (r =? id); [|discriminate].
    pose proof (step_inv s (OAddKey (Some id) k) HS) as X.
    destruct (step s (OAddKey (Some id) k)) as [s' res]. destruct res; inversion H; subst. exact X.
  - destruct (mem id (unavail (smgr s))) eqn:M; [discriminate|]. inversion H; subst.
    assert (~ In id (unavail (smgr s))) by (intros Hc; apply mem_In in Hc; congruence).
    split; [split|]; simpl; auto.
    + apply EInv_add; auto. eapply unavail_not_in_ents; eauto. split; auto. intros r Hr; discriminate.
    + intros e He. apply in_app_iff in He. destruct He as [He|[He|[]]]; auto. subst; simpl; auto.
Qed.

Lemma set_primary_op_inv s id s1 : SInv s -> set_primary_op s id = Some s1 -> SInv s1.
Proof.
  intros HS H. unfold set_primary_op in H. pose proof (step_inv s (OSetPrimary id) HS) as X.
  destruct (step s (OSetPrimary id)) as [s' res]. destruct res; inversion H; subst. exact X.
Qed.

Lemma derive_loop_inv es : forall prim salt s keys s' keys',
  SInv s -> derive_loop hmac edpub es prim salt s keys = Some (s', keys') -> SInv s'.
Proof.
  induction es as [|e rest IH]; simpl; intros prim salt s keys s' keys' HS H.
  - inversion H; subst; auto.
  - destruct (derive_key hmac edpub (d_key e) (d_id e) salt) as [dk|]; [|discriminate].
    destruct (add_derived s (d_id e) (r_req dk) (N.of_nat (length keys))) as [s1|] eqn:AD; [|discriminate].
    pose proof (add_derived_inv _ _ _ _ _ HS AD) as HS1.
    destruct (d_id e =? prim).
    + destruct (set_primary_op s1 (d_id e)) as [s2|] eqn:SP; [|discriminate].
      eapply IH; [|eauto]. eapply set_primary_op_inv; eauto.
    + eapply IH; eauto.
Qed.

Theorem derive_keyset_wellformed ks salt h keys :
  derive_keyset hmac edpub ks salt = DOk h keys -> wf_handle h.
Proof.
  unfold derive_keyset. destruct (new_ok ks); [|discriminate].
  destruct (derive_loop hmac edpub (enabled ks) (primary_id ks) salt (mkState new_manager [] [] 0) [])
    as [[s keys']|] eqn:L; [|discriminate].
  assert (HS : SInv s).
  { eapply derive_loop_inv; [|exact L]. apply (init_inv None []). intros h0 Hc; discriminate. }
  destruct (step s OHandle) as [s' res] eqn:ST. destruct res; try discriminate.
  intros H; inversion H; subst. eapply step_handle_wf; eauto.
Qed.

(* keyderivation.New rejects exactly: empty handle, or an ENABLED key whose
   HKDF PRF is not SHA-256/SHA-512 with a key of at least 32 bytes *)
Theorem new_err_iff ks salt :
  derive_keyset hmac edpub ks salt = DNewErr <->
  ks = [] \/ exists e, In e ks /\ d_status e = Enabled /\ prf_ok (d_key e) = false.
Proof.
  unfold derive_keyset. split.
  - destruct (new_ok ks) eqn:N.
    + destruct (derive_loop _ _ _ _ _ _ _) as [[s k]|]; [|discriminate].
      destruct (step s OHandle) as [s' res]; destruct res; discriminate.
    + intros _. unfold new_ok in N. apply andb_false_iff in N. destruct N as [N|N].
      * destruct ks; [auto|discriminate].
      * right. destruct (forallb _ _) eqn:F in N; [discriminate|].
        assert (X : exists e, In e (enabled ks) /\ prf_ok (d_key e) = false).
        { clear - F. induction (enabled ks) as [|x l IH]; simpl in F; [discriminate|].
          destruct (prf_ok (d_key x)) eqn:P; simpl in F.
          - destruct (IH F) as (e & A & B). exists e; simpl; auto.
          - exists x; simpl; auto. }
        destruct X as (e & A & B). apply enabled_In in A. exists e. tauto.
  - intros [->|(e & A & B & C)]; [reflexivity|].
    assert (N : new_ok ks = false).
    { unfold new_ok. apply andb_false_iff. right.
      destruct (forallb _ _) eqn:F; auto. rewrite forallb_forall in F.
      rewrite (F e) in C; [discriminate|]. apply enabled_In; auto. }
    rewrite N. reflexivity.
Qed.
End P.
