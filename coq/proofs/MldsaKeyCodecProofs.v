(* Key encodings of the ML-DSA model round-trip on generated keys
   (pkDecode o pkEncode, skDecode o skEncode: model/Mldsa.v, marshal.go), and
   with that the statement "every produced signature verifies" for the Tink
   signer/verifier layer, which holds the ENCODED keys (tinkSign, tinkVerify:
   signature/mldsa signer.go / verifier.go with an output prefix). *)
From Coq Require Import List ZArith NArith Bool Arith Lia.
From Tink Require Import Bytes Wrap MldsaScalar MldsaScalarProofs MldsaScalarProofs2 MldsaTableProofs
  MldsaKernels MldsaKernelsProofs MldsaPoly Mldsa MldsaPackProofs MldsaHintProofs
  MldsaNttProofs MldsaAlgebraProofs MldsaProofs MldsaConvProofs MldsaNormProofs
  MldsaSampleProofs MldsaSignVerifyProofs.
Import ListNotations.
Local Open Scope Z_scope.

Lemma firstn_app_exact {A} (a b : list A) n : length a = n -> firstn n (a ++ b) = a.
Proof. intros <-. rewrite firstn_app, Nat.sub_diag, firstn_O, app_nil_r. apply firstn_all. Qed.
Lemma skipn_app_exact {A} (a b : list A) n : length a = n -> skipn n (a ++ b) = b.
Proof. intros <-. rewrite skipn_app, Nat.sub_diag, skipn_all. reflexivity. Qed.

Lemma skipn_app2 {A} (a b c : list A) n m : length a = n -> length b = m -> skipn (n + m) (a ++ b ++ c) = c.
Proof.
  intros La Lb. rewrite app_assoc. apply skipn_app_exact. rewrite app_length. lia.
Qed.
Lemma skipn_app3 {A} (a b c d : list A) n m o : length a = n -> length b = m -> length c = o ->
  skipn (n + m + o) (a ++ b ++ c ++ d) = d.
Proof.
  intros La Lb Lc. rewrite (app_assoc a), (app_assoc (a ++ b)). apply skipn_app_exact. rewrite !app_length. lia.
Qed.

Lemma pieces_map_concat {A} (f : A -> bytes) n m (v : list A) rest :
  length v = m -> Forall (fun x => length (f x) = n) v ->
  pieces n m (concat (map f v) ++ rest) = map f v.
Proof.
  intros L F. rewrite <- L, <- (map_length f v). apply pieces_concat. apply Forall_map. exact F.
Qed.

(* ------------------------------------------------------------------ *)
(* ranges of Power2Round                                                *)
(* ------------------------------------------------------------------ *)
Ltac Zify.zify_post_hook ::= Z.div_mod_to_equations.
Lemma power2Round_ranges a : 0 <= a < q ->
  0 <= fst (k_power2Round a) < 1024 /\
  (0 <= snd (k_power2Round a) < q /\ (4096 - snd (k_power2Round a)) mod q < 8192).
Proof.
  intros Ha. rewrite k_power2Round_eq, power2Round_spec by auto. cbn [fst snd].
  unfold cmod, q in *. change (8192 / 2) with 4096.
  destruct (a mod 8192 <=? 4096) eqn:E; [apply Z.leb_le in E | apply Z.leb_gt in E]; lia.
Qed.

Lemma small_bitpack_range eta c : eta = 2 \/ eta = 4 -> 0 <= c < q -> cabs c <= eta ->
  (eta - c) mod q <= 2 * eta.
Proof.
  intros He Hc Hb. unfold cabs, cmod, q in *. change (8380417 / 2) with 4190208 in Hb.
  rewrite (Z.mod_small c) in Hb by lia.
  destruct (c <=? 4190208) eqn:E; [apply Z.leb_le in E | apply Z.leb_gt in E]; destruct He; subst eta; lia.
Qed.
Ltac Zify.zify_post_hook ::= idtac.

(* ------------------------------------------------------------------ *)
(* public key                                                           *)
(* ------------------------------------------------------------------ *)
Lemma pkDecode_pkEncode shake256 P rho t1 :
  length rho = 32%nat -> polys (p_k P) t1 ->
  Forall (Forall (fun c => 0 <= c < 2 ^ Z.of_nat t1Bits)) t1 ->
  pkDecode shake256 P (pkEncodeRaw rho t1) = Some (mkPK rho t1 (shake256 (pkEncodeRaw rho t1) 64%nat)).
Proof.
  intros Lr Ht Rt. unfold pkDecode.
  pose proof (pkEncode_length P (mkPK rho t1 []) Ht) as Le. unfold pkEncode in Le. cbn [pk_rho pk_t1] in Le.
  rewrite Le, Nat.eqb_refl. cbn [negb]. f_equal.
  destruct Ht as [Lt Pt].
  assert (Lp : Forall (fun p => length (simpleBitPack t1Bits p) = (32 * t1Bits)%nat) t1).
  { eapply Forall_impl; [|exact Pt]. intros p Hp. apply simpleBitPack_length. exact Hp. }
  unfold pkEncodeRaw at 1 2. rewrite (firstn_pad_exact 32 rho Lr).
  rewrite (firstn_app_exact rho _ 32 Lr), (skipn_app_exact rho _ 32 Lr).
  rewrite <- (app_nil_r (concat _)). rewrite (pieces_map_concat _ _ _ _ _ Lt Lp).
  f_equal. rewrite map_map. rewrite <- (map_id t1) at 2. apply map_ext_in. intros p Hp.
  rewrite Forall_forall in Pt, Rt. apply simpleBitUnpack_simpleBitPack; auto. unfold t1Bits. cbn. lia.
Qed.

(* ------------------------------------------------------------------ *)
(* secret key                                                           *)
(* ------------------------------------------------------------------ *)
Lemma map_unpack_pack a bits (v : list poly) : (0 < bits)%nat -> 0 <= a < q ->
  Forall (fun p => length p = degree) v ->
  Forall (Forall (fun c => 0 <= c < q /\ (a - c) mod q < 2 ^ Z.of_nat bits)) v ->
  map (bitUnpack a bits) (map (bitPack a bits) v) = v.
Proof.
  intros Hb Ha Pv Rv. rewrite map_map. rewrite <- (map_id v) at 2. apply map_ext_in. intros p Hp.
  rewrite Forall_forall in Pv, Rv. apply bitUnpack_bitPack; auto.
Qed.

Lemma skDecode_skEncode P rho K tr s1 s2 t0 :
  (0 < p_etaBits P)%nat -> 0 <= p_eta P < q ->
  length rho = 32%nat -> length K = 32%nat -> length tr = 64%nat ->
  polys (p_l P) s1 -> polys (p_k P) s2 -> polys (p_k P) t0 ->
  Forall (Forall (fun c => 0 <= c < q /\ (p_eta P - c) mod q < 2 ^ Z.of_nat (p_etaBits P))) s1 ->
  Forall (Forall (fun c => 0 <= c < q /\ (p_eta P - c) mod q < 2 ^ Z.of_nat (p_etaBits P))) s2 ->
  Forall (Forall (fun c => 0 <= c < q /\ (4096 - c) mod q < 2 ^ Z.of_nat dBits)) t0 ->
  skDecode P (skEncode P (mkSK rho K tr s1 s2 t0)) = Some (mkSK rho K tr s1 s2 t0).
Proof.
  intros Hb He Lr LK Ltr H1 H2 H3 R1 R2 R3. unfold skDecode.
  rewrite (skEncode_length P (mkSK rho K tr s1 s2 t0) H1 H2 H3), Nat.eqb_refl. cbn [negb].
  unfold skEncode. cbn [sk_rho sk_K sk_tr sk_s1 sk_s2 sk_t0].
  rewrite (firstn_pad_exact 32 rho Lr), (firstn_pad_exact 32 K LK), (firstn_pad_exact 64 tr Ltr).
  change (Z.shiftl 1 (mldsa_d - 1)) with 4096.
  destruct H1 as [L1 P1]. destruct H2 as [L2 P2]. destruct H3 as [L3 P3].
  set (S1 := map (bitPack (p_eta P) (p_etaBits P)) s1).
  set (S2 := map (bitPack (p_eta P) (p_etaBits P)) s2).
  set (T0 := map (bitPack 4096 dBits) t0).
  assert (F1 : Forall (fun p => length (bitPack (p_eta P) (p_etaBits P) p) = (32 * p_etaBits P)%nat) s1).
  { eapply Forall_impl; [|exact P1]. intros p Hp. apply bitPack_length. exact Hp. }
  assert (F2 : Forall (fun p => length (bitPack (p_eta P) (p_etaBits P) p) = (32 * p_etaBits P)%nat) s2).
  { eapply Forall_impl; [|exact P2]. intros p Hp. apply bitPack_length. exact Hp. }
  assert (F3 : Forall (fun p => length (bitPack 4096 dBits p) = (32 * dBits)%nat) t0).
  { eapply Forall_impl; [|exact P3]. intros p Hp. apply bitPack_length. exact Hp. }
  assert (LS1 : length (concat S1) = (p_l P * (32 * p_etaBits P))%nat).
  { unfold S1. rewrite (concat_map_length _ (32 * p_etaBits P)) by exact F1. rewrite L1. reflexivity. }
  assert (LS2 : length (concat S2) = (p_k P * (32 * p_etaBits P))%nat).
  { unfold S2. rewrite (concat_map_length _ (32 * p_etaBits P)) by exact F2. rewrite L2. reflexivity. }
  (* header *)
  rewrite (firstn_app_exact rho _ 32 Lr).
  rewrite (skipn_app_exact rho _ 32 Lr), (firstn_app_exact K _ 32 LK).
  rewrite (skipn_app2 rho K _ 32 32 Lr LK : skipn 64 _ = _).
  rewrite (firstn_app_exact tr _ 64 Ltr).
  rewrite (skipn_app3 rho K tr _ 32 32 64 Lr LK Ltr : skipn 128 _ = _).
  (* body *)
  unfold S1 at 1. rewrite (pieces_map_concat _ _ _ _ _ L1 F1). fold S1.
  rewrite (skipn_app_exact (concat S1) _ _ LS1).
  unfold S2 at 1. rewrite (pieces_map_concat _ _ _ _ _ L2 F2). fold S2.
  rewrite (skipn_app2 (concat S1) (concat S2) (concat T0) _ _ LS1 LS2).
  rewrite <- (app_nil_r (concat T0)). unfold T0 at 1. rewrite (pieces_map_concat _ _ _ _ _ L3 F3).
  unfold S1, S2, T0.
  rewrite !map_unpack_pack; auto; try (unfold q; lia). unfold dBits. cbn. lia.
Qed.

(* ------------------------------------------------------------------ *)
(* generated keys satisfy the ranges                                    *)
(* ------------------------------------------------------------------ *)
Lemma etaBits_ok P : params_ok P -> (0 < p_etaBits P)%nat /\ 2 * p_eta P < 2 ^ Z.of_nat (p_etaBits P).
Proof. intros [-> | [-> | ->]]; split; cbn; lia. Qed.

Section TinkLayer.
  Variables shake128 shake256 : bytes -> nat -> bytes.
  Hypothesis shake256_length : forall m n, length (shake256 m n) = n.
  Variable P : params.
  Hypothesis HP : params_ok P.

  Lemma keyGen_codec seed pk sk : keyGenInternal shake128 shake256 P seed = Some (pk, sk) ->
    pkDecode shake256 P (pkEncode pk) = Some pk /\ skDecode P (skEncode P sk) = Some sk.
  Proof.
    intros HK. pose proof (params_ok_facts P HP) as PF.
    destruct (etaBits_ok P HP) as [Eb1 Eb2].
    apply (keyGen_inv shake128 shake256 shake256_length P PF) in HK.
    destruct HK as (rho & K & tr & Ah & s1 & s2 & EA & [Hs1 Bs1] & [Hs2 Bs2] & Lr & LK & Ltr & HK).
    cbv zeta in HK. destruct HK as (Etr & -> & ->).
    destruct PF as [_ _ _ Heta _ _].
    pose proof (expandA_cmat shake128 P _ _ EA) as HA.
    set (t := vadd (vintt (mmul Ah (vntt s1))) s2) in *.
    assert (Ht : cvec (p_k P) t) by (unfold t; eauto with cpoly).
    assert (Rng : Forall (Forall (fun a => 0 <= a < q)) t).
    { destruct Ht as [_ Ft]. eapply Forall_impl; [|exact Ft]. intros p [_ Cp]. exact Cp. }
    assert (Lt : length t = p_k P) by (apply (cvec_len _ _ Ht)).
    assert (Pt : Forall (fun p => length p = degree) t).
    { destruct Ht as [_ Ft]. eapply Forall_impl; [|exact Ft]. intros p [Lp _]. exact Lp. }
    split.
    - unfold pkEncode. cbn [pk_rho pk_t1]. rewrite Etr.
      apply pkDecode_pkEncode; auto.
      + split; [rewrite !map_length; exact Lt|]. rewrite map_map. apply Forall_map.
        eapply Forall_impl; [|exact Pt]. intros p Lp. unfold ppower2Round. cbn [fst]. rewrite !map_length. exact Lp.
      + rewrite map_map. apply Forall_map. eapply Forall_impl; [|exact Rng]. intros p Cp.
        unfold ppower2Round. cbn [fst]. rewrite map_map. apply Forall_map.
        eapply Forall_impl; [|exact Cp]. intros a Ha. cbv beta.
        change (2 ^ Z.of_nat t1Bits) with 1024. apply power2Round_ranges. exact Ha.
    - apply skDecode_skEncode; auto using cvec_polys.
      + destruct Heta as [-> | ->]; unfold q; lia.
      + split; [rewrite !map_length; exact Lt|]. rewrite map_map. apply Forall_map.
        eapply Forall_impl; [|exact Pt]. intros p Lp. unfold ppower2Round. cbn [snd]. rewrite !map_length. exact Lp.
      + pose proof (cvec_canon _ _ Hs1) as C1. rewrite Forall_forall in *. intros p Hp.
        specialize (C1 p Hp). specialize (Bs1 p Hp). unfold canon, bounded in *. rewrite Forall_forall in *.
        intros c Hc. specialize (C1 c Hc). specialize (Bs1 c Hc). cbv beta in *. split; [exact C1|].
        pose proof (small_bitpack_range _ _ Heta C1 Bs1). lia.
      + pose proof (cvec_canon _ _ Hs2) as C2. rewrite Forall_forall in *. intros p Hp.
        specialize (C2 p Hp). specialize (Bs2 p Hp). unfold canon, bounded in *. rewrite Forall_forall in *.
        intros c Hc. specialize (C2 c Hc). specialize (Bs2 c Hc). cbv beta in *. split; [exact C2|].
        pose proof (small_bitpack_range _ _ Heta C2 Bs2). lia.
      + rewrite map_map. apply Forall_map. eapply Forall_impl; [|exact Rng]. intros p Cp.
        unfold ppower2Round. cbn [snd]. rewrite map_map. apply Forall_map.
        eapply Forall_impl; [|exact Cp]. intros a Ha. cbv beta.
        change (2 ^ Z.of_nat dBits) with 8192. apply power2Round_ranges. exact Ha.
  Qed.

  (* the Tink signer over the encoded secret key, the Tink verifier over the
     encoded public key, any output prefix *)
  Theorem tink_sign_verify seed pk sk fuel prefix data rnd s :
    keyGenInternal shake128 shake256 P seed = Some (pk, sk) ->
    tinkSign shake128 shake256 P fuel prefix (skEncode P sk) data rnd = Some s ->
    tinkVerify shake128 shake256 P prefix (pkEncode pk) s data = Some true.
  Proof.
    intros HK HS. destruct (keyGen_codec seed pk sk HK) as [Dpk Dsk].
    unfold tinkSign in HS. rewrite Dsk in HS. cbn [obind] in HS.
    destruct (signInternal shake128 shake256 P fuel sk (formatMsg data []) rnd) as [s0|] eqn:E; [|discriminate].
    cbn [obind] in HS. inversion HS; subst s; clear HS.
    unfold tinkVerify. rewrite Dpk.
    rewrite (firstn_app_exact prefix s0 _ eq_refl), beq_refl, (skipn_app_exact prefix s0 _ eq_refl).
    eapply (keygen_sign_verify_internal shake128 shake256 shake256_length P (params_ok_facts P HP)); eauto.
  Qed.
End TinkLayer.
