(* Tie between the GF(2^128) reduction constant REGENERATED from internal/mac/aescmac
   (gen/RepoConsts.v: mul) and the doubling of the CMAC model (model/Cmac.v). *)
From Coq Require Import NArith List String.
From Tink Require Import RepoConsts Bytes Cmac.
Import ListNotations.
Open Scope N_scope.

(* every regenerated constant this file needs is named in a lemma below: if the translator
   cannot find one in the source its definition is missing and that lemma stops checking;
   constants of other properties do not matter here *)

(* doubling a block whose top bit is set XORs exactly the regenerated constant into the last byte *)
Lemma tie_cmac_mul :
  mulByX (128 :: repeat 0 15) = repeat 0 15 ++ [gen_cmac_mul].
Proof. vm_compute. reflexivity. Qed.

Lemma tie_cmac_block : N.of_nat BlockSize = 16.
Proof. reflexivity. Qed.
