(* Tie between the GF(2^128) reduction constant REGENERATED from internal/mac/aescmac
   (gen/RepoConsts.v: mul) and the doubling of the CMAC model (model/Cmac.v). *)
From Coq Require Import NArith List String.
From Tink Require Import RepoConsts Bytes Cmac.
Import ListNotations.
Open Scope N_scope.

Lemma consts_all_translated : consts_untranslatable = nil.
Proof. reflexivity. Qed.

(* doubling a block whose top bit is set XORs exactly the regenerated constant into the last byte *)
Lemma tie_cmac_mul :
  mulByX (128 :: repeat 0 15) = repeat 0 15 ++ [gen_cmac_mul].
Proof. vm_compute. reflexivity. Qed.

Lemma tie_cmac_block : N.of_nat BlockSize = 16.
Proof. reflexivity. Qed.
