(* Proofs about model/Base64url.v and model/Jwt.v (property C09). *)
From Coq Require Import List NArith ZArith Bool Lia.
From Tink Require Import Bytes Base64url Jwt.
Import ListNotations.
Open Scope N_scope.

(* validateFieldPresence: the full truth table *)
Lemma field_presence_table :
  forall ignore present expected,
    field_presence ignore present expected =
    if ignore then Some true
    else match expected, present with
         | false, false => Some true
         | true, true => Some false
         | _, _ => None
         end.
Proof. intros [] [] []; reflexivity. Qed.
