(* Proofs about model/Base64url.v and model/Jwt.v (property C09). *)
From Coq Require Import List NArith ZArith Bool Lia ZifyN ZifyNat ZifyBool.
From Tink Require Import Bytes Base64url Jwt JwtSpec.
Import ListNotations.
Open Scope N_scope.

Ltac Zify.zify_post_hook ::= Z.div_mod_to_equations.

(* ================= base64url ================= *)

Lemma b64_val_char v : v < 64 -> b64_val (b64_char v) = Some v.
Proof.
  intros H. unfold b64_char, b64_val.
  destruct (v <? 26) eqn:E1.
  { replace ((65 <=? v + 65) && (v + 65 <=? 90)) with true by lia. f_equal. lia. }
  destruct (v <? 52) eqn:E2.
  { replace ((65 <=? v - 26 + 97) && (v - 26 + 97 <=? 90)) with false by lia.
    replace ((97 <=? v - 26 + 97) && (v - 26 + 97 <=? 122)) with true by lia. f_equal. lia. }
  destruct (v <? 62) eqn:E3.
  { replace ((65 <=? v - 52 + 48) && (v - 52 + 48 <=? 90)) with false by lia.
    replace ((97 <=? v - 52 + 48) && (v - 52 + 48 <=? 122)) with false by lia.
    replace ((48 <=? v - 52 + 48) && (v - 52 + 48 <=? 57)) with true by lia. f_equal. lia. }
  destruct (v =? 62) eqn:E4.
  { simpl. f_equal. lia. }
  simpl. f_equal. lia.
Qed.

Lemma b64_char_val c v : b64_val c = Some v -> b64_char v = c /\ v < 64.
Proof.
  unfold b64_val, b64_char.
  destruct ((65 <=? c) && (c <=? 90)) eqn:E1.
  { intros H; inversion H; subst. replace (c - 65 <? 26) with true by lia. lia. }
  destruct ((97 <=? c) && (c <=? 122)) eqn:E2.
  { intros H; inversion H; subst. replace (c - 97 + 26 <? 26) with false by lia.
    replace (c - 97 + 26 <? 52) with true by lia. lia. }
  destruct ((48 <=? c) && (c <=? 57)) eqn:E3.
  { intros H; inversion H; subst. replace (c - 48 + 52 <? 26) with false by lia.
    replace (c - 48 + 52 <? 52) with false by lia. replace (c - 48 + 52 <? 62) with true by lia. lia. }
  destruct (c =? 45) eqn:E4.
  { intros H; inversion H; subst. simpl. lia. }
  destruct (c =? 95) eqn:E5.
  { intros H; inversion H; subst. simpl. lia. }
  discriminate.
Qed.

(* every produced character is in the alphabet; in particular never '.' *)
Lemma b64_char_alphabet v : b64_val (b64_char v) <> None.
Proof.
  unfold b64_char.
  destruct (v <? 26) eqn:E1; [|destruct (v <? 52) eqn:E2; [|destruct (v <? 62) eqn:E3; [|destruct (v =? 62) eqn:E4]]].
  - unfold b64_val. replace ((65 <=? v + 65) && (v + 65 <=? 90)) with true by lia. discriminate.
  - unfold b64_val. replace ((65 <=? v - 26 + 97) && (v - 26 + 97 <=? 90)) with false by lia.
    replace ((97 <=? v - 26 + 97) && (v - 26 + 97 <=? 122)) with true by lia. discriminate.
  - unfold b64_val. replace ((65 <=? v - 52 + 48) && (v - 52 + 48 <=? 90)) with false by lia.
    replace ((97 <=? v - 52 + 48) && (v - 52 + 48 <=? 122)) with false by lia.
    replace ((48 <=? v - 52 + 48) && (v - 52 + 48 <=? 57)) with true by lia. discriminate.
  - discriminate.
  - discriminate.
Qed.

Lemma b64_val_dot : b64_val dot = None.
Proof. reflexivity. Qed.

(* induction three bytes at a time *)
Lemma list_ind3 (A : Type) (P : list A -> Prop) :
  P [] -> (forall x, P [x]) -> (forall x y, P [x; y]) ->
  (forall x y z t, P t -> P (x :: y :: z :: t)) -> forall l, P l.
Proof.
  intros H0 H1 H2 H3.
  fix IH 1. intros [|x [|y [|z t]]]; [exact H0 | apply H1 | apply H2 | apply H3; apply IH].
Qed.

Lemma list_ind4 (A : Type) (P : list A -> Prop) :
  P [] -> (forall x, P [x]) -> (forall x y, P [x; y]) -> (forall x y z, P [x; y; z]) ->
  (forall x y z w t, P t -> P (x :: y :: z :: w :: t)) -> forall l, P l.
Proof.
  intros H0 H1 H2 H3 H4.
  fix IH 1. intros [|x [|y [|z [|w t]]]]; [exact H0 | apply H1 | apply H2 | apply H3 | apply H4; apply IH].
Qed.

Lemma wfb_cons x t : wfb (x :: t) <-> x < 256 /\ wfb t.
Proof. unfold wfb. split; intros H; [inversion H; auto | constructor; tauto]. Qed.

(* decode (encode x) = x for every byte string *)
Lemma b64_decode_encode x : wfb x -> b64_decode (b64_encode x) = Some x.
Proof.
  unfold b64_decode.
  induction x as [|a|a b|a b c t IH] using list_ind3; intros W.
  - reflexivity.
  - apply wfb_cons in W. destruct W as [Ha _].
    cbn [b64_encode map_opt]. rewrite !b64_val_char by lia.
    cbn [b64_decode_vals]. do 2 f_equal. lia.
  - apply wfb_cons in W. destruct W as [Ha W]. apply wfb_cons in W. destruct W as [Hb _].
    cbn [b64_encode map_opt]. rewrite !b64_val_char by lia.
    cbn [b64_decode_vals]. f_equal. f_equal; [lia|]. f_equal. lia.
  - apply wfb_cons in W. destruct W as [Ha W]. apply wfb_cons in W. destruct W as [Hb W].
    apply wfb_cons in W. destruct W as [Hc W].
    specialize (IH W).
    cbn [b64_encode map_opt]. rewrite !b64_val_char by lia.
    destruct (map_opt b64_val (b64_encode t)) as [vs|]; [|discriminate].
    cbn [b64_decode_vals]. rewrite IH. f_equal. f_equal; [lia|]. f_equal; [lia|]. f_equal. lia.
Qed.

Lemma map_opt_Forall {A B} (f : A -> option B) l :
  map_opt f l <> None <-> Forall (fun x => f x <> None) l.
Proof.
  induction l as [|x l IH]; simpl.
  - split; [constructor | discriminate].
  - destruct (f x) eqn:E.
    + destruct (map_opt f l) eqn:E2.
      * split; [intros _; constructor; [congruence | apply IH; discriminate] | discriminate].
      * split; [congruence|]. intros H. inversion H; subst. apply IH in H3. congruence.
    + split; [congruence|]. intros H. inversion H; subst. congruence.
Qed.

Lemma map_opt_length {A B} (f : A -> option B) l r : map_opt f l = Some r -> length r = length l.
Proof.
  revert r; induction l as [|x l IH]; simpl; intros r H.
  - inversion H; reflexivity.
  - destruct (f x); [|discriminate]. destruct (map_opt f l); [|discriminate].
    inversion H; subst. simpl. f_equal. apply IH. reflexivity.
Qed.

Lemma b64_decode_vals_ok v : b64_decode_vals v <> None <-> (length v mod 4 <> 1)%nat.
Proof.
  induction v as [|a|a b|a b c|a b c d t IH] using list_ind4.
  - simpl. split; [intros _; discriminate | discriminate].
  - simpl. split; [congruence | intros H; exfalso; apply H; reflexivity].
  - simpl. split; [intros _; discriminate | discriminate].
  - simpl. split; [intros _; discriminate | discriminate].
  - cbn [b64_decode_vals].
    replace (length (a :: b :: c :: d :: t) mod 4)%nat with (length t mod 4)%nat.
    + destruct (b64_decode_vals t); split; intros H; try discriminate; try congruence.
      * apply IH. discriminate.
      * apply IH in H. congruence.
    + cbn [length]. replace (S (S (S (S (length t))))) with (length t + 1 * 4)%nat by lia.
      rewrite Nat.mod_add by lia. reflexivity.
Qed.

(* the exact set of strings b64_decode accepts: alphabet only, length mod 4 <> 1
   (so: no padding, no whitespace, and NON-canonical trailing bits accepted) *)
Lemma b64_decode_accepts s :
  b64_decode s <> None <->
  Forall (fun c => b64_val c <> None) s /\ (length s mod 4 <> 1)%nat.
Proof.
  unfold b64_decode. destruct (map_opt b64_val s) as [v|] eqn:E.
  - rewrite b64_decode_vals_ok. rewrite (map_opt_length _ _ _ E).
    split; [intros H; split; auto; apply map_opt_Forall; congruence | tauto].
  - split; [congruence|]. intros [H _]. apply map_opt_Forall in H. congruence.
Qed.

Lemma b64_decode_nodot s x : b64_decode s = Some x -> nodot s.
Proof.
  intros H Hin.
  assert (A : b64_decode s <> None) by congruence.
  apply b64_decode_accepts in A. destruct A as [A _].
  rewrite Forall_forall in A. apply (A _ Hin). apply b64_val_dot.
Qed.

Lemma b64_encode_alphabet x : Forall (fun c => b64_val c <> None) (b64_encode x).
Proof.
  induction x as [|a|a b|a b c t IH] using list_ind3; cbn [b64_encode];
    repeat constructor; auto using b64_char_alphabet.
Qed.

Lemma b64_encode_nodot x : nodot (b64_encode x).
Proof.
  intros Hin. pose proof (b64_encode_alphabet x) as A. rewrite Forall_forall in A.
  apply (A _ Hin). apply b64_val_dot.
Qed.

Lemma b64_encode_injective x y : wfb x -> wfb y -> b64_encode x = b64_encode y -> x = y.
Proof.
  intros Wx Wy H. apply b64_decode_encode in Wx. apply b64_decode_encode in Wy.
  rewrite H in Wx. congruence.
Qed.

(* non-canonical encodings are accepted: "QQ" and "QR" both decode to "A" *)
Lemma b64_noncanonical_accepted :
  b64_decode [81; 81] = Some [65] /\ b64_decode [81; 82] = Some [65] /\ b64_encode [65] = [81; 81].
Proof. repeat split; reflexivity. Qed.

(* decoded bytes are bytes *)
Lemma b64_decode_vals_wf v x :
  Forall (fun a => a < 64) v -> b64_decode_vals v = Some x -> wfb x.
Proof.
  revert x. induction v as [|a|a b|a b c|a b c d t IH] using list_ind4; intros x F H.
  - inversion H; constructor.
  - discriminate.
  - inversion H; subst. inversion F as [|? ? Ha F1]; subst. inversion F1 as [|? ? Hb F2]; subst.
    repeat constructor. lia.
  - inversion H; subst. inversion F as [|? ? Ha F1]; subst. inversion F1 as [|? ? Hb F2]; subst.
    inversion F2 as [|? ? Hc F3]; subst. repeat constructor; lia.
  - cbn [b64_decode_vals] in H. destruct (b64_decode_vals t) as [r|] eqn:E; [|discriminate].
    inversion H; subst. inversion F as [|? ? Ha F1]; subst. inversion F1 as [|? ? Hb F2]; subst.
    inversion F2 as [|? ? Hc F3]; subst. inversion F3 as [|? ? Hd F4]; subst.
    repeat (apply Forall_cons); try lia. apply IH; auto.
Qed.

Lemma map_opt_b64_val_range s v : map_opt b64_val s = Some v -> Forall (fun a => a < 64) v.
Proof.
  revert v; induction s as [|c s IH]; simpl; intros v H.
  - inversion H; constructor.
  - destruct (b64_val c) eqn:E; [|discriminate]. destruct (map_opt b64_val s); [|discriminate].
    inversion H; subst. constructor; [apply (b64_char_val _ _ E) | apply IH; reflexivity].
Qed.

Lemma b64_decode_wf s x : b64_decode s = Some x -> wfb x.
Proof.
  unfold b64_decode. destruct (map_opt b64_val s) eqn:E; [|discriminate].
  apply b64_decode_vals_wf. eapply map_opt_b64_val_range; eauto.
Qed.

(* ================= compact serialization ================= *)

Lemma split_last_none s : split_last s = None <-> nodot s.
Proof.
  unfold nodot. induction s as [|c t IH]; simpl.
  - tauto.
  - destruct (split_last t) as [[a b]|] eqn:E.
    + split; [discriminate|]. intros H. exfalso. apply H. right.
      destruct (in_dec N.eq_dec dot t) as [I|I]; auto. apply IH in I. discriminate.
    + destruct (c =? dot) eqn:Ec.
      * split; [discriminate|]. intros H. exfalso. apply H. left. apply N.eqb_eq in Ec. auto.
      * split; [|reflexivity]. intros _ [H|H]; [apply N.eqb_neq in Ec; auto | apply IH in H; auto].
Qed.

Lemma split_last_spec s a b : split_last s = Some (a, b) <-> s = a ++ dot :: b /\ nodot b.
Proof.
  split.
  - revert a. induction s as [|c t IH]; simpl; intros a H; [discriminate|].
    destruct (split_last t) as [[a' b']|] eqn:E.
    + inversion H; subst. destruct (IH a' eq_refl) as [-> Hn]. split; auto.
    + destruct (c =? dot) eqn:Ec; [|discriminate]. inversion H; subst.
      apply N.eqb_eq in Ec. subst. split; auto. apply split_last_none. exact E.
  - intros [-> Hn]. induction a as [|c a IH]; simpl.
    + apply split_last_none in Hn. rewrite Hn. reflexivity.
    + rewrite IH. reflexivity.
Qed.

Lemma split_dots_nonempty s : split_dots s <> [].
Proof.
  destruct s as [|c t]; simpl; [discriminate|].
  destruct (c =? dot); [discriminate|]. destruct (split_dots t); discriminate.
Qed.

Lemma split_dots_nodot s : nodot s -> split_dots s = [s].
Proof.
  unfold nodot. induction s as [|c t IH]; simpl; intros H; [reflexivity|].
  destruct (c =? dot) eqn:Ec.
  - apply N.eqb_eq in Ec. exfalso. apply H. auto.
  - rewrite IH by tauto. reflexivity.
Qed.

Lemma split_dots_app h t : nodot h -> split_dots (h ++ dot :: t) = h :: split_dots t.
Proof.
  unfold nodot. induction h as [|c h IH]; simpl; intros H.
  - reflexivity.
  - destruct (c =? dot) eqn:Ec.
    + apply N.eqb_eq in Ec. exfalso. apply H. auto.
    + rewrite IH by tauto. reflexivity.
Qed.

Lemma split_dots_one t p : split_dots t = [p] -> t = p /\ nodot p.
Proof.
  unfold nodot. revert p. induction t as [|c t IH]; simpl; intros p H.
  - inversion H; subst. split; auto.
  - destruct (c =? dot) eqn:Ec.
    + inversion H. exfalso. eapply split_dots_nonempty; eauto.
    + destruct (split_dots t) as [|q r] eqn:E.
      * exfalso. eapply split_dots_nonempty; eauto.
      * inversion H; subst. destruct (IH q eq_refl) as [-> Hn]. split; auto.
        intros [I|I]; [apply N.eqb_neq in Ec; auto | auto].
Qed.

Lemma split_dots_two u h p :
  split_dots u = [h; p] <-> u = h ++ dot :: p /\ nodot h /\ nodot p.
Proof.
  split.
  - revert h. induction u as [|c t IH]; simpl; intros h H; [discriminate|].
    destruct (c =? dot) eqn:Ec.
    + inversion H; subst. apply N.eqb_eq in Ec. subst c.
      destruct (split_dots_one _ _ H2) as [-> Hn]. repeat split; auto. intros [].
    + destruct (split_dots t) as [|q r] eqn:E; [discriminate|].
      inversion H; subst. destruct (IH q eq_refl) as [-> [Hq Hp]]. repeat split; auto.
      intros [I|I]; [apply N.eqb_neq in Ec; auto | apply Hq; auto].
  - intros [-> [Hh Hp]]. rewrite split_dots_app by auto. rewrite split_dots_nodot by auto. reflexivity.
Qed.

Lemma split_dots_count u : length (split_dots u) = S (count_dots u).
Proof.
  induction u as [|c t IH]; simpl; [reflexivity|].
  destruct (c =? dot); simpl; [rewrite IH; reflexivity|].
  destruct (split_dots t) eqn:E; simpl in *; [discriminate|]. exact IH.
Qed.

Lemma count_dots_app a b : count_dots (a ++ b) = (count_dots a + count_dots b)%nat.
Proof. induction a as [|c a IH]; simpl; auto. destruct (c =? dot); simpl; rewrite IH; reflexivity. Qed.

Lemma count_dots_nodot s : nodot s -> count_dots s = O.
Proof.
  unfold nodot. induction s as [|c t IH]; simpl; intros H; auto.
  destruct (c =? dot) eqn:Ec; [apply N.eqb_eq in Ec; exfalso; apply H; auto | apply IH; tauto].
Qed.

Lemma split_signed_spec tok sg u :
  split_signed tok = Some (sg, u) <->
  exists s, tok = u ++ dot :: s /\ nodot s /\ b64_decode s = Some sg /\ sg <> [] /\ count_dots u = 1%nat.
Proof.
  unfold split_signed. split.
  - destruct (split_last tok) as [[u' s]|] eqn:E; [|discriminate].
    apply split_last_spec in E. destruct E as [-> Hn].
    destruct (b64_decode s) as [sg'|] eqn:Ed; [|discriminate].
    destruct sg' as [|x sg']; [discriminate|]. destruct u' as [|y u']; [discriminate|].
    destruct (Nat.eqb (count_dots (y :: u')) 1) eqn:Ec; [|discriminate].
    intros H; inversion H; subst. exists s. repeat split; auto; [discriminate | apply Nat.eqb_eq; auto].
  - intros [s [-> [Hn [Hd [Hs Hc]]]]].
    assert (E : split_last (u ++ dot :: s) = Some (u, s)) by (apply split_last_spec; auto).
    rewrite E, Hd. destruct sg as [|x sg]; [congruence|].
    destruct u as [|y u]; [discriminate|]. rewrite Hc. reflexivity.
Qed.

(* ================= lookups and reflection of the rules ================= *)

Lemma lookup_In k f v : lookup k f = Some v -> In (k, v) f.
Proof.
  induction f as [|[k' v'] f IH]; simpl; [discriminate|].
  destruct (beq k k') eqn:E.
  - intros H; inversion H; subst. apply beq_eq in E. subst. auto.
  - auto.
Qed.

Lemma has_lookup k f : has k f = true <-> lookup k f <> None.
Proof. unfold has, is_some. destruct (lookup k f); split; congruence. Qed.

Lemma has_false k f : has k f = false <-> lookup k f = None.
Proof. unfold has, is_some. destruct (lookup k f); split; congruence. Qed.

Lemma beq_false a b : beq a b = false <-> a <> b.
Proof.
  split; intros H.
  - intros ->. rewrite beq_refl in H. discriminate.
  - destruct (beq a b) eqn:E; auto. apply beq_eq in E. contradiction.
Qed.

Lemma extract_typ_spec hdr typ : extract_typ hdr = Some typ <-> typ_rule hdr typ.
Proof.
  unfold extract_typ, typ_rule.
  destruct (lookup s_typ hdr) as [[| | | s | |]|]; destruct typ; split; intros H; try congruence.
Qed.

Lemma validate_header_spec k hdr :
  validate_header hdr (kalg k) (fst (kid_args (kkid k))) (snd (kid_args (kkid k))) = true
  <-> header_rule k hdr.
Proof.
  unfold validate_header, header_rule, header_string, validate_kid, header_string.
  destruct (lookup s_alg hdr) as [[| | | a | |]|] eqn:Ea;
    try (split; [discriminate | intros [H _]; discriminate]).
  destruct (beq a (kalg k)) eqn:Eb; simpl.
  2:{ split; [discriminate|]. intros [H _]. inversion H; subst. rewrite beq_refl in Eb. discriminate. }
  apply beq_eq in Eb. subst a.
  destruct (has s_crit hdr) eqn:Ec.
  { split; [discriminate|]. intros [_ [H _]]. apply has_lookup in Ec. contradiction. }
  apply has_false in Ec.
  destruct (kkid k) as [id|c|]; simpl.
  - destruct (has s_kid hdr) eqn:Ek.
    + destruct (lookup s_kid hdr) as [[| | | s | |]|] eqn:El;
        try (split; [discriminate | intros [_ [_ H]]; discriminate]).
      split.
      * intros H. apply beq_eq in H. subst. auto.
      * intros [_ [_ H]]. inversion H; subst. apply beq_refl.
    + apply has_false in Ek. split; [discriminate|]. intros [_ [_ H]]. congruence.
  - destruct (has s_kid hdr) eqn:Ek.
    + apply has_lookup in Ek.
      destruct (lookup s_kid hdr) as [[| | | s | |]|] eqn:El; try congruence;
        try (split; [discriminate | intros [_ [_ [H|H]]]; discriminate]).
      split.
      * intros H. apply beq_eq in H. subst. auto.
      * intros [_ [_ [H|H]]]; [discriminate|]. inversion H; subst. apply beq_refl.
    + apply has_false in Ek. split; auto.
  - split; auto.
Qed.

Lemma valid_str_spec j : valid_str j = true <-> is_utf8_string j.
Proof.
  unfold valid_str, is_utf8_string. destruct j; split; intros H; try discriminate;
    try (destruct H as [s0 [H _]]; discriminate).
  - exists s; auto.
  - destruct H as [s0 [H U]]. inversion H; subst. auto.
Qed.

Lemma valid_time_spec j :
  valid_time j = true <-> exists t r, j = JNum t r /\ (0 <= t <= ts_max)%Z.
Proof.
  unfold valid_time. destruct j; split; intros H; try discriminate;
    try (destruct H as [t0 [r0 [H _]]]; discriminate).
  - exists t, repr. split; auto. lia.
  - destruct H as [t0 [r0 [H R]]]. inversion H; subst. lia.
Qed.

Lemma valid_aud_spec a :
  valid_aud a = true <->
  is_utf8_string a \/ exists l, a = JArr l /\ l <> [] /\ forall e, In e l -> is_utf8_string e.
Proof.
  unfold valid_aud. destruct a as [| | | s | l |];
    try (split; [discriminate | intros [[s0 [H _]]|[l0 [H _]]]; discriminate]).
  - rewrite <- (valid_str_spec (JStr s)). simpl. split; auto. intros [H|[l0 [H _]]]; [auto|discriminate].
  - split.
    + intros H. right. exists l. destruct l as [|e l]; [discriminate|].
      repeat split; [discriminate|]. intros e0 He. apply valid_str_spec.
      rewrite forallb_forall in H. auto.
    + intros [[s0 [H _]]|[l0 [H [Hne Hall]]]]; [discriminate|]. inversion H; subst l0.
      destruct l as [|e l]; [congruence|]. apply forallb_forall. intros e0 He. apply valid_str_spec. auto.
Qed.

Lemma is_str_claim_spec k : is_str_claim k = true <-> In k [s_iss; s_sub; s_jti].
Proof.
  unfold is_str_claim. rewrite !orb_true_iff, !beq_eq. simpl. intuition congruence.
Qed.

Lemma is_time_claim_spec k : is_time_claim k = true <-> In k [s_exp; s_nbf; s_iat].
Proof.
  unfold is_time_claim. rewrite !orb_true_iff, !beq_eq. simpl. intuition congruence.
Qed.

Lemma validate_payload_spec pl : validate_payload pl = true <-> payload_rule pl.
Proof.
  unfold validate_payload, payload_rule. rewrite andb_true_iff, forallb_forall. split.
  - intros [Ha Hf]. repeat split.
    + intros k v Hin Hk. specialize (Hf _ Hin). simpl in Hf. apply andb_true_iff in Hf. destruct Hf as [_ Hs].
      apply is_str_claim_spec in Hk. rewrite Hk in Hs. apply valid_str_spec. auto.
    + intros k v Hin Hk. specialize (Hf _ Hin). simpl in Hf. apply andb_true_iff in Hf. destruct Hf as [Ht _].
      apply is_time_claim_spec in Hk. rewrite Hk in Ht. apply valid_time_spec. auto.
    + intros a Hl. rewrite Hl in Ha. apply valid_aud_spec. auto.
  - intros [Hs [Ht Ha]]. split.
    + destruct (lookup s_aud pl) as [a|] eqn:E; auto. apply valid_aud_spec. auto.
    + intros [k v] Hin. simpl. apply andb_true_iff. split.
      * destruct (is_time_claim k) eqn:E; auto. apply valid_time_spec. apply (Ht k v Hin). apply is_time_claim_spec. auto.
      * destruct (is_str_claim k) eqn:E; auto. apply valid_str_spec. apply (Hs k v Hin). apply is_str_claim_spec. auto.
Qed.

Lemma new_validator_spec o v : new_validator o = Some v <-> options_rule o v.
Proof.
  unfold new_validator, options_rule, is_some.
  destruct (o_auds o) as [das|], (o_aud o) as [a|], (o_typ o) as [t|], (o_iss o) as [i|],
    (o_ign_typ o), (o_ign_iss o), (o_ign_aud o); simpl;
    try (split; [discriminate | intros H; exfalso; intuition congruence]);
    (destruct (o_skew o >? max_skew_ns)%Z eqn:Es;
     [split; [discriminate | intros H; exfalso; intuition lia]
     | split; [intros H; inversion H; subst; repeat split; try (intuition congruence); lia
              | intros H; f_equal; symmetry; intuition]]).
Qed.

(* validateFieldPresence: the full truth table *)
Lemma field_presence_table :
  forall ignore present expected,
    field_presence ignore present expected =
    if ignore then Some true
    else match expected, present with
         | false, false => Some true
         | true, true => Some false
         | _, _ => None
         end.
Proof. intros [] [] []; reflexivity. Qed.

Lemma payload_time_claim pl k j :
  payload_rule pl -> In k [s_exp; s_nbf; s_iat] -> lookup k pl = Some j ->
  exists t r, j = JNum t r /\ (0 <= t <= ts_max)%Z.
Proof. intros [_ [Ht _]] Hk Hl. apply lookup_In in Hl. eauto. Qed.

Lemma payload_str_claim pl k j :
  payload_rule pl -> In k [s_iss; s_sub; s_jti] -> lookup k pl = Some j -> is_utf8_string j.
Proof. intros [Hs _] Hk Hl. apply lookup_In in Hl. eauto. Qed.

Lemma exp_ok_spec v pl : payload_rule pl ->
  (exp_ok v pl = true <->
   (lookup s_exp pl = None -> o_allow_noexp v = true)
   /\ (forall t r, lookup s_exp pl = Some (JNum t r) -> (ns t > o_now v - o_skew v)%Z)).
Proof.
  intros P. unfold exp_ok. destruct (lookup s_exp pl) as [j|] eqn:E.
  - destruct (payload_time_claim pl s_exp j P (or_introl eq_refl) E) as [t [r [-> _]]].
    split.
    + intros H. split; [discriminate|]. intros t0 r0 H0. inversion H0; subst. lia.
    + intros [_ H]. specialize (H t r eq_refl). lia.
  - split; [intros H; split; auto; discriminate | intros [H _]; auto].
Qed.

Lemma nbf_ok_spec v pl : payload_rule pl ->
  (nbf_ok v pl = true <->
   forall t r, lookup s_nbf pl = Some (JNum t r) -> (ns t <= o_now v + o_skew v)%Z).
Proof.
  intros P. unfold nbf_ok. destruct (lookup s_nbf pl) as [j|] eqn:E.
  - destruct (payload_time_claim pl s_nbf j P (or_intror (or_introl eq_refl)) E) as [t [r [-> _]]].
    split.
    + intros H t0 r0 H0. inversion H0; subst. lia.
    + intros H. specialize (H t r eq_refl). lia.
  - split; [discriminate | reflexivity].
Qed.

Lemma iat_ok_spec v pl : payload_rule pl ->
  (iat_ok v pl = true <->
   (o_iat_past v = true ->
    exists t r, lookup s_iat pl = Some (JNum t r) /\ (ns t <= o_now v + o_skew v)%Z)).
Proof.
  intros P. unfold iat_ok. destruct (o_iat_past v).
  - destruct (lookup s_iat pl) as [j|] eqn:E.
    + destruct (payload_time_claim pl s_iat j P (or_intror (or_intror (or_introl eq_refl))) E) as [t [r [-> _]]].
      split.
      * intros H _. exists t, r. split; auto. lia.
      * intros H. destruct (H eq_refl) as [t0 [r0 [H0 H1]]]. inversion H0; subst. lia.
    + split; [discriminate|]. intros H. destruct (H eq_refl) as [t0 [r0 [H0 _]]]. discriminate.
  - split; [discriminate | reflexivity].
Qed.

Lemma validate_typ_spec v typ :
  validate_typ v typ = true <->
  presence_rule (o_ign_typ v) (o_typ v) (typ <> None) (fun e => typ = Some e).
Proof.
  unfold validate_typ, presence_rule. rewrite field_presence_table.
  destruct (o_ign_typ v); [split; auto|].
  destruct (o_typ v) as [e|], typ as [t|]; simpl.
  - rewrite beq_eq. split.
    + intros ->. right. split; auto. split; auto. discriminate.
    + intros [H|[_ [_ H]]]; [discriminate | congruence].
  - split; [discriminate|]. intros [H|[_ [H _]]]; [discriminate | congruence].
  - split; [discriminate|]. intros [H|[_ H]]; [discriminate|]. exfalso. apply H. discriminate.
  - split; [intros _; right; split; auto | auto].
Qed.

Lemma validate_iss_spec v pl : payload_rule pl ->
  (validate_iss v pl = true <->
   presence_rule (o_ign_iss v) (o_iss v) (lookup s_iss pl <> None)
     (fun e => lookup s_iss pl = Some (JStr e))).
Proof.
  intros P. unfold validate_iss, presence_rule, has, claim_str. rewrite field_presence_table.
  destruct (o_ign_iss v); [split; auto|].
  destruct (lookup s_iss pl) as [j|] eqn:E.
  - destruct (payload_str_claim pl s_iss j P (or_introl eq_refl) E) as [s [-> U]]; simpl.
    rewrite U. destruct (o_iss v) as [e|]; simpl.
    + rewrite beq_eq. split.
      * intros ->. right. split; auto. split; auto. discriminate.
      * intros [H|[_ [_ H]]]; [discriminate | congruence].
    + split; [discriminate|]. intros [H|[_ H]]; [discriminate|]. exfalso. apply H. discriminate.
  - simpl. destruct (o_iss v) as [e|]; simpl.
    + split; [discriminate|]. intros [H|[_ [H _]]]; [discriminate | congruence].
    + split; [intros _; right; split; auto | auto].
Qed.

Lemma existsb_beq_str e l :
  (forall x, In x l -> is_utf8_string x) ->
  (existsb (beq e) (map str_of l) = true <-> In (JStr e) l).
Proof.
  intros H. rewrite existsb_exists. split.
  - intros [s [Hin Hb]]. apply beq_eq in Hb. subst s. apply in_map_iff in Hin.
    destruct Hin as [j [Hj Hin]]. destruct (H j Hin) as [s [-> _]]. simpl in Hj. subst. exact Hin.
  - intros Hin. exists e. split; [|apply beq_refl]. apply in_map_iff. exists (JStr e). auto.
Qed.

Lemma validate_aud_spec v pl : payload_rule pl ->
  (validate_aud v pl = true <->
   presence_rule (o_ign_aud v) (o_aud v) (lookup s_aud pl <> None)
     (fun e => lookup s_aud pl = Some (JStr e)
               \/ exists l, lookup s_aud pl = Some (JArr l) /\ In (JStr e) l)).
Proof.
  intros [_ [_ Pa]]. unfold validate_aud, presence_rule, has, audiences. rewrite field_presence_table.
  destruct (o_ign_aud v); [split; auto|].
  destruct (lookup s_aud pl) as [a|] eqn:E.
  - destruct (Pa a eq_refl) as [[s [-> U]]|[l [-> [Hne Hall]]]]; simpl.
    + rewrite U. destruct (o_aud v) as [e|]; simpl.
      * rewrite orb_false_r, beq_eq. split.
        -- intros ->. right. split; auto. split; [discriminate | auto].
        -- intros [H|[_ [_ [H|[l [H _]]]]]]; try discriminate. congruence.
      * split; [discriminate|]. intros [H|[_ H]]; [discriminate|]. exfalso. apply H. discriminate.
    + assert (V : valid_aud (JArr l) = true).
      { apply valid_aud_spec. right. exists l. auto. }
      simpl in V. rewrite V. destruct (o_aud v) as [e|]; simpl.
      * unfold aud_loop. destruct l as [|x l]; [congruence|].
        cbn [map]. rewrite (existsb_beq_str e (x :: l) Hall). split.
        -- intros H. right. split; auto. split; [discriminate|]. right. exists (x :: l). auto.
        -- intros [H|[_ [_ [H|[l0 [H Hin]]]]]]; try discriminate. inversion H; subst. auto.
      * split; [discriminate|]. intros [H|[_ H]]; [discriminate|]. exfalso. apply H. discriminate.
  - simpl. destruct (o_aud v) as [e|]; simpl.
    + split; [discriminate|]. intros [H|[_ [H _]]]; [discriminate | congruence].
    + split; [intros _; right; split; auto | auto].
Qed.

Lemma validate_spec v typ pl : payload_rule pl ->
  (validate v (mkRaw typ pl) = true <-> validator_rule v typ pl).
Proof.
  intros P. unfold validate, validate_timestamps, validator_rule. simpl.
  rewrite !andb_true_iff, (exp_ok_spec v pl P), (nbf_ok_spec v pl P), (iat_ok_spec v pl P),
    validate_typ_spec, (validate_aud_spec v pl P), (validate_iss_spec v pl P).
  tauto.
Qed.

(* ================= the decision procedure equals the specification ================= *)

Section VerifyProofs.
  Variable sig_valid : N -> bytes -> bytes -> bool.
  Variable json_parse : bytes -> option fields.

  (* what a token determines independently of any key *)
  Definition parse_token (tok : bytes) : option (bytes * bytes * fields * rawjwt) :=
    match split_signed tok with
    | None => None
    | Some (sg, u) =>
      match split_dots u with
      | [h; p] =>
        match b64_decode h with
        | None => None
        | Some hb =>
          match json_parse hb with
          | None => None
          | Some hdr =>
            match extract_typ hdr with
            | None => None
            | Some typ =>
              match b64_decode p with
              | None => None
              | Some pb =>
                match json_parse pb with
                | None => None
                | Some pl => if validate_payload pl then Some (sg, u, hdr, mkRaw typ pl) else None
                end
              end
            end
          end
        end
      | _ => None
      end
    end.

  Lemma verify_key_parse k v tok r :
    verify_key sig_valid json_parse k v tok = VOk r <->
    exists sg u hdr,
      parse_token tok = Some (sg, u, hdr, r)
      /\ sig_valid (kref k) sg u = true
      /\ validate_header hdr (kalg k) (fst (kid_args (kkid k))) (snd (kid_args (kkid k))) = true
      /\ validate v r = true.
  Proof.
    unfold verify_key, parse_token, decode_unsigned.
    destruct (split_signed tok) as [[sg u]|];
      [|split; [discriminate | intros [? [? [? [H _]]]]; discriminate]].
    destruct (split_dots u) as [|h [|p [|q l]]];
      try (split; [destruct (sig_valid (kref k) sg u); discriminate | intros [? [? [? [H _]]]]; discriminate]).
    destruct (b64_decode h) as [hb|];
      [|split; [destruct (sig_valid (kref k) sg u); discriminate | intros [? [? [? [H _]]]]; discriminate]].
    destruct (json_parse hb) as [hdr|];
      [|split; [destruct (sig_valid (kref k) sg u); discriminate | intros [? [? [? [H _]]]]; discriminate]].
    destruct (extract_typ hdr) as [typ|];
      [|split; [destruct (sig_valid (kref k) sg u); [destruct (validate_header hdr (kalg k) (fst (kid_args (kkid k))) (snd (kid_args (kkid k))))|]; discriminate
               | intros [? [? [? [H _]]]]; discriminate]].
    destruct (b64_decode p) as [pb|];
      [|split; [destruct (sig_valid (kref k) sg u); [destruct (validate_header hdr (kalg k) (fst (kid_args (kkid k))) (snd (kid_args (kkid k))))|]; discriminate
               | intros [? [? [? [H _]]]]; discriminate]].
    destruct (json_parse pb) as [pl|];
      [|split; [destruct (sig_valid (kref k) sg u); [destruct (validate_header hdr (kalg k) (fst (kid_args (kkid k))) (snd (kid_args (kkid k))))|]; discriminate
               | intros [? [? [? [H _]]]]; discriminate]].
    destruct (validate_payload pl);
      [|split; [destruct (sig_valid (kref k) sg u); [destruct (validate_header hdr (kalg k) (fst (kid_args (kkid k))) (snd (kid_args (kkid k))))|]; discriminate
               | intros [? [? [? [H _]]]]; discriminate]].
    split.
    - destruct (sig_valid (kref k) sg u) eqn:Es; [|discriminate].
      destruct (validate_header hdr (kalg k) _ _) eqn:Eh; [|discriminate].
      destruct (validate v (mkRaw typ pl)) eqn:Ev; [|discriminate].
      intros H; inversion H; subst. exists sg, u, hdr. auto.
    - intros [sg' [u' [hdr' [H [Hs [Hh Hv]]]]]]. inversion H; subst.
      rewrite Hs, Hh, Hv. reflexivity.
  Qed.

  Lemma app_dot_assoc (h p s : bytes) : (h ++ dot :: p) ++ dot :: s = h ++ dot :: p ++ dot :: s.
  Proof. rewrite <- app_assoc. reflexivity. Qed.

  Lemma parse_token_spec tok sg u hdr r :
    parse_token tok = Some (sg, u, hdr, r) <->
    exists h p s hb pb,
      tok = h ++ dot :: p ++ dot :: s /\ nodot h /\ nodot p /\ nodot s
      /\ u = h ++ dot :: p
      /\ b64_decode s = Some sg /\ sg <> []
      /\ b64_decode h = Some hb /\ json_parse hb = Some hdr
      /\ b64_decode p = Some pb /\ json_parse pb = Some (r_payload r)
      /\ typ_rule hdr (r_typ r) /\ payload_rule (r_payload r).
  Proof.
    unfold parse_token. split.
    - destruct (split_signed tok) as [[sg' u']|] eqn:Es; [|discriminate].
      apply split_signed_spec in Es. destruct Es as [s [-> [Hns [Hd [Hne Hc]]]]].
      destruct (split_dots u') as [|h [|p [|q l]]] eqn:Ed; try discriminate.
      apply split_dots_two in Ed. destruct Ed as [-> [Hnh Hnp]].
      destruct (b64_decode h) as [hb|] eqn:Eh; [|discriminate].
      destruct (json_parse hb) as [hdr'|] eqn:Ej; [|discriminate].
      destruct (extract_typ hdr') as [typ|] eqn:Et; [|discriminate].
      destruct (b64_decode p) as [pb|] eqn:Ep; [|discriminate].
      destruct (json_parse pb) as [pl|] eqn:Ejp; [|discriminate].
      destruct (validate_payload pl) eqn:Ev; [|discriminate].
      intros H; inversion H; subst. exists h, p, s, hb, pb. simpl.
      rewrite app_dot_assoc. repeat split; auto.
      + apply extract_typ_spec. auto.
      + apply validate_payload_spec; auto.
      + apply validate_payload_spec; auto.
      + apply validate_payload_spec; auto.
    - intros [h [p [s [hb [pb [-> [Hnh [Hnp [Hns [-> [Hd [Hne [Eh [Ej [Ep [Ejp [Ht Hp]]]]]]]]]]]]]]]]].
      assert (Es : split_signed (h ++ dot :: p ++ dot :: s) = Some (sg, h ++ dot :: p)).
      { apply split_signed_spec. exists s. rewrite app_dot_assoc. repeat split; auto.
        rewrite count_dots_app. change (count_dots (dot :: p)) with (S (count_dots p)).
        rewrite (count_dots_nodot h Hnh), (count_dots_nodot p Hnp). reflexivity. }
      rewrite Es.
      assert (Ed : split_dots (h ++ dot :: p) = [h; p]) by (apply split_dots_two; auto).
      rewrite Ed, Eh, Ej.
      apply extract_typ_spec in Ht. rewrite Ht, Ep, Ejp.
      apply validate_payload_spec in Hp. rewrite Hp. destruct r; reflexivity.
  Qed.

  (* one key: VOk r  <->  the token parses to r, and signature, header rule and
     validator rules hold for this key *)
  Lemma verify_key_spec k v tok r :
    verify_key sig_valid json_parse k v tok = VOk r <->
    exists h p s sg hb pb hdr,
      tok = h ++ dot :: p ++ dot :: s /\ nodot h /\ nodot p /\ nodot s
      /\ b64_decode s = Some sg /\ sg <> []
      /\ b64_decode h = Some hb /\ json_parse hb = Some hdr
      /\ b64_decode p = Some pb /\ json_parse pb = Some (r_payload r)
      /\ sig_valid (kref k) sg (h ++ dot :: p) = true /\ header_rule k hdr
      /\ typ_rule hdr (r_typ r) /\ payload_rule (r_payload r)
      /\ validator_rule v (r_typ r) (r_payload r).
  Proof.
    rewrite verify_key_parse. split.
    - intros [sg [u [hdr [Hp [Hs [Hh Hv]]]]]].
      apply parse_token_spec in Hp.
      destruct Hp as [h [p [s [hb [pb [-> [Hnh [Hnp [Hns [-> [Hd [Hne [Eh [Ej [Ep [Ejp [Ht Hpl]]]]]]]]]]]]]]]]].
      assert (HR : header_rule k hdr) by (apply validate_header_spec; auto).
      assert (VR : validator_rule v (r_typ r) (r_payload r)).
      { destruct r as [typ pl]. apply (validate_spec v typ pl Hpl). auto. }
      exists h, p, s, sg, hb, pb, hdr.
      split; [reflexivity|]. do 9 (split; [assumption|]). split; [assumption|].
      split; [assumption|]. split; [assumption|]. split; assumption.
    - intros [h [p [s [sg [hb [pb [hdr [-> [Hnh [Hnp [Hns [Hd [Hne [Eh [Ej [Ep [Ejp [Hs [Hh [Ht [Hpl Hv]]]]]]]]]]]]]]]]]]]]].
      exists sg, (h ++ dot :: p), hdr. split; [|split; [assumption|split]].
      + apply parse_token_spec. exists h, p, s, hb, pb.
        split; [reflexivity|]. do 3 (split; [assumption|]). split; [reflexivity|].
        do 6 (split; [assumption|]). split; assumption.
      + apply validate_header_spec; auto.
      + destruct r as [typ pl]. apply (validate_spec v typ pl Hpl). auto.
  Qed.

  (* the result does not depend on which key accepted *)
  Lemma verify_key_deterministic k1 k2 v tok r1 r2 :
    verify_key sig_valid json_parse k1 v tok = VOk r1 ->
    verify_key sig_valid json_parse k2 v tok = VOk r2 -> r1 = r2.
  Proof.
    rewrite !verify_key_parse.
    intros [sg1 [u1 [h1 [H1 _]]]] [sg2 [u2 [h2 [H2 _]]]]. congruence.
  Qed.

  Lemma verify_loop_spec keys v tok i r :
    verify_loop sig_valid json_parse keys v tok i = VOk r <->
    exists k, In k keys /\ kenabled k = true /\ verify_key sig_valid json_parse k v tok = VOk r.
  Proof.
    revert i. induction keys as [|k keys IH]; intros i; simpl.
    - destruct i; split; try discriminate; intros [k [[] _]].
    - destruct (kenabled k) eqn:Ek.
      + destruct (verify_key sig_valid json_parse k v tok) as [r'| |] eqn:Ev.
        * split.
          -- intros H; inversion H; subst. exists k. auto.
          -- intros [k' [[->|Hin] [Hen Hv]]]; [congruence|].
             f_equal. eapply verify_key_deterministic; eauto.
        * rewrite IH. split.
          -- intros [k' [Hin H]]. exists k'. auto.
          -- intros [k' [[->|Hin] [Hen Hv]]]; [congruence | exists k'; auto].
        * rewrite IH. split.
          -- intros [k' [Hin H]]. exists k'. auto.
          -- intros [k' [[->|Hin] [Hen Hv]]]; [congruence | exists k'; auto].
      + rewrite IH. split.
        * intros [k' [Hin H]]. exists k'. auto.
        * intros [k' [[->|Hin] [Hen Hv]]]; [congruence | exists k'; auto].
  Qed.

  (* MAIN: the decision procedure accepts exactly the specification *)
  Theorem verify_iff_accepts keys o tok r :
    verify sig_valid json_parse keys o tok = Some (VOk r) <->
    accepts sig_valid json_parse keys o tok r.
  Proof.
    unfold verify, accepts. split.
    - destruct (new_validator o) as [v|] eqn:Ev; [|discriminate].
      intros H. inversion H as [H1]. apply verify_loop_spec in H1.
      destruct H1 as [k [Hin [Hen Hk]]]. apply verify_key_spec in Hk.
      destruct Hk as [h [p [s [sg [hb [pb [hdr [-> [Hnh [Hnp [Hns [Hd [Hne [Eh [Ej [Ep [Ejp [Hs [Hh [Ht [Hpl Hv]]]]]]]]]]]]]]]]]]]]].
      exists v. split; [apply new_validator_spec; auto|].
      exists h, p, s, sg, hb, pb, hdr.
      split; [reflexivity|]. do 9 (split; [assumption|]).
      split; [exists k; auto|]. split; [assumption|]. split; assumption.
    - intros [v [Ho [h [p [s [sg [hb [pb [hdr H]]]]]]]]].
      destruct H as [-> [Hnh [Hnp [Hns [Hd [Hne [Eh [Ej [Ep [Ejp [Hk [Ht [Hpl Hv]]]]]]]]]]]]].
      destruct Hk as [k [Hin [Hen [Hs Hh]]]].
      apply new_validator_spec in Ho. rewrite Ho. f_equal.
      apply verify_loop_spec. exists k. split; [assumption|]. split; [assumption|].
      apply verify_key_spec. exists h, p, s, sg, hb, pb, hdr.
      split; [reflexivity|]. do 9 (split; [assumption|]). split; [assumption|].
      split; [assumption|]. split; [assumption|]. split; assumption.
  Qed.

  (* NewValidator refuses the options: nothing is verified *)
  Lemma verify_badopts keys o tok :
    verify sig_valid json_parse keys o tok = None <-> new_validator o = None.
  Proof. unfold verify. destruct (new_validator o); split; congruence. Qed.

  (* disabled keys never matter *)
  Lemma verify_loop_enabled_only keys v tok r :
    verify_loop sig_valid json_parse keys v tok false = VOk r <->
    verify_loop sig_valid json_parse (filter kenabled keys) v tok false = VOk r.
  Proof.
    rewrite !verify_loop_spec. split; intros [k [Hin [Hen Hv]]]; exists k; repeat split; auto.
    - apply filter_In. auto.
    - apply filter_In in Hin. tauto.
  Qed.
End VerifyProofs.

(* ================= boundaries ================= *)

Lemma exp_boundary v pl t r : lookup s_exp pl = Some (JNum t r) ->
  (ns t = o_now v - o_skew v -> exp_ok v pl = false)%Z
  /\ (ns t = o_now v - o_skew v + 1 -> exp_ok v pl = true)%Z.
Proof. intros H. unfold exp_ok. rewrite H. split; intros E; lia. Qed.

Lemma nbf_boundary v pl t r : lookup s_nbf pl = Some (JNum t r) ->
  (ns t = o_now v + o_skew v -> nbf_ok v pl = true)%Z
  /\ (ns t = o_now v + o_skew v + 1 -> nbf_ok v pl = false)%Z.
Proof. intros H. unfold nbf_ok. rewrite H. split; intros E; lia. Qed.

Lemma iat_boundary v pl t r : o_iat_past v = true -> lookup s_iat pl = Some (JNum t r) ->
  (ns t = o_now v + o_skew v -> iat_ok v pl = true)%Z
  /\ (ns t = o_now v + o_skew v + 1 -> iat_ok v pl = false)%Z.
Proof. intros P H. unfold iat_ok. rewrite P, H. split; intros E; lia. Qed.

(* whole seconds: clock at second n, skew of s seconds *)
Lemma exp_boundary_seconds v pl t r n s :
  lookup s_exp pl = Some (JNum t r) -> o_now v = ns n -> o_skew v = ns s ->
  (t = n - s -> exp_ok v pl = false)%Z /\ (t = n - s + 1 -> exp_ok v pl = true)%Z.
Proof. intros H Hn Hs. unfold exp_ok. rewrite H, Hn, Hs. unfold ns. split; intros E; lia. Qed.

Lemma nbf_boundary_seconds v pl t r n s :
  lookup s_nbf pl = Some (JNum t r) -> o_now v = ns n -> o_skew v = ns s ->
  (t = n + s -> nbf_ok v pl = true)%Z /\ (t = n + s + 1 -> nbf_ok v pl = false)%Z.
Proof. intros H Hn Hs. unfold nbf_ok. rewrite H, Hn, Hs. unfold ns. split; intros E; lia. Qed.

Lemma iat_boundary_seconds v pl t r n s :
  o_iat_past v = true -> lookup s_iat pl = Some (JNum t r) -> o_now v = ns n -> o_skew v = ns s ->
  (t = n + s -> iat_ok v pl = true)%Z /\ (t = n + s + 1 -> iat_ok v pl = false)%Z.
Proof. intros P H Hn Hs. unfold iat_ok. rewrite P, H, Hn, Hs. unfold ns. split; intros E; lia. Qed.

(* a failing time check rejects the token whatever the keys *)
Lemma time_check_rejects sig_valid json_parse keys o v tok r :
  new_validator o = Some v ->
  verify sig_valid json_parse keys o tok = Some (VOk r) ->
  exp_ok v (r_payload r) = true /\ nbf_ok v (r_payload r) = true /\ iat_ok v (r_payload r) = true.
Proof.
  intros Ho H. apply verify_iff_accepts in H. destruct H as [v' [Ho' [h [p [s [sg [hb [pb [hdr H]]]]]]]]].
  apply new_validator_spec in Ho'. assert (v' = v) by congruence. subst v'.
  destruct H as [_ [_ [_ [_ [_ [_ [_ [_ [_ [_ [_ [_ [Hpl Hv]]]]]]]]]]]]].
  destruct Hv as [E1 [E2 [N1 [I1 _]]]].
  rewrite (exp_ok_spec v _ Hpl), (nbf_ok_spec v _ Hpl), (iat_ok_spec v _ Hpl). auto.
Qed.

(* clock skew: NewValidator accepts exactly skews up to 10 minutes *)
Lemma skew_limit o : (o_skew o > 600000000000)%Z -> new_validator o = None.
Proof.
  intros H. destruct (new_validator o) as [v|] eqn:E; auto.
  apply new_validator_spec in E. destruct E as [_ [_ [_ [_ [S _]]]]]. unfold max_skew_ns in S. lia.
Qed.

(* ================= JWK export / import ================= *)

Lemma jwk_key_header_rule k hdr : header_rule k hdr -> header_rule (jwk_key k) hdr.
Proof.
  unfold header_rule, jwk_key. intros [A [C K]].
  destruct (kkid k) as [id|c|] eqn:E; simpl; rewrite ?E; auto.
Qed.

Theorem jwk_roundtrip_preserves sig_valid json_parse keys o tok r :
  verify sig_valid json_parse keys o tok = Some (VOk r) ->
  verify sig_valid json_parse (jwk_roundtrip keys) o tok = Some (VOk r).
Proof.
  rewrite !verify_iff_accepts. unfold accepts.
  intros [v [Ho [h [p [s [sg [hb [pb [hdr H]]]]]]]]].
  destruct H as [-> [Hnh [Hnp [Hns [Hd [Hne [Eh [Ej [Ep [Ejp [Hk [Ht [Hpl Hv]]]]]]]]]]]]].
  destruct Hk as [k [Hin [Hen [Hs Hh]]]].
  exists v. split; [assumption|]. exists h, p, s, sg, hb, pb, hdr.
  split; [reflexivity|]. do 9 (split; [assumption|]).
  split; [|split; [assumption|split; assumption]].
  exists (jwk_key k). split.
  - unfold jwk_roundtrip. apply in_map. apply filter_In. auto.
  - split; [destruct (kkid k) eqn:E; unfold jwk_key; rewrite E; reflexivity|].
    split; [destruct (kkid k) eqn:E; unfold jwk_key; rewrite E; exact Hs|].
    apply jwk_key_header_rule. assumption.
Qed.

(* ================= NewRawJWT and the encode -> verify round trip ================= *)

Lemma new_raw_jwt_payload_rule o r :
  new_raw_jwt o = Some r -> r_typ r = ro_typ o /\ payload_rule (r_payload r).
Proof.
  unfold new_raw_jwt. destruct (create_payload o) as [p|]; [|discriminate].
  destruct (validate_payload p) eqn:E; [|discriminate].
  intros H; inversion H; subst. simpl. split; auto. apply validate_payload_spec. auto.
Qed.

Lemma encode_header_rule k r hdr pl :
  encode_parts k r = Some (hdr, pl) ->
  pl = r_payload r /\ header_rule k hdr /\ typ_rule hdr (r_typ r)
  /\ json_utf8 (JObj hdr) = true /\ json_utf8 (JObj pl) = true.
Proof.
  unfold encode_parts, header_rule, typ_rule.
  destruct (kkid k) as [id|c|] eqn:Ek; simpl kid_args; cbv iota beta;
    match goal with |- context [if ?c then _ else _] => destruct c eqn:Eu end; try discriminate;
      intros H; inversion H; subst; clear H; apply andb_true_iff in Eu; destruct Eu as [U1 U2];
        (split; [reflexivity|]); (split; [|split; [|split; assumption]]);
          destruct (r_typ r) as [t|]; simpl; auto.
Qed.

Section RoundTrip.
  Variable sig_valid : N -> bytes -> bytes -> bool.
  Variable json_parse : bytes -> option fields.
  Variable json_print : fields -> bytes.
  Variable sign : N -> bytes -> bytes.

  (* the laws are only needed for the header, the payload and the signed text
     of the token at hand *)
  Theorem encode_verify_roundtrip_local keys k o v ro r hdr pl tok :
    new_raw_jwt ro = Some r ->
    In k keys -> kenabled k = true ->
    encode_parts k r = Some (hdr, pl) ->
    encode json_print sign k r = Some tok ->
    json_parse (json_print hdr) = Some hdr -> json_parse (json_print pl) = Some pl ->
    wfb (json_print hdr) -> wfb (json_print pl) ->
    (forall m, wfb (sign (kref k) m) /\ sign (kref k) m <> [] /\ sig_valid (kref k) (sign (kref k) m) m = true) ->
    new_validator o = Some v -> validate v r = true ->
    verify sig_valid json_parse keys o tok = Some (VOk r).
  Proof.
    intros Hraw Hin Hen Ep Henc Ph Pp Wh Wp Hsign Ho Hval.
    apply new_raw_jwt_payload_rule in Hraw. destruct Hraw as [_ Hpl].
    unfold encode in Henc. rewrite Ep in Henc.
    apply encode_header_rule in Ep. destruct Ep as [-> [Hh [Ht [U1 U2]]]].
    inversion Henc as [Htok]. clear Henc.
    apply verify_iff_accepts. exists v. split; [apply new_validator_spec; assumption|].
    set (h := b64_encode (json_print hdr)). set (p := b64_encode (json_print (r_payload r))).
    destruct (Hsign (h ++ [dot] ++ p)) as [Sw [Sn Sv]].
    exists h, p, (b64_encode (sign (kref k) (h ++ [dot] ++ p))), (sign (kref k) (h ++ [dot] ++ p)),
      (json_print hdr), (json_print (r_payload r)), hdr.
    split; [simpl; rewrite <- app_assoc; reflexivity|].
    split; [apply b64_encode_nodot|]. split; [apply b64_encode_nodot|]. split; [apply b64_encode_nodot|].
    split; [apply b64_decode_encode; assumption|]. split; [assumption|].
    split; [apply b64_decode_encode; assumption|]. split; [assumption|].
    split; [apply b64_decode_encode; assumption|]. split; [assumption|].
    split; [exists k; repeat split; auto; try apply Hh|].
    split; [assumption|]. split; [assumption|].
    destruct r as [typ pl]. apply (validate_spec v typ pl Hpl). assumption.
  Qed.

  Hypothesis print_parse : forall f, json_utf8 (JObj f) = true -> json_parse (json_print f) = Some f.
  Hypothesis print_wf : forall f, wfb (json_print f).
  Hypothesis sign_verifies : forall kr m, sig_valid kr (sign kr m) m = true.
  Hypothesis sign_wf : forall kr m, wfb (sign kr m).
  Hypothesis sign_nonempty : forall kr m, sign kr m <> [].

  Theorem encode_verify_roundtrip keys k o v ro r tok :
    new_raw_jwt ro = Some r ->
    In k keys -> kenabled k = true ->
    encode json_print sign k r = Some tok ->
    new_validator o = Some v -> validate v r = true ->
    verify sig_valid json_parse keys o tok = Some (VOk r).
  Proof.
    intros Hraw Hin Hen Henc Ho Hval.
    destruct (encode_parts k r) as [[hdr pl]|] eqn:Ep;
      [|unfold encode in Henc; rewrite Ep in Henc; discriminate].
    destruct (encode_header_rule _ _ _ _ Ep) as [_ [_ [_ [U1 U2]]]].
    eapply encode_verify_roundtrip_local; eauto.
  Qed.
End RoundTrip.

(* ================= NewRawJWT: every option becomes exactly its claim ================= *)

Lemma lookup_set_field k k' v f :
  lookup k (set_field k' v f) = if beq k k' then Some v else lookup k f.
Proof.
  induction f as [|[k0 v0] f IH]; simpl.
  - destruct (beq k k'); reflexivity.
  - destruct (beq k' k0) eqn:E0; simpl.
    + apply beq_eq in E0. subst k0. destruct (beq k k'); reflexivity.
    + destruct (beq k k0) eqn:E1.
      * apply beq_eq in E1. subst k0. destruct (beq k k') eqn:E2; auto.
        apply beq_eq in E2. subst. rewrite beq_refl in E0. discriminate.
      * exact IH.
Qed.

Lemma lookup_set_opt k k' o f :
  lookup k (set_opt k' o f) =
  if beq k k' then match o with Some v => Some v | None => lookup k f end else lookup k f.
Proof.
  unfold set_opt. destruct o; [apply lookup_set_field|]. destruct (beq k k'); reflexivity.
Qed.

Definition set_all (cc p : fields) : fields :=
  fold_left (fun p kv => set_field (fst kv) (snd kv) p) cc p.

Lemma lookup_set_all_other k cc p : ~ In k (map fst cc) -> lookup k (set_all cc p) = lookup k p.
Proof.
  unfold set_all. revert p. induction cc as [|[k0 v0] cc IH]; simpl; intros p H; auto.
  rewrite IH by tauto. rewrite lookup_set_field.
  destruct (beq k k0) eqn:E; auto. apply beq_eq in E. subst. tauto.
Qed.

Lemma lookup_set_all_in k v cc p :
  NoDup (map fst cc) -> In (k, v) cc -> lookup k (set_all cc p) = Some v.
Proof.
  unfold set_all. revert p. induction cc as [|[k0 v0] cc IH]; simpl; intros p N H; [tauto|].
  inversion N as [|? ? Hn N']; subst. destruct H as [H|H].
  - inversion H; subst. fold (set_all cc (set_field k v p)). rewrite lookup_set_all_other by assumption.
    rewrite lookup_set_field, beq_refl. reflexivity.
  - apply IH; assumption.
Qed.

Lemma not_registered_in (cc : fields) k :
  existsb (fun kv => is_registered (fst kv)) cc = false -> is_registered k = true -> ~ In k (map fst cc).
Proof.
  intros H R Hin. apply in_map_iff in Hin. destruct Hin as [[k0 v0] [E Hin]]. simpl in E. subst k0.
  assert (X : existsb (fun kv => is_registered (fst kv)) cc = true).
  { apply existsb_exists. exists (k, v0). auto. }
  congruence.
Qed.

Theorem new_raw_jwt_claims o r :
  new_raw_jwt o = Some r ->
  let cc := match ro_custom o with None => [] | Some c => c end in
  let pl := r_payload r in
  r_typ r = ro_typ o
  /\ lookup s_iss pl = jstr (ro_iss o) /\ lookup s_sub pl = jstr (ro_sub o) /\ lookup s_jti pl = jstr (ro_jti o)
  /\ lookup s_iat pl = jtime (ro_iat o) /\ lookup s_exp pl = jtime (ro_exp o) /\ lookup s_nbf pl = jtime (ro_nbf o)
  /\ lookup s_aud pl = match ro_auds o with
                       | Some l => Some (JArr (map JStr l))
                       | None => jstr (ro_aud o)
                       end
  /\ (forall k v, NoDup (map fst cc) -> In (k, v) cc -> lookup k pl = Some v)
  /\ (forall k, is_registered k = false -> ~ In k (map fst cc) -> lookup k pl = None)
  /\ (is_some (ro_exp o) = negb (ro_noexp o))
  /\ payload_rule pl.
Proof.
  intros H cc pl. pose proof (new_raw_jwt_payload_rule _ _ H) as [Ht Hp].
  unfold new_raw_jwt in H. destruct (create_payload o) as [p|] eqn:Ec; [|discriminate].
  destruct (validate_payload p); [|discriminate]. inversion H; subst r. simpl in pl. subst pl.
  unfold create_payload in Ec. fold cc in Ec.
  destruct (existsb (fun kv => is_registered (fst kv)) cc) eqn:Er; [discriminate|].
  destruct (negb (is_some (ro_exp o)) && negb (ro_noexp o)) eqn:E1; [discriminate|].
  destruct (is_some (ro_exp o) && ro_noexp o) eqn:E2; [discriminate|].
  destruct (is_some (ro_aud o) && is_some (ro_auds o)) eqn:E3; [discriminate|].
  destruct (forallb (fun kv => json_utf8 (snd kv)) cc); [|discriminate].
  inversion Ec as [Ep]. clear Ec. simpl in Hp. subst p.
  match goal with |- context [fold_left ?f cc ?q] => change (fold_left f cc q) with (set_all cc q) end.
  match type of Hp with context [fold_left ?f cc ?q] => change (fold_left f cc q) with (set_all cc q) in Hp end.
  assert (R : forall k, is_registered k = true -> ~ In k (map (@fst bytes json) cc)) by (intros; eapply not_registered_in; eauto).
  assert (L : forall k, is_registered k = true ->
              forall q, lookup k (set_all cc q) = lookup k q).
  { intros k Hk q. apply lookup_set_all_other. apply R. assumption. }
  split; [assumption|].
  split; [rewrite L by reflexivity; rewrite !lookup_set_opt; simpl; destruct (ro_iss o); reflexivity|].
  split; [rewrite L by reflexivity; rewrite !lookup_set_opt; simpl; destruct (ro_sub o); reflexivity|].
  split; [rewrite L by reflexivity; rewrite !lookup_set_opt; simpl; destruct (ro_jti o); reflexivity|].
  split; [rewrite L by reflexivity; rewrite !lookup_set_opt; simpl; destruct (ro_iat o); reflexivity|].
  split; [rewrite L by reflexivity; rewrite !lookup_set_opt; simpl; destruct (ro_exp o); reflexivity|].
  split; [rewrite L by reflexivity; rewrite !lookup_set_opt; simpl; destruct (ro_nbf o); reflexivity|].
  split.
  { rewrite L by reflexivity. rewrite !lookup_set_opt. simpl.
    destruct (ro_auds o), (ro_aud o); simpl in *; try reflexivity; discriminate. }
  split; [intros k v N Hin; apply lookup_set_all_in; assumption|].
  split.
  { intros k Hk Hn. rewrite lookup_set_all_other by assumption.
    unfold is_registered, is_str_claim, is_time_claim in Hk.
    repeat match goal with H : (_ || _) = false |- _ => apply orb_false_iff in H; destruct H end.
    repeat (rewrite lookup_set_opt;
            match goal with H : beq k ?x = false |- context [beq k ?x] => rewrite H end).
    reflexivity. }
  split; [|exact Hp].
  destruct (ro_exp o), (ro_noexp o); simpl in *; congruence.
Qed.

(* ================= corollaries ================= *)

Lemma decomp_unique h p s h' p' s' :
  h ++ dot :: p ++ dot :: s = h' ++ dot :: p' ++ dot :: s' ->
  nodot h -> nodot p -> nodot s -> nodot h' -> nodot p' -> nodot s' ->
  h = h' /\ p = p' /\ s = s'.
Proof.
  intros E Hh Hp Hs Hh' Hp' Hs'.
  rewrite <- !app_dot_assoc in E.
  assert (A : split_last ((h ++ dot :: p) ++ dot :: s) = Some (h ++ dot :: p, s)) by (apply split_last_spec; auto).
  assert (B : split_last ((h' ++ dot :: p') ++ dot :: s') = Some (h' ++ dot :: p', s')) by (apply split_last_spec; auto).
  rewrite E in A. rewrite A in B. inversion B as [[E1 E2]].
  assert (C : split_dots (h ++ dot :: p) = [h; p]) by (apply split_dots_two; auto).
  assert (D : split_dots (h' ++ dot :: p') = [h'; p']) by (apply split_dots_two; auto).
  rewrite E1 in C. rewrite C in D. inversion D. auto.
Qed.

Section Corollaries.
  Variable sig_valid : N -> bytes -> bytes -> bool.
  Variable json_parse : bytes -> option fields.

  (* adding keys to a keyset never turns an accepted token into a rejected one *)
  Lemma verify_monotone keys extra1 extra2 o tok r :
    verify sig_valid json_parse keys o tok = Some (VOk r) ->
    verify sig_valid json_parse (extra1 ++ keys ++ extra2) o tok = Some (VOk r).
  Proof.
    rewrite !verify_iff_accepts. unfold accepts.
    intros [v [Ho [h [p [s [sg [hb [pb [hdr H]]]]]]]]].
    destruct H as [-> [Hnh [Hnp [Hns [Hd [Hne [Eh [Ej [Ep [Ejp [Hk [Ht [Hpl Hv]]]]]]]]]]]]].
    destruct Hk as [k [Hin Hk]].
    exists v. split; [assumption|]. exists h, p, s, sg, hb, pb, hdr.
    split; [reflexivity|]. do 9 (split; [assumption|]).
    split; [|split; [assumption|split; assumption]].
    exists k. split; [|assumption]. apply in_or_app. right. apply in_or_app. left. assumption.
  Qed.

  (* what an accepted token's header says: the algorithm of an enabled key of
     the keyset, no crit *)
  Lemma accepted_header keys o tok r h p s hb hdr :
    verify sig_valid json_parse keys o tok = Some (VOk r) ->
    tok = h ++ dot :: p ++ dot :: s -> nodot h -> nodot p -> nodot s ->
    b64_decode h = Some hb -> json_parse hb = Some hdr ->
    lookup s_crit hdr = None
    /\ exists k, In k keys /\ kenabled k = true /\ lookup s_alg hdr = Some (JStr (kalg k)).
  Proof.
    intros H -> Hh Hp Hs Hd Hj. apply verify_iff_accepts in H.
    destruct H as [v [Ho [h' [p' [s' [sg [hb' [pb [hdr' H]]]]]]]]].
    destruct H as [E [Hnh [Hnp [Hns [Hd' [Hne [Eh [Ej [Ep [Ejp [Hk [Ht [Hpl Hv]]]]]]]]]]]]].
    destruct (decomp_unique _ _ _ _ _ _ E Hh Hp Hs Hnh Hnp Hns) as [<- [<- <-]].
    assert (hb' = hb) by congruence. subst hb'. assert (hdr' = hdr) by congruence. subst hdr'.
    destruct Hk as [k [Hin [Hen [_ [Ha [Hc _]]]]]]. split; [assumption|]. exists k. auto.
  Qed.

  (* alg confusion: a header naming an algorithm that no enabled key has
     (e.g. "none", or HS256 against an RSA keyset) is never accepted *)
  Lemma foreign_alg_rejected keys o tok r h p s hb hdr a :
    tok = h ++ dot :: p ++ dot :: s -> nodot h -> nodot p -> nodot s ->
    b64_decode h = Some hb -> json_parse hb = Some hdr ->
    lookup s_alg hdr = Some (JStr a) ->
    (forall k, In k keys -> kenabled k = true -> kalg k <> a) ->
    verify sig_valid json_parse keys o tok <> Some (VOk r).
  Proof.
    intros E Hh Hp Hs Hd Hj Ha Hno H.
    destruct (accepted_header _ _ _ _ _ _ _ _ _ H E Hh Hp Hs Hd Hj) as [_ [k [Hin [Hen Hk]]]].
    rewrite Ha in Hk. inversion Hk. eapply Hno; eauto.
  Qed.

  Lemma crit_rejected keys o tok r h p s hb hdr c :
    tok = h ++ dot :: p ++ dot :: s -> nodot h -> nodot p -> nodot s ->
    b64_decode h = Some hb -> json_parse hb = Some hdr ->
    lookup s_crit hdr = Some c ->
    verify sig_valid json_parse keys o tok <> Some (VOk r).
  Proof.
    intros E Hh Hp Hs Hd Hj Hc H.
    destruct (accepted_header _ _ _ _ _ _ _ _ _ H E Hh Hp Hs Hd Hj) as [Hn _]. congruence.
  Qed.

  (* a token whose signature part is empty is never accepted *)
  Lemma empty_signature_rejected keys o u r :
    verify sig_valid json_parse keys o (u ++ [dot]) <> Some (VOk r).
  Proof.
    intros H. apply verify_iff_accepts in H.
    destruct H as [v [Ho [h [p [s [sg [hb [pb [hdr H]]]]]]]]].
    destruct H as [E [Hnh [Hnp [Hns [Hd [Hne _]]]]]].
    rewrite <- app_dot_assoc in E.
    assert (A : split_last (u ++ [dot]) = Some (u, [])) by (apply split_last_spec; split; [reflexivity | intros []]).
    assert (B : split_last ((h ++ dot :: p) ++ dot :: s) = Some (h ++ dot :: p, s)) by (apply split_last_spec; auto).
    rewrite <- E in B. rewrite A in B. inversion B; subst s. inversion Hd. congruence.
  Qed.

  (* the error class: VOther (a validation error, e.g. "token has expired")
     iff no enabled key accepts and some enabled key fails only at validation *)
  Lemma verify_loop_other keys v tok i :
    verify_loop sig_valid json_parse keys v tok i = VOther <->
    (forall k r, In k keys -> kenabled k = true -> verify_key sig_valid json_parse k v tok <> VOk r)
    /\ (i = true \/ exists k, In k keys /\ kenabled k = true
                              /\ verify_key sig_valid json_parse k v tok = VOther).
  Proof.
    revert i. induction keys as [|k keys IH]; intros i; simpl.
    - destruct i; split; try discriminate; auto.
      + intros [_ [H|[k [[] _]]]]; discriminate.
    - destruct (kenabled k) eqn:Ek.
      + destruct (verify_key sig_valid json_parse k v tok) as [r'| |] eqn:Ev.
        * split; [discriminate|]. intros [H _]. exfalso. apply (H k r'); auto.
        * rewrite IH. split.
          -- intros [H1 H2]. split.
             ++ intros k' r' [->|Hin] Hen; [congruence | apply H1; auto].
             ++ destruct H2 as [H2|[k' [Hin H2]]]; [auto | right; exists k'; auto].
          -- intros [H1 H2]. split.
             ++ intros k' r' Hin Hen. apply H1; auto.
             ++ destruct H2 as [H2|[k' [[->|Hin] [Hen H2]]]]; [auto | congruence | right; exists k'; auto].
        * rewrite IH. split.
          -- intros [H1 _]. split.
             ++ intros k' r' [->|Hin] Hen; [congruence | apply H1; auto].
             ++ right. exists k. auto.
          -- intros [H1 _]. split; [intros k' r' Hin Hen; apply H1; auto | auto].
      + rewrite IH. split.
        * intros [H1 H2]. split.
          -- intros k' r' [->|Hin] Hen; [congruence | apply H1; auto].
          -- destruct H2 as [H2|[k' [Hin H2]]]; [auto | right; exists k'; auto].
        * intros [H1 H2]. split.
          -- intros k' r' Hin Hen. apply H1; auto.
          -- destruct H2 as [H2|[k' [[->|Hin] [Hen H2]]]]; [auto | congruence | right; exists k'; auto].
  Qed.
End Corollaries.

(* ================= which accepted strings are canonical ================= *)

(* the unused low bits of a final 2- or 3-character group are zero *)
Fixpoint b64_canonical_vals (v : list N) : bool :=
  match v with
  | [] => true
  | [_] => false
  | [a; b] => b mod 16 =? 0
  | [a; b; c] => c mod 4 =? 0
  | a :: b :: c :: d :: t => b64_canonical_vals t
  end.

Definition b64_canonical (s : bytes) : bool :=
  match map_opt b64_val s with Some v => b64_canonical_vals v | None => false end.

Lemma b64_char_inj u w : u < 64 -> w < 64 -> b64_char u = b64_char w -> u = w.
Proof.
  intros Hu Hw E. apply b64_val_char in Hu. apply b64_val_char in Hw. rewrite E in Hu. congruence.
Qed.

Lemma map_opt_cons_inv {A B} (f : A -> option B) s y r :
  map_opt f s = Some (y :: r) -> exists c s', s = c :: s' /\ f c = Some y /\ map_opt f s' = Some r.
Proof.
  destruct s as [|c s']; simpl; [discriminate|].
  destruct (f c) eqn:E; [|discriminate]. destruct (map_opt f s') eqn:E2; [|discriminate].
  intros H; inversion H; subst. exists c, s'. auto.
Qed.

Lemma map_opt_nil_inv {A B} (f : A -> option B) s : map_opt f s = Some [] -> s = [].
Proof.
  destruct s as [|c s']; simpl; auto. destruct (f c); [|discriminate]. destruct (map_opt f s'); discriminate.
Qed.

Lemma b64_reencode_vals v : forall s x,
  map_opt b64_val s = Some v -> b64_decode_vals v = Some x ->
  (b64_encode x = s <-> b64_canonical_vals v = true).
Proof.
  induction v as [|a|a b|a b c|a b c d t IH] using list_ind4; intros s x Hs Hx.
  - apply map_opt_nil_inv in Hs. subst. inversion Hx; subst. simpl. tauto.
  - discriminate.
  - apply map_opt_cons_inv in Hs. destruct Hs as [c1 [s1 [-> [V1 Hs]]]].
    apply map_opt_cons_inv in Hs. destruct Hs as [c2 [s2 [-> [V2 Hs]]]].
    apply map_opt_nil_inv in Hs. subst s2.
    apply b64_char_val in V1. destruct V1 as [<- A1]. apply b64_char_val in V2. destruct V2 as [<- A2].
    inversion Hx; subst x. cbn [b64_encode b64_canonical_vals].
    replace ((a * 4 + b / 16) / 4) with a by lia.
    replace ((a * 4 + b / 16) mod 4 * 16) with (b / 16 * 16) by lia.
    split.
    + intros E. inversion E as [E2]. apply b64_char_inj in E2; lia.
    + intros E. replace (b / 16 * 16) with b by lia. reflexivity.
  - apply map_opt_cons_inv in Hs. destruct Hs as [c1 [s1 [-> [V1 Hs]]]].
    apply map_opt_cons_inv in Hs. destruct Hs as [c2 [s2 [-> [V2 Hs]]]].
    apply map_opt_cons_inv in Hs. destruct Hs as [c3 [s3 [-> [V3 Hs]]]].
    apply map_opt_nil_inv in Hs. subst s3.
    apply b64_char_val in V1. destruct V1 as [<- A1]. apply b64_char_val in V2. destruct V2 as [<- A2].
    apply b64_char_val in V3. destruct V3 as [<- A3].
    inversion Hx; subst x. cbn [b64_encode b64_canonical_vals].
    replace ((a * 4 + b / 16) / 4) with a by lia.
    replace ((a * 4 + b / 16) mod 4 * 16 + (b mod 16 * 16 + c / 4) / 16) with b by lia.
    replace ((b mod 16 * 16 + c / 4) mod 16 * 4) with (c / 4 * 4) by lia.
    split.
    + intros E. inversion E as [E3]. apply b64_char_inj in E3; lia.
    + intros E. replace (c / 4 * 4) with c by lia. reflexivity.
  - apply map_opt_cons_inv in Hs. destruct Hs as [c1 [s1 [-> [V1 Hs]]]].
    apply map_opt_cons_inv in Hs. destruct Hs as [c2 [s2 [-> [V2 Hs]]]].
    apply map_opt_cons_inv in Hs. destruct Hs as [c3 [s3 [-> [V3 Hs]]]].
    apply map_opt_cons_inv in Hs. destruct Hs as [c4 [s4 [-> [V4 Hs]]]].
    apply b64_char_val in V1. destruct V1 as [<- A1]. apply b64_char_val in V2. destruct V2 as [<- A2].
    apply b64_char_val in V3. destruct V3 as [<- A3]. apply b64_char_val in V4. destruct V4 as [<- A4].
    cbn [b64_decode_vals] in Hx. destruct (b64_decode_vals t) as [r|] eqn:Er; [|discriminate].
    inversion Hx; subst x. cbn [b64_encode b64_canonical_vals].
    replace ((a * 4 + b / 16) / 4) with a by lia.
    replace ((a * 4 + b / 16) mod 4 * 16 + (b mod 16 * 16 + c / 4) / 16) with b by lia.
    replace ((b mod 16 * 16 + c / 4) mod 16 * 4 + (c mod 4 * 64 + d) / 64) with c by lia.
    replace ((c mod 4 * 64 + d) mod 64) with d by lia.
    rewrite <- (IH s4 r Hs eq_refl). split; [intros E; inversion E; reflexivity | intros ->; reflexivity].
Qed.

(* an accepted string re-encodes to itself iff it is canonical: so distinct
   accepted strings with the same decoding exist exactly among the
   non-canonical ones *)
Lemma b64_reencode s x : b64_decode s = Some x -> (b64_encode x = s <-> b64_canonical s = true).
Proof.
  unfold b64_decode, b64_canonical. destruct (map_opt b64_val s) as [v|] eqn:E; [|discriminate].
  intros H. eapply b64_reencode_vals; eauto.
Qed.
