(* Second round of proofs about model/Sig.v (audit items C03 a, b, c):

   (a) the RSA fixed-length rule: crypto/rsa compares len(sig) with the modulus
       length in bytes before anything else ([std_pkcs1], [std_pss]); every
       other length is rejected for every key, a produced signature has
       exactly that length, [rsa_sig_len] is (BitLen + 7) / 8;
   (b) explicit rejection theorems for Ed25519 and RSA: missing / wrong
       prefix, other prefix id or variant, trailing and truncated bytes, the
       LEGACY suffix on Sign and on Verify;
   (c) "modified message / other key": proofs/SigProofs3.v (repaired after the
       second audit).

   All four Tink verifiers have the same frame: prefix check, strip, then a
   check of (body, message || legacy suffix); the generic part is proved once
   for [framed_verify]. *)
From Coq Require Import List NArith ZArith Bool Lia Arith ZifyBool ZifyNat ZifyN.
From Tink Require Import Bytes DER DERProofs Sig SigProofs.
Import ListNotations.
Open Scope N_scope.

(* ------------------------------------------------------------------ *)
(* rsa_sig_len: the modulus length in bytes                             *)

Lemma be_min_length_iff x k :
  (0 < k)%nat ->
  (length (be_min x) = k <-> 256 ^ N.of_nat (k - 1) <= x /\ x < 256 ^ N.of_nat k).
Proof.
  intros Hk. split.
  - intros Hl. pose proof (be_val_be_min x) as E. pose proof (be_min_hd_nz x) as Hn.
    pose proof (be_min_wf x) as Hw. pose proof (be_val_bound _ Hw) as Hb.
    rewrite E, Hl in Hb. split; [|exact Hb].
    destruct (be_min x) as [|y t]; [cbn in Hl; lia|].
    apply hd_nz_cons in Hn. pose proof (be_val_lower y t Hn) as L. rewrite E in L.
    cbn [length] in Hl. replace (k - 1)%nat with (length t) by lia. exact L.
  - intros [Hlo Hhi]. pose proof (be_min_length_bound x k Hhi) as Hle.
    destruct (Nat.eq_dec (length (be_min x)) k) as [Heq|Hne]; [exact Heq|exfalso].
    assert (Hlt : (length (be_min x) <= k - 1)%nat) by lia.
    pose proof (be_val_bound _ (be_min_wf x)) as Hb. rewrite be_val_be_min in Hb.
    assert (Hp : 256 ^ N.of_nat (length (be_min x)) <= 256 ^ N.of_nat (k - 1))
      by (apply N.pow_le_mono_r; lia).
    lia.
Qed.

Lemma rsa_sig_len_spec n k :
  (0 < k)%nat ->
  (rsa_sig_len n = k <-> 256 ^ N.of_nat (k - 1) <= be_val n /\ be_val n < 256 ^ N.of_nat k).
Proof. intros Hk. unfold rsa_sig_len. apply be_min_length_iff. exact Hk. Qed.

Lemma rsa_sig_len_zero n : rsa_sig_len n = 0%nat <-> be_val n = 0.
Proof.
  unfold rsa_sig_len. split.
  - intros Hl. apply be_min_nil. destruct (be_min (be_val n)); [reflexivity|discriminate].
  - intros ->. reflexivity.
Qed.

(* rsa.PublicKey.Size() = (N.BitLen() + 7) / 8 *)
Lemma rsa_sig_len_bits n : rsa_sig_len n = N.to_nat ((N.size (be_val n) + 7) / 8).
Proof.
  set (x := be_val n).
  destruct (N.eq_dec x 0) as [Hz|Hnz].
  - assert (E : rsa_sig_len n = 0%nat) by (apply rsa_sig_len_zero; exact Hz).
    rewrite E, Hz. reflexivity.
  - set (sz := N.size x). set (q := (sz + 7) / 8).
    assert (Hsz : 0 < sz).
    { unfold sz. destruct x; [contradiction|]. cbn. lia. }
    pose proof (N.div_mod (sz + 7) 8 ltac:(lia)) as Hdm. fold q in Hdm.
    pose proof (N.mod_lt (sz + 7) 8 ltac:(lia)) as Hml.
    assert (Hq : 0 < q) by lia.
    assert (Hgoal : rsa_sig_len n = N.to_nat q); [|exact Hgoal].
    apply rsa_sig_len_spec; [lia|]. fold x.
    pose proof (N.size_gt x) as G. pose proof (N.size_le x) as L. fold sz in G, L.
    rewrite N.succ_double_spec in L.
    replace (N.of_nat (N.to_nat q - 1)) with (q - 1) by lia. rewrite N2Nat.id.
    rewrite !pow256_2. split.
    + assert (Hp : 2 ^ (8 * (q - 1) + 1) <= 2 ^ sz) by (apply N.pow_le_mono_r; lia).
      rewrite N.pow_add_r in Hp. change (2 ^ 1) with 2 in Hp. lia.
    + assert (Hp : 2 ^ sz <= 2 ^ (8 * q)) by (apply N.pow_le_mono_r; lia). lia.
Qed.

(* a modulus handed over as minimal big-endian bytes: its byte length *)
Lemma rsa_sig_len_minimal n : wfb n -> hd_nz n -> rsa_sig_len n = length n.
Proof. intros Hw Hn. unfold rsa_sig_len. rewrite be_min_be_val by assumption. reflexivity. Qed.

(* leading zero bytes of the modulus encoding do not count (big.Int.SetBytes) *)
Lemma rsa_sig_len_lead0 n : rsa_sig_len (0 :: n) = rsa_sig_len n.
Proof. unfold rsa_sig_len. rewrite be_val_cons. reflexivity. Qed.

(* keys the constructors accept have at least 256-byte signatures *)
Lemma rsa_key_ok_sig_len n e : rsa_key_ok n e = true -> (256 <= rsa_sig_len n)%nat.
Proof.
  unfold rsa_key_ok. rewrite andb_true_iff, N.leb_le. intros [Hs _].
  change 2048 with (2047 + 1) in Hs. apply size_ge_iff in Hs.
  destruct (le_lt_dec 256 (rsa_sig_len n)) as [Hok|Hlt]; [exact Hok|exfalso].
  destruct (Nat.eq_dec (rsa_sig_len n) 0) as [Hz|Hnz].
  - apply rsa_sig_len_zero in Hz. rewrite Hz in Hs.
    pose proof (pow256_pos 255) as Hp. change (2 ^ 2047) with (256 ^ 255 * 128) in Hs. lia.
  - assert (Hpos : (0 < rsa_sig_len n)%nat) by lia.
    pose proof (proj1 (rsa_sig_len_spec n (rsa_sig_len n) Hpos) eq_refl) as [_ Hhi].
    assert (Hp : 256 ^ N.of_nat (rsa_sig_len n) <= 256 ^ 255) by (apply N.pow_le_mono_r; lia).
    pose proof (pow256_pos 255) as Hp2. change (2 ^ 2047) with (256 ^ 255 * 128) in Hs. lia.
Qed.

(* ------------------------------------------------------------------ *)
(* the common frame of the four verifiers                               *)

Definition framed_verify (v : variant) (id : N) (chk : bytes -> bytes -> bool)
    (sig msg : bytes) : outcome unit :=
  let p := prefix v id in
  if negb (has_prefix p sig) then Err
  else bind (strip p sig) (fun raw => if chk raw (msg ++ suffix v) then Ok tt else Err).

(* [chk] accepts only bodies of one length *)
Definition fixed_len (chk : bytes -> bytes -> bool) (L : nat) : Prop :=
  forall b m, chk b m = true -> length b = L.

Lemma framed_ok_iff v id chk sig msg :
  framed_verify v id chk sig msg = Ok tt <->
  exists body, sig = prefix v id ++ body /\ chk body (msg ++ suffix v) = true.
Proof.
  unfold framed_verify. split.
  - destruct (has_prefix (prefix v id) sig) eqn:Hp; [|discriminate]. cbn [negb].
    apply has_prefix_true in Hp. destruct Hp as [t ->]. rewrite strip_app. cbn [bind].
    destruct (chk t (msg ++ suffix v)) eqn:Hc; [|discriminate]. intros _. exists t. auto.
  - intros [body [-> Hc]]. rewrite has_prefix_app. cbn [negb]. rewrite strip_app. cbn [bind].
    rewrite Hc. reflexivity.
Qed.

Lemma framed_total v id chk sig msg :
  framed_verify v id chk sig msg = Ok tt \/ framed_verify v id chk sig msg = Err.
Proof.
  unfold framed_verify.
  destruct (has_prefix (prefix v id) sig) eqn:Hp; [|right; reflexivity]. cbn [negb].
  apply has_prefix_true in Hp. destruct Hp as [t ->]. rewrite strip_app. cbn [bind].
  destruct (chk t (msg ++ suffix v)); [left|right]; reflexivity.
Qed.

Lemma framed_not_ok_err v id chk sig msg :
  framed_verify v id chk sig msg <> Ok tt -> framed_verify v id chk sig msg = Err.
Proof. intros Hn. destruct (framed_total v id chk sig msg) as [Ho|He]; [contradiction|exact He]. Qed.

Lemma framed_no_prefix v id chk sig msg :
  (forall t, sig <> prefix v id ++ t) -> framed_verify v id chk sig msg = Err.
Proof.
  intros Hn. apply framed_not_ok_err. intros Ho. apply framed_ok_iff in Ho.
  destruct Ho as [body [-> _]]. eapply Hn. reflexivity.
Qed.

Lemma framed_wrong_length v id chk L sig msg :
  fixed_len chk L -> length sig <> (length (prefix v id) + L)%nat ->
  framed_verify v id chk sig msg = Err.
Proof.
  intros Hf Hl. apply framed_not_ok_err. intros Ho. apply framed_ok_iff in Ho.
  destruct Ho as [body [-> Hc]]. apply Hf in Hc. rewrite app_length in Hl. lia.
Qed.

Lemma framed_accepted_length v id chk L sig msg :
  fixed_len chk L -> framed_verify v id chk sig msg = Ok tt ->
  length sig = (length (prefix v id) + L)%nat.
Proof.
  intros Hf Ho. destruct (Nat.eq_dec (length sig) (length (prefix v id) + L)) as [E|E]; [exact E|].
  rewrite (framed_wrong_length v id chk L sig msg Hf E) in Ho. discriminate.
Qed.

(* accepted under one prefix => rejected under every other prefix (other
   variant start byte, other key id, RAW vs non-RAW in both directions),
   whatever key and message are used on the other side *)
Lemma framed_other_prefix v id chk v' id' chk' L sig msg msg' :
  fixed_len chk L -> fixed_len chk' L ->
  framed_verify v id chk sig msg = Ok tt ->
  prefix v id <> prefix v' id' ->
  framed_verify v' id' chk' sig msg' = Err.
Proof.
  intros Hf Hf' Ho Hp. apply framed_not_ok_err. intros Ho'.
  pose proof (framed_accepted_length _ _ _ _ _ _ Hf Ho) as L1.
  pose proof (framed_accepted_length _ _ _ _ _ _ Hf' Ho') as L2.
  apply framed_ok_iff in Ho, Ho'. destruct Ho as [b [E _]]. destruct Ho' as [b' [E' _]].
  apply Hp. rewrite E in E'.
  assert (Hl : length (prefix v id) = length (prefix v' id')) by lia.
  pose proof (f_equal (firstn (length (prefix v id))) E') as F.
  rewrite firstn_app, Nat.sub_diag, firstn_all, firstn_O, app_nil_r in F.
  rewrite F, Hl.
  rewrite firstn_app, Nat.sub_diag, firstn_all, firstn_O, app_nil_r. reflexivity.
Qed.

Lemma framed_trailing v id chk L sig msg t :
  fixed_len chk L -> framed_verify v id chk sig msg = Ok tt -> t <> [] ->
  framed_verify v id chk (sig ++ t) msg = Err.
Proof.
  intros Hf Ho Ht. pose proof (framed_accepted_length _ _ _ _ _ _ Hf Ho) as L1.
  eapply framed_wrong_length; [exact Hf|]. rewrite app_length.
  destruct t; [contradiction|]. cbn [length]. lia.
Qed.

Lemma framed_truncated v id chk L sig msg j :
  fixed_len chk L -> framed_verify v id chk sig msg = Ok tt -> (j < length sig)%nat ->
  framed_verify v id chk (firstn j sig) msg = Err /\
  framed_verify v id chk (skipn (length sig - j) sig) msg = Err.
Proof.
  intros Hf Ho Hj. pose proof (framed_accepted_length _ _ _ _ _ _ Hf Ho) as L1.
  split; (eapply framed_wrong_length; [exact Hf|]).
  - rewrite firstn_length. lia.
  - rewrite skipn_length. lia.
Qed.

Lemma framed_legacy id chk sig msg :
  framed_verify VLegacy id chk sig msg = framed_verify VCrunchy id chk sig (msg ++ [0]).
Proof. unfold framed_verify. cbn [prefix suffix]. rewrite app_nil_r. reflexivity. Qed.

(* a framed genuine body that is accepted (by any check) was accepted as such *)
Lemma framed_genuine_body v id chk body msg :
  framed_verify v id chk (frame v id body) msg = Ok tt -> chk body (msg ++ suffix v) = true.
Proof.
  intros Ho. apply framed_ok_iff in Ho. destruct Ho as [b [E Hc]].
  unfold frame in E. apply app_inv_head in E. subst b. exact Hc.
Qed.

(* ------------------------------------------------------------------ *)
(* the prefixes                                                         *)

Lemma be_bytes4_inj x y : x < 4294967296 -> y < 4294967296 -> be_bytes 4 x = be_bytes 4 y -> x = y.
Proof.
  intros Hx Hy E. apply (f_equal be_val) in E. rewrite !be_val_be_bytes in E.
  change (256 ^ N.of_nat 4) with 4294967296 in E. rewrite !N.mod_small in E by assumption. exact E.
Qed.

Definition start_byte (v : variant) : option N :=
  match v with VTink => Some 1 | VCrunchy | VLegacy => Some 0 | VRaw => None end.

(* two keys have the same output prefix exactly when they have the same start
   byte and (for non-RAW) the same 32-bit key id *)
Lemma prefix_eq_iff v id v' id' :
  id < 4294967296 -> id' < 4294967296 ->
  (prefix v id = prefix v' id' <->
   start_byte v = start_byte v' /\ (v <> VRaw -> id = id')).
Proof.
  intros Hi Hi'. split.
  - intros E.
    assert (Hid : v <> VRaw -> v' <> VRaw -> id = id').
    { intros Hv Hv'. destruct v, v'; cbn [prefix] in E; try discriminate E; try contradiction;
        apply (f_equal (@tl N)) in E; cbn [tl] in E; apply be_bytes4_inj; assumption. }
    destruct v, v'; cbn [prefix] in E; try discriminate E;
      (split; [reflexivity|intros Hn; try contradiction; apply Hid; discriminate]).
  - intros [Hs Hid]. destruct v, v'; cbn [start_byte] in Hs; try discriminate Hs; cbn [prefix];
      try (rewrite Hid by discriminate; reflexivity). reflexivity.
Qed.

(* ------------------------------------------------------------------ *)
(* the four verifiers are instances of the frame                        *)

Definition ed_chk (ed_raw : bytes -> bytes -> bytes -> bool) (pub : bytes) : bytes -> bytes -> bool :=
  fun raw m => Nat.eqb (length raw) 64 && ed_raw pub m raw.
Definition pkcs1_chk (H : hasht -> bytes -> bytes) (pkcs1_raw : bytes -> N -> hasht -> bytes -> bytes -> bool)
    (k : rsa_key) : bytes -> bytes -> bool :=
  fun raw m => pkcs1_raw (rk_n k) (rk_e k) (rk_hash k) (H (rk_hash k) m) raw.
Definition pss_chk (H : hasht -> bytes -> bytes) (pss_raw : bytes -> N -> hasht -> N -> bytes -> bytes -> bool)
    (k : rsa_key) : bytes -> bytes -> bool :=
  fun raw m => pss_raw (rk_n k) (rk_e k) (rk_hash k) (rk_salt k) (H (rk_hash k) m) raw.

Lemma ed25519_is_framed ed_raw v id pub sig msg :
  ed25519_verify ed_raw v id pub sig msg = framed_verify v id (ed_chk ed_raw pub) sig msg.
Proof.
  unfold ed25519_verify, framed_verify, ed_chk.
  destruct (negb (has_prefix (prefix v id) sig)); [reflexivity|].
  destruct (strip (prefix v id) sig) as [raw| |]; cbn [bind]; try reflexivity.
  destruct (Nat.eqb (length raw) 64); reflexivity.
Qed.

Lemma pkcs1_is_framed H pkcs1_raw k sig msg :
  pkcs1_verify H pkcs1_raw k sig msg =
  framed_verify (rk_variant k) (rk_id k) (pkcs1_chk H pkcs1_raw k) sig msg.
Proof. reflexivity. Qed.

Lemma pss_is_framed H pss_raw k sig msg :
  pss_verify H pss_raw k sig msg =
  framed_verify (rk_variant k) (rk_id k) (pss_chk H pss_raw k) sig msg.
Proof. reflexivity. Qed.

Lemma ed_chk_fixed ed_raw pub : fixed_len (ed_chk ed_raw pub) 64.
Proof.
  intros b m Hc. unfold ed_chk in Hc. apply andb_true_iff in Hc. destruct Hc as [Hl _].
  apply Nat.eqb_eq. exact Hl.
Qed.

Lemma pkcs1_chk_fixed H core k : fixed_len (pkcs1_chk H (std_pkcs1 core) k) (rsa_sig_len (rk_n k)).
Proof.
  intros b m Hc. unfold pkcs1_chk, std_pkcs1 in Hc. apply andb_true_iff in Hc. destruct Hc as [Hl _].
  apply Nat.eqb_eq. exact Hl.
Qed.

Lemma pss_chk_fixed H core k : fixed_len (pss_chk H (std_pss core) k) (rsa_sig_len (rk_n k)).
Proof.
  intros b m Hc. unfold pss_chk, std_pss in Hc. apply andb_true_iff in Hc. destruct Hc as [Hl _].
  apply Nat.eqb_eq. exact Hl.
Qed.

(* ------------------------------------------------------------------ *)
(* (a) RSA: the fixed-length rule                                       *)

Section RsaLen.
  Variable H : hasht -> bytes -> bytes.
  Variable pkcs1_core : bytes -> N -> hasht -> bytes -> bytes -> bool.
  Variable pss_core : bytes -> N -> hasht -> N -> bytes -> bytes -> bool.

  (* exact acceptance sets with the length made explicit *)
  Theorem rsa_std_verify_iff k sig msg :
    (pkcs1_verify H (std_pkcs1 pkcs1_core) k sig msg = Ok tt <->
     exists body, sig = prefix (rk_variant k) (rk_id k) ++ body /\
       length body = rsa_sig_len (rk_n k) /\
       pkcs1_core (rk_n k) (rk_e k) (rk_hash k) (H (rk_hash k) (msg ++ suffix (rk_variant k))) body = true) /\
    (pss_verify H (std_pss pss_core) k sig msg = Ok tt <->
     exists body, sig = prefix (rk_variant k) (rk_id k) ++ body /\
       length body = rsa_sig_len (rk_n k) /\
       pss_core (rk_n k) (rk_e k) (rk_hash k) (rk_salt k)
                (H (rk_hash k) (msg ++ suffix (rk_variant k))) body = true).
  Proof.
    split.
    - rewrite pkcs1_verify_iff_proof. unfold std_pkcs1. split.
      + intros [body [E Hc]]. apply andb_true_iff in Hc. destruct Hc as [Hl Hc].
        apply Nat.eqb_eq in Hl. exists body. auto.
      + intros [body [E [Hl Hc]]]. exists body. split; [exact E|].
        apply andb_true_iff. split; [apply Nat.eqb_eq; exact Hl|exact Hc].
    - rewrite pss_verify_iff_proof. unfold std_pss. split.
      + intros [body [E Hc]]. apply andb_true_iff in Hc. destruct Hc as [Hl Hc].
        apply Nat.eqb_eq in Hl. exists body. auto.
      + intros [body [E [Hl Hc]]]. exists body. split; [exact E|].
        apply andb_true_iff. split; [apply Nat.eqb_eq; exact Hl|exact Hc].
  Qed.

  (* every byte string whose length is not |prefix| + modulus length is
     rejected, for every key, message and core verification *)
  Theorem rsa_wrong_length_rejected k sig msg :
    length sig <> (length (prefix (rk_variant k) (rk_id k)) + rsa_sig_len (rk_n k))%nat ->
    pkcs1_verify H (std_pkcs1 pkcs1_core) k sig msg = Err /\
    pss_verify H (std_pss pss_core) k sig msg = Err.
  Proof.
    intros Hl. rewrite pkcs1_is_framed, pss_is_framed. split.
    - eapply framed_wrong_length; [apply pkcs1_chk_fixed|exact Hl].
    - eapply framed_wrong_length; [apply pss_chk_fixed|exact Hl].
  Qed.

  (* the same, in the form "after the output prefix" *)
  Theorem rsa_wrong_body_length_rejected k body msg :
    length body <> rsa_sig_len (rk_n k) ->
    pkcs1_verify H (std_pkcs1 pkcs1_core) k (prefix (rk_variant k) (rk_id k) ++ body) msg = Err /\
    pss_verify H (std_pss pss_core) k (prefix (rk_variant k) (rk_id k) ++ body) msg = Err.
  Proof.
    intros Hl. apply rsa_wrong_length_rejected. rewrite app_length. lia.
  Qed.

  (* in particular the zero-stripped form of a signature that starts with a
     zero byte (the integer it denotes is unchanged) is rejected, and so is a
     zero-extended one *)
  Theorem rsa_zero_stripped_or_padded_rejected k body msg :
    pkcs1_verify H (std_pkcs1 pkcs1_core) k (prefix (rk_variant k) (rk_id k) ++ 0 :: body) msg = Ok tt \/
    pss_verify H (std_pss pss_core) k (prefix (rk_variant k) (rk_id k) ++ 0 :: body) msg = Ok tt ->
    be_val (0 :: body) = be_val body /\
    pkcs1_verify H (std_pkcs1 pkcs1_core) k (prefix (rk_variant k) (rk_id k) ++ body) msg = Err /\
    pss_verify H (std_pss pss_core) k (prefix (rk_variant k) (rk_id k) ++ body) msg = Err /\
    pkcs1_verify H (std_pkcs1 pkcs1_core) k (prefix (rk_variant k) (rk_id k) ++ 0 :: 0 :: body) msg = Err /\
    pss_verify H (std_pss pss_core) k (prefix (rk_variant k) (rk_id k) ++ 0 :: 0 :: body) msg = Err.
  Proof.
    intros Ho.
    assert (Hl : length (0 :: body) = rsa_sig_len (rk_n k)).
    { destruct Ho as [Ho|Ho]; apply rsa_std_verify_iff in Ho; destruct Ho as [b [E [Hl _]]];
        apply app_inv_head in E; subst b; exact Hl. }
    cbn [length] in Hl.
    split; [rewrite be_val_cons; lia|].
    split; [apply rsa_wrong_body_length_rejected; lia|].
    split; [apply rsa_wrong_body_length_rejected; lia|].
    split; apply rsa_wrong_body_length_rejected; cbn [length]; lia.
  Qed.

  (* Sign: a produced signature is prefix || body with |body| = modulus length,
     for every signing oracle whose outputs the standard verification accepts *)
  Variable pkcs1_sign_raw : bytes -> hasht -> bytes -> bytes.
  Variable pss_sign_raw : bytes -> hasht -> N -> bytes -> bytes -> bytes.
  Variable rsa_pub_of : bytes -> bytes * N.

  Theorem rsa_sign_length k sk rnd msg :
    (forall sk h d, std_pkcs1 pkcs1_core (fst (rsa_pub_of sk)) (snd (rsa_pub_of sk)) h d (pkcs1_sign_raw sk h d) = true) ->
    (forall sk h salt d rnd,
        std_pss pss_core (fst (rsa_pub_of sk)) (snd (rsa_pub_of sk)) h salt d (pss_sign_raw sk h salt d rnd) = true) ->
    (rk_n k, rk_e k) = rsa_pub_of sk ->
    (exists body, pkcs1_sign H pkcs1_sign_raw k sk msg = prefix (rk_variant k) (rk_id k) ++ body /\
                  length body = rsa_sig_len (rk_n k)) /\
    (exists body, pss_sign H pss_sign_raw k sk rnd msg = prefix (rk_variant k) (rk_id k) ++ body /\
                  length body = rsa_sig_len (rk_n k)) /\
    length (pkcs1_sign H pkcs1_sign_raw k sk msg) =
      ((match rk_variant k with VRaw => 0 | _ => 5 end) + rsa_sig_len (rk_n k))%nat /\
    length (pss_sign H pss_sign_raw k sk rnd msg) =
      ((match rk_variant k with VRaw => 0 | _ => 5 end) + rsa_sig_len (rk_n k))%nat.
  Proof.
    intros L1 L2 Hpub.
    assert (Hn : rk_n k = fst (rsa_pub_of sk)) by (rewrite <- Hpub; reflexivity).
    assert (B1 : forall h d, length (pkcs1_sign_raw sk h d) = rsa_sig_len (rk_n k)).
    { intros h d. specialize (L1 sk h d). unfold std_pkcs1 in L1. apply andb_true_iff in L1.
      destruct L1 as [L1 _]. apply Nat.eqb_eq in L1. rewrite Hn. exact L1. }
    assert (B2 : forall h s d r, length (pss_sign_raw sk h s d r) = rsa_sig_len (rk_n k)).
    { intros h s d r. specialize (L2 sk h s d r). unfold std_pss in L2. apply andb_true_iff in L2.
      destruct L2 as [L2 _]. apply Nat.eqb_eq in L2. rewrite Hn. exact L2. }
    unfold pkcs1_sign, pss_sign, frame.
    split; [eexists; split; [reflexivity|apply B1]|].
    split; [eexists; split; [reflexivity|apply B2]|].
    rewrite !app_length, prefix_length, B1, B2. split; reflexivity.
  Qed.
End RsaLen.

(* ------------------------------------------------------------------ *)
(* (b) explicit rejections, Ed25519                                     *)

Section Ed.
  Variable ed_raw : bytes -> bytes -> bytes -> bool.

  Theorem ed25519_no_prefix_rejected v id pub sig msg :
    (forall t, sig <> prefix v id ++ t) -> ed25519_verify ed_raw v id pub sig msg = Err.
  Proof. intros Hn. rewrite ed25519_is_framed. apply framed_no_prefix. exact Hn. Qed.

  Theorem ed25519_wrong_length_rejected v id pub sig msg :
    length sig <> (length (prefix v id) + 64)%nat -> ed25519_verify ed_raw v id pub sig msg = Err.
  Proof.
    intros Hl. rewrite ed25519_is_framed. eapply framed_wrong_length; [apply ed_chk_fixed|exact Hl].
  Qed.

  Theorem ed25519_other_prefix_rejected v id pub v' id' pub' sig msg msg' :
    ed25519_verify ed_raw v id pub sig msg = Ok tt ->
    prefix v id <> prefix v' id' ->
    ed25519_verify ed_raw v' id' pub' sig msg' = Err.
  Proof.
    rewrite !ed25519_is_framed. intros Ho Hp.
    eapply framed_other_prefix; [apply ed_chk_fixed|apply ed_chk_fixed|exact Ho|exact Hp].
  Qed.

  Theorem ed25519_trailing_truncated_rejected v id pub sig msg :
    ed25519_verify ed_raw v id pub sig msg = Ok tt ->
    (forall t, t <> [] -> ed25519_verify ed_raw v id pub (sig ++ t) msg = Err) /\
    (forall j, (j < length sig)%nat ->
       ed25519_verify ed_raw v id pub (firstn j sig) msg = Err /\
       ed25519_verify ed_raw v id pub (skipn (length sig - j) sig) msg = Err).
  Proof.
    intros Ho. split.
    - intros t Ht. rewrite ed25519_is_framed in *.
      eapply framed_trailing; [apply ed_chk_fixed|exact Ho|exact Ht].
    - intros j Hj. rewrite !ed25519_is_framed in *.
      eapply framed_truncated; [apply ed_chk_fixed|exact Ho|exact Hj].
  Qed.

  (* LEGACY on Sign *)
  Variable ed_sign : bytes -> bytes -> bytes.

  Theorem ed25519_sign_legacy id seed msg :
    ed25519_sign ed_sign VLegacy id seed msg = ed25519_sign ed_sign VCrunchy id seed (msg ++ [0]) /\
    (forall sig, ed25519_sign ed_sign VLegacy id seed msg = Ok sig ->
       sig = 0 :: be_bytes 4 id ++ ed_sign seed (msg ++ [0])).
  Proof.
    unfold ed25519_sign. cbn [suffix]. rewrite app_nil_r. split; [reflexivity|].
    intros sig. destruct (negb _); [discriminate|]. intros E. injection E as <-. reflexivity.
  Qed.

End Ed.

(* ------------------------------------------------------------------ *)
(* (b) explicit rejections, RSA                                         *)

Definition rsa_same_prefix (k k' : rsa_key) : Prop :=
  rk_variant k' = rk_variant k /\ rk_id k' = rk_id k.

Section Rsa.
  Variable H : hasht -> bytes -> bytes.
  Variable pkcs1_raw : bytes -> N -> hasht -> bytes -> bytes -> bool.
  Variable pss_raw : bytes -> N -> hasht -> N -> bytes -> bytes -> bool.

  (* prefix rules hold for every standard verification, length-checking or not *)
  Theorem rsa_no_prefix_rejected k sig msg :
    (forall t, sig <> prefix (rk_variant k) (rk_id k) ++ t) ->
    pkcs1_verify H pkcs1_raw k sig msg = Err /\ pss_verify H pss_raw k sig msg = Err.
  Proof.
    intros Hn. rewrite pkcs1_is_framed, pss_is_framed. split; apply framed_no_prefix; exact Hn.
  Qed.

  Variable pkcs1_sign_raw : bytes -> hasht -> bytes -> bytes.
  Variable pss_sign_raw : bytes -> hasht -> N -> bytes -> bytes -> bytes.

  Theorem rsa_sign_legacy k sk rnd msg :
    pkcs1_sign H pkcs1_sign_raw (rsa_with_variant k VLegacy) sk msg =
      pkcs1_sign H pkcs1_sign_raw (rsa_with_variant k VCrunchy) sk (msg ++ [0]) /\
    pss_sign H pss_sign_raw (rsa_with_variant k VLegacy) sk rnd msg =
      pss_sign H pss_sign_raw (rsa_with_variant k VCrunchy) sk rnd (msg ++ [0]) /\
    pkcs1_sign H pkcs1_sign_raw (rsa_with_variant k VLegacy) sk msg =
      0 :: be_bytes 4 (rk_id k) ++ pkcs1_sign_raw sk (rk_hash k) (H (rk_hash k) (msg ++ [0])) /\
    pss_sign H pss_sign_raw (rsa_with_variant k VLegacy) sk rnd msg =
      0 :: be_bytes 4 (rk_id k) ++ pss_sign_raw sk (rk_hash k) (rk_salt k) (H (rk_hash k) (msg ++ [0])) rnd.
  Proof.
    unfold pkcs1_sign, pss_sign, rsa_with_variant, frame.
    cbn [rk_variant rk_id rk_hash rk_n rk_e rk_salt prefix suffix]. rewrite app_nil_r.
    repeat split; reflexivity.
  Qed.

End Rsa.

(* RSA with the standard length rule: other prefix, trailing, truncated *)
Section RsaStd.
  Variable H : hasht -> bytes -> bytes.
  Variable pkcs1_core : bytes -> N -> hasht -> bytes -> bytes -> bool.
  Variable pss_core : bytes -> N -> hasht -> N -> bytes -> bytes -> bool.

  Theorem rsa_other_prefix_rejected k k' sig msg msg' :
    rsa_sig_len (rk_n k') = rsa_sig_len (rk_n k) ->
    prefix (rk_variant k) (rk_id k) <> prefix (rk_variant k') (rk_id k') ->
    (pkcs1_verify H (std_pkcs1 pkcs1_core) k sig msg = Ok tt ->
     pkcs1_verify H (std_pkcs1 pkcs1_core) k' sig msg' = Err) /\
    (pss_verify H (std_pss pss_core) k sig msg = Ok tt ->
     pss_verify H (std_pss pss_core) k' sig msg' = Err).
  Proof.
    intros Hl Hp. rewrite !pkcs1_is_framed, !pss_is_framed. split; intros Ho.
    - eapply framed_other_prefix; [apply pkcs1_chk_fixed| |exact Ho|exact Hp].
      rewrite <- Hl. apply pkcs1_chk_fixed.
    - eapply framed_other_prefix; [apply pss_chk_fixed| |exact Ho|exact Hp].
      rewrite <- Hl. apply pss_chk_fixed.
  Qed.

  Theorem rsa_trailing_truncated_rejected k sig msg :
    (pkcs1_verify H (std_pkcs1 pkcs1_core) k sig msg = Ok tt ->
     (forall t, t <> [] -> pkcs1_verify H (std_pkcs1 pkcs1_core) k (sig ++ t) msg = Err) /\
     (forall j, (j < length sig)%nat ->
        pkcs1_verify H (std_pkcs1 pkcs1_core) k (firstn j sig) msg = Err /\
        pkcs1_verify H (std_pkcs1 pkcs1_core) k (skipn (length sig - j) sig) msg = Err)) /\
    (pss_verify H (std_pss pss_core) k sig msg = Ok tt ->
     (forall t, t <> [] -> pss_verify H (std_pss pss_core) k (sig ++ t) msg = Err) /\
     (forall j, (j < length sig)%nat ->
        pss_verify H (std_pss pss_core) k (firstn j sig) msg = Err /\
        pss_verify H (std_pss pss_core) k (skipn (length sig - j) sig) msg = Err)).
  Proof.
    split; intros Ho; (split; [intros t Ht|intros j Hj]).
    - rewrite pkcs1_is_framed in *. eapply framed_trailing; [apply pkcs1_chk_fixed|exact Ho|exact Ht].
    - rewrite !pkcs1_is_framed in *. eapply framed_truncated; [apply pkcs1_chk_fixed|exact Ho|exact Hj].
    - rewrite pss_is_framed in *. eapply framed_trailing; [apply pss_chk_fixed|exact Ho|exact Ht].
    - rewrite !pss_is_framed in *. eapply framed_truncated; [apply pss_chk_fixed|exact Ho|exact Hj].
  Qed.
End RsaStd.

(* ------------------------------------------------------------------ *)
(* (c) ECDSA in reduction form                                          *)

Definition ecdsa_with_pub_hash (k : ecdsa_key) (pub : bytes) (h : hasht) : ecdsa_key :=
  {| ek_curve := ek_curve k; ek_hash := h; ek_enc := ek_enc k;
     ek_variant := ek_variant k; ek_id := ek_id k; ek_pub := pub |}.

Lemma ecdsa_frame_wf k r s sig : ecdsa_frame k r s = Some sig -> sig_fits k r s -> wfb sig.
Proof.
  unfold ecdsa_frame, ecdsa_encode, sig_fits. destruct (ek_enc k).
  - intros E Hf. injection E as <-. apply wfb_app. split; [apply prefix_wf|apply der_encode_wf; exact Hf].
  - intros E _. destruct (p1363_encode (ek_curve k) r s) as [b|] eqn:Eb; [|discriminate].
    injection E as <-. apply wfb_app. split; [apply prefix_wf|].
    unfold p1363_encode in Eb. destruct (_ && _); [|discriminate]. injection Eb as <-.
    apply wfb_app. split; apply be_bytes_wf.
Qed.

Section Ecdsa.
  Variable H : hasht -> bytes -> bytes.
  Variable raw : curve -> bytes -> bytes -> N -> N -> bool.
  Variable sign_rs : curve -> bytes -> bytes -> bytes -> N * N.

  Theorem ecdsa_sign_legacy k id sk rnd msg :
    ecdsa_sign H sign_rs (with_variant k VLegacy id) sk rnd msg =
    ecdsa_sign H sign_rs (with_variant k VCrunchy id) sk rnd (msg ++ [0]).
  Proof.
    unfold ecdsa_sign, with_variant, ecdsa_frame, ecdsa_encode.
    cbn [ek_variant ek_id ek_enc ek_curve ek_pub ek_hash prefix suffix]. rewrite app_nil_r. reflexivity.
  Qed.

End Ecdsa.
