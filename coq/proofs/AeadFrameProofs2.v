(* Stretch (C02), AES-GCM / ChaCha20-Poly1305 / XChaCha20-Poly1305 (framing around a
   standard AEAD given by Seal/Open): what a modified ciphertext does.
   Proved for ARBITRARY Seal/Open (no law): Decrypt of any (c', ad') is either a framing
   rejection (too short / prefix mismatch) or exactly the result of ONE call of the
   primitive's Open on the triple (nonce', ad', body') parsed from c'; and when
   (c', ad') differs from a pair (c, ad) produced by Encrypt, that triple differs from
   the triple (iv, ad, Seal(key, iv, ad, p)) Encrypt produced.  So an accepted mutant
   is a forgery against the primitive (its Open accepted a triple nobody sealed); the
   table na_mutation_table says for each mutation class of the property where the
   difference lands.  That the primitive rejects such triples is its authenticity —
   cryptography, carried in the exact-acceptance theorems by open_only_seal_law; under
   that law an accepted mutant is itself Encrypt's output for another (iv, p, ad), and
   together with the body-injectivity law of a stream-cipher-based AEAD every
   modification confined to the 16-byte tag is rejected. *)
From Coq Require Import List NArith Bool Arith Lia ZifyN ZifyNat ZifyBool.
From Tink Require Import Bytes AeadFrame AeadFrameProofs Mutation.
Import ListNotations.
Open Scope N_scope.

Section NonceDecFraming.
  Variable open_ : bytes -> bytes -> bytes -> bytes -> option bytes.
  Variables (ivlen taglen : nat).
  Variable open_max : option N.
  Variable ct_max : option N.

  Notation open_t := (open_t open_ taglen open_max ct_max).
  Notation dec := (na_dec_canon open_ ivlen taglen open_max ct_max).

  Definition nonce_of (pl : nat) (c : bytes) : bytes := firstn ivlen (skipn pl c).
  Definition body_of (pl : nat) (c : bytes) : bytes := skipn (pl + ivlen) c.

  Definition framing_reject (prefix c : bytes) : Prop :=
    (length c < length prefix + ivlen + taglen)%nat \/ firstn (length prefix) c <> prefix.

  Lemma open_t_some key n a b p : open_t key n a b = Ok p -> open_ key n a b = Some p.
  Proof.
    unfold AeadFrame.open_t, open_o.
    destruct ct_max as [m|]; [destruct (m <? lenN b); [discriminate|]|];
      (destruct (Nat.ltb (length b) taglen); [discriminate|]);
      (destruct open_max as [m'|]; [destruct (m' <? lenN b); [discriminate|]|]);
      destruct (open_ key n a b); cbn [of_open]; intros H; inversion H; reflexivity.
  Qed.

  (* ---- framing: every Decrypt is a framing rejection or one Open on the parsed triple ---- *)
  Theorem na_dec_framing prefix key c' ad' :
    (framing_reject prefix c' /\ dec prefix key c' ad' = Err) \/
    ((length prefix + ivlen + taglen <= length c')%nat /\
     c' = prefix ++ nonce_of (length prefix) c' ++ body_of (length prefix) c' /\
     length (nonce_of (length prefix) c') = ivlen /\
     dec prefix key c' ad' = open_t key (nonce_of (length prefix) c') ad' (body_of (length prefix) c')).
  Proof.
    unfold na_dec_canon, framing_reject, nonce_of, body_of. set (pl := length prefix).
    destruct (Nat.leb_spec (pl + ivlen + taglen) (length c')) as [Hl|Hl]; [|left; split; [left; lia|reflexivity]].
    destruct (beq (firstn pl c') prefix) eqn:Eb.
    - apply beq_eq in Eb. right. split; [exact Hl|]. split; [|split; [|reflexivity]].
      + rewrite <- Eb at 1. apply split3. lia.
      + rewrite firstn_length, skipn_length. lia.
    - left. split; [|reflexivity]. right. intros E. rewrite E, beq_refl in Eb. discriminate.
  Qed.

End NonceDecFraming.

Section NonceMutation.
  Variable seal : bytes -> bytes -> bytes -> bytes -> bytes.
  Variable open_ : bytes -> bytes -> bytes -> bytes -> option bytes.
  Variables (ivlen taglen : nat).
  Variable seal_max : N.
  Variable open_max : option N.
  Variable ct_max : option N.

  Notation open_t := (open_t open_ taglen open_max ct_max).
  Notation enc := (na_enc seal seal_max).
  Notation dec := (na_dec_canon open_ ivlen taglen open_max ct_max).
  Notation nonce_of := (nonce_of ivlen).
  Notation body_of := (body_of ivlen).
  Notation framing_reject := (framing_reject ivlen taglen).
  Notation na_dec_framing := (na_dec_framing open_ ivlen taglen open_max ct_max).
  Notation open_t_some := (open_t_some open_ taglen open_max ct_max).

  Lemma na_enc_inv tink_max prefix key iv p ad c :
    enc tink_max prefix key iv p ad = Ok c ->
    c = prefix ++ iv ++ seal key iv ad p /\ lenN p <= tink_max /\ lenN p <= seal_max.
  Proof.
    unfold na_enc, seal_o. destruct (N.ltb_spec tink_max (lenN p)); [discriminate|].
    destruct (N.ltb_spec seal_max (lenN p)); [discriminate|]. cbn [bind]. intros Hq; inversion Hq. auto.
  Qed.

  (* ---- any pair different from what Encrypt produced: framing rejection, or Open on a
     triple different from the sealed one ---- *)
  Theorem na_mutant_dichotomy tink_max prefix key iv p ad c c' ad' :
    length iv = ivlen -> enc tink_max prefix key iv p ad = Ok c -> (c', ad') <> (c, ad) ->
    (framing_reject prefix c' /\ dec prefix key c' ad' = Err) \/
    (dec prefix key c' ad' = open_t key (nonce_of (length prefix) c') ad' (body_of (length prefix) c') /\
     (nonce_of (length prefix) c', ad', body_of (length prefix) c') <> (iv, ad, seal key iv ad p)).
  Proof.
    intros Hiv He Hne. apply na_enc_inv in He. destruct He as [Hc _].
    destruct (na_dec_framing prefix key c' ad') as [[Hf Hd]|[Hl [Hs [Hn Hd]]]]; [left; auto|right].
    split; [exact Hd|]. intros E. injection E as E1 E2 E3. apply Hne. f_equal; [|exact E2].
    rewrite Hs, E1, E3. symmetry. exact Hc.
  Qed.

  (* (n', a', b') opens although only (n, a, b) was ever sealed *)
  Definition aead_forgery (key n a b n' a' b' p' : bytes) : Prop :=
    (n', a', b') <> (n, a, b) /\ open_ key n' a' b' = Some p'.

  Theorem na_accepted_mutant_is_forgery tink_max prefix key iv p ad c c' ad' p' :
    length iv = ivlen -> enc tink_max prefix key iv p ad = Ok c -> (c', ad') <> (c, ad) ->
    dec prefix key c' ad' = Ok p' ->
    c' = prefix ++ nonce_of (length prefix) c' ++ body_of (length prefix) c' /\
    aead_forgery key iv ad (seal key iv ad p)
                 (nonce_of (length prefix) c') ad' (body_of (length prefix) c') p'.
  Proof.
    intros Hiv He Hne Hd.
    destruct (na_mutant_dichotomy tink_max prefix key iv p ad c c' ad' Hiv He Hne) as [[_ E]|[E Ht]];
      [rewrite E in Hd; discriminate|].
    destruct (na_dec_framing prefix key c' ad') as [[_ E']|[_ [Hs _]]]; [rewrite E' in Hd; discriminate|].
    split; [exact Hs|]. split; [exact Ht|]. apply open_t_some. rewrite <- E. exact Hd.
  Qed.

  (* contrapositive, per-instance: if the primitive does not open THE triple the mutant parses to
     (the quantifier ranges over the plaintext Open might return, not over triples), Decrypt
     releases no plaintext *)
  Theorem na_mutant_rejected_without_forgery tink_max prefix key iv p ad c c' ad' :
    length iv = ivlen -> enc tink_max prefix key iv p ad = Ok c -> (c', ad') <> (c, ad) ->
    (forall p', ~ aead_forgery key iv ad (seal key iv ad p)
                   (nonce_of (length prefix) c') ad' (body_of (length prefix) c') p') ->
    forall p', dec prefix key c' ad' <> Ok p'.
  Proof.
    intros Hiv He Hne Hnf p' Hd.
    destruct (na_accepted_mutant_is_forgery tink_max prefix key iv p ad c c' ad' p' Hiv He Hne Hd) as [_ F].
    exact (Hnf p' F).
  Qed.

  (* ---- under the uniqueness law of the standard AEAD: an accepted mutant is itself what
     Encrypt outputs for a DIFFERENT (iv, plaintext, ad) ---- *)
  Theorem na_accepted_mutant_is_other_encryption tink_max prefix key iv p ad c c' ad' p' :
    open_only_seal_law seal open_ seal_max ->
    length iv = ivlen -> enc tink_max prefix key iv p ad = Ok c -> (c', ad') <> (c, ad) ->
    dec prefix key c' ad' = Ok p' ->
    exists iv', length iv' = ivlen /\ (iv', p', ad') <> (iv, p, ad) /\
                c' = prefix ++ iv' ++ seal key iv' ad' p' /\ lenN p' <= seal_max.
  Proof.
    intros HU Hiv He Hne Hd.
    destruct (na_accepted_mutant_is_forgery tink_max prefix key iv p ad c c' ad' p' Hiv He Hne Hd) as [Hs [Ht Ho]].
    destruct (HU _ _ _ _ _ Ho) as [Hb Hp].
    exists (nonce_of (length prefix) c'). split; [|split; [|split; [|exact Hp]]].
    - destruct (na_dec_framing prefix key c' ad') as [[_ E']|[_ [_ [Hn _]]]]; [rewrite E' in Hd; discriminate|exact Hn].
    - intros E. injection E as E1 E2 E3. apply Ht. rewrite Hb, E1, E2, E3. reflexivity.
    - rewrite <- Hb. exact Hs.
  Qed.

  (* ---- tag-only modifications: rejected for an AEAD whose ciphertext body determines the
     plaintext (stream cipher + tag: GCM, ChaCha20-Poly1305) ---- *)
  Definition seal_body_inj : Prop := forall k n a p p', length p = length p' ->
    firstn (length p) (seal k n a p) = firstn (length p) (seal k n a p') -> p = p'.

  Theorem na_tag_only_mutation_rejected tink_max prefix key iv p ad c c' :
    seal_len_law seal taglen -> open_only_seal_law seal open_ seal_max -> seal_body_inj ->
    length iv = ivlen -> enc tink_max prefix key iv p ad = Ok c ->
    length c' = length c -> firstn (length c - taglen) c' = firstn (length c - taglen) c -> c' <> c ->
    forall p', dec prefix key c' ad <> Ok p'.
  Proof.
    intros HL HU HB Hiv He Hlen Hsame Hne p' Hd.
    assert (Hne' : (c', ad) <> (c, ad)) by (intros E; inversion E; contradiction).
    destruct (na_accepted_mutant_is_other_encryption tink_max prefix key iv p ad c c' ad p' HU Hiv He Hne' Hd)
      as [iv' [Hiv' [Ht [Hc' Hp']]]].
    apply na_enc_inv in He. destruct He as [Hc _].
    assert (Hcl : length c = (length prefix + ivlen + (length p + taglen))%nat)
      by (rewrite Hc, !app_length, HL; lia).
    assert (Hcl' : length c' = (length prefix + ivlen + (length p' + taglen))%nat)
      by (rewrite Hc', !app_length, HL; lia).
    assert (Hpl : length p' = length p) by lia.
    (* the common head: prefix ++ iv ++ body *)
    assert (H1 : firstn (length c - taglen) c = prefix ++ iv ++ firstn (length p) (seal key iv ad p)).
    { rewrite Hc at 2. rewrite firstn_app_r by lia. f_equal. rewrite firstn_app_r by lia. f_equal. f_equal. lia. }
    assert (H2 : firstn (length c - taglen) c' = prefix ++ iv' ++ firstn (length p) (seal key iv' ad p')).
    { rewrite Hc' at 1. rewrite firstn_app_r by lia. f_equal. rewrite firstn_app_r by lia. f_equal. f_equal. lia. }
    rewrite H1, H2 in Hsame.
    apply app_inv_head in Hsame. apply app_inv_prefix_len in Hsame; [|lia]. destruct Hsame as [Ei Eb].
    subst iv'. assert (p' = p).
    { symmetry. apply (HB key iv ad p p'); [lia|]. symmetry. exact Eb. }
    subst p'. apply Ht. reflexivity.
  Qed.

  (* ---- the mutation classes of the property, one by one.  c = prefix || iv || ct is any
     framed ciphertext (in particular Encrypt's output, ct = Seal(key, iv, ad, p)) ---- *)
End NonceMutation.

Section NonceTable.
  Variable open_ : bytes -> bytes -> bytes -> bytes -> option bytes.
  Variables (ivlen taglen : nat).
  Variable open_max : option N.
  Variable ct_max : option N.
  Notation open_t := (open_t open_ taglen open_max ct_max).
  Notation dec := (na_dec_canon open_ ivlen taglen open_max ct_max).

  Section Table.
    Variables (prefix key iv ct ad : bytes).
    Hypothesis Hiv : length iv = ivlen.
    Hypothesis Hct : (taglen <= length ct)%nat.
    Let c := prefix ++ iv ++ ct.
    Let pl := length prefix.

    Lemma dec_framed n b a : length n = ivlen ->
      dec prefix key (prefix ++ n ++ b) a = if Nat.leb taglen (length b) then open_t key n a b else Err.
    Proof.
      intros Hn. unfold na_dec_canon. rewrite !app_length, firstn_app_exact, beq_refl, Hn.
      destruct (Nat.leb_spec taglen (length b)); destruct (Nat.leb_spec (length prefix + ivlen + taglen) (length prefix + (ivlen + length b)));
        try lia; [|reflexivity]. cbn [andb].
      rewrite skipn_app_exact, firstn_app_len by lia.
      rewrite app_assoc, skipn_app_len by (rewrite app_length; lia). reflexivity.
    Qed.

    (* one byte overwritten (in particular one bit flipped) *)
    Lemma table_byte i b : (i < length c)%nat -> nth i c 0 <> b ->
      ((i < pl)%nat -> dec prefix key (set_nth i b c) ad = Err) /\
      ((pl <= i < pl + ivlen)%nat ->
         dec prefix key (set_nth i b c) ad = open_t key (set_nth (i - pl) b iv) ad ct /\ set_nth (i - pl) b iv <> iv) /\
      ((pl + ivlen <= i)%nat ->
         dec prefix key (set_nth i b c) ad = open_t key iv ad (set_nth (i - pl - ivlen) b ct) /\
         set_nth (i - pl - ivlen) b ct <> ct).
    Proof.
      intros Hi Hb. unfold c in *. rewrite !app_length in Hi. fold pl in Hi. repeat split.
      - intros H. apply na_wrong_prefix. rewrite set_nth_app_l by exact H.
        rewrite <- (set_nth_length i b prefix) at 1 by exact H. rewrite firstn_app_exact.
        apply set_nth_differs; [exact H|]. rewrite nth_app_l_bytes in Hb by exact H. exact Hb.
      - rewrite set_nth_app_r by (unfold pl in *; lia). rewrite set_nth_app_l by (unfold pl in *; lia).
        rewrite dec_framed by (rewrite set_nth_length; unfold pl in *; lia).
        destruct (Nat.leb_spec taglen (length ct)); [reflexivity|lia].
      - apply set_nth_differs; [unfold pl in *; lia|].
        rewrite nth_app_r_bytes, nth_app_l_bytes in Hb by (unfold pl in *; lia). exact Hb.
      - rewrite set_nth_app_r by (unfold pl in *; lia). rewrite set_nth_app_r by (unfold pl in *; lia).
        rewrite dec_framed by exact Hiv. rewrite set_nth_length by (unfold pl in *; lia).
        destruct (Nat.leb_spec taglen (length ct)); [|lia]. do 2 f_equal. unfold pl. lia.
      - apply set_nth_differs; [unfold pl in *; lia|].
        rewrite nth_app_r_bytes in Hb by (unfold pl in *; lia).
        rewrite nth_app_r_bytes in Hb by (unfold pl in *; lia).
        replace (i - pl - ivlen)%nat with (i - length prefix - length iv)%nat by (unfold pl; lia). exact Hb.
    Qed.

    (* truncation at every cut point *)
    Lemma table_cut n : (n < length c)%nat ->
      ((n < pl + ivlen + taglen)%nat -> dec prefix key (firstn n c) ad = Err) /\
      ((pl + ivlen + taglen <= n)%nat ->
         dec prefix key (firstn n c) ad = open_t key iv ad (firstn (n - pl - ivlen) ct) /\
         (length (firstn (n - pl - ivlen) ct) < length ct)%nat).
    Proof.
      intros Hn. unfold c in *. rewrite !app_length in Hn. fold pl in Hn. split.
      - intros H. apply na_too_short. rewrite firstn_length. fold pl. lia.
      - intros H. rewrite firstn_app_r by (unfold pl in *; lia). rewrite firstn_app_r by (unfold pl in *; lia).
        rewrite dec_framed by exact Hiv. rewrite firstn_length.
        destruct (Nat.leb_spec taglen (Nat.min (n - length prefix - length iv) (length ct))); [|unfold pl in *; lia].
        split; [do 2 f_equal; unfold pl; lia|rewrite firstn_length; unfold pl in *; lia].
    Qed.

    (* extension *)
    Lemma table_ext s : s <> [] ->
      dec prefix key (c ++ s) ad = open_t key iv ad (ct ++ s) /\ ct ++ s <> ct.
    Proof.
      intros Hs. unfold c. rewrite <- !app_assoc. rewrite dec_framed by exact Hiv. rewrite app_length.
      destruct (Nat.leb_spec taglen (length ct + length s)); [|lia]. split; [reflexivity|].
      intros E. apply (f_equal (@length N)) in E. rewrite app_length in E. destruct s; [congruence|cbn [length] in E; lia].
    Qed.

    (* other associated data *)
    Lemma table_ad ad' : dec prefix key c ad' = open_t key iv ad' ct.
    Proof. unfold c. rewrite dec_framed by exact Hiv. destruct (Nat.leb_spec taglen (length ct)); [reflexivity|lia]. Qed.

    (* another key's / variant's prefix of the same length in front of the same bytes *)
    Lemma table_prefix prefix' : length prefix' = length prefix -> prefix' <> prefix ->
      dec prefix key (prefix' ++ iv ++ ct) ad = Err.
    Proof.
      intros Hl Hne. apply na_wrong_prefix. rewrite <- Hl, firstn_app_exact. exact Hne.
    Qed.

    (* the ciphertext of a key WITHOUT prefix presented to a key with prefix, or the prefix stripped *)
    Lemma table_prefix_stripped : prefix <> [] -> firstn pl (iv ++ ct) <> prefix ->
      dec prefix key (iv ++ ct) ad = Err.
    Proof. intros _ H. apply na_wrong_prefix. exact H. Qed.
  End Table.
End NonceTable.

(* ---- when Tink's own size check is at least as strict as the library's panic threshold
   (AES-GCM: no threshold; (X)ChaCha20-Poly1305: 2^38-48 both), the call of Open is either
   pre-empted by a size error or returns exactly what the primitive answers ---- *)
Section OpenOutcome.
  Variable open_ : bytes -> bytes -> bytes -> bytes -> option bytes.
  Variables (ivlen taglen : nat).
  Variable open_max : option N.
  Variable ct_max : option N.
  Hypothesis no_lib_panic : forall m, open_max = Some m -> exists m', ct_max = Some m' /\ m' <= m.

  Lemma open_t_err_or_open key n a b :
    open_t open_ taglen open_max ct_max key n a b = Err \/
    open_t open_ taglen open_max ct_max key n a b = of_open (open_ key n a b).
  Proof.
    unfold open_t, open_o.
    destruct ct_max as [mc|] eqn:Ec.
    - destruct (N.ltb_spec mc (lenN b)) as [|Hb]; [left; reflexivity|].
      destruct (Nat.ltb (length b) taglen); [left; reflexivity|].
      destruct open_max as [m|] eqn:Eo; [|right; reflexivity].
      destruct (no_lib_panic m eq_refl) as [m' [E Hm]]. inversion E; subst m'.
      destruct (N.ltb_spec m (lenN b)); [lia|right; reflexivity].
    - destruct (Nat.ltb (length b) taglen); [left; reflexivity|].
      destruct open_max as [m|] eqn:Eo; [|right; reflexivity].
      destruct (no_lib_panic m eq_refl) as [m' [E _]]. discriminate.
  Qed.

  (* a mutant whose parsed triple the primitive rejects is an error *)
  Theorem na_mutant_rejected_if_open_rejects prefix key c' ad' :
    (framing_reject ivlen taglen prefix c' \/
     open_ key (nonce_of ivlen (length prefix) c') ad' (body_of ivlen (length prefix) c') = None) ->
    na_dec_canon open_ ivlen taglen open_max ct_max prefix key c' ad' = Err.
  Proof.
    intros H. destruct (na_dec_framing open_ ivlen taglen open_max ct_max prefix key c' ad') as [[_ E]|[Hl [_ [_ E]]]];
      [exact E|].
    destruct H as [[H|H]|H].
    - lia.
    - apply na_wrong_prefix. exact H.
    - rewrite E. destruct (open_t_err_or_open key (nonce_of ivlen (length prefix) c') ad' (body_of ivlen (length prefix) c')) as [E'|E'];
        [exact E'|]. rewrite E', H. reflexivity.
  Qed.
End OpenOutcome.

Lemma gcm_no_lib_panic : forall m : N, @None N = Some m -> exists m', @None N = Some m' /\ m' <= m.
Proof. intros m E; discriminate. Qed.
Lemma chacha_no_lib_panic : forall m, Some chacha_open_max = Some m -> exists m', Some chacha_tink_ct_max = Some m' /\ m' <= m.
Proof. intros m E; inversion E. exists chacha_tink_ct_max. split; [reflexivity|]. vm_compute. discriminate. Qed.

(* the five Decrypt bodies of the three key types are instances of the canonical function *)
Lemma nonce_dec_bodies_canon open_ prefix key c ad :
  aesgcm_dec open_ prefix key c ad = na_dec_canon open_ 12 16 None None prefix key c ad /\
  chacha_dec open_ prefix key c ad =
    na_dec_canon open_ 12 16 (Some chacha_open_max) (Some chacha_tink_ct_max) prefix key c ad /\
  chacha_subtle_dec open_ key c ad =
    na_dec_canon open_ 12 16 (Some chacha_open_max) (Some chacha_tink_ct_max) [] key c ad /\
  (lenN c <= MaxInt -> xchacha_dec open_ prefix key c ad =
    na_dec_canon open_ 24 16 (Some chacha_open_max) (Some chacha_tink_ct_max) prefix key c ad) /\
  xchacha_subtle_dec open_ key c ad =
    na_dec_canon open_ 24 16 (Some chacha_open_max) (Some chacha_tink_ct_max) [] key c ad.
Proof.
  repeat split.
  - apply dec_lenfirst_canon.
  - apply dec_prefixfirst_canon.
  - apply dec_lenfirst_canon.
  - intros H. apply dec_lenprefix_canon. exact H.
  - apply dec_lenfirst_canon.
Qed.

(* ---- the toy AEAD satisfies the body-injectivity law; the forgery event of the reduction
   is real for it (it has no authenticity at all): flipping a body bit is accepted ---- *)
Lemma toy_body_inj : seal_body_inj toy_seal.
Proof.
  intros k n a p p' Hl H. unfold toy_seal in H. rewrite firstn_app_exact in H. rewrite Hl, firstn_app_exact in H. exact H.
Qed.

Example na_forgery_event_is_real :
  let c := match aesgcm_enc toy_seal (output_prefix VTink 258) [7] (zeros 12) [1; 2; 3] [9] with Ok c => c | _ => [] end in
  let c' := flip_bit 18 0 c in
  na_dec_canon (toy_open gcm_seal_max) 12 16 None None (output_prefix VTink 258) [7] c' [9] = Ok [1; 3; 3] /\
  aead_forgery (toy_open gcm_seal_max) [7] (zeros 12) [9] (toy_seal [7] (zeros 12) [9] [1; 2; 3])
               (nonce_of 12 5 c') [9] (body_of 12 5 c') [1; 3; 3].
Proof. cbv zeta. split; [vm_compute; reflexivity|]. split; [vm_compute; discriminate|vm_compute; reflexivity]. Qed.

Example na_tag_only_premises_inhabited :
  let c := match aesgcm_enc toy_seal (output_prefix VTink 258) [7] (zeros 12) [1; 2; 3] [9] with Ok c => c | _ => [] end in
  let c' := flip_bit 25 3 c in
  aesgcm_enc toy_seal (output_prefix VTink 258) [7] (zeros 12) [1; 2; 3] [9] = Ok c /\
  length c' = length c /\ firstn (length c - 16) c' = firstn (length c - 16) c /\ c' <> c /\
  na_dec_canon (toy_open gcm_seal_max) 12 16 None None (output_prefix VTink 258) [7] c' [9] = Err.
Proof. cbv zeta. repeat split; try (vm_compute; reflexivity). vm_compute. discriminate. Qed.
