(* C19, program level: an ownership discipline over the slice language of model/Heap.v and
   its frame theorem.  A boundary function that follows the discipline - it writes (s[i] = v,
   copy(dst, ..), append(s, ..)) only through slices it obtained from its own allocations
   (make, bytes.Clone, slices.Concat, append on an owned slice, sub-slices of those) - leaves
   every array that existed when it was called unchanged, and everything it owns lives in
   arrays its caller has never seen.  The per-idiom lemmas of HeapProofs.v are instances. *)
From Coq Require Import List NArith Arith Bool Lia.
From Tink Require Import Heap HeapProofs.
Import ListNotations.

(* strict execution: None as soon as one instruction would panic in Go *)
Fixpoint run_strict (st : heap * list slice) (p : list instr) : option (heap * list slice) :=
  match p with
  | [] => Some st
  | i :: p' => match exec st i with Some st' => run_strict st' p' | None => None end
  end.

(* ownership analysis: one flag per variable; None = the instruction breaks the discipline *)
Definition own_step (own : list bool) (i : instr) : option (list bool) :=
  let o v := nth v own false in
  match i with
  | IMake _ _ => Some (own ++ [true])
  | ISub v _ _ => Some (own ++ [o v])
  | ISub3 v _ _ _ => Some (own ++ [o v])
  | ISet v _ _ => if o v then Some own else None
  | IAppend v _ _ => if o v then Some (own ++ [true]) else None
  | ICopy d _ => if o d then Some own else None
  | IConcat _ _ => Some (own ++ [true])
  | IClone _ _ => Some (own ++ [true])
  end.

Fixpoint own_run (own : list bool) (p : list instr) : option (list bool) :=
  match p with
  | [] => Some own
  | i :: p' => match own_step own i with Some own' => own_run own' p' | None => None end
  end.

Definition disciplined (own : list bool) (p : list instr) : bool :=
  match own_run own p with Some _ => true | None => false end.

(* invariant: arrays below n0 are as in h0; owned variables point at or above n0 *)
Definition Inv (h0 : heap) (n0 : nat) (st : heap * list slice) (own : list bool) : Prop :=
  n0 <= length (fst st) /\ length own = length (snd st) /\
  (forall v s, nth_error (snd st) v = Some s -> nth v own false = true -> n0 <= arr s) /\
  (forall a, a < n0 -> array (fst st) a = array h0 a).

Lemma nth_error_snoc {A} (l : list A) x v y :
  nth_error (l ++ [x]) v = Some y -> (v < length l /\ nth_error l v = Some y) \/ (v = length l /\ y = x).
Proof.
  intros H. destruct (Nat.lt_ge_cases v (length l)) as [L|G].
  - left. split; auto. rewrite nth_error_app1 in H; auto.
  - right. rewrite nth_error_app2 in H by lia.
    destruct (v - length l) as [|k] eqn:E; simpl in H.
    + inversion H. split; auto. lia.
    + destruct k; discriminate.
Qed.

Lemma nth_snoc_old (l : list bool) x v : v < length l -> nth v (l ++ [x]) false = nth v l false.
Proof. intros H. apply app_nth1. exact H. Qed.

Lemma nth_snoc_new (l : list bool) x : nth (length l) (l ++ [x]) false = x.
Proof. rewrite app_nth2 by lia. rewrite Nat.sub_diag. reflexivity. Qed.

(* adding a variable r with flag b, heap unchanged or grown/overwritten above n0 *)
Lemma Inv_push h0 n0 h vars own h' r b :
  Inv h0 n0 (h, vars) own ->
  n0 <= length h' -> (forall a, a < n0 -> array h' a = array h a) ->
  (b = true -> n0 <= arr r) ->
  Inv h0 n0 (h', vars ++ [r]) (own ++ [b]).
Proof.
  intros (L & E & O & F) L' F' B. unfold Inv; simpl in *. repeat split.
  - exact L'.
  - rewrite !app_length. simpl. lia.
  - intros v s Hv Ho. apply nth_error_snoc in Hv. destruct Hv as [[Hl Hv]|[Hl ->]].
    + rewrite nth_snoc_old in Ho by lia. eapply O; eauto.
    + subst v. rewrite <- E, nth_snoc_new in Ho. auto.
  - intros a Ha. rewrite F' by exact Ha. apply F. exact Ha.
Qed.

Lemma Inv_write h0 n0 h vars own a p vs :
  Inv h0 n0 (h, vars) own -> n0 <= a -> Inv h0 n0 (heap_write h a p vs, vars) own.
Proof.
  intros (L & E & O & F) Ha. unfold Inv; simpl in *. repeat split; auto.
  - rewrite heap_write_length. exact L.
  - intros b Hb. rewrite heap_write_other by lia. apply F. exact Hb.
Qed.

Theorem own_step_inv h0 n0 st own i st' own' :
  Inv h0 n0 st own -> exec st i = Some st' -> own_step own i = Some own' -> Inv h0 n0 st' own'.
Proof.
  destruct st as [h vars]. intros I X S. pose proof I as (L & E & O & F). simpl in L, E, O, F.
  destruct i as [n c|v lo hi|v lo hi mx|v k x|v xs nc|d s|vs nc|v nc]; simpl in X, S.
  - (* make *)
    destruct (n <=? c); [|discriminate]. inversion X; subst; clear X. inversion S; subst; clear S.
    apply (Inv_push h0 n0 h vars own); auto.
    + rewrite heap_write_length, app_length. simpl. lia.
    + intros a Ha. cbn [arr]. rewrite heap_write_other by lia. apply array_app_old. lia.
  - destruct (nth_error vars v) as [s|] eqn:V; [|discriminate].
    destruct (sub s lo hi) as [r|] eqn:R; [|discriminate].
    inversion X; subst; clear X. inversion S; subst; clear S.
    apply (Inv_push h0 n0 h vars own); auto.
    intros B. unfold sub in R. destruct (_ && _); [|discriminate]. inversion R; subst. simpl. eapply O; eauto.
  - destruct (nth_error vars v) as [s|] eqn:V; [|discriminate].
    destruct (sub3 s lo hi mx) as [r|] eqn:R; [|discriminate].
    inversion X; subst; clear X. inversion S; subst; clear S.
    apply (Inv_push h0 n0 h vars own); auto.
    intros B. unfold sub3 in R. destruct (_ && _); [|discriminate]. inversion R; subst. simpl. eapply O; eauto.
  - destruct (nth_error vars v) as [s|] eqn:V; [|discriminate].
    destruct (set h s k x) as [h'|] eqn:W; [|discriminate].
    inversion X; subst; clear X.
    destruct (nth v own false) eqn:Ow; [|discriminate]. inversion S; subst; clear S.
    unfold set in W. destruct (k <? len s); [|discriminate]. inversion W; subst.
    apply Inv_write; auto. eapply O; eauto.
  - destruct (nth_error vars v) as [s|] eqn:V; [|discriminate].
    destruct (append h s xs nc) as [h' r] eqn:A. inversion X; subst; clear X.
    destruct (nth v own false) eqn:Ow; [|discriminate]. inversion S; subst; clear S.
    assert (Hs : n0 <= arr s) by (eapply O; eauto).
    unfold append in A. destruct (len s + length xs <=? cap s).
    + inversion A; subst; clear A.
      apply (Inv_push h0 n0 h vars own); auto.
      * rewrite heap_write_length. exact L.
      * intros a Ha. apply heap_write_other. lia.
    + inversion A; subst; clear A.
      apply (Inv_push h0 n0 h vars own); auto.
      * rewrite app_length. simpl. lia.
      * intros a Ha. apply array_app_old. lia.
  - destruct (nth_error vars d) as [ds|] eqn:D; [|discriminate].
    destruct (nth_error vars s) as [ss|] eqn:Ss; [|discriminate].
    inversion X; subst; clear X.
    destruct (nth d own false) eqn:Ow; [|discriminate]. inversion S; subst; clear S.
    unfold copy. apply Inv_write; auto. eapply O; eauto.
  - destruct (fold_right _ _ vs) as [ss|]; [|discriminate].
    destruct (concat h ss nc) as [h' r] eqn:C. inversion X; subst; clear X. inversion S; subst; clear S.
    unfold concat in C. inversion C; subst; clear C.
    apply (Inv_push h0 n0 h vars own); auto.
    + rewrite app_length. simpl. lia.
    + intros a Ha. apply array_app_old. lia.
  - destruct (nth_error vars v) as [s|] eqn:V; [|discriminate].
    destruct (clone h s nc) as [h' r] eqn:C. inversion X; subst; clear X. inversion S; subst; clear S.
    unfold clone in C. inversion C; subst; clear C.
    apply (Inv_push h0 n0 h vars own); auto.
    + rewrite app_length. simpl. lia.
    + intros a Ha. apply array_app_old. lia.
Qed.

Theorem own_run_inv h0 n0 p : forall st own st' own',
  Inv h0 n0 st own -> run_strict st p = Some st' -> own_run own p = Some own' -> Inv h0 n0 st' own'.
Proof.
  induction p as [|i p IH]; intros st own st' own' I R W; simpl in *.
  - inversion R; inversion W; subst. exact I.
  - destruct (exec st i) as [st1|] eqn:X; [|discriminate].
    destruct (own_step own i) as [own1|] eqn:S; [|discriminate].
    apply (IH st1 own1 st' own'); auto. apply (own_step_inv h0 n0 st own i st1 own1); auto.
Qed.

(* THE FRAME THEOREM.  A function called with the caller's heap h0 and parameter slices
   params (none of them owned), whose body p follows the ownership discipline and does not
   panic: (1) every array of the caller is bit for bit what it was, so every view the caller
   has of its buffers (also beyond len, up to cap) reads the same; (2) every slice the function
   owns - in particular whatever it stores in an object or returns, if the discipline marks it
   owned - lives in an array allocated during the call, disjoint from every slice the caller
   could have built before. *)
Theorem disciplined_program_frames_the_caller h0 params p h' vars' :
  disciplined (map (fun _ => false) params) p = true ->
  run_strict (h0, params) p = Some (h', vars') ->
  (forall s, wf_slice h0 s -> read h' s = read h0 s /\ read_cap h' s = read_cap h0 s) /\
  (exists own', own_run (map (fun _ => false) params) p = Some own' /\
     forall v r, nth_error vars' v = Some r -> nth v own' false = true ->
       length h0 <= arr r /\ forall s, wf_slice h0 s -> arr s <> arr r).
Proof.
  unfold disciplined. intros D R.
  destruct (own_run (map (fun _ => false) params) p) as [own'|] eqn:W; [|discriminate].
  assert (I0 : Inv h0 (length h0) (h0, params) (map (fun _ => false) params)).
  { unfold Inv; simpl. repeat split; auto.
    - apply map_length.
    - intros v s Hv Ho. exfalso. clear - Ho.
      revert v Ho. induction params as [|x l IH]; intros [|v]; simpl; try discriminate; auto; apply IH. }
  pose proof (own_run_inv h0 (length h0) p _ _ _ _ I0 R W) as (L & E & O & F). simpl in *.
  split.
  - intros s (Ha & _). split; [apply read_ext | apply read_cap_ext]; apply F; exact Ha.
  - exists own'. split; auto. intros v r Hv Ho. split; [eapply O; eauto|].
    intros s (Ha & _) Heq. assert (length h0 <= arr r) by (eapply O; eauto). lia.
Qed.

(* The discipline is necessary: each forbidden instruction, applied to a parameter, can change
   what the caller sees. *)
Theorem undisciplined_programs_refuted :
  (exists h0 param caller h' vars',
      run_strict (h0, [param]) [IAppend 0 [7%N] 0] = Some (h', vars') /\ wf_slice h0 caller /\
      read h' caller <> read h0 caller) /\
  (exists h0 param caller h' vars',
      run_strict (h0, [param]) [ISet 0 0 7%N] = Some (h', vars') /\ wf_slice h0 caller /\
      read h' caller <> read h0 caller) /\
  (exists h0 param other caller h' vars',
      run_strict (h0, [param; other]) [ICopy 0 1] = Some (h', vars') /\ wf_slice h0 caller /\
      read h' caller <> read h0 caller).
Proof.
  repeat split.
  - exists [[1; 2; 3; 170]%N], (mkSlice 0 0 3 4), (mkSlice 0 0 4 4). eexists. eexists.
    split; [vm_compute; reflexivity|]. split; [unfold wf_slice; simpl; lia|]. vm_compute. discriminate.
  - exists [[1; 2; 3; 4]%N], (mkSlice 0 0 4 4), (mkSlice 0 0 4 4). eexists. eexists.
    split; [vm_compute; reflexivity|]. split; [unfold wf_slice; simpl; lia|]. vm_compute. discriminate.
  - exists [[1; 2; 3; 4]%N; [9; 9]%N], (mkSlice 0 0 4 4), (mkSlice 1 0 2 2), (mkSlice 0 0 4 4). eexists. eexists.
    split; [vm_compute; reflexivity|]. split; [unfold wf_slice; simpl; lia|]. vm_compute. discriminate.
Qed.

(* non-vacuity: the shape of a Tink boundary function - clone the key parameter and keep it,
   build message || suffix with Concat, append a tag to the OWNED result, write into it -
   is disciplined and runs *)
Example disciplined_example :
  let h0 := [[1; 2; 3; 0; 0]%N; [5; 6]%N] in
  let params := [mkSlice 0 0 3 5; mkSlice 1 0 2 2] in
  let p := [IClone 0 0; IConcat [0; 1] 0; IAppend 3 [8; 9]%N 0; ISet 4 0 42%N; ISub 4 1 3; ISet 5 0 43%N] in
  disciplined (map (fun _ => false) params) p = true /\
  match run_strict (h0, params) p with
  | Some (h', vars') => firstn 2 h' = h0 /\ length vars' = 6
  | None => False
  end.
Proof. split; vm_compute; auto. Qed.
