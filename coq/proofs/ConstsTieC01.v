(* Ties between the AEAD size constants REGENERATED from internal/aead (gen/RepoConsts.v)
   and the limits the C01/C02 models (model/AeadFrame.v) are stated over.  A source edit
   that changes the AES-GCM IV/tag size or one of the plaintext/ciphertext limits changes
   the regenerated definition and one of these lemmas stops checking. *)
From Coq Require Import NArith List String.
From Tink Require Import RepoConsts AeadFrame.
Open Scope N_scope.

(* every regenerated constant this file needs is named in a lemma below: if the translator
   cannot find one in the source its definition is missing and that lemma stops checking;
   constants of other properties do not matter here *)

(* internal/aead.CheckAESGCMPlaintextSize: min(MaxInt - ivSize - tagSize, aesGCMMaxPlaintextSize) *)
Lemma tie_gcm_tink_max :
  gcm_tink_max = N.min (MaxInt - gen_aesgcm_iv_size - gen_aesgcm_tag_size) gen_aesgcm_max_plaintext.
Proof. reflexivity. Qed.

Lemma tie_chacha_seal_max : chacha_tink_seal_max = gen_chacha_max_plaintext.
Proof. reflexivity. Qed.

Lemma tie_chacha_ct_max : chacha_tink_ct_max = gen_chacha_max_ciphertext.
Proof. reflexivity. Qed.

(* the limits Tink enforces are exactly the limits above which x/crypto panics *)
Lemma tink_chacha_limits_are_the_library_limits :
  chacha_tink_seal_max = chacha_seal_max /\ chacha_tink_ct_max = chacha_open_max.
Proof. split; reflexivity. Qed.

Lemma tie_nonce_sizes :
  gen_aesgcm_iv_size = 12 /\ gen_aesgcm_tag_size = 16 /\ gen_aesgcmsiv_nonce_size = 12 /\
  gen_aesctr_min_iv_size = 12.
Proof. repeat split; reflexivity. Qed.
