(* C01/C02 — KMS envelope AEAD over an AES-CTR-HMAC data key (model/EnvelopeDekEtm.v), closed over the
   AES-CTR-HMAC model (EtM.v) and the protobuf wire model (ProtoWire.v): round trip, exact acceptance, no
   panic, wire format.  Only the key-encryption AEAD stays abstract (laws kek_rt / kek_only explicit), AES
   and HMAC are quantified functions with their output lengths as the only hypotheses.  The data key is
   whatever byte string protobuf unmarshals to a valid key (any encoding of it); IV size, tag size, hash
   and key sizes are those of the parsed key, not of any template (fourth audit A1). *)
From Coq Require Import List NArith Bool Arith Lia ZifyN ZifyNat ZifyBool.
From Tink Require Import Bytes AeadFrame AeadFrameProofs Ctr CtrProofs EtM EtMProofs Envelope EnvelopeProofs
  ProtoWire ProtoWireProofs EnvelopeDekEtm.
Import ListNotations.
Open Scope N_scope.

Lemma hash_len_bounds h hl : hash_len h = Some hl -> 1 <= h <= 5 /\ (hl <= 64)%nat.
Proof.
  intros H. destruct h as [|[[[?|?|]|[?|?|]|]|[[?|?|]|[?|?|]|]|]]; cbn in H; try discriminate; inversion H; lia.
Qed.

Lemma etm_valid_facts hl k : etm_valid hl k = true ->
  (length (ek_aes k) = 16 \/ length (ek_aes k) = 32)%nat /\ (12 <= ek_iv k <= 16)%nat /\
  (10 <= ek_tag k <= hl)%nat /\ (16 <= length (ek_hmac k))%nat.
Proof. unfold etm_valid. intros H. lia. Qed.

Lemma etm_schema_wf : wf_schema etm_schema = true.
Proof. vm_compute. reflexivity. Qed.

(* the key message of a valid key is what the parser extracts from itself *)
Lemma etm_of_msg_msg h hl k : hash_len h = Some hl -> etm_valid hl k = true -> etm_of_msg (etm_msg h k) = Some (h, k).
Proof.
  intros Hh Hv. unfold etm_of_msg, etm_msg. cbn [sub_or vint vbytes].
  cbn [N.eqb andb]. rewrite !Nnat.Nat2N.id, Hh.
  destruct k as [ak hk iv tg]. cbn [ek_aes ek_hmac ek_iv ek_tag] in *. rewrite Hv. reflexivity.
Qed.

Lemma etm_msg_wf h hl k : hash_len h = Some hl -> etm_valid hl k = true -> wf_msg etm_schema (etm_msg h k) = true.
Proof.
  intros Hh Hv. destruct (hash_len_bounds _ _ Hh) as [Hhb Hhl].
  destruct (etm_valid_facts _ _ Hv) as [_ [Hi [Ht _]]].
  unfold etm_schema, etm_msg, ctr_key_schema, hmac_key_schema, ctr_params_schema, hmac_params_schema.
  cbn [wf_msg wf_val scalar_ok]. unfold two32, two31, two64.
  repeat (apply andb_true_iff; split); try reflexivity; try (apply N.ltb_lt; lia).
  apply orb_true_iff. left. apply N.ltb_lt. lia.
Qed.

(* newDEK: a freshly generated key serialises to a data key that parses back *)
Lemma etm_dek_parse_proto h hl k : hash_len h = Some hl -> etm_valid hl k = true ->
  lenN (etm_dek_proto h k) < two64 ->
  etm_dek_parse (etm_dek_proto h k) = Some (h, k).
Proof.
  intros Hh Hv Hl. unfold etm_dek_parse, etm_dek_proto.
  rewrite (decode_encode etm_schema (etm_msg h k) etm_schema_wf (etm_msg_wf h hl k Hh Hv) Hl).
  exact (etm_of_msg_msg h hl k Hh Hv).
Qed.

(* whatever parses is a valid key *)
Lemma etm_dek_parse_inv dek h k : etm_dek_parse dek = Some (h, k) ->
  exists hl, hash_len h = Some hl /\ etm_valid hl k = true.
Proof.
  unfold etm_dek_parse. destruct (decode etm_schema dek) as [m|]; [|discriminate].
  unfold etm_of_msg. destruct m as [|ver [|ctr [|hm [|? ?]]]]; try discriminate.
  destruct (sub_or _ ctr) as [|cver [|cpar [|ckey [|? ?]]]]; try discriminate.
  destruct (sub_or _ hm) as [|hver [|hpar [|hkey [|? ?]]]]; try discriminate.
  destruct (sub_or _ cpar) as [|iv [|? ?]]; try discriminate.
  destruct (sub_or _ hpar) as [|hash [|tag [|? ?]]]; try discriminate.
  destruct (_ && _ && _)%bool; [|discriminate].
  destruct (hash_len (vint hash)) as [hl|] eqn:Eh; [|discriminate].
  destruct (etm_valid hl _) eqn:Ev; [|discriminate].
  intros H; inversion H; subst h k. exists hl. split; [exact Eh|exact Ev].
Qed.

Section EtmDek.
  Variable aes : bytes -> bytes -> bytes.
  Variable hmacs : N -> bytes -> bytes -> bytes.
  Hypothesis aes_len : forall k b, length (aes k b) = 16%nat.
  Hypothesis hmacs_len : forall h hl, hash_len h = Some hl -> forall k m, length (hmacs h k m) = hl.

  Notation denc := (etm_dek_enc aes hmacs).
  Notation ddec := (etm_dek_dec aes hmacs).

  Theorem etm_dek_rt dek h k iv p ad c : etm_dek_parse dek = Some (h, k) -> length iv = ek_iv k ->
    denc dek iv p ad = Ok c -> ddec dek c ad = Ok p.
  Proof.
    intros Ep Hiv. unfold etm_dek_enc, etm_dek_dec. rewrite Ep.
    destruct (etm_dek_parse_inv _ _ _ Ep) as [hl [Hh Hv]].
    destruct (etm_valid_facts _ _ Hv) as [_ [_ [Ht _]]].
    intros He. rewrite (etm_dec_is_canon aes (hmacs h) hl aes_len (hmacs_len h hl Hh)) by lia.
    apply (etm_round_trip aes (hmacs h) hl aes_len (hmacs_len h hl Hh) [] k iv p ad c); [lia|exact Hiv|exact He].
  Qed.

  Theorem etm_dek_only dek h k c ad p : etm_dek_parse dek = Some (h, k) -> lenN c <= MaxInt ->
    ddec dek c ad = Ok p -> exists iv, length iv = ek_iv k /\ denc dek iv p ad = Ok c.
  Proof.
    intros Ep Hc. unfold etm_dek_enc, etm_dek_dec. rewrite Ep.
    destruct (etm_dek_parse_inv _ _ _ Ep) as [hl [Hh Hv]].
    destruct (etm_valid_facts _ _ Hv) as [_ [_ [Ht _]]].
    rewrite (etm_dec_is_canon aes (hmacs h) hl aes_len (hmacs_len h hl Hh)) by lia. intros Hd.
    apply (etm_accept_iff aes (hmacs h) hl aes_len (hmacs_len h hl Hh) [] k c ad p) in Hd; [|lia|exact Hc].
    exact Hd.
  Qed.

  (* a data key that does not parse decrypts nothing *)
  Lemma etm_dek_dec_ok_parses dek c ad p : ddec dek c ad = Ok p -> exists h k, etm_dek_parse dek = Some (h, k).
  Proof. unfold etm_dek_dec. destruct (etm_dek_parse dek) as [[h k]|]; [|discriminate]. intros _. exists h, k. reflexivity. Qed.

  Theorem etm_dek_dec_no_panic dek c ad : ddec dek c ad <> Panic.
  Proof.
    unfold etm_dek_dec. destruct (etm_dek_parse dek) as [[h k]|] eqn:Ep; [|discriminate].
    destruct (etm_dek_parse_inv _ _ _ Ep) as [hl [Hh Hv]].
    destruct (etm_valid_facts _ _ Hv) as [_ [_ [Ht _]]].
    apply (etm_dec_no_panic aes (hmacs h) hl aes_len (hmacs_len h hl Hh)). lia.
  Qed.

  (* the data-key ciphertext is IV || CTR body || tag: |p| + IV size + tag size bytes, as short as 22 *)
  Lemma etm_dek_payload_length dek h k iv p ad c : etm_dek_parse dek = Some (h, k) ->
    denc dek iv p ad = Ok c -> length c = (length iv + length p + ek_tag k)%nat.
  Proof.
    intros Ep. unfold etm_dek_enc. rewrite Ep.
    destruct (etm_dek_parse_inv _ _ _ Ep) as [hl [Hh Hv]].
    destruct (etm_valid_facts _ _ Hv) as [_ [_ [Ht _]]]. intros He.
    apply (etm_enc_inv aes (hmacs h) hl aes_len (hmacs_len h hl Hh)) in He; [|lia]. destruct He as [_ ->].
    cbn [app]. rewrite !app_length, aes_ctr_length by apply aes_len.
    rewrite (mac_of_length aes (hmacs h) hl aes_len (hmacs_len h hl Hh)) by lia. lia.
  Qed.

  Section WithKek.
    Variable kek_enc : bytes -> bytes -> bytes -> outcome bytes.
    Variable kek_dec : bytes -> bytes -> outcome bytes.
    Variable kivlen : nat.

    (* for ANY serialised data key the key-encryption AEAD hands back, in any protobuf encoding: if it
       parses to the key (h, k) and Encrypt drew an IV of that key's size, Decrypt returns the plaintext *)
    Theorem env_round_trip_etm dek h k kekiv dekiv p ad c :
      kek_rt kek_enc kek_dec kivlen -> etm_dek_parse dek = Some (h, k) ->
      length kekiv = kivlen -> length dekiv = ek_iv k ->
      env_enc kek_enc denc dek kekiv dekiv p ad = Ok c ->
      env_dec kek_dec ddec c ad = Ok p.
    Proof.
      intros HK Ep Hk Hd. unfold env_enc, env_dec.
      destruct (kek_enc kekiv dek []) as [e| |] eqn:Ee; try discriminate. cbn [bind].
      destruct (Nat.eqb (length e) 0); [discriminate|].
      destruct (denc dek dekiv p ad) as [pl| |] eqn:Epl; try discriminate. cbn [bind].
      intros Hb. rewrite (parse_build _ _ _ Hb). cbn [bind fst snd].
      rewrite (HK _ _ _ _ Hk Ee). cbn [bind]. exact (etm_dek_rt dek h k dekiv p ad pl Ep Hd Epl).
    Qed.

    (* for the freshly generated key of any valid template: the envelope built around it decrypts, and
       it is be32(|encDEK|) || encDEK || payload with 1 <= |encDEK| <= 4096 and a payload of exactly
       IV size + |p| + tag size bytes *)
    Corollary env_round_trip_etm_fresh h hl k kekiv dekiv p ad c :
      hash_len h = Some hl -> etm_valid hl k = true -> lenN (etm_dek_proto h k) < two64 ->
      kek_rt kek_enc kek_dec kivlen -> length kekiv = kivlen -> length dekiv = ek_iv k ->
      env_enc kek_enc denc (etm_dek_proto h k) kekiv dekiv p ad = Ok c ->
      env_dec kek_dec ddec c ad = Ok p /\
      exists encDEK payload, kek_enc kekiv (etm_dek_proto h k) [] = Ok encDEK /\
        1 <= lenN encDEK <= 4096 /\
        c = be_bytes 4 (lenN encDEK) ++ encDEK ++ payload /\
        length payload = (ek_iv k + length p + ek_tag k)%nat.
    Proof.
      intros Hh Hv Hl HK H1 H2 He.
      pose proof (etm_dek_parse_proto h hl k Hh Hv Hl) as Ep.
      split; [exact (env_round_trip_etm _ h k _ _ _ _ _ HK Ep H1 H2 He)|].
      revert He. unfold env_enc.
      destruct (kek_enc kekiv (etm_dek_proto h k) []) as [e| |] eqn:Ee; cbn [bind]; try discriminate.
      destruct (Nat.eqb_spec (length e) 0) as [|H0]; [discriminate|].
      destruct (denc (etm_dek_proto h k) dekiv p ad) as [pl| |] eqn:Epl; cbn [bind]; try discriminate.
      unfold build_envelope. destruct (Nat.eqb_spec (length e) 0); [discriminate|].
      destruct (N.ltb_spec maxLengthEncryptedDEK (lenN e)) as [|Hm]; [discriminate|].
      intros Hc; inversion Hc. exists e, pl. repeat split.
      - unfold lenN. lia.
      - unfold maxLengthEncryptedDEK in Hm. exact Hm.
      - rewrite (etm_dek_payload_length _ h k dekiv p ad pl Ep Epl). lia.
    Qed.

    Theorem env_accept_iff_etm c ad p :
      kek_rt kek_enc kek_dec kivlen -> kek_only kek_enc kek_dec kivlen -> wfb c -> lenN c <= MaxInt ->
      (env_dec kek_dec ddec c ad = Ok p <->
       exists dek h k kekiv dekiv, etm_dek_parse dek = Some (h, k) /\
         length kekiv = kivlen /\ length dekiv = ek_iv k /\
         env_enc kek_enc denc dek kekiv dekiv p ad = Ok c).
    Proof.
      intros HK HKO Hw Hc. split.
      - unfold env_dec. destruct (parse_envelope c) as [[e pl]| |] eqn:Ep; try discriminate. cbn [bind fst snd].
        destruct (kek_dec e []) as [dek| |] eqn:Ek; try discriminate. cbn [bind]. intros Hd.
        destruct (HKO _ _ _ Ek) as [kekiv [Hkl Hke]].
        pose proof (build_parse _ _ _ Hw Ep) as Hb.
        assert (Hpl : lenN pl <= MaxInt).
        { revert Hb. unfold build_envelope. destruct (Nat.eqb (length e) 0); [discriminate|].
          destruct (maxLengthEncryptedDEK <? lenN e); [discriminate|]. intros Hq; inversion Hq as [Hq'].
          rewrite <- Hq' in Hc. unfold lenN in *. cbn [length] in Hc. rewrite !app_length in Hc. lia. }
        destruct (etm_dek_dec_ok_parses _ _ _ _ Hd) as [h [k Epk]].
        destruct (etm_dek_only dek h k pl ad p Epk Hpl Hd) as [dekiv [Hdl Hde]].
        exists dek, h, k, kekiv, dekiv. repeat split; auto.
        unfold env_enc. rewrite Hke. cbn [bind].
        destruct (Nat.eqb_spec (length e) 0) as [H0|H0].
        + unfold build_envelope in Hb. rewrite H0 in Hb. discriminate.
        + rewrite Hde. cbn [bind]. exact Hb.
      - intros [dek [h [k [kekiv [dekiv [Epk [Hk [Hd H]]]]]]]]. eapply env_round_trip_etm; eauto.
    Qed.

    Theorem env_dec_no_panic_etm c ad :
      (forall c ad, kek_dec c ad <> Panic) -> env_dec kek_dec ddec c ad <> Panic.
    Proof. intros HK. apply env_dec_no_panic; [exact HK|]. intros dek c0 ad0. apply etm_dek_dec_no_panic. Qed.
  End WithKek.
End EtmDek.

(* ---- non-vacuity ---- *)
(* a valid template with IV 12 and tag 10 (data-key ciphertexts of 22 + |p| bytes) *)
Example etm_small_key : etm_key := mkEtm (repeat 1 16) (repeat 2 16) 12 10.
Example etm_small_valid : hash_len 3 = Some 32%nat /\ etm_valid 32 etm_small_key = true /\
  etm_dek_parse (etm_dek_proto 3 etm_small_key) = Some (3, etm_small_key) /\
  (* the serialisation is the 50 bytes Go's proto.Marshal produces *)
  etm_dek_proto 3 etm_small_key =
    [18; 22; 18; 2; 8; 12; 26; 16] ++ repeat 1 16 ++ [26; 24; 18; 4; 8; 3; 16; 10; 26; 16] ++ repeat 2 16.
Proof. repeat split; vm_compute; reflexivity. Qed.

(* other protobuf encodings of the same key parse to the same key: explicit version 0 in front, an
   unknown field behind, the two key messages in the other order (what Tink accepts, fourth audit A1) *)
Example etm_noncanonical_deks_parse :
  let ctr := [18; 22; 18; 2; 8; 12; 26; 16] ++ repeat 1 16 in
  let hm := [26; 24; 18; 4; 8; 3; 16; 10; 26; 16] ++ repeat 2 16 in
  etm_dek_parse ([8; 0] ++ ctr ++ hm) = Some (3, etm_small_key) /\
  etm_dek_parse (ctr ++ hm ++ [40; 1]) = Some (3, etm_small_key) /\
  etm_dek_parse (hm ++ ctr) = Some (3, etm_small_key) /\
  (* a key with another IV size than any template at hand is a key all the same *)
  etm_dek_parse (etm_dek_proto 3 (mkEtm (repeat 1 16) (repeat 2 16) 16 10)) = Some (3, mkEtm (repeat 1 16) (repeat 2 16) 16 10) /\
  (* version 1, a 24-byte AES key, a missing HMAC key message: refused *)
  etm_dek_parse ([8; 1] ++ ctr ++ hm) = None /\
  etm_dek_parse (etm_dek_proto 3 (mkEtm (repeat 1 24) (repeat 2 16) 12 10)) = None /\
  etm_dek_parse ctr = None.
Proof. repeat split; vm_compute; reflexivity. Qed.
