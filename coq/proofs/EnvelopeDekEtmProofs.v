(* C01/C02 — KMS envelope AEAD over an AES-CTR-HMAC data key (model/EnvelopeDekEtm.v), closed over the
   AES-CTR-HMAC model (EtM.v): round trip, exact acceptance, no panic, wire format.  Only the
   key-encryption AEAD stays abstract (laws kek_rt / kek_only explicit), AES and HMAC are quantified
   functions with their output lengths as the only hypotheses. *)
From Coq Require Import List NArith Bool Arith Lia ZifyN ZifyNat ZifyBool.
From Tink Require Import Bytes AeadFrame AeadFrameProofs Ctr CtrProofs EtM EtMProofs Envelope EnvelopeProofs EnvelopeDekEtm.
Import ListNotations.
Open Scope N_scope.

Lemma take_pfield_pfield tag x r : lenN x < 128 -> take_pfield tag (pfield tag x ++ r) = Some (x, r).
Proof.
  intros Hx. unfold pfield, take_pfield. cbn [app]. rewrite N.eqb_refl.
  destruct (N.ltb_spec (lenN x) 128) as [_|]; [|lia].
  destruct (N.leb_spec (lenN x) (lenN (x ++ r))) as [_|Hc].
  2:{ unfold lenN in Hc. rewrite app_length in Hc. lia. }
  cbn [andb]. unfold lenN. rewrite Nnat.Nat2N.id, firstn_app_exact, skipn_app_exact. reflexivity.
Qed.

Lemma take_pfield_last tag x : lenN x < 128 -> take_pfield tag (pfield tag x) = Some (x, []).
Proof. intros Hx. rewrite <- (app_nil_r (pfield tag x)). apply take_pfield_pfield. exact Hx. Qed.

Lemma take_pfield_inv tag b x r : take_pfield tag b = Some (x, r) -> b = pfield tag x ++ r /\ lenN x < 128.
Proof.
  unfold take_pfield. destruct b as [|t [|n rest]]; try discriminate.
  destruct (N.eqb_spec t tag) as [->|]; [|discriminate].
  destruct (N.ltb_spec n 128) as [Hn|]; [|discriminate].
  destruct (N.leb_spec n (lenN rest)) as [Hl|]; [|discriminate]. cbn [andb].
  intros H; inversion H; subst x r; clear H. unfold lenN in *.
  assert (Hf : length (firstn (N.to_nat n) rest) = N.to_nat n) by (rewrite firstn_length; lia).
  split; [|lia]. unfold pfield, lenN. rewrite Hf, Nnat.N2Nat.id. cbn [app]. rewrite firstn_skipn. reflexivity.
Qed.

Lemma parse_keymsg_ok par kv : lenN par < 128 -> lenN kv < 128 ->
  parse_keymsg (pfield 18 par ++ pfield 26 kv) = Some (par, kv).
Proof.
  intros Hp Hk. unfold parse_keymsg. rewrite take_pfield_pfield by exact Hp.
  rewrite take_pfield_last by exact Hk. reflexivity.
Qed.

Lemma parse_keymsg_inv b par kv : parse_keymsg b = Some (par, kv) -> b = pfield 18 par ++ pfield 26 kv.
Proof.
  unfold parse_keymsg. destruct (take_pfield 18 b) as [[p r]|] eqn:E1; [|discriminate].
  destruct (take_pfield 26 r) as [[k [|? ?]]|] eqn:E2; try discriminate.
  intros H; inversion H; subst p k; clear H.
  apply take_pfield_inv in E1. apply take_pfield_inv in E2. destruct E1 as [-> _], E2 as [-> _].
  rewrite app_nil_r. reflexivity.
Qed.

Lemma hash_len_bounds h hl : hash_len h = Some hl -> 1 <= h <= 5 /\ (hl <= 64)%nat.
Proof.
  intros H. destruct h as [|[[[?|?|]|[?|?|]|]|[[?|?|]|[?|?|]|]|]]; cbn in H; try discriminate; inversion H; lia.
Qed.

Lemma etm_valid_facts hl k : etm_valid hl k = true ->
  (length (ek_aes k) = 16 \/ length (ek_aes k) = 32)%nat /\ (12 <= ek_iv k <= 16)%nat /\
  (10 <= ek_tag k <= hl)%nat /\ (16 <= length (ek_hmac k))%nat.
Proof. unfold etm_valid. intros H. lia. Qed.

(* newDEK: a freshly generated key serialises to a data key that parses back *)
Lemma etm_dek_parse_proto h hl k : hash_len h = Some hl -> etm_valid hl k = true -> (length (ek_hmac k) <= 100)%nat ->
  etm_dek_parse (ek_iv k) (etm_dek_proto h k) = Some (h, k).
Proof.
  intros Hh Hv Hm. destruct (hash_len_bounds _ _ Hh) as [Hhb Hhl].
  destruct (etm_valid_facts _ _ Hv) as [Ha [Hi [Ht Hk]]].
  unfold etm_dek_parse, etm_dek_proto.
  set (cp := ctr_params_bytes (N.of_nat (ek_iv k))). set (hp := hmac_params_bytes h (N.of_nat (ek_tag k))).
  assert (Lcp : lenN cp = 2) by reflexivity. assert (Lhp : lenN hp = 4) by reflexivity.
  assert (La : lenN (ek_aes k) < 128) by (unfold lenN; lia).
  assert (Lk : lenN (ek_hmac k) < 128) by (unfold lenN; lia).
  assert (Lc : lenN (pfield 18 cp ++ pfield 26 (ek_aes k)) < 128).
  { unfold lenN, pfield. rewrite app_length. cbn [length]. unfold lenN in *. lia. }
  assert (Lh : lenN (pfield 18 hp ++ pfield 26 (ek_hmac k)) < 128).
  { unfold lenN, pfield. rewrite app_length. cbn [length]. unfold lenN in *. lia. }
  rewrite take_pfield_pfield by exact Lc. rewrite take_pfield_last by exact Lh.
  rewrite !parse_keymsg_ok by lia.
  unfold cp, hp, ctr_params_bytes, hmac_params_bytes, parse_ctr_params, parse_hmac_params.
  rewrite !N.eqb_refl.
  destruct (N.ltb_spec (N.of_nat (ek_iv k)) 128); [|lia].
  destruct (N.ltb_spec h 128); [|lia].
  destruct (N.ltb_spec (N.of_nat (ek_tag k)) 128); [|lia].
  cbn [andb]. rewrite Hh, !Nnat.Nat2N.id.
  destruct k as [ak hk iv tg]. cbn [ek_aes ek_hmac ek_iv ek_tag] in *.
  rewrite Hv, Nat.eqb_refl. reflexivity.
Qed.

(* whatever parses is a valid key of the template's IV size, and is the serialisation of that key *)
Lemma etm_dek_parse_inv ivsz dek h k : etm_dek_parse ivsz dek = Some (h, k) ->
  exists hl, hash_len h = Some hl /\ etm_valid hl k = true /\ ek_iv k = ivsz /\ dek = etm_dek_proto h k.
Proof.
  unfold etm_dek_parse.
  destruct (take_pfield 18 dek) as [[ctr r1]|] eqn:E1; [|discriminate].
  destruct (take_pfield 26 r1) as [[hm [|? ?]]|] eqn:E2; try discriminate.
  destruct (parse_keymsg ctr) as [[cp ak]|] eqn:E3; [|discriminate].
  destruct (parse_keymsg hm) as [[hp hk]|] eqn:E4; [|discriminate].
  destruct (parse_ctr_params cp) as [iv|] eqn:E5; [|discriminate].
  destruct (parse_hmac_params hp) as [[h' tg]|] eqn:E6; [|discriminate].
  destruct (hash_len h') as [hl|] eqn:E7; [|discriminate].
  destruct (etm_valid hl _) eqn:E8; [|discriminate].
  destruct (Nat.eqb_spec (ek_iv (mkEtm ak hk (N.to_nat iv) (N.to_nat tg))) ivsz) as [E9|]; [|discriminate].
  cbn [andb]. intros H; inversion H; subst h' k; clear H.
  exists hl. repeat split; auto.
  apply take_pfield_inv in E1. apply take_pfield_inv in E2. destruct E1 as [-> _], E2 as [-> _].
  apply parse_keymsg_inv in E3. apply parse_keymsg_inv in E4. subst ctr hm. rewrite app_nil_r.
  unfold etm_dek_proto. cbn [ek_aes ek_hmac ek_iv ek_tag].
  assert (cp = ctr_params_bytes (N.of_nat (N.to_nat iv))) as ->.
  { unfold parse_ctr_params in E5. destruct cp as [|a [|iv' [|? ?]]]; try discriminate.
    destruct (N.eqb_spec a 8) as [->|]; [|discriminate]. destruct (iv' <? 128); [|discriminate].
    inversion E5. rewrite Nnat.N2Nat.id. reflexivity. }
  assert (hp = hmac_params_bytes h (N.of_nat (N.to_nat tg))) as ->.
  { unfold parse_hmac_params in E6. destruct hp as [|a [|h0 [|c [|t0 [|? ?]]]]]; try discriminate.
    destruct (N.eqb_spec a 8) as [->|]; [|discriminate]. destruct (N.eqb_spec c 16) as [->|]; [|discriminate].
    destruct (h0 <? 128); [|discriminate]. destruct (t0 <? 128); [|discriminate].
    inversion E6. rewrite Nnat.N2Nat.id. reflexivity. }
  reflexivity.
Qed.

Section EtmDek.
  Variable aes : bytes -> bytes -> bytes.
  Variable hmacs : N -> bytes -> bytes -> bytes.
  Hypothesis aes_len : forall k b, length (aes k b) = 16%nat.
  Hypothesis hmacs_len : forall h hl, hash_len h = Some hl -> forall k m, length (hmacs h k m) = hl.

  Notation denc := (etm_dek_enc aes hmacs).
  Notation ddec := (etm_dek_dec aes hmacs).

  Theorem etm_dek_rt ivsz : dek_rt (denc ivsz) (ddec ivsz) ivsz.
  Proof.
    intros dek iv p ad c Hiv. unfold etm_dek_enc, etm_dek_dec.
    destruct (etm_dek_parse ivsz dek) as [[h k]|] eqn:Ep; [|discriminate].
    destruct (etm_dek_parse_inv _ _ _ _ Ep) as [hl [Hh [Hv [Hi _]]]].
    destruct (etm_valid_facts _ _ Hv) as [_ [_ [Ht _]]].
    intros He. rewrite (etm_dec_is_canon aes (hmacs h) hl aes_len (hmacs_len h hl Hh)) by lia.
    apply (etm_round_trip aes (hmacs h) hl aes_len (hmacs_len h hl Hh) [] k iv p ad c); [lia|lia|exact He].
  Qed.

  Theorem etm_dek_only ivsz dek c ad p : lenN c <= MaxInt ->
    ddec ivsz dek c ad = Ok p -> exists iv, length iv = ivsz /\ denc ivsz dek iv p ad = Ok c.
  Proof.
    intros Hc. unfold etm_dek_enc, etm_dek_dec.
    destruct (etm_dek_parse ivsz dek) as [[h k]|] eqn:Ep; [|discriminate].
    destruct (etm_dek_parse_inv _ _ _ _ Ep) as [hl [Hh [Hv [Hi _]]]].
    destruct (etm_valid_facts _ _ Hv) as [_ [_ [Ht _]]].
    rewrite (etm_dec_is_canon aes (hmacs h) hl aes_len (hmacs_len h hl Hh)) by lia. intros Hd.
    apply (etm_accept_iff aes (hmacs h) hl aes_len (hmacs_len h hl Hh) [] k c ad p) in Hd; [|lia|exact Hc].
    destruct Hd as [iv [Hl He]]. exists iv. split; [lia|exact He].
  Qed.

  Theorem etm_dek_dec_no_panic ivsz dek c ad : ddec ivsz dek c ad <> Panic.
  Proof.
    unfold etm_dek_dec. destruct (etm_dek_parse ivsz dek) as [[h k]|] eqn:Ep; [|discriminate].
    destruct (etm_dek_parse_inv _ _ _ _ Ep) as [hl [Hh [Hv _]]].
    destruct (etm_valid_facts _ _ Hv) as [_ [_ [Ht _]]].
    apply (etm_dec_no_panic aes (hmacs h) hl aes_len (hmacs_len h hl Hh)). lia.
  Qed.

  (* the data-key ciphertext is IV || CTR body || tag: |p| + IV size + tag size bytes, as short as 22 *)
  Lemma etm_dek_payload_length h hl k iv p ad c : hash_len h = Some hl -> etm_valid hl k = true ->
    (length (ek_hmac k) <= 100)%nat -> length iv = ek_iv k ->
    denc (ek_iv k) (etm_dek_proto h k) iv p ad = Ok c -> length c = (ek_iv k + length p + ek_tag k)%nat.
  Proof.
    intros Hh Hv Hm Hiv. unfold etm_dek_enc. rewrite (etm_dek_parse_proto h hl k Hh Hv Hm).
    destruct (etm_valid_facts _ _ Hv) as [_ [_ [Ht _]]]. intros He.
    apply (etm_enc_inv aes (hmacs h) hl aes_len (hmacs_len h hl Hh)) in He; [|lia]. destruct He as [_ ->].
    cbn [app]. rewrite !app_length, aes_ctr_length by apply aes_len.
    rewrite (mac_of_length aes (hmacs h) hl aes_len (hmacs_len h hl Hh)) by lia. lia.
  Qed.

  Section WithKek.
    Variable kek_enc : bytes -> bytes -> bytes -> outcome bytes.
    Variable kek_dec : bytes -> bytes -> outcome bytes.
    Variable kivlen : nat.

    Theorem env_round_trip_etm ivsz dek kekiv dekiv p ad c :
      kek_rt kek_enc kek_dec kivlen ->
      length kekiv = kivlen -> length dekiv = ivsz ->
      env_enc kek_enc (denc ivsz) dek kekiv dekiv p ad = Ok c ->
      env_dec kek_dec (ddec ivsz) c ad = Ok p.
    Proof.
      intros HK H1 H2 He.
      exact (env_round_trip kek_enc kek_dec (denc ivsz) (ddec ivsz) kivlen ivsz
               dek kekiv dekiv p ad c HK (etm_dek_rt ivsz) H1 H2 He).
    Qed.

    (* for the freshly generated key of any valid template: the envelope built around it decrypts *)
    Corollary env_round_trip_etm_fresh h hl k kekiv dekiv p ad c :
      hash_len h = Some hl -> etm_valid hl k = true -> (length (ek_hmac k) <= 100)%nat ->
      kek_rt kek_enc kek_dec kivlen -> length kekiv = kivlen -> length dekiv = ek_iv k ->
      env_enc kek_enc (denc (ek_iv k)) (etm_dek_proto h k) kekiv dekiv p ad = Ok c ->
      env_dec kek_dec (ddec (ek_iv k)) c ad = Ok p /\
      exists encDEK payload, kek_enc kekiv (etm_dek_proto h k) [] = Ok encDEK /\
        c = be_bytes 4 (lenN encDEK) ++ encDEK ++ payload /\
        length payload = (ek_iv k + length p + ek_tag k)%nat.
    Proof.
      intros Hh Hv Hm HK H1 H2 He. split; [exact (env_round_trip_etm _ _ _ _ _ _ _ HK H1 H2 He)|].
      revert He. unfold env_enc.
      destruct (kek_enc kekiv (etm_dek_proto h k) []) as [e| |] eqn:Ee; cbn [bind]; try discriminate.
      destruct (Nat.eqb (length e) 0); [discriminate|].
      destruct (denc (ek_iv k) (etm_dek_proto h k) dekiv p ad) as [pl| |] eqn:Ep; cbn [bind]; try discriminate.
      unfold build_envelope. destruct (Nat.eqb (length e) 0); [discriminate|].
      destruct (maxLengthEncryptedDEK <? lenN e); [discriminate|].
      intros Hc; inversion Hc. exists e, pl. repeat split.
      exact (etm_dek_payload_length h hl k dekiv p ad pl Hh Hv Hm H2 Ep).
    Qed.

    Theorem env_accept_iff_etm ivsz c ad p :
      kek_rt kek_enc kek_dec kivlen -> kek_only kek_enc kek_dec kivlen -> wfb c -> lenN c <= MaxInt ->
      (env_dec kek_dec (ddec ivsz) c ad = Ok p <->
       exists dek kekiv dekiv, length kekiv = kivlen /\ length dekiv = ivsz /\
         env_enc kek_enc (denc ivsz) dek kekiv dekiv p ad = Ok c).
    Proof.
      intros HK HKO Hw Hc. split.
      - unfold env_dec. destruct (parse_envelope c) as [[e pl]| |] eqn:Ep; try discriminate. cbn [bind fst snd].
        destruct (kek_dec e []) as [dek| |] eqn:Ek; try discriminate. cbn [bind]. intros Hd.
        destruct (HKO _ _ _ Ek) as [kekiv [Hkl Hke]].
        pose proof (build_parse _ _ _ Hw Ep) as Hb.
        assert (Hpl : lenN pl <= MaxInt).
        { revert Hb. unfold build_envelope. destruct (Nat.eqb (length e) 0); [discriminate|].
          destruct (maxLengthEncryptedDEK <? lenN e); [discriminate|]. intros Hq; inversion Hq as [Hq'].
          rewrite <- Hq' in Hc. unfold lenN in *. cbn [length] in Hc. rewrite !app_length in Hc. lia. }
        destruct (etm_dek_only ivsz dek pl ad p Hpl Hd) as [dekiv [Hdl Hde]].
        exists dek, kekiv, dekiv. repeat split; auto.
        unfold env_enc. rewrite Hke. cbn [bind].
        destruct (Nat.eqb_spec (length e) 0) as [H0|H0].
        + unfold build_envelope in Hb. rewrite H0 in Hb. discriminate.
        + rewrite Hde. cbn [bind]. exact Hb.
      - intros [dek [kekiv [dekiv [Hk [Hd H]]]]]. eapply env_round_trip_etm; eauto.
    Qed.

    Theorem env_dec_no_panic_etm ivsz c ad :
      (forall c ad, kek_dec c ad <> Panic) -> env_dec kek_dec (ddec ivsz) c ad <> Panic.
    Proof. intros HK. apply env_dec_no_panic; [exact HK|]. intros dek c0 ad0. apply etm_dek_dec_no_panic. Qed.
  End WithKek.
End EtmDek.

(* non-vacuity: a valid template with IV 12 and tag 10 (data-key ciphertexts of 22 + |p| bytes) *)
Example etm_small_key : etm_key := mkEtm (repeat 1 16) (repeat 2 16) 12 10.
Example etm_small_valid : hash_len 3 = Some 32%nat /\ etm_valid 32 etm_small_key = true /\
  etm_dek_parse 12 (etm_dek_proto 3 etm_small_key) = Some (3, etm_small_key).
Proof. repeat split; vm_compute; reflexivity. Qed.
