(* More about model/Manager.v (C11):
   - history-level characterisation of when Manager.Handle() fails,
   - what every operation leaves untouched: ids, id requirements, key objects,
     order and (for the entries it does not name) statuses. *)
From Coq Require Import List NArith Bool Lia.
From Tink Require Import Manager ManagerProofs.
Import ListNotations.
Open Scope N_scope.

(* ---- which (operation, result) pairs can create a primary ------------- *)

Definition has_kprimary (opts : list kopt) : bool :=
  existsb (fun o => match o with KPrimary => true | _ => false end) opts.

Definition gains_primary (o : op) (r : result) : bool :=
  match o, r with
  | OSetPrimary _, ROk => true
  | OAddOpts _ _ opts, RId _ => has_kprimary opts
  | OFromHandle _, ROk => true
  | _, _ => false
  end.

Lemma apply_opts_prim req opts : forall p p',
  apply_opts req p opts = Some p' -> p_prim p' = p_prim p || has_kprimary opts.
Proof.
  induction opts as [|o opts IH]; intros p p' H; simpl in *.
  - inversion H; subst. rewrite orb_false_r. reflexivity.
  - destruct o as [s|id|].
    + apply IH in H. simpl in H. exact H.
    + destruct req as [r|].
      * destruct (N.eqb r id); [|discriminate]. apply IH in H. simpl in H. exact H.
      * apply IH in H. simpl in H. exact H.
    + apply IH in H. simpl in H. rewrite H. rewrite orb_true_r. reflexivity.
Qed.

Lemma count_prim_snoc_false l e : eprim e = false -> count_prim (l ++ [e]) = count_prim l.
Proof. intros H. rewrite count_prim_app. unfold count_prim at 2. simpl. rewrite H. simpl. lia. Qed.

Lemma count_prim_zero_upd id f l :
  (forall e, eprim (f e) = eprim e) -> count_prim l = 0%nat -> count_prim (upd_first id f l) = 0%nat.
Proof. intros Hf H. rewrite count_prim_upd_same; auto. Qed.

(* a step that is not one of the three primary-creating ones keeps "no primary" *)
Theorem no_primary_preserved s o :
  count_prim (ents (smgr s)) = 0%nat ->
  gains_primary o (snd (step s o)) = false ->
  count_prim (ents (smgr (fst (step s o)))) = 0%nat.
Proof.
  intros H0 Hg.
  destruct o as [t|raw|req k|req k opts|id|id|id|id| |n]; simpl in *.
  - destruct t; simpl; auto; unfold add_fresh;
      destruct (new_random_id _ _ _) as [[[[? ?] ?] ?]|]; simpl; auto;
      rewrite count_prim_snoc_false; auto.
  - unfold add_fresh; destruct (new_random_id _ _ _) as [[[[? ?] ?] ?]|]; simpl; auto;
      rewrite count_prim_snoc_false; auto.
  - destruct req as [id|].
    + destruct (mem id _); simpl; auto. rewrite count_prim_snoc_false; auto.
    + unfold add_fresh; destruct (new_random_id _ _ _) as [[[[? ?] ?] ?]|]; simpl; auto;
      rewrite count_prim_snoc_false; auto.
  - destruct (apply_opts req _ opts) as [p|] eqn:A; simpl in *; auto.
    apply apply_opts_prim in A. simpl in A.
    destruct (status_eqb (p_st p) UnknownStatus); simpl in *; auto.
    destruct (p_prim p && negb (status_eqb (p_st p) Enabled)); simpl in *; auto.
    destruct (p_has p).
    + destruct (mem (p_fixed p) (unavail (smgr s))); simpl in *; auto.
      rewrite Hg in A. rewrite A. rewrite count_prim_snoc_false; auto.
    + destruct (new_random_id _ _ _) as [[[[? ?] ?] ?]|]; simpl in *; auto.
      rewrite Hg in A. rewrite A. rewrite count_prim_snoc_false; auto.
  - destruct (find_entry _ id) as [e|] eqn:F; simpl in *; auto.
    destruct (status_eqb (est e) Enabled) eqn:S; simpl in *; auto. discriminate.
  - destruct (find_entry _ id) as [e|] eqn:F; simpl; auto.
    destruct (_ || _); simpl; auto. rewrite set_status_upd, count_prim_upd_same; auto.
  - destruct (find_entry _ id) as [e|] eqn:F; simpl; auto.
    destruct (eprim e); simpl; auto.
    destruct (_ || _); simpl; auto. rewrite set_status_upd, count_prim_upd_same; auto.
  - destruct (find_entry _ id) as [e|] eqn:F; simpl; auto.
    destruct (eprim e) eqn:P; simpl; auto.
    pose proof (count_prim_delete id (ents (smgr s))). lia.
  - destruct (make_handle _); simpl; auto.
  - destruct (nth_error (shandles s) n) as [h|] eqn:N; simpl in *; auto. discriminate.
Qed.

(* a primary-creating step really leaves exactly one primary *)
Theorem gains_primary_sound s o : SInv s ->
  gains_primary o (snd (step s o)) = true ->
  count_prim (ents (smgr (fst (step s o)))) = 1%nat.
Proof.
  intros HS Hg. pose proof HS as [[HE HU] HH].
  destruct o as [t|raw|req k|req k opts|id|id|id|id| |n]; simpl in *.
  - destruct t; simpl in *; try discriminate; unfold add_fresh in *;
      destruct (new_random_id _ _ _) as [[[[? ?] ?] ?]|]; simpl in *; discriminate.
  - unfold add_fresh in *; destruct (new_random_id _ _ _) as [[[[? ?] ?] ?]|]; simpl in *; discriminate.
  - destruct req as [id|].
    + destruct (mem id _); simpl in *; discriminate.
    + unfold add_fresh in *; destruct (new_random_id _ _ _) as [[[[? ?] ?] ?]|]; simpl in *; discriminate.
  - destruct (apply_opts req _ opts) as [p|] eqn:A; simpl in *; [|discriminate].
    apply apply_opts_prim in A. simpl in A.
    destruct (status_eqb (p_st p) UnknownStatus); simpl in *; [discriminate|].
    destruct (p_prim p && negb (status_eqb (p_st p) Enabled)); simpl in *; [discriminate|].
    assert (Hc : forall id, p_prim p = true ->
                 count_prim ((if p_prim p then clear_primary (ents (smgr s)) else ents (smgr s))
                             ++ [mkEntry id (p_st p) (p_prim p) req k]) = 1%nat).
    { intros id Hp. rewrite Hp. rewrite count_prim_app. unfold count_prim at 2. simpl.
      rewrite clear_primary_count. reflexivity. }
    destruct (p_has p).
    + destruct (mem (p_fixed p) (unavail (smgr s))); simpl in *; [discriminate|].
      apply Hc. rewrite A, Hg. reflexivity.
    + destruct (new_random_id _ _ _) as [[[[? ?] ?] ?]|]; simpl in *; [|discriminate].
      apply Hc. rewrite A, Hg. reflexivity.
  - destruct (find_entry _ id) as [e|] eqn:F; simpl in *; [|discriminate].
    destruct (status_eqb (est e) Enabled) eqn:S; simpl in *; [|discriminate].
    apply status_eqb_eq in S. apply (EInv_set_primary id _ e HE F S).
  - destruct (find_entry _ id) as [e|]; simpl in *; [|discriminate].
    destruct (_ || _); simpl in *; discriminate.
  - destruct (find_entry _ id) as [e|]; simpl in *; [|discriminate].
    destruct (eprim e); simpl in *; [discriminate|]. destruct (_ || _); simpl in *; discriminate.
  - destruct (find_entry _ id) as [e|]; simpl in *; [|discriminate].
    destruct (eprim e); simpl in *; discriminate.
  - destruct (make_handle _); simpl in *; discriminate.
  - destruct (nth_error (shandles s) n) as [h|] eqn:N; simpl in *; [|discriminate].
    apply nth_error_In in N. rewrite Forall_forall in HH. apply HH in N. apply N.
Qed.

(* the (operation, result) trace of a run *)
Definition trace (s : state) (ops : list op) : list (op * result) := combine ops (snd (run s ops)).

Lemma run_cons s o ops :
  run s (o :: ops) = (fst (run (fst (step s o)) ops), snd (step s o) :: snd (run (fst (step s o)) ops)).
Proof.
  simpl. destruct (step s o) as [s1 r]. simpl. destruct (run s1 ops) as [s2 rs]. reflexivity.
Qed.

Lemma count_prim_01 l : EInv l -> count_prim l = 0%nat \/ count_prim l = 1%nat.
Proof. intros H. pose proof (ei_prim1 l H). lia. Qed.

(* over a whole history: after the run there is a primary iff the run started with
   one or some step of it created one *)
Theorem primary_iff_history ops : forall s, SInv s ->
  (count_prim (ents (smgr (fst (run s ops)))) = 1%nat <->
   count_prim (ents (smgr s)) = 1%nat \/
   existsb (fun '(o, r) => gains_primary o r) (trace s ops) = true).
Proof.
  induction ops as [|o ops IH]; intros s HS.
  - simpl. split; [auto|]. intros [H|H]; [auto|discriminate].
  - unfold trace. rewrite run_cons. cbn [fst snd combine existsb].
    pose proof (step_inv s o HS) as HS1.
    specialize (IH _ HS1). unfold trace in IH. rewrite IH. clear IH.
    destruct (gains_primary o (snd (step s o))) eqn:G; cbn [orb].
    + split; [intros _; right; reflexivity|]. intros _. left. apply gains_primary_sound; auto.
    + split.
      * intros [H|H]; [|right; exact H].
        destruct HS as [[HE _] _]. destruct (count_prim_01 _ HE) as [H0|H1]; [|left; exact H1].
        rewrite (no_primary_preserved s o H0 G) in H. discriminate.
      * intros [H|H]; [|right; exact H]. left. apply primary_persists; auto.
Qed.

(* Manager.Handle() after any history from an EMPTY manager fails iff no step of the
   history was a successful SetPrimary, a successful AddKeyWithOpts(AsPrimary) or a
   NewManagerFromHandle *)
Theorem handle_fails_iff_history tape ops :
  let s := fst (run (init_state None tape) ops) in
  snd (step s OHandle) = RErr <->
  existsb (fun '(o, r) => gains_primary o r) (trace (init_state None tape) ops) = false.
Proof.
  intros s.
  assert (HS0 : SInv (init_state None tape)) by (apply init_inv; intros h0 H; discriminate).
  assert (HS : SInv s) by (apply run_inv; exact HS0).
  rewrite (handle_err_iff s HS).
  pose proof (primary_iff_history ops _ HS0) as P. fold s in P.
  destruct HS as [[HE _] _].
  destruct (existsb _ _) eqn:E.
  - split; [|discriminate]. intros H0. assert (H1 : count_prim (ents (smgr s)) = 1%nat) by (apply P; auto).
    rewrite H0 in H1. discriminate.
  - split; [reflexivity|]. intros _. destruct (count_prim_01 _ HE) as [H0|H1]; [exact H0|].
    apply P in H1. destruct H1 as [H1|H1]; [simpl in H1; discriminate|discriminate].
Qed.

(* ---- what operations leave untouched --------------------------------- *)

(* the part of an entry no manager operation may change *)
Definition kp (e : entry) : N * option N * N := (eid e, ereq e, ekey e).
(* ... and with the status *)
Definition skp (e : entry) : N * status * option N * N := (eid e, est e, ereq e, ekey e).

Lemma kp_upd_first id f l : (forall e, kp (f e) = kp e) -> map kp (upd_first id f l) = map kp l.
Proof.
  intros Hf. induction l as [|x l IH]; simpl; auto.
  destruct (N.eqb (eid x) id); simpl; [rewrite Hf|rewrite IH]; auto.
Qed.

Lemma skp_set_primary id l : map skp (set_primary id l) = map skp l.
Proof.
  rewrite set_primary_unfold. rewrite map_map.
  induction l as [|x l IH]; simpl; auto.
  destruct (N.eqb (eid x) id) eqn:E; simpl.
  - f_equal.
    + unfold clr_other, mk_prim. simpl. rewrite E. reflexivity.
    + clear IH. induction l as [|y l IH]; simpl; auto. f_equal; auto.
      unfold clr_other. destruct (eid y =? id); reflexivity.
  - f_equal; auto. unfold clr_other. rewrite E. reflexivity.
Qed.

Lemma kp_clear_primary l : map skp (clear_primary l) = map skp l.
Proof. unfold clear_primary. rewrite map_map. apply map_ext. intros e. reflexivity. Qed.

Lemma skp_kp l l' : map skp l' = map skp l -> map kp l' = map kp l.
Proof.
  revert l'. induction l as [|x l IH]; intros [|y l'] H; simpl in *; try discriminate; auto.
  inversion H as [[H1 H2 H3 H4 H5]]. f_equal; auto. unfold kp. rewrite H1, H3, H4. reflexivity.
Qed.

(* statuses: only the entry named by the operation may change *)
Lemma set_status_frame id st l :
  Forall2 (fun e e' => kp e' = kp e /\ eprim e' = eprim e /\ (eid e <> id -> est e' = est e))
          l (set_status id st l).
Proof.
  rewrite set_status_upd. induction l as [|x l IH]; simpl; [constructor|].
  destruct (N.eqb (eid x) id) eqn:E.
  - constructor.
    + simpl. repeat split; auto. intros Hne. apply N.eqb_eq in E. congruence.
    + clear IH. induction l as [|y l IH]; constructor; auto.
  - constructor; auto.
Qed.

(* the key part of the entry list after one step, as a function of the operation and
   its result: unchanged, one element appended, one element removed, or replaced by the
   named handle *)
Definition added_kp (o : op) (id : N) : N * option N * N :=
  match o with
  | OAdd TmplRaw => (id, None, 0)
  | OAdd _ => (id, Some id, 0)
  | OAddParams raw => (id, if raw then None else Some id, 0)
  | OAddKey req k => (id, match req with Some _ => Some id | None => None end, k)
  | OAddOpts req k _ => (id, req, k)
  | _ => (id, None, 0)
  end.

Definition is_add (o : op) : bool :=
  match o with OAdd _ | OAddParams _ | OAddKey _ _ | OAddOpts _ _ _ => true | _ => false end.

Theorem step_keyparts s o :
  let l := ents (smgr s) in
  let l' := ents (smgr (fst (step s o))) in
  match o, snd (step s o) with
  | ODelete id, ROk => l' = delete_first id l
  | OFromHandle k, ROk => nth_error (shandles s) k = Some l'
  | _, RId id => is_add o = true /\ map kp l' = map kp l ++ [added_kp o id]
  | _, _ => map kp l' = map kp l
  end.
Proof.
  cbv zeta.
  destruct o as [t|raw|req k|req k opts|id|id|id|id| |n]; simpl.
  - destruct t; simpl; auto; unfold add_fresh;
      destruct (new_random_id _ _ _) as [[[[? ?] ?] ?]|]; simpl; auto;
      split; auto; rewrite map_app; reflexivity.
  - unfold add_fresh; destruct (new_random_id _ _ _) as [[[[? ?] ?] ?]|]; simpl; auto;
      split; auto; rewrite map_app; destruct raw; reflexivity.
  - destruct req as [id|].
    + destruct (mem id _); simpl; auto. split; auto. rewrite map_app. reflexivity.
    + unfold add_fresh; destruct (new_random_id _ _ _) as [[[[? ?] ?] ?]|]; simpl; auto;
      split; auto; rewrite map_app; reflexivity.
  - destruct (apply_opts req _ opts) as [p|] eqn:A; simpl; auto.
    destruct (status_eqb (p_st p) UnknownStatus); simpl; auto.
    destruct (p_prim p && negb (status_eqb (p_st p) Enabled)); simpl; auto.
    assert (Hk : map kp (if p_prim p then clear_primary (ents (smgr s)) else ents (smgr s))
                 = map kp (ents (smgr s))).
    { destruct (p_prim p); auto. apply skp_kp, kp_clear_primary. }
    destruct (p_has p).
    + destruct (mem (p_fixed p) (unavail (smgr s))); simpl; auto.
      split; auto. rewrite map_app, Hk. reflexivity.
    + destruct (new_random_id _ _ _) as [[[[? ?] ?] ?]|]; simpl; auto.
      split; auto. rewrite map_app, Hk. reflexivity.
  - destruct (find_entry _ id) as [e|]; simpl; auto.
    destruct (status_eqb (est e) Enabled); simpl; auto. apply skp_kp, skp_set_primary.
  - destruct (find_entry _ id) as [e|]; simpl; auto.
    destruct (_ || _); simpl; auto. rewrite set_status_upd. apply kp_upd_first. reflexivity.
  - destruct (find_entry _ id) as [e|]; simpl; auto.
    destruct (eprim e); simpl; auto.
    destruct (_ || _); simpl; auto. rewrite set_status_upd. apply kp_upd_first. reflexivity.
  - destruct (find_entry _ id) as [e|]; simpl; auto.
    destruct (eprim e); simpl; auto.
  - destruct (make_handle _); simpl; auto.
  - destruct (nth_error (shandles s) n) as [h|] eqn:N; simpl; auto.
Qed.

(* statuses and primary flags: Enable/Disable touch only the status of the entry they
   name; SetPrimary and AddKeyWithOpts(AsPrimary) touch only primary flags; adds leave
   every existing entry as it was (AsPrimary aside); Delete removes one entry and leaves
   the others as they were (by step_keyparts: l' = delete_first id l) *)
Theorem step_status_frame s o :
  let l := ents (smgr s) in
  let l' := ents (smgr (fst (step s o))) in
  match o, snd (step s o) with
  | OEnable id, ROk | ODisable id, ROk =>
      Forall2 (fun e e' => kp e' = kp e /\ eprim e' = eprim e /\ (eid e <> id -> est e' = est e)) l l'
  | OSetPrimary _, ROk => map skp l' = map skp l
  | OAddOpts _ _ _, RId _ => map skp (removelast l') = map skp l
  | _, RId _ => removelast l' = l
  | _, _ => True
  end.
Proof.
  cbv zeta.
  destruct o as [t|raw|req k|req k opts|id|id|id|id| |n]; simpl; auto.
  - destruct t; simpl; auto; unfold add_fresh;
      destruct (new_random_id _ _ _) as [[[[? ?] ?] ?]|]; simpl; auto; apply removelast_last.
  - unfold add_fresh; destruct (new_random_id _ _ _) as [[[[? ?] ?] ?]|]; simpl; auto; apply removelast_last.
  - destruct req as [id|].
    + destruct (mem id _); simpl; auto. apply removelast_last.
    + unfold add_fresh; destruct (new_random_id _ _ _) as [[[[? ?] ?] ?]|]; simpl; auto; apply removelast_last.
  - destruct (apply_opts req _ opts) as [p|] eqn:A; simpl; auto.
    destruct (status_eqb (p_st p) UnknownStatus); simpl; auto.
    destruct (p_prim p && negb (status_eqb (p_st p) Enabled)); simpl; auto.
    assert (Hk : map skp (if p_prim p then clear_primary (ents (smgr s)) else ents (smgr s))
                 = map skp (ents (smgr s))).
    { destruct (p_prim p); auto. apply kp_clear_primary. }
    destruct (p_has p).
    + destruct (mem (p_fixed p) (unavail (smgr s))); simpl; auto.
      rewrite removelast_last. exact Hk.
    + destruct (new_random_id _ _ _) as [[[[? ?] ?] ?]|]; simpl; auto.
      rewrite removelast_last. exact Hk.
  - destruct (find_entry _ id) as [e|]; simpl; auto.
    destruct (status_eqb (est e) Enabled); simpl; auto. apply skp_set_primary.
  - destruct (find_entry _ id) as [e|]; simpl; auto.
    destruct (_ || _); simpl; auto. apply set_status_frame.
  - destruct (find_entry _ id) as [e|]; simpl; auto.
    destruct (eprim e); simpl; auto.
    destruct (_ || _); simpl; auto. apply set_status_frame.
  - destruct (find_entry _ id) as [e|]; simpl; auto. destruct (eprim e); simpl; auto.
  - destruct (make_handle _); simpl; auto.
  - destruct (nth_error (shandles s) n) as [h|]; simpl; auto.
Qed.

(* delete_first removes exactly the first entry with that id and nothing else *)
Lemma delete_first_split id l e : find_entry l id = Some e ->
  exists l1 l2, l = l1 ++ e :: l2 /\ delete_first id l = l1 ++ l2 /\
                (forall x, In x l1 -> eid x <> id).
Proof.
  induction l as [|x l IH]; simpl; [discriminate|].
  destruct (N.eqb (eid x) id) eqn:E.
  - intros H. inversion H; subst. exists [], l. repeat split; auto.
  - intros H. destruct (IH H) as (l1 & l2 & A & B & C).
    exists (x :: l1), l2. subst l. repeat split; simpl; auto; [rewrite B; auto|].
    intros y [Hy|Hy]; [subst; apply N.eqb_neq; auto | auto].
Qed.

(* ---- an id denotes one key object during a manager's lifetime ------------ *)

(* the id an add returns was not unavailable before (so it never named a key of this
   manager, present or deleted) *)
Lemma add_id_fresh s o id :
  is_add o = true -> snd (step s o) = RId id -> ~ In id (unavail (smgr s)).
Proof.
  destruct o as [t|raw|req k|req k opts|i|i|i|i| |n]; simpl; try discriminate; intros _.
  - destruct t; simpl; try discriminate; unfold add_fresh;
      destruct (new_random_id _ _ _) as [[[[x u'] t'] d]|] eqn:R; simpl; try discriminate;
      intros H; inversion H; subst; apply new_random_id_spec in R; tauto.
  - unfold add_fresh; destruct (new_random_id _ _ _) as [[[[x u'] t'] d]|] eqn:R; simpl; try discriminate;
      intros H; inversion H; subst; apply new_random_id_spec in R; tauto.
  - destruct req as [i|].
    + destruct (mem i _) eqn:M; simpl; try discriminate. intros H; inversion H; subst.
      intros Hin. apply mem_In in Hin. congruence.
    + unfold add_fresh; destruct (new_random_id _ _ _) as [[[[x u'] t'] d]|] eqn:R; simpl; try discriminate;
      intros H; inversion H; subst; apply new_random_id_spec in R; tauto.
  - destruct (apply_opts req _ opts) as [p|]; simpl; try discriminate.
    destruct (status_eqb (p_st p) UnknownStatus); simpl; try discriminate.
    destruct (p_prim p && negb (status_eqb (p_st p) Enabled)); simpl; try discriminate.
    destruct (p_has p).
    + destruct (mem (p_fixed p) _) eqn:M; simpl; try discriminate. intros H; inversion H; subst.
      intros Hin. apply mem_In in Hin. congruence.
    + destruct (new_random_id _ _ _) as [[[[x u'] t'] d]|] eqn:R; simpl; try discriminate;
      intros H; inversion H; subst; apply new_random_id_spec in R; tauto.
Qed.

Lemma in_map_kp e l : In (kp e) (map kp l) -> exists e0, In e0 l /\ kp e0 = kp e.
Proof. intros H. apply in_map_iff in H. destruct H as (e0 & A & B). exists e0; auto. Qed.

(* every entry after a step (other than NewManagerFromHandle) either continues an entry
   that was there before, with the same id, requirement and key object, or carries an id
   that was not unavailable before *)
Lemma step_entry_origin s o e' :
  (forall k, o <> OFromHandle k) ->
  In e' (ents (smgr (fst (step s o)))) ->
  (exists e, In e (ents (smgr s)) /\ kp e = kp e') \/ ~ In (eid e') (unavail (smgr s)).
Proof.
  intros Hk Hin. pose proof (step_keyparts s o) as K. cbv zeta in K.
  pose proof (add_id_fresh s o) as Fr.
  assert (Same : map kp (ents (smgr (fst (step s o)))) = map kp (ents (smgr s)) ->
                 exists e, In e (ents (smgr s)) /\ kp e = kp e').
  { intros E. apply in_map_kp. rewrite <- E. apply in_map. exact Hin. }
  assert (App : forall id, is_add o = true /\
                 map kp (ents (smgr (fst (step s o)))) = map kp (ents (smgr s)) ++ [added_kp o id] ->
                 snd (step s o) = RId id ->
                 (exists e, In e (ents (smgr s)) /\ kp e = kp e') \/ ~ In (eid e') (unavail (smgr s))).
  { intros id [A E] R. assert (H : In (kp e') (map kp (ents (smgr s)) ++ [added_kp o id])).
    { rewrite <- E. apply in_map. exact Hin. }
    apply in_app_iff in H. destruct H as [H|[H|[]]].
    - left. apply in_map_kp. exact H.
    - right. assert (eid e' = id).
      { unfold kp in H. destruct o as [t|raw|req k|req k opts|i|i|i|i| |n]; simpl in *; try discriminate;
          try destruct t; try destruct raw; try destruct req; inversion H; auto. }
      subst id. apply Fr; auto. }
  destruct (snd (step s o)) as [id| | |h| |] eqn:R.
  - destruct o as [t|raw|req k|req k opts|i|i|i|i| |n]; rewrite R in K;
      try (apply (App id); [exact K|reflexivity]);
      try (destruct K as [X _]; discriminate X).
  - destruct o as [t|raw|req k|req k opts|i|i|i|i| |n]; rewrite R in K; try (left; apply Same; exact K).
    + left. rewrite K in Hin. exists e'. split; auto. eapply delete_first_incl; eauto.
    + exfalso. eapply Hk; eauto.
  - destruct o; rewrite R in K; left; apply Same; exact K.
  - destruct o; rewrite R in K; left; apply Same; exact K.
  - destruct o; rewrite R in K; left; apply Same; exact K.
  - destruct o; rewrite R in K; left; apply Same; exact K.
Qed.

(* Over a whole history without NewManagerFromHandle: an id that names a key now names the
   SAME key object (same requirement) in every later state in which it occurs at all:
   ids are never re-assigned, not even after Delete. *)
Theorem id_denotes_same_key ops : forall s e0,
  SInv s -> Forall (fun o => forall k, o <> OFromHandle k) ops ->
  In e0 (ents (smgr s)) ->
  forall e', In e' (ents (smgr (fst (run s ops)))) -> eid e' = eid e0 -> kp e' = kp e0.
Proof.
  induction ops as [|o ops IH]; intros s e0 HS Hops H0 e' He' Hid.
  - simpl in He'. destruct HS as [[HE _] _].
    assert (e' = e0).
    { pose proof (ei_nodup _ HE) as ND. clear - ND H0 He' Hid.
      induction (ents (smgr s)) as [|x l IHl]; simpl in *; [tauto|].
      inversion ND as [|? ? Hn ND']; subst.
      destruct H0 as [->|H0], He' as [->|He']; auto.
      - exfalso. apply Hn. rewrite <- Hid. apply in_map. exact He'.
      - exfalso. apply Hn. rewrite Hid. apply in_map. exact H0. }
    subst; reflexivity.
  - rewrite run_cons in He'. cbn [fst] in He'. inversion Hops as [|? ? Ho Hops']; subst.
    (* strengthen: track the set of entries with id0 through the first step *)
    pose proof (step_inv s o HS) as HS1.
    assert (Hu0 : In (eid e0) (unavail (smgr s))) by (destruct HS as [[_ HU] _]; apply HU; exact H0).
    assert (Hu1 : In (eid e0) (unavail (smgr (fst (step s o))))) by (apply (unavail_grows s o Ho); exact Hu0).
    (* is there an entry with id0 after the first step? *)
    destruct (find_entry (ents (smgr (fst (step s o)))) (eid e0)) as [e1|] eqn:F.
    + apply find_entry_In in F. destruct F as [F1 F2].
      assert (K1 : kp e1 = kp e0).
      { destruct (step_entry_origin s o e1 Ho F1) as [(e & A & B)|N].
        - rewrite <- B. destruct HS as [[HE _] _].
          assert (eid e = eid e0) by (unfold kp in B; inversion B; congruence).
          assert (e = e0).
          { pose proof (ei_nodup _ HE) as ND. clear - ND H0 A H.
            induction (ents (smgr s)) as [|x l IHl]; simpl in *; [tauto|].
            inversion ND as [|? ? Hn ND']; subst.
            destruct H0 as [->|H0], A as [->|A]; auto.
            - exfalso. apply Hn. rewrite <- H. apply in_map. exact A.
            - exfalso. apply Hn. rewrite H. apply in_map. exact H0. }
          subst; reflexivity.
        - exfalso. apply N. rewrite F2. exact Hu0. }
      rewrite <- K1. apply (IH _ e1 HS1 Hops' F1 e' He'). rewrite Hid. symmetry. exact F2.
    + (* the id is gone after the first step: it can never come back *)
      exfalso.
      assert (Gone : forall ops s1, SInv s1 -> Forall (fun o => forall k, o <> OFromHandle k) ops ->
                 In (eid e0) (unavail (smgr s1)) -> ~ In (eid e0) (map eid (ents (smgr s1))) ->
                 ~ In (eid e0) (map eid (ents (smgr (fst (run s1 ops)))))).
      { clear. induction ops as [|o ops IH]; intros s1 HS1 Hops Hu Hn; [exact Hn|].
        rewrite run_cons. cbn [fst]. inversion Hops as [|? ? Ho Hops']; subst.
        apply IH; auto.
        - apply step_inv; auto.
        - apply (unavail_grows s1 o Ho); exact Hu.
        - intros Hin. apply in_map_iff in Hin. destruct Hin as (e1 & A & B).
          destruct (step_entry_origin s1 o e1 Ho B) as [(e & C & D)|N].
          + apply Hn. apply in_map_iff. exists e. split; auto.
            unfold kp in D. inversion D. congruence.
          + apply N. rewrite A. exact Hu. }
      apply (Gone ops _ HS1 Hops' Hu1 (find_entry_None _ _ F)).
      rewrite <- Hid. apply in_map. exact He'.
Qed.

(* non-vacuity: a history in which every kind of step occurs, evaluated *)
Example history_example :
  let ops := [OHandle; OAdd TmplTink; OHandle; OAddOpts None 7 [KStatus Disabled]; OSetPrimary 11;
              OHandle; ODisable 22; OEnable 22; ODelete 22; OHandle] in
  let tape := [11; 22; 33] in
  map (fun '(o, r) => gains_primary o r) (trace (init_state None tape) ops)
  = [false; false; false; false; true; false; false; false; false; false] /\
  snd (run (init_state None tape) ops)
  = [RErr; RId 11; RErr; RId 22; ROk;
     RHandle [mkEntry 11 Enabled true (Some 11) 0; mkEntry 22 Disabled false None 7];
     ROk; ROk; ROk; RHandle [mkEntry 11 Enabled true (Some 11) 0]].
Proof. split; vm_compute; reflexivity. Qed.
