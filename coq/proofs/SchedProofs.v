(* C18: schedule independence under "no shared writes". *)
From Coq Require Import List Arith Bool Lia.
From Tink Require Import Sched.
Import ListNotations.

Section Proofs.
  Variables Shared Local : Type.
  Variable step : Shared -> Local -> Shared * Local.
  (* the premise the regenerated footprint table establishes for the code:
     no step writes the shared state *)
  Hypothesis no_shared_writes : forall sh l, fst (step sh l) = sh.

  Notation run_alone := (run_alone Shared Local step).
  Notation sched_step := (sched_step Shared Local step).
  Notation run_sched := (run_sched Shared Local step).

  Lemma run_alone_shared sh l n : fst (run_alone sh l n) = sh.
  Proof.
    revert sh l; induction n as [|n IH]; simpl; intros; auto.
    destruct (step sh l) as [sh' l'] eqn:E. rewrite IH.
    pose proof (no_shared_writes sh l) as H. rewrite E in H. exact H.
  Qed.

  Lemma run_alone_S sh l n :
    snd (run_alone sh l (S n)) = snd (run_alone sh (snd (step sh l)) n).
  Proof.
    cbn [Sched.run_alone]. destruct (step sh l) as [sh' l'] eqn:E. cbn [snd].
    pose proof (no_shared_writes sh l) as H. rewrite E in H. cbn [fst] in H. subst sh'. reflexivity.
  Qed.

  (* the result every thread is heading for, from its current state *)
  Definition target (sh : Shared) (t : Local * nat) : Local := snd (run_alone sh (fst t) (snd t)).

  Lemma nth_error_update {A} i (x : A) l j :
    nth_error (update i x l) j = if Nat.eqb i j then (match nth_error l i with Some _ => Some x | None => None end) else nth_error l j.
  Proof.
    revert i j; induction l as [|y l IH]; intros i j; simpl.
    - destruct i, j; simpl; auto. destruct (Nat.eqb i j); auto.
    - destruct i, j; simpl; auto.
  Qed.

  Lemma update_length {A} i (x : A) l : length (update i x l) = length l.
  Proof. revert i; induction l; destruct i; simpl; auto. Qed.

  (* one scheduling decision changes neither the shared state nor any thread's target *)
  Lemma sched_step_inv sh ts i :
    let '(sh', ts') := sched_step (sh, ts) i in
    sh' = sh /\ map (target sh) ts' = map (target sh) ts.
  Proof.
    unfold sched_step. destruct (nth_error ts i) as [[l [|n]]|] eqn:E; auto.
    destruct (step sh l) as [sh' l'] eqn:Hst.
    pose proof (no_shared_writes sh l) as H. rewrite Hst in H. simpl in H. subst sh'.
    split; auto.
    apply nth_ext with (d := target sh (l, 0)) (d' := target sh (l, 0)).
    - rewrite !map_length. apply update_length.
    - intros j Hj. rewrite !map_length, update_length in Hj.
      rewrite !map_nth.
      assert (Hn : forall (tsx : list (Local * nat)) k d, nth k tsx d = match nth_error tsx k with Some x => x | None => d end).
      { intros tsx k d. revert k; induction tsx; destruct k; simpl; auto. }
      rewrite !Hn. rewrite nth_error_update.
      destruct (Nat.eqb i j) eqn:Eij.
      + apply Nat.eqb_eq in Eij. subst j. unfold thread in *. rewrite !E.
        unfold target. cbn [fst snd]. rewrite run_alone_S. rewrite Hst. reflexivity.
      + reflexivity.
  Qed.

  Theorem run_sched_inv sched : forall sh ts,
    fst (run_sched (sh, ts) sched) = sh /\
    map (target sh) (snd (run_sched (sh, ts) sched)) = map (target sh) ts.
  Proof.
    unfold Sched.run_sched.
    induction sched as [|i sched IH]; intros sh ts; [cbn [fold_left fst snd]; auto|].
    cbn [fold_left].
    pose proof (sched_step_inv sh ts i) as H.
    destruct (sched_step (sh, ts) i) as [sh' ts'] eqn:E. destruct H as [-> H2].
    destruct (IH sh ts') as [A B]. split; auto.
    rewrite B. exact H2.
  Qed.

  (* SCHEDULE INDEPENDENCE: whatever the interleaving, once all threads have
     finished each holds exactly the result of running its call alone, and the
     shared object is unchanged. *)
  Theorem schedule_independent sh (calls : list (Local * nat)) sched :
    finished Local (snd (run_sched (sh, calls) sched)) ->
    fst (run_sched (sh, calls) sched) = sh /\
    map fst (snd (run_sched (sh, calls) sched)) = map (fun c => snd (run_alone sh (fst c) (snd c))) calls.
  Proof.
    intros Hfin. destruct (run_sched_inv sched sh calls) as [A B]. split; auto.
    change (map (fun c : Local * nat => snd (run_alone sh (fst c) (snd c))) calls) with (map (target sh) calls).
    rewrite <- B. apply map_ext_in. intros [l n] Hin. specialize (Hfin _ Hin). simpl in Hfin. subst n.
    reflexivity.
  Qed.
End Proofs.

(* Without the premise the conclusion fails: two threads sharing a scratch cell. *)
Theorem shared_scratch_refuted :
  exists (sched : list nat),
    let calls := [((7, 0, 0), 2); ((9, 0, 0), 2)] in
    let final := run_sched nat (nat * nat * nat) scratch_step (0, calls) sched in
    finished _ (snd final) /\
    map fst (snd final) <> map (fun c => snd (run_alone nat (nat * nat * nat) scratch_step 0 (fst c) (snd c))) calls.
Proof.
  exists [0; 1; 0; 1]. cbn zeta. split.
  - vm_compute. intros t [<-|[<-|[]]]; reflexivity.
  - vm_compute. discriminate.
Qed.
