(* Frame theorems for the slice idioms of property C19 over model/Heap.v. *)
From Coq Require Import List NArith Arith Bool Lia.
From Tink Require Import Heap.
Import ListNotations.

Lemma set_nth_length {A} i (v : A) l : length (set_nth i v l) = length l.
Proof. revert i; induction l as [|x l IH]; destruct i; simpl; auto. Qed.

Lemma nth_set_nth_eq {A} i (v d : A) l : i < length l -> nth i (set_nth i v l) d = v.
Proof. revert i; induction l as [|x l IH]; destruct i; simpl; intros H; try lia; auto. apply IH. lia. Qed.

Lemma nth_set_nth_neq {A} i j (v d : A) l : i <> j -> nth j (set_nth i v l) d = nth j l d.
Proof.
  revert i j; induction l as [|x l IH]; destruct i, j; simpl; intros H; try lia; auto.
Qed.

Lemma write_at_length p vs l : length (write_at p vs l) = length l.
Proof. revert p l; induction vs as [|v vs IH]; simpl; intros; auto. rewrite IH. apply set_nth_length. Qed.

Lemma write_at_outside p vs l j d : (j < p \/ p + length vs <= j) -> nth j (write_at p vs l) d = nth j l d.
Proof.
  revert p l; induction vs as [|v vs IH]; simpl; intros p l H; auto.
  rewrite IH by lia. apply nth_set_nth_neq. lia.
Qed.

Lemma write_at_inside p vs l j d : p <= j < p + length vs -> p + length vs <= length l ->
  nth j (write_at p vs l) d = nth (j - p) vs d.
Proof.
  revert p l; induction vs as [|v vs IH]; simpl; intros p l H Hl; [lia|].
  destruct (Nat.eq_dec j p) as [->|Hne].
  - rewrite write_at_outside by lia. rewrite Nat.sub_diag. apply nth_set_nth_eq. lia.
  - rewrite IH; [|lia|rewrite set_nth_length; lia].
    replace (j - p) with (S (j - S p)) by lia. reflexivity.
Qed.

Lemma array_app_old h x a : a < length h -> array (h ++ [x]) a = array h a.
Proof. intros H. unfold array. apply app_nth1. exact H. Qed.

Lemma array_app_new h x : array (h ++ [x]) (length h) = x.
Proof. unfold array. rewrite app_nth2 by lia. rewrite Nat.sub_diag. reflexivity. Qed.

Lemma heap_write_length h a p vs : length (heap_write h a p vs) = length h.
Proof. unfold heap_write. apply set_nth_length. Qed.

Lemma heap_write_other h a p vs b : b <> a -> array (heap_write h a p vs) b = array h b.
Proof. intros H. unfold heap_write, array. apply nth_set_nth_neq. auto. Qed.

Lemma heap_write_same h a p vs : a < length h -> array (heap_write h a p vs) a = write_at p vs (array h a).
Proof. intros H. unfold heap_write, array. apply nth_set_nth_eq. exact H. Qed.

Lemma read_ext h h' s : array h' (arr s) = array h (arr s) -> read h' s = read h s.
Proof. intros H. unfold read. rewrite H. reflexivity. Qed.

Lemma read_cap_ext h h' s : array h' (arr s) = array h (arr s) -> read_cap h' s = read_cap h s.
Proof. intros H. unfold read_cap. rewrite H. reflexivity. Qed.

(* A write into one array never changes what any slice of ANOTHER array shows. *)
Theorem write_other_array_frame h a p vs s : arr s <> a ->
  read (heap_write h a p vs) s = read h s /\ read_cap (heap_write h a p vs) s = read_cap h s.
Proof. intros H. split; [apply read_ext | apply read_cap_ext]; apply heap_write_other; exact H. Qed.

(* ---- slices.Concat ---- *)
Theorem concat_frame h ss nc :
  let '(h', r) := concat h ss nc in
  (forall a, a < length h -> array h' a = array h a) /\
  arr r = length h /\ (forall s, wf_slice h s -> arr s <> arr r) /\
  read h' r = flat_map (read h) ss.
Proof.
  unfold concat. cbn zeta. repeat split.
  - intros a Ha. apply array_app_old. exact Ha.
  - intros s [Hs _]. simpl. lia.
  - unfold read. cbn [arr off len]. rewrite array_app_new. simpl.
    rewrite firstn_app, firstn_all, Nat.sub_diag. simpl. apply app_nil_r.
Qed.

Lemma read_length h s : wf_slice h s -> length (read h s) = len s.
Proof.
  intros (Ha & Hl & Hc). unfold read. rewrite firstn_length, skipn_length. lia.
Qed.

(* ---- bytes.Clone ---- *)
Theorem clone_frame h s nc : wf_slice h s ->
  let '(h', r) := clone h s nc in
  (forall a, a < length h -> array h' a = array h a) /\
  arr r = length h /\ (forall t, wf_slice h t -> arr t <> arr r) /\
  read h' r = read h s.
Proof.
  intros W. unfold clone. cbn zeta. repeat split.
  - intros a Ha. apply array_app_old. exact Ha.
  - intros t [Ht _]. simpl. lia.
  - unfold read at 1. cbn [arr off len]. rewrite array_app_new. simpl.
    rewrite <- (read_length h s W) at 1. rewrite firstn_app, firstn_all, Nat.sub_diag. simpl.
    apply app_nil_r.
Qed.

(* ---- append ---- *)
(* With spare capacity, append writes INTO the caller's array just beyond the
   slice's length: whoever holds a longer view of that array sees the change. *)
Theorem append_in_place_clobbers h s x nc : wf_slice h s -> len s < cap s ->
  let '(h', r) := append h s [x] nc in
  arr r = arr s /\ nth (off s + len s) (array h' (arr s)) 0%N = x.
Proof.
  intros (Ha & Hl & Hc) Hsp. unfold append. simpl length.
  replace (len s + 1 <=? cap s) with true by (symmetry; apply Nat.leb_le; lia).
  split; [reflexivity|]. rewrite heap_write_same by exact Ha.
  rewrite write_at_inside; [|simpl; lia|simpl; lia].
  rewrite Nat.sub_diag. reflexivity.
Qed.

(* Without spare capacity append allocates: every existing array is unchanged. *)
Theorem append_full_frame h s vs nc : cap s < len s + length vs ->
  let '(h', r) := append h s vs nc in
  (forall a, a < length h -> array h' a = array h a) /\ arr r = length h.
Proof.
  intros Hf. unfold append.
  replace (len s + length vs <=? cap s) with false by (symmetry; apply Nat.leb_gt; lia).
  split; [|reflexivity]. intros a Ha. apply array_app_old. exact Ha.
Qed.

(* The idiom `append(param, 0)` is NOT framed: a caller buffer with spare
   capacity is modified (concrete witness). *)
Theorem append_on_parameter_refuted :
  exists (h : heap) (caller_buf data : slice) (x : N),
    wf_slice h caller_buf /\ wf_slice h data /\
    read (fst (append h data [x] 0)) caller_buf <> read h caller_buf.
Proof.
  exists [[1; 2; 3; 170]%N], (mkSlice 0 0 4 4), (mkSlice 0 0 3 4), 0%N.
  repeat split; simpl; try lia. vm_compute. discriminate.
Qed.

(* ---- the three idioms of C19, framed versions ---- *)

(* (1) message suffixing through slices.Concat(data, suffix): no existing array
   changes, the result lives in a fresh array. *)
Theorem suffix_by_concat_framed h data suffix nc :
  let '(h', r) := concat h [data; suffix] nc in
  (forall s, wf_slice h s -> read h' s = read h s /\ read_cap h' s = read_cap h s) /\
  (forall s, wf_slice h s -> arr r <> arr s) /\
  read h' r = read h data ++ read h suffix.
Proof.
  pose proof (concat_frame h [data; suffix] nc) as H. unfold concat in *. cbn zeta in *.
  destruct H as (Hold & Hr & Hfresh & Hread). repeat split.
  - apply read_ext. apply Hold. apply H.
  - apply read_cap_ext. apply Hold. apply H.
  - intros s W E. apply (Hfresh s W). symmetry. exact E.
  - rewrite Hread. simpl. rewrite app_nil_r. reflexivity.
Qed.

(* (2) a constructor that stores bytes.Clone(param): later writes through ANY
   slice the caller can hold (any slice well-formed before the call) do not
   change what the object sees. *)
Theorem store_clone_framed h param nc caller p vs : wf_slice h param -> wf_slice h caller ->
  let '(h1, stored) := clone h param nc in
  read (heap_write h1 (arr caller) p vs) stored = read h1 stored /\ read h1 stored = read h param.
Proof.
  intros Wp Wc. pose proof (clone_frame h param nc Wp) as H. unfold clone in *. cbn zeta in *.
  destruct H as (_ & Hr & Hfresh & Hread). split; [|exact Hread].
  apply write_other_array_frame. intros E. apply (Hfresh caller Wc). symmetry. exact E.
Qed.

(* storing the parameter itself is NOT framed (concrete witness) *)
Theorem store_parameter_refuted :
  exists (h : heap) (param : slice) (i : nat) (v : N),
    wf_slice h param /\
    match set h param i v with Some h' => read h' param <> read h param | None => False end.
Proof.
  exists [[7; 7]%N], (mkSlice 0 0 2 2), 0, 9%N. split; [unfold wf_slice, array; simpl; lia|]. vm_compute. discriminate.
Qed.

(* (3) an accessor that returns bytes.Clone(field): writes through the returned
   slice do not change the field. *)
Theorem return_clone_framed h field nc p vs : wf_slice h field ->
  let '(h1, ret) := clone h field nc in
  read (heap_write h1 (arr ret) p vs) field = read h field.
Proof.
  intros W. pose proof (clone_frame h field nc W) as H. unfold clone in *. cbn zeta in *.
  destruct H as (Hold & Hr & Hfresh & _).
  cbn [arr]. destruct W as (Ha & W2).
  transitivity (read (h ++ [read h field ++ repeat 0%N (Nat.max nc (len field) - len field)]) field).
  - apply write_other_array_frame. simpl. lia.
  - apply read_ext. apply Hold. exact Ha.
Qed.

Theorem return_field_refuted :
  exists (h : heap) (field : slice) (i : nat) (v : N),
    wf_slice h field /\
    (* the accessor returned the field itself; the caller writes through it *)
    match set h field i v with Some h' => read h' field <> read h field | None => False end.
Proof. exact store_parameter_refuted. Qed.
