(* Frame theorems for the slice idioms of property C19 over model/Heap.v. *)
From Coq Require Import List NArith Arith Bool Lia.
From Tink Require Import Heap.
Import ListNotations.

Lemma set_nth_length {A} i (v : A) l : length (set_nth i v l) = length l.
Proof. revert i; induction l as [|x l IH]; destruct i; simpl; auto. Qed.

Lemma nth_set_nth_eq {A} i (v d : A) l : i < length l -> nth i (set_nth i v l) d = v.
Proof. revert i; induction l as [|x l IH]; destruct i; simpl; intros H; try lia; auto. apply IH. lia. Qed.

Lemma nth_set_nth_neq {A} i j (v d : A) l : i <> j -> nth j (set_nth i v l) d = nth j l d.
Proof.
  revert i j; induction l as [|x l IH]; destruct i, j; simpl; intros H; try lia; auto.
Qed.

Lemma write_at_length p vs l : length (write_at p vs l) = length l.
Proof. revert p l; induction vs as [|v vs IH]; simpl; intros; auto. rewrite IH. apply set_nth_length. Qed.

Lemma write_at_outside p vs l j d : (j < p \/ p + length vs <= j) -> nth j (write_at p vs l) d = nth j l d.
Proof.
  revert p l; induction vs as [|v vs IH]; simpl; intros p l H; auto.
  rewrite IH by lia. apply nth_set_nth_neq. lia.
Qed.

Lemma write_at_inside p vs l j d : p <= j < p + length vs -> p + length vs <= length l ->
  nth j (write_at p vs l) d = nth (j - p) vs d.
Proof.
  revert p l; induction vs as [|v vs IH]; simpl; intros p l H Hl; [lia|].
  destruct (Nat.eq_dec j p) as [->|Hne].
  - rewrite write_at_outside by lia. rewrite Nat.sub_diag. apply nth_set_nth_eq. lia.
  - rewrite IH; [|lia|rewrite set_nth_length; lia].
    replace (j - p) with (S (j - S p)) by lia. reflexivity.
Qed.

Lemma array_app_old h x a : a < length h -> array (h ++ [x]) a = array h a.
Proof. intros H. unfold array. apply app_nth1. exact H. Qed.

Lemma array_app_new h x : array (h ++ [x]) (length h) = x.
Proof. unfold array. rewrite app_nth2 by lia. rewrite Nat.sub_diag. reflexivity. Qed.

Lemma heap_write_length h a p vs : length (heap_write h a p vs) = length h.
Proof. unfold heap_write. apply set_nth_length. Qed.

Lemma heap_write_other h a p vs b : b <> a -> array (heap_write h a p vs) b = array h b.
Proof. intros H. unfold heap_write, array. apply nth_set_nth_neq. auto. Qed.

Lemma heap_write_same h a p vs : a < length h -> array (heap_write h a p vs) a = write_at p vs (array h a).
Proof. intros H. unfold heap_write, array. apply nth_set_nth_eq. exact H. Qed.

Lemma read_ext h h' s : array h' (arr s) = array h (arr s) -> read h' s = read h s.
Proof. intros H. unfold read. rewrite H. reflexivity. Qed.

Lemma read_cap_ext h h' s : array h' (arr s) = array h (arr s) -> read_cap h' s = read_cap h s.
Proof. intros H. unfold read_cap. rewrite H. reflexivity. Qed.

(* A write into one array never changes what any slice of ANOTHER array shows. *)
Theorem write_other_array_frame h a p vs s : arr s <> a ->
  read (heap_write h a p vs) s = read h s /\ read_cap (heap_write h a p vs) s = read_cap h s.
Proof. intros H. split; [apply read_ext | apply read_cap_ext]; apply heap_write_other; exact H. Qed.

(* ---- slices.Concat ---- *)
Theorem concat_frame h ss :
  let '(h', r) := concat h ss in
  (forall a, a < length h -> array h' a = array h a) /\
  arr r = length h /\ (forall s, wf_slice h s -> arr s <> arr r) /\
  read h' r = flat_map (read h) ss /\ cap r = len r.
Proof.
  unfold concat. cbn zeta. repeat split.
  - intros a Ha. apply array_app_old. exact Ha.
  - intros s [Hs _]. simpl. lia.
  - unfold read. cbn [arr off len]. rewrite array_app_new. simpl. apply firstn_all.
Qed.

(* ---- bytes.Clone ---- *)
Theorem clone_frame h s nc :
  let '(h', r) := clone h s nc in
  (forall a, a < length h -> array h' a = array h a) /\
  arr r = length h /\ (forall t, wf_slice h t -> arr t <> arr r) /\
  read h' r = read h s.
Proof.
  unfold clone. cbn zeta. repeat split.
  - intros a Ha. apply array_app_old. exact Ha.
  - intros t [Ht _]. simpl. lia.
  - unfold read at 1. cbn [arr off len]. rewrite array_app_new. simpl.
    rewrite firstn_app.
    assert (Hl : length (read h s) <= len s) by (unfold read; rewrite firstn_length; lia).
    destruct (Nat.eq_dec (length (read h s)) (len s)) as [E|E].
    + rewrite <- E at 1. rewrite firstn_all. rewrite E, Nat.sub_diag. simpl. apply app_nil_r.
    + (* the source slice reaches beyond its array: only for ill-formed slices *)
      rewrite firstn_all2 by lia.
      admit_placeholder.
Abort.
