(* Property C09, JSON text layer: the number literals the model decides itself
   (model/Json.v lit_class / num_x / json_parse_x), and what is left to the
   float oracle.

     1. lit_class is characterised by exact rational arithmetic on the decimal
        data of the literal (lit_class_int / lit_class_overflow /
        lit_class_oracle): value = (-1)^neg * lit_num / lit_den - for literals
        within the digit budget int_digits_ok (integer part of at most 800
        digits) and exp_digits_ok (zero mantissa, or exponent magnitude below
        10000); outside it the class is NCOracle (strconv.ParseFloat does not
        read the literal's true value there).
     2. lit_plain (the old exact path) is a special case; num_value (num_x num)
        = num_x num.
     3. text_lits s = the number literals the tokenizer meets in s; the parse
        of s depends on the oracle only through its answers on the literals of
        text_lits s that have class NCOracle (json_parse_x_dep), hence not at
        all when there is none (json_parse_x_decided).
     4. the same for a whole token: jwt_json_parts tok = the decoded header and
        payload texts that verify hands to the JSON parser
        (verify_x_oracle_dependence / verify_x_decided). *)
From Coq Require Import List NArith ZArith Bool Lia ZifyN ZifyNat ZifyBool Arith.
From Tink Require Import Bytes Base64url Jwt JwtSpec JwtProofs Jwk JwkProofs Json JsonLexProofs JsonProofs.
Import ListNotations.
Open Scope N_scope.

(* ================= digits ================= *)
Lemma digit_val_le c : is_digit c = true -> digit_val c <= 9.
Proof. unfold is_digit, digit_val. lia. Qed.

Lemma dec_val_lt ds : forallb is_digit ds = true -> dec_val ds < 10 ^ N.of_nat (length ds).
Proof.
  induction ds as [|d ds IH] using rev_ind; intros H.
  - cbn. lia.
  - rewrite forallb_app in H. apply andb_true_iff in H. destruct H as [H1 H2].
    cbn [forallb] in H2. rewrite andb_true_r in H2.
    rewrite dec_val_app, app_length. cbn [length]. rewrite Nat.add_1_r, Nat2N.inj_succ, N.pow_succ_r'.
    specialize (IH H1). apply digit_val_le in H2. lia.
Qed.

(* reading a digit string in two pieces *)
Lemma dec_val_app_gen a b : dec_val (a ++ b) = dec_val a * 10 ^ N.of_nat (length b) + dec_val b.
Proof.
  induction b as [|d b IH] using rev_ind.
  - rewrite app_nil_r. cbn. lia.
  - rewrite app_assoc, !dec_val_app, IH, app_length. cbn [length].
    rewrite Nat.add_1_r, Nat2N.inj_succ, N.pow_succ_r'. lia.
Qed.

(* the decimal reading of a literal: (int + frac / 10^|frac|) * 10^exp
   = lit_mant * 10^lit_exp10 *)
Lemma lit_value_reading l :
  lit_mant l = dec_val (nl_int l) * 10 ^ N.of_nat (length (nl_frac l)) + dec_val (nl_frac l)
  /\ lit_exp10 l = (exp_val (nl_exp l) - Z.of_nat (length (nl_frac l)))%Z.
Proof. split; [apply dec_val_app_gen|reflexivity]. Qed.

Lemma int_ok_digits ip : int_ok ip -> forallb is_digit ip = true.
Proof.
  intros [->|[c [ds [-> [D [_ DS]]]]]]; [reflexivity|]. cbn [forallb]. rewrite D. exact DS.
Qed.

Lemma lit_digits_ok l : lit_ok l -> forallb is_digit (lit_digits l) = true.
Proof.
  intros [I [F _]]. unfold lit_digits. rewrite forallb_app, (int_ok_digits _ I). exact F.
Qed.

Lemma lit_mant_lt l : lit_ok l -> lit_mant l < 10 ^ N.of_nat (length (lit_digits l)).
Proof. intros H. apply dec_val_lt. apply lit_digits_ok. exact H. Qed.

(* ================= the constants ================= *)
Lemma over_le_pow : f64_over <= 10 ^ 401.
Proof. apply N.leb_le. vm_compute. reflexivity. Qed.
Lemma two1075_le_pow : 2 ^ 1075 <= 10 ^ 401.
Proof. apply N.leb_le. vm_compute. reflexivity. Qed.
Lemma two53_lt_over : two53 < f64_over.
Proof. apply N.ltb_lt. vm_compute. reflexivity. Qed.
Lemma two_le_two1075 : 2 <= 2 ^ 1075.
Proof. apply N.leb_le. vm_compute. reflexivity. Qed.
Lemma two53_pos : 0 < two53.
Proof. reflexivity. Qed.
(* f64_over is what its comment says: the midpoint of the largest finite
   float64, (2^53 - 1) * 2^971, and 2^1024 *)
Lemma f64_over_is_the_midpoint : 2 * f64_over = (2 ^ 53 - 1) * 2 ^ 971 + 2 ^ 1024.
Proof. apply N.eqb_eq. vm_compute. reflexivity. Qed.

Lemma pow10_pos k : 0 < 10 ^ k.
Proof. apply N.neq_0_lt_0. apply N.pow_nonzero. discriminate. Qed.

Lemma lit_sign_abs l v : Z.abs_N (lit_sign l v) = v.
Proof. unfold lit_sign. destruct (nl_neg l); lia. Qed.
Lemma lit_sign_zero l : lit_sign l 0 = 0%Z.
Proof. unfold lit_sign. destruct (nl_neg l); reflexivity. Qed.

(* ================= the three-way test on a / b ================= *)
Definition core (T P V : N) (sg : N -> Z) (a b : N) : numclass :=
  if (a mod b =? 0) && (a / b <? T) then NCInt (sg (a / b))
  else if a * P <=? b then NCInt 0
  else if V * b <=? a then NCOverflow
  else NCOracle.

Section Core.
  Variables (T P V : N) (sg : N -> Z) (a b : N).
  Hypothesis sg_abs : forall v, Z.abs_N (sg v) = v.
  Hypothesis sg_zero : sg 0 = 0%Z.
  Hypothesis Tpos : 0 < T.
  Hypothesis P2 : 2 <= P.
  Hypothesis TV : T < V.
  Hypothesis apos : 0 < a.
  Hypothesis bpos : 0 < b.

  Lemma exact_div q : a = q * b <-> a mod b = 0 /\ a / b = q.
  Proof.
    split.
    - intros ->. split; [apply N.mod_mul; lia|apply N.div_mul; lia].
    - intros [M D]. pose proof (N.div_mod' a b) as E. rewrite M, D in E. lia.
  Qed.

  Lemma core_int z :
    core T P V sg a b = NCInt z <->
    Z.abs_N z < T /\ z = sg (Z.abs_N z) /\ (a = Z.abs_N z * b \/ (z = 0%Z /\ a * P <= b)).
  Proof.
    unfold core.
    destruct ((a mod b =? 0) && (a / b <? T)) eqn:T1.
    - apply andb_true_iff in T1. destruct T1 as [M Q]. apply N.eqb_eq in M. apply N.ltb_lt in Q.
      assert (E : a = a / b * b) by (apply exact_div; auto).
      split.
      + intros H. inversion H; subst z. rewrite sg_abs. auto.
      + intros [L [S [A|[Z0 U]]]].
        * apply exact_div in A. destruct A as [_ A]. rewrite A. rewrite <- S. reflexivity.
        * exfalso. assert (1 <= a / b) by (destruct (a / b); lia). nia.
    - destruct (a * P <=? b) eqn:T2.
      + apply N.leb_le in T2. split.
        * intros H. inversion H; subst z. cbn [Z.abs_N]. rewrite sg_zero. auto.
        * intros [L [S [A|[Z0 U]]]]; [|subst z; reflexivity].
          exfalso. apply exact_div in A. destruct A as [M D].
          rewrite M, D in T1. cbn [N.eqb andb] in T1. apply N.ltb_ge in T1. lia.
      + apply N.leb_gt in T2.
        split; [destruct (V * b <=? a); discriminate|].
        intros [L [S [A|[Z0 U]]]]; [|lia].
        exfalso. apply exact_div in A. destruct A as [M D].
        rewrite M, D in T1. cbn [N.eqb andb] in T1. apply N.ltb_ge in T1. lia.
  Qed.

  Lemma core_over : core T P V sg a b = NCOverflow <-> V * b <= a.
  Proof.
    unfold core.
    destruct ((a mod b =? 0) && (a / b <? T)) eqn:T1.
    - apply andb_true_iff in T1. destruct T1 as [M Q]. apply N.eqb_eq in M. apply N.ltb_lt in Q.
      assert (E : a = a / b * b) by (apply exact_div; auto).
      split; [discriminate|]. intros H. exfalso. nia.
    - destruct (a * P <=? b) eqn:T2.
      + apply N.leb_le in T2. split; [discriminate|]. intros H. exfalso. nia.
      + destruct (V * b <=? a) eqn:T3.
        * apply N.leb_le in T3. tauto.
        * apply N.leb_gt in T3. split; [discriminate|lia].
  Qed.
End Core.

(* ================= lit_class, exactly ================= *)
(* the digit budget within which strconv.ParseFloat reads the literal's true
   value: at most 800 integer digits; the exponent below 10000 in magnitude
   unless the mantissa is zero (a zero mantissa is read as 0 whatever follows) *)
Definition int_digits_ok (l : numlit) : Prop := (length (nl_int l) <= max_int_digits)%nat.
Definition exp_digits_ok (l : numlit) : Prop :=
  lit_mant l = 0 \/ (Z.abs (exp_val (nl_exp l)) < max_exp10)%Z.

Lemma lit_class_long l : ~ int_digits_ok l -> lit_class l = NCOracle.
Proof.
  unfold int_digits_ok, lit_class. intros H.
  replace (max_int_digits <? length (nl_int l))%nat with true by (symmetry; apply Nat.ltb_lt; lia). reflexivity.
Qed.

(* what lit_class computes once the length test is passed *)
(* a non-zero mantissa with an exponent of magnitude >= 10000 *)
Lemma lit_class_long_exp l : ~ exp_digits_ok l -> lit_class l = NCOracle.
Proof.
  unfold exp_digits_ok, lit_class. intros H.
  destruct (max_int_digits <? length (nl_int l))%nat; [reflexivity|]. cbv zeta.
  destruct (lit_mant l =? 0) eqn:M; [exfalso; apply H; left; apply N.eqb_eq; exact M|].
  replace (max_exp10 <=? Z.abs (exp_val (nl_exp l)))%Z with true by lia. reflexivity.
Qed.

Lemma lit_class_unfold l : int_digits_ok l -> exp_digits_ok l ->
  lit_class l =
    if lit_mant l =? 0 then NCInt 0
    else if (400 <? lit_exp10 l)%Z then NCOverflow
    else if (lit_exp10 l <? - (Z.of_nat (length (lit_digits l)) + 400))%Z then NCInt 0
    else core two53 (2 ^ 1075) f64_over (lit_sign l) (lit_num l) (lit_den l).
Proof.
  unfold int_digits_ok, exp_digits_ok, lit_class. intros H X.
  replace (max_int_digits <? length (nl_int l))%nat with false by (symmetry; apply Nat.ltb_ge; lia).
  cbv zeta. destruct (lit_mant l =? 0) eqn:M; [reflexivity|].
  replace (max_exp10 <=? Z.abs (exp_val (nl_exp l)))%Z with false by lia.
  unfold core, lit_num, lit_den. rewrite N.shiftl_mul_pow2. reflexivity.
Qed.

(* the value of the literal is the integer z of magnitude below 2^53 (with the
   literal's sign; z = 0 for "-0"), or it is not zero but so small that it
   rounds to zero *)
Definition lit_is_int (l : numlit) (z : Z) : Prop :=
  Z.abs_N z < two53 /\ z = lit_sign l (Z.abs_N z)
  /\ (lit_num l = Z.abs_N z * lit_den l
      \/ (z = 0%Z /\ 0 < lit_num l /\ lit_num l * 2 ^ 1075 <= lit_den l)).
(* the magnitude of the value is at least f64_over *)
Definition lit_overflows (l : numlit) : Prop := f64_over * lit_den l <= lit_num l.

Section Class.
  Variable l : numlit.
  Hypothesis OK : lit_ok l.
  Hypothesis LEN : int_digits_ok l.
  Hypothesis EXP : exp_digits_ok l.

  Let m := lit_mant l.
  Let e := lit_exp10 l.
  Let nd := N.of_nat (length (lit_digits l)).

  Lemma class_facts :
    lit_num l = m * 10 ^ Z.to_N e /\ lit_den l = 10 ^ Z.to_N (- e) /\ m < 10 ^ nd /\ 0 < lit_den l.
  Proof.
    split; [reflexivity|]. split; [reflexivity|]. split; [apply lit_mant_lt; exact OK|apply pow10_pos].
  Qed.

  Theorem lit_class_int z : lit_class l = NCInt z <-> lit_is_int l z.
  Proof.
    rewrite (lit_class_unfold l LEN EXP). unfold lit_is_int.
    destruct class_facts as [En [Ed [Hm Dp]]]. fold m e in En, Ed |- *. fold nd.
    pose proof over_le_pow as C1. pose proof two1075_le_pow as C2. pose proof two53_lt_over as C3.
    pose proof two_le_two1075 as C4. pose proof two53_pos as C5.
    remember (2 ^ 1075) as P eqn:EP. remember f64_over as V eqn:EV. remember two53 as T eqn:ET.
    remember (10 ^ 401) as W eqn:EW.
    destruct (m =? 0) eqn:M0.
    { apply N.eqb_eq in M0. rewrite En, M0, N.mul_0_l. split.
      - intros H. inversion H; subst z. cbn [Z.abs_N]. rewrite lit_sign_zero. split; [lia|]. split; [reflexivity|].
        left. lia.
      - intros [L [S [A|[Z0 [U _]]]]]; [|lia]. assert (Z.abs_N z = 0) by nia. f_equal. lia. }
    apply N.eqb_neq in M0.
    destruct (400 <? e)%Z eqn:G1.
    { apply Z.ltb_lt in G1. split; [discriminate|]. intros [L [S A]]. exfalso.
      assert (Ek : Z.to_N (- e) = 0) by lia. rewrite Ed, Ek in *. change (10 ^ 0) with 1 in *.
      assert (Wk : W <= 10 ^ Z.to_N e) by (subst W; apply N.pow_le_mono_r; lia).
      rewrite En in A. destruct A as [A|[_ [_ A]]]; nia. }
    apply Z.ltb_ge in G1.
    destruct (e <? - (Z.of_nat (length (lit_digits l)) + 400))%Z eqn:G2.
    { apply Z.ltb_lt in G2.
      assert (Ek : Z.to_N e = 0) by lia. rewrite En, Ek in *. change (10 ^ 0) with 1 in *. rewrite N.mul_1_r in *.
      assert (Wk : 10 ^ nd * W <= lit_den l).
      { rewrite Ed. subst W. rewrite <- N.pow_add_r. apply N.pow_le_mono_r; [lia|]. unfold nd. lia. }
      assert (W1 : 1 <= 10 ^ nd) by (pose proof (pow10_pos nd); lia).
      split.
      - intros H. inversion H; subst z. cbn [Z.abs_N]. rewrite lit_sign_zero. split; [lia|]. split; [reflexivity|].
        right. split; [reflexivity|]. split; [lia|]. nia.
      - intros [L [S [A|[Z0 _]]]]; [|subst z; reflexivity].
        exfalso. destruct (Z.abs_N z) as [|p] eqn:Q; [lia|]. assert (lit_den l <= m) by nia. nia. }
    (* the main branch *)
    assert (ap : 0 < lit_num l) by (rewrite En; pose proof (pow10_pos (Z.to_N e)); nia).
    rewrite (core_int T P V (lit_sign l) (lit_num l) (lit_den l) (lit_sign_abs l) (lit_sign_zero l) C5 C4 C3 ap Dp z).
    split; intros [L [S A]]; (split; [exact L|]); (split; [exact S|]).
    - destruct A as [A|[Z0 A]]; [left; exact A|right; split; [exact Z0|]; split; [exact ap|exact A]].
    - destruct A as [A|[Z0 [_ A]]]; [left; exact A|right; split; assumption].
  Qed.

  Theorem lit_class_overflow : lit_class l = NCOverflow <-> lit_overflows l.
  Proof.
    rewrite (lit_class_unfold l LEN EXP). unfold lit_overflows.
    destruct class_facts as [En [Ed [Hm Dp]]]. fold m e in En, Ed |- *. fold nd.
    pose proof over_le_pow as C1. pose proof two1075_le_pow as C2. pose proof two53_lt_over as C3.
    pose proof two_le_two1075 as C4. pose proof two53_pos as C5.
    remember (2 ^ 1075) as P eqn:EP. remember f64_over as V eqn:EV. remember two53 as T eqn:ET.
    remember (10 ^ 401) as W eqn:EW.
    destruct (m =? 0) eqn:M0.
    { apply N.eqb_eq in M0. rewrite En, M0, N.mul_0_l. split; [discriminate|]. intros H. exfalso. nia. }
    apply N.eqb_neq in M0.
    destruct (400 <? e)%Z eqn:G1.
    { apply Z.ltb_lt in G1. split; [|reflexivity]. intros _.
      assert (Ek : Z.to_N (- e) = 0) by lia. rewrite Ed, Ek. change (10 ^ 0) with 1.
      assert (Wk : W <= 10 ^ Z.to_N e) by (subst W; apply N.pow_le_mono_r; lia).
      rewrite En. nia. }
    apply Z.ltb_ge in G1.
    destruct (e <? - (Z.of_nat (length (lit_digits l)) + 400))%Z eqn:G2.
    { apply Z.ltb_lt in G2.
      assert (Ek : Z.to_N e = 0) by lia. rewrite En, Ek in *. change (10 ^ 0) with 1 in *. rewrite N.mul_1_r in *.
      assert (Wk : 10 ^ nd * W <= lit_den l).
      { rewrite Ed. subst W. rewrite <- N.pow_add_r. apply N.pow_le_mono_r; [lia|]. unfold nd. lia. }
      assert (W1 : 1 <= 10 ^ nd) by (pose proof (pow10_pos nd); lia).
      split; [discriminate|]. intros H. exfalso. nia. }
    assert (ap : 0 < lit_num l) by (rewrite En; pose proof (pow10_pos (Z.to_N e)); nia).
    apply core_over; try assumption; try apply lit_sign_abs; try apply lit_sign_zero.
  Qed.

  (* the oracle is asked exactly for the rest *)
  Theorem lit_class_oracle : lit_class l = NCOracle <-> (forall z, ~ lit_is_int l z) /\ ~ lit_overflows l.
  Proof.
    split.
    - intros H. split.
      + intros z Hz. apply lit_class_int in Hz. congruence.
      + intros Ho. apply lit_class_overflow in Ho. congruence.
    - intros [H1 H2]. destruct (lit_class l) as [z| |] eqn:C; [|exfalso|reflexivity].
      + exfalso. apply (H1 z). apply lit_class_int. exact C.
      + apply H2. apply lit_class_overflow. exact C.
  Qed.
End Class.

(* the integer is unique: a literal has at most one integer value *)
Lemma lit_is_int_unique l z1 z2 :
  lit_ok l -> int_digits_ok l -> exp_digits_ok l -> lit_is_int l z1 -> lit_is_int l z2 -> z1 = z2.
Proof.
  intros OK LEN EXP H1 H2. apply (lit_class_int l OK LEN EXP) in H1, H2. congruence.
Qed.

(* ================= the old exact path is a special case ================= *)
Lemma lit_plain_class l z : lit_plain l = Some z -> lit_class l = NCInt z.
Proof.
  unfold lit_plain. destruct (nl_frac l) eqn:F; [|discriminate]. destruct (nl_exp l) eqn:X; [discriminate|].
  destruct ((length (nl_int l) <=? 16)%nat && (dec_val (nl_int l) <? two53)) eqn:G; [|discriminate].
  apply andb_true_iff in G. destruct G as [G1 G2]. apply Nat.leb_le in G1. apply N.ltb_lt in G2.
  intros E. inversion E; subst z. clear E.
  assert (LEN : int_digits_ok l) by (unfold int_digits_ok, max_int_digits; lia).
  assert (EXP : exp_digits_ok l) by (right; rewrite X; reflexivity).
  rewrite (lit_class_unfold l LEN EXP).
  assert (Em : lit_mant l = dec_val (nl_int l)) by (unfold lit_mant, lit_digits; rewrite F, app_nil_r; reflexivity).
  assert (Ee : lit_exp10 l = 0%Z) by (unfold lit_exp10; rewrite F, X; reflexivity).
  assert (En : lit_num l = dec_val (nl_int l)) by (unfold lit_num; rewrite Em, Ee; cbn; lia).
  assert (Ed : lit_den l = 1) by (unfold lit_den; rewrite Ee; reflexivity).
  rewrite Em, Ee, En, Ed.
  destruct (dec_val (nl_int l) =? 0) eqn:M0.
  { apply N.eqb_eq in M0. rewrite M0. destruct (nl_neg l); reflexivity. }
  change (400 <? 0)%Z with false. cbv iota.
  replace (0 <? - (Z.of_nat (length (lit_digits l)) + 400))%Z with false by lia.
  unfold core. rewrite N.mod_1_r, N.div_1_r. cbn [N.eqb andb].
  replace (dec_val (nl_int l) <? two53) with true by lia. reflexivity.
Qed.

Lemma num_value_x num l : num_value (num_x num) l = num_x num l.
Proof.
  unfold num_value. destruct (lit_plain l) as [z|] eqn:P; [|reflexivity].
  unfold num_x. rewrite (lit_plain_class l z P). reflexivity.
Qed.

(* a decided literal never reaches the oracle *)
Lemma num_x_decided num1 num2 l : lit_class l <> NCOracle -> num_x num1 l = num_x num2 l.
Proof. unfold num_x. destruct (lit_class l); [reflexivity|reflexivity|congruence]. Qed.

(* ================= the literals of a text ================= *)
Definition num_some (l : numlit) : option (Z * bytes) := Some (0%Z, []).

(* the number literal of a token that starts with c :: t *)
Definition lit_at (c : N) (t : bytes) : list numlit :=
  if (c =? 45) || is_digit c then
    match lex_number (c :: t) with Some (l, _) => [l] | None => [] end
  else [].

(* the literals the tokenizer meets, in order (the oracle that always answers
   keeps the tokenizer going; where it stops for another reason the list ends) *)
Fixpoint text_lits_f (fuel : nat) (s : bytes) : list numlit :=
  match fuel with
  | O => []
  | S f =>
    match skip_ws s with
    | [] => []
    | c :: t =>
      match lex_one num_some c t with
      | None => []
      | Some (_, rest) => lit_at c t ++ text_lits_f f rest
      end
    end
  end.
Definition text_lits (s : bytes) : list numlit := text_lits_f (S (length s)) s.

Lemma lex_one_dep num1 num2 c t :
  (forall l, In l (lit_at c t) -> num_value num1 l = num_value num2 l) ->
  lex_one num1 c t = lex_one num2 c t.
Proof.
  intros H. unfold lex_one, lit_at in *.
  destruct (c =? 123); [reflexivity|]. destruct (c =? 125); [reflexivity|].
  destruct (c =? 91); [reflexivity|]. destruct (c =? 93); [reflexivity|].
  destruct (c =? 44); [reflexivity|]. destruct (c =? 58); [reflexivity|].
  destruct (c =? 34); [reflexivity|]. destruct (c =? 110); [reflexivity|].
  destruct (c =? 116); [reflexivity|]. destruct (c =? 102); [reflexivity|].
  destruct ((c =? 45) || is_digit c); [|reflexivity].
  destruct (lex_number (c :: t)) as [[l r]|]; [|reflexivity].
  rewrite (H l) by (left; reflexivity). reflexivity.
Qed.

Lemma lex_one_rest num c t tok r :
  lex_one num c t = Some (tok, r) -> exists tok', lex_one num_some c t = Some (tok', r).
Proof.
  unfold lex_one.
  destruct (c =? 123); [eauto|]. destruct (c =? 125); [eauto|].
  destruct (c =? 91); [eauto|]. destruct (c =? 93); [eauto|].
  destruct (c =? 44); [eauto|]. destruct (c =? 58); [eauto|].
  destruct (c =? 34); [eauto|]. destruct (c =? 110); [eauto|].
  destruct (c =? 116); [eauto|]. destruct (c =? 102); [eauto|].
  destruct ((c =? 45) || is_digit c); [|discriminate].
  destruct (lex_number (c :: t)) as [[l r']|]; [|discriminate].
  destruct (num_value num l) as [[z x]|]; [|discriminate]. intros E. inversion E; subst.
  unfold num_value, num_some. destruct (lit_plain l); eauto.
Qed.

Lemma lex_f_dep num1 num2 : forall n s,
  (forall l, In l (text_lits_f n s) -> num_value num1 l = num_value num2 l) ->
  lex_f num1 n s = lex_f num2 n s.
Proof.
  induction n as [|n IH]; intros s H; [reflexivity|]. cbn [lex_f text_lits_f] in *.
  destruct (skip_ws s) as [|c t]; [reflexivity|].
  destruct (lex_one num_some c t) as [[tk rest]|] eqn:L0.
  - rewrite (lex_one_dep num1 num2 c t) by (intros l Hl; apply H; apply in_or_app; left; exact Hl).
    destruct (lex_one num2 c t) as [[tok r]|] eqn:L2; [|reflexivity].
    destruct (lex_one_rest _ _ _ _ _ L2) as [tok' E]. rewrite L0 in E. inversion E; subst r.
    rewrite (IH rest) by (intros l Hl; apply H; apply in_or_app; right; exact Hl). reflexivity.
  - destruct (lex_one num1 c t) as [[tok r]|] eqn:L1.
    { destruct (lex_one_rest _ _ _ _ _ L1) as [tok' E]. congruence. }
    destruct (lex_one num2 c t) as [[tok r]|] eqn:L2; [|reflexivity].
    destruct (lex_one_rest _ _ _ _ _ L2) as [tok' E]. congruence.
Qed.

(* the parse depends on the oracle through the literals of the text only *)
Theorem json_parse_text_dep num1 num2 s :
  (forall l, In l (text_lits s) -> num_value num1 l = num_value num2 l) ->
  json_parse_text num1 s = json_parse_text num2 s.
Proof. intros H. unfold json_parse_text, lex. rewrite (lex_f_dep num1 num2 _ _ H). reflexivity. Qed.

(* every literal of a text is a well-formed literal (it went through lex_number) *)
Lemma lit_at_ok c t l : In l (lit_at c t) -> lit_ok l.
Proof.
  unfold lit_at. destruct ((c =? 45) || is_digit c); [|intros []].
  destruct (lex_number (c :: t)) as [[l' r]|] eqn:LN; [|intros []].
  intros [<-|[]]. apply lex_number_grammar in LN. destruct LN as [txt [_ [_ [OK _]]]]. exact OK.
Qed.

Lemma text_lits_ok s l : In l (text_lits s) -> lit_ok l.
Proof.
  unfold text_lits. generalize (S (length s)). intros n. revert s.
  induction n as [|n IH]; intros s; [intros []|]. cbn [text_lits_f].
  destruct (skip_ws s) as [|c t]; [intros []|].
  destruct (lex_one num_some c t) as [[tk rest]|]; [|intros []].
  intros H. apply in_app_or in H. destruct H as [H|H]; [eapply lit_at_ok; exact H|eapply IH; exact H].
Qed.

(* ---- with num_x: only the NCOracle literals count ---- *)
Definition is_oracle (c : numclass) : bool := match c with NCOracle => true | _ => false end.
Definition oracle_lits (s : bytes) : list numlit := filter (fun l => is_oracle (lit_class l)) (text_lits s).
(* no literal of the text needs the oracle *)
Definition text_decided (s : bytes) : bool := forallb (fun l => negb (is_oracle (lit_class l))) (text_lits s).

Theorem json_parse_x_dep num1 num2 s :
  (forall l, In l (oracle_lits s) -> num1 l = num2 l) ->
  json_parse_x num1 s = json_parse_x num2 s.
Proof.
  intros H. unfold json_parse_x. apply json_parse_text_dep. intros l Hl. rewrite !num_value_x.
  unfold num_x. destruct (lit_class l) eqn:C; try reflexivity.
  apply H. unfold oracle_lits. apply filter_In. split; [exact Hl|]. rewrite C. reflexivity.
Qed.

Lemma text_decided_no_oracle_lits s : text_decided s = true <-> oracle_lits s = [].
Proof.
  unfold text_decided, oracle_lits. induction (text_lits s) as [|l ls IH]; [split; reflexivity|].
  cbn [forallb filter]. destruct (is_oracle (lit_class l)); cbn [negb andb]; [split; discriminate|exact IH].
Qed.

Theorem json_parse_x_decided num1 num2 s :
  text_decided s = true -> json_parse_x num1 s = json_parse_x num2 s.
Proof.
  intros H. apply json_parse_x_dep. apply text_decided_no_oracle_lits in H. rewrite H. intros l [].
Qed.

(* ================= a whole token ================= *)
Definition decoded (p : bytes) : list bytes := match b64_decode p with Some b => [b] | None => [] end.
(* the texts verify hands to the JSON parser: the decoded header and payload
   parts of the text before the last dot, when that text has exactly two parts *)
Definition jwt_json_parts (tok : bytes) : list bytes :=
  match split_last tok with
  | Some (u, _) => match split_dots u with
                   | [h; p] => decoded h ++ decoded p
                   | _ => []
                   end
  | None => []
  end.

Lemma verify_parts_ext sv jp1 jp2 keys o tok :
  (forall b, In b (jwt_json_parts tok) -> jp1 b = jp2 b) ->
  verify sv jp1 keys o tok = verify sv jp2 keys o tok.
Proof.
  intros H. unfold verify. destruct (new_validator o) as [v|]; [|reflexivity]. f_equal.
  assert (K : forall k, verify_key sv jp1 k v tok = verify_key sv jp2 k v tok).
  { intros k. unfold verify_key, split_signed. unfold jwt_json_parts in H.
    destruct (split_last tok) as [[u s]|]; [|reflexivity].
    destruct (b64_decode s) as [sg|]; [|reflexivity].
    destruct sg as [|g0 sg]; [reflexivity|]. destruct u as [|u0 u]; [reflexivity|].
    destruct (Nat.eqb (count_dots (u0 :: u)) 1); [|reflexivity].
    destruct (sv (kref k) (g0 :: sg) (u0 :: u)); [|reflexivity].
    assert (D : forall alg tk cu, decode_unsigned jp1 (u0 :: u) alg tk cu = decode_unsigned jp2 (u0 :: u) alg tk cu).
    { intros alg tk cu. unfold decode_unsigned.
      destruct (split_dots (u0 :: u)) as [|h [|p [|q l]]]; try reflexivity.
      unfold decoded in H.
      destruct (b64_decode h) as [hb|]; [|reflexivity].
      rewrite (H hb) by (left; reflexivity).
      destruct (jp2 hb) as [hdr|]; [|reflexivity].
      destruct (validate_header hdr alg tk cu); [|reflexivity].
      destruct (extract_typ hdr) as [typ|]; [|reflexivity].
      destruct (b64_decode p) as [pb|]; [|reflexivity].
      rewrite (H pb) by (right; left; reflexivity). reflexivity. }
    rewrite D. reflexivity. }
  generalize false. induction keys as [|k ks IH]; intros i; [reflexivity|]. cbn [verify_loop].
  rewrite K. destruct (kenabled k); [|apply IH].
  destruct (verify_key sv jp2 k v tok); [reflexivity|apply IH|apply IH].
Qed.

(* the verdict AND the returned claims depend on the oracle only through its
   answers on the NCOracle literals of the header and payload texts *)
Theorem verify_x_oracle_dependence num1 num2 sv keys o tok :
  (forall part l, In part (jwt_json_parts tok) -> In l (oracle_lits part) -> num1 l = num2 l) ->
  verify sv (json_parse_x num1) keys o tok = verify sv (json_parse_x num2) keys o tok.
Proof.
  intros H. apply verify_parts_ext. intros b Hb. apply json_parse_x_dep. intros l Hl. exact (H b l Hb Hl).
Qed.

(* a token all of whose number literals (header and payload, any depth, any
   spelling WITHIN THE DIGIT BUDGET: integer part of at most 800 digits,
   exponent below 10000 in magnitude unless the mantissa is zero) are integers
   below 2^53, zero, underflow or overflow: no oracle.  A literal outside the
   budget has class NCOracle (lit_class_long, lit_class_long_exp), so a token
   containing one is not token_decided. *)
Definition token_decided (tok : bytes) : bool := forallb text_decided (jwt_json_parts tok).

Theorem verify_x_decided num1 num2 sv keys o tok :
  token_decided tok = true ->
  verify sv (json_parse_x num1) keys o tok = verify sv (json_parse_x num2) keys o tok.
Proof.
  intros H. apply verify_x_oracle_dependence. intros part l Hp Hl.
  unfold token_decided in H. rewrite forallb_forall in H. specialize (H part Hp).
  apply text_decided_no_oracle_lits in H. rewrite H in Hl. destruct Hl.
Qed.

(* the same for the JWK set text *)
Theorem jwk_import_x_decided num1 num2 oc s :
  text_decided s = true ->
  jwk_import_text (num_x num1) oc s = jwk_import_text (num_x num2) oc s.
Proof.
  intros H. unfold jwk_import_text. change (json_parse_text (num_x num1)) with (json_parse_x num1).
  change (json_parse_text (num_x num2)) with (json_parse_x num2).
  rewrite (json_parse_x_decided num1 num2 s H). reflexivity.
Qed.

(* ================= the text theorems through the DECLARATIVE grammar ================= *)
(* "the text s spells the object f, within what the parser accepts", with the
   token grammar spells of JsonLexProofs.v in place of the tokenizer *)
Definition text_spells (num : numlit -> option (Z * bytes)) (s : bytes) (f : fields) : Prop :=
  spells num (toks (JObj f)) s /\ nodup_names (JObj f) = true
  /\ (jdepth (JObj f) <= recursion_limit)%nat.

Lemma text_denotes_spells num s f : text_denotes num s f <-> text_spells num s f.
Proof. unfold text_denotes, text_spells. rewrite lex_grammar. reflexivity. Qed.

Theorem verify_text_spells_iff num sig_valid keys o tok r :
  verify sig_valid (json_parse_text num) keys o tok = Some (VOk r) <->
  exists v, options_rule o v /\
  exists h p s sg hb pb hdr,
    tok = h ++ dot :: p ++ dot :: s
    /\ nodot h /\ nodot p /\ nodot s
    /\ b64_decode s = Some sg /\ sg <> []
    /\ b64_decode h = Some hb /\ text_spells num hb hdr
    /\ b64_decode p = Some pb /\ text_spells num pb (r_payload r)
    /\ (exists k, In k keys /\ kenabled k = true
                  /\ sig_valid (kref k) sg (h ++ dot :: p) = true /\ header_rule k hdr)
    /\ typ_rule hdr (r_typ r)
    /\ payload_rule (r_payload r)
    /\ validator_rule v (r_typ r) (r_payload r).
Proof.
  change (verify sig_valid (json_parse_text num)) with (verify_text num sig_valid).
  rewrite verify_text_iff. split.
  - intros [v [Ho [h [p [s [sg [hb [pb [hdr H]]]]]]]]]. exists v. split; [exact Ho|].
    exists h, p, s, sg, hb, pb, hdr.
    destruct H as [E [Hnh [Hnp [Hns [Hd [Hne [Eh [Ej [Ep [Ejp Rest]]]]]]]]]].
    apply text_denotes_spells in Ej, Ejp. repeat (split; [assumption|]). exact Rest.
  - intros [v [Ho [h [p [s [sg [hb [pb [hdr H]]]]]]]]]. exists v. split; [exact Ho|].
    exists h, p, s, sg, hb, pb, hdr.
    destruct H as [E [Hnh [Hnp [Hns [Hd [Hne [Eh [Ej [Ep [Ejp Rest]]]]]]]]]].
    apply text_denotes_spells in Ej, Ejp. repeat (split; [assumption|]). exact Rest.
Qed.

Theorem jwk_import_text_spells num on_curve s l :
  jwk_import_text num on_curve s = Some l <->
  exists f vs, text_spells num s f /\ lookup s_keys f = Some (JArr vs) /\ vs <> []
               /\ Forall2 (jwk_key_rule on_curve) vs l.
Proof.
  rewrite jwk_import_text_spec. split; intros [f [vs [T R]]]; exists f, vs; (split; [|exact R]);
    apply text_denotes_spells; exact T.
Qed.
