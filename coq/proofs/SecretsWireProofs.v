(* C13 — the keyset encoder of model/Secrets.v (ser_keyset: what proto.Marshal
   writes for a tinkpb.Keyset) and the keyset decoder of model/Untrusted.v
   (decode_keyset: what proto.Unmarshal accepts) are inverse on everything the
   encoder can be given by a handle: decode_keyset (ser_keyset ks) = Some ks.
   The two were written independently (Secrets.v for the writers, Untrusted.v
   for the readers of untrusted input); this file relates them. *)
From Coq Require Import String Ascii List Arith NArith Bool Lia ZifyN ZifyNat ZifyBool.
From Tink Require Import Bytes UntrustedConsts Untrusted UntrustedSpec UntrustedProofs Secrets SecretsProofs.
Import ListNotations.
Open Scope list_scope.
Open Scope N_scope.

Definition two64 : N := 18446744073709551616.
Definition two32 : N := 4294967296.

(* ------------------------------------------------------------------ *)
(* one field on the wire                                               *)
(* ------------------------------------------------------------------ *)
Lemma enc_varint_cons v : exists x t, enc_varint v = x :: t.
Proof. unfold enc_varint. cbn [enc_varint_aux]. destruct (v <? 128); eauto. Qed.

Lemma enc_varint_len v : (1 <= length (enc_varint v))%nat.
Proof. destruct (enc_varint_cons v) as (x & t & ->). cbn. lia. Qed.

Lemma tag_div n wt : wt < 8 -> (n * 8 + wt) / 8 = n.
Proof. intros H. symmetry. apply (N.div_unique _ 8 n wt); lia. Qed.
Lemma tag_mod n wt : wt < 8 -> (n * 8 + wt) mod 8 = wt.
Proof. intros H. symmetry. apply (N.mod_unique _ 8 n wt); lia. Qed.

Definition num_ok (n : N) : Prop := 1 <= n /\ n <= max_field_number.

Lemma varint_tag n wt r : num_ok n -> wt < 8 -> varint (enc_tag n wt ++ r) = Some (n * 8 + wt, r).
Proof.
  intros [H1 H2] Hw. unfold enc_tag. apply varint_enc. unfold max_field_number in H2. lia.
Qed.

Lemma num_check n : num_ok n -> (n <? 1) || (max_field_number <? n) = false.
Proof. intros [H1 H2]. apply orb_false_iff. split; apply N.ltb_ge; assumption. Qed.

Lemma fields_aux_step f b : b <> [] ->
  fields_aux (S f) b =
  match varint b with
  | None => None
  | Some (tag, b1) =>
      let num := tag / 8 in
      let wt := tag mod 8 in
      if (num <? 1) || (max_field_number <? num) then None
      else if wt =? 0 then
        match varint b1 with
        | None => None
        | Some (v, b2) => match fields_aux f b2 with Some l => Some ((num, FVar v) :: l) | None => None end
        end
      else if wt =? 2 then
        match varint b1 with
        | None => None
        | Some (m, b2) =>
            match take m b2 with
            | None => None
            | Some (p, b3) => match fields_aux f b3 with Some l => Some ((num, FLen p) :: l) | None => None end
            end
        end
      else if wt =? 3 then
        match skip_groups (S (length b1)) [num] b1 with
        | None => None
        | Some b2 => match fields_aux f b2 with Some l => Some ((num, FOther) :: l) | None => None end
        end
      else
        match skip_scalar wt b1 with
        | None => None
        | Some b2 => match fields_aux f b2 with Some l => Some ((num, FOther) :: l) | None => None end
        end
  end.
Proof. destruct b; [congruence | reflexivity]. Qed.

Lemma take_app p r : take (blen p) (p ++ r) = Some (p, r).
Proof.
  unfold take, blen. rewrite app_length.
  assert (E : (N.of_nat (length p) <=? N.of_nat (length p + length r)) = true) by (apply N.leb_le; lia).
  rewrite E, Nnat.Nat2N.id.
  rewrite firstn_app, Nat.sub_diag, firstn_all, firstn_O, app_nil_r.
  rewrite skipn_app, Nat.sub_diag, skipn_all. reflexivity.
Qed.

(* a length-delimited field in front of a decodable rest *)
Lemma fields_len_field n p rest l :
  num_ok n -> blen p < two64 -> fields rest = Some l ->
  fields (enc_len_field n p ++ rest) = Some ((n, FLen p) :: l).
Proof.
  intros Hn Hp Hr. unfold enc_len_field. rewrite <- !app_assoc.
  set (b := enc_tag n 2 ++ enc_varint (blen p) ++ p ++ rest).
  assert (Hb : b <> []).
  { unfold b, enc_tag. destruct (enc_varint_cons (n * 8 + 2)) as (x & t & ->). discriminate. }
  assert (Hlen : (S (length rest) <= length b)%nat).
  { unfold b. rewrite !app_length. pose proof (enc_varint_len (n * 8 + 2)). unfold enc_tag. lia. }
  unfold fields. destruct (length b) as [|f] eqn:Lb; [lia|].
  rewrite fields_aux_step by exact Hb. unfold b at 1.
  rewrite varint_tag by (auto; lia). cbv zeta.
  rewrite tag_div, tag_mod by lia. rewrite (num_check n Hn).
  change (2 =? 0) with false. change (2 =? 2) with true. cbv iota.
  rewrite varint_enc by exact Hp. rewrite take_app.
  rewrite fields_fuel_adequate by lia. rewrite Hr. reflexivity.
Qed.

(* a varint field in front of a decodable rest *)
Lemma fields_var_field n v rest l :
  num_ok n -> v < two64 -> fields rest = Some l ->
  fields (enc_tag n 0 ++ enc_varint v ++ rest) = Some ((n, FVar v) :: l).
Proof.
  intros Hn Hv Hr.
  set (b := enc_tag n 0 ++ enc_varint v ++ rest).
  assert (Hb : b <> []).
  { unfold b, enc_tag. destruct (enc_varint_cons (n * 8 + 0)) as (x & t & ->). discriminate. }
  assert (Hlen : (S (length rest) <= length b)%nat).
  { unfold b. rewrite !app_length. pose proof (enc_varint_len (n * 8 + 0)). unfold enc_tag. lia. }
  unfold fields. destruct (length b) as [|f] eqn:Lb; [lia|].
  rewrite fields_aux_step by exact Hb. unfold b at 1.
  rewrite varint_tag by (auto; lia). cbv zeta.
  rewrite tag_div, tag_mod by lia. rewrite (num_check n Hn).
  change (0 =? 0) with true. cbv iota.
  rewrite varint_enc by exact Hv.
  rewrite fields_fuel_adequate by lia. rewrite Hr. reflexivity.
Qed.

Lemma fields_nil : fields [] = Some [].
Proof. reflexivity. Qed.

(* optional fields: proto3 omits defaults *)
Definition optv (n v : N) : list field := if v =? 0 then [] else [(n, FVar v)].
Definition optb (n : N) (b : bytes) : list field := match b with [] => [] | _ => [(n, FLen b)] end.

Lemma fields_opt_var n v rest l :
  num_ok n -> v < two64 -> fields rest = Some l ->
  fields (enc_var_field n v ++ rest) = Some (optv n v ++ l).
Proof.
  intros Hn Hv Hr. unfold enc_var_field, optv. destruct (v =? 0); [exact Hr|].
  rewrite <- app_assoc. apply fields_var_field; assumption.
Qed.

Lemma fields_opt_bytes n b rest l :
  num_ok n -> blen b < two64 -> fields rest = Some l ->
  fields (enc_bytes_field n b ++ rest) = Some (optb n b ++ l).
Proof.
  intros Hn Hb Hr. unfold enc_bytes_field, optb. destruct b as [|x t]; [exact Hr|].
  apply fields_len_field; assumption.
Qed.

(* ------------------------------------------------------------------ *)
(* getters over lists of fields                                        *)
(* ------------------------------------------------------------------ *)
Lemma payloads_app n a b : payloads n (a ++ b) = payloads n a ++ payloads n b.
Proof. unfold payloads. apply flat_map_app. Qed.

Lemma payloads_optv n m v : payloads n (optv m v) = [].
Proof. unfold optv. destruct (v =? 0); reflexivity. Qed.

Lemma payloads_optb n m b : payloads n (optb m b) = if m =? n then (match b with [] => [] | _ => [b] end) else [].
Proof. unfold optb. destruct b; cbn; destruct (m =? n); reflexivity. Qed.

Definition gv_step (n : N) (acc : N) (f : field) : N :=
  match f with
  | (k, FVar v) => if k =? n then v else acc
  | _ => acc
  end.
Definition gv (n acc : N) (fs : list field) : N := fold_left (gv_step n) fs acc.

Lemma get_var_gv n fs : get_var n fs = gv n 0 fs.
Proof. reflexivity. Qed.

Lemma gv_app n acc a b : gv n acc (a ++ b) = gv n (gv n acc a) b.
Proof. unfold gv. apply fold_left_app. Qed.

Lemma gv_optv n acc m v : gv n acc (optv m v) = if (m =? n) && negb (v =? 0) then v else acc.
Proof. unfold optv. destruct (v =? 0); cbn; [rewrite andb_false_r; reflexivity|]. destruct (m =? n); reflexivity. Qed.

Lemma gv_optb n acc m b : gv n acc (optb m b) = acc.
Proof. unfold optb. destruct b; reflexivity. Qed.

Lemma gv_lens n acc {A} (g : A -> bytes) m l : gv n acc (map (fun x => (m, FLen (g x))) l) = acc.
Proof. induction l as [|x l IH]; [reflexivity|]. cbn. exact IH. Qed.

Lemma u32_small v : v < two32 -> u32 v = v.
Proof. intros H. unfold u32. apply N.mod_small. exact H. Qed.

Lemma optv_value (v : N) : (if negb (v =? 0) then v else 0) = v.
Proof. destruct (v =? 0) eqn:E; [apply N.eqb_eq in E; subst; reflexivity | reflexivity]. Qed.

(* ------------------------------------------------------------------ *)
(* KeyData                                                             *)
(* ------------------------------------------------------------------ *)
Definition keydata_fields (kd : keydata) : list field :=
  optb 1 (kd_url kd) ++ optb 2 (kd_value kd) ++ optv 3 (kd_mat kd).

Lemma num_ok_small n : 1 <= n -> n <= 15 -> num_ok n.
Proof. intros H1 H2. split; [exact H1|]. unfold max_field_number. lia. Qed.

Lemma fields_ser_keydata kd :
  blen (kd_url kd) < two64 -> blen (kd_value kd) < two64 -> kd_mat kd < two64 ->
  fields (ser_keydata kd) = Some (keydata_fields kd).
Proof.
  intros Hu Hv Hm. unfold ser_keydata, keydata_fields.
  apply fields_opt_bytes; [apply num_ok_small; lia | exact Hu |].
  apply fields_opt_bytes; [apply num_ok_small; lia | exact Hv |].
  rewrite <- (app_nil_r (enc_var_field 3 (kd_mat kd))), <- (app_nil_r (optv 3 (kd_mat kd))).
  apply fields_opt_var; [apply num_ok_small; lia | exact Hm | apply fields_nil].
Qed.

Lemma keydata_of_fields kd : kd_mat kd < two32 -> keydata_of (keydata_fields kd) = kd.
Proof.
  intros Hm. destruct kd as [u v m]. cbn [kd_url kd_value kd_mat] in *. unfold keydata_of, keydata_fields.
  f_equal.
  - unfold get_len. rewrite !payloads_app, !payloads_optb, payloads_optv. cbn [N.eqb Pos.eqb app].
    destruct u; reflexivity.
  - unfold get_len. rewrite !payloads_app, !payloads_optb, payloads_optv. cbn [N.eqb Pos.eqb app].
    destruct v; reflexivity.
  - unfold get_u32. rewrite get_var_gv, !gv_app, !gv_optb, gv_optv. cbn [N.eqb Pos.eqb andb].
    rewrite optv_value. apply u32_small. exact Hm.
Qed.

Lemma wire_ok_keydata_unfold b :
  wire_ok sch_keydata b =
  match fields b with
  | None => false
  | Some fs => true && (forallb utf8_valid (payloads 1 fs) && true)
  end.
Proof. reflexivity. Qed.

Lemma wire_ok_ser_keydata kd :
  blen (kd_url kd) < two64 -> blen (kd_value kd) < two64 -> kd_mat kd < two64 ->
  utf8_valid (kd_url kd) = true ->
  wire_ok sch_keydata (ser_keydata kd) = true.
Proof.
  intros Hu Hv Hm U. rewrite wire_ok_keydata_unfold, fields_ser_keydata by assumption.
  unfold keydata_fields. rewrite !payloads_app, !payloads_optb, payloads_optv. cbn [N.eqb Pos.eqb app].
  destruct (kd_url kd) eqn:E; [reflexivity|]. cbn [app forallb]. rewrite U. reflexivity.
Qed.

(* ------------------------------------------------------------------ *)
(* Keyset.Key                                                          *)
(* ------------------------------------------------------------------ *)
Definition key_fields (k : pkey) : list field :=
  (match k_data k with Some kd => [(1, FLen (ser_keydata kd))] | None => [] end)
  ++ optv 2 (k_status k) ++ optv 3 (k_id k) ++ optv 4 (k_prefix k).

(* what a key must satisfy to be a tinkpb.Keyset_Key that Marshal writes and
   Unmarshal reads back: uint32 / enum fields in range, the type URL a valid
   UTF-8 string *)
Definition wire_key (k : pkey) : Prop :=
  k_status k < two32 /\ k_id k < two32 /\ k_prefix k < two32 /\
  match k_data k with
  | Some kd => utf8_valid (kd_url kd) = true /\ kd_mat kd < two32
  | None => True
  end.

Definition key_sizes (k : pkey) : Prop :=
  match k_data k with
  | Some kd => blen (kd_url kd) < two64 /\ blen (kd_value kd) < two64 /\ blen (ser_keydata kd) < two64
  | None => True
  end.

Lemma lt32_64 v : v < two32 -> v < two64.
Proof. unfold two32, two64. lia. Qed.

Lemma fields_ser_key k : wire_key k -> key_sizes k -> fields (ser_key k) = Some (key_fields k).
Proof.
  intros (Hs & Hi & Hp & Hd) Hz. unfold ser_key, key_fields.
  assert (Hrest : fields (enc_var_field 2 (k_status k) ++ enc_var_field 3 (k_id k) ++ enc_var_field 4 (k_prefix k))
                  = Some (optv 2 (k_status k) ++ optv 3 (k_id k) ++ optv 4 (k_prefix k))).
  { apply fields_opt_var; [apply num_ok_small; lia | apply lt32_64; exact Hs |].
    apply fields_opt_var; [apply num_ok_small; lia | apply lt32_64; exact Hi |].
    rewrite <- (app_nil_r (enc_var_field 4 (k_prefix k))), <- (app_nil_r (optv 4 (k_prefix k))).
    apply fields_opt_var; [apply num_ok_small; lia | apply lt32_64; exact Hp | apply fields_nil]. }
  unfold key_sizes in Hz. destruct (k_data k) as [kd|]; [|exact Hrest].
  destruct Hz as (_ & _ & Hz).
  change ([(1, FLen (ser_keydata kd))] ++ optv 2 (k_status k) ++ optv 3 (k_id k) ++ optv 4 (k_prefix k))
    with ((1, FLen (ser_keydata kd)) :: (optv 2 (k_status k) ++ optv 3 (k_id k) ++ optv 4 (k_prefix k))).
  apply fields_len_field; [apply num_ok_small; lia | exact Hz | exact Hrest].
Qed.

Lemma fields_or_nil_some b l : fields b = Some l -> fields_or_nil b = l.
Proof. unfold fields_or_nil. intros ->. reflexivity. Qed.

Lemma key_of_fields k : wire_key k -> key_sizes k -> key_of (key_fields k) = k.
Proof.
  intros (Hs & Hi & Hp & Hd) Hz. destruct k as [d st id pf]. cbn [k_data k_status k_id k_prefix] in *.
  unfold key_of, key_fields. cbn [k_data k_status k_id k_prefix].
  assert (G2 : forall pre, gv 2 0 pre = 0 -> get_u32 2 (pre ++ optv 2 st ++ optv 3 id ++ optv 4 pf) = st).
  { intros pre Hpre. unfold get_u32. rewrite get_var_gv, !gv_app, Hpre, !gv_optv. cbn [N.eqb Pos.eqb andb].
    rewrite optv_value. apply u32_small. exact Hs. }
  assert (G3 : forall pre, gv 3 0 pre = 0 -> get_u32 3 (pre ++ optv 2 st ++ optv 3 id ++ optv 4 pf) = id).
  { intros pre Hpre. unfold get_u32. rewrite get_var_gv, !gv_app, Hpre, !gv_optv. cbn [N.eqb Pos.eqb andb].
    rewrite optv_value. apply u32_small. exact Hi. }
  assert (G4 : forall pre, gv 4 0 pre = 0 -> get_u32 4 (pre ++ optv 2 st ++ optv 3 id ++ optv 4 pf) = pf).
  { intros pre Hpre. unfold get_u32. rewrite get_var_gv, !gv_app, Hpre, !gv_optv. cbn [N.eqb Pos.eqb andb].
    rewrite optv_value. apply u32_small. exact Hp. }
  destruct d as [kd|].
  - destruct Hd as [Hu Hm]. destruct Hz as (Zu & Zv & Zk).
    rewrite G2, G3, G4 by reflexivity.
    unfold has_sub, get_sub. rewrite !payloads_app, !payloads_optv. cbn [payloads flat_map N.eqb Pos.eqb app].
    rewrite (fields_or_nil_some _ _ (fields_ser_keydata kd Zu Zv (lt32_64 _ Hm))), app_nil_r.
    rewrite keydata_of_fields by exact Hm. reflexivity.
  - rewrite G2, G3, G4 by reflexivity.
    unfold has_sub. rewrite !payloads_app, !payloads_optv. reflexivity.
Qed.

Lemma wire_ok_key_unfold b :
  wire_ok sch_key b =
  match fields b with
  | None => false
  | Some fs => (forallb (wire_ok sch_keydata) (payloads 1 fs) && true) && true
  end.
Proof. reflexivity. Qed.

Lemma wire_ok_ser_key k : wire_key k -> key_sizes k -> wire_ok sch_key (ser_key k) = true.
Proof.
  intros Hw Hz. rewrite wire_ok_key_unfold, (fields_ser_key k Hw Hz).
  destruct Hw as (_ & _ & _ & Hd). unfold key_fields, key_sizes in *.
  rewrite !payloads_app, !payloads_optv.
  destruct (k_data k) as [kd|]; [|reflexivity].
  destruct Hd as [Hu Hm]. destruct Hz as (Zu & Zv & _).
  cbn [payloads flat_map N.eqb Pos.eqb app forallb].
  rewrite wire_ok_ser_keydata; [reflexivity | exact Zu | exact Zv | apply lt32_64; exact Hm | exact Hu].
Qed.

(* ------------------------------------------------------------------ *)
(* Keyset                                                              *)
(* ------------------------------------------------------------------ *)
Definition keyset_fields (pr : N) (pks : list pkey) : list field :=
  optv 1 pr ++ map (fun k => (2, FLen (ser_key k))) pks.

Lemma ser_keyset_some pr pks :
  ser_keyset (mkKS pr (map Some pks)) =
  enc_var_field 1 pr ++ flat_map (fun k => enc_len_field 2 (ser_key k)) pks.
Proof.
  unfold ser_keyset. cbn [ks_primary ks_keys]. f_equal.
  induction pks as [|k t IH]; [reflexivity|]. cbn [map flat_map]. rewrite IH. reflexivity.
Qed.

Lemma fields_keys pks :
  Forall (fun k => blen (ser_key k) < two64) pks ->
  fields (flat_map (fun k => enc_len_field 2 (ser_key k)) pks) = Some (map (fun k => (2, FLen (ser_key k))) pks).
Proof.
  induction 1 as [|k t Hk _ IH]; [reflexivity|]. cbn [flat_map map].
  apply fields_len_field; [apply num_ok_small; lia | exact Hk | exact IH].
Qed.

Lemma fields_ser_keyset pr pks :
  pr < two32 -> Forall (fun k => blen (ser_key k) < two64) pks ->
  fields (ser_keyset (mkKS pr (map Some pks))) = Some (keyset_fields pr pks).
Proof.
  intros Hp Hk. rewrite ser_keyset_some. unfold keyset_fields.
  apply fields_opt_var; [apply num_ok_small; lia | apply lt32_64; exact Hp | apply fields_keys; exact Hk].
Qed.

Lemma payloads_keys pks : payloads 2 (map (fun k => (2, FLen (ser_key k))) pks) = map ser_key pks.
Proof. induction pks as [|k t IH]; [reflexivity|]. cbn. f_equal. exact IH. Qed.

Lemma wire_ok_keyset_unfold b :
  wire_ok sch_keyset b =
  match fields b with
  | None => false
  | Some fs => (forallb (wire_ok sch_key) (payloads 2 fs) && true) && true
  end.
Proof. reflexivity. Qed.

(* proto.Unmarshal reads back what proto.Marshal wrote *)
Theorem decode_ser_keyset pr pks :
  pr < two32 -> Forall wire_key pks -> Forall key_sizes pks ->
  Forall (fun k => blen (ser_key k) < two64) pks ->
  decode_keyset (ser_keyset (mkKS pr (map Some pks))) = Some (mkKS pr (map Some pks)).
Proof.
  intros Hp Hw Hz Hk. unfold decode_keyset.
  pose proof (fields_ser_keyset pr pks Hp Hk) as F.
  rewrite wire_ok_keyset_unfold, F. unfold keyset_fields at 1.
  rewrite payloads_app, payloads_optv, payloads_keys. cbn [app].
  assert (W : forallb (wire_ok sch_key) (map ser_key pks) = true).
  { apply forallb_forall. intros b Hb. apply in_map_iff in Hb. destruct Hb as (k & <- & Hin).
    rewrite Forall_forall in Hw, Hz. apply wire_ok_ser_key; auto. }
  rewrite W. cbn [andb]. f_equal.
  rewrite (fields_or_nil_some _ _ F). unfold keyset_of, keyset_fields. f_equal.
  - unfold get_u32. rewrite get_var_gv, gv_app, gv_optv, gv_lens. cbn [N.eqb Pos.eqb andb].
    rewrite optv_value. apply u32_small. exact Hp.
  - rewrite payloads_app, payloads_optv, payloads_keys. cbn [app]. rewrite map_map.
    apply map_ext_in. intros k Hin. rewrite Forall_forall in Hw, Hz.
    rewrite (fields_or_nil_some _ _ (fields_ser_key k (Hw k Hin) (Hz k Hin))).
    rewrite key_of_fields; auto.
Qed.
