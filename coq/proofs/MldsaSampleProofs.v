(* Ranges of what the samplers of the ML-DSA model (model/MldsaPoly.v,
   sampling.go) and BitUnpack return, for EVERY XOF output:
     RejectNTTPoly      256 coefficients in [0, q)
     RejectBoundedPoly  256 coefficients c with |c mod+- q| <= eta   (eta = 2, 4)
     SampleInBall       256 coefficients in {0, 1, q-1} with || c ||_1 <= tau
     BitUnpack          256 coefficients in [0, q) *)
From Coq Require Import List ZArith NArith Bool Arith Lia.
From Tink Require Import Bytes Wrap MldsaScalar MldsaScalarProofs MldsaScalarProofs2 MldsaTableProofs
  MldsaKernels MldsaKernelsProofs MldsaPoly Mldsa MldsaPackProofs MldsaNttProofs MldsaAlgebraProofs
  MldsaConvProofs MldsaNormProofs.
Import ListNotations.
Local Open Scope Z_scope.

(* ---- RejectNTTPoly ---- *)
Lemma rejectNTT_stream_props : forall (n : nat) s need acc p,
  (length s <= n)%nat -> rejectNTT_stream need s acc = Some p -> canon acc ->
  length p = (need + length acc)%nat /\ canon p.
Proof.
  induction n as [|n IH]; intros s need acc p Hn H Ca.
  - destruct s; [|simpl in Hn; lia]. destruct need; simpl in H; [|discriminate].
    inversion H; subst. rewrite rev_length. split; [reflexivity | apply Forall_rev; exact Ca].
  - destruct need as [|need].
    + destruct s; simpl in H; inversion H; subst; rewrite rev_length; (split; [reflexivity | apply Forall_rev; exact Ca]).
    + destruct s as [|b0 [|b1 [|b2 rest]]]; try (simpl in H; discriminate).
      cbn [rejectNTT_stream] in H.
      set (c := Z.lor (Z.lor (Z.of_N b0) (Z.shiftl (Z.of_N b1) 8)) (Z.shiftl (Z.land (Z.of_N b2) 127) 16)) in H.
      assert (Hc : 0 <= c).
      { unfold c. apply Z.lor_nonneg. split; [apply Z.lor_nonneg; split; [lia | apply Z.shiftl_nonneg; lia]|].
        apply Z.shiftl_nonneg. apply Z.land_nonneg. lia. }
      cbn [length] in Hn.
      destruct (c <? mldsa_q) eqn:E.
      * apply Z.ltb_lt in E. apply IH in H; [| cbn [length] in *; lia | constructor; [change mldsa_q with q in E; lia | exact Ca]].
        cbn [length] in H. destruct H as [H1 H2]. split; [lia | exact H2].
      * apply IH in H; [exact H | lia | exact Ca].
Qed.

Lemma rejectNTT_cpoly shake128 rho p : rejectNTTPoly shake128 rho = Some p -> cpoly p.
Proof.
  unfold rejectNTTPoly. intros H.
  eapply rejectNTT_stream_props in H; [| apply Nat.le_refl | constructor].
  destruct H as [H1 H2]. split; [rewrite H1; reflexivity | exact H2].
Qed.

(* ---- RejectBoundedPoly ---- *)
Definition small (eta : Z) (c : Z) : Prop := 0 <= c < q /\ cabs c <= eta.

Lemma coeffFromHalfByte_small eta b c : eta = 2 \/ eta = 4 -> 0 <= b ->
  coeffFromHalfByte eta b = Some c -> small eta c.
Proof.
  intros He Hb H. unfold coeffFromHalfByte in H.
  destruct He as [-> | ->]; cbn [Z.eqb Pos.eqb andb] in H.
  - destruct (b <? 15) eqn:E; [|discriminate]. apply Z.ltb_lt in E. inversion H; subst c; clear H.
    assert (K : b = 0 \/ b = 1 \/ b = 2 \/ b = 3 \/ b = 4 \/ b = 5 \/ b = 6 \/ b = 7 \/ b = 8 \/ b = 9 \/
                b = 10 \/ b = 11 \/ b = 12 \/ b = 13 \/ b = 14) by lia.
    repeat (destruct K as [-> | K]; [vm_compute; repeat split; congruence|]).
    subst b. vm_compute; repeat split; congruence.
  - destruct (b <? 9) eqn:E; [|discriminate]. apply Z.ltb_lt in E. inversion H; subst c; clear H.
    assert (K : b = 0 \/ b = 1 \/ b = 2 \/ b = 3 \/ b = 4 \/ b = 5 \/ b = 6 \/ b = 7 \/ b = 8) by lia.
    repeat (destruct K as [-> | K]; [vm_compute; repeat split; congruence|]).
    subst b. vm_compute; repeat split; congruence.
Qed.

Lemma rejectBounded_stream_props eta : eta = 2 \/ eta = 4 -> forall s need acc p,
  rejectBounded_stream eta s need acc = Some p -> Forall (small eta) acc ->
  length p = (need + length acc)%nat /\ Forall (small eta) p.
Proof.
  intros He. induction s as [|z s IH]; intros need acc p H Ca.
  - destruct need; simpl in H; [|discriminate]. inversion H; subst. rewrite rev_length.
    split; [reflexivity | apply Forall_rev; exact Ca].
  - destruct need as [|need].
    + simpl in H. inversion H; subst. rewrite rev_length. split; [reflexivity | apply Forall_rev; exact Ca].
    + cbn [rejectBounded_stream] in H.
      assert (B0 : 0 <= Z.land (Z.of_N z) 15) by (apply Z.land_nonneg; lia).
      assert (B1 : 0 <= Z.shiftr (Z.of_N z) 4) by (apply Z.shiftr_nonneg; lia).
      destruct (coeffFromHalfByte eta (Z.land (Z.of_N z) 15)) as [c0|] eqn:E0;
      destruct (coeffFromHalfByte eta (Z.shiftr (Z.of_N z) 4)) as [c1|] eqn:E1;
      try (apply (coeffFromHalfByte_small eta _ _ He B0) in E0);
      try (apply (coeffFromHalfByte_small eta _ _ He B1) in E1).
      * destruct need as [|need].
        { inversion H; subst. cbn [rev]. rewrite app_length, rev_length. cbn [length].
          split; [lia|]. apply Forall_app. split; [apply Forall_rev; exact Ca | constructor; [exact E0 | constructor]]. }
        apply IH in H; [| constructor; [exact E1 | constructor; [exact E0 | exact Ca]]].
        cbn [length] in H. destruct H as [H1 H2]. split; [lia | exact H2].
      * destruct need as [|need].
        { inversion H; subst. cbn [rev]. rewrite app_length, rev_length. cbn [length].
          split; [lia|]. apply Forall_app. split; [apply Forall_rev; exact Ca | constructor; [exact E0 | constructor]]. }
        apply IH in H; [| constructor; [exact E0 | exact Ca]].
        cbn [length] in H. destruct H as [H1 H2]. split; [lia | exact H2].
      * apply IH in H; [| constructor; [exact E1 | exact Ca]].
        cbn [length] in H. destruct H as [H1 H2]. split; [lia | exact H2].
      * apply IH in H; [exact H | exact Ca].
Qed.

Lemma rejectBounded_props shake256 eta rho p : eta = 2 \/ eta = 4 ->
  rejectBoundedPoly shake256 eta rho = Some p -> cpoly p /\ bounded eta p.
Proof.
  intros He H. unfold rejectBoundedPoly in H.
  eapply rejectBounded_stream_props in H; [| exact He | constructor].
  destruct H as [H1 H2]. split; [split; [rewrite H1; reflexivity|] |].
  - eapply Forall_impl; [|exact H2]. intros a [Ha _]. exact Ha.
  - eapply Forall_impl; [|exact H2]. intros a [_ Ha]. exact Ha.
Qed.

(* ---- SampleInBall ---- *)
Lemma l1_upd j v l : (j < length l)%nat -> l1 (upd j v l) = l1 l - cabs (nth j l 0) + cabs v.
Proof.
  revert j. induction l as [|x l IH]; intros [|j] H; cbn [length] in H; try lia.
  - cbn [upd l1 fold_right nth]. lia.
  - cbn [upd l1 fold_right nth]. fold (l1 (upd j v l)). fold (l1 l). rewrite IH by lia. lia.
Qed.

Lemma sib_next_le i s j rest : sib_next i s = Some (j, rest) -> (j <= i)%nat.
Proof.
  induction s as [|b s IH]; simpl; [discriminate|].
  destruct (Nat.leb (N.to_nat b) i) eqn:E; [|exact IH].
  intros H. inversion H; subst. apply Nat.leb_le. exact E.
Qed.

Lemma sib_sign_value sb :
  let v := k_sub 1 (wrapu 32 (wrapu 64 (2 * Z.land sb 1))) in (v = 1 \/ v = q - 1).
Proof.
  cbv zeta. replace (Z.land sb 1) with (sb mod 2) by (symmetry; apply (land_ones_mod sb 1); lia).
  pose proof (Z.mod_pos_bound sb 2 ltac:(lia)) as B.
  assert (K : sb mod 2 = 0 \/ sb mod 2 = 1) by lia.
  destruct K as [-> | ->]; [left | right]; reflexivity.
Qed.

Lemma sib_loop_props : forall cnt i sb s res p B,
  sib_loop cnt i sb s res = Some p -> (i + cnt = 256)%nat ->
  length res = 256%nat -> canon res -> (forall k, (i <= k)%nat -> nth k res 0 = 0) -> l1 res <= B ->
  length p = 256%nat /\ canon p /\ l1 p <= B + Z.of_nat cnt.
Proof.
  induction cnt as [|cnt IH]; intros i sb s res p B H Hi L C Z0 HB.
  - simpl in H. inversion H; subst. repeat split; auto. lia.
  - cbn [sib_loop] in H. destruct (sib_next i s) as [[j rest]|] eqn:E; [|discriminate].
    apply sib_next_le in E.
    set (v := k_sub 1 (wrapu 32 (wrapu 64 (2 * Z.land sb 1)))) in H.
    pose proof (sib_sign_value sb) as Hv. cbv zeta in Hv. fold v in Hv.
    assert (Rv : 0 <= v < q /\ cabs v = 1) by (destruct Hv as [-> | ->]; split; try reflexivity; unfold q; lia).
    set (res1 := upd i (nth j res 0) res) in H.
    assert (Rj : 0 <= nth j res 0 < q) by (apply canon_nth; auto; lia).
    assert (L1 : length res1 = 256%nat) by (unfold res1; rewrite upd_length; exact L).
    assert (N1 : nth j res1 0 = nth j res 0).
    { unfold res1. rewrite nth_upd by lia. destruct (Nat.eqb j i) eqn:E2; reflexivity. }
    assert (S1 : l1 res1 = l1 res + cabs (nth j res 0)).
    { unfold res1. rewrite l1_upd by lia. rewrite (Z0 i) by lia. rewrite cabs_0. lia. }
    apply (IH _ _ _ _ _ (B + 1)) in H.
    + destruct H as (H1 & H2 & H3). repeat split; auto. lia.
    + lia.
    + rewrite upd_length. exact L1.
    + apply canon_upd; [apply canon_upd; auto | tauto].
    + intros k Hk. rewrite nth_upd by lia.
      destruct (Nat.eqb k j) eqn:E2; [apply Nat.eqb_eq in E2; lia|].
      unfold res1. rewrite nth_upd by lia.
      destruct (Nat.eqb k i) eqn:E3; [apply Nat.eqb_eq in E3; lia|]. apply Z0. lia.
    + rewrite l1_upd by lia. rewrite N1, S1. lia.
Qed.

Lemma l1_zero_poly : l1 zero_poly = 0.
Proof. reflexivity. Qed.

Lemma sampleInBall_props shake256 tau rho c : (tau <= 256)%nat ->
  sampleInBall shake256 tau rho = Some c -> cpoly c /\ l1 c <= Z.of_nat tau.
Proof.
  intros Ht H. unfold sampleInBall, sampleInBall_stream in H.
  destruct (Nat.ltb (length (shake256 rho sampleInBall_bytes)) 8); [discriminate|].
  apply (sib_loop_props _ _ _ _ _ _ 0) in H.
  - destruct H as (H1 & H2 & H3). split; [split; auto | lia].
  - unfold degree. lia.
  - reflexivity.
  - apply cpoly_zero.
  - intros k _. apply nth_zero_poly.
  - rewrite l1_zero_poly. lia.
Qed.

(* ---- BitUnpack ---- *)
Lemma groups_fuel_short {A} n : forall f (l : list A), Forall (fun g => (length g <= n)%nat) (groups_fuel f n l).
Proof.
  induction f as [|f IH]; intros l; cbn [groups_fuel]; [constructor|].
  destruct l; [constructor|]. constructor; [rewrite firstn_length; lia | apply IH].
Qed.

Lemma simpleBitUnpack_props bits enc :
  length (simpleBitUnpack bits enc) = 256%nat /\
  Forall (fun c => 0 <= c < 2 ^ Z.of_nat bits) (simpleBitUnpack bits enc).
Proof.
  unfold simpleBitUnpack.
  set (cs := map val_of (groups bits (flat_map bits_of_byte enc))).
  assert (F : Forall (fun c => 0 <= c < 2 ^ Z.of_nat bits) cs).
  { unfold cs. apply Forall_map. unfold groups.
    eapply Forall_impl; [|apply groups_fuel_short]. intros g Hg. cbv beta in *.
    split; [apply val_of_nonneg|]. eapply Z.lt_le_trans; [apply val_of_bound|].
    apply Z.pow_le_mono_r; lia. }
  split.
  - rewrite firstn_length, app_length, repeat_length. unfold degree. lia.
  - apply Forall_forall. intros x Hx. apply (In_nth _ _ 0) in Hx. destruct Hx as (i & Hi & <-).
    rewrite firstn_length in Hi. rewrite nth_firstn_lt by lia.
    assert (F2 : Forall (fun c => 0 <= c < 2 ^ Z.of_nat bits) (cs ++ repeat 0 (degree - length cs))).
    { apply Forall_app. split; [exact F|]. apply Forall_forall. intros y Hy. apply repeat_spec in Hy. subst.
      split; [lia | apply Z.pow_pos_nonneg; lia]. }
    rewrite Forall_nth in F2. apply F2. lia.
Qed.

Lemma bitUnpack_cpoly a bits enc : 0 <= a < q -> 2 ^ Z.of_nat bits <= q -> cpoly (bitUnpack a bits enc).
Proof.
  intros Ha Hb. destruct (simpleBitUnpack_props bits enc) as [L F].
  unfold bitUnpack, psubFrom. split; [rewrite map_length; exact L|].
  apply Forall_map. eapply Forall_impl; [|exact F]. intros c Hc. cbv beta in *.
  apply k_sub_range; auto. lia.
Qed.
