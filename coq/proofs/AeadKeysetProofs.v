(* Proofs about model/AeadKeyset.v: the keyset-level Decrypt releases a
   plaintext only if a primitive of the keyset with matching or empty prefix
   does; it never panics when the primitives do not (the unchecked
   ciphertext[len(prefix):] of the legacy adapter is safe because the prefix
   map yields prefixed primitives only for ciphertexts of at least 5 bytes). *)
From Coq Require Import List NArith Bool Arith Lia ZifyN ZifyNat ZifyBool.
From Tink Require Import Bytes AeadFrame AeadFrameProofs AeadKeyset.
Import ListNotations.
Open Scope N_scope.

Definition selectable (e : prim) (c : bytes) : Prop :=
  pr_prefix e = [] \/ ((5 <= length c)%nat /\ pr_prefix e = firstn 5 c).

Lemma matching_In ps c e : In e (matching ps c) <-> In e ps /\ selectable e c.
Proof.
  unfold matching, selectable. rewrite in_app_iff.
  assert (Hr : forall e, is_raw e = true <-> pr_prefix e = []).
  { intros x. unfold is_raw. destruct (pr_prefix x); split; congruence. }
  destruct (Nat.leb_spec 5 (length c)) as [Hl|Hl].
  - rewrite !filter_In, andb_true_iff, negb_true_iff, beq_eq. split.
    + intros [[Hi [Hn Hp]]|[Hi Hp]]; [split; auto | split; [auto|left; apply Hr; exact Hp]].
    + intros [Hi [Hp|[_ Hp]]]; [right; split; [auto|apply Hr; exact Hp]|].
      destruct (is_raw e) eqn:E; [right; auto | left; auto].
  - rewrite filter_In. split.
    + intros [[]|[Hi Hp]]. split; [auto|left; apply Hr; exact Hp].
    + intros [Hi [Hp|[Hl' _]]]; [right; split; [auto|apply Hr; exact Hp]|lia].
Qed.

Lemma try_all_sound ps c ad p : try_all ps c ad = Ok p -> exists e, In e ps /\ prim_dec e c ad = Ok p.
Proof.
  induction ps as [|e t IH]; simpl; [discriminate|].
  destruct (prim_dec e c ad) as [q| |] eqn:E; try discriminate.
  - intros H; inversion H; subst. exists e. auto.
  - intros H. destruct (IH H) as [e' [Hi Hd]]. exists e'. auto.
Qed.

Lemma try_all_complete ps c ad : (forall e, In e ps -> prim_dec e c ad <> Panic) ->
  (exists e p, In e ps /\ prim_dec e c ad = Ok p) -> exists p, try_all ps c ad = Ok p.
Proof.
  induction ps as [|e t IH]; intros Hn [e' [p [Hi Hd]]]; [destruct Hi|]. simpl.
  destruct (prim_dec e c ad) as [q| |] eqn:E.
  - eauto.
  - apply IH; [intros x Hx; apply Hn; right; exact Hx|].
    destruct Hi as [<-|Hi]; [congruence|]. eauto.
  - exfalso. apply (Hn e (or_introl eq_refl)). exact E.
Qed.

Lemma try_all_no_panic ps c ad : (forall e, In e ps -> prim_dec e c ad <> Panic) -> try_all ps c ad <> Panic.
Proof.
  induction ps as [|e t IH]; intros Hn; simpl; [discriminate|].
  destruct (prim_dec e c ad) eqn:E; [discriminate| |exfalso; apply (Hn e (or_introl eq_refl)); exact E].
  apply IH. intros x Hx. apply Hn. right. exact Hx.
Qed.

Lemma try_all_err_iff ps c ad : (forall e, In e ps -> prim_dec e c ad <> Panic) ->
  (try_all ps c ad = Err <-> forall e, In e ps -> prim_dec e c ad = Err).
Proof.
  induction ps as [|e t IH]; intros Hn; simpl; [split; [intros _ e []|reflexivity]|].
  assert (Ht : forall x, In x t -> prim_dec x c ad <> Panic) by (intros x Hx; apply Hn; right; exact Hx).
  destruct (prim_dec e c ad) as [q| |] eqn:E.
  - split; [discriminate|]. intros H. specialize (H e (or_introl eq_refl)). congruence.
  - rewrite (IH Ht). split.
    + intros H x [<-|Hx]; auto.
    + intros H x Hx. apply H. right. exact Hx.
  - exfalso. apply (Hn e (or_introl eq_refl)). exact E.
Qed.

(* the legacy adapter's slice is in range for every primitive the iterator yields *)
Lemma prim_dec_no_panic e c ad : selectable e c ->
  (forall c' ad', pr_dec e c' ad' <> Panic) -> prim_dec e c ad <> Panic.
Proof.
  intros Hs Hn. unfold prim_dec. destruct (pr_legacy e); [|apply Hn].
  rewrite slice_ok.
  - cbn [bind]. apply Hn.
  - destruct Hs as [->|[Hl ->]]; [simpl; lia|]. rewrite firstn_length. lia.
  - lia.
Qed.

Lemma ks_dec_sound ps c ad p : ks_dec ps c ad = Ok p ->
  exists e, In e ps /\ selectable e c /\ prim_dec e c ad = Ok p.
Proof.
  intros H. apply try_all_sound in H. destruct H as [e [Hi Hd]].
  apply matching_In in Hi. destruct Hi as [Hi Hs]. exists e. auto.
Qed.

Lemma ks_dec_no_panic ps c ad :
  (forall e, In e ps -> forall c' ad', pr_dec e c' ad' <> Panic) -> ks_dec ps c ad <> Panic.
Proof.
  intros Hn. apply try_all_no_panic. intros e Hi. apply matching_In in Hi. destruct Hi as [Hi Hs].
  apply prim_dec_no_panic; [exact Hs|apply Hn; exact Hi].
Qed.

Lemma ks_dec_complete ps c ad e p :
  (forall e, In e ps -> forall c' ad', pr_dec e c' ad' <> Panic) ->
  In e ps -> selectable e c -> prim_dec e c ad = Ok p -> exists p', ks_dec ps c ad = Ok p'.
Proof.
  intros Hn Hi Hs Hd. apply try_all_complete.
  - intros x Hx. apply matching_In in Hx. destruct Hx as [Hx Hsx]. apply prim_dec_no_panic; [exact Hsx|apply Hn; exact Hx].
  - exists e, p. split; [apply matching_In; auto|exact Hd].
Qed.

Lemma ks_dec_err_iff ps c ad :
  (forall e, In e ps -> forall c' ad', pr_dec e c' ad' <> Panic) ->
  (ks_dec ps c ad = Err <-> forall e, In e ps -> selectable e c -> prim_dec e c ad = Err).
Proof.
  intros Hn. unfold ks_dec. rewrite try_all_err_iff.
  - split.
    + intros H e Hi Hs. apply H. apply matching_In. auto.
    + intros H e Hi. apply matching_In in Hi. destruct Hi. auto.
  - intros x Hx. apply matching_In in Hx. destruct Hx as [Hx Hsx]. apply prim_dec_no_panic; [exact Hsx|apply Hn; exact Hx].
Qed.

(* composition with the per-key acceptance sets: a keyset of full primitives each of which
   accepts only its own encryptions releases p for (c, ad) only if c is an encryption of
   (p, ad) under some key of the keyset *)
Definition accepts_only_own (e : prim) : Prop :=
  forall c ad p, pr_dec e c ad = Ok p -> exists iv, pr_enc e iv p ad = Ok c.

Lemma ks_dec_only_own ps c ad p :
  (forall e, In e ps -> pr_legacy e = false /\ accepts_only_own e) ->
  ks_dec ps c ad = Ok p -> exists e iv, In e ps /\ pr_enc e iv p ad = Ok c.
Proof.
  intros Hall H. apply ks_dec_sound in H. destruct H as [e [Hi [_ Hd]]].
  destruct (Hall e Hi) as [Hl Ha]. unfold prim_dec in Hd. rewrite Hl in Hd.
  destruct (Ha _ _ _ Hd) as [iv He]. eauto.
Qed.
