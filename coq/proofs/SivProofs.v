(* Proofs about model/Siv.v (AES-SIV as coded) and the xor-end CMAC of
   model/Cmac.v.  Uses proofs/CmacProofs.v (builder-mac) for mulByX = dbl,
   cmac_impl = cmac_spec and |cmac| = 16. *)
From Coq Require Import List NArith Bool Arith Lia ZifyN ZifyNat ZifyBool.
From Tink Require Import Bytes Cmac CmacProofs Siv.
Import ListNotations.
Open Scope N_scope.

(* ---------- xorb / list helpers ---------- *)
Lemma firstn_xorb n a b : firstn n (xorb a b) = xorb (firstn n a) (firstn n b).
Proof.
  revert a b; induction n as [|n IH]; intros a b; [reflexivity|].
  destruct a as [|x a], b as [|y b]; simpl; try reflexivity.
  f_equal. apply IH.
Qed.

Lemma skipn_xorb n a b : skipn n (xorb a b) = xorb (skipn n a) (skipn n b).
Proof.
  revert a b; induction n as [|n IH]; intros a b; [reflexivity|].
  destruct a as [|x a], b as [|y b]; simpl; try reflexivity.
  - rewrite xorb_nil_r. reflexivity.
  - apply IH.
Qed.

Lemma xorb_app_l a1 a2 b :
  xorb (a1 ++ a2) b = xorb a1 (firstn (length a1) b) ++ xorb a2 (skipn (length a1) b).
Proof.
  revert b; induction a1 as [|x a1 IH]; intros b; [reflexivity|].
  destruct b as [|y b]; simpl.
  - rewrite xorb_nil_r. reflexivity.
  - f_equal. apply IH.
Qed.

Lemma xorb_swap a b c : xorb (xorb a b) c = xorb (xorb a c) b.
Proof. rewrite !xorb_assoc. f_equal. apply xorb_comm. Qed.

Lemma xorb_cancel_le a b : (length a <= length b)%nat -> xorb (xorb a b) b = a.
Proof.
  revert b; induction a as [|x a IH]; destruct b as [|y b]; simpl; intros H; auto; [lia|].
  rewrite N.lxor_assoc, N.lxor_nilpotent, N.lxor_0_r. f_equal. apply IH. lia.
Qed.

Lemma firstn_app_le {A} n (a b : list A) : (n <= length a)%nat -> firstn n (a ++ b) = firstn n a.
Proof.
  intros H. rewrite firstn_app. replace (n - length a)%nat with 0%nat by lia.
  simpl. apply app_nil_r.
Qed.

Lemma skipn_app_le {A} n (a b : list A) : (n <= length a)%nat -> skipn n (a ++ b) = skipn n a ++ b.
Proof.
  intros H. rewrite skipn_app. replace (n - length a)%nat with 0%nat by lia. reflexivity.
Qed.

(* ---------- the two loops ---------- *)
Section Loops.
  Variable E : bytes -> bytes.

  Lemma cbc_loop_split n m : forall out data,
    cbc_loop E (n + m) out data =
    cbc_loop E m (fst (cbc_loop E n out data)) (snd (cbc_loop E n out data)).
  Proof.
    induction n as [|n IH]; intros out data; [reflexivity|].
    cbn [Nat.add cbc_loop]. apply IH.
  Qed.

  Lemma cbc_loop_app n : forall out A B, length A = (16 * n)%nat ->
    cbc_loop E n out (A ++ B) = (fst (cbc_loop E n out A), B).
  Proof.
    induction n as [|n IH]; intros out A B HA.
    - destruct A; [reflexivity|simpl in HA; lia].
    - cbn [cbc_loop]. unfold BlockSize.
      rewrite firstn_app_le, skipn_app_le by lia.
      apply IH. rewrite skipn_length. lia.
  Qed.

  (* before the block that contains startPos the xor-end loop is the CBC loop *)
  Lemma xorend_loop_prefix n m : forall i sp out data last,
    ((i + n) * 16 <= sp)%nat ->
    xorend_loop E (n + m) i sp out data last =
    xorend_loop E m (i + n) sp (fst (cbc_loop E n out data)) (snd (cbc_loop E n out data)) last.
  Proof.
    induction n as [|n IH]; intros i sp out data last H.
    - cbn [Nat.add cbc_loop fst snd]. rewrite Nat.add_0_r. reflexivity.
    - cbn [Nat.add xorend_loop cbc_loop]. unfold BlockSize.
      replace (Nat.ltb sp ((i + 1) * 16)) with false by (symmetry; apply Nat.ltb_ge; lia).
      rewrite IH by lia. replace (S i + n)%nat with (i + S n)%nat by lia. reflexivity.
  Qed.
End Loops.

(* ---------- XOREndAndCompute = CMAC o xorend ---------- *)
Lemma xorend_length data last : (16 <= length data)%nat -> length last = 16%nat ->
  length (xorend data last) = length data.
Proof.
  intros Hd Hl. unfold xorend. rewrite app_length, firstn_length, xorb_length, skipn_length. lia.
Qed.

Theorem xorend_impl_correct (E : bytes -> bytes) (data last : bytes) :
  (16 <= length data)%nat -> length last = 16%nat ->
  xorend_impl E data last = Some (cmac_impl E (xorend data last)).
Proof.
  intros Hd Hl.
  pose proof (Nat.div_mod (length data) 16 ltac:(lia)) as Hdm.
  pose proof (Nat.mod_upper_bound (length data) 16 ltac:(lia)) as Hr.
  unfold xorend_impl, cmac_impl. unfold BlockSize.
  rewrite xorend_length by assumption.
  remember (length data) as len eqn:Hlen.
  remember (len / 16)%nat as q eqn:Hq0. remember (len mod 16)%nat as r eqn:Hr00.
  assert (Hq : (1 <= q)%nat) by lia.
  rewrite Hl. cbn [Nat.eqb negb].
  replace (Nat.ltb len 16) with false by (symmetry; apply Nat.ltb_ge; lia).
  replace (Nat.ltb 0 len) with true by (symmetry; apply Nat.ltb_lt; lia).
  cbn [andb].
  destruct (Nat.eqb r 0) eqn:Hr0.
  - (* whole blocks: no partial XOR inside the loop *)
    apply Nat.eqb_eq in Hr0.
    assert (HX : xorend data last = firstn (len - 16) data ++ xorb (skipn (len - 16) data) last)
      by (unfold xorend; rewrite <- Hlen; reflexivity).
    rewrite HX. clear HX.
    remember (firstn (len - 16) data) as A eqn:HeA. remember (skipn (len - 16) data) as Bk eqn:HeB.
    assert (HdAB : data = A ++ Bk) by (subst A Bk; symmetry; apply firstn_skipn).
    assert (HA : length A = (16 * (q - 1))%nat) by (subst A; rewrite firstn_length; lia).
    assert (HB : length Bk = 16%nat) by (subst Bk; rewrite skipn_length; lia).
    clear HeA HeB. subst data.
    rewrite (cbc_loop_app E (q - 1) _ A _ HA).
    replace (q - 1)%nat with ((q - 1) + 0)%nat at 1 by lia.
    rewrite xorend_loop_prefix by lia.
    cbn [xorend_loop]. rewrite (cbc_loop_app E (q - 1) _ A _ HA).
    cbn [fst snd]. rewrite HB, xorb_length, HB, Hl. cbn [Nat.min Nat.eqb]. reflexivity.
  - (* partial last block: the block before it is XORed in part with `last` *)
    apply Nat.eqb_neq in Hr0.
    remember (firstn (16 * (q - 1)) data) as A eqn:HeA.
    remember (skipn (16 * (q - 1)) data) as rest1 eqn:Her.
    remember (firstn 16 rest1) as B eqn:HeB. remember (skipn 16 rest1) as R eqn:HeR.
    assert (Hd1 : data = A ++ rest1) by (subst A rest1; symmetry; apply firstn_skipn).
    assert (Hd2 : rest1 = B ++ R) by (subst B R; symmetry; apply firstn_skipn).
    assert (HA : length A = (16 * (q - 1))%nat) by (subst A; rewrite firstn_length; lia).
    assert (Hr1 : length rest1 = (16 + r)%nat) by (rewrite Her, skipn_length; lia).
    assert (HB : length B = 16%nat) by (subst B; rewrite firstn_length; lia).
    assert (HR : length R = r) by (subst R; rewrite skipn_length; lia).
    clear HeA Her HeB HeR. subst rest1. clear Hr1.
    remember (firstn (16 - r) last) as L1 eqn:HeL1. remember (skipn (16 - r) last) as L2 eqn:HeL2.
    assert (HL : last = L1 ++ L2) by (subst L1 L2; symmetry; apply firstn_skipn).
    assert (HL1 : length L1 = (16 - r)%nat) by (subst L1; rewrite firstn_length; lia).
    assert (HL2 : length L2 = r) by (subst L2; rewrite skipn_length; lia).
    (* the spec side *)
    assert (HX : xorend data last = A ++ (firstn r B ++ xorb (skipn r B) L1) ++ xorb R L2).
    { unfold xorend. rewrite <- Hlen.
      assert (Hf : firstn (len - 16) data = A ++ firstn r B).
      { rewrite Hd1. rewrite firstn_app, HA.
        rewrite (@firstn_all2 _ ((len - 16)%nat) (A)) by lia.
        f_equal. replace (len - 16 - 16 * (q - 1))%nat with r by lia.
        rewrite firstn_app_le by lia. reflexivity. }
      assert (Hs : skipn (len - 16) data = skipn r B ++ R).
      { rewrite Hd1. rewrite skipn_app, HA.
        rewrite (@skipn_all2 _ ((len - 16)%nat) (A)) by lia.
        replace (len - 16 - 16 * (q - 1))%nat with r by lia.
        rewrite skipn_app_le by lia. reflexivity. }
      rewrite Hf, Hs, HL.
      rewrite xorb_app by (rewrite skipn_length; lia).
      rewrite <- !app_assoc. reflexivity. }
    rewrite HX. clear HX. clear HeL1 HeL2. subst data.
    replace q with ((q - 1) + 1)%nat at 1 2 by lia.
    rewrite cbc_loop_split, (cbc_loop_app E (q - 1) _ A _ HA).
    rewrite xorend_loop_prefix by lia.
    rewrite (cbc_loop_app E (q - 1) _ A _ HA). cbn [fst snd].
    remember (fst (cbc_loop E (q - 1) (zeros 16) A)) as o eqn:Heo. clear Heo.
    cbn [cbc_loop xorend_loop]. unfold BlockSize.
    assert (HB' : length (firstn r B ++ xorb (skipn r B) L1) = 16%nat)
      by (rewrite app_length, firstn_length, xorb_length, skipn_length; lia).
    rewrite (firstn_app_le 16 B R) by lia.
    rewrite (skipn_app_le 16 B R) by lia.
    rewrite (firstn_app_le 16 (firstn r B ++ xorb (skipn r B) L1)) by lia.
    rewrite (skipn_app_le 16 (firstn r B ++ xorb (skipn r B) L1)) by lia.
    rewrite (@firstn_all2 _ (16%nat) (B)) by lia.
    rewrite (@skipn_all2 _ (16%nat) (B)) by lia.
    rewrite (@firstn_all2 _ (16%nat) (firstn r B ++ xorb (skipn r B) L1)) by lia.
    rewrite (@skipn_all2 _ (16%nat) (firstn r B ++ xorb (skipn r B) L1)) by lia.
    cbn [app].
    replace (Nat.ltb (len - 16) ((0 + (q - 1) + 1) * 16)) with true by (symmetry; apply Nat.ltb_lt; lia).
    replace ((0 + (q - 1) + 1) * 16 - (len - 16))%nat with (16 - r)%nat by lia.
    replace (16 - (16 - r))%nat with r by lia.
    rewrite HL. rewrite (firstn_app_le (16 - r) L1 L2) by lia.
    rewrite (skipn_app_le (16 - r) L1 L2) by lia.
    rewrite (@firstn_all2 _ ((16 - r)%nat) (L1)) by lia.
    rewrite (@skipn_all2 _ ((16 - r)%nat) (L1)) by lia.
    cbn [app].
    rewrite !xorb_length, HR, HL2, Nat.min_id.
    replace (Nat.eqb r 16) with false by (symmetry; apply Nat.eqb_neq; lia).
    (* the partially XORed block *)
    assert (Hblk : firstn r (xorb B o) ++ xorb (skipn r (xorb B o)) L1
                   = xorb (firstn r B ++ xorb (skipn r B) L1) o).
    { rewrite xorb_app_l, firstn_length, HB. replace (Nat.min r 16) with r by lia.
      rewrite firstn_xorb, skipn_xorb. f_equal. apply xorb_swap. }
    rewrite Hblk.
    (* the padded last block *)
    rewrite firstn_app_le by (rewrite xorb_length; lia).
    rewrite (@firstn_all2 _ r (xorb R L2)) by (rewrite xorb_length; lia).
    unfold pad_block. rewrite xorb_length, HR, HL2, Nat.min_id. unfold BlockSize. reflexivity.
Qed.

(* ---------- small facts about the checked updates ---------- *)
Lemma upd_at_cons n f y l :
  upd_at (S n) f (y :: l) = match upd_at n f l with Ok l' => Ok (y :: l') | Err => Err | Panic => Panic end.
Proof. unfold upd_at. cbn [nth_error]. destruct (nth_error l n); reflexivity. Qed.

Lemma xor_into_cons x t m msg : xor_into (x :: t) (m :: msg) = N.lxor x m :: xor_into t msg.
Proof. reflexivity. Qed.

(* block[..len msg] ^= msg; block[len msg] ^= 0x80  is  block xor pad(msg) *)
Lemma pad_xor_general msg : forall blk, (length msg < length blk)%nat ->
  upd_at (length msg) (fun x => N.lxor x 128) (xor_into blk msg)
  = Ok (xorb blk (msg ++ [128] ++ zeros (length blk - length msg - 1))).
Proof.
  induction msg as [|m msg IH]; intros blk H.
  - destruct blk as [|x t]; [simpl in H; lia|].
    unfold xor_into. rewrite xorb_nil_r. cbn [app skipn length upd_at nth_error firstn].
    cbn [xorb]. rewrite xorb_zeros_r by (simpl; lia). reflexivity.
  - destruct blk as [|x t]; [simpl in H; lia|].
    cbn [length] in *. rewrite xor_into_cons, upd_at_cons, IH by lia.
    cbn [app xorb]. replace (S (length t) - S (length msg) - 1)%nat with (length t - length msg - 1)%nat by lia.
    reflexivity.
Qed.

Lemma pad_xor blk msg : length blk = 16%nat -> (length msg < 16)%nat ->
  upd_at (length msg) (fun x => N.lxor x 128) (xor_into blk msg) = Ok (xorb blk (pad16 msg)).
Proof.
  intros Hb Hm. rewrite pad_xor_general by lia. unfold pad16.
  replace (length blk - length msg - 1)%nat with (15 - length msg)%nat by lia. reflexivity.
Qed.

Lemma xor_into_same_len a b : length a = length b -> xor_into a b = xorb a b.
Proof.
  intros H. unfold xor_into. rewrite skipn_all2 by lia. apply app_nil_r.
Qed.

Definition clr (siv : bytes) : bytes :=
  firstn 8 siv ++ N.land (nth 8 siv 0) 127 :: firstn 3 (skipn 9 siv)
    ++ N.land (nth 12 siv 0) 127 :: skipn 13 siv.

Lemma clear_bits_ok siv : length siv = 16%nat -> clear_bits siv = Ok (clr siv).
Proof.
  intros H. do 17 (destruct siv as [|? siv]; [simpl in H; try lia|]); [|simpl in H; lia].
  reflexivity.
Qed.

Lemma clr_length siv : length siv = 16%nat -> length (clr siv) = 16%nat.
Proof.
  intros H. do 17 (destruct siv as [|? siv]; [simpl in H; try lia|]); [|simpl in H; lia].
  reflexivity.
Qed.

Lemma land_255 x : x < 256 -> N.land x 255 = x.
Proof. intros H. change 255 with (N.ones 8). rewrite N.land_ones. apply N.mod_small. exact H. Qed.

Lemma clr_mask siv : length siv = 16%nat -> wfb siv -> clr siv = andb_bytes siv q_mask.
Proof.
  intros H W. do 17 (destruct siv as [|? siv]; [simpl in H; try lia|]); [|simpl in H; lia].
  unfold wfb in W.
  repeat match goal with W : Forall _ (_ :: _) |- _ => inversion W; clear W; subst end.
  unfold clr, q_mask. cbn [firstn skipn nth app andb_bytes].
  rewrite !land_255 by assumption. reflexivity.
Qed.

(* ---------- constant-time comparison ---------- *)
Lemma ct_diff_spec n : forall a b acc, length a = n -> length b = n ->
  exists d, ct_diff n a b acc = Ok d /\ (d = 0 <-> acc = 0 /\ a = b).
Proof.
  induction n as [|n IH]; intros a b acc Ha Hb.
  - destruct a, b; try discriminate. exists acc. split; [reflexivity|]. intuition.
  - destruct a as [|x a], b as [|y b]; try discriminate. cbn [ct_diff].
    destruct (IH a b (N.lor acc (N.lxor x y)) ltac:(simpl in Ha; lia) ltac:(simpl in Hb; lia)) as [d [Hd Hi]].
    exists d. split; [exact Hd|]. rewrite Hi. rewrite N.lor_eq_0_iff. split.
    + intros [[H1 H2] H3]. apply N.lxor_eq in H2. subst. auto.
    + intros [H1 H2]. inversion H2; subst. rewrite N.lxor_nilpotent. auto.
Qed.

(* ---------- CTR ---------- *)
Section CtrFacts.
  Variable E : bytes -> bytes.
  Hypothesis E_len : forall b, length b = 16%nat -> length (E b) = 16%nat.

  Lemma ctr_stream_length n : forall c, length (ctr_stream E n c) = (16 * n)%nat.
  Proof.
    induction n as [|n IH]; intros c; [reflexivity|].
    cbn [ctr_stream]. rewrite app_length, IH, E_len by apply be_bytes_length. lia.
  Qed.

  Lemma ctr_xor_length iv d : length (ctr_xor E iv d) = length d.
  Proof.
    unfold ctr_xor. rewrite xorb_length, ctr_stream_length.
    pose proof (Nat.div_mod (length d) 16 ltac:(lia)).
    pose proof (Nat.mod_upper_bound (length d) 16 ltac:(lia)). lia.
  Qed.

  Lemma ctr_xor_involutive iv d : ctr_xor E iv (ctr_xor E iv d) = d.
  Proof.
    unfold ctr_xor at 1. rewrite ctr_xor_length. unfold ctr_xor.
    apply xorb_cancel_le. rewrite ctr_stream_length.
    pose proof (Nat.div_mod (length d) 16 ltac:(lia)).
    pose proof (Nat.mod_upper_bound (length d) 16 ltac:(lia)). lia.
  Qed.

  (* --- the counter stream against the RFC's E(K,Q) E(K,Q+1) ... --- *)
  Lemma le_bytes_mod n : forall x, le_bytes n (x mod 256 ^ N.of_nat n) = le_bytes n x.
  Proof.
    induction n as [|n IH]; intros x; [reflexivity|].
    cbn [le_bytes]. rewrite Nnat.Nat2N.inj_succ, N.pow_succ_r by lia.
    rewrite (N.mod_mul_r x 256 (256 ^ N.of_nat n)) by (try apply N.pow_nonzero; lia).
    destruct (divmod_256 (x mod 256) ((x / 256) mod 256 ^ N.of_nat n)) as [H1 H2];
      [apply N.mod_lt; lia|].
    rewrite H1, H2, IH. reflexivity.
  Qed.

  Lemma be_bytes16_mod x : be_bytes 16 (x mod 2 ^ 128) = be_bytes 16 x.
  Proof. unfold be_bytes. f_equal. apply (le_bytes_mod 16). Qed.

  Definition rfc_stream (c : N) (m : nat) : bytes :=
    concat (map (fun i => E (be_bytes 16 ((c + N.of_nat i) mod 2 ^ 128))) (seq 0 m)).

  Lemma ctr_stream_rfc n : forall c, ctr_stream E n c = rfc_stream c n.
  Proof.
    unfold rfc_stream. induction n as [|n IH]; intros c; [reflexivity|].
    cbn [ctr_stream seq map concat]. rewrite N.add_0_r, be_bytes16_mod. f_equal.
    rewrite IH, <- seq_shift, map_map. f_equal. apply map_ext. intros i.
    rewrite N.add_mod_idemp_l by (apply N.pow_nonzero; lia).
    do 3 f_equal. lia.
  Qed.

  Lemma rfc_stream_app c m k : rfc_stream c (m + k) = rfc_stream c m ++
    concat (map (fun i => E (be_bytes 16 ((c + N.of_nat i) mod 2 ^ 128))) (seq m k)).
  Proof. unfold rfc_stream. rewrite seq_app, map_app, concat_app. reflexivity. Qed.

  Lemma xorb_firstn_r P : forall S, xorb P (firstn (length P) S) = xorb P S.
  Proof. induction P as [|x P IH]; intros [|y S]; simpl; auto. f_equal. apply IH. Qed.

  Lemma xorb_app_r_le P : forall S1 S2, (length P <= length S1)%nat -> xorb P (S1 ++ S2) = xorb P S1.
  Proof.
    induction P as [|x P IH]; intros [|y S1] S2 H; simpl in *; auto; [lia|]. f_equal. apply IH. lia.
  Qed.

  Lemma ctr_xor_rfc Q P : ctr_xor E Q P = ctr_rfc E Q P.
  Proof.
    unfold ctr_xor, ctr_rfc. fold (rfc_stream (be_val Q) ((length P + 15) / 16)).
    rewrite xorb_firstn_r, ctr_stream_rfc.
    pose proof (Nat.div_mod (length P) 16 ltac:(lia)) as H1.
    pose proof (Nat.mod_upper_bound (length P) 16 ltac:(lia)) as H2.
    pose proof (Nat.div_mod (length P + 15) 16 ltac:(lia)) as H3.
    pose proof (Nat.mod_upper_bound (length P + 15) 16 ltac:(lia)) as H4.
    set (m := ((length P + 15) / 16)%nat) in *.
    replace (length P / 16 + 1)%nat with (m + (length P / 16 + 1 - m))%nat by lia.
    rewrite rfc_stream_app. apply xorb_app_r_le.
    rewrite <- ctr_stream_rfc, ctr_stream_length. lia.
  Qed.
End CtrFacts.

(* ---------- AES-SIV as coded ---------- *)
Section SivThms.
  Variable AES : bytes -> bytes -> bytes.
  Hypothesis AES_len : forall k b, length b = 16%nat -> length (AES k b) = 16%nat.

  (* the RFC 5297 S2V value over the CMAC of the code, one AD component *)
  Definition S2V (k1 msg ad : bytes) : bytes := s2v_rfc5297 (cmac_impl (AES k1)) [ad] msg.

  Lemma S2V_length k1 msg ad : length (S2V k1 msg ad) = 16%nat.
  Proof. unfold S2V, s2v_rfc5297. apply cmac_impl_length. apply AES_len. Qed.

  Section WithWf.
  Hypothesis AES_wf : forall k b, wfb (AES k b).

  Lemma cmac_impl_wf k m : wfb (cmac_impl (AES k) m).
  Proof. unfold cmac_impl. destruct (cbc_loop _ _ _ _). apply AES_wf. Qed.

  Theorem s2v_impl_rfc k1 msg ad : s2v_impl AES k1 msg ad = Ok (S2V k1 msg ad).
  Proof.
    unfold s2v_impl, S2V, s2v_rfc5297. cbn [fold_left].
    set (E := AES k1).
    assert (EL : forall m, length (cmac_impl E m) = 16%nat) by (intros; apply cmac_impl_length; apply AES_len).
    rewrite (mulByX_dbl (cmac_impl E (zeros 16))) by (try apply cmac_impl_wf; apply EL).
    rewrite xor_into_same_len by (rewrite dbl_length, EL; reflexivity).
    set (D := xorb (dbl (cmac_impl E (zeros 16))) (cmac_impl E ad)).
    assert (DL : length D = 16%nat) by (unfold D; rewrite xorb_length, dbl_length, EL; reflexivity).
    assert (DW : wfb D) by (unfold D; apply xorb_wf; [apply dbl_wf|apply cmac_impl_wf]).
    destruct (Nat.leb 16 (length msg)) eqn:Hm.
    - apply Nat.leb_le in Hm. rewrite xorend_impl_correct by assumption. reflexivity.
    - apply Nat.leb_gt in Hm. rewrite (mulByX_dbl D DW DL).
      rewrite pad_xor by (try apply dbl_length; lia). reflexivity.
  Qed.

  (* ----- EncryptDeterministically / DecryptDeterministically in closed form ----- *)
  Definition enc_val (key pt ad : bytes) : bytes :=
    let V := S2V (firstn 32 key) pt ad in
    V ++ ctr_xor (AES (skipn 32 key)) (clr V) pt.

  Lemma split_key_ok key : length key = 64%nat -> split_key key = Ok (firstn 32 key, skipn 32 key).
  Proof. intros H. unfold split_key, AESSIVKeySize. rewrite H. reflexivity. Qed.

  Lemma split_key_bad key : length key <> 64%nat -> split_key key = Err.
  Proof.
    intros H. unfold split_key, AESSIVKeySize.
    destruct (Nat.eqb (length key) 64) eqn:E; [apply Nat.eqb_eq in E; contradiction|reflexivity].
  Qed.

  Lemma siv_encrypt_eq key pt ad : length key = 64%nat ->
    siv_encrypt AES key pt ad = Ok (enc_val key pt ad).
  Proof.
    intros H. unfold siv_encrypt. rewrite split_key_ok by assumption. cbn [bind].
    rewrite s2v_impl_rfc. cbn [bind]. unfold ctr_crypt.
    rewrite clear_bits_ok by apply S2V_length. cbn [bind].
    rewrite firstn_app_le by (rewrite S2V_length; lia).
    rewrite firstn_all2 by (rewrite S2V_length; lia). reflexivity.
  Qed.

  Lemma slice_prefix n (s : bytes) : (n <= length s)%nat -> slice 0 n s = Ok (firstn n s).
  Proof.
    intros H. unfold slice. cbn [Nat.leb andb].
    replace (Nat.leb n (length s)) with true by (symmetry; apply Nat.leb_le; lia).
    rewrite Nat.sub_0_r. reflexivity.
  Qed.

  Lemma slice_suffix n (s : bytes) : (n <= length s)%nat -> slice n (length s) s = Ok (skipn n s).
  Proof.
    intros H. unfold slice.
    replace (Nat.leb n (length s)) with true by (symmetry; apply Nat.leb_le; lia).
    rewrite Nat.leb_refl. cbn [andb]. rewrite firstn_all2 by (rewrite skipn_length; lia). reflexivity.
  Qed.

  Lemma siv_decrypt_eq key ct ad : length key = 64%nat ->
    siv_decrypt AES key ct ad =
      if Nat.ltb (length ct) 16 then Err else
      let siv := firstn 16 ct in
      let pt := ctr_xor (AES (skipn 32 key)) (clr siv) (skipn 16 ct) in
      if beq (S2V (firstn 32 key) pt ad) siv then Ok pt else Err.
  Proof.
    intros H. unfold siv_decrypt. rewrite split_key_ok by assumption. cbn [bind].
    destruct (Nat.ltb (length ct) 16) eqn:Hc; [reflexivity|]. apply Nat.ltb_ge in Hc.
    rewrite slice_prefix, slice_suffix by lia. cbn [bind].
    assert (Hs : length (firstn 16 ct) = 16%nat) by (rewrite firstn_length; lia).
    unfold ctr_crypt. rewrite clear_bits_ok by assumption. cbn [bind].
    rewrite s2v_impl_rfc. cbn [bind].
    set (pt := ctr_xor _ _ _).
    destruct (ct_diff_spec 16 (firstn 16 ct) (S2V (firstn 32 key) pt ad) 0 Hs (S2V_length _ _ _))
      as [d [Hd Hi]].
    rewrite Hd. cbn [bind].
    destruct (beq (S2V (firstn 32 key) pt ad) (firstn 16 ct)) eqn:Hb.
    - apply beq_eq in Hb. replace (N.eqb d 0) with true; [reflexivity|].
      symmetry. apply N.eqb_eq. apply Hi. auto.
    - replace (N.eqb d 0) with false; [reflexivity|].
      symmetry. apply N.eqb_neq. intros Hz. apply Hi in Hz. destruct Hz as [_ Hz].
      rewrite Hz, beq_refl in Hb. discriminate.
  Qed.

  Lemma siv_roundtrip key pt ad : length key = 64%nat ->
    siv_decrypt AES key (enc_val key pt ad) ad = Ok pt.
  Proof.
    intros H. rewrite siv_decrypt_eq by assumption. unfold enc_val.
    set (V := S2V (firstn 32 key) pt ad).
    assert (HV : length V = 16%nat) by apply S2V_length.
    rewrite app_length, HV.
    replace (Nat.ltb (16 + length (ctr_xor (AES (skipn 32 key)) (clr V) pt)) 16) with false
      by (symmetry; apply Nat.ltb_ge; lia).
    cbn zeta.
    rewrite (firstn_app_le 16 V), (skipn_app_le 16 V) by lia.
    rewrite (@firstn_all2 _ 16 V), (@skipn_all2 _ 16 V) by lia. cbn [app].
    rewrite ctr_xor_involutive by (apply AES_len). fold V. rewrite beq_refl. reflexivity.
  Qed.

  Lemma siv_accept_only_encryptions key ct ad p : length key = 64%nat ->
    siv_decrypt AES key ct ad = Ok p -> ct = enc_val key p ad.
  Proof.
    intros H. rewrite siv_decrypt_eq by assumption.
    destruct (Nat.ltb (length ct) 16) eqn:Hc; [discriminate|]. cbn zeta.
    set (pt := ctr_xor _ _ _).
    destruct (beq (S2V (firstn 32 key) pt ad) (firstn 16 ct)) eqn:Hb; [|discriminate].
    intros Hp. inversion Hp; subst p. apply beq_eq in Hb.
    unfold enc_val. rewrite Hb. unfold pt.
    rewrite ctr_xor_involutive by (apply AES_len). apply eq_sym, firstn_skipn.
  Qed.

  (* ----- the full primitive (output prefix) ----- *)
  Lemma daead_encrypt_eq v id key pt ad : length key = 64%nat ->
    daead_encrypt AES v id key pt ad = Ok (output_prefix v id ++ enc_val key pt ad).
  Proof. intros H. unfold daead_encrypt. rewrite siv_encrypt_eq by assumption. reflexivity. Qed.

  Lemma daead_decrypt_eq v id key ct ad : length key = 64%nat ->
    daead_decrypt AES v id key ct ad =
      let pre := output_prefix v id in
      if Nat.ltb (length ct) (length pre) then Err
      else if beq pre (firstn (length pre) ct) then siv_decrypt AES key (skipn (length pre) ct) ad
      else Err.
  Proof.
    intros H. unfold daead_decrypt. rewrite split_key_ok by assumption. cbn [bind]. cbn zeta.
    destruct (Nat.ltb (length ct) (length (output_prefix v id))) eqn:Hc; [reflexivity|].
    apply Nat.ltb_ge in Hc. rewrite slice_prefix by lia. cbn [bind].
    destruct (beq _ _); [|reflexivity]. cbn [negb].
    rewrite slice_suffix by lia. reflexivity.
  Qed.

  Theorem daead_roundtrip v id key pt ad : length key = 64%nat ->
    exists c, daead_encrypt AES v id key pt ad = Ok c /\ daead_decrypt AES v id key c ad = Ok pt.
  Proof.
    intros H. eexists. split; [apply daead_encrypt_eq; assumption|].
    rewrite daead_decrypt_eq by assumption. cbn zeta.
    rewrite app_length.
    replace (Nat.ltb _ _) with false by (symmetry; apply Nat.ltb_ge; lia).
    set (pre := output_prefix v id).
    rewrite (firstn_app_le (length pre) pre), (skipn_app_le (length pre) pre) by lia.
    rewrite (@firstn_all2 _ (length pre) pre), (@skipn_all2 _ (length pre) pre) by lia.
    rewrite beq_refl. cbn [app].
    apply siv_roundtrip. assumption.
  Qed.

  Theorem daead_exact_acceptance v id key c ad p : length key = 64%nat ->
    (daead_decrypt AES v id key c ad = Ok p <-> daead_encrypt AES v id key p ad = Ok c).
  Proof.
    intros H. split.
    - rewrite daead_decrypt_eq, daead_encrypt_eq by assumption. cbn zeta.
      destruct (Nat.ltb _ _) eqn:Hc; [discriminate|].
      destruct (beq _ _) eqn:Hb; [|discriminate].
      intros Hd. apply siv_accept_only_encryptions in Hd; [|assumption].
      apply beq_eq in Hb. rewrite <- Hd. rewrite Hb at 1. rewrite firstn_skipn. reflexivity.
    - intros He. destruct (daead_roundtrip v id key p ad H) as [c' [He' Hd']].
      rewrite He in He'. inversion He'; subst. exact Hd'.
  Qed.

  Lemma siv_decrypt_no_panic key ct ad : siv_decrypt AES key ct ad <> Panic.
  Proof.
    destruct (Nat.eq_dec (length key) 64) as [H|H].
    - rewrite siv_decrypt_eq by assumption. destruct (Nat.ltb _ _); [discriminate|].
      cbn zeta. destruct (beq _ _); discriminate.
    - unfold siv_decrypt. rewrite split_key_bad by assumption. discriminate.
  Qed.

  Theorem daead_decrypt_no_panic v id key ct ad : daead_decrypt AES v id key ct ad <> Panic.
  Proof.
    destruct (Nat.eq_dec (length key) 64) as [H|H].
    - rewrite daead_decrypt_eq by assumption. cbn zeta. destruct (Nat.ltb _ _); [discriminate|].
      destruct (beq _ _); [apply siv_decrypt_no_panic|discriminate].
    - unfold daead_decrypt. rewrite split_key_bad by assumption. discriminate.
  Qed.

  Theorem daead_rejects_non_encryptions v id key c ad : length key = 64%nat ->
    (forall p, daead_encrypt AES v id key p ad <> Ok c) -> daead_decrypt AES v id key c ad = Err.
  Proof.
    intros H Hn. destruct (daead_decrypt AES v id key c ad) as [p| |] eqn:Hd; [|reflexivity|].
    - apply daead_exact_acceptance in Hd; [|assumption]. destruct (Hn p Hd).
    - destruct (daead_decrypt_no_panic _ _ _ _ _ Hd).
  Qed.

  Theorem daead_encrypt_total v id key pt ad :
    (length key = 64%nat -> exists c, daead_encrypt AES v id key pt ad = Ok c
        /\ length c = (length (output_prefix v id) + 16 + length pt)%nat) /\
    (length key <> 64%nat -> daead_encrypt AES v id key pt ad = Err).
  Proof.
    split; intros H.
    - eexists. split; [apply daead_encrypt_eq; assumption|].
      unfold enc_val. rewrite !app_length, S2V_length, ctr_xor_length by apply AES_len. lia.
    - unfold daead_encrypt, siv_encrypt. rewrite split_key_bad by assumption. reflexivity.
  Qed.

  Theorem daead_decrypt_short v id key ct ad :
    (length ct < length (output_prefix v id) + 16)%nat -> daead_decrypt AES v id key ct ad = Err.
  Proof.
    intros Hs. destruct (Nat.eq_dec (length key) 64) as [H|H].
    - rewrite daead_decrypt_eq by assumption. cbn zeta.
      destruct (Nat.ltb _ _) eqn:Hc; [reflexivity|]. apply Nat.ltb_ge in Hc.
      destruct (beq _ _); [|reflexivity].
      rewrite siv_decrypt_eq by assumption. rewrite skipn_length.
      replace (Nat.ltb _ 16) with true by (symmetry; apply Nat.ltb_lt; lia). reflexivity.
    - unfold daead_decrypt. rewrite split_key_bad by assumption. reflexivity.
  Qed.

  Theorem daead_badkey v id key ct ad : length key <> 64%nat ->
    daead_decrypt AES v id key ct ad = Err.
  Proof. intros H. unfold daead_decrypt. rewrite split_key_bad by assumption. reflexivity. Qed.


  (* ----- the coded encryption is the RFC 5297 value ----- *)
  Lemma s2v_rfc5297_ext mac1 mac2 ss sn : (forall m, mac1 m = mac2 m) ->
    s2v_rfc5297 mac1 ss sn = s2v_rfc5297 mac2 ss sn.
  Proof.
    intros H. unfold s2v_rfc5297.
    assert (F : forall ss D, fold_left (fun D s => xorb (dbl D) (mac1 s)) ss D
                           = fold_left (fun D s => xorb (dbl D) (mac2 s)) ss D).
    { induction ss0 as [|s ss0 IH]; intros D; [reflexivity|]. cbn [fold_left]. rewrite H. apply IH. }
    rewrite F, !H. reflexivity.
  Qed.

  Theorem enc_val_rfc key pt ad :
    enc_val key pt ad =
    siv_encrypt_rfc5297 (cmac_spec (AES (firstn 32 key))) (AES (skipn 32 key)) [ad] pt.
  Proof.
    unfold enc_val, siv_encrypt_rfc5297.
    assert (HS : S2V (firstn 32 key) pt ad = s2v_rfc5297 (cmac_spec (AES (firstn 32 key))) [ad] pt).
    { unfold S2V. apply s2v_rfc5297_ext. intros m. apply cmac_impl_spec; [apply AES_wf|].
      apply AES_len. apply zeros_length. }
    rewrite <- HS. f_equal.
    rewrite clr_mask; [|apply S2V_length|unfold S2V, s2v_rfc5297; apply cmac_impl_wf].
    apply ctr_xor_rfc. apply AES_len.
  Qed.

  Theorem daead_encrypt_rfc v id key pt ad : length key = 64%nat ->
    daead_encrypt AES v id key pt ad =
    Ok (output_prefix v id ++
        siv_encrypt_rfc5297 (cmac_spec (AES (firstn 32 key))) (AES (skipn 32 key)) [ad] pt).
  Proof. intros H. rewrite daead_encrypt_eq by assumption. rewrite enc_val_rfc. reflexivity. Qed.

  Theorem s2v_impl_rfc_spec k1 msg ad :
    s2v_impl AES k1 msg ad = Ok (s2v_rfc5297 (cmac_spec (AES k1)) [ad] msg).
  Proof.
    rewrite s2v_impl_rfc. unfold S2V. f_equal. apply s2v_rfc5297_ext. intros m.
    apply cmac_impl_spec; [apply AES_wf|]. apply AES_len. apply zeros_length.
  Qed.

  End WithWf.
End SivThms.
