(* Proofs about model/AeadFrame.v: the three Decrypt bodies compute the same
   canonical function; round trip; exact acceptance set; where (and only
   where) the model panics. *)
From Coq Require Import List NArith Bool Arith Lia ZifyN ZifyNat ZifyBool.
From Tink Require Import Bytes AeadFrame.
Import ListNotations.
Open Scope N_scope.

(* ---------- generic byte-string facts used by all AEAD proofs ---------- *)
Lemma slice_ok lo hi s : (lo <= hi)%nat -> (hi <= length s)%nat ->
  slice lo hi s = Ok (firstn (hi - lo) (skipn lo s)).
Proof.
  intros H1 H2. unfold slice.
  destruct (Nat.leb_spec lo hi); [|lia]. destruct (Nat.leb_spec hi (length s)); [|lia]. reflexivity.
Qed.

Lemma slice_not_panic_iff lo hi s : slice lo hi s <> Panic <-> (lo <= hi /\ hi <= length s)%nat.
Proof.
  unfold slice. destruct (Nat.leb_spec lo hi); destruct (Nat.leb_spec hi (length s)); simpl;
    split; intros; try lia; try discriminate; try congruence.
Qed.

Lemma firstn_app_exact {A} (a b : list A) : firstn (length a) (a ++ b) = a.
Proof. rewrite firstn_app, Nat.sub_diag, firstn_all. simpl. apply app_nil_r. Qed.

Lemma skipn_app_exact {A} (a b : list A) : skipn (length a) (a ++ b) = b.
Proof. rewrite skipn_app, Nat.sub_diag, skipn_all. reflexivity. Qed.

Lemma firstn_app_len {A} n (a b : list A) : n = length a -> firstn n (a ++ b) = a.
Proof. intros ->. apply firstn_app_exact. Qed.

Lemma skipn_app_len {A} n (a b : list A) : n = length a -> skipn n (a ++ b) = b.
Proof. intros ->. apply skipn_app_exact. Qed.

Lemma skipn_skipn {A} n m (l : list A) : skipn n (skipn m l) = skipn (m + n) l.
Proof.
  revert l; induction m as [|m IH]; intros l; simpl; [reflexivity|].
  destruct l; [destruct n; reflexivity|]. apply IH.
Qed.

Lemma split3 {A} (c : list A) a b : (a + b <= length c)%nat ->
  c = firstn a c ++ firstn b (skipn a c) ++ skipn (a + b) c.
Proof.
  intros H. rewrite <- (firstn_skipn a c) at 1. f_equal.
  rewrite <- (firstn_skipn b (skipn a c)) at 1. f_equal. apply skipn_skipn.
Qed.

Lemma xorb_cancel_le a k : (length a <= length k)%nat -> xorb (xorb a k) k = a.
Proof.
  revert k; induction a as [|x a IH]; intros k H; [destruct k; reflexivity|].
  destruct k as [|y k]; simpl in *; [lia|].
  rewrite N.lxor_assoc, N.lxor_nilpotent, N.lxor_0_r. f_equal. apply IH. lia.
Qed.

Lemma xorb_length_le a k : (length a <= length k)%nat -> length (xorb a k) = length a.
Proof. intros H. rewrite xorb_length. lia. Qed.

Lemma has_prefix_iff s p : has_prefix s p = true <-> exists r, s = p ++ r.
Proof.
  unfold has_prefix. rewrite andb_true_iff, Nat.leb_le, beq_eq. split.
  - intros [_ H]. exists (skipn (length p) s). rewrite <- H at 1. symmetry. apply firstn_skipn.
  - intros [r ->]. rewrite app_length, firstn_app_exact. split; [lia|reflexivity].
Qed.

Lemma has_prefix_spec s p :
  has_prefix s p = (Nat.leb (length p) (length s) && beq (firstn (length p) s) p)%bool.
Proof. reflexivity. Qed.

(* ---------- output prefixes ---------- *)
Lemma output_prefix_length v id :
  length (output_prefix v id) = match v with VRaw => 0%nat | _ => 5%nat end.
Proof. destruct v; simpl; try rewrite be_bytes_length; reflexivity. Qed.

Lemma output_prefix_wf v id : wfb (output_prefix v id).
Proof.
  destruct v; simpl; try (constructor; [lia|apply be_bytes_wf]). constructor.
Qed.

Lemma be_bytes_inj n x y : x < 256 ^ N.of_nat n -> y < 256 ^ N.of_nat n ->
  be_bytes n x = be_bytes n y -> x = y.
Proof.
  intros Hx Hy H. apply (f_equal be_val) in H. rewrite !be_val_be_bytes in H.
  rewrite !N.mod_small in H; auto.
Qed.

(* the prefix determines the start byte and the key id *)
Lemma output_prefix_inj v1 v2 id1 id2 :
  id1 < 2 ^ 32 -> id2 < 2 ^ 32 -> v1 <> VRaw ->
  output_prefix v1 id1 = output_prefix v2 id2 ->
  id1 = id2 /\ (v1 = VTink <-> v2 = VTink).
Proof.
  intros H1 H2 Hr H.
  destruct v1, v2; cbn [output_prefix] in H; try congruence; try discriminate;
    apply (f_equal (@tl N)) in H; cbn [tl] in H;
    (split; [apply (be_bytes_inj 4); auto | split; congruence]).
Qed.

(* ---------- nonce-based AEAD framing: Decrypt only ---------- *)
Section NonceDecProofs.
  Variable open_ : bytes -> bytes -> bytes -> bytes -> option bytes.
  Variables (ivlen taglen : nat).
  Variable open_max : option N.
  Variable ct_max : option N.

  Notation open_o := (open_o open_ taglen open_max).
  Notation open_t := (open_t open_ taglen open_max ct_max).
  Notation dec1 := (na_dec_lenfirst open_ ivlen taglen open_max ct_max).
  Notation dec2 := (na_dec_prefixfirst open_ ivlen taglen open_max ct_max).
  Notation dec3 := (na_dec_lenprefix open_ ivlen taglen open_max ct_max).
  Notation dec := (na_dec_canon open_ ivlen taglen open_max ct_max).

  (* -- the three Go bodies are the same function -- *)
  Lemma dec_lenfirst_canon prefix key c ad : dec1 prefix key c ad = dec prefix key c ad.
  Proof.
    unfold na_dec_lenfirst, na_dec_canon.
    set (pl := length prefix).
    destruct (Nat.ltb_spec (length c) (pl + ivlen + taglen)) as [Hs|Hl].
    - destruct (Nat.leb_spec (pl + ivlen + taglen) (length c)); [lia|]. reflexivity.
    - destruct (Nat.leb_spec (pl + ivlen + taglen) (length c)); [|lia]. simpl.
      rewrite slice_ok by lia. simpl. rewrite Nat.sub_0_r.
      destruct (beq (firstn pl c) prefix) eqn:Eb; simpl; [|reflexivity].
      rewrite slice_ok by lia. simpl.
      rewrite slice_ok by lia. simpl.
      replace (pl + ivlen - pl)%nat with ivlen by lia.
      rewrite (firstn_all2 (n := (length c - (pl + ivlen))%nat)) by (rewrite skipn_length; lia).
      unfold make_cap.
      destruct (Nat.ltb_spec (length (skipn (pl + ivlen) c)) taglen) as [Hc|Hc];
        [rewrite skipn_length in Hc; lia|]. reflexivity.
  Qed.

  Lemma dec_prefixfirst_canon prefix key c ad : dec2 prefix key c ad = dec prefix key c ad.
  Proof.
    unfold na_dec_prefixfirst, na_dec_canon, has_prefix.
    set (pl := length prefix).
    destruct (Nat.leb_spec pl (length c)) as [Hp|Hp]; simpl.
    - destruct (beq (firstn pl c) prefix) eqn:Eb; simpl.
      + rewrite slice_ok by lia. simpl.
        rewrite (firstn_all2 (n := (length c - pl)%nat)) by (rewrite skipn_length; lia).
        rewrite skipn_length.
        destruct (Nat.ltb_spec (length c - pl) (ivlen + taglen)) as [Hs|Hl];
          destruct (Nat.leb_spec (pl + ivlen + taglen) (length c)); try lia; simpl; [reflexivity|].
        rewrite slice_ok by (rewrite ?skipn_length; lia). simpl. rewrite Nat.sub_0_r.
        rewrite slice_ok by (rewrite ?skipn_length; lia). simpl.
        rewrite (firstn_all2 (n := (length c - pl - ivlen)%nat)) by (rewrite !skipn_length; lia).
        rewrite skipn_skipn. reflexivity.
      + rewrite andb_false_r. reflexivity.
    - destruct (Nat.leb_spec (pl + ivlen + taglen) (length c)); [lia|]. reflexivity.
  Qed.

  Lemma dec_lenprefix_canon prefix key c ad : lenN c <= MaxInt ->
    dec3 prefix key c ad = dec prefix key c ad.
  Proof.
    intros Hmax. unfold na_dec_lenprefix, na_dec_canon, has_prefix.
    set (pl := length prefix).
    destruct (Nat.ltb_spec (length c) (pl + ivlen + taglen)) as [Hs|Hl].
    - destruct (Nat.leb_spec (pl + ivlen + taglen) (length c)); [lia|]. reflexivity.
    - destruct (Nat.leb_spec (pl + ivlen + taglen) (length c)); [|lia]. simpl.
      destruct (N.ltb_spec MaxInt (lenN c)); [lia|].
      destruct (Nat.leb_spec pl (length c)); [|lia]. simpl.
      destruct (beq (firstn pl c) prefix) eqn:Eb; simpl; [|reflexivity].
      rewrite slice_ok by lia. simpl.
      rewrite (firstn_all2 (n := (length c - pl)%nat)) by (rewrite skipn_length; lia).
      rewrite slice_ok by (rewrite ?skipn_length; lia). simpl. rewrite Nat.sub_0_r.
      rewrite slice_ok by (rewrite ?skipn_length; lia). simpl.
      rewrite (firstn_all2 (n := (length (skipn pl c) - ivlen)%nat)) by (rewrite !skipn_length; lia).
      rewrite skipn_skipn. reflexivity.
  Qed.

  (* -- C02: short / wrong prefix are errors -- *)
  Lemma na_too_short prefix key c ad :
    (length c < length prefix + ivlen + taglen)%nat -> dec prefix key c ad = Err.
  Proof.
    intros H. unfold na_dec_canon.
    destruct (Nat.leb_spec (length prefix + ivlen + taglen) (length c)); [lia|]. reflexivity.
  Qed.

  Lemma na_wrong_prefix prefix key c ad :
    firstn (length prefix) c <> prefix -> dec prefix key c ad = Err.
  Proof.
    intros H. unfold na_dec_canon.
    destruct (beq (firstn (length prefix) c) prefix) eqn:E; [apply beq_eq in E; contradiction|].
    rewrite andb_false_r. reflexivity.
  Qed.

  (* -- C02: where the model panics -- *)
  Lemma na_dec_panic_iff prefix key c ad :
    dec prefix key c ad = Panic <->
    exists m, open_max = Some m /\ (length prefix + ivlen + taglen <= length c)%nat /\
              firstn (length prefix) c = prefix /\
              m < N.of_nat (length c - length prefix - ivlen) /\
              (forall m', ct_max = Some m' -> N.of_nat (length c - length prefix - ivlen) <= m').
  Proof.
    unfold na_dec_canon, AeadFrame.open_t, AeadFrame.open_o.
    destruct (Nat.leb_spec (length prefix + ivlen + taglen) (length c)) as [Hl|Hl]; simpl.
    2:{ split; [discriminate|]. intros [m [_ [H _]]]. lia. }
    destruct (beq (firstn (length prefix) c) prefix) eqn:Eb.
    2:{ split; [discriminate|]. intros [m [_ [_ [H _]]]]. apply beq_eq in H. congruence. }
    apply beq_eq in Eb.
    destruct (Nat.ltb_spec (length (skipn (length prefix + ivlen) c)) taglen) as [Hc|Hc];
      [rewrite skipn_length in Hc; lia|].
    unfold lenN. rewrite skipn_length.
    replace (length c - (length prefix + ivlen))%nat with (length c - length prefix - ivlen)%nat by lia.
    set (L := N.of_nat (length c - length prefix - ivlen)).
    assert (Hcore : (match open_max with
                     | Some m => if m <? L then Panic else of_open (open_ key (firstn ivlen (skipn (length prefix) c)) ad (skipn (length prefix + ivlen) c))
                     | None => of_open (open_ key (firstn ivlen (skipn (length prefix) c)) ad (skipn (length prefix + ivlen) c))
                     end = Panic) <-> exists m, open_max = Some m /\ m < L).
    { destruct open_max as [m|].
      - destruct (N.ltb_spec m L) as [Hm|Hm].
        + split; [|reflexivity]. intros _. exists m. auto.
        + split; [destruct (open_ _ _ _ _); discriminate|]. intros [m' [E H]]. inversion E; subst. lia.
      - split; [destruct (open_ _ _ _ _); discriminate|]. intros [m [E _]]. discriminate. }
    destruct ct_max as [mc|].
    - destruct (N.ltb_spec mc L) as [Hm|Hm].
      + split; [discriminate|]. intros [m [_ [_ [_ [_ H]]]]]. specialize (H mc eq_refl). lia.
      + rewrite Hcore. split.
        * intros [m [E H]]. exists m. repeat split; auto. intros m' E'. inversion E'; subst. exact Hm.
        * intros [m [E [_ [_ [H _]]]]]. exists m. auto.
    - rewrite Hcore. split.
      + intros [m [E H]]. exists m. repeat split; auto. intros m' E'. discriminate.
      + intros [m [E [_ [_ [H _]]]]]. exists m. auto.
  Qed.

  (* Decrypt cannot panic when the standard library's Open has no size panic, when the
     ciphertext is below it, or when Tink's own size check is at least as strict *)
  Lemma na_dec_no_panic prefix key c ad :
    (forall m, open_max = Some m -> lenN c <= m \/ exists m', ct_max = Some m' /\ m' <= m) ->
    dec prefix key c ad <> Panic.
  Proof.
    intros H Hp. apply na_dec_panic_iff in Hp. destruct Hp as [m [E [_ [_ [Hm Hc]]]]].
    destruct (H m E) as [H1|[m' [E' H1]]]; [unfold lenN in H1; lia|].
    specialize (Hc m' E'). lia.
  Qed.

  (* length-only predictions (ciphertexts too long to materialise) *)
  Lemma na_dec_len_only_err prefix key c ad :
    na_dec_len_only open_max ct_max (length prefix) ivlen taglen (lenN c)
      (beq (firstn (length prefix) c) prefix) = Some Err -> dec prefix key c ad = Err.
  Proof.
    unfold na_dec_len_only, na_dec_canon, AeadFrame.open_t, lenN.
    destruct (beq (firstn (length prefix) c) prefix); cbn [negb orb];
      [|rewrite andb_false_r; reflexivity].
    destruct (N.ltb_spec (N.of_nat (length c)) (N.of_nat (length prefix + ivlen + taglen))) as [Hs|Hs].
    - destruct (Nat.leb_spec (length prefix + ivlen + taglen) (length c)); [lia|]. reflexivity.
    - destruct (Nat.leb_spec (length prefix + ivlen + taglen) (length c)); [|lia]. cbn [andb].
      rewrite skipn_length.
      replace (N.of_nat (length c - (length prefix + ivlen))) with (N.of_nat (length c) - N.of_nat (length prefix) - N.of_nat ivlen) by lia.
      destruct ct_max as [mc|].
      + destruct (mc <? _); [reflexivity|]. destruct open_max as [m|]; [destruct (m <? _)|]; discriminate.
      + destruct open_max as [m|]; [destruct (m <? _)|]; discriminate.
  Qed.

  Lemma na_dec_len_only_panic prefix key c ad :
    na_dec_len_only open_max ct_max (length prefix) ivlen taglen (lenN c)
      (beq (firstn (length prefix) c) prefix) = Some Panic -> dec prefix key c ad = Panic.
  Proof.
    unfold na_dec_len_only, na_dec_canon, AeadFrame.open_t, AeadFrame.open_o, lenN.
    destruct (beq (firstn (length prefix) c) prefix); cbn [negb orb]; [|discriminate].
    destruct (N.ltb_spec (N.of_nat (length c)) (N.of_nat (length prefix + ivlen + taglen))) as [Hs|Hs]; [discriminate|].
    destruct (Nat.leb_spec (length prefix + ivlen + taglen) (length c)); [|lia]. cbn [andb].
    destruct (Nat.ltb_spec (length (skipn (length prefix + ivlen) c)) taglen) as [Hc|Hc];
      [rewrite skipn_length in Hc; lia|].
    rewrite skipn_length.
    replace (N.of_nat (length c - (length prefix + ivlen))) with (N.of_nat (length c) - N.of_nat (length prefix) - N.of_nat ivlen) by lia.
    destruct ct_max as [mc|].
    - destruct (mc <? _); [discriminate|]. destruct open_max as [m|]; [destruct (m <? _)|]; try discriminate. reflexivity.
    - destruct open_max as [m|]; [destruct (m <? _)|]; try discriminate. reflexivity.
  Qed.

End NonceDecProofs.

(* ---------- nonce-based AEAD framing ---------- *)
Section NonceAeadProofs.
  Variable seal : bytes -> bytes -> bytes -> bytes -> bytes.
  Variable open_ : bytes -> bytes -> bytes -> bytes -> option bytes.
  Variables (ivlen taglen : nat).
  Variable seal_max : N.
  Variable open_max : option N.
  Variable ct_max : option N.

  Notation seal_o := (seal_o seal seal_max).
  Notation open_o := (open_o open_ taglen open_max).
  Notation open_t := (open_t open_ taglen open_max ct_max).
  Notation enc := (na_enc seal seal_max).
  Notation dec1 := (na_dec_lenfirst open_ ivlen taglen open_max ct_max).
  Notation dec2 := (na_dec_prefixfirst open_ ivlen taglen open_max ct_max).
  Notation dec3 := (na_dec_lenprefix open_ ivlen taglen open_max ct_max).
  Notation dec := (na_dec_canon open_ ivlen taglen open_max ct_max).

  (* -- laws of the standard AEAD (hypotheses of the theorems) -- *)
  Definition seal_len_law := forall k n a p, length (seal k n a p) = (length p + taglen)%nat.
  Definition open_seal_law := forall k n a p, lenN p <= seal_max -> open_ k n a (seal k n a p) = Some p.
  (* Open accepts only what Seal produces (on Seal's domain) *)
  Definition open_only_seal_law := forall k n a c p,
    open_ k n a c = Some p -> c = seal k n a p /\ lenN p <= seal_max.
  (* stdlib Open does not panic on anything Seal can produce *)
  Definition open_max_law := forall m, open_max = Some m -> m = seal_max + N.of_nat taglen.
  (* Tink's size check before Open lets every output of Seal through *)
  Definition ct_max_law := forall m, ct_max = Some m -> seal_max + N.of_nat taglen <= m.

  Lemma open_o_seal k n a p : seal_len_law -> open_seal_law -> open_max_law ->
    lenN p <= seal_max -> open_o k n a (seal k n a p) = Ok p.
  Proof.
    intros HL HO HM Hp. unfold AeadFrame.open_o. rewrite HL.
    destruct (Nat.ltb_spec (length p + taglen) taglen); [lia|].
    destruct open_max as [m|] eqn:Em.
    - rewrite (HM m Em). unfold lenN in *. rewrite HL.
      destruct (N.ltb_spec (seal_max + N.of_nat taglen) (N.of_nat (length p + taglen))); [lia|].
      rewrite HO by exact Hp. reflexivity.
    - rewrite HO by exact Hp. reflexivity.
  Qed.

  Lemma open_o_ok k n a c p : open_only_seal_law ->
    open_o k n a c = Ok p -> c = seal k n a p /\ lenN p <= seal_max.
  Proof.
    intros HU. unfold AeadFrame.open_o.
    destruct (Nat.ltb (length c) taglen); [discriminate|].
    destruct open_max as [m|]; [destruct (m <? lenN c); [discriminate|]|];
      destruct (open_ k n a c) eqn:E; simpl; intros H; inversion H; subst; apply HU; exact E.
  Qed.

  Lemma open_t_seal k n a p : seal_len_law -> open_seal_law -> open_max_law -> ct_max_law ->
    lenN p <= seal_max -> open_t k n a (seal k n a p) = Ok p.
  Proof.
    intros HL HO HM HC Hp. unfold AeadFrame.open_t.
    destruct ct_max as [m|] eqn:Ec; [|apply open_o_seal; auto].
    pose proof (HC m Ec) as Hm. unfold lenN in *. rewrite HL.
    destruct (N.ltb_spec m (N.of_nat (length p + taglen))); [lia|]. apply open_o_seal; auto.
  Qed.

  Lemma open_t_ok k n a c p : open_only_seal_law ->
    open_t k n a c = Ok p -> c = seal k n a p /\ lenN p <= seal_max.
  Proof.
    intros HU. unfold AeadFrame.open_t.
    destruct ct_max as [m|]; [destruct (m <? lenN c); [discriminate|]|]; apply open_o_ok; exact HU.
  Qed.

  (* -- C01: round trip -- *)
  Lemma na_round_trip tink_max prefix key iv p ad c :
    seal_len_law -> open_seal_law -> open_max_law -> ct_max_law ->
    length iv = ivlen ->
    enc tink_max prefix key iv p ad = Ok c -> dec prefix key c ad = Ok p.
  Proof.
    intros HL HO HM HC Hiv. unfold na_enc, AeadFrame.seal_o.
    destruct (tink_max <? lenN p); [discriminate|].
    destruct (N.ltb_spec seal_max (lenN p)); [discriminate|]. simpl. intros Hc; inversion Hc; subst c; clear Hc.
    unfold na_dec_canon. rewrite !app_length, HL, firstn_app_exact, beq_refl.
    destruct (Nat.leb_spec (length prefix + ivlen + taglen) (length prefix + (length iv + (length p + taglen)))); [|lia].
    simpl. rewrite skipn_app_exact. rewrite firstn_app_len by lia.
    rewrite app_assoc, skipn_app_len by (rewrite app_length; lia).
    apply open_t_seal; auto.
  Qed.

  Lemma na_enc_total tink_max prefix key iv p ad :
    lenN p <= tink_max -> lenN p <= seal_max ->
    enc tink_max prefix key iv p ad = Ok (prefix ++ iv ++ seal key iv ad p).
  Proof.
    intros H1 H2. unfold na_enc, AeadFrame.seal_o.
    destruct (N.ltb_spec tink_max (lenN p)); [lia|]. destruct (N.ltb_spec seal_max (lenN p)); [lia|]. reflexivity.
  Qed.

  (* -- C02: exact acceptance set -- *)
  Lemma na_accept_iff tink_max prefix key c ad p :
    seal_len_law -> open_seal_law -> open_only_seal_law -> open_max_law -> ct_max_law ->
    seal_max <= tink_max ->
    (dec prefix key c ad = Ok p <->
     exists iv, length iv = ivlen /\ enc tink_max prefix key iv p ad = Ok c).
  Proof.
    intros HL HO HU HM HC Hmax. split.
    - unfold na_dec_canon.
      destruct (Nat.leb_spec (length prefix + ivlen + taglen) (length c)) as [Hl|]; [|discriminate].
      destruct (beq (firstn (length prefix) c) prefix) eqn:Eb; [|discriminate]. simpl.
      apply beq_eq in Eb. intros H. apply open_t_ok in H; auto. destruct H as [Hc Hp].
      exists (firstn ivlen (skipn (length prefix) c)). split.
      + rewrite firstn_length, skipn_length. lia.
      + rewrite na_enc_total by lia. f_equal. rewrite <- Hc. rewrite <- Eb at 1.
        symmetry. apply split3. lia.
    - intros [iv [Hiv He]]. eapply na_round_trip; eauto.
  Qed.

  Lemma na_enc_panic_iff tink_max prefix key iv p ad :
    enc tink_max prefix key iv p ad = Panic <-> lenN p <= tink_max /\ seal_max < lenN p.
  Proof.
    unfold na_enc, AeadFrame.seal_o.
    destruct (N.ltb_spec tink_max (lenN p)); [split; [discriminate|lia]|].
    destruct (N.ltb_spec seal_max (lenN p)); simpl; split; auto; try discriminate; lia.
  Qed.
End NonceAeadProofs.

(* ---------- facts about the instantiation constants ---------- *)
Lemma gcm_max_order : gcm_seal_max <= gcm_tink_max.
Proof. vm_compute. discriminate. Qed.
Lemma gcm_tink_max_val : gcm_tink_max = 2 ^ 36 - 31.
Proof. reflexivity. Qed.
Lemma gcm_seal_max_val : gcm_seal_max = 2 ^ 36 - 32.
Proof. reflexivity. Qed.
Lemma chacha_open_max_val : chacha_open_max = chacha_seal_max + 16.
Proof. reflexivity. Qed.

(* ---------- a toy instance showing that the laws of the standard AEAD are satisfiable ---------- *)
Definition toy_seal (k n a p : bytes) : bytes := p ++ zeros 16.
Definition toy_open (smax : N) (k n a c : bytes) : option bytes :=
  if Nat.leb 16 (length c) && beq (skipn (length c - 16) c) (zeros 16)
     && (N.of_nat (length c - 16) <=? smax)
  then Some (firstn (length c - 16) c) else None.

Lemma toy_laws smax :
  seal_len_law toy_seal 16 /\ open_seal_law toy_seal (toy_open smax) smax /\
  open_only_seal_law toy_seal (toy_open smax) smax.
Proof.
  unfold seal_len_law, open_seal_law, open_only_seal_law, toy_seal, toy_open. repeat split.
  - intros. rewrite app_length, zeros_length. reflexivity.
  - intros k n a p Hp. rewrite app_length, zeros_length.
    replace (length p + 16 - 16)%nat with (length p) by lia.
    rewrite skipn_app_exact, firstn_app_exact, beq_refl.
    destruct (Nat.leb_spec 16 (length p + 16)); [|lia].
    unfold lenN in Hp. destruct (N.leb_spec (N.of_nat (length p)) smax); [|lia]. reflexivity.
  - destruct (Nat.leb_spec 16 (length c)) as [Hl|]; [|discriminate].
    destruct (beq _ (zeros 16)) eqn:Eb; [|discriminate]. apply beq_eq in Eb.
    destruct (N.leb_spec (N.of_nat (length c - 16)) smax); [|discriminate].
    cbn [andb] in H. inversion H; subst p. rewrite <- Eb. symmetry. apply firstn_skipn.
  - destruct (Nat.leb_spec 16 (length c)) as [Hl|]; [|discriminate].
    destruct (beq _ (zeros 16)) eqn:Eb; [|discriminate].
    destruct (N.leb_spec (N.of_nat (length c - 16)) smax); [|discriminate].
    cbn [andb] in H. inversion H; subst p. unfold lenN. rewrite firstn_length. lia.
Qed.
