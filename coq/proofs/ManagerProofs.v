(* Proofs about model/Manager.v: the C11 invariant over every history. *)
From Coq Require Import List NArith Bool Lia.
From Tink Require Import Manager.
Import ListNotations.
Open Scope N_scope.

Definition count_prim (l : list entry) : nat := length (filter eprim l).

Definition req_ok (e : entry) : Prop := forall r, ereq e = Some r -> r = eid e.

Record EInv (l : list entry) : Prop := {
  ei_nodup : NoDup (map eid l);
  ei_prim1 : (count_prim l <= 1)%nat;
  ei_prim_enabled : forall e, In e l -> eprim e = true -> est e = Enabled;
  ei_known : forall e, In e l -> est e <> UnknownStatus;
  ei_req : forall e, In e l -> req_ok e }.

Definition Inv (m : mgr) : Prop :=
  EInv (ents m) /\ (forall e, In e (ents m) -> In (eid e) (unavail m)).

(* What the property demands of a handle. *)
Definition wf_handle (h : handle) : Prop :=
  EInv h /\ count_prim h = 1%nat.

Lemma mem_In x l : mem x l = true <-> In x l.
Proof.
  unfold mem. rewrite existsb_exists. split.
  - intros [y [Hy He]]. apply N.eqb_eq in He. subst; auto.
  - intros H. exists x. split; auto. apply N.eqb_refl.
Qed.

Lemma status_eqb_eq a b : status_eqb a b = true <-> a = b.
Proof. destruct a, b; simpl; split; intros H; try reflexivity; try discriminate. Qed.

Lemma find_entry_In l id e : find_entry l id = Some e -> In e l /\ eid e = id.
Proof.
  induction l as [|x l IH]; simpl; [discriminate|].
  destruct (N.eqb (eid x) id) eqn:E.
  - intros H; inversion H; subst. apply N.eqb_eq in E. auto.
  - intros H. destruct (IH H). auto.
Qed.

Lemma find_entry_None l id : find_entry l id = None -> ~ In id (map eid l).
Proof.
  induction l as [|x l IH]; simpl; [tauto|].
  destruct (N.eqb (eid x) id) eqn:E; [discriminate|].
  intros H [H1|H1]; [apply N.eqb_neq in E; auto | apply IH in H; auto].
Qed.

Lemma new_random_id_spec u t d id u' t' d' :
  new_random_id u t d = Some (id, u', t', d') ->
  ~ In id u /\ u' = id :: u /\ (d < d')%nat /\
  exists skipped, t = skipped ++ id :: t' /\ Forall (fun x => In x u) skipped
                  /\ d' = (d + length skipped + 1)%nat.
Proof.
  revert d. induction t as [|x t IH]; simpl; intros d; [discriminate|].
  destruct (mem x u) eqn:E.
  - intros H. apply IH in H. destruct H as (H1 & H2 & H3 & sk & H4 & H5 & H6).
    repeat split; auto; try lia. exists (x :: sk). simpl. subst t.
    repeat split; auto. constructor; auto. apply mem_In; auto. lia.
  - intros H. inversion H; subst. repeat split; auto; try lia.
    + intros Hin. apply mem_In in Hin. congruence.
    + exists []. simpl. repeat split; auto. lia.
Qed.

(* ---- list surgery lemmas ------------------------------------------- *)

Definition upd_first (id : N) (f : entry -> entry) : list entry -> list entry :=
  fix go (l : list entry) : list entry :=
    match l with
    | [] => []
    | e :: t => if N.eqb (eid e) id then f e :: t else e :: go t
    end.

Lemma set_status_upd id s l :
  set_status id s l = upd_first id (fun e => mkEntry (eid e) s (eprim e) (ereq e) (ekey e)) l.
Proof. reflexivity. Qed.

Lemma upd_first_ids id f l :
  (forall e, eid (f e) = eid e) -> map eid (upd_first id f l) = map eid l.
Proof.
  intros Hf. induction l as [|x l IH]; simpl; auto.
  destruct (N.eqb (eid x) id); simpl; [rewrite Hf|rewrite IH]; auto.
Qed.

Lemma upd_first_In id f l e :
  In e (upd_first id f l) -> In e l \/ exists e0, In e0 l /\ eid e0 = id /\ e = f e0.
Proof.
  induction l as [|x l IH]; simpl; auto.
  destruct (N.eqb (eid x) id) eqn:E; simpl.
  - intros [H|H]; [right; exists x; apply N.eqb_eq in E; auto | auto].
  - intros [H|H]; auto. destruct (IH H) as [H1|(e0 & H1 & H2 & H3)]; auto.
    right; exists e0; auto.
Qed.

Lemma count_prim_upd_same id f l :
  (forall e, eprim (f e) = eprim e) -> count_prim (upd_first id f l) = count_prim l.
Proof.
  intros Hf. unfold count_prim. induction l as [|x l IH]; simpl; auto.
  destruct (N.eqb (eid x) id); simpl.
  - rewrite Hf. destruct (eprim x); reflexivity.
  - destruct (eprim x); simpl; rewrite IH; auto.
Qed.

Lemma delete_first_incl id l e : In e (delete_first id l) -> In e l.
Proof.
  induction l as [|x l IH]; simpl; auto.
  destruct (N.eqb (eid x) id); simpl; intuition.
Qed.

Lemma delete_first_nodup id l : NoDup (map eid l) -> NoDup (map eid (delete_first id l)).
Proof.
  induction l as [|x l IH]; simpl; auto.
  intros H. inversion H; subst. destruct (N.eqb (eid x) id); simpl; auto.
  constructor; auto. intros Hin. apply H2. apply in_map_iff in Hin.
  destruct Hin as (e & He & Hin). apply in_map_iff. exists e. split; auto.
  eapply delete_first_incl; eauto.
Qed.

Lemma count_prim_delete id l : (count_prim (delete_first id l) <= count_prim l)%nat.
Proof.
  unfold count_prim. induction l as [|x l IH]; simpl; auto.
  destruct (N.eqb (eid x) id); simpl.
  - destruct (eprim x); simpl; lia.
  - destruct (eprim x); simpl; lia.
Qed.

(* deleting a non-primary entry keeps the number of primaries *)
Lemma count_prim_delete_nonprim id l e :
  find_entry l id = Some e -> eprim e = false ->
  count_prim (delete_first id l) = count_prim l.
Proof.
  unfold count_prim. induction l as [|x l IH]; simpl; [discriminate|].
  destruct (N.eqb (eid x) id); simpl.
  - intros H Hp. inversion H; subst. rewrite Hp. reflexivity.
  - intros H Hp. destruct (eprim x); simpl; rewrite (IH H Hp); auto.
Qed.

Lemma count_prim_app l1 l2 : count_prim (l1 ++ l2) = (count_prim l1 + count_prim l2)%nat.
Proof. unfold count_prim. rewrite filter_app, app_length. reflexivity. Qed.

(* set_primary, for a list with distinct ids containing id *)
Definition mk_prim (e : entry) := mkEntry (eid e) (est e) true (ereq e) (ekey e).
Definition clr_other (id : N) (e : entry) :=
  if eid e =? id then e else mkEntry (eid e) (est e) false (ereq e) (ekey e).

Lemma set_primary_unfold id l : set_primary id l = map (clr_other id) (upd_first id mk_prim l).
Proof. reflexivity. Qed.

Definition same_but_prim (e e0 : entry) (p : bool) : Prop :=
  eid e = eid e0 /\ est e = est e0 /\ ereq e = ereq e0 /\ ekey e = ekey e0 /\ eprim e = p.

Lemma set_primary_In id l e1 :
  NoDup (map eid l) -> In e1 (upd_first id mk_prim l) ->
  exists e0, In e0 l /\ same_but_prim (clr_other id e1) e0 (eid e0 =? id).
Proof.
  induction l as [|x l IH]; simpl; [tauto|].
  intros Hnd. inversion Hnd as [|? ? H1 H2]; subst.
  destruct (eid x =? id) eqn:E; simpl.
  - intros [H|H].
    + subst e1. exists x. split; auto. unfold clr_other, mk_prim, same_but_prim; simpl.
      rewrite E. simpl. auto.
    + assert (E1 : eid e1 =? id = false).
      { apply N.eqb_neq. intros Heq. apply N.eqb_eq in E. apply H1.
        apply in_map_iff. exists e1. split; auto. congruence. }
      exists e1. split; auto. unfold clr_other, same_but_prim. rewrite E1. simpl. auto.
  - intros [H|H].
    + subst e1. exists x. split; auto. unfold clr_other, same_but_prim. rewrite E. simpl. auto.
    + destruct (IH H2 H) as (e0 & A & B). exists e0. auto.
Qed.

Lemma count_indicator id l' :
  NoDup (map eid l') ->
  (forall e, In e l' -> eprim e = N.eqb (eid e) id) ->
  count_prim l' = if mem id (map eid l') then 1%nat else 0%nat.
Proof.
  induction l' as [|x l' IH]; simpl; auto.
  intros Hnd Hp. inversion Hnd as [|? ? H1 H2]; subst. unfold count_prim in *. simpl.
  rewrite (Hp x) by auto. rewrite (N.eqb_sym id).
  destruct (eid x =? id) eqn:E; simpl.
  - rewrite IH; auto. apply N.eqb_eq in E. subst id.
    destruct (mem (eid x) (map eid l')) eqn:M; auto. apply mem_In in M. tauto.
  - apply IH; auto.
Qed.

Lemma set_primary_spec id l :
  NoDup (map eid l) -> In id (map eid l) ->
  map eid (set_primary id l) = map eid l /\
  count_prim (set_primary id l) = 1%nat /\
  (forall e, In e (set_primary id l) ->
     exists e0, In e0 l /\ same_but_prim e e0 (eid e0 =? id)).
Proof.
  intros Hnd Hin. rewrite set_primary_unfold.
  assert (Hids : map eid (map (clr_other id) (upd_first id mk_prim l)) = map eid l).
  { rewrite map_map. rewrite <- (upd_first_ids id mk_prim l) by reflexivity.
    apply map_ext. intros a. unfold clr_other. destruct (eid a =? id); reflexivity. }
  assert (Hall : forall e, In e (map (clr_other id) (upd_first id mk_prim l)) ->
     exists e0, In e0 l /\ same_but_prim e e0 (eid e0 =? id)).
  { intros e He. apply in_map_iff in He. destruct He as (e1 & He1 & Hin1). subst e.
    apply set_primary_In; auto. }
  split; [exact Hids|]. split; [|exact Hall].
  rewrite (count_indicator id).
  - rewrite Hids. apply mem_In in Hin. rewrite Hin. reflexivity.
  - rewrite Hids. exact Hnd.
  - intros e He. destruct (Hall e He) as (e0 & _ & A & _ & _ & _ & B). rewrite B, A. reflexivity.
Qed.

(* ---- the invariant -------------------------------------------------- *)

Lemma EInv_nil : EInv [].
Proof. constructor; simpl; try tauto; try constructor. unfold count_prim; simpl; lia. Qed.

Lemma Inv_new : Inv new_manager.
Proof. split; [apply EInv_nil | simpl; tauto]. Qed.

Lemma Inv_from_handle h : EInv h -> Inv (from_handle h).
Proof. intros H. split; simpl; auto. intros e He. apply in_map; auto. Qed.



Lemma NoDup_snoc (A : Type) (l : list A) x : NoDup l -> ~ In x l -> NoDup (l ++ [x]).
Proof.
  induction l as [|y l IH]; simpl; intros H Hn.
  - repeat constructor; auto.
  - inversion H; subst. constructor.
    + rewrite in_app_iff. simpl. intros [Hc|[Hc|[]]]; [tauto|]. subst. apply Hn. auto.
    + apply IH; auto.
Qed.

Lemma EInv_add l id req k :
  EInv l -> ~ In id (map eid l) -> (forall r, req = Some r -> r = id) ->
  EInv (l ++ [mkEntry id Enabled false req k]).
Proof.
  intros [H1 H2 H3 H4 H5] Hn Hr. constructor.
  - rewrite map_app. simpl. apply NoDup_snoc; auto.
  - rewrite count_prim_app. unfold count_prim at 2. simpl. lia.
  - intros e He Hp. apply in_app_iff in He. destruct He as [He|[He|[]]]; auto. subst; reflexivity.
  - intros e He. apply in_app_iff in He. destruct He as [He|[He|[]]]; auto. subst; simpl; discriminate.
  - intros e He. apply in_app_iff in He. destruct He as [He|[He|[]]]; auto. subst. unfold req_ok; simpl; auto.
Qed.

Lemma unavail_not_in_ents m id : Inv m -> ~ In id (unavail m) -> ~ In id (map eid (ents m)).
Proof.
  intros [_ H] Hn Hin. apply in_map_iff in Hin. destruct Hin as (e & He & Hin). subst. auto.
Qed.

Lemma EInv_set_status id s l :
  EInv l -> s <> UnknownStatus ->
  (forall e, find_entry l id = Some e -> eprim e = true -> s = Enabled) ->
  EInv (set_status id s l).
Proof.
  intros [H1 H2 H3 H4 H5] Hs Hp. rewrite set_status_upd.
  set (f := fun e => mkEntry (eid e) s (eprim e) (ereq e) (ekey e)).
  assert (Hfirst : forall e0, In e0 l -> eid e0 = id -> find_entry l id = Some e0).
  { clear - H1. induction l as [|x l IH]; simpl; [tauto|]. inversion H1; subst.
    intros e0 [He|He] Hid.
    - subst. rewrite N.eqb_refl. reflexivity.
    - destruct (eid x =? id) eqn:E.
      + exfalso. apply N.eqb_eq in E. apply H2. apply in_map_iff. exists e0. split; auto. congruence.
      + apply IH; auto. }
  constructor.
  - rewrite upd_first_ids; auto.
  - rewrite count_prim_upd_same; auto.
  - intros e He Hpe. destruct (upd_first_In _ _ _ _ He) as [Hin|(e0 & Hin & Hid & Heq)]; auto.
    subst e. simpl in *. apply (Hp e0); auto.
  - intros e He. destruct (upd_first_In _ _ _ _ He) as [Hin|(e0 & Hin & Hid & Heq)]; auto.
    subst e. simpl. auto.
  - intros e He. destruct (upd_first_In _ _ _ _ He) as [Hin|(e0 & Hin & Hid & Heq)]; auto.
    subst e. unfold req_ok. simpl. apply (H5 e0 Hin).
Qed.

Lemma EInv_delete id l : EInv l -> EInv (delete_first id l).
Proof.
  intros [H1 H2 H3 H4 H5]. constructor.
  - apply delete_first_nodup; auto.
  - pose proof (count_prim_delete id l). lia.
  - intros e He. apply H3. eapply delete_first_incl; eauto.
  - intros e He. apply H4. eapply delete_first_incl; eauto.
  - intros e He. apply H5. eapply delete_first_incl; eauto.
Qed.

Lemma EInv_set_primary id l e :
  EInv l -> find_entry l id = Some e -> est e = Enabled ->
  EInv (set_primary id l) /\ count_prim (set_primary id l) = 1%nat.
Proof.
  intros [H1 H2 H3 H4 H5] Hf He.
  destruct (find_entry_In _ _ _ Hf) as [Hin Hid].
  assert (Hidin : In id (map eid l)) by (apply in_map_iff; exists e; auto).
  destruct (set_primary_spec id l H1 Hidin) as (A & B & C).
  assert (Huniq : forall e0, In e0 l -> eid e0 = id -> e0 = e).
  { clear - H1 Hf. induction l as [|x l IH]; simpl in *; [tauto|]. inversion H1; subst.
    destruct (eid x =? id) eqn:E.
    - inversion Hf; subst. intros e0 [H|H] Hid; auto. exfalso. apply N.eqb_eq in E.
      apply H2. apply in_map_iff. exists e0; split; auto; congruence.
    - intros e0 [H|H] Hid; [subst; rewrite N.eqb_refl in E; discriminate | apply IH; auto]. }
  split; auto. constructor.
  - rewrite A; auto.
  - lia.
  - intros x Hx Hp. destruct (C x Hx) as (e0 & I0 & a & b & c & d & f).
    rewrite Hp in f. symmetry in f. apply N.eqb_eq in f. rewrite b. rewrite (Huniq e0 I0 f). auto.
  - intros x Hx. destruct (C x Hx) as (e0 & I0 & a & b & c & d & f). rewrite b. auto.
  - intros x Hx. destruct (C x Hx) as (e0 & I0 & a & b & c & d & f). unfold req_ok. rewrite c, a. apply H5; auto.
Qed.

Lemma set_primary_ids_sub id l e : In e (set_primary id l) -> In (eid e) (map eid l).
Proof.
  rewrite set_primary_unfold. intros H. apply (in_map eid) in H.
  rewrite map_map in H.
  rewrite (map_ext (fun x => eid (clr_other id x)) eid) in H.
  - rewrite upd_first_ids in H; auto.
  - intros a. unfold clr_other. destruct (eid a =? id); reflexivity.
Qed.

Lemma set_status_ids_sub id s l e : In e (set_status id s l) -> In (eid e) (map eid l).
Proof.
  intros H. apply (in_map eid) in H. rewrite set_status_upd, upd_first_ids in H; auto.
Qed.

(* ---- AddKeyWithOpts ---- *)
Lemma apply_opts_req r opts : forall p p',
  apply_opts (Some r) p opts = Some p' -> p_fixed p = r -> p_has p = true ->
  p_fixed p' = r /\ p_has p' = true.
Proof.
  induction opts as [|o opts IH]; simpl; intros p p' H Hf Hh.
  - inversion H; subst; auto.
  - destruct o as [st|id| ].
    + apply IH in H; auto.
    + destruct (N.eqb r id) eqn:E; [|discriminate]. apply N.eqb_eq in E. subst id.
      apply IH in H; auto.
    + apply IH in H; auto.
Qed.

Lemma clear_primary_ids l : map eid (clear_primary l) = map eid l.
Proof. unfold clear_primary. rewrite map_map. reflexivity. Qed.

Lemma clear_primary_count l : count_prim (clear_primary l) = 0%nat.
Proof. unfold count_prim, clear_primary. induction l; simpl; auto. Qed.

Lemma clear_primary_In l e : In e (clear_primary l) ->
  exists e0, In e0 l /\ eid e = eid e0 /\ est e = est e0 /\ ereq e = ereq e0 /\ eprim e = false.
Proof.
  unfold clear_primary. intros H. apply in_map_iff in H. destruct H as (e0 & <- & Hin).
  exists e0. simpl. auto.
Qed.

Lemma EInv_clear_primary l : EInv l -> EInv (clear_primary l).
Proof.
  intros [H1 H2 H3 H4 H5]. constructor.
  - rewrite clear_primary_ids. auto.
  - rewrite clear_primary_count. lia.
  - intros e He Hp. destruct (clear_primary_In _ _ He) as (e0 & _ & _ & _ & _ & F). congruence.
  - intros e He. destruct (clear_primary_In _ _ He) as (e0 & I & _ & S & _ & _). rewrite S. auto.
  - intros e He. destruct (clear_primary_In _ _ He) as (e0 & I & A & _ & R & _). unfold req_ok. rewrite R, A. apply H5; auto.
Qed.

Lemma EInv_add_gen l id st pr req k :
  EInv l -> ~ In id (map eid l) -> (forall r, req = Some r -> r = id) -> st <> UnknownStatus ->
  (pr = true -> st = Enabled /\ count_prim l = 0%nat) ->
  EInv (l ++ [mkEntry id st pr req k]).
Proof.
  intros [H1 H2 H3 H4 H5] Hn Hr Hs Hp. constructor.
  - rewrite map_app. simpl. apply NoDup_snoc; auto.
  - rewrite count_prim_app. unfold count_prim at 2. simpl. destruct pr; simpl; [destruct (Hp eq_refl); lia | lia].
  - intros e He Hpe. apply in_app_iff in He. destruct He as [He|[He|[]]]; auto. subst; simpl in *. apply Hp; auto.
  - intros e He. apply in_app_iff in He. destruct He as [He|[He|[]]]; auto. subst; simpl; auto.
  - intros e He. apply in_app_iff in He. destruct He as [He|[He|[]]]; auto. subst. unfold req_ok; simpl; auto.
Qed.

Definition SInv (s : state) : Prop :=
  Inv (smgr s) /\ Forall wf_handle (shandles s).

Lemma place_inv m id req k st pr :
  Inv m -> ~ In id (unavail m) -> (forall r, req = Some r -> r = id) -> st <> UnknownStatus ->
  (pr = true -> st = Enabled) ->
  Inv (mkMgr ((if pr then clear_primary (ents m) else ents m) ++ [mkEntry id st pr req k]) (id :: unavail m)).
Proof.
  intros [HE HU] Hn Hr Hs Hp. split; simpl.
  - destruct pr.
    + apply EInv_add_gen; auto.
      * apply EInv_clear_primary; auto.
      * rewrite clear_primary_ids. eapply unavail_not_in_ents; eauto. split; auto.
      * intros _. split; auto. apply clear_primary_count.
    + apply EInv_add_gen; auto.
      * eapply unavail_not_in_ents; eauto. split; auto.
      * discriminate.
  - intros e He. apply in_app_iff in He. destruct He as [He|[He|[]]].
    + right. destruct pr; [|auto].
      destruct (clear_primary_In _ _ He) as (e0 & I & A & _). rewrite A. auto.
    + subst. simpl. auto.
Qed.

Lemma opts_facts req opts p :
  apply_opts req (mkPend (match req with Some r => r | None => 0%N end)
                         (match req with Some _ => true | None => false end) Enabled false) opts = Some p ->
  (p_has p = true -> forall r, req = Some r -> r = p_fixed p) /\ (p_has p = false -> req = None).
Proof.
  intros A. destruct req as [r|].
  - apply apply_opts_req in A; auto. destruct A as [A1 A2]. split.
    + intros _ r0 Hr. inversion Hr; subst; auto.
    + intros C. congruence.
  - split; [intros _ r Hr; discriminate | auto].
Qed.

Lemma make_handle_wf l h : EInv l -> make_handle l = Some h -> h = l /\ wf_handle l.
Proof.
  unfold make_handle. intros HI.
  destruct (existsb (fun e => status_eqb (est e) UnknownStatus) l); [discriminate|].
  destruct (existsb eprim l) eqn:E; [|discriminate].
  intros H; inversion H; subst. split; auto. split; auto.
  pose proof (ei_prim1 _ HI). apply existsb_exists in E. destruct E as (e & He & Hp).
  assert (1 <= count_prim h)%nat.
  { unfold count_prim. assert (In e (filter eprim h)) by (apply filter_In; auto).
    destruct (filter eprim h); simpl in *; [tauto|lia]. }
  lia.
Qed.

Lemma add_fresh_inv s b c k : SInv s -> SInv (fst (add_fresh s b c k)).
Proof.
  intros [[HE HU] HH]. unfold add_fresh.
  destruct (new_random_id (unavail (smgr s)) (stape s) 0) as [[[[id u'] t'] d]|] eqn:E; simpl; [|split; [split|]; auto].
  apply new_random_id_spec in E. destruct E as (Hn & Hu & _).
  destruct c; simpl; (split; [split|]; simpl; auto).
  - apply EInv_add; auto.
    + eapply unavail_not_in_ents; eauto. split; auto.
    + destruct b; intros r Hr; inversion Hr; auto.
  - subst u'. intros e He. apply in_app_iff in He. destruct He as [He|[He|[]]]; simpl; auto. subst; simpl; auto.
  - subst u'. intros e He. simpl; auto.
Qed.

Theorem step_inv s o : SInv s -> SInv (fst (step s o)).
Proof.
  intros HS. pose proof HS as [[HE HU] HH].
  destruct o as [t|raw|req k|req k opts|id|id|id|id| |n]; simpl.
  - destruct t; try apply add_fresh_inv; auto.
  - apply add_fresh_inv; auto.
  - destruct req as [id|]; [|apply add_fresh_inv; auto].
    destruct (mem id (unavail (smgr s))) eqn:M; simpl; auto.
    assert (~ In id (unavail (smgr s))) by (intros Hc; apply mem_In in Hc; congruence).
    split; [split|]; simpl; auto.
    + apply EInv_add; auto. eapply unavail_not_in_ents; eauto. split; auto.
      intros r Hr; inversion Hr; auto.
    + intros e He. apply in_app_iff in He. destruct He as [He|[He|[]]]; auto. subst; simpl; auto.
  - (* AddKeyWithOpts *)
    destruct (apply_opts req _ opts) as [p|] eqn:A; simpl; auto.
    destruct (opts_facts _ _ _ A) as [Hhas Hno].
    destruct (status_eqb (p_st p) UnknownStatus) eqn:SU; simpl; auto.
    destruct (p_prim p && negb (status_eqb (p_st p) Enabled)) eqn:PE; simpl; auto.
    assert (Hst : p_st p <> UnknownStatus) by (intros C; rewrite C in SU; discriminate).
    assert (Hpe : p_prim p = true -> p_st p = Enabled).
    { intros Hp. rewrite Hp in PE. simpl in PE. apply negb_false_iff in PE. apply status_eqb_eq; auto. }
    destruct (p_has p) eqn:HAS.
    + destruct (mem (p_fixed p) (unavail (smgr s))) eqn:M; simpl; auto.
      assert (~ In (p_fixed p) (unavail (smgr s))) by (intros Hc; apply mem_In in Hc; congruence).
      split; simpl; auto. apply place_inv; auto. split; auto.
    + destruct (new_random_id (unavail (smgr s)) (stape s) 0) as [[[[id u'] t'] d]|] eqn:E; simpl; [|split; [split|]; auto].
      apply new_random_id_spec in E. destruct E as (Hn & -> & _).
      split; simpl; auto. apply place_inv; auto. split; auto.
      intros r Hr. rewrite Hno in Hr; auto. discriminate.
  - destruct (find_entry (ents (smgr s)) id) as [e|] eqn:F; simpl; auto.
    destruct (status_eqb (est e) Enabled) eqn:S; simpl; auto.
    apply status_eqb_eq in S.
    destruct (EInv_set_primary id _ e HE F S) as [A B].
    split; [split|]; simpl; auto.
    intros x Hx. apply set_primary_ids_sub in Hx. apply in_map_iff in Hx.
    destruct Hx as (y & Hy & Hin). rewrite <- Hy. auto.
  - destruct (find_entry (ents (smgr s)) id) as [e|] eqn:F; simpl; auto.
    destruct (status_eqb (est e) Disabled || status_eqb (est e) Enabled) eqn:S; simpl; auto.
    split; [split|]; simpl; auto.
    + apply EInv_set_status; auto. discriminate.
    + intros x Hx. apply set_status_ids_sub in Hx. apply in_map_iff in Hx.
      destruct Hx as (y & Hy & Hin). rewrite <- Hy. auto.
  - destruct (find_entry (ents (smgr s)) id) as [e|] eqn:F; simpl; auto.
    destruct (eprim e) eqn:P; simpl; auto.
    destruct (status_eqb (est e) Enabled || status_eqb (est e) Disabled) eqn:S; simpl; auto.
    split; [split|]; simpl; auto.
    + apply EInv_set_status; auto. discriminate.
      intros e0 He0 Hp. rewrite F in He0. inversion He0; subst. congruence.
    + intros x Hx. apply set_status_ids_sub in Hx. apply in_map_iff in Hx.
      destruct Hx as (y & Hy & Hin). rewrite <- Hy. auto.
  - destruct (find_entry (ents (smgr s)) id) as [e|] eqn:F; simpl; auto.
    destruct (eprim e) eqn:P; simpl; auto.
    split; [split|]; simpl; auto.
    + apply EInv_delete; auto.
    + intros x Hx. apply HU. eapply delete_first_incl; eauto.
  - destruct (make_handle (ents (smgr s))) as [h|] eqn:M; simpl; auto.
    destruct (make_handle_wf _ _ HE M) as [-> W].
    split; [split|]; simpl; auto. apply Forall_app. split; auto.
  - destruct (nth_error (shandles s) n) as [h|] eqn:N; simpl; auto.
    split; simpl; auto. apply Inv_from_handle.
    apply nth_error_In in N. rewrite Forall_forall in HH. apply HH in N. apply N.
Qed.

Lemma run_fst_snd s ops : forall s' rs, run s ops = (s', rs) -> length rs = length ops.
Proof.
  revert s. induction ops as [|o ops IH]; simpl; intros s s' rs H.
  - inversion H; auto.
  - destruct (step s o) as [s1 r]. destruct (run s1 ops) as [s2 rs2] eqn:R.
    inversion H; subst. simpl. f_equal. eapply IH; eauto.
Qed.

Theorem run_inv ops : forall s, SInv s -> SInv (fst (run s ops)).
Proof.
  induction ops as [|o ops IH]; simpl; intros s HS; auto.
  pose proof (step_inv s o HS) as H1.
  destruct (step s o) as [s1 r]. simpl in H1. specialize (IH s1 H1).
  destruct (run s1 ops) as [s2 rs]. simpl in *. auto.
Qed.

Lemma init_inv h tape : (forall h0, h = Some h0 -> wf_handle h0) -> SInv (init_state h tape).
Proof.
  intros H. destruct h as [h0|]; simpl.
  - specialize (H h0 eq_refl). split; simpl; [apply Inv_from_handle; apply H | constructor; auto].
  - split; simpl; [apply Inv_new | constructor].
Qed.

(* every handle a history returns is well-formed *)
Theorem step_handle_wf s o s' h : SInv s -> step s o = (s', RHandle h) -> wf_handle h.
Proof.
  intros [[HE HU] HH] H. destruct o as [t|raw|req k|req k opts|id|id|id|id| |n]; simpl in H;
    try (unfold add_fresh in H;
         repeat match type of H with
                | context [match ?x with _ => _ end] => destruct x
                end; inversion H; fail).
  destruct (make_handle (ents (smgr s))) as [h0|] eqn:M; inversion H; subst.
  destruct (make_handle_wf _ _ HE M) as [-> W]. auto.
Qed.

Theorem run_handles_wf ops : forall s s' rs h,
  SInv s -> run s ops = (s', rs) -> In (RHandle h) rs -> wf_handle h.
Proof.
  induction ops as [|o ops IH]; simpl; intros s s' rs h HS H Hin.
  - inversion H; subst. inversion Hin.
  - destruct (step s o) as [s1 r] eqn:S1. destruct (run s1 ops) as [s2 rs2] eqn:R.
    inversion H; subst. destruct Hin as [Hin|Hin].
    + subst r. eapply step_handle_wf; eauto.
    + eapply IH; [|eauto|eauto]. pose proof (step_inv s o HS) as X. rewrite S1 in X. auto.
Qed.

(* Handle() fails iff there is no primary *)
Theorem handle_err_iff s : SInv s ->
  (snd (step s OHandle) = RErr <-> count_prim (ents (smgr s)) = 0%nat).
Proof.
  intros [[HE HU] HH]. simpl. unfold make_handle.
  assert (Hk : existsb (fun e => status_eqb (est e) UnknownStatus) (ents (smgr s)) = false).
  { destruct (existsb _ _) eqn:E; auto. apply existsb_exists in E. destruct E as (e & He & Hs).
    apply status_eqb_eq in Hs. exfalso. eapply ei_known; eauto. }
  rewrite Hk. destruct (existsb eprim (ents (smgr s))) eqn:E; simpl.
  - split; [discriminate|]. intros H0. apply existsb_exists in E. destruct E as (e & He & Hp).
    unfold count_prim in H0. assert (In e (filter eprim (ents (smgr s)))) by (apply filter_In; auto).
    destruct (filter eprim (ents (smgr s))); simpl in *; [tauto|discriminate].
  - split; auto. intros _. unfold count_prim.
    destruct (filter eprim (ents (smgr s))) as [|e l] eqn:F; auto.
    assert (In e (filter eprim (ents (smgr s)))) by (rewrite F; simpl; auto).
    apply filter_In in H. destruct H as [H1 H2].
    assert (existsb eprim (ents (smgr s)) = true) by (apply existsb_exists; exists e; auto). congruence.
Qed.

(* once there is a primary there always is one *)
Theorem primary_persists s o : SInv s ->
  count_prim (ents (smgr s)) = 1%nat -> count_prim (ents (smgr (fst (step s o)))) = 1%nat.
Proof.
  intros HS H1. pose proof HS as [[HE HU] HH].
  destruct o as [t|raw|req k|req k opts|id|id|id|id| |n]; simpl.
  - destruct t; simpl; auto; unfold add_fresh;
      destruct (new_random_id _ _ _) as [[[[? ?] ?] ?]|]; simpl; auto;
      rewrite count_prim_app; unfold count_prim at 2; simpl; lia.
  - unfold add_fresh; destruct (new_random_id _ _ _) as [[[[? ?] ?] ?]|]; simpl; auto;
      rewrite count_prim_app; unfold count_prim at 2; simpl; lia.
  - destruct req as [id|].
    + destruct (mem id _); simpl; auto. rewrite count_prim_app; unfold count_prim at 2; simpl; lia.
    + unfold add_fresh; destruct (new_random_id _ _ _) as [[[[? ?] ?] ?]|]; simpl; auto;
      rewrite count_prim_app; unfold count_prim at 2; simpl; lia.
  - (* AddKeyWithOpts *)
    destruct (apply_opts req _ opts) as [p|]; simpl; auto.
    destruct (status_eqb (p_st p) UnknownStatus); simpl; auto.
    destruct (p_prim p && negb (status_eqb (p_st p) Enabled)); simpl; auto.
    assert (Hc : forall id, count_prim ((if p_prim p then clear_primary (ents (smgr s)) else ents (smgr s))
                                        ++ [mkEntry id (p_st p) (p_prim p) req k]) = 1%nat).
    { intros id. rewrite count_prim_app. unfold count_prim at 2. simpl.
      destruct (p_prim p); simpl; [rewrite clear_primary_count; reflexivity | lia]. }
    destruct (p_has p).
    + destruct (mem (p_fixed p) (unavail (smgr s))); simpl; auto.
    + destruct (new_random_id _ _ _) as [[[[? ?] ?] ?]|]; simpl; auto.
  - destruct (find_entry _ id) as [e|] eqn:F; simpl; auto.
    destruct (status_eqb (est e) Enabled) eqn:S; simpl; auto.
    apply status_eqb_eq in S. apply (EInv_set_primary id _ e HE F S).
  - destruct (find_entry _ id) as [e|] eqn:F; simpl; auto.
    destruct (_ || _); simpl; auto. rewrite set_status_upd, count_prim_upd_same; auto.
  - destruct (find_entry _ id) as [e|] eqn:F; simpl; auto.
    destruct (eprim e); simpl; auto.
    destruct (_ || _); simpl; auto. rewrite set_status_upd, count_prim_upd_same; auto.
  - destruct (find_entry _ id) as [e|] eqn:F; simpl; auto.
    destruct (eprim e) eqn:P; simpl; auto. rewrite (count_prim_delete_nonprim id _ e F P). auto.
  - destruct (make_handle _); simpl; auto.
  - destruct (nth_error (shandles s) n) as [h|] eqn:N; simpl; auto.
    apply nth_error_In in N. rewrite Forall_forall in HH. apply HH in N. apply N.
Qed.

(* an operation that returns an error leaves the keyset unchanged *)
Theorem err_unchanged s o : snd (step s o) = RErr -> ents (smgr (fst (step s o))) = ents (smgr s).
Proof.
  destruct o as [t|raw|req k|req k opts|id|id|id|id| |n]; simpl.
  - destruct t; simpl; auto; unfold add_fresh;
      destruct (new_random_id _ _ _) as [[[[? ?] ?] ?]|]; simpl; auto; discriminate.
  - unfold add_fresh; destruct (new_random_id _ _ _) as [[[[? ?] ?] ?]|]; simpl; auto; discriminate.
  - destruct req as [id|].
    + destruct (mem id _); simpl; auto; discriminate.
    + unfold add_fresh; destruct (new_random_id _ _ _) as [[[[? ?] ?] ?]|]; simpl; auto; discriminate.
  - (* AddKeyWithOpts *)
    destruct (apply_opts req _ opts) as [p|]; simpl; auto.
    destruct (status_eqb (p_st p) UnknownStatus); simpl; auto.
    destruct (p_prim p && negb (status_eqb (p_st p) Enabled)); simpl; auto.
    destruct (p_has p).
    + destruct (mem (p_fixed p) (unavail (smgr s))); simpl; auto; discriminate.
    + destruct (new_random_id _ _ _) as [[[[? ?] ?] ?]|]; simpl; auto; discriminate.
  - destruct (find_entry _ id) as [e|]; simpl; auto. destruct (status_eqb _ _); simpl; auto; discriminate.
  - destruct (find_entry _ id) as [e|]; simpl; auto. destruct (_ || _); simpl; auto; discriminate.
  - destruct (find_entry _ id) as [e|]; simpl; auto. destruct (eprim e); simpl; auto.
    destruct (_ || _); simpl; auto; discriminate.
  - destruct (find_entry _ id) as [e|]; simpl; auto. destruct (eprim e); simpl; auto; discriminate.
  - destruct (make_handle _); simpl; auto.
  - destruct (nth_error _ n); simpl; auto; discriminate.
Qed.

(* the primary key cannot be disabled or deleted *)
Theorem primary_protected s id e :
  find_entry (ents (smgr s)) id = Some e -> eprim e = true ->
  step s (ODisable id) = (s, RErr) /\ step s (ODelete id) = (s, RErr).
Proof. intros F P. simpl. rewrite F, P. auto. Qed.

(* a key that is not ENABLED cannot become primary *)
Theorem non_enabled_not_primary s id e :
  find_entry (ents (smgr s)) id = Some e -> est e <> Enabled ->
  step s (OSetPrimary id) = (s, RErr).
Proof.
  intros F P. simpl. rewrite F. destruct (status_eqb (est e) Enabled) eqn:S; auto.
  apply status_eqb_eq in S. contradiction.
Qed.

(* handles obtained earlier are unaffected by later operations *)
Theorem handles_stable s o : exists l, shandles (fst (step s o)) = shandles s ++ l.
Proof.
  destruct o as [t|raw|req k|req k opts|id|id|id|id| |n]; simpl;
    try (exists []; rewrite app_nil_r;
         repeat match goal with
                | |- context [match ?x with _ => _ end] => destruct x; simpl
                end; unfold add_fresh;
         repeat match goal with
                | |- context [match ?x with _ => _ end] => destruct x; simpl
                end; reflexivity).
  destruct (make_handle _) as [h|]; simpl; [exists [h]; auto | exists []; rewrite app_nil_r; auto].
Qed.

Theorem run_handles_stable ops : forall s, exists l, shandles (fst (run s ops)) = shandles s ++ l.
Proof.
  induction ops as [|o ops IH]; simpl; intros s.
  - exists []. rewrite app_nil_r. auto.
  - destruct (handles_stable s o) as [l1 H1]. destruct (step s o) as [s1 r]. simpl in H1.
    destruct (IH s1) as [l2 H2]. destruct (run s1 ops) as [s2 rs]. simpl in *.
    exists (l1 ++ l2). rewrite H2, H1, app_assoc. auto.
Qed.

(* fresh ids: an id returned by a random-id add was not in use and never
   was (it was not in unavail, which only grows within one manager) *)
Theorem unavail_grows s o :
  (forall k, o <> OFromHandle k) ->
  incl (unavail (smgr s)) (unavail (smgr (fst (step s o)))).
Proof.
  intros Hk. destruct o as [t|raw|req k|req k opts|id|id|id|id| |n]; simpl;
    try (unfold add_fresh;
    repeat match goal with
           | |- context [match ?x with _ => _ end] => destruct x eqn:?; simpl
           end; try apply incl_refl;
    try (match goal with H : new_random_id _ _ _ = Some _ |- _ =>
           apply new_random_id_spec in H; destruct H as (_ & -> & _) end);
    try apply incl_tl; apply incl_refl).
  exfalso. eapply Hk; eauto.
Qed.

(* AddKeyWithOpts, whatever the order of its options: a key that ends up marked
   primary with a status other than ENABLED is refused and nothing changes *)
Theorem addopts_non_enabled_primary_rejected s req k opts p :
  apply_opts req (mkPend (match req with Some r => r | None => 0%N end)
                         (match req with Some _ => true | None => false end) Enabled false) opts = Some p ->
  p_prim p = true -> p_st p <> Enabled ->
  step s (OAddOpts req k opts) = (s, RErr).
Proof.
  intros A P S. simpl. rewrite A.
  destruct (status_eqb (p_st p) UnknownStatus); auto.
  rewrite P. destruct (status_eqb (p_st p) Enabled) eqn:E; simpl; auto.
  apply status_eqb_eq in E. contradiction.
Qed.

(* the order of WithStatus and AsPrimary does not matter *)
Lemma apply_opts_status_primary_commute req p s t :
  apply_opts req p (KStatus s :: KPrimary :: t) = apply_opts req p (KPrimary :: KStatus s :: t).
Proof. reflexivity. Qed.
