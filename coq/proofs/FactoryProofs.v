(* Proofs about model/Prefix.v and model/Factory.v (property C05). *)
From Coq Require Import List NArith Bool Lia Arith.
From Tink Require Import Bytes Manager ManagerProofs Prefix Factory.
Import ListNotations.
Open Scope N_scope.
Local Arguments be_bytes : simpl never.
Local Arguments firstn : simpl never.
Local Arguments skipn : simpl never.

(* ---- output prefixes ---------------------------------------------------- *)

Definition id_bound : N := 4294967296.   (* 2^32: key ids are uint32 *)

Lemma prefix_bytes_length pt id :
  length (prefix_bytes pt id) = if is_raw pt then 0%nat else nonraw_prefix_size.
Proof. destruct pt; simpl; rewrite ?be_bytes_length; reflexivity. Qed.

Lemma prefix_bytes_wf pt id : wfb (prefix_bytes pt id).
Proof.
  destruct pt; simpl; unfold calc_prefix, wfb; try constructor;
    try (unfold tink_start_byte, legacy_start_byte; lia); apply be_bytes_wf.
Qed.

Lemma be32_inj a b : a < id_bound -> b < id_bound -> be_bytes 4 a = be_bytes 4 b -> a = b.
Proof.
  intros Ha Hb H. apply (f_equal be_val) in H. rewrite !be_val_be_bytes in H.
  change (256 ^ N.of_nat 4) with id_bound in H.
  rewrite !N.mod_small in H by assumption. exact H.
Qed.

Definition start_byte (p : ptype) : option N :=
  match p with
  | PTink => Some tink_start_byte
  | PCrunchy | PLegacy => Some legacy_start_byte
  | PRaw => None
  end.

Lemma prefix_bytes_start pt id : is_raw pt = false ->
  exists s, start_byte pt = Some s /\ prefix_bytes pt id = s :: be_bytes 4 id.
Proof. destruct pt; simpl; intros H; try discriminate; eexists; split; reflexivity. Qed.

(* equal non-empty prefixes: same id (for uint32 ids) and same start byte *)
Lemma prefix_bytes_inj p1 p2 a b :
  is_raw p1 = false -> a < id_bound -> b < id_bound ->
  prefix_bytes p1 a = prefix_bytes p2 b -> a = b /\ start_byte p1 = start_byte p2.
Proof.
  intros R Ha Hb H. destruct (prefix_bytes_start p1 a R) as (s & Hs & E). rewrite E in H.
  remember (be_bytes 4 a) as u eqn:Eu. remember (be_bytes 4 b) as v eqn:Ev.
  destruct p2; simpl in H; unfold calc_prefix in H; rewrite <- ?Ev in H; try discriminate;
    injection H as H1 H2; subst u v;
    (split; [apply be32_inj; assumption | rewrite Hs, H1; reflexivity]).
Qed.

Lemma tink_crunchy_prefix_differ a b : prefix_bytes PTink a <> prefix_bytes PCrunchy b.
Proof. simpl; unfold calc_prefix, tink_start_byte, legacy_start_byte. intros H; inversion H. Qed.

Lemma prefix_bytes_nil pt id : prefix_bytes pt id = [] <-> is_raw pt = true.
Proof. destruct pt; simpl; unfold calc_prefix; split; intros H; try reflexivity; discriminate. Qed.

(* ---- generic list facts -------------------------------------------------- *)

Lemma find_first_iff (A : Type) (f : A -> bool) l e :
  find f l = Some e <->
  exists l1 l2, l = l1 ++ e :: l2 /\ f e = true /\ (forall y, In y l1 -> f y = false).
Proof.
  induction l as [|a l IH]; simpl.
  - split; [discriminate|]. intros (l1 & l2 & H & _). destruct l1; discriminate.
  - destruct (f a) eqn:Fa.
    + split.
      * intros H; inversion H; subst. exists [], l. simpl. repeat split; auto. intros y [].
      * intros (l1 & l2 & H & Fe & Hl1). destruct l1 as [|b l1]; simpl in H; injection H as H1 H2.
        -- subst; auto.
        -- subst b. rewrite (Hl1 a (or_introl eq_refl)) in Fa. discriminate.
    + rewrite IH. split.
      * intros (l1 & l2 & H & Fe & Hl1). exists (a :: l1), l2. subst. repeat split; auto.
        intros y [<-|Hy]; auto.
      * intros (l1 & l2 & H & Fe & Hl1). destruct l1 as [|b l1]; simpl in H; injection H as H1 H2.
        -- subst a. congruence.
        -- exists l1, l2. repeat split; auto. intros y Hy. apply Hl1. right; auto.
Qed.

Lemma find_none_iff (A : Type) (f : A -> bool) l :
  find f l = None <-> forall y, In y l -> f y = false.
Proof.
  split; [apply find_none|]. induction l as [|a l IH]; simpl; auto.
  intros H. rewrite (H a (or_introl eq_refl)). apply IH. intros y Hy; apply H; auto.
Qed.

Lemma find_app (A : Type) (f : A -> bool) l1 l2 :
  find f (l1 ++ l2) = match find f l1 with Some e => Some e | None => find f l2 end.
Proof. induction l1 as [|a l1 IH]; simpl; auto. destruct (f a); auto. Qed.

Lemma filter_filter (A : Type) (f g : A -> bool) l :
  filter f (filter g l) = filter (fun x => g x && f x) l.
Proof.
  induction l as [|a l IH]; simpl; auto. destruct (g a); simpl; [destruct (f a)|]; rewrite IH; auto.
Qed.

Lemma filter_unique_by (A : Type) (key : A -> N) (g : A -> bool) l :
  NoDup (map key l) ->
  (forall a b, In a l -> In b l -> g a = true -> g b = true -> key a = key b) ->
  (length (filter g l) <= 1)%nat.
Proof.
  induction l as [|x l IH]; simpl; intros ND H; [lia|].
  inversion ND as [|? ? Hnin ND']; subst.
  destruct (g x) eqn:Gx.
  - simpl. assert (E : filter g l = []).
    { destruct (filter g l) as [|y r] eqn:F; auto. exfalso.
      assert (Hy : In y (filter g l)) by (rewrite F; left; auto).
      apply filter_In in Hy. destruct Hy as [Hy Gy].
      apply Hnin. rewrite (H x y); auto. apply in_map; auto. }
    rewrite E. simpl. lia.
  - apply IH; auto.
Qed.

(* ---- the prefix map is the specification candidate list ------------------ *)

Lemma beq_sym a b : beq a b = beq b a.
Proof.
  destruct (beq a b) eqn:E1, (beq b a) eqn:E2; auto.
  - apply beq_eq in E1. subst. rewrite beq_refl in E2. discriminate.
  - apply beq_eq in E2. subst. rewrite beq_refl in E1. discriminate.
Qed.

Lemma beq_trans_false q p r : beq q p = true -> beq q r = beq p r.
Proof. intros H. apply beq_eq in H. subst. reflexivity. Qed.

Lemma pm_get_insert p q e m :
  pm_get p (pm_insert q e m) = pm_get p m ++ (if beq q p then [e] else []).
Proof.
  induction m as [|[k l] m IH]; simpl.
  - destruct (beq q p); reflexivity.
  - destruct (beq k q) eqn:Ekq; simpl.
    + apply beq_eq in Ekq. subst k. destruct (beq q p); [reflexivity | rewrite app_nil_r; reflexivity].
    + destruct (beq k p) eqn:Ekp.
      * apply beq_eq in Ekp. subst k. rewrite beq_sym in Ekq. rewrite Ekq. rewrite app_nil_r. reflexivity.
      * apply IH.
Qed.

Lemma pm_get_fold p l : forall m0,
  pm_get p (fold_left (fun m e => pm_insert (prefix_of e) e m) l m0)
  = pm_get p m0 ++ filter (fun e => beq (prefix_of e) p) l.
Proof.
  induction l as [|e l IH]; simpl; intros m0; [rewrite app_nil_r; reflexivity|].
  rewrite IH, pm_get_insert. destruct (beq (prefix_of e) p); rewrite <- app_assoc; reflexivity.
Qed.

Lemma pm_get_build p ks :
  pm_get p (pm_build ks) = filter (fun e => fenabled e && beq (prefix_of e) p) ks.
Proof. unfold pm_build, enabled_entries. rewrite pm_get_fold. simpl. apply filter_filter. Qed.

Lemma prefix_of_length e :
  length (prefix_of e) = if fraw e then 0%nat else nonraw_prefix_size.
Proof. apply prefix_bytes_length. Qed.

Lemma beq_prefix_nil e : beq (prefix_of e) [] = fraw e.
Proof.
  unfold prefix_of, fraw. destruct (is_raw (fpt e)) eqn:R.
  - apply (proj2 (prefix_bytes_nil (fpt e) (freq e))) in R. rewrite R. reflexivity.
  - destruct (beq _ _) eqn:B; auto. apply beq_eq in B.
    apply (proj1 (prefix_bytes_nil (fpt e) (freq e))) in B. congruence.
Qed.

Theorem pm_matching_candidates ks x : pm_matching (pm_build ks) x = candidates ks x.
Proof.
  unfold pm_matching, candidates. rewrite !pm_get_build. f_equal.
  - destruct (Nat.leb nonraw_prefix_size (length x)) eqn:L.
    + apply filter_ext. intros e. unfold cand_prefixed.
      destruct (fenabled e); simpl; auto.
      destruct (beq (prefix_of e) (firstn nonraw_prefix_size x)) eqn:B; rewrite ?andb_false_r; auto.
      apply beq_eq in B. apply (f_equal (@length N)) in B.
      rewrite prefix_of_length, firstn_length in B. apply Nat.leb_le in L.
      destruct (fraw e); simpl; auto. unfold nonraw_prefix_size in *. lia.
    + symmetry. apply Nat.leb_gt in L.
      assert (H : forall e, cand_prefixed x e = false).
      { intros e. unfold cand_prefixed. destruct (fenabled e); simpl; auto.
        destruct (fraw e) eqn:R; simpl; auto.
        destruct (beq _ _) eqn:B; auto. apply beq_eq in B. apply (f_equal (@length N)) in B.
        rewrite prefix_of_length, R, firstn_length in B. unfold nonraw_prefix_size in *. lia. }
      induction ks as [|a ks IH]; simpl; auto. rewrite H. auto.
  - apply filter_ext. intros e. unfold cand_raw. rewrite beq_prefix_nil. reflexivity.
Qed.

Lemma In_candidates ks x e :
  In e (candidates ks x) <->
  In e ks /\ fenabled e = true /\ (fraw e = true \/ prefix_of e = firstn nonraw_prefix_size x).
Proof.
  unfold candidates. rewrite in_app_iff, !filter_In. unfold cand_prefixed, cand_raw. split.
  - intros [[H1 H2]|[H1 H2]].
    + apply andb_prop in H2. destruct H2 as [H2 H3]. apply andb_prop in H2. destruct H2 as [H2 H4].
      apply beq_eq in H3. auto.
    + apply andb_prop in H2. destruct H2. auto.
  - intros (H1 & H2 & H3). destruct (fraw e) eqn:R.
    + right. rewrite H2. auto.
    + left. destruct H3 as [H3|H3]; [discriminate|]. rewrite H2, H3, beq_refl. auto.
Qed.

(* a prefixed candidate exists only for inputs of at least 5 bytes *)
Lemma candidate_nonraw_length ks x e :
  In e (candidates ks x) -> fraw e = false -> (nonraw_prefix_size <= length x)%nat.
Proof.
  intros H R. apply In_candidates in H. destruct H as (_ & _ & [H|H]); [congruence|].
  apply (f_equal (@length N)) in H. rewrite prefix_of_length, R, firstn_length in H.
  unfold nonraw_prefix_size in *. lia.
Qed.

(* ---- acceptance ----------------------------------------------------------- *)
Section AcceptProofs.
  Variable valid : fentry -> bytes -> bool.

  Definition first_valid (l : list fentry) (x : bytes) (e : fentry) : Prop :=
    exists l1 l2, l = l1 ++ e :: l2 /\ valid e x = true /\ (forall y, In y l1 -> valid y x = false).

  Theorem accept_first ks x e :
    accept valid ks x = Some e <-> first_valid (candidates ks x) x e.
  Proof. unfold accept, try_list. rewrite pm_matching_candidates. apply find_first_iff. Qed.

  Theorem accept_iff ks x e :
    accept valid ks x = Some e <->
    In e ks /\ fenabled e = true /\ (fraw e = true \/ prefix_of e = firstn nonraw_prefix_size x)
    /\ valid e x = true /\ first_valid (candidates ks x) x e.
  Proof.
    rewrite accept_first. split.
    - intros H. assert (Hin : In e (candidates ks x)).
      { destruct H as (l1 & l2 & E & _). rewrite E. apply in_or_app. right. left. reflexivity. }
      apply In_candidates in Hin. destruct Hin as (A & B & C).
      repeat split; auto. destruct H as (l1 & l2 & _ & V & _). exact V.
    - intros (_ & _ & _ & _ & H). exact H.
  Qed.

  Theorem accept_none_iff ks x :
    accept valid ks x = None <->
    forall e, In e ks -> fenabled e = true ->
      (fraw e = true \/ prefix_of e = firstn nonraw_prefix_size x) -> valid e x = false.
  Proof.
    unfold accept, try_list. rewrite pm_matching_candidates, find_none_iff. split.
    - intros H e A B C. apply H. apply In_candidates. auto.
    - intros H e He. apply In_candidates in He. destruct He as (A & B & C). auto.
  Qed.

  Theorem accept_exists_iff ks x :
    (exists e, accept valid ks x = Some e) <->
    exists e, In e ks /\ fenabled e = true
              /\ (fraw e = true \/ prefix_of e = firstn nonraw_prefix_size x) /\ valid e x = true.
  Proof.
    split.
    - intros [e H]. apply accept_iff in H. exists e. tauto.
    - intros (e & A & B & C & D). destruct (accept valid ks x) as [e'|] eqn:E; [eauto|].
      rewrite accept_none_iff in E. rewrite (E e A B C) in D. discriminate.
  Qed.

  (* inputs valid only under keys that are not ENABLED are rejected *)
  Corollary reject_if_valid_only_under_non_enabled ks x :
    (forall e, In e ks -> valid e x = true -> fenabled e = false) -> accept valid ks x = None.
  Proof.
    intros H. apply accept_none_iff. intros e A B _. destruct (valid e x) eqn:V; auto.
    rewrite (H e A V) in B. discriminate.
  Qed.

  Lemma candidates_enabled ks x : candidates (enabled_entries ks) x = candidates ks x.
  Proof.
    unfold candidates, enabled_entries. rewrite !filter_filter. f_equal; apply filter_ext; intros e;
      unfold cand_prefixed, cand_raw; destruct (fenabled e); reflexivity.
  Qed.

  (* disabled and destroyed entries are as good as absent *)
  Theorem accept_ignores_non_enabled ks x :
    accept valid ks x = accept valid (enabled_entries ks) x.
  Proof. unfold accept. rewrite !pm_matching_candidates, candidates_enabled. reflexivity. Qed.

  (* MAC: the length guard; the second pass over the RAW bucket is redundant *)
  Lemma pm_matching_nil m : pm_matching m [] = pm_get [] m.
  Proof. reflexivity. Qed.

  Theorem mac_accept_eq ks x :
    mac_accept valid ks x =
    if Nat.leb (length x) nonraw_prefix_size then None else accept valid ks x.
  Proof.
    unfold mac_accept, accept. destruct (Nat.leb (length x) nonraw_prefix_size) eqn:L; auto.
    apply Nat.leb_gt in L.
    assert (E : pm_matching (pm_build ks) (firstn nonraw_prefix_size x) = pm_matching (pm_build ks) x).
    { unfold pm_matching. rewrite firstn_length, firstn_firstn.
      replace (Nat.min nonraw_prefix_size (length x)) with nonraw_prefix_size by lia.
      replace (Nat.min nonraw_prefix_size nonraw_prefix_size) with nonraw_prefix_size by lia.
      replace (Nat.leb nonraw_prefix_size (length x)) with true by (symmetry; apply Nat.leb_le; lia).
      rewrite Nat.leb_refl. reflexivity. }
    rewrite E. destruct (try_list valid (pm_matching (pm_build ks) x) x) eqn:T; auto.
    rewrite pm_matching_nil. unfold try_list in *. unfold pm_matching in T. rewrite find_app in T.
    match type of T with match ?a with _ => _ end = _ => destruct a end; [discriminate | exact T].
  Qed.

  (* JWT, streaming AEAD: first enabled key (keyset order) under which the input is valid *)
  Theorem accept_all_iff ks x e :
    accept_all valid ks x = Some e <->
    In e ks /\ fenabled e = true /\ valid e x = true /\ first_valid (enabled_entries ks) x e.
  Proof.
    unfold accept_all, try_list. rewrite find_first_iff. fold (first_valid (enabled_entries ks) x e). split.
    - intros H. assert (Hin : In e (enabled_entries ks)).
      { destruct H as (l1 & l2 & E & _). rewrite E. apply in_or_app. right. left. reflexivity. }
      apply filter_In in Hin. destruct Hin. destruct H as (l1 & l2 & E & V & F). repeat split; auto.
      exists l1, l2. auto.
    - tauto.
  Qed.

  Theorem accept_all_none_iff ks x :
    accept_all valid ks x = None <-> forall e, In e ks -> fenabled e = true -> valid e x = false.
  Proof.
    unfold accept_all, try_list. rewrite find_none_iff. unfold enabled_entries. split.
    - intros H e A B. apply H. apply filter_In. auto.
    - intros H e He. apply filter_In in He. destruct He. auto.
  Qed.

  (* the logged id is the id of the accepting key *)
  Theorem logged_iff r id : logged r = Some id <-> exists e, r = Some e /\ fid e = id.
  Proof.
    unfold logged. destruct r as [e|]; simpl; split.
    - intros H; inversion H. eauto.
    - intros (e' & H & <-). inversion H; reflexivity.
    - discriminate.
    - intros (e' & H & _). discriminate.
  Qed.
End AcceptProofs.

(* validity is consulted only on enabled entries of the keyset: keys that are
   absent (removed, foreign) cannot influence the verdict *)
Theorem accept_ext valid valid' ks x :
  (forall e, In e ks -> fenabled e = true -> valid e x = valid' e x) ->
  accept valid ks x = accept valid' ks x.
Proof.
  intros H. unfold accept, try_list. rewrite pm_matching_candidates.
  assert (G : forall e, In e (candidates ks x) -> valid e x = valid' e x).
  { intros e He. apply In_candidates in He. destruct He as (A & B & _). auto. }
  induction (candidates ks x) as [|a l IH]; simpl; auto.
  rewrite <- (G a (or_introl eq_refl)). destruct (valid a x); auto.
  apply IH. intros e He. apply G. right. exact He.
Qed.

(* ---- well-formed keysets --------------------------------------------------- *)

Definition fcount_prim (ks : list fentry) : nat := length (filter fprim ks).

Record wf_keyset (ks : list fentry) : Prop := {
  wk_nodup : NoDup (map fid ks);
  wk_prim1 : fcount_prim ks = 1%nat;
  wk_prim_enabled : forall e, In e ks -> fprim e = true -> fenabled e = true;
  wk_req : forall e, In e ks -> fraw e = false -> freq e = fid e;
  wk_range : forall e, In e ks -> fid e < id_bound }.

Lemma wf_prefix_of ks e : wf_keyset ks -> In e ks -> prefix_of e = prefix_bytes (fpt e) (fid e).
Proof.
  intros W He. unfold prefix_of. destruct (fraw e) eqn:R.
  - unfold fraw in R. destruct (fpt e); try discriminate. reflexivity.
  - rewrite (wk_req ks W e He R). reflexivity.
Qed.

(* distinct ids: at most one prefixed candidate per 5-byte prefix *)
Theorem prefixed_candidate_unique ks x :
  wf_keyset ks -> (length (filter (cand_prefixed x) ks) <= 1)%nat.
Proof.
  intros W. apply (filter_unique_by fentry fid); [apply (wk_nodup ks W)|].
  intros a b Ha Hb Ga Gb. unfold cand_prefixed in *.
  apply andb_prop in Ga. destruct Ga as [Ga Pa]. apply andb_prop in Ga. destruct Ga as [_ Ra].
  apply andb_prop in Gb. destruct Gb as [Gb Pb]. apply andb_prop in Gb. destruct Gb as [_ Rb].
  apply negb_true_iff in Ra. apply negb_true_iff in Rb.
  apply beq_eq in Pa. apply beq_eq in Pb.
  rewrite (wf_prefix_of ks a W Ha) in Pa. rewrite (wf_prefix_of ks b W Hb) in Pb.
  rewrite <- Pb in Pa.
  apply (prefix_bytes_inj (fpt a) (fpt b)); auto; apply (wk_range ks W); auto.
Qed.

Lemma NoDup_fid_eq ks a b : NoDup (map fid ks) -> In a ks -> In b ks -> fid a = fid b -> a = b.
Proof.
  induction ks as [|x ks IH]; simpl; intros ND Ha Hb E; [tauto|].
  inversion ND as [|? ? Hnin ND']; subst.
  destruct Ha as [<-|Ha], Hb as [<-|Hb]; auto.
  - exfalso. apply Hnin. rewrite E. apply in_map; auto.
  - exfalso. apply Hnin. rewrite <- E. apply in_map; auto.
Qed.

(* with distinct ids a logged id identifies the accepting entry *)
Theorem logged_identifies valid ks x id e :
  NoDup (map fid ks) -> logged (accept valid ks x) = Some id -> In e ks -> fid e = id ->
  accept valid ks x = Some e.
Proof.
  intros ND L He Hid. apply logged_iff in L. destruct L as (e' & A & B). rewrite A. f_equal.
  apply accept_iff in A. destruct A as (A & _). apply (NoDup_fid_eq ks); auto. congruence.
Qed.

(* the key whose (non-empty) prefix the input carries answers, when the input is valid under it *)
Theorem accept_prefixed valid ks x e :
  wf_keyset ks -> In e ks -> fenabled e = true -> fraw e = false ->
  prefix_of e = firstn nonraw_prefix_size x -> valid e x = true ->
  accept valid ks x = Some e.
Proof.
  intros W He En R P V. unfold accept, try_list. rewrite pm_matching_candidates. unfold candidates.
  assert (Hin : In e (filter (cand_prefixed x) ks)).
  { apply filter_In. split; auto. unfold cand_prefixed. rewrite En, R, P, beq_refl. reflexivity. }
  pose proof (prefixed_candidate_unique ks x W) as U.
  destruct (filter (cand_prefixed x) ks) as [|a [|b r]]; simpl in *.
  - tauto.
  - destruct Hin as [<-|[]]. rewrite V. reflexivity.
  - lia.
Qed.

(* ... and when a RAW key answers, no enabled key with that prefix accepts the input *)
Theorem accept_raw_only_after_prefixed valid ks x e :
  accept valid ks x = Some e -> fraw e = true ->
  forall e', In e' ks -> fenabled e' = true -> fraw e' = false ->
             prefix_of e' = firstn nonraw_prefix_size x -> valid e' x = false.
Proof.
  intros A R e' He' En R' P. unfold accept, try_list in A.
  rewrite pm_matching_candidates in A. unfold candidates in A. rewrite find_app in A.
  destruct (find (fun e0 => valid e0 x) (filter (cand_prefixed x) ks)) as [a|] eqn:F.
  - inversion A; subst a. apply find_some in F. destruct F as [F _].
    apply filter_In in F. destruct F as [_ F]. unfold cand_prefixed in F. rewrite R in F.
    destruct (fenabled e); simpl in F; discriminate.
  - apply (find_none _ _ F). apply filter_In. split; auto.
    unfold cand_prefixed. rewrite En, R', P, beq_refl. reflexivity.
Qed.

(* ---- primary ----------------------------------------------------------------- *)

Lemma pick_primary_fold l : forall acc,
  fold_left (fun p e => if fprim e then Some e else p) l acc
  = match pick_primary l with Some p => Some p | None => acc end.
Proof.
  unfold pick_primary. induction l as [|a l IH]; simpl; intros acc; auto.
  rewrite IH. rewrite (IH (if fprim a then Some a else None)).
  destruct (fold_left _ l None); auto. destruct (fprim a); auto.
Qed.

Lemma pick_primary_cons a l :
  pick_primary (a :: l) = match pick_primary l with
                          | Some p => Some p
                          | None => if fprim a then Some a else None
                          end.
Proof. unfold pick_primary at 1. simpl. apply pick_primary_fold. Qed.

Lemma pick_primary_none l : filter fprim l = [] -> pick_primary l = None.
Proof.
  induction l as [|a l IH]; simpl; auto. rewrite pick_primary_cons.
  destruct (fprim a); [discriminate|]. intros H. rewrite IH; auto.
Qed.

Lemma pick_primary_single l p : filter fprim l = [p] -> pick_primary l = Some p.
Proof.
  induction l as [|a l IH]; simpl; [discriminate|]. rewrite pick_primary_cons.
  destruct (fprim a) eqn:Pa.
  - intros H; inversion H; subst. rewrite pick_primary_none; auto.
  - intros H. rewrite IH; auto.
Qed.

Lemma pick_primary_sound l p : pick_primary l = Some p -> In p l /\ fprim p = true.
Proof.
  induction l as [|a l IH]; [discriminate|]. rewrite pick_primary_cons.
  destruct (pick_primary l) as [q|].
  - intros H; inversion H; subst. destruct (IH eq_refl). split; [right|]; auto.
  - destruct (fprim a) eqn:Pa; [|discriminate]. intros H; inversion H; subst. split; [left|]; auto.
Qed.

Theorem wf_primary ks : wf_keyset ks ->
  exists p, In p ks /\ fprim p = true /\ fenabled p = true
            /\ (forall q, In q ks -> fprim q = true -> q = p)
            /\ primary_loop ks = Some p /\ primary_handle ks = Some p.
Proof.
  intros W. pose proof (wk_prim1 ks W) as C. unfold fcount_prim in C.
  destruct (filter fprim ks) as [|p [|? ?]] eqn:F; try discriminate.
  assert (Hp : In p ks /\ fprim p = true) by (apply filter_In; rewrite F; left; auto).
  destruct Hp as [Hp Pp]. pose proof (wk_prim_enabled ks W p Hp Pp) as Ep.
  exists p. repeat split; auto.
  - intros q Hq Pq. assert (In q (filter fprim ks)) by (apply filter_In; auto).
    rewrite F in H. destruct H as [<-|[]]. reflexivity.
  - unfold primary_loop, enabled_entries. apply pick_primary_single.
    rewrite filter_filter.
    rewrite (filter_ext _ (fun x => fprim x && fenabled x)) by (intros; apply andb_comm).
    rewrite <- filter_filter. rewrite F. simpl. rewrite Ep. reflexivity.
  - unfold primary_handle. apply pick_primary_single. exact F.
Qed.

(* ---- PRF set -------------------------------------------------------------------- *)

Lemma assoc_get_set id k e m :
  assoc_get id (assoc_set k e m) = if N.eqb k id then Some e else assoc_get id m.
Proof.
  induction m as [|[a v] m IH]; simpl.
  - destruct (N.eqb k id); reflexivity.
  - destruct (N.eqb a k) eqn:Eak; simpl.
    + apply N.eqb_eq in Eak. subst a. destruct (N.eqb k id); reflexivity.
    + destruct (N.eqb a id) eqn:Eai.
      * apply N.eqb_eq in Eai. subst a. rewrite N.eqb_sym in Eak. rewrite Eak. reflexivity.
      * apply IH.
Qed.

Lemma assoc_get_fold id l : forall m0,
  assoc_get id (fold_left (fun m e => assoc_set (fid e) e m) l m0)
  = match find (fun e => N.eqb (fid e) id) (rev l) with
    | Some e => Some e
    | None => assoc_get id m0
    end.
Proof.
  induction l as [|a l IH]; simpl; intros m0; auto.
  rewrite IH, find_app. destruct (find _ (rev l)); auto. simpl. rewrite assoc_get_set.
  destruct (N.eqb (fid a) id); reflexivity.
Qed.

Theorem prf_map_get ks id e :
  NoDup (map fid ks) ->
  (assoc_get id (prf_map ks) = Some e <-> In e ks /\ fenabled e = true /\ fid e = id).
Proof.
  intros ND. unfold prf_map. rewrite assoc_get_fold. simpl.
  destruct (find _ (rev (enabled_entries ks))) as [e'|] eqn:F.
  - apply find_some in F. destruct F as [F1 F2]. apply in_rev in F1.
    apply filter_In in F1. destruct F1 as [F1 F3]. apply N.eqb_eq in F2. split.
    + intros H; inversion H; subst. auto.
    + intros (A & B & C). f_equal. apply (NoDup_fid_eq ks); auto. congruence.
  - split; [discriminate|]. intros (A & B & C). exfalso.
    assert (H : In e (rev (enabled_entries ks))) by (apply in_rev; rewrite rev_involutive; apply filter_In; auto).
    apply (find_none _ _ F) in H. apply N.eqb_neq in H. auto.
Qed.

Lemma prf_primary_id_fold l : forall acc,
  fold_left (fun p e => if fprim e then fid e else p) l acc
  = match pick_primary l with Some p => fid p | None => acc end.
Proof.
  induction l as [|a l IH]; simpl; intros acc; auto.
  rewrite IH, pick_primary_cons. destruct (pick_primary l); auto. destruct (fprim a); auto.
Qed.

Theorem prf_primary_wf ks : wf_keyset ks ->
  exists p, In p ks /\ fprim p = true /\ fenabled p = true
            /\ prf_primary_id ks = fid p /\ prf_primary ks = Some p.
Proof.
  intros W. destruct (wf_primary ks W) as (p & A & B & C & _ & L & _).
  exists p. repeat split; auto.
  - unfold prf_primary_id. rewrite prf_primary_id_fold. unfold primary_loop in L. rewrite L. reflexivity.
  - unfold prf_primary, prf_primary_id. rewrite prf_primary_id_fold. unfold primary_loop in L. rewrite L.
    apply prf_map_get; auto. apply (wk_nodup ks W).
Qed.

(* ---- legacy adapters: no slice is ever out of range ------------------------------ *)
Section ConcreteProofs.
  Variable raw_valid : fentry -> bytes -> bytes -> bool.
  Variable raw_produce : fentry -> bytes -> bytes.

  Lemma slice_tail n x : (n <= length x)%nat -> slice n (length x) x = Ok (skipn n x).
  Proof.
    intros H. unfold slice.
    replace (Nat.leb n (length x)) with true by (symmetry; apply Nat.leb_le; auto).
    rewrite Nat.leb_refl. simpl. f_equal. apply firstn_all2. rewrite skipn_length. lia.
  Qed.

  Lemma entry_valid_ok ad e x d :
    (fraw e = false -> (nonraw_prefix_size <= length x)%nat) ->
    entry_valid raw_valid ad e x d = Ok (entry_valid_b raw_valid ad d e x).
  Proof.
    intros H. unfold entry_valid, entry_valid_b. destruct (flegacy e); auto.
    destruct ad.
    - rewrite slice_tail; [reflexivity|]. rewrite prefix_of_length. destruct (fraw e); [lia|auto].
    - destruct (Nat.ltb (length x) (length (prefix_of e))); simpl; auto.
      destruct (beq _ _); auto.
    - destruct (Nat.ltb (length x) (length (prefix_of e))); simpl; auto.
      destruct (beq _ _); auto.
  Qed.

  Lemma entry_valid_check_ok e x d ad : ad <> AdStrip ->
    entry_valid raw_valid ad e x d = Ok (entry_valid_b raw_valid ad d e x).
  Proof.
    intros H. unfold entry_valid, entry_valid_b. destruct (flegacy e); auto.
    destruct ad; [congruence| |];
      destruct (Nat.ltb (length x) (length (prefix_of e))); simpl; auto; destruct (beq _ _); auto.
  Qed.

  Lemma try_o_find v b l :
    (forall e, In e l -> v e = Ok (b e)) -> try_o v l = Ok (find b l).
  Proof.
    induction l as [|a l IH]; simpl; intros H; auto.
    rewrite (H a (or_introl eq_refl)). destruct (b a); auto.
  Qed.

  Theorem accept_o_eq ad ks x d :
    accept_o raw_valid ad ks x d = Ok (accept (entry_valid_b raw_valid ad d) ks x).
  Proof.
    unfold accept_o, accept, try_list. apply try_o_find. intros e He.
    apply entry_valid_ok. intros R. rewrite pm_matching_candidates in He.
    apply (candidate_nonraw_length ks x e He R).
  Qed.

  Theorem mac_accept_o_eq ks x d :
    mac_accept_o raw_valid ks x d = Ok (mac_accept (entry_valid_b raw_valid AdCheckLegacy d) ks x).
  Proof.
    unfold mac_accept_o, mac_accept. destruct (Nat.leb (length x) nonraw_prefix_size) eqn:L; auto.
    apply Nat.leb_gt in L.
    assert (S5 : slice 0 nonraw_prefix_size x = Ok (firstn nonraw_prefix_size x)).
    { unfold slice. change (Nat.leb 0 nonraw_prefix_size) with true.
      replace (Nat.leb nonraw_prefix_size (length x)) with true by (symmetry; apply Nat.leb_le; lia).
      cbn [andb]. rewrite Nat.sub_0_r, skipn_O. reflexivity. }
    rewrite S5. cbn [bind]. unfold try_list.
    rewrite (try_o_find _ (fun e => entry_valid_b raw_valid AdCheckLegacy d e x)
                        (pm_matching (pm_build ks) (firstn nonraw_prefix_size x)))
      by (intros; apply entry_valid_check_ok; discriminate).
    destruct (find _ (pm_matching (pm_build ks) (firstn nonraw_prefix_size x))); auto.
    apply try_o_find. intros; apply entry_valid_check_ok; discriminate.
  Qed.

  Corollary accept_never_panics ad ks x d : accept_o raw_valid ad ks x d <> Panic.
  Proof. rewrite accept_o_eq. discriminate. Qed.

  Corollary mac_accept_never_panics ks x d : mac_accept_o raw_valid ks x d <> Panic.
  Proof. rewrite mac_accept_o_eq. discriminate. Qed.

  (* a legacy primitive behind an adapter that checks the prefix answers true
     only for inputs carrying the entry's prefix *)
  Lemma entry_valid_b_prefix ad d e x : ad <> AdStrip -> flegacy e = true ->
    entry_valid_b raw_valid ad d e x = true -> firstn (length (prefix_of e)) x = prefix_of e.
  Proof.
    intros H L. unfold entry_valid_b. rewrite L. destruct ad; [congruence| |]; intros V;
      apply andb_prop in V; destruct V as [V _]; apply andb_prop in V; destruct V as [_ V];
      apply beq_eq in V; exact V.
  Qed.

  (* producing side *)
  Theorem produce_primary pk ks m : wf_keyset ks ->
    exists p, In p ks /\ fprim p = true /\ fenabled p = true
      /\ (forall q, In q ks -> fprim q = true -> q = p)
      /\ produce raw_produce pk (primary_loop ks) m = Some (fid p, entry_produce raw_produce pk p m)
      /\ produce raw_produce pk (primary_handle ks) m = Some (fid p, entry_produce raw_produce pk p m).
  Proof.
    intros W. destruct (wf_primary ks W) as (p & A & B & C & D & E & F).
    exists p. rewrite E, F. simpl. repeat split; auto.
  Qed.

  Theorem entry_produce_carries_prefix pk e m :
    (flegacy e = false -> exists body, raw_produce e m = prefix_of e ++ body) ->
    exists body, entry_produce raw_produce pk e m = prefix_of e ++ body.
  Proof.
    intros H. unfold entry_produce. destruct (flegacy e); [eexists; reflexivity | apply H; reflexivity].
  Qed.
End ConcreteProofs.

(* ---- composition with the keyset manager model (C11) ------------------------------ *)

Lemma fcount_prim_lift cls leg h : fcount_prim (map (lift cls leg) h) = count_prim h.
Proof.
  unfold fcount_prim, count_prim. induction h as [|a h IH]; simpl; auto.
  destruct (eprim a); simpl; rewrite IH; reflexivity.
Qed.

Lemma fraw_lift cls leg e : fraw (lift cls leg e) = match ereq e with None => true | Some _ => false end.
Proof. unfold fraw, lift. simpl. destruct (ereq e); auto. destruct (cls e); reflexivity. Qed.

Definition ents_bounded (l : list entry) : Prop := forall e, In e l -> eid e < id_bound.

Theorem lift_wf cls leg h :
  wf_handle h -> ents_bounded h -> wf_keyset (map (lift cls leg) h).
Proof.
  intros [HE HC] HB. constructor.
  - rewrite map_map. simpl. apply (ei_nodup _ HE).
  - rewrite fcount_prim_lift. exact HC.
  - intros e He Pe. apply in_map_iff in He. destruct He as (e0 & <- & He0).
    unfold fenabled. simpl in *. rewrite (ei_prim_enabled _ HE e0 He0 Pe). reflexivity.
  - intros e He Re. apply in_map_iff in He. destruct He as (e0 & <- & He0).
    rewrite fraw_lift in Re. simpl. destruct (ereq e0) as [r|] eqn:Q; [|discriminate].
    apply (ei_req _ HE e0 He0 r Q).
  - intros e He. apply in_map_iff in He. destruct He as (e0 & <- & He0). simpl. auto.
Qed.

(* key ids stay uint32 along every history whose inputs are uint32 *)
Definition op_bounded (o : op) : Prop :=
  (* the internal AddKeyWithOpts is outside the histories of this theorem *)
  match o with OAddKey (Some id) _ => id < id_bound | OAddOpts _ _ _ => False | _ => True end.

Definition SB (s : state) : Prop :=
  ents_bounded (ents (smgr s)) /\ Forall (fun x => x < id_bound) (stape s)
  /\ (forall h, In h (shandles s) -> ents_bounded h).

Lemma ents_bounded_sub l l' :
  ents_bounded l -> (forall e, In e l' -> In (eid e) (map eid l)) -> ents_bounded l'.
Proof.
  intros H S e He. apply S in He. apply in_map_iff in He. destruct He as (e0 & <- & He0). auto.
Qed.

Lemma ents_bounded_snoc l e : ents_bounded l -> eid e < id_bound -> ents_bounded (l ++ [e]).
Proof. intros H He x Hx. apply in_app_iff in Hx. destruct Hx as [Hx|[<-|[]]]; auto. Qed.

Lemma add_fresh_bounded s b c k : SB s -> SB (fst (add_fresh s b c k)).
Proof.
  intros (HE & HT & HH). unfold add_fresh.
  destruct (new_random_id (unavail (smgr s)) (stape s) 0) as [[[[id u'] t'] d]|] eqn:E; simpl;
    [|repeat split; auto].
  apply new_random_id_spec in E. destruct E as (_ & _ & _ & sk & Et & _ & _).
  rewrite Et in HT. apply Forall_app in HT. destruct HT as [_ HT].
  inversion HT as [|? ? Hid HT']; subst.
  destruct c; simpl; repeat split; auto. apply ents_bounded_snoc; auto.
Qed.

Lemma step_bounded s o : SB s -> op_bounded o ->
  SB (fst (step s o)) /\ (forall h, snd (step s o) = RHandle h -> ents_bounded h).
Proof.
  intros HS HO. pose proof HS as (HE & HT & HH).
  assert (NH : forall b c k h, snd (add_fresh s b c k) <> RHandle h).
  { intros b c k h. unfold add_fresh.
    destruct (new_random_id _ _ _) as [[[[? ?] ?] ?]|]; [destruct c|]; simpl; discriminate. }
  destruct o as [t|raw|req k|req k opts|id|id|id|id| |n]; simpl; [| | |destruct HO| | | | | |].
  - destruct t; try (split; [apply add_fresh_bounded; auto | intros h H; exfalso; eapply NH; eauto]);
      (split; [exact HS | simpl; discriminate]).
  - split; [apply add_fresh_bounded; auto | intros h H; exfalso; eapply NH; eauto].
  - destruct req as [id|].
    + simpl in HO. destruct (mem id (unavail (smgr s))); simpl; (split; [|discriminate]); auto.
      repeat split; simpl; auto. apply ents_bounded_snoc; auto.
    + split; [apply add_fresh_bounded; auto | intros h H; exfalso; eapply NH; eauto].
  - destruct (find_entry (ents (smgr s)) id) as [e|]; [|split; [auto|discriminate]].
    destruct (status_eqb (est e) Enabled); simpl; (split; [|discriminate]); auto.
    repeat split; simpl; auto. eapply ents_bounded_sub; eauto. apply set_primary_ids_sub.
  - destruct (find_entry (ents (smgr s)) id) as [e|]; [|split; [auto|discriminate]].
    destruct (_ || _); simpl; (split; [|discriminate]); auto.
    repeat split; simpl; auto. eapply ents_bounded_sub; eauto. apply set_status_ids_sub.
  - destruct (find_entry (ents (smgr s)) id) as [e|]; [|split; [auto|discriminate]].
    destruct (eprim e); [split; [auto|discriminate]|].
    destruct (_ || _); simpl; (split; [|discriminate]); auto.
    repeat split; simpl; auto. eapply ents_bounded_sub; eauto. apply set_status_ids_sub.
  - destruct (find_entry (ents (smgr s)) id) as [e|]; [|split; [auto|discriminate]].
    destruct (eprim e); simpl; (split; [|discriminate]); auto.
    repeat split; simpl; auto. intros x Hx. apply HE. eapply delete_first_incl; eauto.
  - unfold make_handle.
    destruct (existsb _ _); [split; [auto|discriminate]|].
    destruct (existsb eprim _); [|split; [auto|discriminate]]. simpl. split.
    + repeat split; simpl; auto. intros h Hh. apply in_app_iff in Hh. destruct Hh as [Hh|[<-|[]]]; auto.
    + intros h H. inversion H; subst. auto.
  - destruct (nth_error (shandles s) n) as [h|] eqn:N; simpl; (split; [|discriminate]); auto.
    repeat split; simpl; auto. apply HH. eapply nth_error_In; eauto.
Qed.

Lemma run_bounded ops : forall s s' rs h,
  SB s -> Forall op_bounded ops -> run s ops = (s', rs) -> In (RHandle h) rs -> ents_bounded h.
Proof.
  induction ops as [|o ops IH]; simpl; intros s s' rs h HS HO H Hin.
  - inversion H; subst. inversion Hin.
  - inversion HO as [|? ? Ho HO']; subst.
    destruct (step s o) as [s1 r] eqn:S1. destruct (run s1 ops) as [s2 rs2] eqn:R.
    inversion H; subst. pose proof (step_bounded s o HS Ho) as [X Y]. rewrite S1 in X, Y. simpl in X, Y.
    destruct Hin as [Hin|Hin]; [subst r; auto | eapply IH; eauto].
Qed.

Lemma init_bounded h0 tape :
  (forall h, h0 = Some h -> ents_bounded h) -> Forall (fun x => x < id_bound) tape -> SB (init_state h0 tape).
Proof.
  intros H HT. destruct h0 as [h|]; simpl; repeat split; simpl; auto.
  - intros x [<-|[]]. auto.
  - intros e [].
  - intros x [].
Qed.

(* after ANY manager history the handle is a well-formed keyset for the factories *)
Theorem rotation_wf h0 tape ops s' rs h cls leg :
  (forall h, h0 = Some h -> wf_handle h) -> (forall h, h0 = Some h -> ents_bounded h) ->
  Forall (fun x => x < id_bound) tape -> Forall op_bounded ops ->
  run (init_state h0 tape) ops = (s', rs) -> In (RHandle h) rs ->
  wf_keyset (map (lift cls leg) h).
Proof.
  intros W B T O R Hin. apply lift_wf.
  - eapply run_handles_wf; eauto. apply init_inv; auto.
  - eapply run_bounded; eauto. apply init_bounded; auto.
Qed.

(* ---- primitives that check their own prefix ----------------------------------------- *)

(* When the stored primitive itself refuses inputs that do not carry its prefix
   (every full primitive; the hybrid, MAC and verifier adapters), the prefix
   clause is implied by validity: accepted <=> valid under SOME enabled key. *)
Theorem accept_prefix_checking valid ks x :
  (forall e, In e ks -> valid e x = true ->
             fraw e = true \/ prefix_of e = firstn nonraw_prefix_size x) ->
  ((exists e, accept valid ks x = Some e) <->
   exists e, In e ks /\ fenabled e = true /\ valid e x = true).
Proof.
  intros H. rewrite accept_exists_iff. split.
  - intros (e & A & B & _ & D). eauto.
  - intros (e & A & B & D). exists e. repeat split; auto.
Qed.

Lemma entry_valid_b_carries raw_valid ad d e x : ad <> AdStrip ->
  (flegacy e = false -> raw_valid e x d = true ->
   fraw e = true \/ prefix_of e = firstn nonraw_prefix_size x) ->
  entry_valid_b raw_valid ad d e x = true ->
  fraw e = true \/ prefix_of e = firstn nonraw_prefix_size x.
Proof.
  intros Had Hfull V. destruct (flegacy e) eqn:L.
  - pose proof (entry_valid_b_prefix raw_valid ad d e x Had L V) as P.
    destruct (fraw e) eqn:R; [left; reflexivity|right].
    rewrite prefix_of_length, R in P. symmetry. exact P.
  - apply Hfull; auto. unfold entry_valid_b in V. rewrite L in V. exact V.
Qed.
