(* Encodings of model/Mldsa.v: lengths of encoded public keys, secret keys and
   signatures (FIPS 204 Table 2), decoders refuse every other length, and the
   key encodings round-trip. *)
From Coq Require Import List ZArith NArith Bool Arith Lia.
From Tink Require Import Bytes Wrap MldsaScalar MldsaScalarProofs MldsaKernels MldsaKernelsProofs
  MldsaPoly Mldsa MldsaPackProofs MldsaHintProofs.
Import ListNotations.
Local Open Scope nat_scope.

Lemma concat_map_length {A} (f : A -> bytes) n (l : list A) :
  Forall (fun x => length (f x) = n) l -> length (concat (map f l)) = length l * n.
Proof.
  induction 1 as [|x l Hx _ IH]; [reflexivity|]. cbn [map concat length].
  rewrite app_length, Hx, IH. lia.
Qed.

Lemma firstn_pad_length n (b : bytes) : length (firstn n (b ++ zeros n)) = n.
Proof. rewrite firstn_length, app_length, zeros_length. lia. Qed.

Definition polys (n : nat) (v : list poly) : Prop := length v = n /\ Forall (fun p => length p = degree) v.

Theorem pkEncode_length P pk : polys (p_k P) (pk_t1 pk) ->
  length (pkEncode pk) = publicKeyLength P.
Proof.
  intros [Hk Hp]. unfold pkEncode, pkEncodeRaw, publicKeyLength.
  rewrite app_length, firstn_pad_length.
  rewrite (concat_map_length _ (32 * t1Bits)).
  - rewrite Hk. lia.
  - eapply Forall_impl; [|exact Hp]. intros p Lp. apply simpleBitPack_length. exact Lp.
Qed.

Theorem skEncode_length P sk :
  polys (p_l P) (sk_s1 sk) -> polys (p_k P) (sk_s2 sk) -> polys (p_k P) (sk_t0 sk) ->
  length (skEncode P sk) = secretKeyLength P.
Proof.
  intros [L1 P1] [L2 P2] [L3 P3]. unfold skEncode, secretKeyLength.
  rewrite !app_length, !firstn_pad_length.
  rewrite (concat_map_length _ (32 * p_etaBits P)), (concat_map_length _ (32 * p_etaBits P)),
    (concat_map_length _ (32 * dBits)).
  - rewrite L1, L2, L3. lia.
  - eapply Forall_impl; [|exact P3]. intros p Lp. apply bitPack_length. exact Lp.
  - eapply Forall_impl; [|exact P2]. intros p Lp. apply bitPack_length. exact Lp.
  - eapply Forall_impl; [|exact P1]. intros p Lp. apply bitPack_length. exact Lp.
Qed.

Lemma hintBitPack_length omega h : weight h <= omega ->
  length (hintBitPack omega h) = omega + length h.
Proof.
  intros Hw. unfold hintBitPack, weight in *.
  rewrite !app_length, zeros_length, hint_counts_length, map_length. lia.
Qed.

Theorem sigEncode_length P c z h :
  polys (p_l P) z -> length h = p_k P -> weight h <= p_omega P ->
  length (sigEncode P c z h) = signatureLength P.
Proof.
  intros [Lz Pz] Lh Hw. unfold sigEncode, signatureLength.
  rewrite !app_length, firstn_pad_length, hintBitPack_length by exact Hw.
  rewrite (concat_map_length _ (32 * zBits P)).
  - rewrite Lz, Lh. unfold zBits. lia.
  - eapply Forall_impl; [|exact Pz]. intros p Lp. apply bitPack_length. exact Lp.
Qed.

(* decoders refuse every other length *)
Theorem sigDecode_length P sigma r : sigDecode P sigma = Some r -> length sigma = signatureLength P.
Proof.
  unfold sigDecode. destruct (Nat.eqb (length sigma) (signatureLength P)) eqn:E; [|discriminate].
  intros _. apply Nat.eqb_eq. exact E.
Qed.

Theorem pkDecode_length shake256 P enc pk : pkDecode shake256 P enc = Some pk -> length enc = publicKeyLength P.
Proof.
  unfold pkDecode. destruct (Nat.eqb (length enc) (publicKeyLength P)) eqn:E; [|discriminate].
  intros _. apply Nat.eqb_eq. exact E.
Qed.

Theorem skDecode_length P enc sk : skDecode P enc = Some sk -> length enc = secretKeyLength P.
Proof.
  unfold skDecode. destruct (Nat.eqb (length enc) (secretKeyLength P)) eqn:E; [|discriminate].
  intros _. apply Nat.eqb_eq. exact E.
Qed.

(* FIPS 204 Table 2 *)
Theorem table2_lengths :
  (publicKeyLength MLDSA44, secretKeyLength MLDSA44, signatureLength MLDSA44) = (1312, 2560, 2420) /\
  (publicKeyLength MLDSA65, secretKeyLength MLDSA65, signatureLength MLDSA65) = (1952, 4032, 3309) /\
  (publicKeyLength MLDSA87, secretKeyLength MLDSA87, signatureLength MLDSA87) = (2592, 4896, 4627).
Proof. repeat split; vm_compute; reflexivity. Qed.

(* FIPS 204 Table 1, as computed by newParams *)
Theorem table1_params :
  MLDSA44 = mkParams 39 128 17 95232 4 4 2 80 3 6 /\
  MLDSA65 = mkParams 49 192 19 261888 6 5 4 55 4 4 /\
  MLDSA87 = mkParams 60 256 19 261888 8 7 2 75 3 4.
Proof. repeat split; reflexivity. Qed.

(* ---- pieces of a concatenation ---- *)
Lemma pieces_concat n (bs : list bytes) rest :
  Forall (fun b => length b = n) bs -> pieces n (length bs) (concat bs ++ rest) = bs.
Proof.
  unfold pieces. revert rest.
  induction bs as [|b bs IH]; intros rest Hb; [reflexivity|].
  inversion Hb as [|? ? Lb Hb']. clear Hb.
  cbn [length seq map concat].
  rewrite Nat.mul_0_l. cbn [skipn]. rewrite <- app_assoc, firstn_app, firstn_all2 by lia.
  rewrite Lb, Nat.sub_diag, firstn_O, app_nil_r. f_equal.
  rewrite <- seq_shift, map_map. rewrite <- (IH rest Hb') at 2.
  apply map_ext. intros i. f_equal.
  replace (S i * n) with (i * n + n) by lia.
  rewrite <- skipn_add. f_equal.
  rewrite skipn_app, skipn_all2 by lia. rewrite Lb, Nat.sub_diag. reflexivity.
Qed.

Lemma firstn_pad_exact n (b : bytes) : length b = n -> firstn n (b ++ zeros n) = b.
Proof. intros H. rewrite firstn_app, H, Nat.sub_diag, firstn_O, app_nil_r. rewrite <- H. apply firstn_all. Qed.

(* SigDecode inverts SigEncode on well-formed (c~, z, h): c~ of lambda/4
   bytes, z with gamma1 - z_i in [0, 2^(1+log2 gamma1)), h a 0/1 vector of
   weight <= omega *)
Theorem sigDecode_sigEncode P c z h :
  p_omega P <= 255 -> (0 <= gamma1 P < q)%Z ->
  length c = ctLen P -> polys (p_l P) z ->
  Forall (Forall (fun x => 0 <= x < q /\ (gamma1 P - x) mod q < 2 ^ Z.of_nat (zBits P))%Z) z ->
  length h = p_k P -> Forall (fun p => binary p /\ length p = degree) h -> weight h <= p_omega P ->
  sigDecode P (sigEncode P c z h) = Some (c, z, h).
Proof.
  intros Ho Hg Lc [Lz Pz] Rz Lh Bh Wh. unfold sigDecode.
  rewrite sigEncode_length by (auto; split; auto). rewrite Nat.eqb_refl. cbn [negb].
  unfold sigEncode. rewrite firstn_pad_exact by exact Lc.
  assert (Lb : Forall (fun b => length b = 32 * zBits P) (map (bitPack (gamma1 P) (zBits P)) z)).
  { apply Forall_map. eapply Forall_impl; [|exact Pz]. intros p Lp. apply bitPack_length. exact Lp. }
  assert (Lcat : length (concat (map (bitPack (gamma1 P) (zBits P)) z)) = p_l P * 32 * zBits P).
  { rewrite (concat_map_length _ (32 * zBits P)).
    - rewrite Lz. lia.
    - eapply Forall_impl; [|exact Pz]. intros p Lp. apply bitPack_length. exact Lp. }
  set (ZZ := concat (map (bitPack (gamma1 P) (zBits P)) z)) in *.
  set (HH := hintBitPack (p_omega P) h).
  assert (F1 : firstn (ctLen P) (c ++ ZZ ++ HH) = c).
  { rewrite <- Lc, firstn_app, Nat.sub_diag, firstn_O, firstn_all, app_nil_r. reflexivity. }
  assert (S1 : skipn (ctLen P) (c ++ ZZ ++ HH) = ZZ ++ HH).
  { rewrite <- Lc, skipn_app, Nat.sub_diag, skipn_all. reflexivity. }
  assert (S2 : skipn (ctLen P + p_l P * 32 * zBits P) (c ++ ZZ ++ HH) = HH).
  { rewrite Nat.add_comm, <- skipn_add, S1. rewrite <- Lcat, skipn_app, Nat.sub_diag, skipn_all. reflexivity. }
  rewrite F1, S1, S2. unfold ZZ.
  rewrite <- Lz.
  pose proof (pieces_concat _ _ HH Lb) as PC. rewrite map_length in PC. rewrite PC. clear PC.
  replace (map (bitUnpack (gamma1 P) (zBits P)) (map (bitPack (gamma1 P) (zBits P)) z)) with z.
  2:{ rewrite map_map. rewrite <- (map_id z) at 1. apply map_ext_in. intros p Hp.
      rewrite Forall_forall in Pz, Rz. symmetry. apply bitUnpack_bitPack; auto. unfold zBits. lia. }
  unfold HH.
  rewrite hintBitUnpack_hintBitPack; auto.
Qed.
