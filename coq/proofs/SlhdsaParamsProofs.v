(* The hash.go instantiations satisfy the output-length laws the structural
   theorems assume (given the output lengths of the stdlib primitives), and
   the twelve parameter sets are well-formed; derived values by computation. *)
From Coq Require Import List NArith Bool Arith Lia.
From Tink Require Import Bytes SlhdsaAddr SlhdsaBase SlhdsaHash SlhdsaParams Slhdsa SlhdsaWotsProofs SlhdsaProofs.
Import ListNotations.
Open Scope nat_scope.

Section INST.
  Variable sha256 sha512 : bytes -> bytes.
  Variable shake256 : bytes -> nat -> bytes.
  Variable hmac256 hmac512 : bytes -> bytes -> bytes.
  Hypothesis sha256_len : forall m, length (sha256 m) = 32.
  Hypothesis sha512_len : forall m, length (sha512 m) = 64.
  Hypothesis shake256_len : forall m l, length (shake256 m l) = l.
  Hypothesis hmac256_len : forall k m, length (hmac256 k m) = 32.
  Hypothesis hmac512_len : forall k m, length (hmac512 k m) = 64.

  Lemma mk_hashes_ok : forall hk P, p_n P <= 32 ->
    hashes_ok P (mk_hashes sha256 sha512 shake256 hmac256 hmac512 hk P).
  Proof.
    intros hk P Hn. destruct hk; constructor; intros; simpl;
      unfold shakeF, shakePrf, shakePrfMsg, sha2C1F, sha2C1Prf, sha2C1PrfMsg, sha2C35H, sha2C35PrfMsg;
      try apply shake256_len;
      rewrite firstn_length_le; auto;
      rewrite ?sha256_len, ?sha512_len, ?hmac256_len, ?hmac512_len; lia.
  Qed.
End INST.

Definition set_ok (s : params * hashkind) : bool :=
  let P := fst s in
  (Nat.eqb (p_h P) (p_d P * p_hp P) && Nat.leb 1 (p_d P) && Nat.leb (p_n P) 32)
  (* what the Go code additionally relies on: h - hp <= 64 (uint64 tree index), hp < 32,
     1 <= lgw <= 25 and len2*lgw <= 32 (uint32 accumulators of base2b / checksum),
     a <= 25 (FORS indices through base2b), digest exactly as long as the split needs *)
  && (Nat.leb (p_h P - p_hp P) 64 && Nat.ltb (p_hp P) 32 && Nat.leb 1 (p_lgw P) && Nat.leb (p_lgw P) 25
      && Nat.leb (p_len2 P * p_lgw P) 32 && Nat.leb (p_a P) 25
      && Nat.eqb (p_m P) (md_len P + tree_len P + leaf_len P)).

Lemma all_sets_ok : forallb set_ok all_sets = true.
Proof. vm_compute. reflexivity. Qed.

Lemma set_ok_wf : forall s, set_ok s = true -> params_wf (fst s) /\ p_n (fst s) <= 32.
Proof.
  intros s H. unfold set_ok in H. apply andb_prop in H. destruct H as [H _].
  apply andb_prop in H. destruct H as [H Hn]. apply andb_prop in H. destruct H as [Hh Hd].
  apply Nat.eqb_eq in Hh. apply Nat.leb_le in Hd, Hn. unfold params_wf. auto.
Qed.

Lemma set_ok_checksum : forall s, set_ok s = true ->
  1 <= p_lgw (fst s) <= 25 /\ p_len2 (fst s) * p_lgw (fst s) <= 32.
Proof.
  intros s H. unfold set_ok in H. apply andb_prop in H. destruct H as [_ H].
  repeat (apply andb_prop in H; destruct H as [H ?]).
  apply Nat.leb_le in H4, H3, H2. lia.
Qed.

Lemma all_sets_wf : forall s, In s all_sets -> params_wf (fst s) /\ p_n (fst s) <= 32.
Proof.
  intros s Hs. apply set_ok_wf. pose proof all_sets_ok as A. rewrite forallb_forall in A. auto.
Qed.

(* derived values of newParams and the FIPS 205 sizes, per table:
   (n, w, len1, len2, len, signature bytes, public key bytes, secret key bytes) *)
Definition derived (P : params) : list N :=
  map N.of_nat [p_n P; p_w P; p_len1 P; p_len2 P; p_len P; sig_len P; 2 * p_n P; 4 * p_n P].

Lemma derived_values :
  derived param128s = [16; 16; 32; 3; 35; 7856; 32; 64]%N /\
  derived param128f = [16; 16; 32; 3; 35; 17088; 32; 64]%N /\
  derived param192s = [24; 16; 48; 3; 51; 16224; 48; 96]%N /\
  derived param192f = [24; 16; 48; 3; 51; 35664; 48; 96]%N /\
  derived param256s = [32; 16; 64; 3; 67; 29792; 64; 128]%N /\
  derived param256f = [32; 16; 64; 3; 67; 49856; 64; 128]%N.
Proof. vm_compute. repeat split. Qed.
