(* Proofs about model/GcmSiv.v: canonical form of Decrypt, round trip, exact
   acceptance set proved from the model (only |AES(k,b)| = 16 is assumed),
   no panic. *)
From Coq Require Import List NArith Bool Arith Lia ZifyN ZifyNat ZifyBool.
From Tink Require Import Bytes AeadFrame AeadFrameProofs Ctr CtrProofs EtMProofs Polyval GcmSiv.
Import ListNotations.
Open Scope N_scope.

Lemma block_of_fe_length a : length (block_of_fe a) = 16%nat.
Proof. unfold block_of_fe. rewrite app_length, !le_bytes_length. reflexivity. Qed.

Lemma polyval_impl_length k ps : length (polyval_impl k ps) = 16%nat.
Proof. apply block_of_fe_length. Qed.

Section GcmSivProofs.
  Variable aes : bytes -> bytes -> bytes.
  Hypothesis aes_len : forall k b, length (aes k b) = 16%nat.

  Lemma kdf_half_length key nonce c : length (kdf_half aes key nonce c) = 8%nat.
  Proof. unfold kdf_half. rewrite firstn_length, aes_len. reflexivity. Qed.

  Definition dk_auth (key nonce : bytes) : bytes :=
    kdf_half aes key nonce 0 ++ kdf_half aes key nonce 1.
  Definition dk_enc (key nonce : bytes) : bytes :=
    let h := kdf_half aes key nonce in
    if Nat.eqb (length key) 32 then h 2 ++ h 3 ++ h 4 ++ h 5 else h 2 ++ h 3.
  Definition tagf (key nonce pt ad : bytes) : bytes :=
    aes (dk_enc key nonce)
        (and_last (xor_into (polyval_impl (dk_auth key nonce) [ad; pt; length_block pt ad]) nonce) 127).
  Definition sctr (enc tag inp : bytes) : bytes :=
    ctr_apply (aes enc) (siv_blk (skipn 4 (or_last tag 128))) siv_next
              (le_val (firstn 4 (or_last tag 128))) inp.

  Lemma derive_keys_ok key nonce : length nonce = 12%nat ->
    derive_keys aes key nonce = Ok (dk_auth key nonce, dk_enc key nonce).
  Proof. intros H. unfold derive_keys. rewrite H. reflexivity. Qed.

  Lemma dk_auth_length key nonce : length (dk_auth key nonce) = 16%nat.
  Proof. unfold dk_auth. rewrite app_length, !kdf_half_length. reflexivity. Qed.

  Lemma tagf_length key nonce pt ad : length (tagf key nonce pt ad) = 16%nat.
  Proof. apply aes_len. Qed.

  Lemma sctr_involutive enc tag inp : sctr enc tag (sctr enc tag inp) = inp.
  Proof. unfold sctr. apply ctr_apply_involutive. intros b; apply aes_len. Qed.

  Lemma sctr_length enc tag inp : length (sctr enc tag inp) = length inp.
  Proof. unfold sctr. apply ctr_apply_length. intros b; apply aes_len. Qed.

  Lemma tag_steps key nonce pt ad : length nonce = 12%nat ->
    bind (compute_polyval (dk_auth key nonce) pt ad) (fun pv => compute_tag aes pv nonce (dk_enc key nonce))
    = Ok (tagf key nonce pt ad).
  Proof.
    intros Hn. unfold compute_polyval. rewrite dk_auth_length. cbn [Nat.eqb negb bind].
    unfold compute_tag. rewrite polyval_impl_length. reflexivity.
  Qed.

  Lemma siv_ctr_ok enc tag inp : length tag = 16%nat -> siv_ctr aes enc tag inp = Ok (sctr enc tag inp).
  Proof. intros H. unfold siv_ctr. rewrite H. reflexivity. Qed.

  Lemma siv_raw_enc_ok key nonce p ad : length nonce = 12%nat ->
    lenN p <= MaxInt32 - 12 - 16 -> lenN ad <= MaxInt32 ->
    siv_raw_enc aes key nonce p ad =
    Ok (nonce ++ sctr (dk_enc key nonce) (tagf key nonce p ad) p ++ tagf key nonce p ad).
  Proof.
    intros Hn Hp Ha. unfold siv_raw_enc.
    destruct (N.ltb_spec (MaxInt32 - 12 - 16) (lenN p)); [lia|].
    destruct (N.ltb_spec MaxInt32 (lenN ad)); [lia|].
    rewrite derive_keys_ok by exact Hn. cbn [bind fst snd].
    pose proof (tag_steps key nonce p ad Hn) as Ht.
    destruct (compute_polyval (dk_auth key nonce) p ad) as [pv| |]; cbn [bind] in *; try discriminate.
    rewrite Ht. cbn [bind]. rewrite siv_ctr_ok by apply tagf_length. reflexivity.
  Qed.

  Lemma siv_raw_enc_inv key nonce p ad r : length nonce = 12%nat ->
    siv_raw_enc aes key nonce p ad = Ok r ->
    lenN p <= MaxInt32 - 12 - 16 /\ lenN ad <= MaxInt32 /\
    r = nonce ++ sctr (dk_enc key nonce) (tagf key nonce p ad) p ++ tagf key nonce p ad.
  Proof.
    intros Hn H.
    destruct (N.ltb_spec (MaxInt32 - 12 - 16) (lenN p)) as [Hp|Hp];
      [unfold siv_raw_enc in H; destruct (N.ltb_spec (MaxInt32 - 12 - 16) (lenN p)); [discriminate|lia]|].
    destruct (N.ltb_spec MaxInt32 (lenN ad)) as [Ha|Ha];
      [unfold siv_raw_enc in H; destruct (MaxInt32 - 12 - 16 <? lenN p); [discriminate|];
       destruct (N.ltb_spec MaxInt32 (lenN ad)); [discriminate|lia]|].
    rewrite siv_raw_enc_ok in H by assumption. inversion H. auto.
  Qed.

  (* canonical form of AESGCMSIV.Decrypt *)
  Definition siv_raw_dec_canon (key r ad : bytes) : outcome bytes :=
    if Nat.leb 28 (length r) && (lenN r <=? MaxInt32) && (lenN ad <=? MaxInt32) then
      let nonce := firstn 12 r in
      let tag := skipn (length r - 16) r in
      let ct := firstn (length r - 28) (skipn 12 r) in
      let pt := sctr (dk_enc key nonce) tag ct in
      if beq (tagf key nonce pt ad) tag then Ok pt else Err
    else Err.

  Lemma siv_raw_dec_is_canon key r ad : siv_raw_dec aes key r ad = siv_raw_dec_canon key r ad.
  Proof.
    unfold siv_raw_dec, siv_raw_dec_canon. cbn [Nat.add].
    destruct (Nat.ltb_spec (length r) 28); destruct (Nat.leb_spec 28 (length r)); try lia; [reflexivity|].
    destruct (N.ltb_spec MaxInt32 (lenN r)); destruct (N.leb_spec (lenN r) MaxInt32); try lia; [reflexivity|].
    destruct (N.ltb_spec MaxInt32 (lenN ad)); destruct (N.leb_spec (lenN ad) MaxInt32); try lia; [reflexivity|].
    cbn [andb].
    rewrite !slice_ok by lia. cbn [bind]. rewrite skipn_O, Nat.sub_0_r.
    rewrite (firstn_all2 (n := (length r - (length r - 16))%nat)) by (rewrite skipn_length; lia).
    replace (length r - 16 - 12)%nat with (length r - 28)%nat by lia.
    assert (Hn : length (firstn 12 r) = 12%nat) by (rewrite firstn_length; lia).
    assert (Ht : length (skipn (length r - 16) r) = 16%nat) by (rewrite skipn_length; lia).
    rewrite derive_keys_ok by exact Hn. cbn [bind fst snd].
    rewrite siv_ctr_ok by exact Ht. cbn [bind].
    set (pt := sctr _ _ _).
    pose proof (tag_steps key (firstn 12 r) pt ad Hn) as Hs.
    destruct (compute_polyval (dk_auth key (firstn 12 r)) pt ad) as [pv| |]; cbn [bind] in *; try discriminate.
    rewrite Hs. reflexivity.
  Qed.

  Lemma siv_raw_round_trip key nonce p ad r : length nonce = 12%nat ->
    siv_raw_enc aes key nonce p ad = Ok r -> siv_raw_dec_canon key r ad = Ok p.
  Proof.
    intros Hn H. apply siv_raw_enc_inv in H; [|exact Hn]. destruct H as [Hp [Ha ->]].
    set (tag := tagf key nonce p ad). set (ct := sctr (dk_enc key nonce) tag p).
    assert (Htl : length tag = 16%nat) by apply tagf_length.
    assert (Hcl : length ct = length p) by apply sctr_length.
    unfold siv_raw_dec_canon. unfold lenN in *. rewrite !app_length, Hn, Htl, Hcl.
    destruct (Nat.leb_spec 28 (12 + (length p + 16))); [|lia].
    destruct (N.leb_spec (N.of_nat (12 + (length p + 16))) MaxInt32); [|unfold MaxInt32 in *; lia].
    destruct (N.leb_spec (N.of_nat (length ad)) MaxInt32); [|lia]. cbn [andb].
    rewrite (firstn_app_len 12) by (symmetry; exact Hn).
    rewrite (skipn_app_len 12) by (symmetry; exact Hn).
    replace (12 + (length p + 16) - 28)%nat with (length ct) by lia. rewrite firstn_app_exact.
    replace (nonce ++ ct ++ tag) with ((nonce ++ ct) ++ tag) by (rewrite <- app_assoc; reflexivity).
    rewrite skipn_app_len by (rewrite app_length; lia).
    unfold ct at 1. rewrite sctr_involutive. fold tag. rewrite beq_refl.
    f_equal. unfold ct. apply sctr_involutive.
  Qed.

  Lemma siv_raw_accept key r ad p :
    siv_raw_dec_canon key r ad = Ok p -> exists nonce, length nonce = 12%nat /\ siv_raw_enc aes key nonce p ad = Ok r.
  Proof.
    unfold siv_raw_dec_canon.
    destruct (Nat.leb_spec 28 (length r)) as [Hl|]; [|discriminate].
    destruct (N.leb_spec (lenN r) MaxInt32) as [Hm|]; [|discriminate].
    destruct (N.leb_spec (lenN ad) MaxInt32) as [Ha|]; [|discriminate]. cbn [andb].
    set (nonce := firstn 12 r). set (tag := skipn (length r - 16) r).
    set (ct := firstn (length r - 28) (skipn 12 r)).
    destruct (beq _ tag) eqn:Eb; [|discriminate]. apply beq_eq in Eb.
    intros H; inversion H as [Hp]; clear H.
    assert (Hn : length nonce = 12%nat) by (unfold nonce; rewrite firstn_length; lia).
    exists nonce. split; [exact Hn|].
    rewrite siv_raw_enc_ok; [|exact Hn| |exact Ha].
    2:{ unfold lenN in *. rewrite sctr_length. unfold ct. rewrite firstn_length, skipn_length.
        unfold MaxInt32 in *. lia. }
    f_equal. rewrite Eb, sctr_involutive.
    transitivity (firstn 12 r ++ firstn (length r - 28) (skipn 12 r) ++ skipn (12 + (length r - 28)) r).
    2:{ symmetry. apply split3. lia. }
    unfold nonce, ct, tag. do 2 f_equal. f_equal. lia.
  Qed.

  (* ---- with the output prefix (aead/aesgcmsiv) ---- *)
  Lemma siv_dec_prefix prefix key r ad :
    siv_dec aes prefix key (prefix ++ r) ad = siv_raw_dec_canon key r ad.
  Proof.
    unfold siv_dec. assert (Hp : has_prefix (prefix ++ r) prefix = true) by (apply has_prefix_iff; eauto).
    rewrite Hp. cbn [negb]. rewrite slice_ok by (rewrite app_length; lia). cbn [bind].
    rewrite skipn_app_exact. rewrite firstn_all2 by (rewrite app_length; lia).
    apply siv_raw_dec_is_canon.
  Qed.

  Lemma siv_dec_noprefix prefix key c ad : has_prefix c prefix = false -> siv_dec aes prefix key c ad = Err.
  Proof. intros H. unfold siv_dec. rewrite H. reflexivity. Qed.

  Lemma siv_round_trip prefix key nonce p ad c : length nonce = 12%nat ->
    siv_enc aes prefix key nonce p ad = Ok c -> siv_dec aes prefix key c ad = Ok p.
  Proof.
    intros Hn. unfold siv_enc.
    destruct (siv_raw_enc aes key nonce p ad) as [r| |] eqn:E; cbn [bind]; try discriminate.
    intros H; inversion H; subst c. rewrite siv_dec_prefix. eapply siv_raw_round_trip; eauto.
  Qed.

  Lemma siv_accept_iff prefix key c ad p :
    siv_dec aes prefix key c ad = Ok p <->
    exists nonce, length nonce = 12%nat /\ siv_enc aes prefix key nonce p ad = Ok c.
  Proof.
    split.
    - destruct (has_prefix c prefix) eqn:Hp; [|rewrite siv_dec_noprefix by exact Hp; discriminate].
      apply has_prefix_iff in Hp. destruct Hp as [r ->]. rewrite siv_dec_prefix. intros H.
      apply siv_raw_accept in H. destruct H as [nonce [Hn He]]. exists nonce. split; [exact Hn|].
      unfold siv_enc. rewrite He. reflexivity.
    - intros [nonce [Hn H]]. eapply siv_round_trip; eauto.
  Qed.

  Lemma siv_too_short prefix key c ad : (length c < length prefix + 12 + 16)%nat -> siv_dec aes prefix key c ad = Err.
  Proof.
    intros H. destruct (has_prefix c prefix) eqn:Hp; [|apply siv_dec_noprefix; exact Hp].
    apply has_prefix_iff in Hp. destruct Hp as [r ->]. rewrite siv_dec_prefix.
    unfold siv_raw_dec_canon. rewrite app_length in H.
    destruct (Nat.leb_spec 28 (length r)); [lia|]. reflexivity.
  Qed.

  Lemma siv_dec_no_panic prefix key c ad : siv_dec aes prefix key c ad <> Panic.
  Proof.
    destruct (has_prefix c prefix) eqn:Hp; [|rewrite siv_dec_noprefix by exact Hp; discriminate].
    apply has_prefix_iff in Hp. destruct Hp as [r ->]. rewrite siv_dec_prefix.
    unfold siv_raw_dec_canon. destruct (_ && _ && _)%bool; [|discriminate].
    destruct (beq _ _); discriminate.
  Qed.

  Lemma siv_enc_no_panic prefix key nonce p ad : length nonce = 12%nat -> siv_enc aes prefix key nonce p ad <> Panic.
  Proof.
    intros Hn. unfold siv_enc, siv_raw_enc.
    destruct (MaxInt32 - 12 - 16 <? lenN p); [discriminate|].
    destruct (MaxInt32 <? lenN ad); [discriminate|].
    rewrite derive_keys_ok by exact Hn. cbn [bind fst snd].
    pose proof (tag_steps key nonce p ad Hn) as Ht.
    destruct (compute_polyval (dk_auth key nonce) p ad) as [pv| |]; cbn [bind] in *; try discriminate.
    rewrite Ht. cbn [bind]. rewrite siv_ctr_ok by apply tagf_length. discriminate.
  Qed.
End GcmSivProofs.
