(* Proofs about model/Rsa8017.v (RFC 8017 written from the RFC):

   * the RFC verifications have the shape "length check, then core"
     (Sig.std_pkcs1 / std_pss), so the fixed-length theorems apply to them;
   * EMSA-PSS-VERIFY accepts EXACTLY the EMSA-PSS encodings of mHash with a
     salt of exactly sLen octets (strict salt length);
   * RSASSA-PSS-VERIFY / RSASSA-PKCS1-V1_5-VERIFY accept what the RFC signers
     produce, under the round-trip law of the RSA permutation and the length /
     byte-range laws of the hash.  *)
From Coq Require Import List NArith ZArith Bool Lia Arith ZifyBool ZifyNat ZifyN.
From Tink Require Import Bytes DER DERProofs Sig SigProofs SigProofs2 Rsa8017.
Import ListNotations.
Open Scope N_scope.

(* ------------------------------------------------------------------ *)
(* I2OSP / OS2IP                                                        *)

Lemma some_inj {A} (a b : A) : Some a = Some b -> a = b.
Proof. congruence. Qed.

Lemma skipn_skipn' {A} (x y : nat) (l : list A) : skipn x (skipn y l) = skipn (x + y) l.
Proof.
  revert l. induction y as [|y IH]; intros l.
  - rewrite Nat.add_0_r. reflexivity.
  - destruct l as [|a l]; [rewrite !skipn_nil; reflexivity|].
    replace (x + S y)%nat with (S (x + y)) by lia. cbn [skipn]. apply IH.
Qed.

(* the bit-reading digit extraction is DER.be_min *)
Lemma pos_le_spec p : forall v i, (i <= 7)%nat -> v < 2 ^ N.of_nat i ->
  le_val (pos_le p v i) = v + 2 ^ N.of_nat i * Npos p /\ wfb (pos_le p v i) /\
  exists front y, pos_le p v i = front ++ [y] /\ y <> 0.
Proof.
  induction p as [q IH|q IH|]; intros v i Hi Hv; cbn [pos_le].
  - destruct (Nat.eqb i 7) eqn:E.
    + apply Nat.eqb_eq in E. subst i. change (2 ^ N.of_nat 7) with 128 in *.
      destruct (IH 0 0%nat ltac:(lia) ltac:(cbn; lia)) as [L [W [f [y [Ef Hy]]]]].
      cbn [le_val]. rewrite L. change (2 ^ N.of_nat 0) with 1.
      split; [lia|]. split; [apply wfb_cons; split; [lia|exact W]|].
      exists ((v + 128) :: f), y. rewrite Ef. auto.
    + apply Nat.eqb_neq in E.
      assert (P : 2 ^ N.of_nat (S i) = 2 * 2 ^ N.of_nat i).
      { rewrite Nat2N.inj_succ. apply N.pow_succ_r'. }
      destruct (IH (v + 2 ^ N.of_nat i) (S i) ltac:(lia) ltac:(lia)) as [L [W X]].
      rewrite L, P. split; [lia|]. split; [exact W|exact X].
  - destruct (Nat.eqb i 7) eqn:E.
    + apply Nat.eqb_eq in E. subst i. change (2 ^ N.of_nat 7) with 128 in *.
      destruct (IH 0 0%nat ltac:(lia) ltac:(cbn; lia)) as [L [W [f [y [Ef Hy]]]]].
      cbn [le_val]. rewrite L. change (2 ^ N.of_nat 0) with 1.
      split; [lia|]. split; [apply wfb_cons; split; [lia|exact W]|].
      exists (v :: f), y. rewrite Ef. auto.
    + apply Nat.eqb_neq in E.
      assert (P : 2 ^ N.of_nat (S i) = 2 * 2 ^ N.of_nat i).
      { rewrite Nat2N.inj_succ. apply N.pow_succ_r'. }
      destruct (IH v (S i) ltac:(lia) ltac:(lia)) as [L [W X]].
      rewrite L, P. split; [lia|]. split; [exact W|exact X].
  - cbn [le_val]. split; [lia|].
    assert (B : 2 ^ N.of_nat i <= 2 ^ 7) by (apply N.pow_le_mono_r; lia).
    change (2 ^ 7) with 128 in B.
    split; [apply wfb_cons; split; [lia|constructor]|].
    exists [], (v + 2 ^ N.of_nat i). split; [reflexivity|].
    assert (0 < 2 ^ N.of_nat i) by (apply N.neq_0_lt_0, N.pow_nonzero; lia). lia.
Qed.

Lemma be_min_fast_eq x : be_min_fast x = be_min x.
Proof.
  destruct x as [|p]; [reflexivity|]. cbn [be_min_fast].
  destruct (pos_le_spec p 0 0%nat ltac:(lia) ltac:(cbn; lia)) as [L [W [f [y [Ef Hy]]]]].
  change (2 ^ N.of_nat 0) with 1 in L.
  symmetry. replace (Npos p) with (be_val (rev (pos_le p 0 0))).
  - apply be_min_be_val.
    + apply wfb_rev. exact W.
    + rewrite Ef, rev_app_distr. cbn [rev app]. apply hd_nz_cons. exact Hy.
  - unfold be_val. rewrite rev_involutive, L. lia.
Qed.

Lemma i2osp_spec len x : i2osp len x = i2osp_ref len x.
Proof.
  unfold i2osp, i2osp_ref. destruct (x <? 256 ^ N.of_nat len) eqn:E; [|reflexivity].
  apply N.ltb_lt in E. f_equal. rewrite be_min_fast_eq.
  pose proof (be_min_length_bound x len E) as Hl.
  rewrite <- (be_val_be_min x) at 3.
  replace len with (length (be_min x) + (len - length (be_min x)))%nat at 2 by lia.
  rewrite be_bytes_be_val by apply be_min_wf. reflexivity.
Qed.

Lemma i2osp_os2ip b : wfb b -> i2osp (length b) (os2ip b) = Some b.
Proof.
  intros Hw. rewrite i2osp_spec. unfold i2osp_ref, os2ip. pose proof (be_val_bound b Hw) as Hb.
  apply N.ltb_lt in Hb. rewrite Hb. rewrite be_bytes_be_val0 by exact Hw. reflexivity.
Qed.

Lemma i2osp_some len x b : i2osp len x = Some b ->
  x < 256 ^ N.of_nat len /\ b = be_bytes len x /\ length b = len /\ wfb b /\ os2ip b = x.
Proof.
  rewrite i2osp_spec. unfold i2osp_ref. destruct (x <? 256 ^ N.of_nat len) eqn:E; [|discriminate].
  apply N.ltb_lt in E. intros H. injection H as <-.
  split; [exact E|]. split; [reflexivity|]. split; [apply be_bytes_length|].
  split; [apply be_bytes_wf|]. unfold os2ip. rewrite be_val_be_bytes. apply N.mod_small. exact E.
Qed.

Lemma i2osp_fits len x : x < 256 ^ N.of_nat len -> i2osp len x = Some (be_bytes len x).
Proof. intros H. rewrite i2osp_spec. unfold i2osp_ref. apply N.ltb_lt in H. rewrite H. reflexivity. Qed.

Lemma k_octets_eq n : k_octets n = rsa_sig_len n.
Proof. unfold k_octets. symmetry. apply rsa_sig_len_bits. Qed.

(* ------------------------------------------------------------------ *)
(* the RFC verifications are "length check, then core"                  *)

Lemma rfc_pkcs1_is_std rsaep n e h d sig :
  rfc_pkcs1_verify rsaep n e h d sig = std_pkcs1 (rfc_pkcs1_core rsaep) n e h d sig.
Proof.
  unfold rfc_pkcs1_verify, std_pkcs1, rfc_pkcs1_core. rewrite !k_octets_eq.
  destruct (Nat.eqb (length sig) (rsa_sig_len n)); reflexivity.
Qed.

Lemma rfc_pss_is_std Hash rsaep n e h sl d sig :
  rfc_pss_verify Hash rsaep n e h sl d sig = std_pss (rfc_pss_core Hash rsaep) n e h sl d sig.
Proof.
  unfold rfc_pss_verify, std_pss, rfc_pss_core. rewrite !k_octets_eq.
  destruct (Nat.eqb (length sig) (rsa_sig_len n)); reflexivity.
Qed.

(* ------------------------------------------------------------------ *)
(* bit masks on the leftmost octet                                      *)

Lemma mask_xor_cancel a m j : a < 2 ^ j ->
  (N.lxor ((N.lxor a m) mod 2 ^ j) m) mod 2 ^ j = a.
Proof.
  intros Ha. rewrite <- !N.land_ones.
  transitivity (N.land a (N.ones j)); [|rewrite N.land_ones; apply N.mod_small; exact Ha].
  apply N.bits_inj. intros i. rewrite !N.land_spec, !N.lxor_spec, !N.land_spec, !N.lxor_spec.
  destruct (N.testbit a i), (N.testbit m i), (N.testbit (N.ones j) i); reflexivity.
Qed.

Lemma clear_top_xor_cancel zb DB mask :
  length DB = length mask -> top_clear zb DB = true ->
  clear_top zb (xorb (clear_top zb (xorb DB mask)) mask) = DB.
Proof.
  destruct DB as [|a t]; destruct mask as [|m mt]; cbn [length]; intros Hl Ht; try discriminate.
  - reflexivity.
  - cbn [xorb clear_top top_clear] in *. apply N.ltb_lt in Ht.
    rewrite mask_xor_cancel by exact Ht. f_equal. apply xorb_cancel. lia.
Qed.

Lemma clear_top_top_clear zb b : (zb <= 8)%nat -> top_clear zb (clear_top zb b) = true.
Proof.
  intros Hz. destruct b as [|x t]; [reflexivity|]. cbn [clear_top top_clear].
  apply N.ltb_lt. apply N.mod_lt. apply N.pow_nonzero. lia.
Qed.

Lemma clear_top_length zb b : length (clear_top zb b) = length b.
Proof. destruct b; reflexivity. Qed.

Lemma all_zero_b_zeros n : all_zero_b (zeros n) = true.
Proof. induction n as [|n IH]; [reflexivity|]. cbn. exact IH. Qed.

Lemma all_zero_b_eq b : all_zero_b b = true -> b = zeros (length b).
Proof.
  induction b as [|x t IH]; [reflexivity|]. cbn [all_zero_b length]. intros H.
  apply andb_true_iff in H. destruct H as [Hx Ht]. apply N.eqb_eq in Hx. subst x.
  unfold zeros in *. cbn [repeat]. f_equal. apply IH. exact Ht.
Qed.

Lemma zeros_one_inj p : forall p' (s s' : bytes),
  zeros p ++ 1 :: s = zeros p' ++ 1 :: s' -> p = p' /\ s = s'.
Proof.
  induction p as [|p IH]; intros [|p'] s s' E; cbn [zeros repeat app] in E; try discriminate.
  - injection E as E. auto.
  - injection E as E. destruct (IH p' s s' E) as [-> ->]. auto.
Qed.

(* ------------------------------------------------------------------ *)
(* EMSA-PSS                                                             *)

Section Pss.
  Variable Hash : hasht -> bytes -> bytes.
  Hypothesis Hash_len : forall h m, length (Hash h m) = hlen h.

  Lemma hlen_pos h : (0 < hlen h)%nat.
  Proof. destruct h; cbn; lia. Qed.

  Lemma mgf1_blocks_length h seed cnt : forall c, length (mgf1_blocks Hash h seed cnt c) = (cnt * hlen h)%nat.
  Proof.
    induction cnt as [|cnt IH]; intros c; [reflexivity|].
    cbn [mgf1_blocks]. rewrite app_length, Hash_len, IH. lia.
  Qed.

  Lemma mgf1_length h seed L : length (mgf1 Hash h seed L) = L.
  Proof.
    unfold mgf1. rewrite firstn_length, mgf1_blocks_length.
    pose proof (hlen_pos h) as Hp.
    pose proof (Nat.div_mod (L + hlen h - 1) (hlen h) ltac:(lia)) as Hdm.
    pose proof (Nat.mod_upper_bound (L + hlen h - 1) (hlen h) ltac:(lia)) as Hm.
    assert (L <= (L + hlen h - 1) / hlen h * hlen h)%nat by nia. lia.
  Qed.

  Lemma zb_le7 emBits : (8 * ((emBits + 7) / 8) - emBits <= 7)%nat.
  Proof.
    pose proof (Nat.div_mod (emBits + 7) 8 ltac:(lia)). pose proof (Nat.mod_upper_bound (emBits + 7) 8 ltac:(lia)). lia.
  Qed.

  (* the shape of an encoding *)
  Lemma emsa_pss_encode_shape h mHash emBits salt EM :
    emsa_pss_encode Hash h mHash emBits salt = Some EM ->
    let emLen := ((emBits + 7) / 8)%nat in
    let dbLen := (emLen - hlen h - 1)%nat in
    length mHash = hlen h /\ (hlen h + length salt + 2 <= emLen)%nat /\
    length EM = emLen /\
    firstn dbLen EM = clear_top (8 * emLen - emBits)
                        (xorb (zeros (emLen - length salt - hlen h - 2) ++ 1 :: salt)
                              (mgf1 Hash h (Hash h (zeros 8 ++ mHash ++ salt)) dbLen)) /\
    firstn (hlen h) (skipn dbLen EM) = Hash h (zeros 8 ++ mHash ++ salt) /\
    skipn (emLen - 1) EM = [188].
  Proof.
    intros He emLen dbLen. unfold emsa_pss_encode in He. cbv zeta in He. fold emLen in He.
    destruct (Nat.eqb (length mHash) (hlen h)) eqn:E1; [|discriminate]. cbn [negb] in He.
    destruct (Nat.ltb emLen (hlen h + length salt + 2)) eqn:E2; [discriminate|].
    apply Nat.eqb_eq in E1. apply Nat.ltb_ge in E2. apply some_inj in He. subst EM.
    set (Hh := Hash h (zeros 8 ++ mHash ++ salt)).
    set (DB := zeros (emLen - length salt - hlen h - 2) ++ 1 :: salt).
    assert (LDB : length DB = dbLen).
    { unfold DB, dbLen. rewrite app_length, zeros_length. cbn [length]. lia. }
    set (mk := clear_top (8 * emLen - emBits) (xorb DB (mgf1 Hash h Hh (emLen - hlen h - 1)))).
    assert (Lmk : length mk = dbLen).
    { unfold mk. rewrite clear_top_length, xorb_length, mgf1_length, LDB. unfold dbLen. lia. }
    assert (LH : length Hh = hlen h) by apply Hash_len.
    split; [exact E1|]. split; [exact E2|].
    split; [rewrite !app_length, Lmk, LH; cbn [length]; unfold dbLen; lia|].
    split.
    { rewrite firstn_app, <- Lmk, Nat.sub_diag, firstn_all, firstn_O, app_nil_r. rewrite Lmk. reflexivity. }
    split.
    { rewrite skipn_app, <- Lmk, Nat.sub_diag, skipn_all, skipn_O. cbn [app].
      rewrite firstn_app, <- LH, Nat.sub_diag, firstn_all, firstn_O, app_nil_r. rewrite ?LH. reflexivity. }
    rewrite app_assoc.
    replace (emLen - 1)%nat with (length (mk ++ Hh)) by (rewrite app_length, Lmk, LH; unfold dbLen; lia).
    rewrite skipn_app, Nat.sub_diag, skipn_all, skipn_O. reflexivity.
  Qed.

  (* an encoding is accepted by EMSA-PSS-VERIFY with sLen = |salt| *)
  Theorem emsa_pss_verify_encode h mHash emBits salt EM :
    emsa_pss_encode Hash h mHash emBits salt = Some EM ->
    emsa_pss_verify Hash h mHash EM emBits (length salt) = true.
  Proof.
    intros He. destruct (emsa_pss_encode_shape h mHash emBits salt EM He) as [L1 [L2 [L3 [F1 [F2 F3]]]]].
    unfold emsa_pss_verify.
    set (emLen := ((emBits + 7) / 8)%nat) in *. set (dbLen := (emLen - hlen h - 1)%nat) in *.
    apply Nat.eqb_eq in L1. rewrite L1. apply Nat.eqb_eq in L3. rewrite L3. cbn [negb].
    replace (Nat.ltb emLen (hlen h + length salt + 2)) with false by (symmetry; apply Nat.ltb_ge; lia).
    rewrite F3. cbn [beq N.eqb Pos.eqb negb andb]. rewrite F1, F2.
    set (Hh := Hash h (zeros 8 ++ mHash ++ salt)).
    set (psLen := (emLen - hlen h - length salt - 2)%nat).
    replace (emLen - length salt - hlen h - 2)%nat with psLen by (unfold psLen; lia).
    set (DB := zeros psLen ++ 1 :: salt).
    assert (LDB : length DB = dbLen).
    { unfold DB, dbLen, psLen. rewrite app_length, zeros_length. cbn [length]. lia. }
    pose proof (zb_le7 emBits) as Hz. fold emLen in Hz.
    rewrite clear_top_top_clear by lia. cbn [negb].
    rewrite clear_top_xor_cancel.
    - unfold DB. rewrite firstn_app, zeros_length, Nat.sub_diag, firstn_O, app_nil_r.
      rewrite (firstn_all2 (n := psLen)) by (rewrite zeros_length; lia).
      rewrite all_zero_b_zeros. cbn [negb].
      rewrite app_nth2 by (rewrite zeros_length; lia). rewrite zeros_length, Nat.sub_diag. cbn [nth].
      cbn [N.eqb Pos.eqb negb].
      rewrite skipn_app, zeros_length.
      rewrite (skipn_all2 (n := (psLen + 1)%nat)) by (rewrite zeros_length; lia).
      replace (psLen + 1 - psLen)%nat with 1%nat by lia. cbn [skipn app]. apply beq_refl.
    - rewrite mgf1_length. exact LDB.
    - unfold DB. destruct psLen as [|p]; cbn [zeros repeat app top_clear]; apply N.ltb_lt.
      + assert (2 ^ 1 <= 2 ^ N.of_nat (8 - (8 * emLen - emBits))) by (apply N.pow_le_mono_r; lia).
        change (2 ^ 1) with 2 in H. lia.
      + apply N.neq_0_lt_0. apply N.pow_nonzero. lia.
  Qed.

  (* ... and conversely: whatever EMSA-PSS-VERIFY accepts IS the encoding of
     mHash with some salt of exactly sLen octets *)
  Theorem emsa_pss_verify_only_encodings h mHash EM emBits sLen :
    emsa_pss_verify Hash h mHash EM emBits sLen = true ->
    exists salt, length salt = sLen /\ emsa_pss_encode Hash h mHash emBits salt = Some EM.
  Proof.
    unfold emsa_pss_verify.
    set (emLen := ((emBits + 7) / 8)%nat). set (dbLen := (emLen - hlen h - 1)%nat).
    destruct (Nat.eqb (length mHash) (hlen h)) eqn:E1; [|discriminate]. cbn [negb].
    destruct (Nat.eqb (length EM) emLen) eqn:E2; [|discriminate]. cbn [negb].
    destruct (Nat.ltb emLen (hlen h + sLen + 2)) eqn:E3; [discriminate|].
    destruct (beq (skipn (emLen - 1) EM) [188]) eqn:E4; [|discriminate]. cbn [negb].
    set (mk := firstn dbLen EM). set (Hh := firstn (hlen h) (skipn dbLen EM)).
    set (zb := (8 * emLen - emBits)%nat).
    destruct (top_clear zb mk) eqn:E5; [|discriminate]. cbn [negb].
    set (DB := clear_top zb (xorb mk (mgf1 Hash h Hh dbLen))).
    set (psLen := (emLen - hlen h - sLen - 2)%nat).
    destruct (all_zero_b (firstn psLen DB)) eqn:E6; [|discriminate]. cbn [negb].
    destruct (nth psLen DB 0 =? 1) eqn:E7; [|discriminate]. cbn [negb].
    intros E8.
    apply Nat.eqb_eq in E1, E2. apply Nat.ltb_ge in E3. apply beq_eq in E4, E8. apply N.eqb_eq in E7.
    assert (Lmk : length mk = dbLen) by (unfold mk, dbLen; rewrite firstn_length; lia).
    assert (LH : length Hh = hlen h).
    { unfold Hh. rewrite firstn_length, skipn_length. unfold dbLen. lia. }
    assert (LDB : length DB = dbLen).
    { unfold DB. rewrite clear_top_length, xorb_length, mgf1_length. lia. }
    set (salt := skipn (psLen + 1) DB) in *.
    assert (Ls : length salt = sLen).
    { unfold salt. rewrite skipn_length, LDB. unfold dbLen, psLen. lia. }
    (* DB = PS || 01 || salt *)
    assert (EDB : DB = zeros psLen ++ 1 :: salt).
    { rewrite <- (firstn_skipn psLen DB) at 1.
      apply all_zero_b_eq in E6. rewrite firstn_length in E6.
      replace (Nat.min psLen (length DB)) with psLen in E6 by (rewrite LDB; unfold dbLen, psLen; lia).
      rewrite E6. f_equal.
      assert (Lk : (psLen < length DB)%nat) by (rewrite LDB; unfold dbLen, psLen; lia).
      rewrite <- (firstn_skipn 1 (skipn psLen DB)).
      rewrite skipn_skipn'. replace (1 + psLen)%nat with (psLen + 1)%nat by lia. fold salt.
      destruct (skipn psLen DB) as [|y r] eqn:Es.
      { apply (f_equal (@length N)) in Es. rewrite skipn_length in Es. cbn [length] in Es. lia. }
      cbn [firstn app]. f_equal.
      rewrite <- (firstn_skipn psLen DB) in E7. rewrite app_nth2 in E7 by (rewrite firstn_length; lia).
      rewrite firstn_length in E7. replace (psLen - Nat.min psLen (length DB))%nat with 0%nat in E7 by lia.
      rewrite Es in E7. cbn [nth] in E7. exact E7. }
    exists salt. split; [exact Ls|].
    unfold emsa_pss_encode. fold emLen. rewrite E1, Nat.eqb_refl. cbn [negb]. rewrite Ls.
    replace (Nat.ltb emLen (hlen h + sLen + 2)) with false by (symmetry; apply Nat.ltb_ge; lia).
    rewrite <- E8. replace (emLen - sLen - hlen h - 2)%nat with psLen by (unfold psLen; lia).
    rewrite <- EDB. fold dbLen. fold zb. unfold DB.
    rewrite clear_top_xor_cancel; [|rewrite mgf1_length; exact Lmk|exact E5].
    f_equal. unfold mk, Hh. rewrite <- E4.
    replace (emLen - 1)%nat with (hlen h + dbLen)%nat by (unfold dbLen; lia).
    rewrite <- skipn_skipn'. rewrite (firstn_skipn (hlen h) (skipn dbLen EM)). apply firstn_skipn.
  Qed.

  Theorem emsa_pss_verify_iff h mHash EM emBits sLen :
    emsa_pss_verify Hash h mHash EM emBits sLen = true <->
    exists salt, length salt = sLen /\ emsa_pss_encode Hash h mHash emBits salt = Some EM.
  Proof.
    split; [apply emsa_pss_verify_only_encodings|].
    intros [salt [<- He]]. apply emsa_pss_verify_encode. exact He.
  Qed.

  (* other salt lengths are rejected: an encoding with a salt of another
     length is never accepted *)
  Corollary emsa_pss_salt_length_is_bound h mHash emBits salt salt' EM :
    emsa_pss_encode Hash h mHash emBits salt = Some EM ->
    emsa_pss_encode Hash h mHash emBits salt' = Some EM -> salt' = salt.
  Proof.
    intros E1 E2.
    destruct (emsa_pss_encode_shape h mHash emBits salt EM E1) as [_ [A2 [A3 [A4 [A5 _]]]]].
    destruct (emsa_pss_encode_shape h mHash emBits salt' EM E2) as [_ [B2 [B3 [B4 [B5 _]]]]].
    set (emLen := ((emBits + 7) / 8)%nat) in *. set (dbLen := (emLen - hlen h - 1)%nat) in *.
    rewrite A5 in B5. rewrite <- B5 in B4. rewrite A4 in B4.
    set (mask := mgf1 Hash h (Hash h (zeros 8 ++ mHash ++ salt)) dbLen) in *.
    set (zb := (8 * emLen - emBits)%nat) in *.
    pose proof (zb_le7 emBits) as Hz. fold emLen in Hz.
    assert (TC : forall s : bytes, (hlen h + length s + 2 <= emLen)%nat ->
                 top_clear zb (zeros (emLen - length s - hlen h - 2) ++ 1 :: s) = true).
    { intros s Hs. destruct (emLen - length s - hlen h - 2)%nat as [|p]; cbn [zeros repeat app top_clear]; apply N.ltb_lt.
      - assert (2 ^ 1 <= 2 ^ N.of_nat (8 - zb)) by (apply N.pow_le_mono_r; lia).
        change (2 ^ 1) with 2 in H. lia.
      - apply N.neq_0_lt_0. apply N.pow_nonzero. lia. }
    assert (LD : forall s : bytes, (hlen h + length s + 2 <= emLen)%nat ->
                 length (zeros (emLen - length s - hlen h - 2) ++ 1 :: s) = length mask).
    { intros s Hs. unfold mask. rewrite mgf1_length, app_length, zeros_length. cbn [length]. unfold dbLen. lia. }
    apply (f_equal (fun x => clear_top zb (xorb x mask))) in B4.
    rewrite !clear_top_xor_cancel in B4 by auto.
    apply zeros_one_inj in B4. destruct B4 as [_ B4]. symmetry. exact B4.
  Qed.
  (* ---- SaltLength 0 = auto-detection, as crypto/rsa codes it ---- *)
  Lemma index01_zeros_one p (t : bytes) : index01 (zeros p ++ 1 :: t) = Some p.
  Proof.
    induction p as [|p IH]; cbn [zeros repeat app index01]; [reflexivity|].
    change (repeat 0 p) with (zeros p). rewrite IH. reflexivity.
  Qed.

  (* the DB that EMSA-PSS-VERIFY recomputes from an encoding is PS || 01 || salt *)
  Lemma encode_db_recovered h mHash emBits salt EM :
    emsa_pss_encode Hash h mHash emBits salt = Some EM ->
    let emLen := ((emBits + 7) / 8)%nat in
    let dbLen := (emLen - hlen h - 1)%nat in
    clear_top (8 * emLen - emBits)
      (xorb (firstn dbLen EM) (mgf1 Hash h (firstn (hlen h) (skipn dbLen EM)) dbLen))
    = zeros (emLen - length salt - hlen h - 2) ++ 1 :: salt.
  Proof.
    intros He emLen dbLen.
    destruct (emsa_pss_encode_shape h mHash emBits salt EM He) as [L1 [L2 [L3 [F1 [F2 F3]]]]].
    fold emLen in L2, L3, F1, F2, F3. fold dbLen in F1, F2.
    rewrite F1, F2.
    pose proof (zb_le7 emBits) as Hz. fold emLen in Hz.
    apply clear_top_xor_cancel.
    - rewrite mgf1_length, app_length, zeros_length. cbn [length]. unfold dbLen. lia.
    - destruct (emLen - length salt - hlen h - 2)%nat as [|p]; cbn [zeros repeat app top_clear]; apply N.ltb_lt.
      + assert (2 ^ 1 <= 2 ^ N.of_nat (8 - (8 * emLen - emBits))) by (apply N.pow_le_mono_r; lia).
        change (2 ^ 1) with 2 in H. lia.
      + apply N.neq_0_lt_0. apply N.pow_nonzero. lia.
  Qed.

  Theorem emsa_pss_verify_auto_iff h mHash EM emBits :
    emsa_pss_verify_auto Hash h mHash EM emBits = true <->
    exists sLen, emsa_pss_verify Hash h mHash EM emBits sLen = true.
  Proof.
    unfold emsa_pss_verify_auto. split.
    - destruct (index01 _) as [ps|]; [|discriminate]. intros Hv. eexists. exact Hv.
    - intros [sLen Hv].
      destruct (emsa_pss_verify_only_encodings h mHash EM emBits sLen Hv) as [salt [Ls He]].
      rewrite (encode_db_recovered h mHash emBits salt EM He), index01_zeros_one.
      destruct (emsa_pss_encode_shape h mHash emBits salt EM He) as [_ [L2 _]].
      replace ((emBits + 7) / 8 - hlen h - 1 - ((emBits + 7) / 8 - length salt - hlen h - 2) - 1)%nat
        with sLen by lia.
      exact Hv.
  Qed.
End Pss.

(* ------------------------------------------------------------------ *)
(* RSASSA: sign then verify                                             *)

Lemma pow2_pow256 k : 2 ^ (8 * k) = 256 ^ k.
Proof. symmetry. apply pow256_2. Qed.

Section Rsassa.
  Variable Hash : hasht -> bytes -> bytes.
  Variable rsaep : bytes -> N -> N -> N.
  Variable rsadp : bytes -> N -> N.
  Hypothesis Hash_len : forall h m, length (Hash h m) = hlen h.
  Hypothesis Hash_wf : forall h m, wfb (Hash h m).

  Variable n : bytes.
  Variable e : N.
  Variable sk : bytes.
  (* the RSA permutation and its inverse on [0, n) *)
  Hypothesis rsa_perm : forall m, m < be_val n -> rsadp sk m < be_val n /\ rsaep n e (rsadp sk m) = m.

  Lemma n_lt_pow_k : be_val n < 256 ^ N.of_nat (rsa_sig_len n).
  Proof.
    destruct (Nat.eq_dec (rsa_sig_len n) 0) as [Hz|Hnz].
    - rewrite Hz. apply rsa_sig_len_zero in Hz. rewrite Hz. cbn. lia.
    - apply (rsa_sig_len_spec n (rsa_sig_len n)); [lia|reflexivity].
  Qed.

  Lemma sign_verify_generic EM emLen :
    wfb EM -> length EM = emLen -> os2ip EM < be_val n ->
    exists sig, i2osp (rsa_sig_len n) (rsadp sk (os2ip EM)) = Some sig /\
                length sig = rsa_sig_len n /\
                rsavp1 rsaep n e (os2ip sig) = Some (os2ip EM) /\
                i2osp emLen (os2ip EM) = Some EM.
  Proof.
    intros Hw Hl Hlt. destruct (rsa_perm _ Hlt) as [P1 P2].
    pose proof n_lt_pow_k as Hk.
    assert (Hs : rsadp sk (os2ip EM) < 256 ^ N.of_nat (rsa_sig_len n)) by lia.
    exists (be_bytes (rsa_sig_len n) (rsadp sk (os2ip EM))).
    split; [apply i2osp_fits; exact Hs|]. split; [apply be_bytes_length|].
    split.
    - assert (Eo : os2ip (be_bytes (rsa_sig_len n) (rsadp sk (os2ip EM))) = rsadp sk (os2ip EM)).
      { unfold os2ip at 1. rewrite be_val_be_bytes. apply N.mod_small. exact Hs. }
      unfold rsavp1. rewrite Eo. apply N.ltb_lt in P1. rewrite P1, P2. reflexivity.
    - rewrite <- Hl. apply i2osp_os2ip. exact Hw.
  Qed.

  (* ---- PKCS1 v1.5 ---- *)
  Lemma digest_info_wf h : wfb (digest_info h).
  Proof. destruct h; unfold digest_info, wfb; repeat constructor. Qed.

  Lemma repeat_wf x k : x < 256 -> wfb (repeat x k).
  Proof. intros Hx. induction k as [|k IH]; [constructor|]. cbn. constructor; assumption. Qed.

  Theorem rfc_pkcs1_sign_then_verify h digest :
    wfb digest -> length digest = hlen h -> (length (digest_info h) + hlen h + 11 <= rsa_sig_len n)%nat ->
    exists sig, rfc_pkcs1_sign rsadp n sk h digest = Some sig /\
                rfc_pkcs1_verify rsaep n e h digest sig = true.
  Proof.
    intros Hwd Hld Hk. unfold rfc_pkcs1_sign, rfc_pkcs1_verify. rewrite !k_octets_eq.
    set (k := rsa_sig_len n) in *.
    unfold emsa_pkcs1_encode. rewrite Hld, Nat.eqb_refl. cbn [negb].
    set (T := digest_info h ++ digest).
    assert (LT : length T = (length (digest_info h) + hlen h)%nat) by (unfold T; rewrite app_length; lia).
    replace (Nat.ltb k (length T + 11)) with false by (symmetry; apply Nat.ltb_ge; lia).
    set (EM := 0 :: 1 :: repeat 255 (k - length T - 3) ++ 0 :: T).
    assert (LEM : length EM = k).
    { unfold EM. cbn [length]. rewrite app_length, repeat_length. cbn [length]. lia. }
    assert (WEM : wfb EM).
    { unfold EM. apply wfb_cons. split; [lia|]. apply wfb_cons. split; [lia|].
      apply wfb_app. split; [apply repeat_wf; lia|]. apply wfb_cons. split; [lia|].
      unfold T. apply wfb_app. split; [apply digest_info_wf|exact Hwd]. }
    assert (Hlt : os2ip EM < be_val n).
    { unfold os2ip, EM. rewrite be_val_cons, N.mul_0_l, N.add_0_l.
      set (t := 1 :: repeat 255 (k - length T - 3) ++ 0 :: T).
      assert (Wt : wfb t) by (unfold EM in WEM; apply wfb_cons in WEM; tauto).
      pose proof (be_val_bound t Wt) as Hb.
      assert (Lt : length t = (k - 1)%nat) by (change EM with (0 :: t) in LEM; cbn [length] in LEM; lia).
      rewrite Lt in Hb.
      pose proof (proj1 (rsa_sig_len_spec n k ltac:(lia)) eq_refl) as [Hlo _]. lia. }
    destruct (sign_verify_generic EM k WEM LEM Hlt) as [sig [S1 [S2 [S3 S4]]]].
    exists sig. split; [exact S1|]. rewrite S2, Nat.eqb_refl. cbn [negb]. rewrite S3, S4.
    apply beq_refl.
  Qed.

  (* ---- PSS ---- *)
  Lemma mgf1_wf h seed L : wfb (mgf1 Hash h seed L).
  Proof.
    unfold mgf1. apply wfb_firstn.
    generalize (0 : N). induction ((L + hlen h - 1) / hlen h)%nat as [|c IH]; intros c0; [constructor|].
    cbn [mgf1_blocks]. apply wfb_app. split; [apply Hash_wf|apply IH].
  Qed.

  Lemma clear_top_wf zb b : wfb b -> wfb (clear_top zb b).
  Proof.
    destruct b as [|x t]; [auto|]. intros H. apply wfb_cons in H. destruct H as [Hx Ht].
    cbn [clear_top]. apply wfb_cons. split; [|exact Ht].
    destruct (N.eq_dec (2 ^ N.of_nat (8 - zb)) 0) as [E|E]; [exfalso; revert E; apply N.pow_nonzero; lia|].
    pose proof (N.mod_le x (2 ^ N.of_nat (8 - zb)) E). lia.
  Qed.

  Lemma top_clear_bound zb b : wfb b -> (zb <= 8)%nat -> (0 < length b)%nat -> top_clear zb b = true ->
    be_val b < 2 ^ (8 * N.of_nat (length b) - N.of_nat zb).
  Proof.
    destruct b as [|x t]; [cbn; lia|]. intros Hw Hz _ Ht. cbn [top_clear] in Ht. apply N.ltb_lt in Ht.
    apply wfb_cons in Hw. destruct Hw as [_ Hwt]. pose proof (be_val_bound t Hwt) as Hb.
    rewrite be_val_cons. cbn [length].
    replace (8 * N.of_nat (S (length t)) - N.of_nat zb) with (N.of_nat (8 - zb) + 8 * N.of_nat (length t)) by lia.
    rewrite N.pow_add_r, pow2_pow256. nia.
  Qed.

  Theorem rfc_pss_sign_then_verify h digest salt :
    wfb digest -> wfb salt -> length digest = hlen h ->
    (1 <= mod_bits n)%nat -> (hlen h + length salt + 2 <= (mod_bits n - 1 + 7) / 8)%nat ->
    exists sig, rfc_pss_sign Hash rsadp n sk h digest salt = Some sig /\
                rfc_pss_verify Hash rsaep n e h (N.of_nat (length salt)) digest sig = true.
  Proof.
    intros Hwd Hws Hld Hmb Hsz. unfold rfc_pss_sign, rfc_pss_verify. rewrite !k_octets_eq.
    set (emBits := (mod_bits n - 1)%nat) in *. set (emLen := ((emBits + 7) / 8)%nat) in *.
    destruct (emsa_pss_encode Hash h digest emBits salt) as [EM|] eqn:He.
    2:{ exfalso. unfold emsa_pss_encode in He. fold emLen in He. rewrite Hld, Nat.eqb_refl in He. cbn [negb] in He.
        replace (Nat.ltb emLen (hlen h + length salt + 2)) with false in He by (symmetry; apply Nat.ltb_ge; lia).
        discriminate. }
    pose proof (emsa_pss_verify_encode Hash Hash_len h digest emBits salt EM He) as Hv.
    destruct (emsa_pss_encode_shape Hash Hash_len h digest emBits salt EM He) as [_ [_ [LEM [F1 _]]]].
    fold emLen in LEM, F1.
    (* EM is made of bytes, its leftmost bits are clear *)
    assert (WEM : wfb EM).
    { unfold emsa_pss_encode in He. fold emLen in He. rewrite Hld, Nat.eqb_refl in He. cbn [negb] in He.
      destruct (Nat.ltb emLen (hlen h + length salt + 2)); [discriminate|]. apply some_inj in He. subst EM.
      apply wfb_app. split.
      - apply clear_top_wf. apply xorb_wf; [|apply mgf1_wf].
        apply wfb_app. split; [apply zeros_wf|]. apply wfb_cons. split; [lia|exact Hws].
      - apply wfb_app. split; [apply Hash_wf|]. apply wfb_cons. split; [lia|constructor]. }
    pose proof (zb_le7 emBits) as Hz. fold emLen in Hz.
    assert (TC : top_clear (8 * emLen - emBits) EM = true).
    { assert (Hd : (0 < emLen - hlen h - 1)%nat) by lia.
      destruct EM as [|x t]; [reflexivity|]. cbn [top_clear].
      destruct (emLen - hlen h - 1)%nat as [|d] eqn:Ed; [lia|]. cbn [firstn] in F1.
      pose proof (clear_top_top_clear (8 * emLen - emBits)
        (xorb (zeros (emLen - length salt - hlen h - 2) ++ 1 :: salt)
              (mgf1 Hash h (Hash h (zeros 8 ++ digest ++ salt)) (S d))) ltac:(lia)) as Q.
      rewrite <- F1 in Q. exact Q. }
    assert (Hlt : os2ip EM < be_val n).
    { pose proof (top_clear_bound (8 * emLen - emBits) EM WEM ltac:(lia) ltac:(lia) TC) as Hb. rewrite LEM in Hb.
      replace (8 * N.of_nat emLen - N.of_nat (8 * emLen - emBits)) with (N.of_nat emBits) in Hb by lia.
      unfold os2ip. eapply N.lt_le_trans; [exact Hb|].
      unfold emBits, mod_bits.
      pose proof (N.size_le (be_val n)) as Hs. rewrite N.succ_double_spec in Hs.
      set (sz := N.size (be_val n)) in *. unfold mod_bits in Hmb. fold sz in Hmb.
      replace (N.of_nat (N.to_nat sz - 1)) with (sz - 1) by lia.
      assert (Hp : 2 ^ sz = 2 * 2 ^ (sz - 1)).
      { replace sz with (N.succ (sz - 1)) at 1 by lia. apply N.pow_succ_r'. }
      lia. }
    destruct (sign_verify_generic EM emLen WEM LEM Hlt) as [sig [S1 [S2 [S3 S4]]]].
    exists sig. split; [exact S1|]. rewrite S2, Nat.eqb_refl. cbn [negb]. rewrite S3, S4.
    rewrite Nat2N.id. exact Hv.
  Qed.
End Rsassa.

(* ------------------------------------------------------------------ *)
(* crypto/rsa's SaltLength handling                                     *)

Section GoOptions.
  Variable Hash : hasht -> bytes -> bytes.
  Variable rsaep : bytes -> N -> N -> N.
  Hypothesis Hash_len : forall h m, length (Hash h m) = hlen h.

  (* a positive SaltLength is the strict RFC verification with that sLen *)
  Lemma go_pss_verify_positive n e h sl d sig :
    sl <> 0 -> go_pss_verify Hash rsaep n e h sl d sig = rfc_pss_verify Hash rsaep n e h sl d sig.
  Proof. intros Hs. unfold go_pss_verify. apply N.eqb_neq in Hs. rewrite Hs. reflexivity. Qed.

  (* SaltLength 0: accepted iff the RFC verification accepts for SOME salt length *)
  Theorem go_pss_verify_zero_iff n e h d sig :
    go_pss_verify Hash rsaep n e h 0 d sig = true <->
    exists sl : N, rfc_pss_verify Hash rsaep n e h sl d sig = true.
  Proof.
    unfold go_pss_verify, rfc_pss_verify. cbn [N.eqb].
    destruct (negb (Nat.eqb (length sig) (k_octets n))).
    { split; [discriminate|]. intros [sl H]. discriminate. }
    destruct (rsavp1 rsaep n e (os2ip sig)) as [m|].
    2:{ split; [discriminate|]. intros [sl H]. discriminate. }
    destruct (i2osp ((mod_bits n - 1 + 7) / 8) m) as [EM|].
    2:{ split; [discriminate|]. intros [sl H]. discriminate. }
    rewrite (emsa_pss_verify_auto_iff Hash Hash_len). split.
    - intros [sLen Hv]. exists (N.of_nat sLen). rewrite Nat2N.id. exact Hv.
    - intros [sl Hv]. exists (N.to_nat sl). exact Hv.
  Qed.

  (* in both cases the signature has the length of the modulus *)
  Lemma go_pss_verify_length n e h sl d sig :
    go_pss_verify Hash rsaep n e h sl d sig = true -> length sig = rsa_sig_len n.
  Proof.
    intros Hv. assert (Hr : exists sl', rfc_pss_verify Hash rsaep n e h sl' d sig = true).
    { destruct (N.eq_dec sl 0) as [->|Hn].
      - apply go_pss_verify_zero_iff. exact Hv.
      - exists sl. rewrite <- go_pss_verify_positive by exact Hn. exact Hv. }
    destruct Hr as [sl' Hr]. rewrite rfc_pss_is_std in Hr. unfold std_pss in Hr.
    apply andb_true_iff in Hr. destruct Hr as [Hl _]. apply Nat.eqb_eq. exact Hl.
  Qed.

  Lemma go_pss_is_std n e h sl d sig :
    go_pss_verify Hash rsaep n e h sl d sig = std_pss (go_pss_verify Hash rsaep) n e h sl d sig.
  Proof.
    unfold std_pss. destruct (go_pss_verify Hash rsaep n e h sl d sig) eqn:E.
    - apply go_pss_verify_length in E. apply Nat.eqb_eq in E. rewrite E. reflexivity.
    - rewrite andb_false_r. reflexivity.
  Qed.
End GoOptions.
