(* C01 — the executable model of Tink's AES-GCM-SIV encryption (GcmSiv.siv_enc, written
   after internal/aead/aesgcmsiv.go) computes exactly the RFC 8452 specification of
   model/GcmSivSpec.v (rfc8452_encrypt), for every key, 12-byte nonce, plaintext and
   associated data within the limits the code enforces.  AES is a Section variable; the
   only laws used are |AES(k,b)| = 16 and "AES returns bytes". *)
From Coq Require Import List NArith ZArith Bool Arith Lia ZifyN ZifyNat ZifyBool.
From Tink Require Import Bytes AeadFrame AeadFrameProofs Ctr CtrProofs EtMProofs Polyval PolyvalProofs
  PolyvalBytesProofs GcmSiv GcmSivProofs GcmSivSpec EnvelopeProofs.
Import ListNotations.
Open Scope N_scope.

(* ---------- fuel irrelevance of the two fuelled block splitters ---------- *)
Lemma chunks_fuel_irrel f1 : forall f2 b, (length b <= f1)%nat -> (length b <= f2)%nat ->
  chunks_fuel f1 16 b = chunks_fuel f2 16 b.
Proof.
  induction f1 as [|f1 IH]; intros f2 b H1 H2.
  - destruct b as [|x b]; [|cbn [length] in H1; lia]. destruct f2; reflexivity.
  - destruct b as [|x b]; [destruct f2; reflexivity|].
    destruct f2 as [|f2]; [cbn [length] in H2; lia|].
    cbn [chunks_fuel]. f_equal. cbn [length] in H1, H2.
    apply IH; rewrite skipn_length; cbn [length]; lia.
Qed.

Lemma blocks_fuel_irrel f1 : forall f2 d, (length d <= f1)%nat -> (length d <= f2)%nat ->
  blocks_fuel f1 d = blocks_fuel f2 d.
Proof.
  induction f1 as [|f1 IH]; intros f2 d H1 H2.
  - destruct d as [|x d]; [|cbn [length] in H1; lia]. destruct f2; reflexivity.
  - destruct f2 as [|f2].
    + destruct d as [|x d]; [reflexivity|cbn [length] in H2; lia].
    + cbn [blocks_fuel]. destruct (Nat.leb_spec 16 (length d)) as [Hd|Hd]; [|reflexivity].
      f_equal. apply IH; rewrite skipn_length; lia.
Qed.

Lemma chunks_cons b rest : length b = 16%nat -> chunks 16 (b ++ rest) = b :: chunks 16 rest.
Proof.
  intros Hl. unfold chunks. rewrite app_length, Hl.
  change (16 + length rest)%nat with (S (15 + length rest)). cbn [chunks_fuel].
  destruct b as [|x b]; [discriminate|]. cbn [app].
  change (x :: b ++ rest) with ((x :: b) ++ rest).
  rewrite (firstn_app_len 16) by (symmetry; exact Hl).
  rewrite (skipn_app_len 16) by (symmetry; exact Hl).
  f_equal. apply chunks_fuel_irrel; lia.
Qed.

Lemma blocks_of_nil : blocks_of [] = [].
Proof. reflexivity. Qed.

Lemma blocks_of_short d : (0 < length d < 16)%nat -> blocks_of d = [d ++ zeros (16 - length d)].
Proof.
  intros H. unfold blocks_of. cbn [blocks_fuel].
  destruct (Nat.leb_spec 16 (length d)); [lia|]. destruct (Nat.ltb_spec 0 (length d)); [reflexivity|lia].
Qed.

Lemma blocks_of_long d : (16 <= length d)%nat -> blocks_of d = firstn 16 d :: blocks_of (skipn 16 d).
Proof.
  intros H. unfold blocks_of at 1. cbn [blocks_fuel].
  destruct (Nat.leb_spec 16 (length d)); [|lia]. f_equal. unfold blocks_of.
  apply blocks_fuel_irrel; rewrite skipn_length; lia.
Qed.

Lemma pad16_nil : pad16 [] = [].
Proof. reflexivity. Qed.

Lemma pad16_short d : (0 < length d < 16)%nat -> pad16 d = d ++ zeros (16 - length d).
Proof.
  intros H. unfold pad16. rewrite (Nat.mod_small (length d) 16) by lia.
  rewrite Nat.mod_small by lia. reflexivity.
Qed.

Lemma pad16_long d : (16 <= length d)%nat -> pad16 d = firstn 16 d ++ pad16 (skipn 16 d).
Proof.
  intros H. unfold pad16. rewrite skipn_length.
  replace ((length d - 16) mod 16)%nat with (length d mod 16)%nat.
  2:{ replace (length d) with ((length d - 16) + 1 * 16)%nat at 1 by lia. apply Nat.mod_add. lia. }
  rewrite app_assoc, firstn_skipn. reflexivity.
Qed.

(* the 16-byte blocks of right_pad_16(d) ++ rest are the zero-padded blocks of d (what
   polyval.Update(d) consumes) followed by the blocks of rest *)
Lemma chunks16_pad_app d rest : chunks 16 (pad16 d ++ rest) = blocks_of d ++ chunks 16 rest.
Proof.
  remember (length d) as n eqn:En. assert (Hn : (length d <= n)%nat) by lia. clear En.
  revert d Hn. induction n as [|n IH]; intros d Hn.
  - destruct d as [|x d]; [|cbn [length] in Hn; lia]. reflexivity.
  - destruct (Nat.eq_dec (length d) 0) as [E0|E0].
    { destruct d as [|x d]; [reflexivity|discriminate]. }
    destruct (Nat.le_gt_cases 16 (length d)) as [Hd|Hd].
    + rewrite pad16_long, blocks_of_long by exact Hd. rewrite <- app_assoc.
      rewrite chunks_cons by (rewrite firstn_length; lia).
      cbn [app]. f_equal. apply IH. rewrite skipn_length. lia.
    + rewrite pad16_short, blocks_of_short by lia.
      rewrite chunks_cons by (rewrite app_length, zeros_length; lia). reflexivity.
Qed.

Lemma chunks16_single lb : length lb = 16%nat -> chunks 16 lb = [lb].
Proof.
  intros H. rewrite <- (app_nil_r lb) at 1. rewrite chunks_cons by exact H. reflexivity.
Qed.

Lemma blocks_of_single lb : length lb = 16%nat -> blocks_of lb = [lb].
Proof.
  intros H. rewrite blocks_of_long by lia. rewrite firstn_all2 by lia.
  rewrite skipn_all2 by lia. reflexivity.
Qed.

Lemma chunks16_pieces ad pt lb : length lb = 16%nat ->
  chunks 16 (pad16 ad ++ pad16 pt ++ lb) = flat_map blocks_of [ad; pt; lb].
Proof.
  intros H. rewrite !chunks16_pad_app. cbn [flat_map]. rewrite app_nil_r.
  rewrite (chunks16_single lb), (blocks_of_single lb) by exact H. reflexivity.
Qed.

(* ---------- splitting a number at bit k: x + 2^k * A with x < 2^k ---------- *)
Lemma split_mod k x A : x < 2 ^ k -> (x + 2 ^ k * A) mod 2 ^ k = x.
Proof.
  intros H. rewrite (N.mul_comm (2 ^ k)), N.mod_add by (apply N.pow_nonzero; discriminate).
  apply N.mod_small; exact H.
Qed.

Lemma split_div k x A : x < 2 ^ k -> (x + 2 ^ k * A) / 2 ^ k = A.
Proof.
  intros H. rewrite (N.mul_comm (2 ^ k)), N.div_add by (apply N.pow_nonzero; discriminate).
  rewrite N.div_small by exact H. reflexivity.
Qed.

Lemma lxor_split k x y A B : x < 2 ^ k -> y < 2 ^ k ->
  N.lxor (x + 2 ^ k * A) (y + 2 ^ k * B) = N.lxor x y + 2 ^ k * N.lxor A B.
Proof.
  intros Hx Hy.
  pose proof (N.div_mod' (N.lxor (x + 2 ^ k * A) (y + 2 ^ k * B)) (2 ^ k)) as HL.
  rewrite HL. clear HL. rewrite N.add_comm. f_equal.
  - rewrite <- N.land_ones, land_lxor_l, !N.land_ones, !split_mod by assumption. reflexivity.
  - f_equal. rewrite <- N.shiftr_div_pow2, N.shiftr_lxor, !N.shiftr_div_pow2, !split_div by assumption.
    reflexivity.
Qed.

Lemma lor_split k x y A B : x < 2 ^ k -> y < 2 ^ k ->
  N.lor (x + 2 ^ k * A) (y + 2 ^ k * B) = N.lor x y + 2 ^ k * N.lor A B.
Proof.
  intros Hx Hy.
  pose proof (N.div_mod' (N.lor (x + 2 ^ k * A) (y + 2 ^ k * B)) (2 ^ k)) as HL.
  rewrite HL. clear HL. rewrite N.add_comm. f_equal.
  - rewrite <- N.land_ones, N.land_lor_distr_l, !N.land_ones, !split_mod by assumption. reflexivity.
  - f_equal. rewrite <- N.shiftr_div_pow2, N.shiftr_lor, !N.shiftr_div_pow2, !split_div by assumption.
    reflexivity.
Qed.

(* ---------- XORBytes(s, s, x) on little-endian values ---------- *)
Lemma xor_into_cons x a y b : xor_into (x :: a) (y :: b) = N.lxor x y :: xor_into a b.
Proof. reflexivity. Qed.

Lemma le_val_xor_into a : forall b, wfb a -> wfb b -> (length b <= length a)%nat ->
  le_val (xor_into a b) = N.lxor (le_val a) (le_val b).
Proof.
  induction a as [|x a IH]; intros b Ha Hb Hl.
  - destruct b as [|y b]; [reflexivity|cbn [length] in Hl; lia].
  - destruct b as [|y b].
    + unfold xor_into. cbn [xorb length skipn app le_val]. rewrite N.lxor_0_r. reflexivity.
    + rewrite xor_into_cons.
      inversion Ha as [|? ? Hx Ha']; inversion Hb as [|? ? Hy Hb']; subst.
      cbn [le_val]. cbn [length] in Hl. rewrite IH by (try assumption; lia).
      symmetry. change 256 with (2 ^ 8). apply lxor_split; assumption.
Qed.

Lemma xor_into_length a b : (length b <= length a)%nat -> length (xor_into a b) = length a.
Proof. intros H. unfold xor_into. rewrite app_length, skipn_length, xorb_length. lia. Qed.

Lemma xor_into_wf a b : wfb a -> wfb b -> wfb (xor_into a b).
Proof. intros Ha Hb. unfold xor_into. apply wfb_app. split; [apply xorb_wf; assumption|apply wfb_skipn; exact Ha]. Qed.

(* ---------- a 16-byte string = its low 15 bytes and its last byte ---------- *)
Lemma last16 (s : bytes) : length s = 16%nat -> s = firstn 15 s ++ [nth 15 s 0].
Proof.
  intros H. do 16 (destruct s as [|? s]; [discriminate|]). destruct s; [reflexivity|discriminate].
Qed.

Lemma nth_wf s i : wfb s -> (i < length s)%nat -> nth i s 0 < 256.
Proof.
  intros Hw Hi. unfold wfb in Hw. rewrite Forall_forall in Hw. apply Hw. apply nth_In. exact Hi.
Qed.

Lemma le_val_set_last s z : length s = 16%nat ->
  le_val (firstn 15 s ++ [z]) = le_val (firstn 15 s) + 2 ^ 120 * z.
Proof.
  intros H. rewrite le_val_app, firstn_length, H. cbn [le_val].
  change (256 ^ N.of_nat (Nat.min 15 16)) with (2 ^ 120). lia.
Qed.

Lemma le_val_last16 s : wfb s -> length s = 16%nat ->
  le_val s = le_val (firstn 15 s) + 2 ^ 120 * nth 15 s 0 /\
  le_val (firstn 15 s) < 2 ^ 120 /\ nth 15 s 0 < 256.
Proof.
  intros Hw Hl. split; [|split].
  - rewrite (last16 s Hl) at 1. apply le_val_set_last. exact Hl.
  - pose proof (le_val_lt (firstn 15 s) (wfb_firstn 15 s Hw)) as H. rewrite firstn_length, Hl in H. exact H.
  - apply nth_wf; [exact Hw|lia].
Qed.

Lemma land_127 b : N.land b 127 = b mod 128.
Proof. change 127 with (N.ones 7). rewrite N.land_ones. reflexivity. Qed.

(* computeTag's block: XOR the nonce into the low 12 bytes, clear the top bit of byte 15
   = (S_s XOR nonce) AND (2^127 - 1) on 128-bit little-endian integers *)
Lemma tag_block_eq pv nonce : wfb pv -> length pv = 16%nat -> wfb nonce -> length nonce = 12%nat ->
  and_last (xor_into pv nonce) 127 =
  le_bytes 16 (N.land (N.lxor (le_val pv) (le_val nonce)) (N.ones 127)).
Proof.
  intros Hp Lp Hn Ln.
  assert (HX : wfb (xor_into pv nonce)) by (apply xor_into_wf; assumption).
  assert (LX : length (xor_into pv nonce) = 16%nat) by (rewrite xor_into_length; lia).
  rewrite <- (le_val_xor_into pv nonce Hp Hn) by lia.
  set (X := xor_into pv nonce) in *.
  destruct (le_val_last16 X HX LX) as [E [Hlo Hb]].
  pose proof (N.mod_lt (nth 15 X 0) 128) as Hm.
  apply le_val_inj.
  - unfold and_last. apply wfb_app. split; [apply wfb_firstn; exact HX|].
    constructor; [|constructor]. rewrite land_127. lia.
  - apply le_bytes_wf.
  - unfold and_last. rewrite app_length, firstn_length, LX, le_bytes_length. reflexivity.
  - unfold and_last. rewrite le_val_set_last by exact LX.
    rewrite le_val_le_bytes, N.land_ones, E, land_127.
    change (256 ^ N.of_nat 16) with (2 ^ 128).
    set (lo := le_val (firstn 15 X)) in *. set (b := nth 15 X 0) in *.
    replace (lo + 2 ^ 120 * b) with ((lo + 2 ^ 120 * (b mod 128)) + 2 ^ 127 * (b / 128)).
    2:{ pose proof (N.div_mod' b 128) as Hd. change (2 ^ 127) with (2 ^ 120 * 128). lia. }
    rewrite split_mod by (change (2 ^ 127) with (2 ^ 120 * 128); lia).
    symmetry. apply N.mod_small. change (2 ^ 128) with (2 ^ 120 * 256). lia.
Qed.

(* ---------- the counter block: tag with bit 127 set, split 32 / 96 bits ---------- *)
Lemma lor_lt_256 x y : x < 256 -> y < 256 -> N.lor x y < 256.
Proof.
  intros Hx Hy. rewrite <- (N.mod_small x 256), <- (N.mod_small y 256) by assumption.
  change 256 with (2 ^ 8). rewrite <- !N.land_ones, <- N.land_lor_distr_l, N.land_ones.
  apply N.mod_lt. discriminate.
Qed.

Lemma or_last_val tag : wfb tag -> length tag = 16%nat ->
  wfb (or_last tag 128) /\ length (or_last tag 128) = 16%nat /\
  le_val (or_last tag 128) = N.lor (le_val tag) (2 ^ 127).
Proof.
  intros Hw Hl. destruct (le_val_last16 tag Hw Hl) as [E [Hlo Hb]]. unfold or_last. split; [|split].
  - apply wfb_app. split; [apply wfb_firstn; exact Hw|].
    constructor; [|constructor]. apply lor_lt_256; [exact Hb|reflexivity].
  - rewrite app_length, firstn_length, Hl. reflexivity.
  - rewrite le_val_set_last by exact Hl. rewrite E.
    transitivity (N.lor (le_val (firstn 15 tag) + 2 ^ 120 * nth 15 tag 0) (0 + 2 ^ 120 * 128)).
    2:{ f_equal. }
    rewrite lor_split by (try exact Hlo; reflexivity). rewrite N.lor_0_r. reflexivity.
Qed.

Lemma split4_16 s : wfb s -> length s = 16%nat ->
  le_val (firstn 4 s) = le_val s mod 2 ^ 32 /\ skipn 4 s = le_bytes 12 (le_val s / 2 ^ 32).
Proof.
  intros Hw Hl.
  assert (H1 : le_val (firstn 4 s) < 2 ^ 32).
  { pose proof (le_val_lt (firstn 4 s) (wfb_firstn 4 s Hw)) as H. rewrite firstn_length, Hl in H. exact H. }
  assert (E : le_val s = le_val (firstn 4 s) + 2 ^ 32 * le_val (skipn 4 s)).
  { rewrite <- (firstn_skipn 4 s) at 1. rewrite le_val_app, firstn_length, Hl. reflexivity. }
  split.
  - rewrite E, split_mod by exact H1. reflexivity.
  - rewrite E, split_div by exact H1.
    pose proof (le_bytes_le_val (skipn 4 s) (wfb_skipn 4 s Hw)) as H. rewrite skipn_length, Hl in H.
    symmetry. exact H.
Qed.

(* ---------- the running 32-bit counter = start + block index (mod 2^32) ---------- *)
Lemma siv_next_add c k : siv_next ((c + N.of_nat k) mod 2 ^ 32) = (c + N.of_nat (S k)) mod 2 ^ 32.
Proof.
  unfold siv_next. rewrite N.add_mod_idemp_l by (apply N.pow_nonzero; discriminate). f_equal. lia.
Qed.

Lemma siv_keystream_flat (E : bytes -> bytes) T n : forall c k,
  keystream E (siv_blk T) siv_next n ((c + N.of_nat k) mod 2 ^ 32) =
  flat_map (fun i => E (siv_blk T ((c + N.of_nat i) mod 2 ^ 32))) (seq k n).
Proof.
  induction n as [|n IH]; intros c k; [reflexivity|].
  cbn [keystream seq flat_map]. rewrite siv_next_add, IH. reflexivity.
Qed.

Lemma flat_map_len16 {A} (f : A -> bytes) l : (forall a, length (f a) = 16%nat) ->
  length (flat_map f l) = (16 * length l)%nat.
Proof.
  intros H. induction l as [|a l IH]; [reflexivity|].
  cbn [flat_map length]. rewrite app_length, H, IH. lia.
Qed.

(* XORBytes stops at the shorter operand: keystream bytes beyond the input are irrelevant *)
Lemma xorb_trunc a k r : (length a <= length k)%nat -> xorb a (k ++ r) = xorb a k.
Proof. intros H. rewrite xorb_app_r, skipn_all2 by exact H. cbn [xorb]. apply app_nil_r. Qed.

Lemma rfc_counter_block_eq tag i :
  rfc_counter_block tag i =
  siv_blk (le_bytes 12 (N.lor (le_val tag) (2 ^ 127) / 2 ^ 32))
          ((N.lor (le_val tag) (2 ^ 127) mod 2 ^ 32 + i) mod 2 ^ 32).
Proof. reflexivity. Qed.

Lemma ceil16_bounds n : ((n + 15) / 16 <= n /\ n <= 16 * ((n + 15) / 16))%nat.
Proof.
  pose proof (Nat.div_mod (n + 15) 16) as H. pose proof (Nat.mod_upper_bound (n + 15) 16) as H'.
  lia.
Qed.

Section GcmSivSpecProofs.
  Variable aes : bytes -> bytes -> bytes.
  Hypothesis aes_len : forall k b, length (aes k b) = 16%nat.
  Hypothesis aes_wf : forall k b, wfb (aes k b).

  (* deriveKeys = derive_keys of RFC 8452 section 4 *)
  Lemma rfc_keys_eq key nonce :
    dk_auth aes key nonce = rfc_auth_key aes key nonce /\ dk_enc aes key nonce = rfc_enc_key aes key nonce.
  Proof.
    unfold dk_auth, dk_enc, rfc_auth_key, rfc_enc_key, rfc_piece, kdf_half. split.
    - cbn [flat_map]. rewrite app_nil_r. reflexivity.
    - destruct (Nat.eqb (length key) 32); cbn [flat_map]; rewrite app_nil_r; reflexivity.
  Qed.

  Lemma length_block_eq p ad : length_block p ad = rfc_length_block p ad.
  Proof.
    unfold length_block, rfc_length_block, lenN.
    rewrite (N.mul_comm (N.of_nat (length ad))), (N.mul_comm (N.of_nat (length p))). reflexivity.
  Qed.

  Lemma rfc_length_block_length p ad : length (rfc_length_block p ad) = 16%nat.
  Proof. unfold rfc_length_block. rewrite app_length, !le_bytes_length. reflexivity. Qed.

  Lemma dk_auth_wf key nonce : wfb (dk_auth aes key nonce).
  Proof. unfold dk_auth, kdf_half. apply wfb_app. split; apply wfb_firstn, aes_wf. Qed.

  (* computePolyval (Update(ad); Update(pt); Update(length block); Finish) =
     POLYVAL(auth key, right_pad_16(ad) ++ right_pad_16(pt) ++ length_block) *)
  Lemma polyval_part key nonce p ad : wfb p -> wfb ad ->
    polyval_impl (dk_auth aes key nonce) [ad; p; length_block p ad] =
    polyval_spec (rfc_auth_key aes key nonce) (chunks 16 (pad16 ad ++ pad16 p ++ rfc_length_block p ad)).
  Proof.
    intros Hp Ha. rewrite polyval_impl_is_spec.
    - rewrite chunks16_pieces by apply rfc_length_block_length.
      rewrite <- (proj1 (rfc_keys_eq key nonce)), length_block_eq. reflexivity.
    - apply dk_auth_wf.
    - apply dk_auth_length. exact aes_len.
    - repeat (apply Forall_cons; [assumption|]). apply Forall_cons; [|apply Forall_nil].
      unfold length_block. apply wfb_app. split; apply le_bytes_wf.
  Qed.

  (* computeTag = the tag of RFC 8452 *)
  Lemma tagf_eq key nonce p ad : wfb nonce -> length nonce = 12%nat -> wfb p -> wfb ad ->
    tagf aes key nonce p ad = rfc_tag aes key nonce p ad.
  Proof.
    intros Hn Ln Hp Ha. unfold tagf, rfc_tag, rfc_S.
    rewrite polyval_part by assumption.
    rewrite tag_block_eq; try assumption.
    - rewrite (proj2 (rfc_keys_eq key nonce)). reflexivity.
    - unfold polyval_spec. apply le_bytes_wf.
    - unfold polyval_spec. apply le_bytes_length.
  Qed.

  (* aesCTR (the loop with the wrapping little-endian 32-bit counter) = AES-CTR of RFC 8452 *)
  Lemma ctr_part enc tag inp : wfb tag -> length tag = 16%nat ->
    sctr aes enc tag inp = rfc_ctr aes enc tag inp.
  Proof.
    clear aes_wf. intros Hw Hl. unfold sctr, rfc_ctr, rfc_keystream.
    rewrite ctr_apply_spec by (intros b; apply aes_len). unfold ks_xor.
    destruct (or_last_val tag Hw Hl) as [Cw [Cl Cv]].
    destruct (split4_16 _ Cw Cl) as [E1 E2]. rewrite E1, E2, Cv. clear E1 E2 Cv Cw Cl.
    rewrite (flat_map_ext _ _ (fun i => f_equal (aes enc) (rfc_counter_block_eq tag (N.of_nat i)))).
    remember (N.lor (le_val tag) (2 ^ 127)) as cb eqn:Ecb. clear Ecb.
    remember (cb mod 2 ^ 32) as c0 eqn:Ec0.
    assert (Hc0 : c0 < 2 ^ 32) by (subst c0; apply N.mod_lt, N.pow_nonzero; discriminate). clear Ec0.
    remember (le_bytes 12 (cb / 2 ^ 32)) as T eqn:ET. clear ET.
    pose proof (siv_keystream_flat (aes enc) T (length inp) c0 0) as HK.
    change (N.of_nat 0) with 0 in HK. rewrite N.add_0_r, N.mod_small in HK by exact Hc0.
    rewrite HK. clear HK.
    destruct (ceil16_bounds (length inp)) as [M1 M2].
    remember ((length inp + 15) / 16)%nat as m eqn:Em. clear Em.
    assert (Hs : seq 0 (length inp) = seq 0 m ++ seq m (length inp - m)).
    { transitivity (seq 0 (m + (length inp - m))); [f_equal; lia|apply seq_app]. }
    rewrite Hs, flat_map_app. apply xorb_trunc.
    rewrite flat_map_len16 by (intros a; apply aes_len). rewrite seq_length. lia.
  Qed.

  (* Encrypt of aead/aesgcmsiv (prefix || nonce || AESGCMSIV.Encrypt) = RFC 8452 encrypt *)
  Theorem siv_enc_is_rfc8452 prefix key nonce p ad :
    wfb nonce -> wfb p -> wfb ad -> length nonce = 12%nat ->
    lenN p <= MaxInt32 - 12 - 16 -> lenN ad <= MaxInt32 ->
    siv_enc aes prefix key nonce p ad = Ok (prefix ++ nonce ++ rfc8452_encrypt aes key nonce p ad).
  Proof.
    intros Hn Hp Ha Ln Lp La. unfold siv_enc.
    rewrite (siv_raw_enc_ok aes aes_len) by assumption. cbn [bind].
    unfold rfc8452_encrypt. cbv zeta.
    rewrite tagf_eq by assumption.
    rewrite ctr_part by (unfold rfc_tag; first [apply aes_wf|apply aes_len]).
    rewrite (proj2 (rfc_keys_eq key nonce)). reflexivity.
  Qed.
End GcmSivSpecProofs.

(* ---------- non-vacuity: the hypotheses are met by concrete instances ---------- *)
(* a toy block function that depends on key and block and satisfies both laws *)
Definition toy_aes (k b : bytes) : bytes := le_bytes 16 (le_val k + 3 * le_val b + 1).
Lemma toy_aes_len k b : length (toy_aes k b) = 16%nat.
Proof. apply le_bytes_length. Qed.
Lemma toy_aes_wf k b : wfb (toy_aes k b).
Proof. apply le_bytes_wf. Qed.

Definition ex_key : bytes := map N.of_nat (seq 1 16).
Definition ex_nonce : bytes := map N.of_nat (seq 100 12).
Definition ex_pt : bytes := map N.of_nat (seq 30 20).      (* two counter blocks *)
Definition ex_ad : bytes := [9].

Example siv_enc_is_rfc8452_instance :
  siv_enc toy_aes [1; 0; 0; 0; 7] ex_key ex_nonce ex_pt ex_ad =
  Ok ([1; 0; 0; 0; 7] ++ ex_nonce ++ rfc8452_encrypt toy_aes ex_key ex_nonce ex_pt ex_ad).
Proof.
  apply (siv_enc_is_rfc8452 toy_aes toy_aes_len toy_aes_wf).
  - unfold wfb. repeat (apply Forall_cons; [reflexivity|]). apply Forall_nil.
  - unfold wfb. repeat (apply Forall_cons; [reflexivity|]). apply Forall_nil.
  - unfold wfb. repeat (apply Forall_cons; [reflexivity|]). apply Forall_nil.
  - reflexivity.
  - vm_compute. discriminate.
  - vm_compute. discriminate.
Qed.

(* the same instance by evaluation of both sides, and the size of the result *)
Example siv_enc_is_rfc8452_instance_computed :
  siv_enc toy_aes [1; 0; 0; 0; 7] ex_key ex_nonce ex_pt ex_ad =
  Ok ([1; 0; 0; 0; 7] ++ ex_nonce ++ rfc8452_encrypt toy_aes ex_key ex_nonce ex_pt ex_ad) /\
  length (ex_nonce ++ rfc8452_encrypt toy_aes ex_key ex_nonce ex_pt ex_ad) = (12 + 20 + 16)%nat /\
  rfc8452_encrypt toy_aes ex_key ex_nonce ex_pt ex_ad <> rfc8452_encrypt toy_aes ex_key ex_nonce ex_pt [] /\
  firstn 20 (rfc8452_encrypt toy_aes ex_key ex_nonce ex_pt ex_ad) <> ex_pt.
Proof. vm_compute. repeat split; discriminate. Qed.

(* the instance of the task statement: constant block function, 3-byte plaintext *)
Example siv_enc_is_rfc8452_zero_aes :
  siv_enc (fun _ _ => zeros 16) [] [] (zeros 12) [1; 2; 3] [9] =
  Ok ([] ++ zeros 12 ++ rfc8452_encrypt (fun _ _ => zeros 16) [] (zeros 12) [1; 2; 3] [9]) /\
  length (zeros 12 ++ rfc8452_encrypt (fun _ _ => zeros 16) [] (zeros 12) [1; 2; 3] [9]) = (12 + 3 + 16)%nat.
Proof. vm_compute. split; reflexivity. Qed.
