(* C19, function-body level: the frame theorem for the structured slice language of
   model/HeapProg.v.  A function body that passes the ownership analysis `own_stmt` from the
   initial flags (write flags wf / keep flags kf: true exactly for the parameters the function is
   ALLOWED to write through / to keep: none for an API function, the inferred contract for an
   internal helper) - on every execution, also one that stops early by return, break or panic,
   whatever branches it takes, however often its loops run, whatever indices, lengths and bytes it
   uses -
     (1) changes no array that existed at the call except those of the parameters it may write, and
     (2) lets escape (returns, stores in shared objects, hands to a callee that keeps it) only slices
         that live in arrays allocated during the call or in arrays of the parameters it may keep. *)
From Coq Require Import List NArith Arith Bool Lia.
From Tink Require Import Heap HeapProofs HeapProg.
Import ListNotations.

(* ---- lists of flags ---- *)

Lemma fand_bot_r x : fand x fbot = fbot.
Proof. destruct x; unfold fand, fbot; simpl. rewrite !andb_false_r. reflexivity. Qed.

Lemma nth_andl a b v : nth v (andl a b) fbot = fand (nth v a fbot) (nth v b fbot).
Proof.
  unfold andl. revert b v. induction a as [|x a IH]; intros [|y b] [|v]; simpl; auto;
    try (rewrite fand_bot_r; reflexivity).
Qed.

Lemma length_andl a b : length a = length b -> length (andl a b) = length a.
Proof. intros H. unfold andl. rewrite map_length, combine_length. lia. Qed.

Lemma fle_refl_bot x : fle fbot x = true.
Proof. reflexivity. Qed.

Lemma lel_nth a b : length a = length b -> lel a b = true ->
  forall v, fle (nth v a fbot) (nth v b fbot) = true.
Proof.
  unfold lel. revert b. induction a as [|x a IH]; intros [|y b] L H v; simpl in *; try discriminate.
  - destruct v; reflexivity.
  - apply andb_prop in H. destruct H as [H1 H2]. destruct v as [|v]; auto.
Qed.

Lemma fle_w a b : fle a b = true -> fw a = true -> fw b = true.
Proof. unfold fle. intros H W. rewrite W in H. destruct (fw b); auto. Qed.

Lemma fle_k a b : fle a b = true -> fk a = true -> fk b = true.
Proof. unfold fle. intros H K. rewrite K in H. destruct (fw a), (fw b), (fk b); simpl in *; auto. Qed.

Lemma fle_fand_l a b : fle (fand a b) a = true.
Proof. destruct a as [[] [] []], b as [[] [] []]; reflexivity. Qed.

Lemma fle_fand_r a b : fle (fand a b) b = true.
Proof. destruct a as [[] [] []], b as [[] [] []]; reflexivity. Qed.

Lemma fle_trans a b c : fle a b = true -> fle b c = true -> fle a c = true.
Proof. destruct a as [[] [] []], b as [[] [] []], c as [[] [] []]; simpl; auto. Qed.

Lemma fle_top a : fle a ftop = true.
Proof. destruct a as [[] [] []]; reflexivity. Qed.

Lemma nth_top own v : v < length own -> nth v (top own) fbot = ftop.
Proof.
  unfold top. revert v. induction own as [|x l IH]; intros [|v] H; simpl in *; try lia; auto. apply IH. lia.
Qed.

Lemma length_top own : length (top own) = length own.
Proof. unfold top. apply map_length. Qed.

Lemma nth_beyond (l : list fl) v : length l <= v -> nth v l fbot = fbot.
Proof. intros H. apply nth_overflow. exact H. Qed.

(* a flag read after an assignment *)
Lemma nth_set_nth_proj (P : fl -> bool) r b own v : P fbot = false ->
  P (nth v (set_nth r b own) fbot) = true -> (v = r /\ P b = true) \/ (v <> r /\ P (nth v own fbot) = true).
Proof.
  intros Pb H. destruct (Nat.eq_dec v r) as [->|Hne].
  - left. split; auto. destruct (Nat.lt_ge_cases r (length own)) as [L|G].
    + rewrite nth_set_nth_eq in H by exact L. exact H.
    + rewrite nth_beyond in H by (rewrite set_nth_length; exact G). congruence.
  - right. split; auto. rewrite nth_set_nth_neq in H by auto. exact H.
Qed.

Lemma nth_error_set_nth {A} r (x : A) l v y :
  nth_error (set_nth r x l) v = Some y -> (v = r /\ y = x) \/ (v <> r /\ nth_error l v = Some y).
Proof.
  revert r v. induction l as [|z l IH]; intros r v H.
  - destruct r, v; simpl in H; discriminate.
  - destruct r as [|r], v as [|v]; simpl in H.
    + inversion H. left. auto.
    + right. split; [discriminate|exact H].
    + right. split; [discriminate|exact H].
    + apply IH in H. destruct H as [[-> ->]|[Hne H]]; [left; auto|right; split; [congruence|exact H]].
Qed.

Lemma fold_fand_w (o : nat -> fl) vs : fw (fold_right (fun v a => fand (o v) a) ftop vs) = true ->
  forall v, In v vs -> fw (o v) = true.
Proof.
  induction vs as [|x vs IH]; simpl; intros H v [].
  - subst. apply andb_prop in H. tauto.
  - apply andb_prop in H. apply IH; tauto.
Qed.

Lemma fold_fand_k (o : nat -> fl) vs : fk (fold_right (fun v a => fand (o v) a) ftop vs) = true ->
  forall v, In v vs -> fk (o v) = true.
Proof.
  induction vs as [|x vs IH]; simpl; intros H v [].
  - subst. apply andb_prop in H. tauto.
  - apply andb_prop in H. apply IH; tauto.
Qed.

(* ---- lengths are preserved by the analysis ---- *)

Lemma loop_fix_S f k hd : loop_fix f (S k) hd =
  match f hd with
  | None => None
  | Some (n, j) => if lel hd (andl n j) then Some hd else loop_fix f k (andl hd (andl n j))
  end.
Proof. reflexivity. Qed.

Lemma loop_fix_O f hd : loop_fix f 0 hd = None.
Proof. reflexivity. Qed.

Arguments loop_fix : simpl never.

Lemma loop_fix_length f : (forall x n j, f x = Some (n, j) -> length n = length x /\ length j = length x) ->
  forall fuel hd0 hd, loop_fix f fuel hd0 = Some hd -> length hd = length hd0.
Proof.
  intros Hf. induction fuel as [|k IH]; intros hd0 hd H; [rewrite loop_fix_O in H; discriminate|rewrite loop_fix_S in H].
  destruct (f hd0) as [[n j]|] eqn:F; [|discriminate].
  destruct (Hf _ _ _ F) as [Ln Lj].
  destruct (lel hd0 (andl n j)).
  - inversion H; subst. reflexivity.
  - apply IH in H. rewrite H. apply length_andl. rewrite length_andl; lia.
Qed.

Lemma store_flags_length own x v own' : store_flags own x v = Some own' -> length own' = length own.
Proof.
  unfold store_flags. destruct (fp (nth x own fbot)).
  - intros H; inversion H. apply set_nth_length.
  - destruct (fk (nth v own fbot)); [|discriminate]. intros H; inversion H. unfold unpriv. rewrite !set_nth_length. reflexivity.
Qed.

Ltac inv_ok H := inversion H; subst; rewrite ?set_nth_length, ?length_top; split; reflexivity.

Lemma own_stmt_length s : forall own n j, own_stmt s own = Some (n, j) -> length n = length own /\ length j = length own.
Proof.
  induction s as [r|r v|r v|r vs|r|v|v|r v|d s0|r vs|r v|x v|x v|r v|v| | | |a IHa b IHb|a IHa b IHb|b IHb|c args eff IHe];
    intros own n j H; simpl in H; try (inv_ok H).
  - destruct (fw (nth v own fbot)); [inv_ok H|discriminate].
  - destruct (fw (nth v own fbot)); [inv_ok H|discriminate].
  - destruct (fw (nth v own fbot)); [inv_ok H|discriminate].
  - destruct (fw (nth d own fbot)); [inv_ok H|discriminate].
  - destruct (store_flags own x v) as [own'|] eqn:SF; [|discriminate]. apply store_flags_length in SF.
    inversion H; subst. rewrite length_top. split; auto.
  - destruct (store_flags own x v) as [own'|] eqn:SF; [|discriminate]. apply store_flags_length in SF.
    destruct (Nat.eqb x v); inversion H; subst; rewrite ?set_nth_length, length_top; split; auto.
  - destruct (Nat.eqb r v); inv_ok H.
  - destruct (fk (nth v own fbot)); [inv_ok H|discriminate].
  - destruct (own_stmt a own) as [[na ja]|] eqn:A; [|discriminate].
    destruct (own_stmt b na) as [[nb jb]|] eqn:B; [|discriminate].
    inversion H; subst. destruct (IHa _ _ _ A) as [L1 L2]. destruct (IHb _ _ _ B) as [L3 L4].
    split; [lia|]. rewrite length_andl; lia.
  - destruct (own_stmt a own) as [[na ja]|] eqn:A; [|discriminate].
    destruct (own_stmt b own) as [[nb jb]|] eqn:B; [|discriminate].
    inversion H; subst. destruct (IHa _ _ _ A) as [L1 L2]. destruct (IHb _ _ _ B) as [L3 L4].
    split; rewrite length_andl; lia.
  - destruct (loop_fix (own_stmt b) (S (length own + length own + length own)) own) as [hd|] eqn:F; [|discriminate].
    inversion H; subst. rewrite length_top. split; auto.
    apply (loop_fix_length (own_stmt b) IHb) in F. exact F.
  - apply IHe. exact H.
Qed.

(* what a successful loop analysis gives: flags hd below the incoming ones, stable under the body *)
Lemma loop_fix_spec f : (forall x n j, f x = Some (n, j) -> length n = length x /\ length j = length x) ->
  forall fuel hd0 hd, loop_fix f fuel hd0 = Some hd ->
    length hd = length hd0 /\ (forall v, fle (nth v hd fbot) (nth v hd0 fbot) = true) /\
    exists n j, f hd = Some (n, j) /\ lel hd (andl n j) = true.
Proof.
  intros Hf. induction fuel as [|k IH]; intros hd0 hd H; [rewrite loop_fix_O in H; discriminate|rewrite loop_fix_S in H].
  destruct (f hd0) as [[n j]|] eqn:F; [|discriminate].
  destruct (Hf _ _ _ F) as [Ln Lj].
  destruct (lel hd0 (andl n j)) eqn:Le.
  - inversion H; subst. split; auto. split.
    + intros v. destruct (nth v hd fbot) as [[] [] []]; reflexivity.
    + exists n, j. auto.
  - apply IH in H. destruct H as (L & M & E). split.
    + rewrite L. apply length_andl. rewrite length_andl; lia.
    + split; auto. intros v. eapply fle_trans; [apply M|]. rewrite nth_andl. apply fle_fand_l.
Qed.

Lemma unpriv_length v own : length (unpriv v own) = length own.
Proof. unfold unpriv. apply set_nth_length. Qed.

Lemma unpriv_le v own u : fle (nth u (unpriv v own) fbot) (nth u own fbot) = true.
Proof.
  unfold unpriv. destruct (Nat.eq_dec u v) as [->|Hne].
  - destruct (Nat.lt_ge_cases v (length own)) as [L|G].
    + rewrite nth_set_nth_eq by exact L. destruct (nth v own fbot) as [[] [] []]; reflexivity.
    + rewrite nth_beyond by (rewrite set_nth_length; exact G). reflexivity.
  - rewrite nth_set_nth_neq by auto. destruct (nth u own fbot) as [[] [] []]; reflexivity.
Qed.

Lemma unpriv_k v own u : fk (nth u (unpriv v own) fbot) = fk (nth u own fbot).
Proof.
  unfold unpriv. destruct (Nat.eq_dec u v) as [->|Hne].
  - destruct (Nat.lt_ge_cases v (length own)) as [L|G].
    + rewrite nth_set_nth_eq by exact L. reflexivity.
    + rewrite !nth_beyond; auto. rewrite set_nth_length. exact G.
  - rewrite nth_set_nth_neq by auto. reflexivity.
Qed.

Lemma unpriv_w v own u : fw (nth u (unpriv v own) fbot) = fw (nth u own fbot).
Proof.
  unfold unpriv. destruct (Nat.eq_dec u v) as [->|Hne].
  - destruct (Nat.lt_ge_cases v (length own)) as [L|G].
    + rewrite nth_set_nth_eq by exact L. reflexivity.
    + rewrite !nth_beyond; auto. rewrite set_nth_length. exact G.
  - rewrite nth_set_nth_neq by auto. reflexivity.
Qed.

(* ---- the invariant ---- *)

Definition okarr (n0 : nat) (W : list nat) (a : nat) : Prop := n0 <= a \/ In a W.

(* the part that does not mention flags: arrays of the caller outside Ww are untouched, every escaped
   slice lives in a fresh array or in Wk *)
Definition PFrame (h0 : heap) (Ww Wk : list nat) (st : pstate) : Prop :=
  let '(h, rs, lg) := st in
  length h0 <= length h /\
  (forall a, a < length h0 -> ~ In a Ww -> array h a = array h0 a) /\
  (forall s, In s lg -> okarr (length h0) Wk (arr s)).

Definition PInv (h0 : heap) (Ww Wk : list nat) (st : pstate) (own : list fl) : Prop :=
  let '(h, rs, lg) := st in
  PFrame h0 Ww Wk st /\ length own = length rs /\
  (forall v s, nth_error rs v = Some s -> fw (nth v own fbot) = true -> okarr (length h0) Ww (arr s)) /\
  (forall v s, nth_error rs v = Some s -> fk (nth v own fbot) = true -> okarr (length h0) Wk (arr s)).

Lemma PInv_frame h0 Ww Wk st own : PInv h0 Ww Wk st own -> PFrame h0 Ww Wk st.
Proof. destruct st as [[h rs] lg]. intros (F & _). exact F. Qed.

Lemma PInv_mono h0 Ww Wk st own own' : PInv h0 Ww Wk st own -> length own' = length own ->
  (forall v, fle (nth v own' fbot) (nth v own fbot) = true) -> PInv h0 Ww Wk st own'.
Proof.
  destruct st as [[h rs] lg]. intros (F & L & Ow & Ok) L' M. split; [exact F|]. split; [lia|]. split.
  - intros v s Hv Ho. eapply Ow; eauto. eapply fle_w; eauto.
  - intros v s Hv Ho. eapply Ok; eauto. eapply fle_k; eauto.
Qed.

Lemma PInv_andl_l h0 Ww Wk st a b : PInv h0 Ww Wk st a -> length a = length b -> PInv h0 Ww Wk st (andl a b).
Proof.
  intros I L. eapply PInv_mono; eauto. apply length_andl; auto.
  intros v. rewrite nth_andl. apply fle_fand_l.
Qed.

Lemma PInv_andl_r h0 Ww Wk st a b : PInv h0 Ww Wk st b -> length a = length b -> PInv h0 Ww Wk st (andl a b).
Proof.
  intros I L. eapply PInv_mono; eauto. rewrite length_andl; auto.
  intros v. rewrite nth_andl. apply fle_fand_r.
Qed.

(* a register is (re)assigned; the heap may have grown or been written in permitted places *)
Lemma PInv_assign h0 Ww Wk h rs lg own h' r s b :
  PInv h0 Ww Wk (h, rs, lg) own ->
  length h0 <= length h' ->
  (forall a, a < length h0 -> ~ In a Ww -> array h' a = array h a) ->
  (fw b = true -> okarr (length h0) Ww (arr s)) ->
  (fk b = true -> okarr (length h0) Wk (arr s)) ->
  PInv h0 Ww Wk (h', set_nth r s rs, lg) (set_nth r b own).
Proof.
  intros ((L & F & G) & E & Ow & Ok) L' F' Bw Bk. repeat split; auto.
  - intros a Ha Hw. rewrite F' by auto. apply F; auto.
  - rewrite !set_nth_length. exact E.
  - intros v t Hv Ho. apply nth_error_set_nth in Hv. apply (nth_set_nth_proj fw) in Ho; [|reflexivity].
    destruct Hv as [[-> ->]|[Hne Hv]]; destruct Ho as [[Hr Hb]|[Hne' Ho]]; try congruence; auto.
    eapply Ow; eauto.
  - intros v t Hv Ho. apply nth_error_set_nth in Hv. apply (nth_set_nth_proj fk) in Ho; [|reflexivity].
    destruct Hv as [[-> ->]|[Hne Hv]]; destruct Ho as [[Hr Hb]|[Hne' Ho]]; try congruence; auto.
    eapply Ok; eauto.
Qed.

(* only the flags of a register are lowered *)
Lemma PInv_reflag h0 Ww Wk h rs lg own r b :
  PInv h0 Ww Wk (h, rs, lg) own ->
  (fw b = true -> fw (nth r own fbot) = true) -> (fk b = true -> fk (nth r own fbot) = true) ->
  PInv h0 Ww Wk (h, rs, lg) (set_nth r b own).
Proof.
  intros (F & E & Ow & Ok) Bw Bk. split; [exact F|]. split; [rewrite set_nth_length; exact E|]. split.
  - intros v t Hv Ho. apply (nth_set_nth_proj fw) in Ho; [|reflexivity].
    destruct Ho as [[-> Hb]|[_ Ho]]; eapply Ow; eauto.
  - intros v t Hv Ho. apply (nth_set_nth_proj fk) in Ho; [|reflexivity].
    destruct Ho as [[-> Hb]|[_ Ho]]; eapply Ok; eauto.
Qed.

Lemma PInv_heap h0 Ww Wk h rs lg own h' :
  PInv h0 Ww Wk (h, rs, lg) own ->
  length h0 <= length h' ->
  (forall a, a < length h0 -> ~ In a Ww -> array h' a = array h a) ->
  PInv h0 Ww Wk (h', rs, lg) own.
Proof.
  intros ((L & F & G) & E & Ow & Ok) L' F'. repeat split; auto.
  intros a Ha Hw. rewrite F' by auto. apply F; auto.
Qed.

Lemma PInv_write h0 Ww Wk h rs lg own a p bs :
  PInv h0 Ww Wk (h, rs, lg) own -> okarr (length h0) Ww a -> PInv h0 Ww Wk (heap_write h a p bs, rs, lg) own.
Proof.
  intros I K. pose proof I as ((L & _) & _). apply PInv_heap with (h := h); auto.
  - rewrite heap_write_length. exact L.
  - intros b Hb Hw. apply heap_write_other. intros ->. destruct K as [K|K]; [lia|contradiction].
Qed.

Lemma owned_w h0 Ww Wk h rs lg own v s :
  PInv h0 Ww Wk (h, rs, lg) own -> nth_error rs v = Some s -> fw (nth v own fbot) = true -> okarr (length h0) Ww (arr s).
Proof. intros (_ & _ & O & _) Hv Ho. eapply O; eauto. Qed.

Lemma owned_k h0 Ww Wk h rs lg own v s :
  PInv h0 Ww Wk (h, rs, lg) own -> nth_error rs v = Some s -> fk (nth v own fbot) = true -> okarr (length h0) Wk (arr s).
Proof. intros (_ & _ & _ & O) Hv Ho. eapply O; eauto. Qed.

Lemma PInv_len h0 Ww Wk h rs lg own : PInv h0 Ww Wk (h, rs, lg) own -> length h0 <= length h.
Proof. intros ((L & _) & _). exact L. Qed.

Lemma sub_arr s lo hi t : sub s lo hi = Some t -> arr t = arr s.
Proof. unfold sub. destruct (_ && _); [|discriminate]. intros H; inversion H; reflexivity. Qed.

Lemma sub3_arr s lo hi mx t : sub3 s lo hi mx = Some t -> arr t = arr s.
Proof. unfold sub3. destruct (_ && _); [|discriminate]. intros H; inversion H; reflexivity. Qed.

Lemma store_flags_keep h0 Ww Wk h rs lg own x v own' :
  PInv h0 Ww Wk (h, rs, lg) own -> store_flags own x v = Some own' -> PInv h0 Ww Wk (h, rs, lg) own'.
Proof.
  intros I SF. unfold store_flags in SF. destruct (fp (nth x own fbot)) eqn:Px.
  - inversion SF; subst; clear SF. apply PInv_reflag; auto; cbn [fw fk]; intros B; apply andb_prop in B; tauto.
  - destruct (fk (nth v own fbot)) eqn:Kv; [|discriminate]. inversion SF; subst; clear SF.
    assert (I1 : PInv h0 Ww Wk (h, rs, lg) (unpriv v own)).
    { eapply PInv_mono; eauto. apply unpriv_length. apply unpriv_le. }
    apply PInv_reflag; auto; cbn [fw fk]; intros B; try exact B. apply andb_prop in B. tauto.
Qed.

Lemma store_flags_take h0 Ww Wk h rs lg own x v own' s :
  PInv h0 Ww Wk (h, rs, lg) own -> store_flags own x v = Some own' -> nth_error rs v = Some s ->
  PInv h0 Ww Wk (h, set_nth x s rs, lg) own'.
Proof.
  intros I SF H. unfold store_flags in SF. destruct (fp (nth x own fbot)) eqn:Px.
  - inversion SF; subst; clear SF. apply PInv_assign with (h := h); auto.
    + eapply PInv_len; eauto.
    + cbn [fw]. intros B. apply andb_prop in B. eapply owned_w; eauto. tauto.
    + cbn [fk]. intros B. apply andb_prop in B. eapply owned_k; eauto. tauto.
  - destruct (fk (nth v own fbot)) eqn:Kv; [|discriminate]. inversion SF; subst; clear SF.
    assert (I1 : PInv h0 Ww Wk (h, rs, lg) (unpriv v own)).
    { eapply PInv_mono; eauto. apply unpriv_length. apply unpriv_le. }
    apply PInv_assign with (h := h); auto.
    + eapply PInv_len; eauto.
    + cbn [fw]. intros B. apply andb_prop in B. eapply owned_w; eauto. tauto.
    + intros _. eapply owned_k; eauto. rewrite unpriv_k. exact Kv.
Qed.

(* one atomic statement preserves the invariant *)
Lemma astep_sound h0 Ww Wk st s st' : astep st s st' ->
  forall own n j, own_stmt s own = Some (n, j) -> PInv h0 Ww Wk st own -> PInv h0 Ww Wk st' n.
Proof.
  intros A own n j S I. destruct A; simpl in S.
  - (* make *)
    inversion S; subst; clear S. pose proof (PInv_len _ _ _ _ _ _ _ I) as L.
    unfold make. cbn [fst snd arr]. apply PInv_assign with (h := h); auto.
    + rewrite heap_write_length, app_length. simpl. lia.
    + intros a Ha Hw. cbn [arr]. rewrite heap_write_other by lia. apply array_app_old. lia.
    + intros _. left. simpl. exact L.
    + intros _. left. simpl. exact L.
  - (* sub *)
    inversion S; subst; clear S. apply PInv_assign with (h := h); auto.
    + eapply PInv_len; eauto.
    + intros B. erewrite sub_arr by eauto. eapply owned_w; eauto.
    + intros B. erewrite sub_arr by eauto. eapply owned_k; eauto.
  - inversion S; subst; clear S. apply PInv_assign with (h := h); auto.
    + eapply PInv_len; eauto.
    + intros B. erewrite sub3_arr by eauto. eapply owned_w; eauto.
    + intros B. erewrite sub3_arr by eauto. eapply owned_k; eauto.
  - (* alias *)
    inversion S; subst; clear S. apply PInv_assign with (h := h); auto.
    + eapply PInv_len; eauto.
    + intros B. eapply owned_w; eauto.
    + intros B. eapply owned_k; eauto.
  - (* phi *)
    inversion S; subst; clear S. apply PInv_assign with (h := h); auto.
    + eapply PInv_len; eauto.
    + intros B. eapply owned_w; eauto. eapply (fold_fand_w (fun v => nth v own fbot)); eauto.
    + intros B. eapply owned_k; eauto. eapply (fold_fand_k (fun v => nth v own fbot)); eauto.
  - (* opaque *)
    inversion S; subst; clear S. apply PInv_assign with (h := h); auto.
    + eapply PInv_len; eauto.
    + discriminate.
    + discriminate.
  - (* set *)
    destruct (fw (nth v own fbot)) eqn:Ow; [|discriminate]. inversion S; subst; clear S.
    unfold set in H0. destruct (i <? len s); [|discriminate]. inversion H0; subst.
    apply PInv_write; auto. eapply owned_w; eauto.
  - (* write *)
    destruct (fw (nth v own fbot)) eqn:Ow; [|discriminate]. inversion S; subst; clear S.
    apply PInv_write; auto. eapply owned_w; eauto.
  - (* append *)
    destruct (fw (nth v own fbot)) eqn:Ow; [|discriminate]. inversion S; subst; clear S.
    pose proof (owned_w _ _ _ _ _ _ _ _ _ I H Ow) as K. pose proof (PInv_len _ _ _ _ _ _ _ I) as L.
    unfold append. destruct (len s + length xs <=? cap s); cbn [fst snd].
    + apply PInv_assign with (h := h); auto.
      * rewrite heap_write_length. exact L.
      * intros a Ha Hw. apply heap_write_other. intros ->. destruct K as [K|K]; [lia|contradiction].
      * cbn [fk arr]. intros B. exact (owned_k _ _ _ _ _ _ _ _ _ I H B).
    + apply PInv_assign with (h := h); auto.
      * rewrite app_length. simpl. lia.
      * intros a Ha Hw. apply array_app_old. lia.
      * intros _. left. simpl. exact L.
      * intros _. left. simpl. exact L.
  - (* copy *)
    destruct (fw (nth d own fbot)) eqn:Ow; [|discriminate]. inversion S; subst; clear S.
    unfold copy. apply PInv_write; auto. eapply owned_w; eauto.
  - (* concat *)
    inversion S; subst; clear S. pose proof (PInv_len _ _ _ _ _ _ _ I) as L.
    unfold concat. cbn [fst snd]. apply PInv_assign with (h := h); auto.
    + rewrite app_length. simpl. lia.
    + intros a Ha Hw. apply array_app_old. lia.
    + intros _. left. simpl. exact L.
    + intros _. left. simpl. exact L.
  - (* clone *)
    inversion S; subst; clear S. pose proof (PInv_len _ _ _ _ _ _ _ I) as L.
    unfold clone. cbn [fst snd]. apply PInv_assign with (h := h); auto.
    + rewrite app_length. simpl. lia.
    + intros a Ha Hw. apply array_app_old. lia.
    + intros _. left. simpl. exact L.
    + intros _. left. simpl. exact L.
  - (* store, register unchanged *)
    destruct (store_flags own x v) as [own'|] eqn:SF; [|discriminate]. inversion S; subst; clear S.
    eapply store_flags_keep; eauto.
  - (* store, register now shows the stored slice *)
    destruct (store_flags own x v) as [own'|] eqn:SF; [|discriminate]. inversion S; subst; clear S.
    eapply store_flags_take; eauto.
  - (* store of an object, register unchanged; the stored register is killed *)
    destruct (store_flags own x v) as [own'|] eqn:SF; [|discriminate].
    pose proof (store_flags_keep _ _ _ _ _ _ _ _ _ _ I SF) as I1.
    destruct (Nat.eqb x v); inversion S; subst; clear S; auto.
    apply PInv_reflag; [exact I1|discriminate|discriminate].
  - destruct (store_flags own x v) as [own'|] eqn:SF; [|discriminate].
    pose proof (store_flags_take _ _ _ _ _ _ _ _ _ _ _ I SF H) as I1.
    destruct (Nat.eqb x v); inversion S; subst; clear S; auto.
    apply PInv_reflag; [exact I1|discriminate|discriminate].
  - (* bind, register unchanged *)
    destruct (Nat.eqb r v); inversion S; subst; clear S; auto.
    apply PInv_reflag; [|discriminate|discriminate].
    apply PInv_reflag; auto; intros B; unfold fand in B; cbn [fw fk] in B; apply andb_prop in B; tauto.
  - (* bind, the class register now shows the temporary's object *)
    destruct (Nat.eqb r v) eqn:Erv.
    + inversion S; subst; clear S. apply Nat.eqb_eq in Erv. subst v.
      (* r = v: the register is assigned its own value *)
      assert (E : set_nth r s rs = rs).
      { clear - H. revert r H. induction rs as [|z rs IH]; intros [|r] H; simpl in *; try discriminate; auto.
        - inversion H; reflexivity.
        - f_equal. apply IH. exact H. }
      rewrite E. exact I.
    + inversion S; subst; clear S.
      apply PInv_reflag; [|discriminate|discriminate].
      apply PInv_assign with (h := h); auto.
      * eapply PInv_len; eauto.
      * intros B. unfold fand in B; cbn [fw] in B. apply andb_prop in B. eapply owned_w; eauto. tauto.
      * intros B. unfold fand in B; cbn [fk] in B. apply andb_prop in B. eapply owned_k; eauto. tauto.
  - (* escape *)
    destruct (fk (nth v own fbot)) eqn:Kv; [|discriminate]. inversion S; subst; clear S.
    pose proof (owned_k _ _ _ _ _ _ _ _ _ I H Kv) as K.
    assert (I' : PInv h0 Ww Wk (h, rs, s :: lg) own).
    { destruct I as ((L & F & G) & E & Ow & Ok). repeat split; auto. intros t [<-|Ht]; auto. }
    apply PInv_reflag; auto.
Qed.

(* every execution preserves the invariant, whatever way it ends *)
Theorem own_stmt_sound h0 Ww Wk : forall st s o st', exec st s o st' ->
  forall own n j, own_stmt s own = Some (n, j) -> PInv h0 Ww Wk st own ->
    match o with
    | ONormal => PInv h0 Ww Wk st' n
    | OJump => PInv h0 Ww Wk st' j
    | OReturn => PFrame h0 Ww Wk st'
    end.
Proof.
  induction 1 as [st s|st s st' A|st|st|st|st a b st1 o st2 Ha IHa Hb IHb|st a b o st1 No Ha IHa
                 |st a b o st' Ha IHa|st a b o st' Hb IHb|st b|st b o st1 o' st2 No Hb IHb Hl IHl|st b st1 Hb IHb
                 |st c args eff o st' He IHe];
    intros own n j Hs I.
  - eapply PInv_frame; eauto.
  - eapply astep_sound; eauto.
  - simpl in Hs. inversion Hs; subst. exact I.
  - simpl in Hs. inversion Hs; subst. exact I.
  - eapply PInv_frame; eauto.
  - (* seq, first part normal *)
    simpl in Hs. destruct (own_stmt a own) as [[na ja]|] eqn:A; [|discriminate].
    destruct (own_stmt b na) as [[nb jb]|] eqn:B; [|discriminate]. inversion Hs; subst; clear Hs.
    pose proof (IHa _ _ _ A I) as I1. simpl in I1. pose proof (IHb _ _ _ B I1) as I2.
    destruct (own_stmt_length _ _ _ _ A) as [La Lja]. destruct (own_stmt_length _ _ _ _ B) as [Lb Ljb].
    destruct o; auto. apply PInv_andl_r; auto. lia.
  - (* seq, first part jumps or returns *)
    simpl in Hs. destruct (own_stmt a own) as [[na ja]|] eqn:A; [|discriminate].
    destruct (own_stmt b na) as [[nb jb]|] eqn:B; [|discriminate]. inversion Hs; subst; clear Hs.
    pose proof (IHa _ _ _ A I) as I1.
    destruct (own_stmt_length _ _ _ _ A) as [La Lja]. destruct (own_stmt_length _ _ _ _ B) as [Lb Ljb].
    destruct o; auto; [congruence|]. apply PInv_andl_l; auto. lia.
  - (* if, left *)
    simpl in Hs. destruct (own_stmt a own) as [[na ja]|] eqn:A; [|discriminate].
    destruct (own_stmt b own) as [[nb jb]|] eqn:B; [|discriminate]. inversion Hs; subst; clear Hs.
    pose proof (IHa _ _ _ A I) as I1.
    destruct (own_stmt_length _ _ _ _ A) as [La Lja]. destruct (own_stmt_length _ _ _ _ B) as [Lb Ljb].
    destruct o; auto; apply PInv_andl_l; auto; lia.
  - (* if, right *)
    simpl in Hs. destruct (own_stmt a own) as [[na ja]|] eqn:A; [|discriminate].
    destruct (own_stmt b own) as [[nb jb]|] eqn:B; [|discriminate]. inversion Hs; subst; clear Hs.
    pose proof (IHb _ _ _ B I) as I1.
    destruct (own_stmt_length _ _ _ _ A) as [La Lja]. destruct (own_stmt_length _ _ _ _ B) as [Lb Ljb].
    destruct o; auto; apply PInv_andl_r; auto; lia.
  - (* loop exit *)
    simpl in Hs. destruct (loop_fix (own_stmt b) (Datatypes.S (length own + length own + length own)) own) as [hd|] eqn:F; [|discriminate].
    inversion Hs; subst; clear Hs.
    destruct (loop_fix_spec _ (own_stmt_length b) _ _ _ F) as (L & M & _).
    eapply PInv_mono; eauto.
  - (* loop, one more iteration *)
    simpl in Hs. destruct (loop_fix (own_stmt b) (Datatypes.S (length own + length own + length own)) own) as [hd|] eqn:F; [|discriminate].
    inversion Hs; subst; clear Hs.
    destruct (loop_fix_spec _ (own_stmt_length b) _ _ _ F) as (L & M & nb & jb & B & Le).
    assert (Ih : PInv h0 Ww Wk st n) by (eapply PInv_mono; eauto).
    destruct (own_stmt_length _ _ _ _ B) as [Lb Ljb].
    assert (I1 : PInv h0 Ww Wk st1 n).
    { pose proof (IHb _ _ _ B Ih) as I1.
      assert (Ma : forall v, fle (nth v n fbot) (nth v (andl nb jb) fbot) = true).
      { apply lel_nth; auto. rewrite length_andl; lia. }
      destruct o; [| |congruence].
      - eapply PInv_mono; eauto. intros v. eapply fle_trans; [apply Ma|]. rewrite nth_andl. apply fle_fand_l.
      - eapply PInv_mono; eauto. intros v. eapply fle_trans; [apply Ma|]. rewrite nth_andl. apply fle_fand_r. }
    assert (S' : own_stmt (SLoop b) n = Some (n, top n)).
    { cbn [own_stmt]. rewrite L. rewrite loop_fix_S, B, Le. reflexivity. }
    pose proof (IHl _ _ _ S' I1) as I2.
    destruct o'; auto.
    eapply PInv_mono; eauto.
    + rewrite !length_top. lia.
    + intros v. destruct (Nat.lt_ge_cases v (length own)) as [Lt|Ge].
      * rewrite !nth_top by lia. reflexivity.
      * rewrite (nth_beyond (top own)) by (rewrite length_top; lia). reflexivity.
  - (* loop, body returns *)
    simpl in Hs. destruct (loop_fix (own_stmt b) (Datatypes.S (length own + length own + length own)) own) as [hd|] eqn:F; [|discriminate].
    inversion Hs; subst; clear Hs.
    destruct (loop_fix_spec _ (own_stmt_length b) _ _ _ F) as (L & M & nb & jb & B & Le).
    assert (Ih : PInv h0 Ww Wk st n) by (eapply PInv_mono; eauto).
    exact (IHb _ _ _ B Ih).
  - (* call record: runs as its effect *)
    simpl in Hs. exact (IHe _ _ _ Hs I).
Qed.

(* the arrays of the parameters flagged in a list of booleans *)
Fixpoint writable (regs : list slice) (own0 : list bool) : list nat :=
  match regs, own0 with
  | s :: regs', b :: own' => if b then arr s :: writable regs' own' else writable regs' own'
  | _, _ => []
  end.

Lemma writable_spec regs : forall own0 v s, nth_error regs v = Some s -> nth v own0 false = true -> In (arr s) (writable regs own0).
Proof.
  induction regs as [|t regs IH]; intros [|b own0] [|v] s Hv Ho; simpl in *; try discriminate.
  - inversion Hv; subst. simpl. auto.
  - destruct b; [right|]; eapply IH; eauto.
Qed.

Lemma writable_none regs own0 : forallb negb own0 = true -> writable regs own0 = [].
Proof.
  revert own0. induction regs as [|t regs IH]; intros [|b own0] H; simpl in *; auto.
  apply andb_prop in H. destruct H as [Hb H]. destruct b; [discriminate|]. auto.
Qed.

Lemma nth_init_flags wf : forall kf v,
  (fw (nth v (init_flags wf kf) fbot) = true -> nth v wf false = true) /\
  (fk (nth v (init_flags wf kf) fbot) = true -> nth v kf false = true).
Proof.
  unfold init_flags. induction wf as [|a wf IH]; intros [|b kf] [|v]; simpl; split; intros H; try discriminate; auto;
    apply (IH kf v); exact H.
Qed.

Lemma length_init_flags wf kf : length wf = length kf -> length (init_flags wf kf) = length wf.
Proof. intros H. unfold init_flags. rewrite map_length, combine_length. lia. Qed.

(* THE FRAME THEOREM for function bodies. *)
Theorem disciplined_body_frames_the_caller h0 regs wf kf prog o h' regs' lg' :
  length wf = length regs -> length kf = length regs ->
  body_disciplined wf kf prog = true ->
  exec (h0, regs, []) prog o (h', regs', lg') ->
  (forall s, wf_slice h0 s -> ~ In (arr s) (writable regs wf) ->
     read h' s = read h0 s /\ read_cap h' s = read_cap h0 s) /\
  (forall r, In r lg' ->
     (length h0 <= arr r /\ forall s, wf_slice h0 s -> arr s <> arr r) \/ In (arr r) (writable regs kf)).
Proof.
  unfold body_disciplined. intros Lw Lk D X.
  destruct (own_stmt prog (init_flags wf kf)) as [[n j]|] eqn:S; [|discriminate].
  assert (I0 : PInv h0 (writable regs wf) (writable regs kf) (h0, regs, []) (init_flags wf kf)).
  { repeat split; auto.
    - intros s [].
    - rewrite length_init_flags; lia.
    - intros v s Hv Ho. right. eapply writable_spec; eauto. apply (nth_init_flags wf kf v). exact Ho.
    - intros v s Hv Ho. right. eapply writable_spec; eauto. apply (nth_init_flags wf kf v). exact Ho. }
  pose proof (own_stmt_sound h0 _ _ _ _ _ _ X _ _ _ S I0) as R.
  assert (F : PFrame h0 (writable regs wf) (writable regs kf) (h', regs', lg')).
  { destruct o; [eapply PInv_frame; eauto|eapply PInv_frame; eauto|exact R]. }
  destruct F as (Lh & Fa & G). split.
  - intros s (Ha & _) Hw. split; [apply read_ext | apply read_cap_ext]; apply Fa; auto.
  - intros r Hr. destruct (G r Hr) as [K|K]; [left|right; exact K].
    split; [exact K|]. intros s (Ha & _) E. lia.
Qed.

(* for an API function (no parameter may be written or kept): the caller's whole memory is unchanged
   and every escaped slice is in an array allocated during the call *)
Corollary disciplined_api_body_frames_the_caller h0 regs wf kf prog o h' regs' lg' :
  length wf = length regs -> length kf = length regs ->
  forallb negb wf = true -> forallb negb kf = true ->
  body_disciplined wf kf prog = true ->
  exec (h0, regs, []) prog o (h', regs', lg') ->
  (forall s, wf_slice h0 s -> read h' s = read h0 s /\ read_cap h' s = read_cap h0 s) /\
  (forall r, In r lg' -> length h0 <= arr r /\ forall s, wf_slice h0 s -> arr s <> arr r).
Proof.
  intros Lw Lk Nw Nk D X. destruct (disciplined_body_frames_the_caller _ _ _ _ _ _ _ _ _ Lw Lk D X) as [F G].
  rewrite (writable_none regs wf Nw) in *. rewrite (writable_none regs kf Nk) in *. split.
  - intros s Ws. apply F; auto.
  - intros r Hr. destruct (G r Hr) as [K|[]]. exact K.
Qed.

(* ---- non-vacuity and necessity ---- *)

(* the shape of a constructor with a loop: clone the key parameter, fix it up in a loop that may
   `continue`, keep it: disciplined, and it really runs (one iteration, then the escape) *)
Example disciplined_body_example :
  let h0 := [[1; 2; 3]%N; [9; 9]%N] in
  let regs := [mkSlice 0 0 3 3; mkSlice 1 0 2 2; mkSlice 0 0 0 0] in
  let prog := seq [SClone 2 0; SLoop (seq [SSet 2; SIf SJump SSkip]); SEscape 2; SReturn] in
  body_disciplined [false; false; false] [false; false; false] prog = true /\
  exists h' regs' r, exec (h0, regs, []) prog OReturn (h', regs', [r]) /\ arr r = 2 /\
    firstn 2 h' = h0 /\ read h' r = [7; 2; 3]%N.
Proof.
  split; [vm_compute; reflexivity|].
  eexists. eexists. eexists. split.
  - cbn [seq].
    eapply E_seq. { apply E_atom. eapply A_clone with (nc := 0). reflexivity. }
    eapply E_seq.
    { eapply E_loop_iter with (o := OJump); [discriminate| |apply E_loop_exit].
      eapply E_seq.
      - apply E_atom. eapply A_set with (i := 0) (x := 7%N); [reflexivity|vm_compute; reflexivity].
      - apply E_if_l. apply E_jump. }
    eapply E_seq. { apply E_atom. eapply A_escape. vm_compute. reflexivity. }
    apply E_return.
  - vm_compute. auto.
Qed.

(* the analysis is necessary: a body that lets a callee write into a parameter, appends to it, or
   keeps it, has an execution in which the caller sees the change / the kept slice is the caller's *)
Theorem undisciplined_bodies_refuted :
  (body_disciplined [false] [false] (SWrite 0) = false /\
   exists h0 param caller h' regs' lg',
     exec (h0, [param], []) (SWrite 0) ONormal (h', regs', lg') /\ wf_slice h0 caller /\
     read_cap h' caller <> read_cap h0 caller) /\
  (body_disciplined [false; false] [false; false] (SAppend 1 0) = false /\
   exists h0 param caller h' regs' lg',
     exec (h0, [param; param], []) (SAppend 1 0) ONormal (h', regs', lg') /\ wf_slice h0 caller /\
     read h' caller <> read h0 caller) /\
  (body_disciplined [false] [false] (SEscape 0) = false /\
   exists h0 param h' regs' r,
     exec (h0, [param], []) (SEscape 0) ONormal (h', regs', [r]) /\ wf_slice h0 param /\ arr r = arr param).
Proof.
  repeat split.
  - exists [[1; 2; 3; 170]%N], (mkSlice 0 0 3 4), (mkSlice 0 0 3 4). eexists. eexists. eexists. split.
    + apply E_atom. eapply A_write with (p := 3) (bs := [7%N]); [reflexivity|simpl; lia].
    + split; [unfold wf_slice; simpl; lia|vm_compute; discriminate].
  - exists [[1; 2; 3; 170]%N], (mkSlice 0 0 3 4), (mkSlice 0 0 4 4). eexists. eexists. eexists. split.
    + apply E_atom. eapply A_append with (xs := [7%N]) (nc := 0). reflexivity.
    + split; [unfold wf_slice; simpl; lia|vm_compute; discriminate].
  - exists [[1; 2; 3]%N], (mkSlice 0 0 3 3). eexists. eexists. eexists. split.
    + apply E_atom. eapply A_escape. reflexivity.
    + split; [unfold wf_slice; simpl; lia|reflexivity].
Qed.

(* the full check of one table entry, as far as it does not need the table *)
Definition body_checked (objs : list nat) (wf kf : list bool) (p : stmt) : bool :=
  obj_wf objs p && body_disciplined wf kf p.

(* NEGATIVE EXAMPLES (third audit).  Register 0 is a byte-slice parameter the function owns in no sense.
   - the pointer-alias probes: an object register copied with SAlias / SPhi, a store through the copy, the
     original returned (or written through): rejected - object registers may not be copied (one register per
     may-alias class is what the translator must emit);
   - what the translator emits for them instead (one register for o1 and o2): the store lowers the class, the
     escape / the write is rejected by the ownership analysis;
   - the Read(p) exemption grants WRITE only: keeping a piece of p in the receiver is rejected. *)
Example alias_probes_are_rejected :
  body_checked [1; 2] [false; false; false] [false; false; false]
    (seq [SMake 1; SAlias 2 1; SStore 2 0; SEscape 1; SReturn]) = false /\
  body_checked [1; 2; 3] [false; false; false; false] [false; false; false; false]
    (seq [SMake 1; SAlias 2 1; SAlias 3 2; SStore 3 0; SEscape 2; SReturn]) = false /\
  body_checked [1; 2; 3; 4; 5] [false; false; false; false; false; false] [false; false; false; false; false; false]
    (seq [SMake 1; SMake 2; SPhi 3 [1; 2]; SAlias 4 3; SLoop (seq [SAlias 5 4; SStore 5 0]); SEscape 4; SReturn]) = false /\
  body_checked [1; 2; 3; 4] [false; false; false; false; false] [false; false; false; false; false]
    (seq [SMake 1; SPhi 2 [1]; SAlias 3 2; SAlias 4 3; SStore 4 0; SSet 3; SReturn]) = false /\
  (* one register per class: o1 = o2 = register 1 *)
  body_checked [1] [false; false] [false; false] (seq [SMake 1; SStore 1 0; SEscape 1; SReturn]) = false /\
  body_checked [1] [false; false] [false; false] (seq [SMake 1; SStore 1 0; SSet 1; SReturn]) = false /\
  (* ... while the same shape with a clone of the parameter passes *)
  body_checked [1] [false; false; false] [false; false; false]
    (seq [SMake 1; SClone 2 0; SStore 1 2; SEscape 1; SReturn]) = true /\
  (* Read(p): register 0 = the receiver (nothing allowed), register 1 = p (write allowed, keep not) *)
  body_checked [0] [false; true] [false; false] (seq [SSet 1; SReturn]) = true /\
  body_checked [0] [false; true; false] [false; false; false] (seq [SSub 2 1; SSet 2; SReturn]) = true /\
  body_checked [0] [false; true; false] [false; false; false] (seq [SSub 2 1; SStore 0 2; SReturn]) = false /\
  (* storing into an object after it was handed out lets the stored value escape *)
  body_checked [1] [false; false] [false; false] (seq [SMake 1; SEscape 1; SStore 1 0; SReturn]) = false.
Proof. vm_compute. repeat split. Qed.

(* NEGATIVE EXAMPLES (fourth audit): the counter-instances that the previous version of the check accepted.
   - an object register bound to ANOTHER live object register by a self-including SPhi, a store through the
     copy, the original returned / written through: SPhi may not target an object register any more;
     with SBind (the form the translator now emits for a variable bound to a temporary) the source is killed;
   - an object register copied into a plain register that is then stored into: stores go into object
     registers only;
   - an object built here that is stored into somebody else's object is no longer private: a later store of
     caller memory into it is an escape;
   - a call effect that sits behind a return does not meet the callee's contract. *)
Example fourth_audit_counter_instances_are_rejected :
  body_checked [1; 2] [false; false; false] [false; false; false]
    (seq [SMake 1; SMake 2; SPhi 2 [2; 1]; SStore 2 0; SEscape 1; SReturn]) = false /\
  body_checked [1; 2] [false; false; false] [false; false; false]
    (seq [SMake 1; SMake 2; SPhi 2 [2; 1]; SStore 2 0; SSet 1; SReturn]) = false /\
  body_checked [1; 2] [false; false; false] [false; false; false]
    (seq [SMake 1; SMake 2; SBind 2 1; SStore 2 0; SEscape 1; SReturn]) = false /\
  body_checked [1; 2] [false; false; false] [false; false; false]
    (seq [SMake 1; SMake 2; SBind 2 1; SStore 2 0; SSet 1; SReturn]) = false /\
  body_checked [1] [false; false; false; false] [false; false; false; false]
    (seq [SMake 1; SAlias 3 1; SStore 3 0; SEscape 1; SReturn]) = false /\
  body_checked [1; 2] [false; false; false] [false; false; false]
    (seq [SMake 1; SOpaque 2; SStore 2 1; SStore 1 0; SReturn]) = false /\
  calls_ok (fun _ => ([true], [true])) (SCall 0 [[0]] (seq [SReturn; SWrite 0; SEscape 0])) = false /\
  (* the positive counterparts *)
  body_checked [1; 2] [false; false; false; false] [false; false; false; false]
    (seq [SMake 1; SMake 2; SBind 2 1; SClone 3 0; SStore 2 3; SEscape 2; SReturn]) = true /\
  calls_ok (fun _ => ([true], [true])) (SCall 0 [[0]] (seq [SWrite 0; SEscape 0; SReturn])) = true.
Proof. vm_compute. repeat split. Qed.

(* NEGATIVE EXAMPLES (fifth audit).  An object stored into another object: `i := &inner{}; o := &outer{in: i};
   i.b = p; return o`.  A plain SStore of an object register is not well-formed any more; SStoreObj kills the
   stored register, so the later store through it is a store into an unknown object and needs a keepable value.
   The same through one private intermediate.  And the register of a class of local objects may be made only in
   the entry prefix: a second SMake would reset flags that were lowered. *)
Example fifth_audit_counter_instances_are_rejected :
  body_checked [1; 2] [false; false; false] [false; false; false]
    (seq [SMake 1; SMake 2; SStore 2 1; SStore 1 0; SEscape 2; SReturn]) = false /\
  body_checked [1; 2] [false; false; false] [false; false; false]
    (seq [SMake 1; SMake 2; SStoreObj 2 1; SStore 1 0; SEscape 2; SReturn]) = false /\
  body_checked [1; 2; 3; 4] [false; false; false; false; false] [false; false; false; false; false]
    (seq [SMake 1; SMake 2; SOpaque 3; SStoreObj 2 1; SStoreObj 3 2; SStore 1 0; SReturn]) = false /\
  classes_made_once [1] (seq [SMake 1; SStore 1 0; SMake 1; SEscape 1; SReturn]) = false /\
  (* positive: the object is filled before it is stored *)
  body_checked [1; 2] [false; false; false; false] [false; false; false; false]
    (seq [SMake 1; SMake 2; SClone 3 0; SStore 1 3; SStoreObj 2 1; SEscape 2; SReturn]) = true /\
  classes_made_once [1] (seq [SMake 1; SMake 2; SStore 1 0; SReturn]) = true.
Proof. vm_compute. repeat split. Qed.
