(* C19, function-body level: the frame theorem for the structured slice language of
   model/HeapProg.v.  A function body that passes the ownership analysis `own_stmt` from the
   initial flags own0 (true exactly for the parameters the function is ALLOWED to write or keep:
   none for an API function, the inferred contract for an internal helper) - on every
   execution, also one that stops early by return, break or panic, whatever branches it takes,
   however often its loops run, whatever indices, lengths and bytes it uses -
     (1) changes no array that existed at the call except those of the allowed parameters, and
     (2) lets escape (returns, stores in shared objects) only slices that live in arrays
         allocated during the call or in arrays of the allowed parameters. *)
From Coq Require Import List NArith Arith Bool Lia.
From Tink Require Import Heap HeapProofs HeapProg.
Import ListNotations.

(* ---- lists of flags ---- *)

Lemma nth_andl a b v : nth v (andl a b) false = nth v a false && nth v b false.
Proof.
  unfold andl. revert b v. induction a as [|x a IH]; intros [|y b] [|v]; simpl; auto.
  - rewrite andb_false_r. reflexivity.
  - rewrite andb_false_r. reflexivity.
Qed.

Lemma length_andl a b : length a = length b -> length (andl a b) = length a.
Proof. intros H. unfold andl. rewrite map_length, combine_length. lia. Qed.

Lemma lel_nth a b : length a = length b -> lel a b = true ->
  forall v, nth v a false = true -> nth v b false = true.
Proof.
  unfold lel. revert b. induction a as [|x a IH]; intros [|y b] L H v Hv; simpl in *; try discriminate.
  - destruct v; discriminate.
  - apply andb_prop in H. destruct H as [H1 H2]. destruct v as [|v].
    + subst x. exact H1.
    + apply IH; auto.
Qed.

Lemma nth_top own v : v < length own -> nth v (top own) false = true.
Proof.
  unfold top. revert v. induction own as [|x l IH]; intros [|v] H; simpl in *; try lia; auto. apply IH. lia.
Qed.

Lemma length_top own : length (top own) = length own.
Proof. unfold top. apply map_length. Qed.

Lemma nth_true_lt (l : list bool) v : nth v l false = true -> v < length l.
Proof. revert v. induction l as [|x l IH]; intros [|v] H; simpl in *; try discriminate; try lia. apply IH in H. lia. Qed.

Lemma nth_set_nth_flag r b own v :
  nth v (set_nth r b own) false = true -> (v = r /\ b = true) \/ (v <> r /\ nth v own false = true).
Proof.
  intros H. destruct (Nat.eq_dec v r) as [->|Hne].
  - left. split; auto. pose proof (nth_true_lt _ _ H) as L. rewrite set_nth_length in L.
    rewrite nth_set_nth_eq in H by exact L. exact H.
  - right. split; auto. rewrite nth_set_nth_neq in H by auto. exact H.
Qed.

Lemma nth_error_set_nth {A} r (x : A) l v y :
  nth_error (set_nth r x l) v = Some y -> (v = r /\ y = x) \/ (v <> r /\ nth_error l v = Some y).
Proof.
  revert r v. induction l as [|z l IH]; intros r v H.
  - destruct r, v; simpl in H; discriminate.
  - destruct r as [|r], v as [|v]; simpl in H.
    + inversion H. left. auto.
    + right. split; [discriminate|exact H].
    + right. split; [discriminate|exact H].
    + apply IH in H. destruct H as [[-> ->]|[Hne H]]; [left; auto|right; split; [congruence|exact H]].
Qed.

(* ---- lengths are preserved by the analysis ---- *)

Lemma loop_fix_S f k hd : loop_fix f (S k) hd =
  match f hd with
  | None => None
  | Some (n, j) => if lel hd (andl n j) then Some hd else loop_fix f k (andl hd (andl n j))
  end.
Proof. reflexivity. Qed.

Lemma loop_fix_O f hd : loop_fix f 0 hd = None.
Proof. reflexivity. Qed.

Arguments loop_fix : simpl never.

Lemma loop_fix_length f : (forall x n j, f x = Some (n, j) -> length n = length x /\ length j = length x) ->
  forall fuel hd0 hd, loop_fix f fuel hd0 = Some hd -> length hd = length hd0.
Proof.
  intros Hf. induction fuel as [|k IH]; intros hd0 hd H; [rewrite loop_fix_O in H; discriminate|rewrite loop_fix_S in H].
  destruct (f hd0) as [[n j]|] eqn:F; [|discriminate].
  destruct (Hf _ _ _ F) as [Ln Lj].
  destruct (lel hd0 (andl n j)).
  - inversion H; subst. reflexivity.
  - apply IH in H. rewrite H. apply length_andl. rewrite length_andl; lia.
Qed.

Lemma own_stmt_length s : forall own n j, own_stmt s own = Some (n, j) -> length n = length own /\ length j = length own.
Proof.
  induction s as [r|r v|r v|r vs|r|v|v|r v|d s0|r vs|r v|x v|v| | | |a IHa b IHb|a IHa b IHb|b IHb];
    intros own n j H; simpl in H;
    try (inversion H; subst; rewrite ?set_nth_length, ?length_top; split; reflexivity).
  - destruct (nth v own false); inversion H; subst. rewrite length_top. auto.
  - destruct (nth v own false); inversion H; subst. rewrite length_top. auto.
  - destruct (nth v own false); inversion H; subst. rewrite length_top, set_nth_length. auto.
  - destruct (nth d own false); inversion H; subst. rewrite length_top. auto.
  - destruct (nth x own false); [|destruct (nth v own false)]; inversion H; subst;
      rewrite length_top, ?set_nth_length; auto.
  - destruct (nth v own false); inversion H; subst. rewrite length_top. auto.
  - destruct (own_stmt a own) as [[na ja]|] eqn:A; [|discriminate].
    destruct (own_stmt b na) as [[nb jb]|] eqn:B; [|discriminate].
    inversion H; subst. destruct (IHa _ _ _ A) as [L1 L2]. destruct (IHb _ _ _ B) as [L3 L4].
    split; [lia|]. rewrite length_andl; lia.
  - destruct (own_stmt a own) as [[na ja]|] eqn:A; [|discriminate].
    destruct (own_stmt b own) as [[nb jb]|] eqn:B; [|discriminate].
    inversion H; subst. destruct (IHa _ _ _ A) as [L1 L2]. destruct (IHb _ _ _ B) as [L3 L4].
    split; rewrite length_andl; lia.
  - destruct (loop_fix (own_stmt b) (S (length own)) own) as [hd|] eqn:F; [|discriminate].
    inversion H; subst. rewrite length_top. split; auto.
    apply (loop_fix_length (own_stmt b) IHb) in F. exact F.
Qed.

(* what a successful loop analysis gives: flags hd below the incoming ones, stable under the body *)
Lemma loop_fix_spec f : (forall x n j, f x = Some (n, j) -> length n = length x /\ length j = length x) ->
  forall fuel hd0 hd, loop_fix f fuel hd0 = Some hd ->
    length hd = length hd0 /\ (forall v, nth v hd false = true -> nth v hd0 false = true) /\
    exists n j, f hd = Some (n, j) /\ lel hd (andl n j) = true.
Proof.
  intros Hf. induction fuel as [|k IH]; intros hd0 hd H; [rewrite loop_fix_O in H; discriminate|rewrite loop_fix_S in H].
  destruct (f hd0) as [[n j]|] eqn:F; [|discriminate].
  destruct (Hf _ _ _ F) as [Ln Lj].
  destruct (lel hd0 (andl n j)) eqn:Le.
  - inversion H; subst. split; auto. split; auto. exists n, j. auto.
  - apply IH in H. destruct H as (L & M & E). split.
    + rewrite L. apply length_andl. rewrite length_andl; lia.
    + split; auto. intros v Hv. apply M in Hv. rewrite nth_andl in Hv. apply andb_prop in Hv. tauto.
Qed.

(* ---- the invariant ---- *)

Definition okarr (n0 : nat) (W : list nat) (a : nat) : Prop := n0 <= a \/ In a W.

(* the part that does not mention flags: arrays of the caller outside W are untouched, every escaped
   slice lives in a fresh array or in W *)
Definition PFrame (h0 : heap) (W : list nat) (st : pstate) : Prop :=
  let '(h, rs, lg) := st in
  length h0 <= length h /\
  (forall a, a < length h0 -> ~ In a W -> array h a = array h0 a) /\
  (forall s, In s lg -> okarr (length h0) W (arr s)).

Definition PInv (h0 : heap) (W : list nat) (st : pstate) (own : list bool) : Prop :=
  let '(h, rs, lg) := st in
  PFrame h0 W st /\ length own = length rs /\
  (forall v s, nth_error rs v = Some s -> nth v own false = true -> okarr (length h0) W (arr s)).

Lemma PInv_frame h0 W st own : PInv h0 W st own -> PFrame h0 W st.
Proof. destruct st as [[h rs] lg]. intros (F & _). exact F. Qed.

Lemma PInv_mono h0 W st own own' : PInv h0 W st own -> length own' = length own ->
  (forall v, nth v own' false = true -> nth v own false = true) -> PInv h0 W st own'.
Proof.
  destruct st as [[h rs] lg]. intros (F & L & O) L' M. split; [exact F|]. split; [lia|].
  intros v s Hv Ho. eapply O; eauto.
Qed.

Lemma PInv_andl_l h0 W st a b : PInv h0 W st a -> length a = length b -> PInv h0 W st (andl a b).
Proof.
  intros I L. eapply PInv_mono; eauto. apply length_andl; auto.
  intros v H. rewrite nth_andl in H. apply andb_prop in H. tauto.
Qed.

Lemma PInv_andl_r h0 W st a b : PInv h0 W st b -> length a = length b -> PInv h0 W st (andl a b).
Proof.
  intros I L. eapply PInv_mono; eauto. rewrite length_andl; auto.
  intros v H. rewrite nth_andl in H. apply andb_prop in H. tauto.
Qed.

(* a register is (re)assigned; the heap may have grown or been written in permitted places *)
Lemma PInv_assign h0 W h rs lg own h' r s b :
  PInv h0 W (h, rs, lg) own ->
  length h0 <= length h' ->
  (forall a, a < length h0 -> ~ In a W -> array h' a = array h a) ->
  (b = true -> okarr (length h0) W (arr s)) ->
  PInv h0 W (h', set_nth r s rs, lg) (set_nth r b own).
Proof.
  intros ((L & F & G) & E & O) L' F' B. repeat split; auto.
  - intros a Ha Hw. rewrite F' by auto. apply F; auto.
  - rewrite !set_nth_length. exact E.
  - intros v t Hv Ho. apply nth_error_set_nth in Hv. apply nth_set_nth_flag in Ho.
    destruct Hv as [[-> ->]|[Hne Hv]]; destruct Ho as [[Hr Hb]|[Hne' Ho]]; try congruence; auto.
    eapply O; eauto.
Qed.

Lemma PInv_heap h0 W h rs lg own h' :
  PInv h0 W (h, rs, lg) own ->
  length h0 <= length h' ->
  (forall a, a < length h0 -> ~ In a W -> array h' a = array h a) ->
  PInv h0 W (h', rs, lg) own.
Proof.
  intros ((L & F & G) & E & O) L' F'. repeat split; auto.
  intros a Ha Hw. rewrite F' by auto. apply F; auto.
Qed.

Lemma PInv_write h0 W h rs lg own a p bs :
  PInv h0 W (h, rs, lg) own -> okarr (length h0) W a -> PInv h0 W (heap_write h a p bs, rs, lg) own.
Proof.
  intros I K. pose proof I as ((L & _) & _). apply PInv_heap with (h := h); auto.
  - rewrite heap_write_length. exact L.
  - intros b Hb Hw. apply heap_write_other. intros ->. destruct K as [K|K]; [lia|contradiction].
Qed.

Lemma owned_ok h0 W h rs lg own v s :
  PInv h0 W (h, rs, lg) own -> nth_error rs v = Some s -> nth v own false = true -> okarr (length h0) W (arr s).
Proof. intros (_ & _ & O) Hv Ho. eapply O; eauto. Qed.

Lemma sub_arr s lo hi t : sub s lo hi = Some t -> arr t = arr s.
Proof. unfold sub. destruct (_ && _); [|discriminate]. intros H; inversion H; reflexivity. Qed.

Lemma sub3_arr s lo hi mx t : sub3 s lo hi mx = Some t -> arr t = arr s.
Proof. unfold sub3. destruct (_ && _); [|discriminate]. intros H; inversion H; reflexivity. Qed.

(* one atomic statement preserves the invariant *)
Lemma astep_sound h0 W st s st' : astep st s st' ->
  forall own n j, own_stmt s own = Some (n, j) -> PInv h0 W st own -> PInv h0 W st' n.
Proof.
  intros A own n j S I. destruct A; simpl in S.
  - (* make *)
    inversion S; subst; clear S. pose proof I as ((L & _) & _).
    unfold make. cbn [fst snd arr]. apply PInv_assign with (h := h); auto.
    + rewrite heap_write_length, app_length. simpl. lia.
    + intros a Ha Hw. rewrite heap_write_other by lia. apply array_app_old. lia.
    + intros _. left. simpl. exact L.
  - (* sub *)
    inversion S; subst; clear S. apply PInv_assign with (h := h); auto.
    + pose proof I as ((L & _) & _). exact L.
    + intros B. erewrite sub_arr by eauto. eapply owned_ok; eauto.
  - inversion S; subst; clear S. apply PInv_assign with (h := h); auto.
    + pose proof I as ((L & _) & _). exact L.
    + intros B. erewrite sub3_arr by eauto. eapply owned_ok; eauto.
  - (* alias *)
    inversion S; subst; clear S. apply PInv_assign with (h := h); auto.
    + pose proof I as ((L & _) & _). exact L.
    + intros B. eapply owned_ok; eauto.
  - (* phi *)
    inversion S; subst; clear S. apply PInv_assign with (h := h); auto.
    + pose proof I as ((L & _) & _). exact L.
    + intros B. rewrite forallb_forall in B. eapply owned_ok; eauto.
  - (* opaque *)
    inversion S; subst; clear S. apply PInv_assign with (h := h); auto.
    + pose proof I as ((L & _) & _). exact L.
    + discriminate.
  - (* set *)
    destruct (nth v own false) eqn:Ow; [|discriminate]. inversion S; subst; clear S.
    unfold set in H0. destruct (i <? len s); [|discriminate]. inversion H0; subst.
    apply PInv_write; auto. eapply owned_ok; eauto.
  - (* write *)
    destruct (nth v own false) eqn:Ow; [|discriminate]. inversion S; subst; clear S.
    apply PInv_write; auto. eapply owned_ok; eauto.
  - (* append *)
    destruct (nth v own false) eqn:Ow; [|discriminate]. inversion S; subst; clear S.
    pose proof (owned_ok _ _ _ _ _ _ _ _ I H Ow) as K. pose proof I as ((L & _) & _).
    unfold append. destruct (len s + length xs <=? cap s); cbn [fst snd].
    + apply PInv_assign with (h := h); auto.
      * rewrite heap_write_length. exact L.
      * intros a Ha Hw. apply heap_write_other. intros ->. destruct K as [K|K]; [lia|contradiction].
    + apply PInv_assign with (h := h); auto.
      * rewrite app_length. simpl. lia.
      * intros a Ha Hw. apply array_app_old. lia.
      * intros _. left. simpl. exact L.
  - (* copy *)
    destruct (nth d own false) eqn:Ow; [|discriminate]. inversion S; subst; clear S.
    unfold copy. apply PInv_write; auto. eapply owned_ok; eauto.
  - (* concat *)
    inversion S; subst; clear S. pose proof I as ((L & _) & _).
    unfold concat. cbn [fst snd]. apply PInv_assign with (h := h); auto.
    + rewrite app_length. simpl. lia.
    + intros a Ha Hw. apply array_app_old. lia.
    + intros _. left. simpl. exact L.
  - (* clone *)
    inversion S; subst; clear S. pose proof I as ((L & _) & _).
    unfold clone. cbn [fst snd]. apply PInv_assign with (h := h); auto.
    + rewrite app_length. simpl. lia.
    + intros a Ha Hw. apply array_app_old. lia.
    + intros _. left. simpl. exact L.
  - (* store, register unchanged *)
    destruct (nth x own false) eqn:Ox.
    + inversion S; subst; clear S. destruct I as (F & E & O). split; [exact F|]. split.
      * rewrite set_nth_length. exact E.
      * intros w t Hw Ho. apply nth_set_nth_flag in Ho. destruct Ho as [[-> _]|[_ Ho]]; eapply O; eauto.
    + destruct (nth v own false); [|discriminate]. inversion S; subst. exact I.
  - (* store, register now shows the stored slice *)
    destruct (nth x own false) eqn:Ox.
    + inversion S; subst; clear S. apply PInv_assign with (h := h); auto.
      * pose proof I as ((L & _) & _). exact L.
      * intros B. eapply owned_ok; eauto.
    + destruct (nth v own false) eqn:Ov; [|discriminate]. inversion S; subst; clear S.
      pose proof (owned_ok _ _ _ _ _ _ _ _ I H Ov) as K.
      destruct I as (F & E & O). split; [exact F|]. split.
      * rewrite set_nth_length. exact E.
      * intros w t Hw Ho. apply nth_error_set_nth in Hw. destruct Hw as [[-> ->]|[_ Hw]]; [exact K|eapply O; eauto].
  - (* escape *)
    destruct (nth v own false) eqn:Ow; [|discriminate]. inversion S; subst; clear S.
    pose proof (owned_ok _ _ _ _ _ _ _ _ I H Ow) as K.
    destruct I as ((L & F & G) & E & O). repeat split; auto.
    intros t [<-|Ht]; auto.
Qed.

Lemma not_astep_struct st st' :
  (~ astep st SSkip st') /\ (~ astep st SJump st') /\ (~ astep st SReturn st') /\
  (forall a b, ~ astep st (SSeq a b) st') /\ (forall a b, ~ astep st (SIf a b) st') /\ (forall b, ~ astep st (SLoop b) st').
Proof. repeat split; intros; intro H; inversion H. Qed.

(* every execution preserves the invariant, whatever way it ends *)
Theorem own_stmt_sound h0 W : forall st s o st', exec st s o st' ->
  forall own n j, own_stmt s own = Some (n, j) -> PInv h0 W st own ->
    match o with
    | ONormal => PInv h0 W st' n
    | OJump => PInv h0 W st' j
    | OReturn => PFrame h0 W st'
    end.
Proof.
  induction 1 as [st s|st s st' A|st|st|st|st a b st1 o st2 Ha IHa Hb IHb|st a b o st1 No Ha IHa
                 |st a b o st' Ha IHa|st a b o st' Hb IHb|st b|st b o st1 o' st2 No Hb IHb Hl IHl|st b st1 Hb IHb];
    intros own n j Hs I.
  - eapply PInv_frame; eauto.
  - eapply astep_sound; eauto.
  - simpl in Hs. inversion Hs; subst. exact I.
  - simpl in Hs. inversion Hs; subst. exact I.
  - eapply PInv_frame; eauto.
  - (* seq, first part normal *)
    simpl in Hs. destruct (own_stmt a own) as [[na ja]|] eqn:A; [|discriminate].
    destruct (own_stmt b na) as [[nb jb]|] eqn:B; [|discriminate]. inversion Hs; subst; clear Hs.
    pose proof (IHa _ _ _ A I) as I1. simpl in I1. pose proof (IHb _ _ _ B I1) as I2.
    destruct (own_stmt_length _ _ _ _ A) as [La Lja]. destruct (own_stmt_length _ _ _ _ B) as [Lb Ljb].
    destruct o; auto. apply PInv_andl_r; auto. lia.
  - (* seq, first part jumps or returns *)
    simpl in Hs. destruct (own_stmt a own) as [[na ja]|] eqn:A; [|discriminate].
    destruct (own_stmt b na) as [[nb jb]|] eqn:B; [|discriminate]. inversion Hs; subst; clear Hs.
    pose proof (IHa _ _ _ A I) as I1.
    destruct (own_stmt_length _ _ _ _ A) as [La Lja]. destruct (own_stmt_length _ _ _ _ B) as [Lb Ljb].
    destruct o; auto; [congruence|]. apply PInv_andl_l; auto. lia.
  - (* if, left *)
    simpl in Hs. destruct (own_stmt a own) as [[na ja]|] eqn:A; [|discriminate].
    destruct (own_stmt b own) as [[nb jb]|] eqn:B; [|discriminate]. inversion Hs; subst; clear Hs.
    pose proof (IHa _ _ _ A I) as I1.
    destruct (own_stmt_length _ _ _ _ A) as [La Lja]. destruct (own_stmt_length _ _ _ _ B) as [Lb Ljb].
    destruct o; auto; apply PInv_andl_l; auto; lia.
  - (* if, right *)
    simpl in Hs. destruct (own_stmt a own) as [[na ja]|] eqn:A; [|discriminate].
    destruct (own_stmt b own) as [[nb jb]|] eqn:B; [|discriminate]. inversion Hs; subst; clear Hs.
    pose proof (IHb _ _ _ B I) as I1.
    destruct (own_stmt_length _ _ _ _ A) as [La Lja]. destruct (own_stmt_length _ _ _ _ B) as [Lb Ljb].
    destruct o; auto; apply PInv_andl_r; auto; lia.
  - (* loop exit *)
    simpl in Hs. destruct (loop_fix (own_stmt b) (Datatypes.S (length own)) own) as [hd|] eqn:F; [|discriminate].
    inversion Hs; subst; clear Hs.
    destruct (loop_fix_spec _ (own_stmt_length b) _ _ _ F) as (L & M & _).
    eapply PInv_mono; eauto.
  - (* loop, one more iteration *)
    simpl in Hs. destruct (loop_fix (own_stmt b) (Datatypes.S (length own)) own) as [hd|] eqn:F; [|discriminate].
    inversion Hs; subst; clear Hs.
    destruct (loop_fix_spec _ (own_stmt_length b) _ _ _ F) as (L & M & nb & jb & B & Le).
    assert (Ih : PInv h0 W st n) by (eapply PInv_mono; eauto).
    destruct (own_stmt_length _ _ _ _ B) as [Lb Ljb].
    assert (I1 : PInv h0 W st1 n).
    { pose proof (IHb _ _ _ B Ih) as I1.
      assert (Ma : forall v, nth v n false = true -> nth v (andl nb jb) false = true).
      { apply lel_nth; auto. rewrite length_andl; lia. }
      destruct o; [| |congruence].
      - eapply PInv_mono; eauto. intros v Hv. apply Ma in Hv. rewrite nth_andl in Hv. apply andb_prop in Hv. tauto.
      - eapply PInv_mono; eauto. intros v Hv. apply Ma in Hv. rewrite nth_andl in Hv. apply andb_prop in Hv. tauto. }
    assert (S' : own_stmt (SLoop b) n = Some (n, top n)).
    { cbn [own_stmt]. rewrite loop_fix_S, B, Le. reflexivity. }
    pose proof (IHl _ _ _ S' I1) as I2.
    destruct o'; auto.
    eapply PInv_mono; eauto.
    + rewrite !length_top. lia.
    + intros v Hv. apply nth_true_lt in Hv. rewrite length_top in Hv. apply nth_top. lia.
  - (* loop, body returns *)
    simpl in Hs. destruct (loop_fix (own_stmt b) (Datatypes.S (length own)) own) as [hd|] eqn:F; [|discriminate].
    inversion Hs; subst; clear Hs.
    destruct (loop_fix_spec _ (own_stmt_length b) _ _ _ F) as (L & M & nb & jb & B & Le).
    assert (Ih : PInv h0 W st n) by (eapply PInv_mono; eauto).
    exact (IHb _ _ _ B Ih).
Qed.

(* the arrays of the parameters the function is allowed to write or keep *)
Fixpoint writable (regs : list slice) (own0 : list bool) : list nat :=
  match regs, own0 with
  | s :: regs', b :: own' => if b then arr s :: writable regs' own' else writable regs' own'
  | _, _ => []
  end.

Lemma writable_spec regs : forall own0 v s, nth_error regs v = Some s -> nth v own0 false = true -> In (arr s) (writable regs own0).
Proof.
  induction regs as [|t regs IH]; intros [|b own0] [|v] s Hv Ho; simpl in *; try discriminate.
  - inversion Hv; subst. simpl. auto.
  - destruct b; [right|]; eapply IH; eauto.
Qed.

Lemma writable_none regs own0 : forallb negb own0 = true -> writable regs own0 = [].
Proof.
  revert own0. induction regs as [|t regs IH]; intros [|b own0] H; simpl in *; auto.
  apply andb_prop in H. destruct H as [Hb H]. destruct b; [discriminate|]. auto.
Qed.

(* THE FRAME THEOREM for function bodies. *)
Theorem disciplined_body_frames_the_caller h0 regs own0 prog o h' regs' lg' :
  length own0 = length regs ->
  body_disciplined own0 prog = true ->
  exec (h0, regs, []) prog o (h', regs', lg') ->
  (forall s, wf_slice h0 s -> ~ In (arr s) (writable regs own0) ->
     read h' s = read h0 s /\ read_cap h' s = read_cap h0 s) /\
  (forall r, In r lg' ->
     (length h0 <= arr r /\ forall s, wf_slice h0 s -> arr s <> arr r) \/ In (arr r) (writable regs own0)).
Proof.
  unfold body_disciplined. intros L D X.
  destruct (own_stmt prog own0) as [[n j]|] eqn:S; [|discriminate].
  assert (I0 : PInv h0 (writable regs own0) (h0, regs, []) own0).
  { repeat split; auto.
    - intros s [].
    - intros v s Hv Ho. right. eapply writable_spec; eauto. }
  pose proof (own_stmt_sound h0 _ _ _ _ _ X _ _ _ S I0) as R.
  assert (F : PFrame h0 (writable regs own0) (h', regs', lg')).
  { destruct o; [eapply PInv_frame; eauto|eapply PInv_frame; eauto|exact R]. }
  destruct F as (Lh & Fa & G). split.
  - intros s (Ha & _) Hw. split; [apply read_ext | apply read_cap_ext]; apply Fa; auto.
  - intros r Hr. destruct (G r Hr) as [K|K]; [left|right; exact K].
    split; [exact K|]. intros s (Ha & _) E. lia.
Qed.

(* for an API function (no parameter may be written or kept): the caller's whole memory is unchanged
   and every escaped slice is in an array allocated during the call *)
Corollary disciplined_api_body_frames_the_caller h0 regs own0 prog o h' regs' lg' :
  length own0 = length regs -> forallb negb own0 = true ->
  body_disciplined own0 prog = true ->
  exec (h0, regs, []) prog o (h', regs', lg') ->
  (forall s, wf_slice h0 s -> read h' s = read h0 s /\ read_cap h' s = read_cap h0 s) /\
  (forall r, In r lg' -> length h0 <= arr r /\ forall s, wf_slice h0 s -> arr s <> arr r).
Proof.
  intros L N D X. destruct (disciplined_body_frames_the_caller _ _ _ _ _ _ _ _ L D X) as [F G].
  rewrite (writable_none regs own0 N) in *. split.
  - intros s Ws. apply F; auto.
  - intros r Hr. destruct (G r Hr) as [K|[]]. exact K.
Qed.

(* ---- non-vacuity and necessity ---- *)

(* the shape of a constructor with a loop: clone the key parameter, fix it up in a loop that may
   `continue`, keep it: disciplined, and it really runs (one iteration, then the escape) *)
Example disciplined_body_example :
  let h0 := [[1; 2; 3]%N; [9; 9]%N] in
  let regs := [mkSlice 0 0 3 3; mkSlice 1 0 2 2; mkSlice 0 0 0 0] in
  let prog := seq [SClone 2 0; SLoop (seq [SSet 2; SIf SJump SSkip]); SEscape 2; SReturn] in
  body_disciplined [false; false; false] prog = true /\
  exists h' regs' r, exec (h0, regs, []) prog OReturn (h', regs', [r]) /\ arr r = 2 /\
    firstn 2 h' = h0 /\ read h' r = [7; 2; 3]%N.
Proof.
  split; [vm_compute; reflexivity|].
  eexists. eexists. eexists. split.
  - cbn [seq].
    eapply E_seq. { apply E_atom. eapply A_clone with (nc := 0). reflexivity. }
    eapply E_seq.
    { eapply E_loop_iter with (o := OJump); [discriminate| |apply E_loop_exit].
      eapply E_seq.
      - apply E_atom. eapply A_set with (i := 0) (x := 7%N); [reflexivity|vm_compute; reflexivity].
      - apply E_if_l. apply E_jump. }
    eapply E_seq. { apply E_atom. eapply A_escape. vm_compute. reflexivity. }
    apply E_return.
  - vm_compute. auto.
Qed.

(* the analysis is necessary: a body that lets a callee write into a parameter, appends to it, or
   keeps it, has an execution in which the caller sees the change / the kept slice is the caller's *)
Theorem undisciplined_bodies_refuted :
  (body_disciplined [false] (SWrite 0) = false /\
   exists h0 param caller h' regs' lg',
     exec (h0, [param], []) (SWrite 0) ONormal (h', regs', lg') /\ wf_slice h0 caller /\
     read_cap h' caller <> read_cap h0 caller) /\
  (body_disciplined [false; false] (SAppend 1 0) = false /\
   exists h0 param caller h' regs' lg',
     exec (h0, [param; param], []) (SAppend 1 0) ONormal (h', regs', lg') /\ wf_slice h0 caller /\
     read h' caller <> read h0 caller) /\
  (body_disciplined [false] (SEscape 0) = false /\
   exists h0 param h' regs' r,
     exec (h0, [param], []) (SEscape 0) ONormal (h', regs', [r]) /\ wf_slice h0 param /\ arr r = arr param).
Proof.
  repeat split.
  - exists [[1; 2; 3; 170]%N], (mkSlice 0 0 3 4), (mkSlice 0 0 3 4). eexists. eexists. eexists. split.
    + apply E_atom. eapply A_write with (p := 3) (bs := [7%N]); [reflexivity|simpl; lia].
    + split; [unfold wf_slice; simpl; lia|vm_compute; discriminate].
  - exists [[1; 2; 3; 170]%N], (mkSlice 0 0 3 4), (mkSlice 0 0 4 4). eexists. eexists. eexists. split.
    + apply E_atom. eapply A_append with (xs := [7%N]) (nc := 0). reflexivity.
    + split; [unfold wf_slice; simpl; lia|vm_compute; discriminate].
  - exists [[1; 2; 3]%N], (mkSlice 0 0 3 3). eexists. eexists. eexists. split.
    + apply E_atom. eapply A_escape. reflexivity.
    + split; [unfold wf_slice; simpl; lia|reflexivity].
Qed.
