(* Stretch (C01), continued: byte-level statements of PolyvalProofs.dot_impl_spec
   and the whole POLYVAL function. *)
From Coq Require Import List NArith ZArith Bool Arith Lia ZifyN ZifyNat ZifyBool.
From Tink Require Import Bytes Polyval PolyvalProofs.
Import ListNotations.
Open Scope N_scope.

Lemma le_val_app a c : le_val (a ++ c) = le_val a + 256 ^ N.of_nat (length a) * le_val c.
Proof.
  induction a as [|x a IH]; [cbn [app le_val length]; change (N.of_nat 0) with 0; rewrite N.pow_0_r; lia|].
  cbn [app le_val length]. rewrite IH, Nnat.Nat2N.inj_succ, N.pow_succ_r'. lia.
Qed.

Lemma le_val_lt l : wfb l -> le_val l < 256 ^ N.of_nat (length l).
Proof.
  induction l as [|x l IH]; intros H; [reflexivity|]. inversion H; subst.
  cbn [le_val length]. rewrite Nnat.Nat2N.inj_succ, N.pow_succ_r'. specialize (IH H3). lia.
Qed.

Lemma le_val_inj a b : wfb a -> wfb b -> length a = length b -> le_val a = le_val b -> a = b.
Proof.
  revert b; induction a as [|x a IH]; intros [|y b] Ha Hb Hl Hv; try discriminate; [reflexivity|].
  inversion Ha; inversion Hb; subst. cbn [le_val] in Hv. simpl in Hl.
  assert (x = y) by lia. subst. f_equal. apply IH; auto. lia.
Qed.

Lemma lxor_hi_add lo hi : lo < 2 ^ 64 -> N.lxor lo (N.shiftl hi 64) = lo + 2 ^ 64 * hi.
Proof.
  intros H. rewrite N.shiftl_mul_pow2, (N.mul_comm hi).
  symmetry. apply N.add_nocarry_lxor. apply N.bits_inj. intros n. rewrite N.land_spec, N.bits_0.
  destruct (N.lt_ge_cases n 64) as [Hn|Hn].
  - rewrite N.mul_comm, N.mul_pow2_bits_low by exact Hn. apply andb_false_r.
  - rewrite (small_bits lo 64 n H Hn). reflexivity.
Qed.

Lemma fe_of_block_n a : wfb a -> length a = 16%nat -> fe_of_block a = fe_of_n (le_val a).
Proof.
  intros Hw Hl. unfold fe_of_block, fe_of_n.
  rewrite <- (firstn_skipn 8 a) at 3 4. rewrite le_val_app, firstn_length, Hl.
  change (256 ^ N.of_nat (Nat.min 8 16)) with (2 ^ 64).
  assert (H1 : le_val (firstn 8 a) < 2 ^ 64).
  { pose proof (le_val_lt (firstn 8 a) (wfb_firstn 8 a Hw)) as H. rewrite firstn_length, Hl in H. exact H. }
  assert (H2 : le_val (skipn 8 a) < 2 ^ 64).
  { pose proof (le_val_lt (skipn 8 a) (wfb_skipn 8 a Hw)) as H. rewrite skipn_length, Hl in H. exact H. }
  rewrite (firstn_all2 (n := 8) (skipn 8 a)) by (rewrite skipn_length; lia).
  rewrite !N.land_ones, N.shiftr_div_pow2. f_equal; lia.
Qed.

Lemma block_of_fe_n x : b64 (fst x) -> b64 (snd x) -> block_of_fe x = le_bytes 16 (n_of_fe' x).
Proof.
  intros H1 H2. apply b64_iff in H1. apply b64_iff in H2. destruct x as [lo hi]. cbn [fst snd] in *.
  unfold block_of_fe, n_of_fe'. cbn [fst snd]. rewrite lxor_hi_add by exact H1.
  apply le_val_inj.
  - apply wfb_app. split; apply le_bytes_wf.
  - apply le_bytes_wf.
  - rewrite app_length, !le_bytes_length. reflexivity.
  - rewrite le_val_app, !le_val_le_bytes, le_bytes_length.
    change (256 ^ N.of_nat 8) with (2 ^ 64). change (256 ^ N.of_nat 16) with (2 ^ 128).
    rewrite !N.mod_small; lia.
Qed.

Lemma dot_impl_unfold a b : dot_impl a b = n_of_fe' (polyvalDot (fe_of_n a) (fe_of_n b)).
Proof. reflexivity. Qed.

(* polyvalDot on 16-byte blocks = dot of RFC 8452 on their little-endian values *)
Theorem polyvalDot_blocks a b : wfb a -> wfb b -> length a = 16%nat -> length b = 16%nat ->
  block_of_fe (polyvalDot (fe_of_block a) (fe_of_block b)) = le_bytes 16 (dot_spec (le_val a) (le_val b)).
Proof.
  intros Ha Hb La Lb. pose proof (b64_polyvalDot (fe_of_block a) (fe_of_block b)) as [B1 B2].
  rewrite block_of_fe_n by assumption. f_equal.
  rewrite !fe_of_block_n by assumption. rewrite <- dot_impl_unfold. apply dot_impl_spec.
  - pose proof (le_val_lt a Ha) as H. rewrite La in H. exact H.
  - pose proof (le_val_lt b Hb) as H. rewrite Lb in H. exact H.
Qed.

(* ---------- the whole POLYVAL: Update loop = fold over zero-padded blocks ---------- *)
Fixpoint blocks_fuel (fuel : nat) (d : bytes) : list bytes :=
  match fuel with
  | O => []
  | S f =>
    if Nat.leb 16 (length d) then firstn 16 d :: blocks_fuel f (skipn 16 d)
    else if Nat.ltb 0 (length d) then [d ++ zeros (16 - length d)]
    else []
  end.
(* the 16-byte blocks of d, the last one right-padded with zeros (RFC 8452 section 3/4) *)
Definition blocks_of (d : bytes) : list bytes := blocks_fuel (S (length d)) d.

Definition pv_step (K : fe) (acc : fe) (blk : bytes) : fe := polyvalDot (fe_xor acc (fe_of_block blk)) K.

Lemma pv_update_blocks K f : forall acc d,
  pv_update_fuel f K acc d = fold_left (pv_step K) (blocks_fuel f d) acc.
Proof.
  induction f; intros acc d; cbn [pv_update_fuel blocks_fuel]; [reflexivity|].
  destruct (Nat.leb 16 (length d)); [cbn [fold_left]; apply IHf|].
  destruct (Nat.ltb 0 (length d)); reflexivity.
Qed.

Lemma fold_pieces K pieces : forall acc,
  fold_left (pv_update K) pieces acc = fold_left (pv_step K) (flat_map blocks_of pieces) acc.
Proof.
  induction pieces as [|d t IH]; intros acc; [reflexivity|].
  cbn [fold_left flat_map]. rewrite fold_left_app, IH. f_equal. apply pv_update_blocks.
Qed.

Definition good_block (b : bytes) : Prop := wfb b /\ length b = 16%nat.

Lemma blocks_fuel_good f : forall d, wfb d -> Forall good_block (blocks_fuel f d).
Proof.
  induction f; intros d Hw; cbn [blocks_fuel]; [constructor|].
  destruct (Nat.leb_spec 16 (length d)).
  - constructor; [split; [apply wfb_firstn; exact Hw|rewrite firstn_length; lia]|].
    apply IHf. apply wfb_skipn. exact Hw.
  - destruct (Nat.ltb_spec 0 (length d)); constructor; [|constructor].
    split; [apply wfb_app; split; [exact Hw|apply zeros_wf]|rewrite app_length, zeros_length; lia].
Qed.

Lemma flat_blocks_good pieces : Forall wfb pieces -> Forall good_block (flat_map blocks_of pieces).
Proof.
  induction 1; cbn [flat_map]; [constructor|]. apply Forall_app. split; [apply blocks_fuel_good; assumption|assumption].
Qed.

Definition b128 (x : N) : Prop := N.land x (N.ones 128) = x.
Lemma b128_iff x : b128 x <-> x < 2 ^ 128.
Proof.
  unfold b128. rewrite N.land_ones. split; intros H.
  - rewrite <- H. apply N.mod_lt. discriminate.
  - apply N.mod_small. exact H.
Qed.
Lemma lxor_lt_128 x y : x < 2 ^ 128 -> y < 2 ^ 128 -> N.lxor x y < 2 ^ 128.
Proof. rewrite <- !b128_iff. unfold b128. intros Hx Hy. rewrite land_lxor_l, Hx, Hy. reflexivity. Qed.

Lemma n_of_fe'_lt x : b64 (fst x) -> b64 (snd x) -> n_of_fe' x < 2 ^ 128.
Proof.
  intros H1 H2. apply b64_iff in H1. apply b64_iff in H2. unfold n_of_fe'.
  rewrite lxor_hi_add by exact H1. nia.
Qed.

Lemma fe_of_n_of_fe' x : b64 (fst x) -> b64 (snd x) -> fe_of_n (n_of_fe' x) = x.
Proof.
  intros H1 H2. apply b64_iff in H1. apply b64_iff in H2. destruct x as [lo hi]. cbn [fst snd] in *.
  unfold n_of_fe', fe_of_n. cbn [fst snd]. rewrite lxor_hi_add by exact H1.
  rewrite !N.land_ones, N.shiftr_div_pow2. f_equal; lia.
Qed.

(* one Update step on the accumulator = one step S_j = dot(S_{j-1} + X_j, H) of RFC 8452 *)
Lemma pv_step_spec key acc blk : wfb key -> length key = 16%nat -> good_block blk ->
  b64 (fst acc) -> b64 (snd acc) ->
  b64 (fst (pv_step (fe_of_block key) acc blk)) /\ b64 (snd (pv_step (fe_of_block key) acc blk)) /\
  n_of_fe' (pv_step (fe_of_block key) acc blk) = dot_spec (N.lxor (n_of_fe' acc) (le_val blk)) (le_val key).
Proof.
  intros Hk Lk [Hb Lb] A1 A2. unfold pv_step.
  pose proof (b64_polyvalDot (fe_xor acc (fe_of_block blk)) (fe_of_block key)) as [B1 B2].
  split; [exact B1|]. split; [exact B2|].
  rewrite <- (fe_of_n_of_fe' acc A1 A2) at 1.
  rewrite (fe_of_block_n blk Hb Lb), (fe_of_block_n key Hk Lk), <- fe_of_n_lxor, <- dot_impl_unfold.
  apply dot_impl_spec.
  - apply lxor_lt_128; [apply n_of_fe'_lt; assumption|].
    pose proof (le_val_lt blk Hb) as H. rewrite Lb in H. exact H.
  - pose proof (le_val_lt key Hk) as H. rewrite Lk in H. exact H.
Qed.

Definition spec_step (key : bytes) (s : N) (x : bytes) : N := dot_spec (N.lxor s (le_val x)) (le_val key).

Lemma fold_rel {A B X} (R : A -> B -> Prop) (P : X -> Prop) (f : A -> X -> A) (g : B -> X -> B) :
  (forall a b x, P x -> R a b -> R (f a x) (g b x)) ->
  forall l, Forall P l -> forall a b, R a b -> R (fold_left f l a) (fold_left g l b).
Proof.
  intros H l HF. induction HF as [|x t Hx HF IH]; intros a b Hab; cbn [fold_left]; [exact Hab|].
  apply IH. apply H; assumption.
Qed.

Definition acc_rel (acc : fe) (s : N) : Prop := b64 (fst acc) /\ b64 (snd acc) /\ n_of_fe' acc = s.

Lemma acc_rel_step key : wfb key -> length key = 16%nat ->
  forall acc s blk, good_block blk -> acc_rel acc s -> acc_rel (pv_step (fe_of_block key) acc blk) (spec_step key s blk).
Proof.
  intros Hk Lk acc s blk Hg [A1 [A2 E]]. subst s.
  destruct (pv_step_spec key acc blk Hk Lk Hg A1 A2) as [B1 [B2 E]].
  split; [exact B1|]. split; [exact B2|]. exact E.
Qed.

Lemma polyval_spec_unfold key blocks : polyval_spec key blocks = le_bytes 16 (fold_left (spec_step key) blocks 0).
Proof. unfold polyval_spec, spec_step. reflexivity. Qed.

(* POLYVAL as coded (NewPolyval(key); Update(piece)...; Finish()) = POLYVAL of RFC 8452 on the
   zero-padded blocks of the pieces, for every 16-byte key and all byte strings *)
Theorem polyval_impl_is_spec key pieces : wfb key -> length key = 16%nat -> Forall wfb pieces ->
  polyval_impl key pieces = polyval_spec key (flat_map blocks_of pieces).
Proof.
  intros Hk Lk Hp. rewrite polyval_spec_unfold. unfold polyval_impl. rewrite fold_pieces.
  assert (R0 : acc_rel (0, 0) 0) by (repeat split).
  pose proof (fold_rel acc_rel good_block (pv_step (fe_of_block key)) (spec_step key)
                (acc_rel_step key Hk Lk) _ (flat_blocks_good pieces Hp) _ _ R0) as [B1 [B2 E]].
  rewrite block_of_fe_n by assumption. rewrite E. reflexivity.
Qed.
