(* C07, manipulation as a REDUCTION (no authenticity law): the reader consults
   the segment decrypter only on the finitely many (nonce, ciphertext) pairs it
   forms from the bytes it is given (read_query / presented).  If on all of them
   the decrypter agrees with the ideal one (accept exactly what the writer
   produced), the run is the ideal run, for which manipulation_detected holds;
   otherwise one presented pair decrypts although the writer never produced it:
   an explicit forgery.  The only premise is that the writer's own segments
   decrypt to themselves (correctness, at those finitely many points). *)
From Coq Require Import List NArith Bool Arith Lia.
From Tink Require Import Bytes Stream StreamProofs.
Import ListNotations.
Open Scope nat_scope.

(* ------------------------------------------------------------------ *)
(* what one Read asks of the segment decrypter (does not depend on the  *)
(* decrypter nor on the size of the caller's buffer)                    *)
(* ------------------------------------------------------------------ *)
Section Query.
  Variable SRC : Type.
  Variable rfull : SRC -> nat -> SRC * bytes * rfk.
  Variable P : rparams.

  Definition read_query (st : rst SRC) : option (bytes * bytes) :=
    if rpos st <? length (rpt st) then None else
    if rlast st then None else
    match rlim P (rcnt st) with
    | None => None
    | Some ctlim =>
      if ctlim <? length (rcarry st) then None else
      let '(s', got, k) := rfull (rsrc st) (ctlim - length (rcarry st)) in
      match k with
      | RFfail => None
      | _ =>
        let last := match k with RFok => false | _ => true end in
        let buf := rcarry st ++ got in
        if negb last && (length buf =? 0) then None else
        let segm := if last then buf else removelast buf in
        match gen_nonce (r_nonce_size P) (r_prefix P) (rcnt st) last with
        | None => None
        | Some nonce => Some (nonce, segm)
        end
      end
    end.

  (* Read depends on the decrypter only through its answer to that one query *)
  Lemma read_query_det decs1 decs2 st n :
    (forall N c, read_query st = Some (N, c) -> decs1 N c = decs2 N c) ->
    read decs1 rfull P st n = read decs2 rfull P st n.
  Proof.
    unfold read_query, read. intros H.
    destruct (rpos st <? length (rpt st)); [reflexivity|].
    destruct (rlast st); [reflexivity|].
    destruct (rlim P (rcnt st)); [|reflexivity].
    destruct (_ <? length (rcarry st)); [reflexivity|].
    destruct (rfull _ _) as ((s', got), k).
    destruct k; cbn [negb andb] in *; try reflexivity.
    - destruct (_ =? 0); [reflexivity|]. destruct (gen_nonce _ _ _ _); [|reflexivity].
      rewrite (H _ _ eq_refl). reflexivity.
    - destruct (gen_nonce _ _ _ _); [|reflexivity]. rewrite (H _ _ eq_refl). reflexivity.
    - destruct (gen_nonce _ _ _ _); [|reflexivity]. rewrite (H _ _ eq_refl). reflexivity.
  Qed.

  Lemma read_query_nonce st N c : read_query st = Some (N, c) ->
    exists cnt last, N = nonce_of (r_nonce_size P) (r_prefix P) cnt last.
  Proof.
    unfold read_query.
    destruct (rpos st <? length (rpt st)); [discriminate|].
    destruct (rlast st); [discriminate|].
    destruct (rlim P (rcnt st)); [|discriminate].
    destruct (_ <? length (rcarry st)); [discriminate|].
    destruct (rfull _ _) as ((s', got), k).
    assert (G : forall l segm, match gen_nonce (r_nonce_size P) (r_prefix P) (rcnt st) l with
                               | None => None | Some nonce => Some (nonce, segm) end = Some (N, c) ->
                               exists cnt last, N = nonce_of (r_nonce_size P) (r_prefix P) cnt last).
    { intros l segm. unfold gen_nonce. destruct (max_segments <=? rcnt st)%N; [discriminate|].
      intros E; inversion E; eauto. }
    destruct k; cbn [negb andb]; try discriminate; try apply G.
    destruct (_ =? 0); [discriminate|apply G].
  Qed.

  (* every query of a run: Reads of the listed sizes until the first EOF / error *)
  Fixpoint presented (decs : bytes -> bytes -> option bytes) (sizes : list nat) (st : rst SRC)
    : list (bytes * bytes) :=
    match sizes with
    | [] => []
    | n :: ns =>
      (match read_query st with Some q => [q] | None => [] end) ++
      match read decs rfull P st n with
      | (st', RData _) => presented decs ns st'
      | _ => []
      end
    end.

  Lemma drive_presented_same decs1 decs2 : forall sizes st acc,
    (forall N c, In (N, c) (presented decs1 sizes st) -> decs1 N c = decs2 N c) ->
    drive decs1 rfull P sizes st acc = drive decs2 rfull P sizes st acc /\
    presented decs1 sizes st = presented decs2 sizes st.
  Proof.
    induction sizes as [|n ns IH]; intros st acc H; cbn [drive presented]; [split; reflexivity|].
    cbn [presented] in H.
    assert (Hq : forall N c, read_query st = Some (N, c) -> decs1 N c = decs2 N c).
    { intros N c E. apply H. rewrite E. left. reflexivity. }
    rewrite <- (read_query_det decs1 decs2 st n Hq).
    destruct (read decs1 rfull P st n) as (st', r) eqn:Er.
    destruct r; try (split; reflexivity).
    destruct (IH st' (acc ++ b)) as (A & B).
    { intros N c Hin. apply H. apply in_or_app. right. exact Hin. }
    rewrite A, B. split; reflexivity.
  Qed.

  Lemma presented_nonce decs : forall sizes st N c, In (N, c) (presented decs sizes st) ->
    exists cnt last, N = nonce_of (r_nonce_size P) (r_prefix P) cnt last.
  Proof.
    induction sizes as [|n ns IH]; intros st N c Hin; cbn [presented] in Hin; [destruct Hin|].
    apply in_app_or in Hin. destruct Hin as [Hin|Hin].
    - destruct (read_query st) as [[N' c']|] eqn:E; [|destruct Hin].
      destruct Hin as [Hq|[]]. inversion Hq; subst. exact (read_query_nonce st N c E).
    - destruct (read decs rfull P st n) as (st', r). destruct r; try destruct Hin. exact (IH _ _ _ Hin).
  Qed.

  (* the first Read of a run is part of every longer run *)
  Lemma presented_first decs n ns st N c :
    In (N, c) (presented decs [n] st) -> In (N, c) (presented decs (n :: ns) st).
  Proof.
    cbn [presented]. intros H. apply in_app_or in H. apply in_or_app. destruct H as [H|H]; [left; exact H|].
    destruct (read decs rfull P st n) as (st', r). destruct r; destruct H.
  Qed.

  (* either no presented pair decrypts, or here is one that does *)
  Lemma none_or_some (decs : bytes -> bytes -> option bytes) (Q : list (bytes * bytes)) :
    (forall N c, In (N, c) Q -> decs N c = None) \/
    (exists N c s, In (N, c) Q /\ decs N c = Some s).
  Proof.
    induction Q as [|[N c] Q IH]; [left; intros N c []|].
    destruct (decs N c) as [s|] eqn:E.
    - right. exists N, c, s. split; [left; reflexivity|exact E].
    - destruct IH as [IH|(N' & c' & s & Hin & Hd)].
      + left. intros N' c' [Hq|Hin]; [inversion Hq; subst; exact E|exact (IH _ _ Hin)].
      + right. exists N', c', s. split; [right; exact Hin|exact Hd].
  Qed.
End Query.

Arguments read_query {SRC}. Arguments presented {SRC}.

(* ------------------------------------------------------------------ *)
(* the ideal decrypter is complete                                     *)
(* ------------------------------------------------------------------ *)
Lemma auth_lookup_complete encs ns pre ss : forall rest i n c,
  (exists j, j < length rest /\
             n = nonce_of ns pre (N.of_nat (i + j)) (i + j + 1 =? length ss) /\
             c = encs n (nth j rest [])) ->
  auth_lookup encs ns pre ss i rest n c <> None.
Proof.
  induction rest as [|x rest IH]; intros i n c (j & Hj & Hn & Hc); cbn in Hj; [lia|].
  cbn [auth_lookup].
  destruct (beq n _ && beq c _) eqn:E; [discriminate|].
  destruct j as [|j].
  - exfalso. rewrite Nat.add_0_r in Hn. cbn [nth] in Hc. rewrite Hc, Hn, !beq_refl in E. discriminate.
  - apply IH. exists j. split; [lia|]. replace (S i + j) with (i + S j) by lia. split; [exact Hn|exact Hc].
Qed.

(* ------------------------------------------------------------------ *)
(* segment layer: any segment cipher                                   *)
(* ------------------------------------------------------------------ *)
Section SegmentReduction.
  Variable encs : bytes -> bytes -> bytes.
  Variable decs : bytes -> bytes -> option bytes.
  Variable P : rparams.
  Variable seg ov : nat.
  Hypothesis Hct : r_ctseg P = seg + ov.
  Hypothesis Hpos : 0 < seg - r_off P.
  Variable p : bytes.
  Local Notation off := (r_off P).
  Local Notation NONCE := (nonce_of (r_nonce_size P) (r_prefix P)).
  Local Notation ss := (segments seg off p).
  Hypothesis Hb : (N.of_nat (length ss) <= max_segments)%N.

  (* what the writer produced for p: (nonce_i, ciphertext segment_i) *)
  Definition produced (N c : bytes) : Prop :=
    exists i, i < length ss /\ N = NONCE (N.of_nat i) (i + 1 =? length ss) /\ c = encs N (nth i ss []).

  (* the only premise: the writer's own segments decrypt to themselves *)
  Hypothesis Hcorr : forall i, i < length ss ->
    let N := NONCE (N.of_nat i) (i + 1 =? length ss) in decs N (encs N (nth i ss [])) = Some (nth i ss []).

  Local Notation IDEAL := (ideal_decs encs (r_nonce_size P) (r_prefix P) ss).

  Lemma agree_or_forgery N c :
    decs N c = IDEAL N c \/ (exists s, decs N c = Some s /\ ~ produced N c).
  Proof.
    destruct (IDEAL N c) as [s0|] eqn:Ei.
    - left. destruct (ideal_decs_auth _ _ _ _ _ _ _ Ei) as (i & Hi & Hn & Hs & Hc).
      pose proof (Hcorr i Hi) as H. cbn zeta in H. rewrite <- Hn in H. rewrite Hc, Hs. exact H.
    - destruct (decs N c) as [s|] eqn:Ed; [right|left; reflexivity].
      exists s. split; [reflexivity|]. intros (i & Hi & Hn & Hc).
      revert Ei. apply (auth_lookup_complete encs (r_nonce_size P) (r_prefix P) ss ss 0).
      exists i. cbn [Nat.add]. auto.
  Qed.

  Lemma all_agree_or_forgery (Q : list (bytes * bytes)) :
    (forall N c, In (N, c) Q -> decs N c = IDEAL N c) \/
    (exists N c s, In (N, c) Q /\ decs N c = Some s /\ ~ produced N c).
  Proof.
    induction Q as [|[N c] Q IH]; [left; intros N c []|].
    destruct (agree_or_forgery N c) as [Ha|(s & Hs & Hn)].
    - destruct IH as [IH|(N' & c' & s & Hin & Hd)].
      + left. intros N' c' [Hq|Hin]; [inversion Hq; subst; exact Ha|exact (IH _ _ Hin)].
      + right. exists N', c', s. split; [right; exact Hin|exact Hd].
    - right. exists N, c, s. split; [left; reflexivity|]. split; assumption.
  Qed.

  (* THE REDUCTION, segment layer: for any bytes, any source fault, any Read sizes *)
  Theorem manipulation_reduction : forall c' F sizes st0,
    new_reader P (mkSrc c' F) = Some st0 ->
    (let '(outb, f) := drive decs read_full P sizes st0 [] in
     f <> Panicked /\ (exists tl, p = outb ++ tl) /\
     (f = AtEof -> c' = encode_stream encs (r_nonce_size P) (r_prefix P) seg off p /\ outb = p) /\
     (Forall (fun n => 0 < n) sizes -> length ss + length p < length sizes -> f <> Pending)) \/
    (exists N c s, In (N, c) (presented read_full P decs sizes st0) /\ decs N c = Some s /\ ~ produced N c).
  Proof.
    intros c' F sizes st0 Hnew.
    destruct (all_agree_or_forgery (presented read_full P decs sizes st0)) as [Hag|Hf]; [left|right; exact Hf].
    destruct (drive_presented_same src read_full P decs IDEAL sizes st0 [] Hag) as (-> & _).
    exact (manipulation_detected encs IDEAL P seg ov Hct Hpos p Hb
             (fun n c s => ideal_decs_auth encs (r_nonce_size P) (r_prefix P) ss n c s) c' F sizes st0 Hnew).
  Qed.
End SegmentReduction.
