(* Proofs about the protobuf wire codec of model/ProtoWire.v. *)
From Coq Require Import List NArith Bool Lia ZifyN ZifyNat ZifyBool Arith.
From Tink Require Import Bytes ProtoWire.
Import ListNotations.
Open Scope N_scope.

(* ------------------------------------------------------------------ *)
(* varint                                                              *)
(* ------------------------------------------------------------------ *)
Lemma vdec_venc fuel : forall x r,
  x < 128 ^ N.of_nat (S fuel) -> vdec (S fuel) (venc (S fuel) x ++ r) = Some (x, r).
Proof.
  induction fuel as [|f IH]; intros x r H.
  - change (128 ^ N.of_nat 1) with 128 in H.
    cbn [venc]. replace (x <? 128) with true by (symmetry; apply N.ltb_lt; lia).
    cbn [app vdec]. replace (x <? 128) with true by (symmetry; apply N.ltb_lt; lia). reflexivity.
  - remember (S f) as g. cbn [venc]. destruct (x <? 128) eqn:E.
    + cbn [app vdec]. rewrite E. reflexivity.
    + apply N.ltb_ge in E. cbn [app vdec].
      assert (Hm : x mod 128 < 128) by (apply N.mod_lt; lia).
      replace (x mod 128 + 128 <? 128) with false by (symmetry; apply N.ltb_ge; lia).
      subst g. rewrite IH.
      * f_equal. f_equal. replace (x mod 128 + 128 - 128) with (x mod 128) by lia.
        rewrite (N.div_mod x 128) at 3 by lia. lia.
      * rewrite (Nnat.Nat2N.inj_succ (S f)), N.pow_succ_r in H by lia.
        apply N.div_lt_upper_bound; lia.
Qed.

Lemma varint_roundtrip x r : x < two64 -> varint_dec (varint_enc x ++ r) = Some (x, r).
Proof.
  intros H. unfold varint_dec, varint_enc. rewrite (vdec_venc 9).
  - replace (x <? two64) with true by (symmetry; apply N.ltb_lt; exact H). reflexivity.
  - unfold two64 in H. change (128 ^ N.of_nat 10) with 1180591620717411303424. lia.
Qed.

Lemma venc_nonempty fuel x : (0 < fuel)%nat -> venc fuel x <> [].
Proof. destruct fuel; [lia|]. intros _. cbn [venc]. destruct (x <? 128); discriminate. Qed.

Lemma venc_wf fuel : forall x, wfb (venc fuel x).
Proof.
  induction fuel as [|f IH]; intros x; cbn [venc]; [constructor|].
  destruct (x <? 128) eqn:E.
  - constructor; [apply N.ltb_lt in E; lia | constructor].
  - constructor; [|apply IH]. assert (x mod 128 < 128) by (apply N.mod_lt; lia). lia.
Qed.

Lemma varint_enc_cons x : exists a t, varint_enc x = a :: t.
Proof.
  unfold varint_enc. cbn [venc]. destruct (x <? 128); eauto.
Qed.

(* ------------------------------------------------------------------ *)
(* raw fields: parse inverts ser                                       *)
(* ------------------------------------------------------------------ *)
Definition wf_rfield (f : rfield) : Prop :=
  1 <= fst f /\ fst f <= max_field /\
  match snd f with
  | RVar v => v < two64
  | RLen p => N.of_nat (length p) < two64
  | RSkip => False
  end.

Lemma parse_tag_enc num wt r :
  1 <= num -> num <= max_field -> wt < 8 ->
  parse_tag (varint_enc (num * 8 + wt) ++ r) = Some (num, wt, r).
Proof.
  intros H1 H2 H3. unfold parse_tag. unfold max_field in *.
  rewrite varint_roundtrip by (unfold two64; lia).
  assert (E1 : (num * 8 + wt) / 8 = num).
  { symmetry. apply (N.div_unique _ 8 num wt); lia. }
  assert (E2 : (num * 8 + wt) mod 8 = wt).
  { symmetry. apply (N.mod_unique _ 8 num wt); lia. }
  rewrite E1, E2.
  replace (1 <=? num) with true by (symmetry; apply N.leb_le; lia).
  replace (num <=? 536870911) with true by (symmetry; apply N.leb_le; lia).
  reflexivity.
Qed.

Lemma take_n_app (p r : bytes) : take_n (length p) (p ++ r) = Some (p, r).
Proof.
  unfold take_n. rewrite app_length.
  replace (Nat.leb (length p) (length p + length r)) with true by (symmetry; apply Nat.leb_le; lia).
  rewrite firstn_app, Nat.sub_diag, firstn_all, skipn_app, Nat.sub_diag, skipn_all. simpl.
  rewrite app_nil_r. reflexivity.
Qed.

Lemma take_len_app (p r : bytes) : take_len (N.of_nat (length p)) (p ++ r) = Some (p, r).
Proof.
  unfold take_len. rewrite app_length.
  replace (N.of_nat (length p) <=? N.of_nat (length p + length r)) with true by (symmetry; apply N.leb_le; lia).
  rewrite Nnat.Nat2N.id. apply take_n_app.
Qed.

Lemma parse_one_ser f r : wf_rfield f -> parse_one (ser_one f ++ r) = Some (f, r).
Proof.
  destruct f as [num [v|p|]]; intros (H1 & H2 & H3); cbn [fst snd] in *; try contradiction.
  - unfold parse_one. cbn [ser_one]. rewrite <- app_assoc.
    replace (num * 8) with (num * 8 + 0) by lia.
    rewrite parse_tag_enc by lia. cbn [N.eqb].
    rewrite varint_roundtrip by assumption. reflexivity.
  - unfold parse_one. cbn [ser_one]. rewrite <- !app_assoc.
    rewrite parse_tag_enc by lia.
    change (2 =? 0) with false. change (2 =? 2) with true. cbn iota.
    rewrite varint_roundtrip by assumption.
    rewrite take_len_app. reflexivity.
Qed.

Lemma ser_one_cons f : wf_rfield f -> exists a t, ser_one f = a :: t.
Proof.
  destruct f as [num [v|p|]]; intros (_ & _ & H); cbn [snd] in H; try contradiction; cbn [ser_one].
  - destruct (varint_enc_cons (num * 8)) as (a & t & E). rewrite E. simpl. eauto.
  - destruct (varint_enc_cons (num * 8 + 2)) as (a & t & E). rewrite E. simpl. eauto.
Qed.

Lemma ser_cons f fs : ser (f :: fs) = ser_one f ++ ser fs.
Proof. reflexivity. Qed.

Lemma ser_app a b : ser (a ++ b) = ser a ++ ser b.
Proof. unfold ser. rewrite map_app, concat_app. reflexivity. Qed.

Lemma parse_raw_step f b : b <> [] ->
  parse_raw (S f) b =
  match parse_one b with
  | Some (x, r) => match parse_raw f r with Some xs => Some (x :: xs) | None => None end
  | None => None
  end.
Proof. destruct b; [congruence | reflexivity]. Qed.

Lemma parse_raw_ser fs : forall fuel,
  Forall wf_rfield fs -> (length fs <= fuel)%nat -> parse_raw fuel (ser fs) = Some fs.
Proof.
  induction fs as [|f fs IH]; intros fuel Hw Hf.
  - destruct fuel; reflexivity.
  - inversion Hw as [|? ? Hf1 Hfs]; subst.
    destruct fuel as [|fuel]; [simpl in Hf; lia|].
    rewrite ser_cons.
    destruct (ser_one_cons f Hf1) as (a & t & E).
    rewrite parse_raw_step by (rewrite E; discriminate).
    rewrite parse_one_ser by assumption.
    rewrite IH; [reflexivity | assumption | simpl in Hf; lia].
Qed.

Lemma ser_length_ge fs : Forall wf_rfield fs -> (length fs <= length (ser fs))%nat.
Proof.
  induction 1 as [|f fs Hf _ IH]; [simpl; lia|].
  rewrite ser_cons, app_length. destruct (ser_one_cons f Hf) as (a & t & E). rewrite E. simpl. lia.
Qed.

Lemma parse_ser fs : Forall wf_rfield fs -> parse (ser fs) = Some fs.
Proof. intros H. unfold parse. apply parse_raw_ser; [assumption | apply ser_length_ge; assumption]. Qed.

(* ------------------------------------------------------------------ *)
(* messages: decode inverts encode                                     *)
(* ------------------------------------------------------------------ *)
Scheme fty_mut := Induction for fty Sort Prop
  with schema_mut := Induction for schema Sort Prop.
Combined Scheme fty_schema_ind from fty_mut, schema_mut.

(* every length-delimited payload of the encoding is shorter than 2^64 bytes *)
Fixpoint fits_val (t : fty) (v : val) : bool :=
  match t, v with
  | TMsg s, VMsg (Some m) => (N.of_nat (length (encode s m)) <? two64) && fits_msg s m
  | TRep s, VRep ms => forallb (fun m => (N.of_nat (length (encode s m)) <? two64) && fits_msg s m) ms
  | (TBytes | TString), VBytes b => N.of_nat (length b) <? two64
  | _, _ => true
  end
with fits_msg (s : schema) (m : msg) : bool :=
  match s, m with
  | SCons _ t s', v :: m' => fits_val t v && fits_msg s' m'
  | _, _ => true
  end.

Lemma vars_of_app n a b : vars_of n (a ++ b) = vars_of n a ++ vars_of n b.
Proof.
  induction a as [|[k [v|p|]] a IH]; cbn [app vars_of]; auto.
  destruct (k =? n); cbn [app]; rewrite IH; reflexivity.
Qed.
Lemma lens_of_app n a b : lens_of n (a ++ b) = lens_of n a ++ lens_of n b.
Proof.
  induction a as [|[k [v|p|]] a IH]; cbn [app lens_of]; auto.
  destruct (k =? n); cbn [app]; rewrite IH; reflexivity.
Qed.
Lemma vars_of_none n rs : Forall (fun f => fst f <> n) rs -> vars_of n rs = [].
Proof.
  induction 1 as [|[k [v|p|]] rs H _ IH]; cbn [vars_of]; auto.
  cbn [fst] in H. apply N.eqb_neq in H. rewrite H. exact IH.
Qed.
Lemma lens_of_none n rs : Forall (fun f => fst f <> n) rs -> lens_of n rs = [].
Proof.
  induction 1 as [|[k [v|p|]] rs H _ IH]; cbn [lens_of]; auto.
  cbn [fst] in H. apply N.eqb_neq in H. rewrite H. exact IH.
Qed.

Lemma raw_val_nums t num v : Forall (fun f => fst f = num) (raw_val t num v).
Proof.
  destruct t, v; cbn [raw_val]; try constructor;
    try (match goal with |- context [if ?c then _ else _] => destruct c end; repeat constructor);
    try (match goal with |- context [match ?b with [] => _ | _ => _ end] => destruct b end; repeat constructor).
  - destruct m; repeat constructor.
  - induction ms; cbn [map]; constructor; auto.
Qed.

Lemma raw_fields_nums s : forall m, Forall (fun f => In (fst f) (nums s)) (raw_fields s m).
Proof.
  induction s as [|num t s' IH]; intros m; cbn [raw_fields]; [constructor|].
  destruct m as [|v m']; [constructor|].
  apply Forall_app. split.
  - eapply Forall_impl; [|apply raw_val_nums]. intros f E. cbn [nums]. left. auto.
  - eapply Forall_impl; [|apply IH]. intros f E. cbn [nums]. right. exact E.
Qed.

Lemma scalar_ok_lt t n : scalar_ok t n = true -> n < two64.
Proof.
  unfold scalar_ok, two64, two32, two31. destruct t; intros H; try discriminate; lia.
Qed.

Lemma raw_val_wf t num v :
  1 <= num -> num <= max_field -> wf_val t v = true -> fits_val t v = true ->
  Forall wf_rfield (raw_val t num v).
Proof.
  intros H1 H2 Hw Hf. unfold wf_rfield.
  destruct t, v; cbn [raw_val wf_val fits_val] in *; try discriminate; try constructor;
    try (destruct (n =? 0); repeat constructor; cbn [fst snd]; auto; eapply scalar_ok_lt; eassumption).
  - destruct b; repeat constructor; cbn [fst snd]; auto. apply N.ltb_lt in Hf. exact Hf.
  - destruct b; repeat constructor; cbn [fst snd]; auto. apply N.ltb_lt in Hf. exact Hf.
  - destruct m; repeat constructor; cbn [fst snd]; auto.
    apply andb_true_iff in Hf. destruct Hf as [Hf _]. apply N.ltb_lt in Hf. exact Hf.
  - induction ms as [|m ms IH]; cbn [map]; constructor.
    + cbn [forallb] in Hf. apply andb_true_iff in Hf. destruct Hf as [Hf _].
      apply andb_true_iff in Hf. destruct Hf as [Hf _]. apply N.ltb_lt in Hf.
      cbn [fst snd]. auto.
    + apply IH.
      * cbn [forallb] in Hw. apply andb_true_iff in Hw. apply Hw.
      * cbn [forallb] in Hf. apply andb_true_iff in Hf. apply Hf.
Qed.

Lemma wf_schema_cons num t s :
  wf_schema (SCons num t s) = true ->
  1 <= num /\ num <= max_field /\ ~ In num (nums s) /\ wf_fty t = true /\ wf_schema s = true.
Proof.
  cbn [wf_schema]. rewrite !andb_true_iff. intros ((((A & B) & C) & D) & E).
  apply N.leb_le in A. apply N.leb_le in B. repeat split; auto.
  intros Hin. apply negb_true_iff in C.
  assert (existsb (N.eqb num) (nums s) = true) by (apply existsb_exists; exists num; split; [assumption | apply N.eqb_refl]).
  congruence.
Qed.

Lemma raw_fields_wf s : forall m,
  wf_schema s = true -> wf_msg s m = true -> fits_msg s m = true -> Forall wf_rfield (raw_fields s m).
Proof.
  induction s as [|num t s' IH]; intros m Hs Hw Hf; cbn [raw_fields]; [constructor|].
  destruct m as [|v m']; [constructor|].
  apply wf_schema_cons in Hs. destruct Hs as (A & B & _ & _ & E).
  cbn [wf_msg fits_msg] in Hw, Hf. apply andb_true_iff in Hw, Hf.
  apply Forall_app. split; [apply raw_val_wf; tauto | apply IH; tauto].
Qed.

Lemma dec_fields_ext s : forall rs1 rs2,
  (forall n, In n (nums s) -> vars_of n rs1 = vars_of n rs2 /\ lens_of n rs1 = lens_of n rs2) ->
  dec_fields s rs1 = dec_fields s rs2.
Proof.
  induction s as [|num t s' IH]; intros rs1 rs2 H; cbn [dec_fields]; [reflexivity|].
  destruct (H num) as [E1 E2]; [cbn [nums]; left; reflexivity|].
  rewrite E1, E2, (IH rs1 rs2); [reflexivity|].
  intros n Hn. apply H. cbn [nums]. right. exact Hn.
Qed.

Lemma norm_scalar_id t n : scalar_ok t n = true -> norm_scalar t n = n.
Proof.
  unfold scalar_ok, norm_scalar, sext32, two64, two32, two31.
  destruct t; intros H; try discriminate.
  - apply N.mod_small. lia.
  - apply N.mod_small. lia.
  - pose proof (N.div_mod n 4294967296 ltac:(lia)) as D.
    pose proof (N.mod_lt n 4294967296 ltac:(lia)) as L.
    set (q := n / 4294967296) in *. set (w := n mod 4294967296) in *.
    destruct (w <? 2147483648) eqn:E; lia.
  - apply N.mod_small. lia.
  - pose proof (N.div_mod n 4294967296 ltac:(lia)) as D.
    pose proof (N.mod_lt n 4294967296 ltac:(lia)) as L.
    set (q := n / 4294967296) in *. set (w := n mod 4294967296) in *.
    destruct (w <? 2147483648) eqn:E; lia.
  - destruct (n =? 0) eqn:E; lia.
Qed.

Lemma parse_all_sers s ms :
  Forall (fun m => Forall wf_rfield (raw_fields s m)) ms ->
  parse_all (map (fun m => ser (raw_fields s m)) ms) = Some (map (raw_fields s) ms).
Proof.
  induction 1 as [|m ms H _ IH]; cbn [map parse_all]; [reflexivity|].
  rewrite parse_ser by assumption. rewrite IH. reflexivity.
Qed.

Lemma lens_of_rep num (f : msg -> bytes) ms :
  lens_of num (map (fun m => (num, RLen (f m))) ms) = map f ms.
Proof.
  induction ms as [|m ms IH]; cbn [map lens_of]; [reflexivity|].
  rewrite N.eqb_refl, IH. reflexivity.
Qed.
Lemma vars_of_rep num (f : msg -> bytes) ms :
  vars_of num (map (fun m => (num, RLen (f m))) ms) = [].
Proof. induction ms as [|m ms IH]; cbn [map vars_of]; auto. Qed.

Theorem roundtrip_mut :
  (forall t, forall num v, wf_fty t = true -> wf_val t v = true -> fits_val t v = true ->
     dec_val t (vars_of num (raw_val t num v)) (lens_of num (raw_val t num v)) = Some v)
  /\
  (forall s, forall m, wf_schema s = true -> wf_msg s m = true -> fits_msg s m = true ->
     dec_fields s (raw_fields s m) = Some m).
Proof.
  apply fty_schema_ind.
  (* scalars *)
  1-6: intros num v _ Hw _; destruct v; cbn [wf_val] in Hw; try discriminate;
       cbn [raw_val]; destruct (n =? 0) eqn:E;
       [ apply N.eqb_eq in E; subst n; cbn [vars_of lens_of dec_val last]; rewrite norm_scalar_id by assumption; reflexivity
       | cbn [vars_of lens_of]; rewrite N.eqb_refl; cbn [dec_val last]; rewrite norm_scalar_id by assumption; reflexivity ].
  - (* bytes *)
    intros num v _ Hw _. destruct v; cbn [wf_val] in Hw; try discriminate.
    cbn [raw_val]. destruct b as [|x b]; [reflexivity|].
    cbn [vars_of lens_of]. rewrite N.eqb_refl. reflexivity.
  - (* string *)
    intros num v _ Hw _. destruct v; cbn [wf_val] in Hw; try discriminate.
    cbn [raw_val]. destruct b as [|x b]; [reflexivity|].
    cbn [vars_of lens_of]. rewrite N.eqb_refl. cbn [dec_val forallb last]. rewrite Hw. reflexivity.
  - (* message *)
    intros s IH num v Hs Hw Hf. destruct v as [| |[m|]|]; cbn [wf_val] in Hw; try discriminate.
    + cbn [raw_val vars_of lens_of]. rewrite N.eqb_refl. cbn [dec_val parse_all].
      cbn [wf_fty] in Hs. cbn [fits_val] in Hf. apply andb_true_iff in Hf. destruct Hf as [_ Hf].
      rewrite parse_ser by (apply raw_fields_wf; assumption).
      cbn [concat]. rewrite app_nil_r. rewrite IH by assumption. reflexivity.
    + reflexivity.
  - (* repeated message *)
    intros s IH num v Hs Hw Hf. destruct v; cbn [wf_val] in Hw; try discriminate.
    cbn [raw_val]. rewrite lens_of_rep. cbn [dec_val]. cbn [wf_fty] in Hs. cbn [fits_val] in Hf.
    assert (HF : Forall (fun m => wf_msg s m = true /\ fits_msg s m = true) ms).
    { apply Forall_forall. intros m Hin. rewrite forallb_forall in Hw, Hf. split; [apply Hw; assumption|].
      specialize (Hf m Hin). apply andb_true_iff in Hf. apply Hf. }
    rewrite parse_all_sers.
    + assert (E : all_some (map (dec_fields s) (map (raw_fields s) ms)) = Some ms).
      { clear Hw Hf. induction HF as [|m ms [A B] _ IHms]; cbn [map all_some]; [reflexivity|].
        rewrite IH by assumption. rewrite IHms. reflexivity. }
      rewrite E. reflexivity.
    + eapply Forall_impl; [|exact HF]. intros m [A B]. apply raw_fields_wf; assumption.
  - (* SNil *)
    intros m _ Hw _. destruct m; cbn [wf_msg] in Hw; [reflexivity | discriminate].
  - (* SCons *)
    intros num t IHt s' IHs m Hs Hw Hf. destruct m as [|v m']; cbn [wf_msg] in Hw; [discriminate|].
    apply wf_schema_cons in Hs. destruct Hs as (A & B & C & D & E).
    apply andb_true_iff in Hw. destruct Hw as [Hw1 Hw2].
    cbn [fits_msg] in Hf. apply andb_true_iff in Hf. destruct Hf as [Hf1 Hf2].
    cbn [raw_fields dec_fields].
    rewrite vars_of_app, lens_of_app.
    rewrite (vars_of_none num (raw_fields s' m')), (lens_of_none num (raw_fields s' m')), !app_nil_r.
    2,3: eapply Forall_impl; [|apply raw_fields_nums]; intros f Hin Heq; cbn beta in Hin; rewrite Heq in Hin; contradiction.
    rewrite IHt by assumption.
    rewrite (dec_fields_ext s' _ (raw_fields s' m')).
    + rewrite IHs by assumption. reflexivity.
    + intros n Hn. rewrite vars_of_app, lens_of_app.
      rewrite (vars_of_none n (raw_val t num v)), (lens_of_none n (raw_val t num v)); [split; reflexivity | |].
      all: eapply Forall_impl; [|apply raw_val_nums]; intros f Heq Hne; cbn beta in Heq; subst n; rewrite Heq in Hn; contradiction.
Qed.

Theorem decode_encode_fits s m :
  wf_schema s = true -> wf_msg s m = true -> fits_msg s m = true ->
  decode s (encode s m) = Some m.
Proof.
  intros Hs Hw Hf. unfold decode, encode.
  rewrite parse_ser by (apply raw_fields_wf; assumption).
  apply (proj2 roundtrip_mut); assumption.
Qed.

(* ---- the size condition follows from a bound on the whole encoding ---- *)
Lemma ser_one_len_ge num p : (length p <= length (ser_one (num, RLen p)))%nat.
Proof. cbn [ser_one]. rewrite !app_length. lia. Qed.

Lemma fits_mut :
  (forall t, forall num v, N.of_nat (length (ser (raw_val t num v))) < two64 -> fits_val t v = true)
  /\
  (forall s, forall m, N.of_nat (length (encode s m)) < two64 -> fits_msg s m = true).
Proof.
  apply fty_schema_ind.
  1-6: intros num v _; destruct v; reflexivity.
  - intros num v H. destruct v; try reflexivity. cbn [fits_val]. apply N.ltb_lt.
    cbn [raw_val] in H. destruct b as [|x b]; [unfold two64; simpl; lia|].
    rewrite ser_cons, app_length in H. pose proof (ser_one_len_ge num (x :: b)). lia.
  - intros num v H. destruct v; try reflexivity. cbn [fits_val]. apply N.ltb_lt.
    cbn [raw_val] in H. destruct b as [|x b]; [unfold two64; simpl; lia|].
    rewrite ser_cons, app_length in H. pose proof (ser_one_len_ge num (x :: b)). lia.
  - intros s IH num v H. destruct v as [| |[m|]|]; try reflexivity.
    cbn [fits_val]. cbn [raw_val] in H. rewrite ser_cons, app_length in H.
    pose proof (ser_one_len_ge num (ser (raw_fields s m))) as L.
    assert (B : N.of_nat (length (encode s m)) < two64) by (unfold encode; lia).
    apply andb_true_iff. split; [apply N.ltb_lt; exact B | apply IH; exact B].
  - intros s IH num v H. destruct v; try reflexivity.
    cbn [fits_val]. cbn [raw_val] in H.
    induction ms as [|m ms IHms]; [reflexivity|].
    cbn [map] in H. rewrite ser_cons, app_length in H.
    pose proof (ser_one_len_ge num (ser (raw_fields s m))) as L.
    assert (B : N.of_nat (length (encode s m)) < two64) by (unfold encode; lia).
    cbn [forallb]. apply andb_true_iff. split.
    + apply andb_true_iff. split; [apply N.ltb_lt; exact B | apply IH; exact B].
    + apply IHms. lia.
  - intros m _. destruct m; reflexivity.
  - intros num t IHt s IHs m H. destruct m as [|v m']; [reflexivity|].
    cbn [fits_msg]. unfold encode in H. cbn [raw_fields] in H. rewrite ser_app, app_length in H.
    apply andb_true_iff. split; [apply (IHt num); lia | apply IHs; unfold encode; lia].
Qed.

Theorem decode_encode s m :
  wf_schema s = true -> wf_msg s m = true -> N.of_nat (length (encode s m)) < two64 ->
  decode s (encode s m) = Some m.
Proof.
  intros Hs Hw Hl. apply decode_encode_fits; auto. apply (proj2 fits_mut). exact Hl.
Qed.

(* encode is injective on well-formed messages *)
Corollary encode_injective s m1 m2 :
  wf_schema s = true -> wf_msg s m1 = true -> wf_msg s m2 = true ->
  N.of_nat (length (encode s m1)) < two64 ->
  encode s m1 = encode s m2 -> m1 = m2.
Proof.
  intros Hs H1 H2 Hl E.
  pose proof (decode_encode s m1 Hs H1 Hl) as D1.
  assert (Hl2 : N.of_nat (length (encode s m2)) < two64) by (rewrite <- E; exact Hl).
  pose proof (decode_encode s m2 Hs H2 Hl2) as D2.
  rewrite E in D1. congruence.
Qed.

(* ------------------------------------------------------------------ *)
(* the decoder only produces well-formed messages                      *)
(* ------------------------------------------------------------------ *)
Lemma norm_scalar_ok t v : is_scalar t = true -> scalar_ok t (norm_scalar t v) = true.
Proof.
  unfold is_scalar, scalar_ok, norm_scalar, sext32, two64, two32, two31.
  destruct t; intros H; try discriminate.
  - pose proof (N.mod_lt v 4294967296 ltac:(lia)). lia.
  - pose proof (N.mod_lt v 18446744073709551616 ltac:(lia)). lia.
  - pose proof (N.mod_lt v 4294967296 ltac:(lia)).
    destruct (v mod 4294967296 <? 2147483648) eqn:E; lia.
  - pose proof (N.mod_lt v 18446744073709551616 ltac:(lia)). lia.
  - pose proof (N.mod_lt v 4294967296 ltac:(lia)).
    destruct (v mod 4294967296 <? 2147483648) eqn:E; lia.
  - destruct (v =? 0); reflexivity.
Qed.

Lemma forallb_last {A} (f : A -> bool) l d : forallb f l = true -> f d = true -> f (last l d) = true.
Proof.
  induction l as [|x l IH]; intros H Hd; [exact Hd|].
  cbn [forallb] in H. apply andb_true_iff in H. destruct H as [Hx Hl].
  destruct l as [|y l]; [exact Hx|]. change (last (x :: y :: l) d) with (last (y :: l) d). apply IH; auto.
Qed.

Lemma all_some_forall {A B} (f : A -> option B) (P : B -> Prop) l r :
  (forall a b, In a l -> f a = Some b -> P b) -> all_some (map f l) = Some r -> Forall P r.
Proof.
  revert r. induction l as [|a l IH]; intros r H E; cbn [map all_some] in E.
  - inversion E. constructor.
  - destruct (f a) eqn:Ea; [|discriminate].
    destruct (all_some (map f l)) eqn:El; [|discriminate]. inversion E; subst.
    constructor; [apply (H a); [left; reflexivity | exact Ea] | apply IH; auto].
    intros a' b' Hin. apply H. right. exact Hin.
Qed.

Theorem decode_wf_mut :
  (forall t, forall vs ps v, dec_val t vs ps = Some v -> wf_val t v = true)
  /\
  (forall s, forall rs m, dec_fields s rs = Some m -> wf_msg s m = true).
Proof.
  apply fty_schema_ind.
  1-6: intros vs ps v H; cbn [dec_val] in H; injection H as <-;
       match goal with |- wf_val ?t _ = true => exact (norm_scalar_ok t _ eq_refl) end.
  - intros vs ps v H. cbn [dec_val] in H. inversion H. reflexivity.
  - intros vs ps v H. cbn [dec_val] in H. destruct (forallb utf8_valid ps) eqn:E; [|discriminate].
    inversion H; subst. cbn [wf_val]. apply forallb_last; [exact E | reflexivity].
  - intros s IH vs ps v H. cbn [dec_val] in H. destruct ps as [|p ps]; [inversion H; reflexivity|].
    destruct (parse_all (p :: ps)); [|discriminate].
    destruct (dec_fields s (concat l)) eqn:E; [|discriminate]. inversion H; subst.
    cbn [wf_val]. eapply IH. exact E.
  - intros s IH vs ps v H. cbn [dec_val] in H.
    destruct (parse_all ps); [|discriminate].
    destruct (all_some (map (dec_fields s) l)) eqn:E; [|discriminate]. inversion H; subst.
    cbn [wf_val]. apply forallb_forall. apply Forall_forall.
    eapply all_some_forall; [|exact E]. intros a b _ Hab. eapply IH. exact Hab.
  - intros rs m H. cbn [dec_fields] in H. inversion H. reflexivity.
  - intros num t IHt s IHs rs m H. cbn [dec_fields] in H.
    destruct (dec_val t (vars_of num rs) (lens_of num rs)) eqn:E1; [|discriminate].
    destruct (dec_fields s rs) eqn:E2; [|discriminate]. inversion H; subst.
    cbn [wf_msg]. apply andb_true_iff. split; [eapply IHt; exact E1 | eapply IHs; exact E2].
Qed.

Theorem decode_wf s b m : decode s b = Some m -> wf_msg s m = true.
Proof.
  unfold decode. destruct (parse b); [|discriminate]. apply (proj2 decode_wf_mut).
Qed.

(* whatever was accepted re-encodes to bytes that decode to the same message,
   and a second re-encoding is byte-identical *)
Theorem reencode_stable s b m :
  wf_schema s = true -> decode s b = Some m -> N.of_nat (length (encode s m)) < two64 ->
  decode s (encode s m) = Some m.
Proof. intros Hs Hd Hl. apply decode_encode; auto. eapply decode_wf; eassumption. Qed.

(* canonical bytes (the image of the encoder) re-encode to themselves *)
Theorem canonical_reencode s m b :
  wf_schema s = true -> wf_msg s m = true -> b = encode s m -> N.of_nat (length b) < two64 ->
  exists m', decode s b = Some m' /\ encode s m' = b.
Proof.
  intros Hs Hw -> Hl. exists m. split; [apply decode_encode; auto | reflexivity].
Qed.

(* fields whose number is not in the schema (unknown fields) do not influence the result *)
Theorem unknown_field_ignored s a f b :
  ~ In (fst f) (nums s) -> dec_fields s (a ++ f :: b) = dec_fields s (a ++ b).
Proof.
  intros H. apply dec_fields_ext. intros n Hn.
  assert (Hne : fst f <> n) by (intros E; subst n; contradiction).
  rewrite !vars_of_app, !lens_of_app.
  change (f :: b) with ([f] ++ b). rewrite vars_of_app, lens_of_app.
  rewrite (vars_of_none n [f]), (lens_of_none n [f]) by (constructor; [exact Hne | constructor]).
  split; reflexivity.
Qed.
