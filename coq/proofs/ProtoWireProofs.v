(* Proofs about the protobuf wire codec of model/ProtoWire.v. *)
From Coq Require Import List NArith Bool Lia ZifyN ZifyNat ZifyBool Arith.
From Tink Require Import Bytes ProtoWire.
Import ListNotations.
Open Scope N_scope.

(* ------------------------------------------------------------------ *)
(* varint                                                              *)
(* ------------------------------------------------------------------ *)
Lemma vdec_venc fuel : forall x r,
  x < 128 ^ N.of_nat (S fuel) -> vdec (S fuel) (venc (S fuel) x ++ r) = Some (x, r).
Proof.
  induction fuel as [|f IH]; intros x r H.
  - change (128 ^ N.of_nat 1) with 128 in H.
    cbn [venc]. replace (x <? 128) with true by (symmetry; apply N.ltb_lt; lia).
    cbn [app vdec]. replace (x <? 128) with true by (symmetry; apply N.ltb_lt; lia). reflexivity.
  - remember (S f) as g. cbn [venc]. destruct (x <? 128) eqn:E.
    + cbn [app vdec]. rewrite E. reflexivity.
    + apply N.ltb_ge in E. cbn [app vdec].
      assert (Hm : x mod 128 < 128) by (apply N.mod_lt; lia).
      replace (x mod 128 + 128 <? 128) with false by (symmetry; apply N.ltb_ge; lia).
      subst g. rewrite IH.
      * f_equal. f_equal. replace (x mod 128 + 128 - 128) with (x mod 128) by lia.
        rewrite (N.div_mod x 128) at 3 by lia. lia.
      * rewrite (Nnat.Nat2N.inj_succ (S f)), N.pow_succ_r in H by lia.
        apply N.div_lt_upper_bound; lia.
Qed.

Lemma varint_roundtrip x r : x < two64 -> varint_dec (varint_enc x ++ r) = Some (x, r).
Proof.
  intros H. unfold varint_dec, varint_enc. rewrite (vdec_venc 9).
  - replace (x <? two64) with true by (symmetry; apply N.ltb_lt; exact H). reflexivity.
  - unfold two64 in H. change (128 ^ N.of_nat 10) with 1180591620717411303424. lia.
Qed.

Lemma venc_nonempty fuel x : (0 < fuel)%nat -> venc fuel x <> [].
Proof. destruct fuel; [lia|]. intros _. cbn [venc]. destruct (x <? 128); discriminate. Qed.

Lemma venc_wf fuel : forall x, wfb (venc fuel x).
Proof.
  induction fuel as [|f IH]; intros x; cbn [venc]; [constructor|].
  destruct (x <? 128) eqn:E.
  - constructor; [apply N.ltb_lt in E; lia | constructor].
  - constructor; [|apply IH]. assert (x mod 128 < 128) by (apply N.mod_lt; lia). lia.
Qed.
