(* The properties of verifyInternal lifted through the two layers above it:
   `verify` (DecodePublicKey + the context string, FIPS 205 Algorithm 24) and
   `tink_verify` (signature/slhdsa verifier: the Tink output prefix):
   wrong-length rejection, equality with the FIPS 205 transcription, and the
   modified-signature reduction of proofs/SlhdsaForgery.v. *)
From Coq Require Import List NArith Bool Arith Lia ZifyN ZifyNat ZifyBool.
From Tink Require Import Bytes SlhdsaSupport SlhdsaAddr SlhdsaBase SlhdsaWots Slhdsa SlhdsaSpec
  SlhdsaListProofs SlhdsaWotsProofs SlhdsaProofs SlhdsaFipsSupport SlhdsaFipsLayers SlhdsaFipsTop SlhdsaForgery.
From Tink Require SlhdsaFips.
Import ListNotations.
Open Scope nat_scope.

(* the Tink output prefix, FIPS-style: 0x01 || toByte(key id, 4) for TINK keys, empty for NO_PREFIX *)
Definition tink_prefix_spec (tv : bool) (id : N) : bytes := if tv then F.toByte 1 1 ++ F.toByte id 4 else [].

Lemma tink_prefix_fips tv id : tink_prefix tv id = tink_prefix_spec tv id.
Proof. unfold tink_prefix, tink_prefix_spec. destruct tv; [|reflexivity]. rewrite !toByte_be. reflexivity. Qed.

Lemma tink_prefix_length tv id : length (tink_prefix tv id) = if tv then 5 else 0.
Proof. unfold tink_prefix. destruct tv; [|reflexivity]. cbn [length]. rewrite be_bytes_length. reflexivity. Qed.

Lemma beq_firstn_split pre sig : beq (firstn (length pre) sig) pre = true -> sig = pre ++ skipn (length pre) sig.
Proof. intros H. apply beq_eq in H. rewrite <- H at 1. symmetry. apply firstn_skipn. Qed.

Section API.
  Variable P : params.
  Variable HS : hashes.
  Notation n := (p_n P).

  (* ---------- a signature of the wrong length is rejected, at every layer ---------- *)
  Theorem verify_wrong_length : forall pk msg sig ctx, length sig <> sig_len P ->
    verify P HS pk msg sig ctx = if Nat.eqb (length pk) (2 * n) then Some false else None.
  Proof.
    intros pk msg sig ctx H. unfold verify.
    destruct (Nat.eqb (length pk) (2 * n)); [cbn [negb]|reflexivity].
    destruct (Nat.ltb 255 (length ctx)); [reflexivity|].
    rewrite verifyInternal_wrong_length by exact H. reflexivity.
  Qed.

  Theorem tink_verify_wrong_length : forall tv id pk msg sig,
    length sig <> length (tink_prefix tv id) + sig_len P ->
    tink_verify P HS tv id pk msg sig = if Nat.eqb (length pk) (2 * n) then Some false else None.
  Proof.
    intros tv id pk msg sig H. unfold tink_verify.
    destruct (Nat.eqb (length pk) (2 * n)) eqn:Epk; [cbn [negb]|reflexivity].
    destruct (beq (firstn (length (tink_prefix tv id)) sig) (tink_prefix tv id)) eqn:Eb; [|reflexivity].
    rewrite verify_wrong_length, Epk; [reflexivity|].
    apply beq_eq in Eb. apply (f_equal (@length N)) in Eb. rewrite firstn_length in Eb.
    rewrite skipn_length. lia.
  Qed.

  (* ---------- acceptance by the Tink verifier, decomposed ---------- *)
  Theorem tink_verify_accepts_iff : forall tv id pk msg sig,
    tink_verify P HS tv id pk msg sig = Some true <->
    exists s, sig = tink_prefix tv id ++ s /\ verify P HS pk msg s [] = Some true.
  Proof.
    intros tv id pk msg sig. unfold tink_verify. split.
    - intros H. destruct (negb (Nat.eqb (length pk) (2 * n))); [discriminate|].
      destruct (beq (firstn (length (tink_prefix tv id)) sig) (tink_prefix tv id)) eqn:Eb; [|discriminate].
      exists (skipn (length (tink_prefix tv id)) sig). split; [apply beq_firstn_split; exact Eb|exact H].
    - intros (s & -> & V).
      assert (Hpk : Nat.eqb (length pk) (2 * n) = true).
      { unfold verify in V. destruct (Nat.eqb (length pk) (2 * n)); [reflexivity|discriminate]. }
      rewrite Hpk. cbn [negb]. rewrite firstn_app_exact, skipn_app_exact, beq_refl by reflexivity. exact V.
  Qed.

  (* ---------- the modified-signature reduction at the API layers ---------- *)
  Hypothesis OK : hashes_ok P HS.
  Hypothesis PW : params_wf P.
  Hypothesis WB : hashes_wfb HS.
  Hypothesis DW : digits_wf P.

  Theorem verify_modified_signature : forall pk msg ctx sig sig',
    verify P HS pk msg sig ctx = Some true -> verify P HS pk msg sig' ctx = Some true ->
    firstn n sig = firstn n sig' -> sig <> sig' ->
    sig_switch P HS (firstn n pk) (skipn n pk) (wrap_msg msg ctx) sig sig' = true
    \/ located_collision P HS (firstn n pk) (skipn n pk) (wrap_msg msg ctx) sig sig' = true.
  Proof.
    intros pk msg ctx sig sig' V V' ER Hne. unfold verify in V, V'.
    destruct (negb (Nat.eqb (length pk) (2 * n))); [discriminate|].
    destruct (Nat.ltb 255 (length ctx)); [discriminate|].
    apply (f_equal (fun o => match o with Some b => b | None => false end)) in V.
    apply (f_equal (fun o => match o with Some b => b | None => false end)) in V'.
    exact (modified_signature_accepted P HS OK PW WB DW _ _ _ _ _ V V' ER Hne).
  Qed.

  Theorem tink_verify_modified_signature : forall tv id pk msg sig sig',
    tink_verify P HS tv id pk msg sig = Some true -> tink_verify P HS tv id pk msg sig' = Some true ->
    firstn (length (tink_prefix tv id) + n) sig = firstn (length (tink_prefix tv id) + n) sig' -> sig <> sig' ->
    sig_switch P HS (firstn n pk) (skipn n pk) (wrap_msg msg [])
      (skipn (length (tink_prefix tv id)) sig) (skipn (length (tink_prefix tv id)) sig') = true
    \/ located_collision P HS (firstn n pk) (skipn n pk) (wrap_msg msg [])
      (skipn (length (tink_prefix tv id)) sig) (skipn (length (tink_prefix tv id)) sig') = true.
  Proof.
    intros tv id pk msg sig sig' V V' ER Hne.
    apply tink_verify_accepts_iff in V, V'. destruct V as (s & -> & V). destruct V' as (s' & -> & V').
    rewrite !skipn_app_exact by reflexivity.
    apply (verify_modified_signature pk msg [] s s' V V').
    - rewrite !firstn_app in ER. replace (length (tink_prefix tv id) + n - length (tink_prefix tv id)) with n in ER by lia.
      rewrite !firstn_all2 in ER by lia. apply app_inv_head in ER. exact ER.
    - intros ->. apply Hne. reflexivity.
  Qed.
End API.

(* ---------- the API layers compute FIPS 205 Algorithms 22 / 24 around the prefix ---------- *)
Section APIFIPS.
  Variable P : params.
  Variable HS : hashes.
  Variable HF : F.fips_hashes.
  Hypothesis AG : hashes_agree HS HF.
  Hypothesis WF : fips_wf P = true.
  Notation FP := (to_fips P).

  Theorem tink_verify_fips : forall tv id pk msg sig,
    tink_verify P HS tv id pk msg sig
    = match F.pk_decode FP pk with
      | None => None
      | Some PK =>
        let pre := tink_prefix_spec tv id in
        Some (if beq (F.sl sig 0 (length pre)) pre
              then F.slh_verify FP HF msg (F.sl sig (length pre) (length sig)) [] PK else false)
      end.
  Proof.
    intros. unfold tink_verify. rewrite (verify_fips P HS HF AG WF), tink_prefix_fips.
    unfold F.pk_decode. cbn [to_fips F.f_n]. cbv zeta. rewrite !sl_0.
    destruct (Nat.eqb (length pk) (2 * p_n P)); [cbn [negb]|reflexivity].
    destruct (beq (firstn (length (tink_prefix_spec tv id)) sig) (tink_prefix_spec tv id)); [|reflexivity].
    do 2 f_equal. unfold F.sl. symmetry. apply firstn_all2. rewrite skipn_length. lia.
  Qed.

  Theorem tink_sign_fips : forall tv id sk msg addrnd,
    tink_sign P HS tv id sk msg addrnd
    = match F.sk_decode FP sk with
      | None => None
      | Some SK => match F.slh_sign FP HF msg [] SK addrnd with
                   | Some s => Some (tink_prefix_spec tv id ++ s)
                   | None => None
                   end
      end.
  Proof.
    intros. unfold tink_sign. rewrite (sign_fips P HS HF AG WF), tink_prefix_fips.
    destruct (F.sk_decode FP sk); reflexivity.
  Qed.
End APIFIPS.
