(* Modifications that change the FORS indices (the message, or R, changed and
   the new digest selects other FORS leaves -- but the same hypertree leaf):
   the explicit TARGET-SUBSET event, in reduction form.

   Two accepted (message, signature) pairs under one public key whose digests
   select the same (idx_tree, idx_leaf), with ARBITRARY FORS indices ind, ind':
   the hypertree parts are equal and, for EVERY FORS tree i,
     - ind_i = ind'_i and the two signatures reveal the same secret value and the
       same authentication path there, or
     - ind_i <> ind'_i and the two openings CROSS: at some height kk (the highest
       bit where the two indices differ) the node the second signature computes
       from ITS revealed leaf and ITS lower authentication nodes is the
       authentication node of the FIRST signature at height kk (and vice versa),
       and the authentication nodes above kk coincide -- every index of the
       second digest lands on a leaf that is consistent with the FORS tree the
       first signature commits to;
   or the located WOTS+ switch of proofs/SlhdsaForgery.v is true of the pair, or
   a same-tweak collision exists.  With the first signature genuine, the
   authentication nodes are the true tree nodes, so the second signature had to
   reveal, for each of its k indices, a value hashing to the true subtree node:
   the secret leaf value (PRF output) itself, or a second preimage.
   Not covered: digests selecting a different (idx_tree, idx_leaf). *)
From Coq Require Import List NArith Bool Arith Lia ZifyN ZifyNat ZifyBool.
From Tink Require Import Bytes SlhdsaSupport SlhdsaAddr SlhdsaBase SlhdsaWots SlhdsaXmss SlhdsaFors SlhdsaHt Slhdsa
  SlhdsaSpec SlhdsaListProofs SlhdsaSupportProofs SlhdsaWotsProofs SlhdsaXmssProofs SlhdsaForsProofs SlhdsaHtProofs
  SlhdsaProofs SlhdsaForgery.
Import ListNotations.
Open Scope nat_scope.

Section MERGE.
  Variable P : params.
  Variable HS : hashes.
  Hypothesis OK : hashes_ok P HS.
  Variable pk : bytes.
  Notation n := (p_n P).
  Notation COLL := (th_collision HS pk).
  Variable mkad : N -> N -> address.

  Definition climb_step (tidx idx : N) (auth : bytes) (j : nat) (node : bytes) : bytes :=
    let ad := mkad (N.of_nat j + 1) (N.shiftr tidx (N.of_nat j + 1)) in
    if N.eqb (N.land (N.shiftr idx (N.of_nat j)) 1) 0
    then hH HS pk ad (node ++ chunk P j auth) else hH HS pk ad (chunk P j auth ++ node).

  Lemma climbS_snoc tidx idx auth : forall c k node,
    climbS P HS mkad (S c) k tidx idx auth pk node
    = climb_step tidx idx auth (k + c) (climbS P HS mkad c k tidx idx auth pk node).
  Proof.
    induction c as [|c IH]; intros k node.
    - cbn [climbS]. rewrite Nat.add_0_r. reflexivity.
    - change (climbS P HS mkad (S (S c)) k tidx idx auth pk node)
        with (climbS P HS mkad (S c) (S k) tidx idx auth pk (climb_step tidx idx auth k node)).
      rewrite IH. replace (S k + c) with (k + S c) by lia. reflexivity.
  Qed.

  Lemma shiftr_split x c : N.shiftr x (N.of_nat c) = (2 * N.shiftr x (N.of_nat c + 1) + N.land (N.shiftr x (N.of_nat c)) 1)%N.
  Proof.
    rewrite shiftr_succ, shiftr1_div, land1_mod. apply N.div_mod. discriminate.
  Qed.

  (* two openings of one Merkle tree (cnt levels) at different leaves, same root: they cross *)
  Lemma merge : forall cnt tidx1 idx1 auth1 node1 tidx2 idx2 auth2 node2,
    length node1 = n -> length node2 = n ->
    (forall j, j < cnt -> length (chunk P j auth1) = n /\ length (chunk P j auth2) = n) ->
    (forall j, j < cnt -> N.land (N.shiftr idx1 (N.of_nat j)) 1 = N.land (N.shiftr tidx1 (N.of_nat j)) 1) ->
    (forall j, j < cnt -> N.land (N.shiftr idx2 (N.of_nat j)) 1 = N.land (N.shiftr tidx2 (N.of_nat j)) 1) ->
    N.shiftr tidx1 (N.of_nat cnt) = N.shiftr tidx2 (N.of_nat cnt) -> tidx1 <> tidx2 ->
    climbS P HS mkad cnt 0 tidx1 idx1 auth1 pk node1 = climbS P HS mkad cnt 0 tidx2 idx2 auth2 pk node2 ->
    COLL \/ exists kk, kk < cnt /\
      N.land (N.shiftr tidx1 (N.of_nat kk)) 1 <> N.land (N.shiftr tidx2 (N.of_nat kk)) 1 /\
      climbS P HS mkad kk 0 tidx1 idx1 auth1 pk node1 = chunk P kk auth2 /\
      climbS P HS mkad kk 0 tidx2 idx2 auth2 pk node2 = chunk P kk auth1 /\
      forall j, kk < j < cnt -> chunk P j auth1 = chunk P j auth2.
  Proof.
    induction cnt as [|cnt IH]; intros tidx1 idx1 auth1 node1 tidx2 idx2 auth2 node2 L1 L2 Lc B1 B2 Hs Hne E.
    - exfalso. apply Hne. change (N.of_nat 0) with 0%N in Hs. rewrite !N.shiftr_0_r in Hs. exact Hs.
    - rewrite !climbS_snoc in E. cbn [Nat.add] in E.
      set (m1 := climbS P HS mkad cnt 0 tidx1 idx1 auth1 pk node1) in *.
      set (m2 := climbS P HS mkad cnt 0 tidx2 idx2 auth2 pk node2) in *.
      assert (Lm1 : length m1 = n) by (apply (climbS_length P HS OK); exact L1).
      assert (Lm2 : length m2 = n) by (apply (climbS_length P HS OK); exact L2).
      destruct (Lc cnt ltac:(lia)) as [Lc1 Lc2].
      unfold climb_step in E. cbv zeta in E.
      replace (N.of_nat (S cnt)) with (N.of_nat cnt + 1)%N in Hs by lia. rewrite <- Hs in E.
      rewrite (B1 cnt ltac:(lia)), (B2 cnt ltac:(lia)) in E.
      set (b1 := N.land (N.shiftr tidx1 (N.of_nat cnt)) 1) in *.
      set (b2 := N.land (N.shiftr tidx2 (N.of_nat cnt)) 1) in *.
      assert (Same : b1 = b2 -> m1 = m2 /\ chunk P cnt auth1 = chunk P cnt auth2 \/ COLL).
      { intros Eb. rewrite <- Eb in E. destruct (N.eqb b1 0).
        - apply hH_inj in E; [|rewrite !app_length; lia]. destruct E as [E|C]; [left|right; exact C].
          apply app_inv_length in E; [exact E|lia].
        - apply hH_inj in E; [|rewrite !app_length; lia]. destruct E as [E|C]; [left|right; exact C].
          apply app_inv_length in E; [tauto|lia]. }
      destruct (N.eq_dec b1 b2) as [Eb|Nb].
      + destruct (Same Eb) as [[Em Ec]|C]; [|left; exact C].
        assert (Hs' : N.shiftr tidx1 (N.of_nat cnt) = N.shiftr tidx2 (N.of_nat cnt)).
        { rewrite (shiftr_split tidx1 cnt), (shiftr_split tidx2 cnt). fold b1 b2. rewrite Hs, Eb. reflexivity. }
        destruct (IH tidx1 idx1 auth1 node1 tidx2 idx2 auth2 node2 L1 L2
                    ltac:(intros; apply Lc; lia) ltac:(intros; apply B1; lia) ltac:(intros; apply B2; lia) Hs' Hne Em)
          as [C|(kk & Hk & Hb & X1 & X2 & Up)]; [left; exact C|right].
        exists kk. split; [lia|]. split; [exact Hb|]. split; [exact X1|]. split; [exact X2|].
        intros j Hj. destruct (Nat.eq_dec j cnt) as [->|Hn]; [exact Ec|apply Up; lia].
      + (* the two paths arrive from different sides: they cross here *)
        assert (Cross : (m1 = chunk P cnt auth2 /\ m2 = chunk P cnt auth1) \/ COLL).
        { destruct (N.eqb_spec b1 0) as [Z1|Z1]; destruct (N.eqb_spec b2 0) as [Z2|Z2]; try (exfalso; apply Nb; congruence).
          - apply hH_inj in E; [|rewrite !app_length; lia]. destruct E as [E|C]; [left|right; exact C].
            apply app_inv_length in E; [|lia]. destruct E as [E1 E2]. split; [exact E1|symmetry; exact E2].
          - apply hH_inj in E; [|rewrite !app_length; lia]. destruct E as [E|C]; [left|right; exact C].
            apply app_inv_length in E; [|lia]. destruct E as [E1 E2]. split; [exact E2|symmetry; exact E1].
          - exfalso. apply Nb. unfold b1, b2 in *. rewrite !land1_mod in *.
            pose proof (N.mod_lt (N.shiftr tidx1 (N.of_nat cnt)) 2 ltac:(discriminate)).
            pose proof (N.mod_lt (N.shiftr tidx2 (N.of_nat cnt)) 2 ltac:(discriminate)). lia. }
        destruct Cross as [[X1 X2]|C]; [right|left; exact C].
        exists cnt. split; [lia|]. split; [exact Nb|]. split; [exact X1|]. split; [exact X2|]. intros; lia.
  Qed.
End MERGE.

Section FORS2.
  Variable P : params.
  Variable HS : hashes.
  Hypothesis OK : hashes_ok P HS.
  Variable pk : bytes.
  Notation n := (p_n P).
  Notation a := (p_a P).
  Notation COLL := (th_collision HS pk).

  (* the pieces of FORS tree i in a FORS signature, as Algorithm 17 takes them *)
  Definition fors_sk (i : nat) (s : bytes) : bytes := firstn n (skipn (i * (a + 1) * n) s).
  Definition fors_auth (i : nat) (s : bytes) : bytes :=
    firstn ((i + 1) * (a + 1) * n - (i * (a + 1) + 1) * n) (skipn ((i * (a + 1) + 1) * n) s).
  Definition fors_leaf (l t kp : N) (i : nat) (ind : N) (s : bytes) : bytes :=
    hF HS pk (mkA l t T_FORSTREE kp 0 (forsLeafIdx P i ind)) (fors_sk i s).
  (* the node at height kk that the signature s computes in tree i from its revealed leaf at index ind *)
  Definition fors_partial (l t kp : N) (i : nat) (ind : N) (s : bytes) (kk : nat) : bytes :=
    climbS P HS (fun h x => mkA l t T_FORSTREE kp h x) kk 0 (forsLeafIdx P i ind) ind (fors_auth i s) pk
           (fors_leaf l t kp i ind s).

  (* THE PER-TREE EVENT: same index and same opening, or the two openings cross *)
  Definition tree_consistent (l t kp : N) (i : nat) (ind ind' : N) (s s' : bytes) : Prop :=
    (ind = ind' /\ fors_sk i s = fors_sk i s' /\ fors_auth i s = fors_auth i s') \/
    (ind <> ind' /\ exists kk, kk < a /\
       fors_partial l t kp i ind' s' kk = chunk P kk (fors_auth i s) /\
       fors_partial l t kp i ind s kk = chunk P kk (fors_auth i s') /\
       forall j, kk < j < a -> chunk P j (fors_auth i s) = chunk P j (fors_auth i s')).

  Lemma leaf_parity (i : nat) (ind : N) : forall j, j < a ->
    N.land (N.shiftr ind (N.of_nat j)) 1 = N.land (N.shiftr (forsLeafIdx P i ind) (N.of_nat j)) 1.
  Proof.
    intros j Hj. unfold forsLeafIdx. rewrite (leaf_shiftr (N.of_nat i) ind a j) by lia.
    destruct (shiftl_even (N.of_nat i) (a - j) ltac:(lia)) as [X EX]. rewrite EX.
    symmetry. apply even_add_land1.
  Qed.

  Lemma leaf_top (i : nat) (ind : N) : (ind < 2 ^ N.of_nat a)%N -> N.shiftr (forsLeafIdx P i ind) (N.of_nat a) = N.of_nat i.
  Proof.
    intros H. unfold forsLeafIdx. rewrite (leaf_shiftr (N.of_nat i) ind a a) by lia.
    rewrite Nat.sub_diag. change (N.of_nat 0) with 0%N. rewrite N.shiftl_0_r.
    rewrite N.shiftr_div_pow2, N.div_small by exact H. lia.
  Qed.

  Lemma fors_tree_rel l t kp i ind ind' s s' : i < p_k P ->
    length s = p_k P * ((a + 1) * n) -> length s' = p_k P * ((a + 1) * n) ->
    (ind < 2 ^ N.of_nat a)%N -> (ind' < 2 ^ N.of_nat a)%N ->
    fors_partial l t kp i ind s a = fors_partial l t kp i ind' s' a ->
    tree_consistent l t kp i ind ind' s s' \/ COLL.
  Proof.
    intros Hi Ls Ls' Hb Hb' E. unfold fors_partial in E.
    assert (Ea : forall z, length z = p_k P * ((a + 1) * n) -> length (fors_auth i z) = a * n).
    { intros z Hz. unfold fors_auth. rewrite firstn_length, skipn_length. nia. }
    assert (Lau : forall z, length z = p_k P * ((a + 1) * n) -> forall j, j < a -> length (chunk P j (fors_auth i z)) = n).
    { intros z Hz j Hj. apply gchunk_length. rewrite Ea by exact Hz. nia. }
    assert (Ll : forall x z, length (fors_leaf l t kp i x z) = n) by (intros; apply (hF_len _ _ OK)).
    destruct (N.eq_dec ind ind') as [<-|Hne].
    - apply (climb_inj P HS OK) in E; auto.
      2:{ intros j Hj. split; [apply (Lau s)|apply (Lau s')]; auto; lia. }
      destruct E as [[El Ec]|C]; [|right; exact C].
      unfold fors_leaf in El. apply hF_inj in El.
      2:{ unfold fors_sk. rewrite !firstn_length, !skipn_length. nia. }
      destruct El as [El|C]; [left; left|right; exact C].
      split; [reflexivity|]. split; [exact El|].
      apply (gchunks_eq n a); try (apply Ea; assumption). intros j Hj. apply Ec. lia.
    - assert (Hl : forsLeafIdx P i ind <> forsLeafIdx P i ind') by (unfold forsLeafIdx; lia).
      destruct (merge P HS OK pk (fun h x => mkA l t T_FORSTREE kp h x) a
                  (forsLeafIdx P i ind) ind (fors_auth i s) (fors_leaf l t kp i ind s)
                  (forsLeafIdx P i ind') ind' (fors_auth i s') (fors_leaf l t kp i ind' s')
                  (Ll _ _) (Ll _ _)
                  ltac:(intros j Hj; split; [apply (Lau s)|apply (Lau s')]; auto)
                  (leaf_parity i ind) (leaf_parity i ind')
                  ltac:(rewrite !leaf_top by assumption; reflexivity) Hl E)
        as [C|(kk & Hk & _ & X1 & X2 & Up)]; [right; exact C|left; right].
      split; [exact Hne|]. exists kk. split; [exact Hk|]. split; [exact X2|]. split; [exact X1|exact Up].
  Qed.

  (* all k trees *)
  Definition fors_consistent (l t kp : N) (ind ind' : list N) (s s' : bytes) : Prop :=
    forall i, i < p_k P -> tree_consistent l t kp i (nth i ind 0%N) (nth i ind' 0%N) s s'.

  Lemma fors_two_openings l t kp ind ind' s s' :
    length s = p_k P * ((a + 1) * n) -> length s' = p_k P * ((a + 1) * n) ->
    (forall i, i < p_k P -> (nth i ind 0 < 2 ^ N.of_nat a)%N) -> (forall i, i < p_k P -> (nth i ind' 0 < 2 ^ N.of_nat a)%N) ->
    forsPkFromSigS P HS l t kp ind s pk = forsPkFromSigS P HS l t kp ind' s' pk ->
    fors_consistent l t kp ind ind' s s' \/ COLL.
  Proof.
    intros Ls Ls' Hb Hb' E. unfold forsPkFromSigS in E.
    change (hTl HS pk (mkA l t T_FORSROOTS kp 0 0)
              (flat_map (fun i => fors_partial l t kp i (nth i ind 0%N) s a) (seq 0 (p_k P)))
            = hTl HS pk (mkA l t T_FORSROOTS kp 0 0)
              (flat_map (fun i => fors_partial l t kp i (nth i ind' 0%N) s' a) (seq 0 (p_k P)))) in E.
    assert (LG : forall x z j, length (fors_partial l t kp j (nth j x 0%N) z a) = n).
    { intros. unfold fors_partial. apply (climbS_length P HS OK). apply (hF_len _ _ OK). }
    apply hTl_inj in E; [|rewrite !(flat_map_seq_length _ 0 (p_k P) n); auto].
    destruct E as [E|C]; [|right; exact C].
    pose proof (flat_map_seq_inj _ _ n (p_k P) 0 ltac:(intros; apply LG) ltac:(intros; apply LG) E) as Ei.
    assert (G : forall cnt, cnt <= p_k P ->
              (forall i, i < cnt -> tree_consistent l t kp i (nth i ind 0%N) (nth i ind' 0%N) s s') \/ COLL).
    { induction cnt as [|cnt IH]; intros Hc; [left; intros; lia|].
      destruct (IH ltac:(lia)) as [IHa|C]; [|right; exact C].
      destruct (fors_tree_rel l t kp cnt (nth cnt ind 0%N) (nth cnt ind' 0%N) s s' ltac:(lia) Ls Ls'
                  (Hb cnt ltac:(lia)) (Hb' cnt ltac:(lia)) (Ei cnt ltac:(lia))) as [T|C]; [left|right; exact C].
      intros i Hi. destruct (Nat.eq_dec i cnt) as [->|Hn]; [exact T|apply IHa; lia]. }
    exact (G (p_k P) (le_n _)).
  Qed.
End FORS2.

(* ---------- the whole verification: same hypertree leaf, arbitrary FORS indices ---------- *)
Section TOP2.
  Variable P : params.
  Variable HS : hashes.
  Hypothesis OK : hashes_ok P HS.
  Hypothesis WF : params_wf P.
  Hypothesis WB : hashes_wfb HS.
  Hypothesis DW : digits_wf P.
  Notation n := (p_n P).

  Theorem two_accepted_same_leaf : forall pkSeed pkRoot msg sig msg' sig' md md' it il,
    verifyInternal P HS pkSeed pkRoot msg sig = true ->
    verifyInternal P HS pkSeed pkRoot msg' sig' = true ->
    split_digest P (hHMsg HS (firstn n sig) pkSeed pkRoot msg) = (md, it, il) ->
    split_digest P (hHMsg HS (firstn n sig') pkSeed pkRoot msg') = (md', it, il) ->
    let ind := base2b md (p_a P) (p_k P) in
    let ind' := base2b md' (p_a P) (p_k P) in
    (sig_ht P sig = sig_ht P sig' /\
     fors_consistent P HS pkSeed 0 it il ind ind' (sig_fors P sig) (sig_fors P sig'))
    \/ ht_switch P HS pkSeed (sig_ht P sig) (sig_ht P sig') it il
         (forsPkFromSigS P HS 0 it il ind (sig_fors P sig) pkSeed)
         (forsPkFromSigS P HS 0 it il ind' (sig_fors P sig') pkSeed) = true
    \/ th_collision HS pkSeed.
  Proof.
    intros pkSeed pkRoot msg sig msg' sig' md md' it il V V' Sd Sd' ind ind'.
    rewrite verifyInternal_fips in V, V'. unfold verifyInternalS in V, V'.
    destruct (Nat.eqb_spec (length sig) (sig_len P)) as [L|L]; [cbn [negb] in V|discriminate].
    destruct (Nat.eqb_spec (length sig') (sig_len P)) as [L'|L']; [cbn [negb] in V'|discriminate].
    rewrite Sd in V. rewrite Sd' in V'. fold ind in V. fold ind' in V'.
    destruct WF as [Hh Hd].
    fold (sig_fors P sig) in V. fold (sig_fors P sig') in V'. fold (sig_ht P sig) in V. fold (sig_ht P sig') in V'.
    set (sF := sig_fors P sig) in *. set (sF' := sig_fors P sig') in *.
    set (sH := sig_ht P sig) in *. set (sH' := sig_ht P sig') in *.
    assert (LsF : length sF = p_k P * ((p_a P + 1) * n) /\ length sF' = p_k P * ((p_a P + 1) * n)).
    { unfold sF, sF', sig_fors. rewrite !firstn_length, !skipn_length, L, L'. unfold sig_len. nia. }
    assert (LsH : length sH = p_d P * xmssSigSize P /\ length sH' = p_d P * xmssSigSize P).
    { unfold sH, sH', sig_ht. rewrite !skipn_length, L, L'. unfold sig_len, xmssSigSize. rewrite Hh. nia. }
    destruct LsF as [LF LF']. destruct LsH as [LH LH'].
    set (M0 := forsPkFromSigS P HS 0 it il ind sF pkSeed) in *.
    set (M0' := forsPkFromSigS P HS 0 it il ind' sF' pkSeed) in *.
    assert (WM : wfb M0 /\ wfb M0' /\ length M0 = n /\ length M0' = n).
    { unfold M0, M0', forsPkFromSigS. repeat split; try apply (hTl_wfb _ WB); apply (hTl_len _ _ OK). }
    destruct WM as (WM & WM' & LM & LM').
    unfold htVerifyS in V, V'. apply beq_eq in V, V'. rewrite <- V' in V. clear V'.
    unfold ht_switch.
    change (firstn (xmssSigSize P) sH) with (gchunk (xmssSigSize P) 0 sH) in V.
    change (firstn (xmssSigSize P) sH') with (gchunk (xmssSigSize P) 0 sH') in V.
    apply (ht_loop_inj P HS OK pkSeed WB DW sH sH' (p_d P) LH LH') in V;
      try lia; try apply xmss_out_wfb; try apply xmss_out_len; auto.
    destruct V as [[V Rest]|[Sw|C]]; [|right; left; rewrite Sw; apply orb_true_r|right; right; exact C].
    apply (xmss_layer P HS OK pkSeed DW) in V; auto; try (apply gchunk_length; nia).
    destruct V as [[V0 B0]|[Sw|C]]; [|right; left; rewrite Sw; reflexivity|right; right; exact C].
    assert (EH : sH = sH').
    { apply (gchunks_eq (xmssSigSize P) (p_d P)); auto. intros i Hi.
      destruct (Nat.eq_dec i 0) as [->|Hne]; [exact B0|apply Rest; lia]. }
    assert (Hb : forall md0 i, i < p_k P -> (nth i (base2b md0 (p_a P) (p_k P)) 0 < 2 ^ N.of_nat (p_a P))%N).
    { intros md0 i Hi. pose proof (base2b_lt md0 (p_a P) (p_k P)) as Hl.
      rewrite Forall_forall in Hl. apply Hl. apply nth_In. rewrite base2b_length. exact Hi. }
    apply (fors_two_openings P HS OK) in V0; auto; try (intros; apply Hb; assumption).
    destruct V0 as [FC|C]; [left; split; assumption|right; right; exact C].
  Qed.
End TOP2.
