(* Modifications that change the digest (the message or R changed): what an
   accepted signature must contain -- the explicit TARGET-SUBSET event.

   For a key pair generated from (SK.seed, PK.seed), ANY signature sig' accepted
   for a message msg is compared with the signature the key holder's algorithm
   produces for msg with the same randomizer R' = sig'[0:n] (`genuine_sig`: the
   body of slh_sign_internal with R given).  Both verify for the same digest, so
   (proofs/SlhdsaForgery.v) sig' has the GENUINE body, or the located WOTS+
   switch or a located same-tweak collision is true of the pair.  Having the
   genuine body means: for each of the k FORS indices ind'_i that the digest of
   (R', msg) selects, sig' reveals exactly the secret PRF(PK.seed, SK.seed,
   FORS_PRF address of leaf ind'_i) -- the forger hit, with all k indices, leaves
   whose secret values it knows.  From earlier signatures it knows only the
   values at the indices those signatures' digests selected: this is the
   (interleaved) target-subset event of H_msg, stated on the nose; that it is
   infeasible is target-subset resilience + PRF secrecy (not hash laws here).
   No assumption relates sig' to any earlier signature, and the digest may
   select any hypertree leaf. *)
From Coq Require Import List NArith Bool Arith Lia ZifyN ZifyNat ZifyBool.
From Tink Require Import Bytes SlhdsaSupport SlhdsaAddr SlhdsaBase SlhdsaWots SlhdsaXmss SlhdsaFors SlhdsaHt Slhdsa
  SlhdsaSpec SlhdsaListProofs SlhdsaSupportProofs SlhdsaWotsProofs SlhdsaXmssProofs SlhdsaForsProofs SlhdsaHtProofs
  SlhdsaProofs SlhdsaForgery.
Import ListNotations.
Open Scope nat_scope.

Section GENUINE.
  Variable P : params.
  Variable HS : hashes.
  Hypothesis OK : hashes_ok P HS.
  Hypothesis WF : params_wf P.
  Notation n := (p_n P).
  Notation a := (p_a P).

  (* the signature slh_sign_internal produces once R is fixed (Algorithm 19 lines 5-19):
     R || FORS signature of the digest's md || hypertree signature of the FORS public key *)
  Definition genuine_sig (skSeed pkSeed pkRoot msg R : bytes) : bytes :=
    let '(md, it, il) := split_digest P (hHMsg HS R pkSeed pkRoot msg) in
    let ind := base2b md a (p_k P) in
    R ++ forsSignS P HS 0 it il ind skSeed pkSeed
      ++ htSignS P HS (forsPkS P HS 0 it il skSeed pkSeed) skSeed pkSeed it il.

  Lemma ind_lt md i : (nth i (base2b md a (p_k P)) 0 < 2 ^ N.of_nat a)%N.
  Proof.
    destruct (Nat.lt_ge_cases i (p_k P)) as [Hi|Hi].
    - pose proof (base2b_lt md a (p_k P)) as Hl. rewrite Forall_forall in Hl. apply Hl. apply nth_In.
      rewrite base2b_length. exact Hi.
    - rewrite nth_overflow by (rewrite base2b_length; lia). apply N.neq_0_lt_0, N.pow_nonzero. lia.
  Qed.

  (* signInternal is genuine_sig at R = PRF_msg(SK.prf, addrnd, M) *)
  Lemma signInternal_genuine skSeed skPrf pkSeed pkRoot msg addrnd :
    signInternal P HS skSeed skPrf pkSeed pkRoot msg addrnd
    = genuine_sig skSeed pkSeed pkRoot msg (hPrfMsg HS skPrf addrnd msg).
  Proof.
    unfold signInternal, genuine_sig. set (R := hPrfMsg HS skPrf addrnd msg).
    destruct (split_digest P (hHMsg HS R pkSeed pkRoot msg)) as [[md it] il].
    destruct (forsSign_spec P HS md skSeed pkSeed (forsAdrs it il) eq_refl) as [A B].
    destruct (forsSign P HS md skSeed pkSeed (forsAdrs it il)) as [sigFors ad1]. cbn [fst snd] in A, B.
    assert (Ht1 : a_typ ad1 = T_FORSTREE) by (unfold eq23 in B; simpl in B; intuition congruence).
    destruct (forsPkFromSig_spec P HS sigFors md pkSeed ad1 Ht1) as [A1 B1].
    destruct (forsPkFromSig P HS sigFors md pkSeed ad1) as [pkFors ad2]. cbn [fst snd] in A1.
    rewrite htSign_spec. subst pkFors sigFors.
    destruct B as (b1 & b2 & b3 & b4). rewrite b1, b2, b4. cbn [forsAdrs a_layer a_tree a_kp setKeyPairAddress setTypeAndClear setTreeAddress newAddress].
    rewrite (forsS_complete P HS OK) by (intros; apply ind_lt). reflexivity.
  Qed.

  Lemma genuine_sig_length skSeed pkSeed pkRoot msg R : length R = n ->
    length (genuine_sig skSeed pkSeed pkRoot msg R) = sig_len P.
  Proof.
    intros HR. destruct WF as [Hh Hd]. unfold genuine_sig.
    destruct (split_digest P _) as [[md it] il].
    rewrite !app_length, HR, forsSignS_length, htSignS_length by auto. unfold sig_len, xmssSigSize. rewrite Hh. nia.
  Qed.

  (* its parts *)
  Lemma genuine_sig_parts skSeed pkSeed pkRoot msg R md it il : length R = n ->
    split_digest P (hHMsg HS R pkSeed pkRoot msg) = (md, it, il) ->
    let g := genuine_sig skSeed pkSeed pkRoot msg R in
    firstn n g = R /\
    sig_fors P g = forsSignS P HS 0 it il (base2b md a (p_k P)) skSeed pkSeed /\
    sig_ht P g = htSignS P HS (forsPkS P HS 0 it il skSeed pkSeed) skSeed pkSeed it il.
  Proof.
    intros HR Esd g. unfold g, genuine_sig. rewrite Esd. destruct WF as [Hh Hd].
    set (sF := forsSignS P HS 0 it il (base2b md a (p_k P)) skSeed pkSeed).
    assert (LF : length sF = p_k P * ((a + 1) * n)) by (apply forsSignS_length; auto).
    split; [apply firstn_app_exact; lia|]. unfold sig_fors, sig_ht. split.
    - rewrite (skipn_app_exact R) by lia. apply firstn_app_exact. nia.
    - rewrite app_assoc. apply skipn_app_exact. rewrite app_length. nia.
  Qed.

  (* the key holder's signature verifies under the generated root, whatever R (n bytes) *)
  Lemma genuine_sig_verifies skSeed pkSeed msg R : length R = n ->
    verifyInternal P HS pkSeed (keygenRoot P HS skSeed pkSeed) msg
      (genuine_sig skSeed pkSeed (keygenRoot P HS skSeed pkSeed) msg R) = true.
  Proof.
    intros HR. set (pkRoot := keygenRoot P HS skSeed pkSeed).
    rewrite verifyInternal_fips. unfold verifyInternalS.
    rewrite genuine_sig_length, Nat.eqb_refl by exact HR. cbn [negb].
    destruct (split_digest P (hHMsg HS R pkSeed pkRoot msg)) as [[md it] il] eqn:Esd.
    destruct (genuine_sig_parts skSeed pkSeed pkRoot msg R md it il HR Esd) as (E1 & E2 & E3).
    fold (sig_fors P (genuine_sig skSeed pkSeed pkRoot msg R)). fold (sig_ht P (genuine_sig skSeed pkSeed pkRoot msg R)).
    rewrite E1, Esd, E2, E3.
    rewrite (forsS_complete P HS OK) by (intros; apply ind_lt).
    destruct WF as [Hh Hd].
    unfold pkRoot, keygenRoot. rewrite (proj1 (xmssNode_spec _ _ _ _ _ _ _)).
    cbn [a_layer a_tree setLayerAddress newAddress]. fold (pkRootS P HS skSeed pkSeed).
    apply htS_complete; auto.
    - exact (split_digest_leaf_lt P _ _ _ _ Esd).
    - replace ((p_d P - 1) * p_hp P) with (p_h P - p_hp P) by nia. exact (split_digest_tree_lt P _ _ _ _ Esd).
  Qed.

  (* the i-th revealed FORS value of a genuine FORS signature is the PRF secret of leaf ind_i *)
  Lemma fors_sk_genuine l t kp ind skSeed pkSeed i : i < p_k P ->
    fors_sk P i (forsSignS P HS l t kp ind skSeed pkSeed)
    = forsSkS HS l t kp skSeed pkSeed (forsLeafIdx P i (nth i ind 0%N)).
  Proof.
    intros Hi. unfold fors_sk, forsSignS.
    replace (i * (a + 1) * n) with (i * ((a + 1) * n)) by lia.
    rewrite (skipn_flat_map_seq _ ((a + 1) * n) (p_k P) 0 i); [|intros j _|exact Hi].
    - cbn [Nat.add]. cbv zeta. rewrite <- app_assoc. apply firstn_app_exact. unfold forsSkS. rewrite (hPrf_len _ _ OK). reflexivity.
    - cbv zeta. rewrite app_length. unfold forsSkS at 1. rewrite (hPrf_len _ _ OK).
      rewrite (flat_map_seq_length _ 0 a n) by (intros; apply forsNodeS_len; auto). lia.
  Qed.

  Hypothesis WB : hashes_wfb HS.
  Hypothesis DW : digits_wf P.

  (* ANY accepted signature vs the key holder's signature for the same (R, msg) *)
  Theorem accepted_vs_genuine : forall skSeed pkSeed msg sig',
    let pkRoot := keygenRoot P HS skSeed pkSeed in
    verifyInternal P HS pkSeed pkRoot msg sig' = true ->
    let g := genuine_sig skSeed pkSeed pkRoot msg (firstn n sig') in
    sig_body P g = sig_body P sig' \/ sig_switch P HS pkSeed pkRoot msg g sig' = true
    \/ located_collision P HS pkSeed pkRoot msg g sig' = true.
  Proof.
    intros skSeed pkSeed msg sig' pkRoot V g.
    assert (L : length sig' = sig_len P).
    { unfold verifyInternal in V. destruct (Nat.eqb_spec (length sig') (sig_len P)); [assumption|discriminate]. }
    assert (HR : length (firstn n sig') = n) by (rewrite firstn_length, L; unfold sig_len; nia).
    pose proof (genuine_sig_verifies skSeed pkSeed msg (firstn n sig') HR) as Vg. fold pkRoot g in Vg.
    apply (two_accepted_signatures P HS OK WF WB DW pkSeed pkRoot msg g msg sig' Vg V).
    unfold selectors.
    destruct (split_digest P (hHMsg HS (firstn n sig') pkSeed pkRoot msg)) as [[md it] il] eqn:Esd.
    destruct (genuine_sig_parts skSeed pkSeed pkRoot msg (firstn n sig') md it il HR Esd) as (E1 & _). fold g in E1.
    rewrite E1, Esd. reflexivity.
  Qed.

  (* the genuine body, spelled out: all k revealed FORS values are the PRF secrets at the
     indices the digest selects (and the rest of the body is the key holder's too) *)
  Theorem genuine_body_reveals_prf_secrets : forall skSeed pkSeed msg sig' md it il,
    let pkRoot := keygenRoot P HS skSeed pkSeed in
    length sig' = sig_len P ->
    split_digest P (hHMsg HS (firstn n sig') pkSeed pkRoot msg) = (md, it, il) ->
    sig_body P (genuine_sig skSeed pkSeed pkRoot msg (firstn n sig')) = sig_body P sig' ->
    sig_fors P sig' = forsSignS P HS 0 it il (base2b md a (p_k P)) skSeed pkSeed /\
    sig_ht P sig' = htSignS P HS (forsPkS P HS 0 it il skSeed pkSeed) skSeed pkSeed it il /\
    forall i, i < p_k P ->
      fors_sk P i (sig_fors P sig')
      = hPrf HS pkSeed skSeed (mkA 0 it T_FORSPRF il 0 (forsLeafIdx P i (nth i (base2b md a (p_k P)) 0%N))).
  Proof.
    intros skSeed pkSeed msg sig' md it il pkRoot L Esd Eb.
    assert (HR : length (firstn n sig') = n) by (rewrite firstn_length, L; unfold sig_len; nia).
    destruct (genuine_sig_parts skSeed pkSeed pkRoot msg (firstn n sig') md it il HR Esd) as (_ & E2 & E3).
    set (g := genuine_sig skSeed pkSeed pkRoot msg (firstn n sig')) in *.
    assert (Lg : length g = sig_len P) by (apply genuine_sig_length; exact HR).
    rewrite !(sig_body_parts P) in Eb.
    destruct (sig_parts_len P WF g Lg) as [LF _]. destruct (sig_parts_len P WF sig' L) as [LF' _].
    apply app_inv_length in Eb; [|lia]. destruct Eb as [EF EH].
    rewrite <- EF, <- EH. split; [exact E2|]. split; [exact E3|].
    intros i Hi. rewrite E2. rewrite fors_sk_genuine by exact Hi. reflexivity.
  Qed.
End GENUINE.
