(* The exact accept set of ML-DSA verification in the model (model/Mldsa.v:
   verifyInternalWithMu / verifyInternal / verify / tinkVerify; mldsa.go
   verifyInternalWithMu, marshal.go sigDecode):

     verifyInternalWithMu pk mu sigma = accept   <->
       sigma IS the canonical encoding sigEncode(c~, z, h) of a c~ of lambda/4
       bytes, a vector z of l polynomials over Z_q and a 0/1 hint vector h of k
       polynomials with at most omega ones,  every coefficient of z has
       |z_i mod+- q| < gamma1 - beta,  ExpandA(rho) and SampleInBall(c~) return
       (their XOF streams did not run out), and
       c~ = H(mu || w1Encode(UseHint(h, NTT^-1(A^ o NTT(z) - NTT(c) o NTT(t1*2^d))))).

   New ingredients: the packers invert the unpackers (simpleBitPack o
   simpleBitUnpack = id and bitPack o bitUnpack = id on byte strings of the
   right length), so that sigDecode accepts a byte string iff it is the
   canonical encoding of what it returns; vector.infinityNorm() < B iff every
   centred coefficient is < B; UseHint is total on canonical arguments for a
   valid gamma2. *)
From Coq Require Import List ZArith NArith Bool Arith Lia.
From Tink Require Import Bytes Wrap MldsaScalar MldsaScalarProofs MldsaScalarProofs2 MldsaTableProofs
  MldsaKernels MldsaKernelsProofs MldsaPoly Mldsa MldsaPackProofs MldsaHintProofs MldsaUseHintProofs
  MldsaLowBitsProofs MldsaNttProofs MldsaAlgebraProofs MldsaProofs MldsaConvProofs MldsaNormProofs
  MldsaSampleProofs MldsaSignVerifyProofs MldsaKeyCodecProofs.
Import ListNotations.
Local Open Scope Z_scope.

(* ------------------------------------------------------------------ *)
(* packers invert unpackers                                             *)
(* ------------------------------------------------------------------ *)
Lemma byte_of_bits_of_byte b : (b < 256)%N -> byte_of_bits (bits_of_byte b) = b.
Proof.
  intros H. unfold byte_of_bits, bits_of_byte. rewrite val_of_bits_of by lia.
  change (2 ^ Z.of_nat 8) with 256. rewrite Z.mod_small by lia. apply N2Z.id.
Qed.

Lemma flat_map_bytes_length (enc : bytes) : length (flat_map bits_of_byte enc) = (length enc * 8)%nat.
Proof.
  induction enc as [|b enc IH]; [reflexivity|]. cbn [flat_map length].
  rewrite app_length, IH. unfold bits_of_byte. rewrite bits_of_length. lia.
Qed.

Theorem simpleBitPack_simpleBitUnpack bits enc : (0 < bits)%nat -> wfb enc -> length enc = (32 * bits)%nat ->
  simpleBitPack bits (simpleBitUnpack bits enc) = enc.
Proof.
  intros Hb Hw Hl. unfold simpleBitUnpack, simpleBitPack.
  set (s := flat_map bits_of_byte enc).
  assert (Ls : length s = (256 * bits)%nat) by (unfold s; rewrite flat_map_bytes_length, Hl; lia).
  pose proof (groups_length bits s 256 Hb Ls) as LG.
  pose proof (groups_all_full bits s 256 Hb Ls) as FG.
  rewrite map_length, LG. change (degree - 256)%nat with 0%nat. cbn [repeat]. rewrite app_nil_r.
  rewrite firstn_all2 by (rewrite map_length, LG; unfold degree; lia).
  rewrite flat_map_concat_map, map_map.
  replace (map (fun g => bits_of bits (val_of g)) (groups bits s)) with (groups bits s).
  2:{ rewrite <- (map_id (groups bits s)) at 1. apply map_ext_in. intros g Hg.
      rewrite Forall_forall in FG. rewrite <- (FG g Hg) at 1. symmetry. apply bits_of_val_of. }
  rewrite concat_groups by exact Hb. unfold s.
  rewrite groups_flat_map by (try lia; intros x; apply bits_of_length).
  rewrite map_map. rewrite <- (map_id enc) at 2. apply map_ext_in. intros b Hin.
  apply byte_of_bits_of_byte. unfold wfb in Hw. rewrite Forall_forall in Hw. auto.
Qed.

Lemma k_sub_invol a c : 0 <= a < q -> 0 <= c < q -> k_sub a (k_sub a c) = c.
Proof.
  intros Ha Hc. rewrite (k_sub_spec a c) by auto. rewrite k_sub_spec by (auto using mod_q_range).
  rewrite Zminus_mod_idemp_r. replace (a - (a - c)) with c by ring. apply Z.mod_small. exact Hc.
Qed.

Theorem bitPack_bitUnpack a bits enc : (0 < bits)%nat -> 0 <= a < q -> 2 ^ Z.of_nat bits <= q ->
  wfb enc -> length enc = (32 * bits)%nat -> bitPack a bits (bitUnpack a bits enc) = enc.
Proof.
  intros Hb Ha H2 Hw Hl. unfold bitPack, bitUnpack, psubFrom. rewrite map_map.
  destruct (simpleBitUnpack_props bits enc) as [_ F].
  replace (map (fun x => k_sub a (k_sub a x)) (simpleBitUnpack bits enc)) with (simpleBitUnpack bits enc).
  - apply simpleBitPack_simpleBitUnpack; auto.
  - rewrite <- (map_id (simpleBitUnpack bits enc)) at 1. apply map_ext_in. intros c Hc.
    rewrite Forall_forall in F. specialize (F c Hc). symmetry. apply k_sub_invol; auto. lia.
Qed.

Lemma bitUnpack_range a bits enc : 0 <= a < q -> 2 ^ Z.of_nat bits <= q ->
  Forall (fun c => 0 <= c < q /\ (a - c) mod q < 2 ^ Z.of_nat bits) (bitUnpack a bits enc).
Proof.
  intros Ha H2. destruct (simpleBitUnpack_props bits enc) as [_ F].
  unfold bitUnpack, psubFrom. apply Forall_map. eapply Forall_impl; [|exact F]. intros v Hv. cbv beta in *.
  rewrite k_sub_spec by (auto; lia). split; [apply mod_q_range|].
  rewrite Zminus_mod_idemp_r. replace (a - (a - v)) with v by ring. rewrite Z.mod_small by lia. lia.
Qed.

(* ------------------------------------------------------------------ *)
(* pieces                                                               *)
(* ------------------------------------------------------------------ *)
Lemma pieces_length n cnt (b : bytes) : length (pieces n cnt b) = cnt.
Proof. unfold pieces. rewrite map_length, seq_length. reflexivity. Qed.

Lemma concat_pieces n cnt (b : bytes) : concat (pieces n cnt b) = firstn (cnt * n) b.
Proof.
  unfold pieces. induction cnt as [|cnt IH]; [reflexivity|].
  rewrite seq_S, map_app, concat_app, IH. cbn [map concat Nat.add]. rewrite app_nil_r.
  replace (S cnt * n)%nat with (cnt * n + n)%nat by lia. symmetry. apply firstn_add_split.
Qed.

Lemma pieces_full n cnt (b : bytes) : (cnt * n <= length b)%nat -> wfb b ->
  Forall (fun p => length p = n /\ wfb p) (pieces n cnt b).
Proof.
  intros L W. unfold pieces. apply Forall_map. apply Forall_forall. intros i Hi. apply in_seq in Hi.
  split; [|apply wfb_firstn, wfb_skipn; exact W].
  rewrite firstn_length, skipn_length. nia.
Qed.

(* ------------------------------------------------------------------ *)
(* sigDecode accepts exactly the canonical encodings                    *)
(* ------------------------------------------------------------------ *)
Lemma sigDecode_unfold P sigma : sigDecode P sigma =
  if negb (Nat.eqb (length sigma) (signatureLength P)) then None else
  match hintBitUnpack (p_omega P) (p_k P) (skipn (ctLen P + p_l P * 32 * zBits P) sigma) with
  | Ok h => Some (firstn (ctLen P) sigma,
                  map (bitUnpack (gamma1 P) (zBits P)) (pieces (32 * zBits P) (p_l P) (skipn (ctLen P) sigma)), h)
  | _ => None
  end.
Proof. reflexivity. Qed.

Lemma sigDecode_shape P sigma c z h : 0 <= gamma1 P < q -> 2 ^ Z.of_nat (zBits P) <= q ->
  sigDecode P sigma = Some (c, z, h) -> length sigma = signatureLength P /\ cvec (p_l P) z.
Proof.
  intros Hg H2 H. split; [eapply sigDecode_length; exact H|].
  rewrite sigDecode_unfold in H. destruct (negb _); [discriminate|].
  destruct (hintBitUnpack _ _ _) as [h0| |]; try discriminate. assert (E3 : firstn (ctLen P) sigma = c /\
    map (bitUnpack (gamma1 P) (zBits P)) (pieces (32 * zBits P) (p_l P) (skipn (ctLen P) sigma)) = z /\ h0 = h)
    by (repeat split; congruence).
  destruct E3 as (Ec & Ez & Eh). clear H. subst c z h0.
  split; [rewrite map_length; apply pieces_length|].
  apply Forall_map. apply Forall_forall. intros p _. apply bitUnpack_cpoly; auto.
Qed.

Theorem sigDecode_strict P sigma c z h : 0 <= gamma1 P < q -> 2 ^ Z.of_nat (zBits P) <= q ->
  wfb sigma -> sigDecode P sigma = Some (c, z, h) ->
  sigma = sigEncode P c z h /\ length c = ctLen P /\ cvec (p_l P) z /\
  Forall (Forall (fun x => 0 <= x < q /\ (gamma1 P - x) mod q < 2 ^ Z.of_nat (zBits P))) z /\
  length h = p_k P /\ Forall (fun p => binary p /\ length p = degree) h /\ (weight h <= p_omega P)%nat.
Proof.
  intros Hg H2 W H. pose proof (sigDecode_shape P sigma c z h Hg H2 H) as [L Cz].
  rewrite sigDecode_unfold in H. rewrite L, Nat.eqb_refl in H. cbn [negb] in H.
  destruct (hintBitUnpack _ _ _) as [h0| |] eqn:EH; try discriminate. assert (E3 : firstn (ctLen P) sigma = c /\
    map (bitUnpack (gamma1 P) (zBits P)) (pieces (32 * zBits P) (p_l P) (skipn (ctLen P) sigma)) = z /\ h0 = h)
    by (repeat split; congruence).
  destruct E3 as (Ec & Ez & Eh). clear H. subst c z h0.
  assert (Lz : (p_l P * 32 * zBits P)%nat = (p_l P * (32 * zBits P))%nat) by lia.
  assert (L' : length sigma = (ctLen P + p_l P * 32 * zBits P + p_omega P + p_k P)%nat).
  { rewrite L. unfold signatureLength, zBits. lia. }
  clear L. set (n2 := (p_l P * 32 * zBits P)%nat) in *.
  apply hintBitUnpack_strict in EH; [|apply wfb_skipn; exact W].
  destruct EH as (EC & Wh & Lh & Sh).
  assert (Lc : length (firstn (ctLen P) sigma) = ctLen P) by (rewrite firstn_length; lia).
  set (pcs := pieces (32 * zBits P) (p_l P) (skipn (ctLen P) sigma)) in *.
  assert (Fp : Forall (fun p => length p = (32 * zBits P)%nat /\ wfb p) pcs).
  { apply pieces_full; [rewrite skipn_length; lia | apply wfb_skipn; exact W]. }
  assert (Hzb : (0 < zBits P)%nat) by (unfold zBits; lia).
  split; [|split; [exact Lc|split; [exact Cz|split; [|split; [exact Lh|split; [exact Sh|exact Wh]]]]]].
  - unfold sigEncode. rewrite (firstn_pad_exact (ctLen P) _ Lc).
    rewrite map_map.
    replace (map (fun x => bitPack (gamma1 P) (zBits P) (bitUnpack (gamma1 P) (zBits P) x)) pcs) with pcs.
    2:{ rewrite <- (map_id pcs) at 1. apply map_ext_in. intros p Hp. rewrite Forall_forall in Fp.
        destruct (Fp p Hp) as [Lp Wp]. symmetry. apply bitPack_bitUnpack; auto. }
    unfold pcs. rewrite concat_pieces. rewrite <- Lz. fold n2.
    rewrite <- EC.
    rewrite <- (firstn_skipn (ctLen P) sigma) at 1. f_equal.
    rewrite <- (firstn_skipn n2 (skipn (ctLen P) sigma)) at 1. f_equal.
    rewrite skipn_add. f_equal. lia.
  - apply Forall_map. apply Forall_forall. intros p _. apply bitUnpack_range; auto.
Qed.

(* ------------------------------------------------------------------ *)
(* infinityNorm() < B  iff  every centred coefficient is < B            *)
(* ------------------------------------------------------------------ *)
Lemma fold_centeredMax_in p : canon p -> forall acc, 0 <= acc < q ->
  In (fold_left k_centeredMax p acc) (acc :: p).
Proof.
  induction 1 as [|x p Hx Cp IH]; intros acc Ha; cbn [fold_left]; [left; reflexivity|].
  rewrite k_centeredMax_spec by auto. destruct (cabs x <=? cabs acc).
  - destruct (IH acc Ha) as [E | I]; [left; exact E | right; right; exact I].
  - destruct (IH x Hx) as [E | I]; [right; left; exact E | right; right; exact I].
Qed.

Lemma pinfNorm_le p M : canon p -> 0 <= M -> bounded M p -> pinfNorm p <= M.
Proof.
  intros C HM B. unfold pinfNorm.
  assert (H0 : 0 <= 0 < q) by (unfold q; lia).
  destruct (fold_centeredMax p C 0 H0) as (R1 & _ & _). cbv zeta in R1.
  rewrite k_centeredAbs_cabs by exact R1.
  destruct (fold_centeredMax_in p C 0 H0) as [E | I].
  - rewrite <- E. rewrite cabs_0. exact HM.
  - unfold bounded in B. rewrite Forall_forall in B. apply B. exact I.
Qed.

Lemma vinfNorm_le v M : Forall canon v -> 0 <= M -> Forall (bounded M) v -> vinfNorm v <= M.
Proof.
  intros C HM B. unfold vinfNorm.
  assert (G : forall acc, acc <= M -> fold_left (fun r p => Z.max r (pinfNorm p)) v acc <= M).
  { induction v as [|p v IH]; intros acc Ha; cbn [fold_left]; [exact Ha|].
    inversion C; subst. inversion B; subst. apply IH; auto.
    pose proof (pinfNorm_le p M ltac:(assumption) HM ltac:(assumption)). lia. }
  apply G. exact HM.
Qed.

Theorem vinfNorm_lt_iff v B : Forall canon v -> 0 < B ->
  (vinfNorm v < B <-> Forall (Forall (fun x => cabs x < B)) v).
Proof.
  intros C HB. split.
  - intros H. destruct (vinfNorm_bounds v C) as [Bv _].
    eapply Forall_impl; [|exact Bv]. intros p Hp. eapply Forall_impl; [|exact Hp]. cbv beta. intros x Hx. lia.
  - intros H. assert (vinfNorm v <= B - 1); [|lia]. apply vinfNorm_le; [exact C | lia |].
    eapply Forall_impl; [|exact H]. intros p Hp. eapply Forall_impl; [|exact Hp]. cbv beta. intros x Hx. lia.
Qed.

(* ------------------------------------------------------------------ *)
(* well-formed public keys (everything pkDecode returns)                *)
(* ------------------------------------------------------------------ *)
Definition pk_ok (P : params) (pk : publicKey) : Prop :=
  length (pk_t1 pk) = p_k P /\
  Forall (fun p => length p = 256%nat /\ Forall (fun c => 0 <= c < 1024) p) (pk_t1 pk).

Lemma pkDecode_ok shake256 P enc pk : pkDecode shake256 P enc = Some pk -> pk_ok P pk.
Proof.
  unfold pkDecode. destruct (negb _); [discriminate|]. intros H. inversion H; subst pk; clear H.
  unfold pk_ok. cbn [pk_t1]. split; [rewrite map_length; apply pieces_length|].
  apply Forall_map. apply Forall_forall. intros p _.
  destruct (simpleBitUnpack_props t1Bits p) as [L F]. split; [exact L | exact F].
Qed.

Lemma scaled_t1_cvec P pk : pk_ok P pk -> cvec (p_k P) (map pscalePower2 (pk_t1 pk)).
Proof.
  intros [L F]. split; [rewrite map_length; exact L|]. apply Forall_map.
  eapply Forall_impl; [|exact F]. intros p [Lp Cp]. split; [unfold pscalePower2; rewrite map_length; exact Lp|].
  unfold pscalePower2. apply Forall_map. eapply Forall_impl; [|exact Cp]. intros c Hc. cbv beta in *.
  rewrite k_scalePower2_eq, scalePower2_spec by exact Hc. unfold q. lia.
Qed.

Lemma generated_pk_ok shake128 shake256 P seed pk sk :
  (forall m n, length (shake256 m n) = n) -> params_ok P ->
  keyGenInternal shake128 shake256 P seed = Some (pk, sk) -> pk_ok P pk.
Proof.
  intros HL HP HK. destruct (keyGen_codec shake128 shake256 HL P HP seed pk sk HK) as [D _].
  eapply pkDecode_ok. exact D.
Qed.

(* ------------------------------------------------------------------ *)
(* the accept set                                                       *)
(* ------------------------------------------------------------------ *)
(* the verifier's w1' = UseHint(h, NTT^-1(A^ o NTT(z) - NTT(c) o NTT(t1 * 2^d))),
   with UseHint the FIPS 204 specification function useHint_spec (= uh) *)
Definition verifier_w1 (P : params) (Ah : list (list poly)) (c : poly) (t1 z h : list poly) : list poly :=
  map2 (map2 (uh (p_gamma2 P)))
       (vintt (vsub (mmul Ah (vntt z)) (vscalarMul (ntt c) (vntt (map pscalePower2 t1))))) h.

Section AcceptSet.
  Variables shake128 shake256 : bytes -> nat -> bytes.
  Variable P : params.
  Hypothesis HP : pfacts P.
  Hypothesis Hgb : beta P < gamma1 P.

  Definition valid_signature (pk : publicKey) (mu sigma : bytes) : Prop :=
    exists ct z h Ah c,
      sigma = sigEncode P ct z h /\ length ct = ctLen P /\ cvec (p_l P) z /\
      (length h = p_k P /\ Forall (fun p => binary p /\ length p = degree) h) /\
      (weight h <= p_omega P)%nat /\
      Forall (Forall (fun x => cabs x < gamma1 P - beta P)) z /\
      expandA shake128 P (pk_rho pk) = Some Ah /\
      sampleInBall shake256 (p_tau P) ct = Some c /\
      ct = shake256 (mu ++ w1Encode P (verifier_w1 P Ah c (pk_t1 pk) z h)) (ctLen P).

  Lemma g1_facts : 0 <= gamma1 P < q /\ 2 ^ Z.of_nat (zBits P) <= q.
  Proof. destruct HP as [_ _ (G1 & G2 & G3) _ _ _]. lia. Qed.

  (* with the XOF-dependent values in hand, the verifier's answer is the
     conjunction of the norm check and the c~ comparison *)
  Lemma verify_core pk mu sigma ct z h Ah c : pk_ok P pk ->
    sigDecode P sigma = Some (ct, z, h) ->
    expandA shake128 P (pk_rho pk) = Some Ah ->
    sampleInBall shake256 (p_tau P) ct = Some c ->
    verifyInternalWithMu shake128 shake256 P pk mu sigma =
    Some (Z.ltb (vinfNorm z) (gamma1 P - beta P) &&
          beq ct (shake256 (mu ++ w1Encode P (verifier_w1 P Ah c (pk_t1 pk) z h)) (ctLen P)))%bool.
  Proof.
    intros Hpk D EA ES. destruct g1_facts as [Hg H2].
    destruct (sigDecode_shape P sigma ct z h Hg H2 D) as [_ Hz].
    destruct HP as [Hgam _ _ _ (W1 & _ & _) Htau].
    pose proof (expandA_cmat shake128 P _ _ EA) as HA.
    destruct (sampleInBall_props _ _ _ _ Htau ES) as [Hc _].
    pose proof (scaled_t1_cvec P pk Hpk) as Ht1.
    assert (Hw : cvec (p_k P) (vintt (vsub (mmul Ah (vntt z))
                   (vscalarMul (ntt c) (vntt (map pscalePower2 (pk_t1 pk))))))).
    { apply cvec_vintt, cvec_vsub;
        [apply (cvec_mmul _ (p_l P)); [exact HA | apply cvec_vntt; exact Hz]
        | apply cvec_vscalarMul; [apply cpoly_ntt; exact Hc | apply cvec_vntt; exact Ht1]]. }
    unfold verifyInternalWithMu. rewrite D, EA. cbn [obind]. rewrite ES. cbn [obind]. cbv zeta.
    rewrite (oseq_map2_total (puseHint (p_gamma2 P)) (map2 (uh (p_gamma2 P))) canon (fun _ => True) _
               (fun x y Hx _ => puseHint_total (p_gamma2 P) x y Hgam Hx) (cvec_canon (p_k P) _ Hw) h)
      by (apply Forall_forall; auto).
    rewrite W1. reflexivity.
  Qed.

  (* ---------------------------------------------------------------- *)
  (* Verify accepts exactly the valid signatures                       *)
  (* ---------------------------------------------------------------- *)
  Theorem verify_accepts_iff pk mu sigma : pk_ok P pk -> wfb sigma ->
    (verifyInternalWithMu shake128 shake256 P pk mu sigma = Some true <-> valid_signature pk mu sigma).
  Proof.
    intros Hpk W. destruct g1_facts as [Hg H2]. split.
    - intros H.
      destruct (sigDecode P sigma) as [[[ct z] h]|] eqn:D.
      2:{ unfold verifyInternalWithMu in H. rewrite D in H. discriminate. }
      destruct (expandA shake128 P (pk_rho pk)) as [Ah|] eqn:EA.
      2:{ unfold verifyInternalWithMu in H. rewrite D, EA in H. discriminate. }
      destruct (sampleInBall shake256 (p_tau P) ct) as [c|] eqn:ES.
      2:{ unfold verifyInternalWithMu in H. rewrite D, EA in H. cbn [obind] in H. rewrite ES in H. discriminate. }
      rewrite (verify_core pk mu sigma ct z h Ah c Hpk D EA ES) in H.
      inversion H as [H']. apply andb_true_iff in H'. destruct H' as [N E].
      apply Z.ltb_lt in N. apply beq_eq in E.
      destruct (sigDecode_strict P sigma ct z h Hg H2 W D) as (Es & Lc & Hz & _ & Lh & Sh & Wh).
      exists ct, z, h, Ah, c.
      split; [exact Es|]. split; [exact Lc|]. split; [exact Hz|]. split; [split; [exact Lh | exact Sh]|].
      split; [exact Wh|]. split; [|split; [exact EA|split; [exact ES|exact E]]].
      apply vinfNorm_lt_iff; [apply (cvec_canon (p_l P)); exact Hz | lia | exact N].
    - intros (ct & z & h & Ah & c & Es & Lc & Hz & (Lh & Sh) & Wh & N & EA & ES & E).
      destruct HP as [_ Homega (G1 & G2 & G3) _ _ _].
      assert (D : sigDecode P sigma = Some (ct, z, h)).
      { subst sigma. apply sigDecode_sigEncode; auto.
        - apply cvec_polys. exact Hz.
        - pose proof (cvec_canon (p_l P) z Hz) as Cz. rewrite Forall_forall in *.
          intros p Hp. specialize (N p Hp). specialize (Cz p Hp).
          unfold canon in *. rewrite Forall_forall in *. intros x Hx.
          specialize (N x Hx). specialize (Cz x Hx). cbv beta in *. split; [exact Cz|].
          rewrite G3. apply bitpack_range; auto.
          destruct HP as [_ _ _ _ (_ & _ & Hb) _]. lia. }
      rewrite (verify_core pk mu sigma ct z h Ah c Hpk D EA ES).
      rewrite <- E, beq_refl.
      apply (vinfNorm_lt_iff z (gamma1 P - beta P)) in N; [|apply (cvec_canon (p_l P)); exact Hz | lia].
      apply Z.ltb_lt in N. rewrite N. reflexivity.
  Qed.

  (* the only way to get no answer is an exhausted XOF stream (the model
     requests a fixed amount of output per rejection sampler) *)
  Theorem verify_none_iff pk mu sigma : pk_ok P pk ->
    (verifyInternalWithMu shake128 shake256 P pk mu sigma = None <->
     exists ct z h, sigDecode P sigma = Some (ct, z, h) /\
       (expandA shake128 P (pk_rho pk) = None \/ sampleInBall shake256 (p_tau P) ct = None)).
  Proof.
    intros Hpk. split.
    - intros H.
      destruct (sigDecode P sigma) as [[[ct z] h]|] eqn:D.
      2:{ unfold verifyInternalWithMu in H. rewrite D in H. discriminate. }
      exists ct, z, h. split; [reflexivity|].
      destruct (expandA shake128 P (pk_rho pk)) as [Ah|] eqn:EA; [|left; reflexivity].
      destruct (sampleInBall shake256 (p_tau P) ct) as [c|] eqn:ES; [|right; reflexivity].
      rewrite (verify_core pk mu sigma ct z h Ah c Hpk D EA ES) in H. discriminate.
    - intros (ct & z & h & D & [EA | ES]); unfold verifyInternalWithMu; rewrite D.
      + rewrite EA. reflexivity.
      + destruct (expandA shake128 P (pk_rho pk)); [|reflexivity]. cbn [obind]. rewrite ES. reflexivity.
  Qed.

  (* anything that is not the right length or has a malformed hint section
     is rejected outright *)
  Theorem verify_rejects_undecodable pk mu sigma :
    sigDecode P sigma = None -> verifyInternalWithMu shake128 shake256 P pk mu sigma = Some false.
  Proof. intros D. unfold verifyInternalWithMu. rewrite D. reflexivity. Qed.

  (* ---------------------------------------------------------------- *)
  (* the layers above: M', context, Tink verifier with output prefix   *)
  (* ---------------------------------------------------------------- *)
  Theorem verifyInternal_accepts_iff pk Mp sigma : pk_ok P pk -> wfb sigma ->
    (verifyInternal shake128 shake256 P pk Mp sigma = Some true <->
     valid_signature pk (computeMu shake256 (pk_tr pk) Mp) sigma).
  Proof. intros Hpk W. unfold verifyInternal. apply verify_accepts_iff; auto. Qed.

  Theorem verify_ctx_accepts_iff pk M sigma ctx : pk_ok P pk -> wfb sigma ->
    (verify shake128 shake256 P pk M sigma ctx = Some true <->
     (length ctx <= 255)%nat /\ valid_signature pk (computeMu shake256 (pk_tr pk) (formatMsg M ctx)) sigma).
  Proof.
    intros Hpk W. unfold verify. destruct (Nat.ltb 255 (length ctx)) eqn:E.
    - apply Nat.ltb_lt in E. split; [discriminate | intros [L _]; lia].
    - apply Nat.ltb_ge in E. rewrite verifyInternal_accepts_iff by auto. tauto.
  Qed.

  Lemma has_prefix_iff (prefix sigma : bytes) :
    beq (firstn (length prefix) sigma) prefix = true <-> exists s, sigma = prefix ++ s.
  Proof.
    split.
    - intros H. apply beq_eq in H. exists (skipn (length prefix) sigma).
      rewrite <- H at 1. symmetry. apply firstn_skipn.
    - intros [s ->]. apply beq_eq. apply firstn_app_exact. reflexivity.
  Qed.

  Theorem tinkVerify_accepts_iff prefix pkEnc sigma data : wfb sigma ->
    (tinkVerify shake128 shake256 P prefix pkEnc sigma data = Some true <->
     exists pk s, pkDecode shake256 P pkEnc = Some pk /\ sigma = prefix ++ s /\
       valid_signature pk (computeMu shake256 (pk_tr pk) (formatMsg data [])) s).
  Proof.
    intros W. unfold tinkVerify. destruct (pkDecode shake256 P pkEnc) as [pk|] eqn:D.
    2:{ split; [discriminate | intros (pk & s & X & _); discriminate]. }
    pose proof (pkDecode_ok _ _ _ _ D) as Hpk.
    destruct (beq (firstn (length prefix) sigma) prefix) eqn:E.
    - apply has_prefix_iff in E. destruct E as [s ->].
      rewrite (skipn_app_exact prefix s _ eq_refl).
      apply wfb_app in W. destruct W as [_ Ws].
      rewrite verifyInternal_accepts_iff by auto. split.
      + intros V. exists pk, s. auto.
      + intros (pk' & s' & X & Es & V). inversion X; subst pk'. apply app_inv_head in Es. subst s'. exact V.
    - split; [discriminate|]. intros (pk' & s & _ & Es & _).
      assert (T : beq (firstn (length prefix) sigma) prefix = true) by (apply has_prefix_iff; exists s; exact Es).
      congruence.
  Qed.
End AcceptSet.

Lemma params_ok_gb P : params_ok P -> beta P < gamma1 P.
Proof. intros [-> | [-> | ->]]; vm_compute; reflexivity. Qed.
