(* Bridge between the FIPS 204 transcription (model/MldsaFips.v, module FIPS)
   and the implementation model: conversions, packing, the coefficient
   decoders and the rounding functions (Algorithms 9-19, 35-40) equal the
   functions of the implementation model / the regenerated kernels. *)
From Coq Require Import List ZArith NArith Bool Arith Lia ZifyN ZifyNat ZifyBool.
From Tink Require Import Bytes Wrap MldsaScalar MldsaScalarProofs MldsaScalarProofs2 MldsaTableProofs
  MldsaKernels MldsaKernelsProofs MldsaPoly Mldsa MldsaPackProofs MldsaHintProofs MldsaNttProofs
  MldsaAlgebraProofs MldsaProofs MldsaConvProofs MldsaNormProofs MldsaSampleProofs MldsaSignVerifyProofs
  MldsaKeyCodecProofs MldsaVerifyIffProofs MldsaFips.
Import ListNotations.
Local Open Scope Z_scope.

Lemma fips_q : FIPS.q = q. Proof. reflexivity. Qed.

(* ------------------------------------------------------------------ *)
(* the loop combinators                                                 *)
(* ------------------------------------------------------------------ *)
Lemma for_append {A} (f : nat -> list A) cnt : forall lo z0,
  FIPS.for_ lo cnt (fun i z => z ++ f i) z0 = z0 ++ concat (map f (seq lo cnt)).
Proof.
  induction cnt as [|cnt IH]; intros lo z0; cbn [FIPS.for_ seq map concat]; [rewrite app_nil_r; reflexivity|].
  rewrite IH, <- app_assoc. reflexivity.
Qed.

Lemma array_map {A} n (f : nat -> A) : FIPS.array n f = map f (seq 0 n).
Proof.
  unfold FIPS.array. rewrite (for_append (fun i => [f i])). cbn [app].
  induction (seq 0 n) as [|x t IH]; [reflexivity|]. cbn [map concat app]. f_equal. exact IH.
Qed.

Lemma array_length {A} n (f : nat -> A) : length (FIPS.array n f) = n.
Proof. rewrite array_map, map_length, seq_length. reflexivity. Qed.

Lemma nth_array {A} n (f : nat -> A) i d : (i < n)%nat -> nth i (FIPS.array n f) d = f i.
Proof.
  intros H. rewrite array_map. rewrite (nth_indep _ d (f 0%nat)) by (rewrite map_length, seq_length; exact H).
  rewrite map_nth, seq_nth by exact H. reflexivity.
Qed.

Lemma array_opt_oseq {A} n (f : nat -> option A) : FIPS.array_opt n f = oseq (map f (seq 0 n)).
Proof.
  unfold FIPS.array_opt.
  assert (N : forall cnt lo, FIPS.for_ lo cnt
     (fun i a => match a, f i with Some a, Some x => Some (a ++ [x]) | _, _ => None end) None = None).
  { induction cnt as [|cnt IH]; intros lo; cbn [FIPS.for_]; [reflexivity | apply IH]. }
  assert (G : forall cnt lo a, FIPS.for_ lo cnt
     (fun i a => match a, f i with Some a, Some x => Some (a ++ [x]) | _, _ => None end) (Some a) =
     match oseq (map f (seq lo cnt)) with Some r => Some (a ++ r) | None => None end).
  { induction cnt as [|cnt IH]; intros lo a; cbn [FIPS.for_ seq map oseq]; [rewrite app_nil_r; reflexivity|].
    destruct (f lo) as [x|]; [|apply N]. rewrite IH.
    destruct (oseq (map f (seq (S lo) cnt))); [rewrite <- app_assoc; reflexivity | reflexivity]. }
  rewrite G. destruct (oseq (map f (seq 0 n))); reflexivity.
Qed.

Lemma map_nth_seq {A B} (g : A -> B) (l : list A) d :
  map (fun i => g (nth i l d)) (seq 0 (length l)) = map g l.
Proof.
  induction l as [|x l IH]; [reflexivity|]. cbn [length seq map nth]. f_equal.
  rewrite <- seq_shift, map_map. exact IH.
Qed.

Lemma map_nth_seq_n {A B} (g : A -> B) (l : list A) d n : length l = n ->
  map (fun i => g (nth i l d)) (seq 0 n) = map g l.
Proof. intros <-. apply map_nth_seq. Qed.

Lemma sl_firstn_skipn {A} (X : list A) i c : FIPS.sl X i (i + c) = firstn c (skipn i X).
Proof. unfold FIPS.sl. f_equal. lia. Qed.

Lemma set_nth_upd {A} i (v : A) a : FIPS.set_nth i v a = upd i v a.
Proof. revert i; induction a as [|x a IH]; intros [|i]; cbn; auto; f_equal; apply IH. Qed.

Lemma zip_with_map2 {A B C} (f : A -> B -> C) a b : FIPS.zip_with f a b = map2 f a b.
Proof. revert b; induction a as [|x a IH]; intros [|y b]; cbn; auto; f_equal; apply IH. Qed.

(* ------------------------------------------------------------------ *)
(* Algorithms 9-13                                                      *)
(* ------------------------------------------------------------------ *)
Lemma IntegerToBits_bits_of x alpha : FIPS.IntegerToBits x alpha = bits_of alpha x.
Proof.
  unfold FIPS.IntegerToBits.
  assert (G : forall cnt lo x' y,
    snd (FIPS.for_ lo cnt (fun _ '(x', y) => (x' / 2, y ++ [x' mod 2 =? 1])) (x', y)) = y ++ bits_of cnt x').
  { induction cnt as [|cnt IH]; intros lo x' y; cbn [FIPS.for_ bits_of]; [cbn [snd]; rewrite app_nil_r; reflexivity|].
    rewrite IH, <- app_assoc. cbn [app]. f_equal. f_equal.
    - rewrite Zmod_odd. destruct (Z.odd x'); reflexivity.
    - rewrite Z.div2_div. reflexivity. }
  apply (G alpha 0%nat x []).
Qed.

Lemma val_of_firstn_S n : forall y, val_of (firstn (S n) y) = val_of (firstn n y) + FIPS.b2z (nth n y false) * 2 ^ Z.of_nat n.
Proof.
  induction n as [|n IH]; intros y.
  - destruct y as [|b y]; cbn; [reflexivity|]. destruct b; cbn; lia.
  - destruct y as [|b y]; [cbn; reflexivity|].
    change (firstn (S (S n)) (b :: y)) with (b :: firstn (S n) y).
    change (firstn (S n) (b :: y)) with (b :: firstn n y).
    cbn [val_of nth]. rewrite IH. rewrite (Nat2Z.inj_succ n), Z.pow_succ_r by lia. ring.
Qed.

Lemma BitsToInteger_val_of y alpha : FIPS.BitsToInteger y alpha = val_of (firstn alpha y).
Proof.
  unfold FIPS.BitsToInteger.
  assert (G : forall cnt lo x, (lo + cnt = alpha + 1)%nat ->
    FIPS.for_ lo cnt (fun i x => 2 * x + FIPS.b2z (nth (alpha - i) y false)) x =
    x * 2 ^ Z.of_nat cnt + val_of (firstn cnt y)).
  { induction cnt as [|cnt IH]; intros lo x E; cbn [FIPS.for_]; [cbn; lia|].
    rewrite IH by lia. replace (alpha - lo)%nat with cnt by lia.
    rewrite val_of_firstn_S, (Nat2Z.inj_succ cnt), Z.pow_succ_r by lia. ring. }
  rewrite (G alpha 1%nat 0) by lia. ring.
Qed.

Lemma IntegerToBytes_1 x : 0 <= x -> FIPS.IntegerToBytes x 1 = [(Z.to_N x mod 256)%N].
Proof.
  intros H. unfold FIPS.IntegerToBytes. cbn [FIPS.for_ snd app]. f_equal.
  rewrite Z2N.inj_mod by lia. reflexivity.
Qed.

Lemma IntegerToBytes_2 x : 0 <= x -> FIPS.IntegerToBytes x 2 = [(Z.to_N x mod 256)%N; (Z.to_N (x / 256) mod 256)%N].
Proof.
  intros H. unfold FIPS.IntegerToBytes. cbn [FIPS.for_ snd app]. f_equal; [|f_equal].
  - rewrite Z2N.inj_mod by lia. reflexivity.
  - rewrite Z2N.inj_mod by (try apply Z.div_pos; lia). reflexivity.
Qed.

Lemma byteN_IntegerToBytes i : FIPS.IntegerToBytes (Z.of_nat i) 1 = [byteN i].
Proof. rewrite IntegerToBytes_1 by lia. unfold byteN. replace (Z.to_N (Z.of_nat i)) with (N.of_nat i) by lia. reflexivity. Qed.

Lemma byteN2_IntegerToBytes i : FIPS.IntegerToBytes (Z.of_nat i) 2 = [byteN i; byteN (i / 256)].
Proof.
  rewrite IntegerToBytes_2 by lia. unfold byteN. replace (Z.to_N (Z.of_nat i)) with (N.of_nat i) by lia.
  replace (Z.to_N (Z.of_nat i / 256)) with (N.of_nat (i / 256)); [reflexivity|].
  change 256 with (Z.of_nat 256). rewrite <- (Nat2Z.inj_div i 256). lia.
Qed.

Lemma groups_slices {A} n (l : list A) m : (0 < n)%nat -> length l = (m * n)%nat ->
  groups n l = map (fun i => firstn n (skipn (i * n) l)) (seq 0 m).
Proof.
  intros Hn. revert l. induction m as [|m IH]; intros l Hl.
  - destruct l; [reflexivity | cbn in Hl; lia].
  - rewrite <- (firstn_skipn n l) at 1. rewrite groups_app by (auto; rewrite firstn_length; cbn in Hl; lia).
    cbn [seq map]. f_equal. rewrite IH by (rewrite skipn_length; cbn in Hl; lia).
    rewrite <- seq_shift, map_map. apply map_ext. intros i. f_equal.
    rewrite skipn_add. f_equal. cbn. lia.
Qed.

Lemma byte_sum_val_of (g : list bool) : length g = 8%nat ->
  FIPS.for_ 0 8 (fun j s => s + FIPS.b2z (nth j g false) * 2 ^ Z.of_nat j) 0 = val_of g.
Proof.
  intros L. do 9 (destruct g as [|? g]; try discriminate). cbn [FIPS.for_ nth val_of].
  repeat match goal with b : bool |- _ => destruct b end; reflexivity.
Qed.

Lemma BitsToBytes_groups (y : list bool) m : length y = (m * 8)%nat ->
  FIPS.BitsToBytes y = map byte_of_bits (groups 8 y).
Proof.
  intros L. unfold FIPS.BitsToBytes. rewrite array_map, L.
  replace ((m * 8 + 7) / 8)%nat with m by (apply Nat.div_unique with 7%nat; lia).
  rewrite (groups_slices 8 y m) by (auto; lia). rewrite map_map. apply map_ext_in. intros kk Hk. apply in_seq in Hk.
  unfold byte_of_bits. f_equal.
  rewrite <- (byte_sum_val_of (firstn 8 (skipn (kk * 8) y))) by (rewrite firstn_length, skipn_length; lia).
  assert (E : forall j s, (j < 8)%nat ->
    s + FIPS.b2z (nth (8 * kk + j) y false) * 2 ^ Z.of_nat j =
    s + FIPS.b2z (nth j (firstn 8 (skipn (kk * 8) y)) false) * 2 ^ Z.of_nat j).
  { intros j s Hj. rewrite nth_firstn_lt by exact Hj. rewrite nth_skipn. do 3 f_equal. f_equal. lia. }
  cbn [FIPS.for_]. rewrite !E by lia. reflexivity.
Qed.

Lemma BytesToBits_flat_map z : FIPS.BytesToBits z = flat_map bits_of_byte z.
Proof.
  unfold FIPS.BytesToBits. rewrite for_append. cbn [app]. rewrite flat_map_concat_map. f_equal.
  rewrite (map_nth_seq (fun b => FIPS.IntegerToBits (Z.of_N b) 8) z 0%N).
  apply map_ext. intros b. apply IntegerToBits_bits_of.
Qed.

(* ------------------------------------------------------------------ *)
(* Algorithms 16-19                                                     *)
(* ------------------------------------------------------------------ *)
Theorem SimpleBitPack_eq w b : length w = 256%nat ->
  FIPS.SimpleBitPack w b = simpleBitPack (FIPS.bitlen b) w.
Proof.
  intros L. unfold FIPS.SimpleBitPack, simpleBitPack. rewrite for_append. cbn [app].
  rewrite (map_nth_seq_n (fun x => FIPS.IntegerToBits x (FIPS.bitlen b)) w 0 256 L).
  rewrite <- flat_map_concat_map.
  replace (flat_map (fun x => FIPS.IntegerToBits x (FIPS.bitlen b)) w) with (flat_map (bits_of (FIPS.bitlen b)) w)
    by (rewrite !flat_map_concat_map; f_equal; apply map_ext; intros; symmetry; apply IntegerToBits_bits_of).
  apply (BitsToBytes_groups _ (32 * FIPS.bitlen b)). rewrite flat_map_bits_length, L. lia.
Qed.

(* BitPack of SIGNED coefficients w_i in [b - q + 1, b] is the model's
   bitPack of their canonical representatives *)
Theorem BitPack_eq w a b : length w = 256%nat -> 0 <= b < q -> Forall (fun x => 0 <= b - x < q) w ->
  FIPS.BitPack w a b = bitPack b (FIPS.bitlen (a + b)) (map (fun x => x mod q) w).
Proof.
  intros L Hb R. unfold FIPS.BitPack, bitPack, psubFrom, simpleBitPack. rewrite for_append. cbn [app].
  rewrite (map_nth_seq_n (fun x => FIPS.IntegerToBits (b - x) (FIPS.bitlen (a + b))) w 0 256 L).
  rewrite map_map, flat_map_concat_map, map_map.
  replace (map (fun x => bits_of (FIPS.bitlen (a + b)) (k_sub b (x mod q))) w)
    with (map (fun x => FIPS.IntegerToBits (b - x) (FIPS.bitlen (a + b))) w).
  2:{ apply map_ext_in. intros x Hx. rewrite Forall_forall in R. specialize (R x Hx).
      rewrite IntegerToBits_bits_of. f_equal. rewrite k_sub_spec by (auto using mod_q_range).
      rewrite Zminus_mod_idemp_r. symmetry. apply Z.mod_small. exact R. }
  apply (BitsToBytes_groups _ (32 * FIPS.bitlen (a + b))).
  rewrite <- flat_map_concat_map.
  assert (G : forall (l : list Z) n (f : Z -> list bool), (forall x, length (f x) = n) -> length (flat_map f l) = (length l * n)%nat).
  { induction l as [|x l IH]; intros n f Hf; [reflexivity|]. cbn [flat_map length]. rewrite app_length, Hf, (IH n f Hf). lia. }
  rewrite (G w (FIPS.bitlen (a + b))) by (intros x; rewrite IntegerToBits_bits_of; apply bits_of_length). lia.
Qed.

Lemma unpack_slices c v : (0 < c)%nat -> length v = (32 * c)%nat ->
  map val_of (groups c (flat_map bits_of_byte v)) =
  map (fun i => val_of (firstn c (skipn (i * c) (flat_map bits_of_byte v)))) (seq 0 256).
Proof.
  intros Hc L. rewrite (groups_slices c _ 256) by (auto; rewrite flat_map_bytes_length, L; lia).
  rewrite map_map. reflexivity.
Qed.

Theorem SimpleBitUnpack_eq v b : (0 < FIPS.bitlen b)%nat -> length v = (32 * FIPS.bitlen b)%nat ->
  FIPS.SimpleBitUnpack v b = simpleBitUnpack (FIPS.bitlen b) v.
Proof.
  intros Hc L. unfold FIPS.SimpleBitUnpack, simpleBitUnpack. rewrite array_map, BytesToBits_flat_map.
  rewrite (unpack_slices _ v Hc L). rewrite map_length, seq_length.
  change (degree - 256)%nat with 0%nat. cbn [repeat]. rewrite app_nil_r.
  rewrite firstn_all2 by (rewrite map_length, seq_length; unfold degree; lia).
  apply map_ext. intros i. rewrite BitsToInteger_val_of, sl_firstn_skipn.
  rewrite firstn_firstn, Nat.min_id. reflexivity.
Qed.

(* BitUnpack returns SIGNED coefficients b - x; the model returns their
   canonical representatives *)
Theorem BitUnpack_eq v a b : (0 < FIPS.bitlen (a + b))%nat -> length v = (32 * FIPS.bitlen (a + b))%nat ->
  0 <= b < q -> 2 ^ Z.of_nat (FIPS.bitlen (a + b)) <= q ->
  map (fun x => x mod q) (FIPS.BitUnpack v a b) = bitUnpack b (FIPS.bitlen (a + b)) v /\
  Forall (fun x => b - 2 ^ Z.of_nat (FIPS.bitlen (a + b)) < x <= b) (FIPS.BitUnpack v a b) /\
  length (FIPS.BitUnpack v a b) = 256%nat.
Proof.
  intros Hc L Hb H2. set (c := FIPS.bitlen (a + b)) in *.
  assert (E : FIPS.BitUnpack v a b = map (fun x => b - x) (simpleBitUnpack c v)).
  { unfold c. rewrite <- (SimpleBitUnpack_eq v (a + b) Hc L). unfold FIPS.BitUnpack, FIPS.SimpleBitUnpack.
    rewrite !array_map, map_map. reflexivity. }
  destruct (simpleBitUnpack_props c v) as [L2 F].
  rewrite E. split; [|split].
  - unfold bitUnpack, psubFrom. rewrite map_map. apply map_ext_in. intros x Hx.
    rewrite Forall_forall in F. specialize (F x Hx). rewrite k_sub_spec by (auto; lia). reflexivity.
  - apply Forall_map. eapply Forall_impl; [|exact F]. cbv beta. intros x Hx. lia.
  - rewrite map_length. exact L2.
Qed.

(* ------------------------------------------------------------------ *)
(* Algorithms 14, 15                                                    *)
(* ------------------------------------------------------------------ *)
Lemma CoeffFromThreeBytes_eq (b0 b1 b2 : N) : (b0 < 256)%N -> (b1 < 256)%N -> (b2 < 256)%N ->
  FIPS.CoeffFromThreeBytes (Z.of_N b0) (Z.of_N b1) (Z.of_N b2) =
  (let c := Z.lor (Z.lor (Z.of_N b0) (Z.shiftl (Z.of_N b1) 8)) (Z.shiftl (Z.land (Z.of_N b2) 127) 16) in
   if c <? mldsa_q then Some c else None).
Proof.
  intros H0 H1 H2. unfold FIPS.CoeffFromThreeBytes. cbv zeta.
  set (x0 := Z.of_N b0). set (x1 := Z.of_N b1). set (x2 := Z.of_N b2).
  assert (R0 : 0 <= x0 < 256) by (unfold x0; lia). assert (R1 : 0 <= x1 < 256) by (unfold x1; lia).
  assert (R2 : 0 <= x2 < 256) by (unfold x2; lia).
  assert (E2 : Z.land x2 127 = if 127 <? x2 then x2 - 128 else x2).
  { change 127 with (Z.ones 7) at 1. rewrite Z.land_ones by lia. change (2 ^ 7) with 128.
    destruct (127 <? x2) eqn:E; [apply Z.ltb_lt in E | apply Z.ltb_ge in E].
    - rewrite <- (Z.mod_small (x2 - 128) 128) by lia. replace x2 with (x2 - 128 + 1 * 128) at 1 by ring.
      apply Z.mod_add. lia.
    - apply Z.mod_small. lia. }
  set (y2 := if 127 <? x2 then x2 - 128 else x2) in *.
  assert (R2' : 0 <= y2 < 128) by (unfold y2; destruct (127 <? x2) eqn:E; [apply Z.ltb_lt in E | apply Z.ltb_ge in E]; lia).
  rewrite E2. rewrite !Z.shiftl_mul_pow2 by lia.
  rewrite (Z.lor_comm x0), (lor_disjoint_add x1 x0 8) by lia.
  rewrite (Z.lor_comm (x1 * 2 ^ 8 + x0)), (lor_disjoint_add y2 (x1 * 2 ^ 8 + x0) 16) by lia.
  replace (y2 * 2 ^ 16 + (x1 * 2 ^ 8 + x0)) with (2 ^ 16 * y2 + 2 ^ 8 * x1 + x0) by ring.
  reflexivity.
Qed.

(* CoeffFromHalfByte returns the SIGNED value; the model its canonical representative *)
Lemma CoeffFromHalfByte_eq eta b : 0 <= b < 16 ->
  coeffFromHalfByte eta b = option_map (fun x => x mod q) (FIPS.CoeffFromHalfByte eta b) /\
  (forall c, FIPS.CoeffFromHalfByte eta b = Some c -> (eta = 2 \/ eta = 4) /\ - eta <= c <= eta).
Proof.
  intros Hb.
  assert (K : b = 0 \/ b = 1 \/ b = 2 \/ b = 3 \/ b = 4 \/ b = 5 \/ b = 6 \/ b = 7 \/ b = 8 \/ b = 9 \/
              b = 10 \/ b = 11 \/ b = 12 \/ b = 13 \/ b = 14 \/ b = 15) by lia.
  unfold coeffFromHalfByte, FIPS.CoeffFromHalfByte.
  assert (T : forall P Q : Prop, P -> Q -> P /\ Q) by auto.
  destruct (eta =? 2) eqn:E2; [apply Z.eqb_eq in E2; subst eta|].
  - repeat (destruct K as [K | K]); subst b;
      (apply T; [vm_compute; reflexivity | cbn; intros c Hc; first [discriminate | (inversion Hc; subst; split; [auto | lia])]]).
  - destruct (eta =? 4) eqn:E4; [apply Z.eqb_eq in E4; subst eta|].
    + repeat (destruct K as [K | K]); subst b;
        (apply T; [vm_compute; reflexivity | cbn; intros c Hc; first [discriminate | (inversion Hc; subst; split; [auto | lia])]]).
    + cbn [andb]. split; [reflexivity | intros c Hc; inversion Hc].
Qed.

(* ------------------------------------------------------------------ *)
(* Algorithms 35-40 = the specifications the regenerated kernels are     *)
(* proved equal to (section 1 of props/C10.v)                            *)
(* ------------------------------------------------------------------ *)
Lemma modpm_cmod m a : FIPS.modpm m a = cmod m a.
Proof. reflexivity. Qed.

Theorem Power2Round_eq r : 0 <= r < q ->
  k_power2Round r = (fst (FIPS.Power2Round r), (snd (FIPS.Power2Round r)) mod q).
Proof.
  intros H. rewrite k_power2Round_eq, power2Round_spec by exact H.
  unfold FIPS.Power2Round. cbv zeta. cbn [fst snd]. rewrite fips_q, (Z.mod_small r q) by exact H.
  change (2 ^ FIPS.d) with 8192. reflexivity.
Qed.

Theorem Decompose_eq g r : 0 <= r < q ->
  decompose_spec r g = (fst (FIPS.Decompose g r), (snd (FIPS.Decompose g r)) mod q).
Proof.
  intros H. unfold decompose_spec, FIPS.Decompose. cbv zeta. rewrite fips_q, (Z.mod_small r q) by exact H.
  change FIPS.modpm with cmod. destruct (r - cmod r (2 * g) =? q - 1); reflexivity.
Qed.

Theorem HighBits_eq g r : 0 <= r < q -> hb g r = FIPS.HighBits g r.
Proof. intros H. unfold hb, FIPS.HighBits. rewrite (Decompose_eq g r H). reflexivity. Qed.

Theorem LowBits_eq g r : 0 <= r < q -> lb g r = (FIPS.LowBits g r) mod q.
Proof. intros H. unfold lb, FIPS.LowBits. rewrite (Decompose_eq g r H). reflexivity. Qed.

Lemma Decompose_mod g r : FIPS.Decompose g (r mod q) = FIPS.Decompose g r.
Proof. unfold FIPS.Decompose. rewrite fips_q, Z.mod_mod by (unfold q; lia). reflexivity. Qed.

Theorem MakeHint_eq g z r : 0 <= r < q -> mh g z r = FIPS.MakeHint g z r.
Proof.
  intros H. unfold mh, FIPS.MakeHint. cbv zeta.
  rewrite (HighBits_eq g r H), (HighBits_eq g ((r + z) mod q)) by apply mod_q_range.
  unfold FIPS.HighBits at 2. rewrite Decompose_mod. reflexivity.
Qed.

Theorem UseHint_eq g h r : 0 <= r < q -> uh g r h = FIPS.UseHint g h r.
Proof.
  intros H. unfold uh, useHint_spec, FIPS.UseHint, FIPS.Decompose. cbv zeta.
  rewrite fips_q, (Z.mod_small r q) by exact H. change FIPS.modpm with cmod.
  assert (G : forall r1 r0 m, (if h =? 1 then if 0 <? r0 then (r1 + 1) mod m else (r1 - 1) mod m else r1) =
     (if (h =? 1) && (0 <? r0) then (r1 + 1) mod m else if (h =? 1) && (r0 <=? 0) then (r1 - 1) mod m else r1)).
  { intros r1 r0 m. destruct (h =? 1); cbn [andb]; [|reflexivity].
    destruct (0 <? r0) eqn:E1; [reflexivity|]. apply Z.ltb_ge in E1.
    replace (r0 <=? 0) with true by (symmetry; apply Z.leb_le; lia). reflexivity. }
  destruct (r - cmod r (2 * g) =? q - 1); apply G.
Qed.
