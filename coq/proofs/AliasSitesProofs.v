(* Obligations about the REGENERATED site table gen/AliasSites.v: no place in
   the library appends to a caller's byte slice, stores one, or hands out an
   internal one without a copy; and every place where a caller's slice (or an
   object's own slice) meets a copy, written as a program of model/Heap.v, follows
   the ownership discipline of HeapProofs2 with the kept/returned value OWNED -
   so the frame theorem applies to each of them. *)
From Coq Require Import List String Bool Arith.
From Tink Require Import Heap HeapProofs HeapProofs2 AliasSites.
Import ListNotations.

Theorem no_unframed_sites : c19_unframed_sites = [].
Proof. reflexivity. Qed.

Theorem some_framed_sites : Nat.ltb 0 c19_framed_copy_sites = true.
Proof. reflexivity. Qed.

(* a site is in order when its program is disciplined and what it keeps or returns is owned *)
Definition site_ok (s : string * string * nat * list instr * nat) : bool :=
  let '(_, _, np, prog, res) := s in
  match own_run (repeat false np) prog with
  | Some own' => nth res own' false
  | None => false
  end.

Theorem every_site_program_ok : forallb site_ok c19_site_programs = true.
Proof. vm_compute. reflexivity. Qed.

Theorem site_table_not_empty : Nat.ltb 50 (List.length c19_site_programs) = true.
Proof. vm_compute. reflexivity. Qed.

Lemma map_const_repeat {A} (l : list A) : map (fun _ => false) l = repeat false (List.length l).
Proof. induction l; simpl; congruence. Qed.

(* hence, for EVERY site of the table, every caller heap and every choice of the caller's
   slices: running the site leaves every view the caller has of its memory unchanged, and the
   value the function keeps or returns lives in an array the caller has never seen *)
Theorem every_site_frames_the_caller :
  forall pkg fn np prog res, In (pkg, fn, np, prog, res) c19_site_programs ->
  forall h0 params h' vars', List.length params = np ->
    run_strict (h0, params) prog = Some (h', vars') ->
    (forall s, wf_slice h0 s -> read h' s = read h0 s /\ read_cap h' s = read_cap h0 s) /\
    (forall r, nth_error vars' res = Some r ->
       List.length h0 <= arr r /\ forall s, wf_slice h0 s -> arr s <> arr r).
Proof.
  intros pkg fn np prog res Hin h0 params h' vars' Hlen Hrun.
  pose proof every_site_program_ok as All. rewrite forallb_forall in All.
  specialize (All _ Hin). unfold site_ok in All.
  destruct (own_run (repeat false np) prog) as [own'|] eqn:W; [|discriminate].
  assert (D : disciplined (map (fun _ => false) params) prog = true).
  { unfold disciplined. rewrite map_const_repeat, Hlen, W. reflexivity. }
  destruct (disciplined_program_frames_the_caller h0 params prog h' vars' D Hrun) as [F (own2 & W2 & O)].
  split; [exact F|]. intros r Hr. apply (O res r Hr).
  rewrite map_const_repeat, Hlen, W in W2. inversion W2; subst. exact All.
Qed.
