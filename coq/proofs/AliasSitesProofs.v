(* Obligation about the REGENERATED site table gen/AliasSites.v: no place in
   the library appends to a caller's byte slice, stores one, or hands out an
   internal one without a copy. *)
From Coq Require Import List String.
From Tink Require Import AliasSites.
Import ListNotations.

Theorem no_unframed_sites : c19_unframed_sites = [].
Proof. reflexivity. Qed.

Theorem some_framed_sites : Nat.ltb 0 c19_framed_copy_sites = true.
Proof. reflexivity. Qed.
