(* Every signature the ML-DSA model's signing function produces is accepted by
   its verification function (model/Mldsa.v: keyGenInternal, signInternalWithMu
   / signInternal / sign, verifyInternalWithMu / verifyInternal / verify), for
   every seed, message, context, randomness, fuel and the three FIPS 204
   parameter sets.  SHAKE128/SHAKE256 are Section variables; the only law used
   is that SHAKE256 returns the requested number of bytes.

   Ingredients: the algebra of MldsaAlgebraProofs (w' = w - c*s2 + c*t0), the
   convolution theorem and norm bound of MldsaConvProofs/MldsaNormProofs
   (||c*s2|| <= tau*eta = beta), the rounding lemmas of MldsaUseHintProofs /
   MldsaLowBitsProofs, the sampler ranges of MldsaSampleProofs and the codec
   round trip of MldsaProofs. *)
From Coq Require Import List ZArith NArith Bool Arith Lia.
From Tink Require Import Bytes Wrap MldsaScalar MldsaScalarProofs MldsaScalarProofs2 MldsaTableProofs
  MldsaKernels MldsaKernelsProofs MldsaPoly Mldsa MldsaPackProofs MldsaHintProofs MldsaUseHintProofs
  MldsaLowBitsProofs MldsaNttProofs MldsaAlgebraProofs MldsaProofs MldsaConvProofs MldsaNormProofs
  MldsaSampleProofs.
Import ListNotations.
Local Open Scope Z_scope.

(* ------------------------------------------------------------------ *)
(* total forms of the partial kernels on canonical arguments            *)
(* ------------------------------------------------------------------ *)
Definition hb (g c : Z) : Z := fst (decompose_spec c g).
Definition lb (g c : Z) : Z := snd (decompose_spec c g).
Definition mh (g z r : Z) : Z := if hb g r =? hb g ((r + z) mod q) then 0 else 1.
Definition uh (g a h : Z) : Z := useHint_spec a g h.

Lemma k_highBits_ok a g : valid_gamma2 g -> 0 <= a < q -> k_highBits a g = Some (hb g a).
Proof. intros. rewrite k_highBits_eq. apply highBits_ok; auto. Qed.
Lemma k_lowBits_ok a g : valid_gamma2 g -> 0 <= a < q -> k_lowBits a g = Some (lb g a).
Proof. intros. rewrite k_lowBits_eq. apply lowBits_ok; auto. Qed.
Lemma k_makeHint_ok z g r : valid_gamma2 g -> 0 <= z < q -> 0 <= r < q -> k_makeHint z g r = Some (mh g z r).
Proof. intros. rewrite k_makeHint_eq. apply makeHint_ok; auto. Qed.
Lemma k_useHint_ok a g h : valid_gamma2 g -> 0 <= a < q -> k_useHint a g h = Some (uh g a h).
Proof. intros. rewrite k_useHint_eq. apply useHint_ok; auto. Qed.

Lemma omap_total {A B} (f : A -> option B) (h : A -> B) (P : A -> Prop) l :
  Forall P l -> (forall x, P x -> f x = Some (h x)) -> omap f l = Some (map h l).
Proof.
  intros F H. induction F as [|x l Hx F IH]; [reflexivity|]. cbn [omap map]. rewrite (H x Hx), IH. reflexivity.
Qed.

Lemma omap2_total {A B C} (f : A -> B -> option C) (h : A -> B -> C) (P : A -> Prop) (Q : B -> Prop) a :
  (forall x y, P x -> Q y -> f x y = Some (h x y)) ->
  Forall P a -> forall b, Forall Q b -> omap2 f a b = Some (map2 h a b).
Proof.
  intros H F. induction F as [|x a Hx F IH]; intros b G; [reflexivity|].
  destruct G as [|y b Hy G]; [reflexivity|]. cbn [omap2 map2]. rewrite (H x y Hx Hy), (IH b G). reflexivity.
Qed.

Lemma oseq_map_total {A B} (f : A -> option B) (h : A -> B) (P : A -> Prop) l :
  Forall P l -> (forall x, P x -> f x = Some (h x)) -> oseq (map f l) = Some (map h l).
Proof.
  intros F H. induction F as [|x l Hx F IH]; [reflexivity|]. cbn [oseq map]. rewrite (H x Hx), IH. reflexivity.
Qed.

Lemma oseq_map2_total {A B C} (f : A -> B -> option C) (h : A -> B -> C) (P : A -> Prop) (Q : B -> Prop) a :
  (forall x y, P x -> Q y -> f x y = Some (h x y)) ->
  Forall P a -> forall b, Forall Q b -> oseq (map2 f a b) = Some (map2 h a b).
Proof.
  intros H F. induction F as [|x a Hx F IH]; intros b G; [reflexivity|].
  destruct G as [|y b Hy G]; [reflexivity|]. cbn [oseq map2]. rewrite (H x y Hx Hy), (IH b G). reflexivity.
Qed.

Lemma oseq_map_inv {A B} (f : A -> option B) l r : oseq (map f l) = Some r ->
  length r = length l /\ Forall (fun y => exists x, In x l /\ f x = Some y) r.
Proof.
  revert r. induction l as [|x l IH]; intros r H; cbn [map oseq] in H.
  - inversion H; subst. split; [reflexivity | constructor].
  - destruct (f x) as [y|] eqn:E; [|discriminate]. destruct (oseq (map f l)) as [r'|] eqn:E2; [|discriminate].
    inversion H; subst. destruct (IH r' eq_refl) as [I1 I2]. split; [cbn [length]; lia|].
    constructor; [exists x; split; [left; reflexivity | exact E]|].
    eapply Forall_impl; [|exact I2]. intros b (a & Ha & Hb). exists a. split; [right; exact Ha | exact Hb].
Qed.

Lemma phighBits_total g p : valid_gamma2 g -> canon p -> phighBits g p = Some (map (hb g) p).
Proof. intros Hg C. unfold phighBits. apply (omap_total _ _ (fun c => 0 <= c < q)); auto using k_highBits_ok. Qed.
Lemma plowBits_total g p : valid_gamma2 g -> canon p -> plowBits g p = Some (map (lb g) p).
Proof. intros Hg C. unfold plowBits. apply (omap_total _ _ (fun c => 0 <= c < q)); auto using k_lowBits_ok. Qed.
Lemma pmakeHint_total g z r : valid_gamma2 g -> canon z -> canon r -> pmakeHint g z r = Some (map2 (mh g) z r).
Proof.
  intros Hg Cz Cr. unfold pmakeHint.
  apply (omap2_total _ _ (fun c => 0 <= c < q) (fun c => 0 <= c < q)); auto using k_makeHint_ok.
Qed.
Lemma puseHint_total g p h : valid_gamma2 g -> canon p -> puseHint g p h = Some (map2 (uh g) p h).
Proof.
  intros Hg C. unfold puseHint.
  apply (omap2_total _ _ (fun c => 0 <= c < q) (fun _ => True)); auto using k_useHint_ok.
  apply Forall_forall. auto.
Qed.

(* ------------------------------------------------------------------ *)
(* scalar facts                                                         *)
(* ------------------------------------------------------------------ *)
Ltac Zify.zify_post_hook ::= Z.div_mod_to_equations.
Lemma add_neg_cancel X T : 0 <= X < q -> 0 <= T < q -> ((X + T) mod q + (- T) mod q) mod q = X.
Proof. intros. unfold q in *. lia. Qed.
Lemma sub_add_cancel W C : 0 <= W < q -> 0 <= C < q -> ((W - C) mod q + C) mod q = W.
Proof. intros. unfold q in *. lia. Qed.

(* the range BitPack(gamma1) needs, from the norm check on z *)
Lemma bitpack_range G x : 0 < G -> 2 * G < q -> 0 <= x < q -> cabs x < G -> (G - x) mod q < 2 * G.
Proof.
  intros HG H2 Hx Hc. unfold cabs, cmod, q in *. change (8380417 / 2) with 4190208 in Hc.
  rewrite (Z.mod_small x) in Hc by lia.
  destruct (x <=? 4190208) eqn:E; [apply Z.leb_le in E | apply Z.leb_gt in E]; lia.
Qed.
Ltac Zify.zify_post_hook ::= idtac.

(* one coefficient: the verifier's UseHint returns the signer's HighBits(w) *)
Lemma coeff_hint_roundtrip g b w c t :
  valid_gamma2 g -> 0 <= b -> 0 <= w < q -> 0 <= c < q -> 0 <= t < q ->
  cabs c <= b -> cabs (lb g ((w - c) mod q)) < g - b -> cabs t <= g ->
  let r := (((w - c) mod q) + t) mod q in
  uh g r (mh g ((- t) mod q) r) = hb g w.
Proof.
  intros Hg Hb Hw Hc Ht Bc Bl Bt r.
  pose proof (mod_q_range (w - c)) as Ru. set (u := (w - c) mod q) in *.
  assert (Rr : 0 <= r < q) by apply mod_q_range.
  assert (Rn : 0 <= (- t) mod q < q) by apply mod_q_range.
  unfold uh, mh, hb.
  rewrite (useHint_makeHint_spec ((- t) mod q) r g Hg Rn Rr).
  2:{ fold (cabs ((- t) mod q)). rewrite cabs_opp. exact Bt. }
  unfold r. rewrite add_neg_cancel by auto.
  rewrite <- (highBits_stable_spec u c g b Hg Ru Hc Hb Bc Bl).
  unfold u. rewrite sub_add_cancel by auto. reflexivity.
Qed.

(* ------------------------------------------------------------------ *)
(* list helpers                                                         *)
(* ------------------------------------------------------------------ *)
Lemma nth_map_lt {A B} (f : A -> B) l i d d' : (i < length l)%nat -> nth i (map f l) d' = f (nth i l d).
Proof. intros H. rewrite (nth_indep _ d' (f d)) by (rewrite map_length; exact H). apply map_nth. Qed.

Lemma cvec_nth n v j : cvec n v -> (j < n)%nat -> cpoly (nth j v []).
Proof. intros [L F] H. rewrite Forall_nth in F. apply F. lia. Qed.

Lemma cvec_len n v : cvec n v -> length v = n.
Proof. intros [L _]. exact L. Qed.

Lemma Forall_nth_lt {A} (P : A -> Prop) l j d : Forall P l -> (j < length l)%nat -> P (nth j l d).
Proof. intros F H. rewrite Forall_nth in F. apply F. exact H. Qed.

Lemma cvec_canon n v : cvec n v -> Forall canon v.
Proof. intros [_ F]. eapply Forall_impl; [|exact F]. intros p [_ C]. exact C. Qed.

Lemma cvec_polys n v : cvec n v -> polys n v.
Proof. intros [L F]. split; [exact L|]. eapply Forall_impl; [|exact F]. intros p [Lp _]. exact Lp. Qed.

Lemma cpoly_pneg p : cpoly p -> cpoly (pneg p).
Proof.
  intros [L C]. split; [unfold pneg; rewrite map_length; exact L|].
  unfold pneg. apply Forall_map. eapply Forall_impl; [|exact C]. intros a Ha. apply k_neg_range. exact Ha.
Qed.

Lemma cvec_vneg n v : cvec n v -> cvec n (vneg v).
Proof. apply cvec_map. apply cpoly_pneg. Qed.

Lemma nth_psub a b i : cpoly a -> cpoly b -> (i < 256)%nat -> nth i (psub a b) 0 = (nth i a 0 - nth i b 0) mod q.
Proof.
  intros Ha Hb Hi. unfold psub. rewrite (nth_map2 _ _ _ _ 0 0) by (rewrite cpoly_len; auto).
  apply k_sub_spec; apply cpoly_nth; auto.
Qed.

Lemma nth_pneg a i : cpoly a -> (i < 256)%nat -> nth i (pneg a) 0 = (- nth i a 0) mod q.
Proof.
  intros Ha Hi. unfold pneg. rewrite (nth_map_lt _ _ _ 0) by (rewrite cpoly_len; auto).
  apply k_neg_spec. apply cpoly_nth; auto.
Qed.

(* ------------------------------------------------------------------ *)
(* one polynomial                                                       *)
(* ------------------------------------------------------------------ *)
Lemma poly_hint_roundtrip g b w c t :
  valid_gamma2 g -> 0 <= b -> cpoly w -> cpoly c -> cpoly t ->
  bounded b c -> (exists N, bounded N (map (lb g) (psub w c)) /\ N < g - b) -> (exists N, bounded N t /\ N < g) ->
  let r := padd (psub w c) t in
  map2 (uh g) r (map2 (mh g) (pneg t) r) = map (hb g) w.
Proof.
  intros Hg Hb Hw Hc Ht Bc (N1 & Bl & HN1) (N2 & Bt & HN2) r.
  assert (Cu : cpoly (psub w c)) by auto with cpoly.
  assert (Cr : cpoly r) by (unfold r; auto with cpoly).
  assert (Cn : cpoly (pneg t)) by (apply cpoly_pneg; auto).
  assert (Lh : length (map2 (mh g) (pneg t) r) = 256%nat) by (rewrite map2_length; rewrite !cpoly_len; auto).
  apply (nth_ext _ _ 0 0).
  - rewrite map2_length, map_length by (rewrite Lh; apply cpoly_len; auto). rewrite !cpoly_len; auto.
  - rewrite map2_length by (rewrite Lh; apply cpoly_len; auto). rewrite (cpoly_len r Cr). intros i Hi.
    rewrite (nth_map2 _ _ _ _ 0 0) by (rewrite ?Lh, ?(cpoly_len r Cr); exact Hi).
    rewrite (nth_map2 _ _ _ _ 0 0) by (rewrite ?(cpoly_len _ Cn), ?(cpoly_len r Cr); exact Hi).
    rewrite (nth_map_lt _ _ _ 0) by (rewrite cpoly_len; auto).
    rewrite nth_pneg by auto. unfold r. rewrite nth_padd, nth_psub by auto.
    apply (coeff_hint_roundtrip g b); auto using cpoly_nth.
    + apply bounded_nth; auto.
    + assert (HH : cabs (nth i (map (lb g) (psub w c)) 0) <= N1).
      { apply (Forall_nth_lt _ _ i 0 Bl). rewrite map_length, cpoly_len; auto. }
      rewrite (nth_map_lt _ _ _ 0) in HH by (rewrite cpoly_len; auto).
      rewrite nth_psub in HH by auto. lia.
    + assert (HH : cabs (nth i t 0) <= N2) by (apply (Forall_nth_lt _ _ i 0 Bt); rewrite cpoly_len; auto). lia.
Qed.

(* ------------------------------------------------------------------ *)
(* hint vectors: 0/1 entries, numOnes = weight                          *)
(* ------------------------------------------------------------------ *)
Lemma binary_map2_mh g a b : binary (map2 (mh g) a b).
Proof.
  revert b. induction a as [|x a IH]; intros [|y b]; cbn [map2]; try constructor; [|apply IH].
  unfold mh. destruct (_ =? _); [left | right]; reflexivity.
Qed.

Lemma fold_add_binary p : binary p -> forall s r,
  fold_left Z.add p r = r + Z.of_nat (length (nz_positions s p)).
Proof.
  induction 1 as [|c p Hc Hp IH]; intros s r; cbn [fold_left nz_positions]; [cbn [length]; lia|].
  destruct Hc as [-> | ->]; cbn [Z.eqb]; rewrite (IH (s + 1)%N); cbn [length]; lia.
Qed.

Lemma vnumOnes_weight h : Forall binary h -> vnumOnes h = Z.of_nat (weight h).
Proof.
  intros F. unfold vnumOnes, weight.
  assert (G : forall r, fold_left (fun r p => fold_left Z.add p r) h r =
                        r + Z.of_nat (length (concat (map (nz_positions 0%N) h)))).
  { induction F as [|p h Hp F IH]; intros r; cbn [fold_left map concat]; [cbn [length]; lia|].
    rewrite IH, (fold_add_binary p Hp 0%N), app_length. lia. }
  rewrite G. lia.
Qed.

(* ------------------------------------------------------------------ *)
(* one vector                                                           *)
(* ------------------------------------------------------------------ *)
Lemma lb_range g c : valid_gamma2 g -> 0 <= c < q -> 0 <= lb g c < q.
Proof. intros Hg Hc. apply (decompose_spec_range c g Hg Hc). Qed.

Lemma nth_vsub k a b j : cvec k a -> cvec k b -> (j < k)%nat -> nth j (vsub a b) [] = psub (nth j a []) (nth j b []).
Proof. intros [La _] [Lb _] H. unfold vsub. apply nth_map2; lia. Qed.
Lemma nth_vadd k a b j : cvec k a -> cvec k b -> (j < k)%nat -> nth j (vadd a b) [] = padd (nth j a []) (nth j b []).
Proof. intros [La _] [Lb _] H. unfold vadd. apply nth_map2; lia. Qed.

Lemma nth_vneg k a j : cvec k a -> (j < k)%nat -> nth j (vneg a) [] = pneg (nth j a []).
Proof. intros [La _] H. unfold vneg. apply (nth_map_lt pneg a j [] []). lia. Qed.

Lemma cvec_lt n v j : cvec n v -> (j < n)%nat -> (j < length v)%nat.
Proof. intros [L _] H. rewrite L. exact H. Qed.

Lemma vec_hint_roundtrip g b k w cs2 ct0 :
  valid_gamma2 g -> 0 <= b -> cvec k w -> cvec k cs2 -> cvec k ct0 ->
  Forall (bounded b) cs2 ->
  vinfNorm (map (map (lb g)) (vsub w cs2)) < g - b -> vinfNorm ct0 < g ->
  let r := vadd (vsub w cs2) ct0 in
  map2 (map2 (uh g)) r (map2 (map2 (mh g)) (vneg ct0) r) = map (map (hb g)) w.
Proof.
  intros Hg Hb Hw Hc Ht Bc N1 N2 r.
  assert (Cu : cvec k (vsub w cs2)) by auto with cpoly.
  assert (Cr : cvec k r) by (unfold r; auto with cpoly).
  assert (Cn : cvec k (vneg ct0)) by (apply cvec_vneg; auto).
  set (r0 := map (map (lb g)) (vsub w cs2)) in *.
  assert (Cr0 : Forall canon r0).
  { unfold r0. apply Forall_map. eapply Forall_impl; [|apply (cvec_canon k); exact Cu].
    intros p Cp. apply Forall_map. eapply Forall_impl; [|exact Cp]. intros c Rc. apply lb_range; auto. }
  destruct (vinfNorm_bounds r0 Cr0) as [B1 _].
  destruct (vinfNorm_bounds ct0 (cvec_canon k ct0 Ht)) as [B2 _].
  assert (Lnr : length (vneg ct0) = length r).
  { transitivity k; [exact (cvec_len k _ Cn) | symmetry; exact (cvec_len k _ Cr)]. }
  assert (Lh : length (map2 (map2 (mh g)) (vneg ct0) r) = k).
  { rewrite map2_length by exact Lnr. exact (cvec_len k _ Cn). }
  assert (Lrh : length r = length (map2 (map2 (mh g)) (vneg ct0) r)).
  { rewrite Lh. exact (cvec_len k _ Cr). }
  apply (nth_ext _ _ [] []).
  - rewrite map2_length, map_length by exact Lrh.
    transitivity k; [exact (cvec_len k _ Cr) | symmetry; exact (cvec_len k _ Hw)].
  - rewrite map2_length by exact Lrh. intros j Hj0.
    assert (Hj : (j < k)%nat) by (apply (Nat.lt_le_trans _ _ _ Hj0); apply Nat.eq_le_incl; exact (cvec_len k _ Cr)).
    rewrite (nth_map2 _ _ _ _ [] []) by (try rewrite Lh; eauto using cvec_lt).
    rewrite (nth_map2 _ _ _ _ [] []) by (eauto using cvec_lt).
    rewrite (nth_map_lt _ _ _ []) by (eauto using cvec_lt).
    rewrite (nth_vneg k) by auto.
    unfold r. rewrite (nth_vadd k), (nth_vsub k) by auto.
    apply (poly_hint_roundtrip g b); auto using (cvec_nth k).
    + apply Forall_nth_lt; [exact Bc | eauto using cvec_lt].
    + exists (vinfNorm r0). split; [|exact N1].
      assert (HH : bounded (vinfNorm r0) (nth j r0 [])).
      { apply Forall_nth_lt; [exact B1|]. unfold r0. rewrite map_length. eauto using cvec_lt. }
      unfold r0 in HH at 2. rewrite (nth_map_lt _ _ _ []) in HH by (eauto using cvec_lt).
      rewrite (nth_vsub k) in HH by auto. exact HH.
    + exists (vinfNorm ct0). split; [|exact N2].
      apply Forall_nth_lt; [exact B2 | eauto using cvec_lt].
Qed.

(* the c*s products as computed through the NTT are convolutions *)
Lemma vmul_conv n c v : cpoly c -> cvec n v -> vintt (vscalarMul (ntt c) (vntt v)) = map (conv c) v.
Proof.
  intros Hc [L F]. unfold vintt, vscalarMul, vntt. rewrite !map_map. apply map_ext_in.
  intros p Hp. rewrite Forall_forall in F. apply ntt_mul_is_negacyclic_convolution; auto.
Qed.

Theorem c_times_s2_norm_bound n c v eta tau :
  cpoly c -> cvec n v -> 0 <= eta -> Forall (bounded eta) v -> l1 c <= tau ->
  Forall (bounded (tau * eta)) (vintt (vscalarMul (ntt c) (vntt v))).
Proof.
  intros Hc Hv He Bv Hl. rewrite (vmul_conv n) by auto. apply Forall_map.
  destruct Hv as [L F]. rewrite Forall_forall in *. intros p Hp.
  eapply bounded_weaken; [exact (conv_norm_bound c p eta (proj2 Hc) (F p Hp) He (Bv p Hp))|].
  apply Z.mul_le_mono_nonneg_r; auto.
Qed.

Lemma hint_shape g : forall k Zv Rv, cvec k Zv -> cvec k Rv ->
  length (map2 (map2 (mh g)) Zv Rv) = k /\
  Forall (fun p => binary p /\ length p = degree) (map2 (map2 (mh g)) Zv Rv).
Proof.
  induction k as [|k IH]; intros Zv Rv HZ HR.
  - destruct HZ as [LZ _]. destruct Zv; [|discriminate]. split; [reflexivity | constructor].
  - destruct Zv as [|zp Zv]; [destruct HZ; discriminate|]. destruct Rv as [|rp Rv]; [destruct HR; discriminate|].
    apply cvec_cons in HZ, HR. destruct HZ as [[Lz _] HZ]. destruct HR as [[Lr _] HR].
    destruct (IH Zv Rv HZ HR) as [I1 I2]. cbn [map2 length]. split; [lia|].
    constructor; [|exact I2]. split; [apply binary_map2_mh|]. rewrite map2_length; [exact Lz | lia].
Qed.

(* ------------------------------------------------------------------ *)
(* what the proof uses of a parameter set                               *)
(* ------------------------------------------------------------------ *)
Record pfacts (P : params) : Prop := mk_pfacts {
  pf_g : valid_gamma2 (p_gamma2 P);
  pf_omega : (p_omega P <= 255)%nat;
  pf_g1 : 0 < gamma1 P /\ 2 * gamma1 P < q /\ 2 ^ Z.of_nat (zBits P) = 2 * gamma1 P;
  pf_eta : p_eta P = 2 \/ p_eta P = 4;
  pf_wrap : wrapu 32 (gamma1 P - beta P) = gamma1 P - beta P /\
            wrapu 32 (p_gamma2 P - beta P) = p_gamma2 P - beta P /\ 0 <= beta P;
  pf_tau : (p_tau P <= 256)%nat }.

Definition params_ok (P : params) : Prop := P = MLDSA44 \/ P = MLDSA65 \/ P = MLDSA87.

Lemma params_ok_facts P : params_ok P -> pfacts P.
Proof.
  intros [-> | [-> | ->]]; (split;
    [ unfold valid_gamma2; cbn; auto
    | cbn; lia
    | repeat split; vm_compute; congruence
    | cbn; auto
    | repeat split; vm_compute; congruence
    | cbn; lia ]).
Qed.

Section SignVerify.
  Variables shake128 shake256 : bytes -> nat -> bytes.
  Hypothesis shake256_length : forall m n, length (shake256 m n) = n.
  Variable P : params.
  Hypothesis HP : pfacts P.

  Lemma signAttempt_inv Ah s1h s2h t0h mu rhopp kappa sigma :
    signAttempt shake256 P Ah s1h s2h t0h mu rhopp kappa = Signed sigma ->
    let g := p_gamma2 P in
    let y := expandMask shake256 P rhopp kappa in
    let w := vintt (mmul Ah (vntt y)) in
    exists w1 c r0 h,
      oseq (map (phighBits g) w) = Some w1 /\
      let ct := shake256 (mu ++ w1Encode P w1) (ctLen P) in
      sampleInBall shake256 (p_tau P) ct = Some c /\
      let ch := ntt c in
      let cs1 := vintt (vscalarMul ch s1h) in
      let cs2 := vintt (vscalarMul ch s2h) in
      let z := vadd y cs1 in
      let ct0 := vintt (vscalarMul ch t0h) in
      oseq (map (plowBits g) (vsub w cs2)) = Some r0 /\
      vinfNorm z < wrapu 32 (gamma1 P - beta P) /\
      vinfNorm r0 < wrapu 32 (g - beta P) /\
      oseq (map2 (pmakeHint g) (vneg ct0) (vadd (vsub w cs2) ct0)) = Some h /\
      vinfNorm ct0 < g /\ vnumOnes h <= Z.of_nat (p_omega P) /\
      sigma = sigEncode P ct z h.
  Proof.
    unfold signAttempt. cbv zeta. intros H.
    destruct (oseq (map (phighBits (p_gamma2 P)) _)) as [w1|] eqn:E1; [|discriminate].
    destruct (sampleInBall shake256 (p_tau P) _) as [c|] eqn:E2; [|discriminate].
    destruct (oseq (map (plowBits (p_gamma2 P)) _)) as [r0|] eqn:E3; [|discriminate].
    match type of H with (if ?b then _ else _) = _ => destruct b eqn:E4; [|discriminate] end.
    destruct (oseq (map2 (pmakeHint (p_gamma2 P)) _ _)) as [h|] eqn:E5; [|discriminate].
    match type of H with (if ?b then _ else _) = _ => destruct b eqn:E6; [|discriminate] end.
    inversion H; subst sigma.
    apply andb_true_iff in E4, E6. destruct E4 as [E4a E4b]. destruct E6 as [E6a E6b].
    apply Z.ltb_lt in E4a, E4b, E6a. apply Z.leb_le in E6b.
    exists w1, c, r0, h. repeat split; assumption.
  Qed.

  Lemma expandMask_cvec rhopp kappa : cvec (p_l P) (expandMask shake256 P rhopp kappa).
  Proof.
    destruct HP as [_ _ (G1 & G2 & G3) _ _ _].
    unfold expandMask. split; [rewrite map_length, seq_length; reflexivity|].
    apply Forall_map. apply Forall_forall. intros i _. apply bitUnpack_cpoly; lia.
  Qed.

  Lemma attempt_verifies rho tr Ah s1 s2 mu rhopp kappa sigma :
    cmat (p_k P) (p_l P) Ah -> cvec (p_l P) s1 -> cvec (p_k P) s2 -> Forall (bounded (p_eta P)) s2 ->
    expandA shake128 P rho = Some Ah ->
    let t := vadd (vintt (mmul Ah (vntt s1))) s2 in
    let t1 := map fst (map ppower2Round t) in
    let t0 := map snd (map ppower2Round t) in
    signAttempt shake256 P Ah (vntt s1) (vntt s2) (vntt t0) mu rhopp kappa = Signed sigma ->
    verifyInternalWithMu shake128 shake256 P (mkPK rho t1 tr) mu sigma = Some true.
  Proof.
    intros HA Hs1 Hs2 Bs2 HexpA t t1 t0 Hsig.
    apply signAttempt_inv in Hsig. cbv zeta in Hsig.
    destruct Hsig as (w1 & c & r0 & h & E1 & E2 & E3 & N1 & N2 & E5 & N3 & N4 & ->).
    destruct HP as [Hg Homega (G1 & G2 & G3) Heta (W1 & W2 & Hbeta) Htau].
    rewrite W1 in N1. rewrite W2 in N2.
    set (g := p_gamma2 P) in *. set (k := p_k P) in *. set (l := p_l P) in *.
    pose proof (expandMask_cvec rhopp kappa) as Hy. fold l in Hy.
    set (y := expandMask shake256 P rhopp kappa) in *.
    assert (Hw : cvec k (vintt (mmul Ah (vntt y)))) by eauto with cpoly.
    set (w := vintt (mmul Ah (vntt y))) in *.
    (* w1 = HighBits(w) *)
    rewrite (oseq_map_total _ (map (hb g)) canon) in E1
      by (auto using phighBits_total; apply (cvec_canon k); exact Hw).
    injection E1 as <-.
    set (ct := shake256 (mu ++ w1Encode P (map (map (hb g)) w)) (ctLen P)) in *.
    destruct (sampleInBall_props _ _ _ _ Htau E2) as [Hc Hl1].
    (* t0 *)
    assert (Ht : cvec k t) by (unfold t; eauto with cpoly).
    assert (Ht0 : cvec k t0).
    { unfold t0. destruct Ht as [Lt Ft]. split; [rewrite !map_length; exact Lt|].
      rewrite map_map. apply Forall_map. eapply Forall_impl; [|exact Ft].
      intros p Hp. apply power2Round_poly. exact Hp. }
    (* the identity the verifier rests on, in the names of this proof *)
    pose proof (verify_recomputes_w k l Ah s1 s2 y c HA Hs1 Hs2 Hy Hc) as HW. cbv zeta in HW.
    fold t in HW. fold t1 t0 in HW. fold w in HW.
    assert (Hcs1 : cvec l (vintt (vscalarMul (ntt c) (vntt s1)))) by auto with cpoly.
    assert (Hcs2 : cvec k (vintt (vscalarMul (ntt c) (vntt s2)))) by auto with cpoly.
    assert (Hct0 : cvec k (vintt (vscalarMul (ntt c) (vntt t0)))) by auto with cpoly.
    assert (Bcs2 : Forall (bounded (beta P)) (vintt (vscalarMul (ntt c) (vntt s2)))).
    { apply (c_times_s2_norm_bound k); auto. destruct Heta as [-> | ->]; lia. }
    set (cs1 := vintt (vscalarMul (ntt c) (vntt s1))) in *.
    set (cs2 := vintt (vscalarMul (ntt c) (vntt s2))) in *.
    set (ct0 := vintt (vscalarMul (ntt c) (vntt t0))) in *.
    assert (Hz : cvec l (vadd y cs1)) by auto with cpoly.
    set (z := vadd y cs1) in *.
    assert (Hu : cvec k (vsub w cs2)) by auto with cpoly.
    assert (Hr : cvec k (vadd (vsub w cs2) ct0)) by auto with cpoly.
    (* r0 = LowBits(w - c s2), h = MakeHint(-c t0, w - c s2 + c t0) *)
    rewrite (oseq_map_total _ (map (lb g)) canon) in E3
      by (auto using plowBits_total; apply (cvec_canon k); exact Hu).
    injection E3 as <-.
    rewrite (oseq_map2_total _ (map2 (mh g)) canon canon) in E5
      by (auto using pmakeHint_total; apply (cvec_canon k); auto using cvec_vneg).
    injection E5 as <-.
    destruct (hint_shape g k (vneg ct0) (vadd (vsub w cs2) ct0) (cvec_vneg _ _ Hct0) Hr) as [Lh Sh].
    set (h := map2 (map2 (mh g)) (vneg ct0) (vadd (vsub w cs2) ct0)) in *.
    (* the signature decodes to (c~, z, h) *)
    assert (Hdec : sigDecode P (sigEncode P ct z h) = Some (ct, z, h)).
    { apply sigDecode_sigEncode; auto.
      - lia.
      - unfold ct. apply shake256_length.
      - apply cvec_polys. exact Hz.
      - destruct (vinfNorm_bounds z (cvec_canon l z Hz)) as [Bz _].
        pose proof (cvec_canon l z Hz) as Cz. rewrite Forall_forall in *.
        intros p Hp. specialize (Bz p Hp). specialize (Cz p Hp).
        unfold bounded, canon in *. rewrite Forall_forall in *. intros x Hx.
        specialize (Bz x Hx). specialize (Cz x Hx). cbv beta in *. split; [exact Cz|].
        rewrite G3. apply bitpack_range; auto. lia.
      - rewrite <- (Nat2Z.id (weight h)), <- (Nat2Z.id (p_omega P)).
        apply Z2Nat.inj_le; try lia.
        rewrite <- vnumOnes_weight; [exact N4|].
        eapply Forall_impl; [|exact Sh]. intros p [Hb _]. exact Hb. }
    (* run the verifier *)
    unfold verifyInternalWithMu. rewrite Hdec. cbn [pk_rho pk_t1]. rewrite HexpA. cbn [obind].
    fold ct. rewrite E2. cbn [obind]. cbv zeta.
    rewrite HW. fold g.
    rewrite (oseq_map2_total (puseHint g) (map2 (uh g)) canon (fun _ => True) _
               (fun x y Hx _ => puseHint_total g x y Hg Hx) (cvec_canon k _ Hr) h)
      by (apply Forall_forall; auto).
    pose proof (vec_hint_roundtrip g (beta P) k w cs2 ct0 Hg Hbeta Hw Hcs2 Hct0 Bcs2 N2 N3) as HR.
    cbv zeta in HR.
    match goal with |- context [w1Encode P ?X] => replace X with (map (map (hb g)) w) by (symmetry; exact HR) end.
    fold ct. rewrite beq_refl, W1. apply Z.ltb_lt in N1. rewrite N1. reflexivity.
  Qed.

  Lemma signLoop_inv fuel Ah s1h s2h t0h mu rhopp : forall kappa sigma,
    signLoop shake256 P fuel Ah s1h s2h t0h mu rhopp kappa = Some sigma ->
    exists kappa', signAttempt shake256 P Ah s1h s2h t0h mu rhopp kappa' = Signed sigma.
  Proof.
    induction fuel as [|f IH]; intros kappa sigma H; cbn [signLoop] in H; [discriminate|].
    destruct (signAttempt shake256 P Ah s1h s2h t0h mu rhopp kappa) eqn:E; try discriminate.
    - inversion H; subst. exists kappa. exact E.
    - apply IH in H. exact H.
  Qed.

  Lemma expandA_cmat rho Ah : expandA shake128 P rho = Some Ah -> cmat (p_k P) (p_l P) Ah.
  Proof.
    unfold expandA. intros H. apply oseq_map_inv in H. destruct H as [L F]. rewrite seq_length in L.
    split; [exact L|]. eapply Forall_impl; [|exact F]. intros row (r & _ & Hr). cbv beta in Hr.
    apply oseq_map_inv in Hr. destruct Hr as [L2 F2]. rewrite seq_length in L2. split; [exact L2|].
    eapply Forall_impl; [|exact F2]. intros p (s & _ & Hp). eapply rejectNTT_cpoly; exact Hp.
  Qed.

  Lemma expandS_props rho s1 s2 : expandS shake256 P rho = Some (s1, s2) ->
    (cvec (p_l P) s1 /\ Forall (bounded (p_eta P)) s1) /\ (cvec (p_k P) s2 /\ Forall (bounded (p_eta P)) s2).
  Proof.
    destruct HP as [_ _ _ Heta _ _].
    unfold expandS. intros H.
    destruct (oseq (map _ (seq 0 (p_l P)))) as [a|] eqn:E1; [|discriminate].
    destruct (oseq (map _ (seq 0 (p_k P)))) as [b|] eqn:E2; [|discriminate].
    inversion H; subst a b; clear H.
    apply oseq_map_inv in E1, E2. destruct E1 as [L1 F1]. destruct E2 as [L2 F2]. rewrite seq_length in L1, L2.
    split; (split; [split; [assumption|] |]).
    - eapply Forall_impl; [|exact F1]. intros p (i & _ & Hp). cbv beta in Hp. apply (rejectBounded_props _ _ _ _ Heta) in Hp. tauto.
    - eapply Forall_impl; [|exact F1]. intros p (i & _ & Hp). cbv beta in Hp. apply (rejectBounded_props _ _ _ _ Heta) in Hp. tauto.
    - eapply Forall_impl; [|exact F2]. intros p (i & _ & Hp). cbv beta in Hp. apply (rejectBounded_props _ _ _ _ Heta) in Hp. tauto.
    - eapply Forall_impl; [|exact F2]. intros p (i & _ & Hp). cbv beta in Hp. apply (rejectBounded_props _ _ _ _ Heta) in Hp. tauto.
  Qed.

  (* the shape of a generated key pair *)
  Lemma keyGen_inv seed pk sk : keyGenInternal shake128 shake256 P seed = Some (pk, sk) ->
    exists rho K tr Ah s1 s2,
      expandA shake128 P rho = Some Ah /\
      (cvec (p_l P) s1 /\ Forall (bounded (p_eta P)) s1) /\ (cvec (p_k P) s2 /\ Forall (bounded (p_eta P)) s2) /\
      length rho = 32%nat /\ length K = 32%nat /\ length tr = 64%nat /\
      let t := vadd (vintt (mmul Ah (vntt s1))) s2 in
      let t1 := map fst (map ppower2Round t) in
      let t0 := map snd (map ppower2Round t) in
      tr = shake256 (pkEncodeRaw rho t1) 64 /\
      pk = mkPK rho t1 tr /\ sk = mkSK rho K tr s1 s2 t0.
  Proof.
    unfold keyGenInternal. cbv zeta.
    set (H := shake256 (seed ++ [byteN (p_k P); byteN (p_l P)]) 128).
    assert (LH : length H = 128%nat) by apply shake256_length.
    destruct (expandA shake128 P (firstn 32 H)) as [Ah|] eqn:EA; cbn [obind]; [|discriminate].
    destruct (expandS shake256 P (firstn 64 (skipn 32 H))) as [[s1 s2]|] eqn:ES; cbn [obind]; [|discriminate].
    intros HK. inversion HK; subst pk sk; clear HK.
    apply expandS_props in ES. destruct ES as [ES1 ES2].
    exists (firstn 32 H), (firstn 32 (skipn 96 H)),
      (shake256 (pkEncodeRaw (firstn 32 H) (map fst (map ppower2Round (vadd (vintt (mmul Ah (vntt s1))) s2)))) 64),
      Ah, s1, s2.
    split; [exact EA|]. split; [exact ES1|]. split; [exact ES2|].
    split; [rewrite firstn_length; lia|]. split; [rewrite firstn_length, skipn_length; lia|].
    split; [apply shake256_length|]. cbv zeta. repeat split.
  Qed.

  (* ---------------------------------------------------------------- *)
  (* every produced signature verifies                                 *)
  (* ---------------------------------------------------------------- *)
  Theorem keygen_sign_verify_mu seed pk sk fuel mu rnd sigma :
    keyGenInternal shake128 shake256 P seed = Some (pk, sk) ->
    signInternalWithMu shake128 shake256 P fuel sk mu rnd = Some sigma ->
    verifyInternalWithMu shake128 shake256 P pk mu sigma = Some true.
  Proof.
    intros HK HS. apply keyGen_inv in HK.
    destruct HK as (rho & K & tr & Ah & s1 & s2 & EA & [Hs1 _] & [Hs2 Bs2] & _ & _ & _ & HK).
    cbv zeta in HK. destruct HK as (_ & -> & ->).
    unfold signInternalWithMu in HS. cbn [sk_rho sk_K sk_s1 sk_s2 sk_t0] in HS. rewrite EA in HS. cbn [obind] in HS.
    apply signLoop_inv in HS. destruct HS as [kappa HS].
    eapply attempt_verifies; eauto using expandA_cmat.
  Qed.

  Lemma keygen_tr seed pk sk : keyGenInternal shake128 shake256 P seed = Some (pk, sk) -> sk_tr sk = pk_tr pk.
  Proof.
    intros HK. apply keyGen_inv in HK.
    destruct HK as (rho & K & tr & Ah & s1 & s2 & _ & _ & _ & _ & _ & _ & HK).
    cbv zeta in HK. destruct HK as (_ & -> & ->). reflexivity.
  Qed.

  Theorem keygen_sign_verify_internal seed pk sk fuel Mp rnd sigma :
    keyGenInternal shake128 shake256 P seed = Some (pk, sk) ->
    signInternal shake128 shake256 P fuel sk Mp rnd = Some sigma ->
    verifyInternal shake128 shake256 P pk Mp sigma = Some true.
  Proof.
    intros HK HS. unfold signInternal in HS. unfold verifyInternal.
    rewrite <- (keygen_tr seed pk sk HK). eapply keygen_sign_verify_mu; eauto.
  Qed.

  Theorem keygen_sign_verify seed pk sk fuel M ctx rnd sigma :
    keyGenInternal shake128 shake256 P seed = Some (pk, sk) ->
    sign shake128 shake256 P fuel sk M ctx rnd = Some (Some sigma) ->
    verify shake128 shake256 P pk M sigma ctx = Some true.
  Proof.
    intros HK HS. unfold sign in HS. unfold verify.
    destruct (Nat.ltb 255 (length ctx)); [discriminate|].
    inversion HS as [HS']. eapply keygen_sign_verify_internal; eauto.
  Qed.
End SignVerify.
