(* C18: the schedule-independence theorem instantiated with the model of a keyset
   primitive (model/Factory.v).  The shared object is the prefix map built at construction
   (internal/prefixmap) - read by every call, written by none; a call of Decrypt / Verify /
   VerifyMAC is the sequence of atomic steps "look up the candidates for the input's prefix",
   then "try the next candidate".  Whatever the interleaving of any number of such calls on
   one primitive, each returns what the sequential selection rule `accept` returns. *)
From Coq Require Import List Arith Bool NArith Lia.
From Tink Require Import Bytes Manager Prefix Factory Sched SchedProofs.
Import ListNotations.
Local Open Scope nat_scope.

Section KeysetPrimitive.
  Variable valid : fentry -> bytes -> bool.

  (* local state of one call: the input, the candidates still to try (None: not looked up
     yet), the result so far *)
  Definition call := (bytes * option (list fentry) * option fentry)%type.

  Definition prim_step (sh : pmap) (l : call) : pmap * call :=
    let '(x, pending, res) := l in
    match pending with
    | None => (sh, (x, Some (pm_matching sh x), res))
    | Some [] => (sh, l)
    | Some (e :: t) => if valid e x then (sh, (x, Some [], Some e)) else (sh, (x, Some t, res))
    end.

  Lemma prim_step_reads_only sh l : fst (prim_step sh l) = sh.
  Proof.
    destruct l as [[x [[|e t]|]] res]; simpl; auto. destruct (valid e x); reflexivity.
  Qed.

  Lemma run_alone_done sh x res n :
    snd (run_alone pmap call prim_step sh (x, Some [], res) n) = (x, Some [], res).
  Proof. induction n as [|n IHn]; simpl; auto. Qed.

  (* trying the remaining candidates, alone *)
  Lemma run_alone_pending sh x : forall cands res n, length cands <= n ->
    snd (run_alone pmap call prim_step sh (x, Some cands, res) n)
    = (x, Some [], match find (fun e => valid e x) cands with Some e => Some e | None => res end)
    \/ (cands = [] /\ snd (run_alone pmap call prim_step sh (x, Some cands, res) n) = (x, Some [], res)).
  Proof.
    induction cands as [|e t IH]; intros res n Hn.
    - right. split; auto. apply run_alone_done.
    - left. destruct n as [|n]; [simpl in Hn; lia|]. simpl in Hn.
      cbn [run_alone prim_step]. destruct (valid e x) eqn:V.
      + cbn [find]. rewrite V. apply run_alone_done.
      + cbn [find]. rewrite V. destruct (IH res n) as [H|[-> H]]; [lia|exact H|].
        rewrite H. reflexivity.
  Qed.

  Definition result_of (l : call) : option fentry := snd l.

  (* one call alone computes the selection rule *)
  Theorem call_alone_is_accept ks x :
    result_of (snd (run_alone pmap call prim_step (pm_build ks) (x, None, None)
                              (S (length (pm_matching (pm_build ks) x)))))
    = accept valid ks x.
  Proof.
    cbn [run_alone prim_step]. unfold accept, try_list.
    destruct (run_alone_pending (pm_build ks) x (pm_matching (pm_build ks) x) None
                (length (pm_matching (pm_build ks) x)) (le_n _)) as [H|[E H]].
    - rewrite H. unfold result_of; simpl. destruct (find _ _); reflexivity.
    - rewrite H. unfold result_of; simpl. rewrite E. reflexivity.
  Qed.

  (* ANY number of concurrent calls on ONE primitive, ANY interleaving: when all have
     finished, the prefix map is what it was and every call holds exactly the verdict of the
     sequential rule for its own input - never another call's. *)
  Theorem concurrent_calls_are_accept ks (inputs : list bytes) (sched : list nat) :
    let sh := pm_build ks in
    let calls := map (fun x => ((x, None, None) : call, S (length (pm_matching sh x)))) inputs in
    let final := run_sched pmap call prim_step (sh, calls) sched in
    finished call (snd final) ->
    fst final = sh /\
    map (fun t => result_of (fst t)) (snd final) = map (accept valid ks) inputs.
  Proof.
    intros sh calls final Fin.
    destruct (schedule_independent pmap call prim_step prim_step_reads_only sh calls sched Fin) as [A B].
    split; [exact A|].
    fold final in B.
    rewrite <- (map_map fst result_of), B. unfold calls. rewrite !map_map. apply map_ext.
    intros x. cbn [fst snd]. apply call_alone_is_accept.
  Qed.
End KeysetPrimitive.

(* non-vacuity: two calls with different inputs on a two-key keyset, steps interleaved *)
Example concurrent_example :
  let ks := [mkF 5 Enabled true PTink 5 false 1; mkF 7 Enabled false PTink 7 false 2] in
  let valid := fun e (x : bytes) => N.eqb (fkey e) (last x 0%N) in
  let inputs := [[1; 0; 0; 0; 5; 1]; [1; 0; 0; 0; 7; 2]; [1; 0; 0; 0; 7; 1]]%N in
  let sh := pm_build ks in
  let calls := map (fun x => ((x, None, None) : call, S (length (pm_matching sh x)))) inputs in
  let final := run_sched pmap call (prim_step valid) (sh, calls) [2; 0; 1; 1; 0; 2; 2; 0; 1] in
  map (fun t => (snd t, result_of (fst t))) (snd final)
  = [(0, Some (mkF 5 Enabled true PTink 5 false 1)); (0, Some (mkF 7 Enabled false PTink 7 false 2)); (0, None)].
Proof. vm_compute. reflexivity. Qed.
