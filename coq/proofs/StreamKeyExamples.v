(* C07: ONE instance for all key-level / keyset-level theorems: an injective
   "HKDF", a toy segment cipher that is CORRECT for all keys, nonces and
   segments (checksum + 12 zero bytes = 16-byte tag), the keyset
   [decoy with the parameters of k; k].  The round-trip premises hold of it, the
   per-instance premises of the manipulation corollaries hold for every
   tampered stream listed, and the forgery event of the reductions is real (a
   constant MAC makes AES-CTR-HMAC accept a modified segment). *)
From Coq Require Import List NArith Bool Arith Lia.
From Tink Require Import Bytes Stream StreamProofs StreamIO StreamIOProofs StreamReduction StreamKeyProofs StreamKeyReduction.
Import ListNotations.
Open Scope nat_scope.

(* an injective key derivation: (main key, salt, info) can be read off the output *)
Definition ex_hkdf (h : hash) (mk salt info : bytes) (len : nat) : bytes :=
  N.of_nat (length mk) :: mk ++ N.of_nat (length salt) :: salt ++ info.

Lemma ex_hkdf_inj h mk s a l h' mk' s' a' l' :
  ex_hkdf h mk s a l = ex_hkdf h' mk' s' a' l' -> mk = mk' /\ s = s' /\ a = a'.
Proof.
  unfold ex_hkdf. intros H. inversion H as [[H1 H2]]. apply Nat2N.inj in H1.
  apply (app_inv_length _ _ _ _ H1) in H2. destruct H2 as (-> & H2).
  inversion H2 as [[H3 H4]]. apply Nat2N.inj in H3.
  apply (app_inv_length _ _ _ _ H3) in H4. destruct H4 as (-> & ->). auto.
Qed.

(* "AES-GCM": FNV checksum over key || nonce || segment, 16-byte tag *)
Definition ex_seal (K N s : bytes) : bytes := toy_encs (K ++ N) s ++ zeros 12.
Definition ex_open (K N c : bytes) : option bytes :=
  if length c <? 16 then None else
  if beq (skipn (length c - 12) c) (zeros 12) then toy_decs (K ++ N) (firstn (length c - 12) c) else None.
(* "AES-CTR": xor with a byte that depends on key and IV *)
Definition ex_ctr (K iv x : bytes) : bytes := map (fun b => N.lxor b (toy_kb (K ++ iv))) x.
(* "HMAC": FNV checksum over key || message, padded to the digest size *)
Definition ex_hmac (h : hash) (K m : bytes) : bytes := be_bytes 4 (toy_sum (K ++ m)) ++ zeros (digest_size h - 4).
(* a MAC without any authenticity (constant), only for the example showing that the forgery event is real *)
Definition bad_hmac (h : hash) (K m : bytes) : bytes := zeros (digest_size h).

(* the correctness laws of C07_key_roundtrip / C07_keyset_roundtrip *)
Lemma ex_laws :
  (forall k n p, length (ex_seal k n p) = length p + 16) /\
  (forall k n p, ex_open k n (ex_seal k n p) = Some p) /\
  (forall k iv x, length (ex_ctr k iv x) = length x) /\
  (forall k iv x, ex_ctr k iv (ex_ctr k iv x) = x) /\
  (forall h k m, length (ex_hmac h k m) = digest_size h).
Proof.
  assert (L : forall k n p, length (ex_seal k n p) = length p + 16).
  { intros. unfold ex_seal. rewrite app_length, toy_len, zeros_length. lia. }
  split; [exact L|]. split.
  2:{ split; [intros; apply map_length|]. split; [intros; apply map_lxor_invol|].
      intros h k m. unfold ex_hmac. rewrite app_length, be_bytes_length, zeros_length. destruct h; cbn; lia. }
  intros k n p. unfold ex_open. rewrite L. destruct (Nat.ltb_spec (length p + 16) 16); [lia|].
  unfold ex_seal.
  assert (E : length p + 16 - 12 = length (toy_encs (k ++ n) p)) by (rewrite toy_len; lia).
  rewrite E, skipn_app, Nat.sub_diag, skipn_all, skipn_O, app_nil_l, beq_refl.
  rewrite firstn_app, Nat.sub_diag, firstn_all, firstn_O, app_nil_r. apply toy_dec_enc.
Qed.

Definition ex_mk : bytes := [1; 2; 3; 4; 5; 6; 7; 8; 9; 10; 11; 12; 13; 14; 15; 16]%N.
Definition ex_mk2 : bytes := [2; 2; 3; 4; 5; 6; 7; 8; 9; 10; 11; 12; 13; 14; 15; 16]%N.
Definition ex_k : skey := GcmHkdf ex_mk SHA256 16 44 0.
Definition ex_k2 : skey := GcmHkdf ex_mk2 SHA256 16 44 0.      (* decoy: same parameters, other key material *)
Definition ex_keys : list skey := [ex_k2; ex_k].
Definition ex_salt : bytes := [21; 22; 23; 24; 25; 26; 27; 28; 29; 30; 31; 32; 33; 34; 35; 36]%N.
Definition ex_prefix : bytes := [41; 42; 43; 44; 45; 46; 47]%N.
Definition ex_aad : bytes := [5; 6]%N.
Definition ex_p : bytes := [1; 2; 3; 4; 5; 6]%N.                (* 4 bytes fit into the first segment *)
Definition ex_ct : bytes := key_ciphertext ex_hkdf ex_seal ex_ctr ex_hmac ex_k ex_salt ex_prefix ex_aad ex_p.
Definition ex_sz : list nat := [3; 0; 3; 3; 3; 3].
Definition flip (i : nat) (l : bytes) : bytes := firstn i l ++ [N.lxor (nth i l 0%N) 1] ++ skipn (S i) l.

Definition ex_read (aad' c' : bytes) (sizes : list nat) :=
  key_read ex_hkdf ex_open ex_ctr ex_hmac src read_full ex_k aad' (mkSrc c' None) sizes.
Definition ex_ksread (aad' c' : bytes) (sizes : list nat) :=
  keyset_read ex_hkdf ex_open ex_ctr ex_hmac ex_keys aad' (mkSrc c' None) sizes.

(* ------------------------------------------------------------------ *)
(* deciding the per-instance premises                                  *)
(* ------------------------------------------------------------------ *)
Section Checkers.
  Variable k : skey.
  Variables salt prefix aad p : bytes.
  Local Notation sk := (derive ex_hkdf k salt aad).
  Local Notation ss := (segments (k_cseg k - k_tag k) (k_foff k + hdr_len k) p).
  Local Notation SENC := (seg_enc ex_seal ex_ctr ex_hmac).
  Local Notation SDEC := (seg_dec ex_open ex_ctr ex_hmac).

  Definition written_b (sk' : bytes * bytes) (N c : bytes) : bool :=
    beq (fst sk') (fst sk) && beq (snd sk') (snd sk) &&
    existsb (fun i => beq N (nonce_i k prefix p i) && beq c (SENC k sk N (nth i ss []))) (seq 0 (length ss)).

  Lemma written_b_sound sk' N c : written_b sk' N c = true ->
    written ex_hkdf ex_seal ex_ctr ex_hmac k salt prefix aad p sk' N c.
  Proof.
    unfold written_b. intros H. apply andb_true_iff in H. destruct H as (H & He).
    apply andb_true_iff in H. destruct H as (H1 & H2). apply beq_eq in H1, H2.
    apply existsb_exists in He. destruct He as (i & Hi & Hb). apply in_seq in Hi.
    apply andb_true_iff in Hb. destruct Hb as (B1 & B2). apply beq_eq in B1, B2.
    split; [destruct sk', (derive ex_hkdf k salt aad); cbn in *; congruence|].
    exists i. split; [lia|]. split; assumption.
  Qed.

  (* no triple presented by this run is a forgery *)
  Definition no_forgery_b (c' aad' : bytes) (sizes : list nat) : bool :=
    let sk' := derive ex_hkdf k (salt_field k c') aad' in
    forallb (fun q => match SDEC k sk' (fst q) (snd q) with None => true | Some _ => written_b sk' (fst q) (snd q) end)
            (key_presented ex_hkdf ex_open ex_ctr ex_hmac k aad' (mkSrc c' None) sizes).

  Lemma no_forgery_b_sound c' aad' sizes : no_forgery_b c' aad' sizes = true ->
    forall N c, In (N, c) (key_presented ex_hkdf ex_open ex_ctr ex_hmac k aad' (mkSrc c' None) sizes) ->
      SDEC k (derive ex_hkdf k (salt_field k c') aad') N c <> None ->
      written ex_hkdf ex_seal ex_ctr ex_hmac k salt prefix aad p (derive ex_hkdf k (salt_field k c') aad') N c.
  Proof.
    unfold no_forgery_b. intros H N c Hin Hd. rewrite forallb_forall in H. specialize (H (N, c) Hin). cbn [fst snd] in H.
    destruct (SDEC k _ N c); [apply written_b_sound; exact H|congruence].
  Qed.

  Lemma ex_no_collision c' aad' : ~ hkdf_collision ex_hkdf k salt aad c' aad'.
  Proof. intros (Hne & Heq). apply ex_hkdf_inj in Heq. destruct Heq as (_ & E1 & E2). destruct Hne; congruence. Qed.
End Checkers.

(* the writer's own segments decrypt (from the correctness laws) *)
Lemma ex_own : own_segments_decrypt ex_hkdf ex_seal ex_open ex_ctr ex_hmac ex_k ex_salt ex_prefix ex_aad ex_p.
Proof.
  destruct ex_laws as (L1 & L2 & L3 & L4 & L5).
  intros i _. exact (seg_dec_enc ex_seal ex_open ex_ctr ex_hmac L1 L2 L4 L5 ex_k _ _ _ eq_refl).
Qed.

(* the decoy does not accept the first segment it reads, for each stream below *)
Definition ex_tampered : list (bytes * bytes) :=      (* (associated data, stream) *)
  [ (ex_aad, flip 0 ex_ct); (ex_aad, flip 1 ex_ct); (ex_aad, flip 16 ex_ct); (ex_aad, flip 17 ex_ct);
    (ex_aad, flip 23 ex_ct); (ex_aad, flip 24 ex_ct); (ex_aad, flip 61 ex_ct);
    (ex_aad, firstn 23 ex_ct); (ex_aad, firstn 44 ex_ct); (ex_aad, ex_ct ++ [0%N]);
    ([5; 7]%N, ex_ct); ([], ex_ct) ].

Lemma ex_decoy_rejects a c : In (a, c) ((ex_aad, ex_ct) :: ex_tampered) ->
  forall ki, In ki ex_keys -> ki = ex_k \/ ~ first_accept ex_hkdf ex_open ex_ctr ex_hmac ki a (mkSrc c None).
Proof.
  intros Hin ki [<-|[<-|[]]]; [right|left; reflexivity].
  repeat (destruct Hin as [E|Hin]; [inversion E; subst a c; unfold first_accept; vm_compute; tauto|]).
  destruct Hin.
Qed.

Lemma ex_no_forgery a c : In (a, c) ((ex_aad, ex_ct) :: ex_tampered) ->
  no_forgery_b ex_k ex_salt ex_prefix ex_aad ex_p c a ex_sz = true.
Proof.
  intros Hin.
  repeat (destruct Hin as [E|Hin]; [inversion E; subst a c; vm_compute; reflexivity|]).
  destruct Hin.
Qed.

(* honest and tampered streams, single key and keyset [decoy; k], as computed *)
Example ex_runs :
  length ex_ct = 62 /\ hdr_len ex_k = 24 /\
  ex_read ex_aad ex_ct ex_sz = (ex_p, AtEof) /\
  ex_ksread ex_aad ex_ct ex_sz = (ex_p, AtEof) /\                 (* decoy tried first, bytes replayed *)
  map (fun ac => ex_read (fst ac) (snd ac) ex_sz) ex_tampered =
    [([], Failed); ([], Failed); ([], Failed); ([], Failed); ([], Failed); ([], Failed);
     ([1; 2; 3; 4]%N, Failed);                                     (* last segment altered: segment 0 was delivered *)
     ([], Failed); ([], Failed); ([1; 2; 3; 4]%N, Failed); ([], Failed); ([], Failed)] /\
  map (fun ac => ex_ksread (fst ac) (snd ac) ex_sz) ex_tampered =
  map (fun ac => ex_read (fst ac) (snd ac) ex_sz) ex_tampered.
Proof. vm_compute. repeat split; reflexivity. Qed.

(* ------------------------------------------------------------------ *)
(* the same for an AES-CTR-HMAC key (tag 16 of SHA-256), same primitives *)
(* ------------------------------------------------------------------ *)
Definition ex_kh : skey := CtrHmac ex_mk SHA256 16 SHA256 16 44 0.
Definition ex_cth : bytes := key_ciphertext ex_hkdf ex_seal ex_ctr ex_hmac ex_kh ex_salt ex_prefix ex_aad ex_p.
Definition ex_tampered_h : list (bytes * bytes) :=
  [ (ex_aad, flip 0 ex_cth); (ex_aad, flip 1 ex_cth); (ex_aad, flip 16 ex_cth); (ex_aad, flip 17 ex_cth);
    (ex_aad, flip 23 ex_cth); (ex_aad, flip 24 ex_cth); (ex_aad, flip 28 ex_cth); (ex_aad, flip 43 ex_cth);
    (ex_aad, flip 61 ex_cth);
    (ex_aad, firstn 23 ex_cth); (ex_aad, firstn 44 ex_cth); (ex_aad, ex_cth ++ [0%N]);
    ([5; 7]%N, ex_cth); ([], ex_cth) ].
Definition ex_readh (aad' c' : bytes) (sizes : list nat) :=
  key_read ex_hkdf ex_open ex_ctr ex_hmac src read_full ex_kh aad' (mkSrc c' None) sizes.

Lemma ex_own_h : own_segments_decrypt ex_hkdf ex_seal ex_open ex_ctr ex_hmac ex_kh ex_salt ex_prefix ex_aad ex_p.
Proof.
  destruct ex_laws as (L1 & L2 & L3 & L4 & L5).
  intros i _. exact (seg_dec_enc ex_seal ex_open ex_ctr ex_hmac L1 L2 L4 L5 ex_kh _ _ _ eq_refl).
Qed.

Lemma ex_no_forgery_h a c : In (a, c) ((ex_aad, ex_cth) :: ex_tampered_h) ->
  no_forgery_b ex_kh ex_salt ex_prefix ex_aad ex_p c a ex_sz = true.
Proof.
  intros Hin.
  repeat (destruct Hin as [E|Hin]; [inversion E; subst a c; vm_compute; reflexivity|]).
  destruct Hin.
Qed.

(* no session key of these runs shares only the HMAC half with the writer's *)
Lemma ex_no_partial_h a c : In (a, c) ((ex_aad, ex_cth) :: ex_tampered_h) ->
  let sk' := derive ex_hkdf ex_kh (salt_field ex_kh c) a in
  ~ (snd sk' = snd (derive ex_hkdf ex_kh ex_salt ex_aad) /\ fst sk' <> fst (derive ex_hkdf ex_kh ex_salt ex_aad)).
Proof.
  intros Hin sk' (E1 & E2). apply E2. clear E2. revert E1. unfold sk'. clear sk'.
  repeat (destruct Hin as [E|Hin]; [inversion E; subst a c; vm_compute; intros H; try reflexivity; try discriminate H|]).
  destruct Hin.
Qed.

Lemma ex_no_hmac_forgery_h a c : In (a, c) ((ex_aad, ex_cth) :: ex_tampered_h) ->
  let sk' := derive ex_hkdf ex_kh (salt_field ex_kh c) a in
  ~ exists N c0, In (N, c0) (key_presented ex_hkdf ex_open ex_ctr ex_hmac ex_kh a (mkSrc c None) ex_sz) /\
                 hmac_forgery ex_hkdf ex_ctr ex_hmac ex_mk SHA256 16 SHA256 16 44 0 ex_salt ex_prefix ex_aad ex_p
                              (snd sk') (N ++ firstn (length c0 - 16) c0) (skipn (length c0 - 16) c0).
Proof.
  intros Hin sk' (N & c0 & Hp & Hf).
  destruct (hmac_forgery_is_seg_forgery ex_hkdf ex_seal ex_open ex_ctr ex_hmac ex_mk SHA256 16 SHA256 16 44 0
              ex_salt ex_prefix ex_aad ex_p eq_refl eq_refl (proj2 (proj2 (proj2 (proj2 ex_laws)))) sk' N c0 Hf)
    as ((s & Hd) & Hnw).
  apply Hnw. apply (no_forgery_b_sound ex_kh ex_salt ex_prefix ex_aad ex_p c a ex_sz (ex_no_forgery_h a c Hin) N c0 Hp).
  fold ex_kh in Hd. unfold sk' in Hd. rewrite Hd. discriminate.
Qed.

Example ex_runs_h :
  ex_readh ex_aad ex_cth ex_sz = (ex_p, AtEof) /\
  map (fun ac => ex_readh (fst ac) (snd ac) ex_sz) ex_tampered_h =
    [([], Failed); ([], Failed); ([], Failed); ([], Failed); ([], Failed);
     ([], Failed); ([], Failed); ([], Failed);             (* body, first and last tag byte of segment 0 *)
     ([1; 2; 3; 4]%N, Failed);
     ([], Failed); ([], Failed); ([1; 2; 3; 4]%N, Failed); ([], Failed); ([], Failed)].
Proof. vm_compute. split; reflexivity. Qed.

(* THE FORGERY EVENT IS REAL.  AES-CTR-HMAC with the constant MAC: a segment whose
   body was altered is accepted, wrong bytes are delivered and the stream ends in
   a clean EOF; the altered (nonce, segment) pair is presented, decrypts, was never
   written, and its tag is a valid "HMAC" of a message the writer never authenticated *)
Definition bad_cth : bytes := key_ciphertext ex_hkdf ex_seal ex_ctr bad_hmac ex_kh ex_salt ex_prefix ex_aad ex_p.
Example ex_forgery_event_is_real :
  let c' := flip 24 bad_cth in
  let N0 := nonce_i ex_kh ex_prefix ex_p 0 in
  let c0 := firstn 20 (skipn 24 c') in
  let sk := derive ex_hkdf ex_kh ex_salt ex_aad in
  key_read ex_hkdf ex_open ex_ctr bad_hmac src read_full ex_kh ex_aad (mkSrc c' None) ex_sz =
    ([0; 2; 3; 4; 5; 6]%N, AtEof) /\
  In (N0, c0) (key_presented ex_hkdf ex_open ex_ctr bad_hmac ex_kh ex_aad (mkSrc c' None) ex_sz) /\
  seg_dec ex_open ex_ctr bad_hmac ex_kh sk N0 c0 = Some [0; 2; 3; 4]%N /\
  c0 <> seg_enc ex_seal ex_ctr bad_hmac ex_kh sk N0 [1; 2; 3; 4]%N /\
  skipn 4 c0 = firstn 16 (bad_hmac SHA256 (snd sk) (N0 ++ firstn 4 c0)) /\
  firstn 4 c0 <> ex_ctr (fst sk) N0 [1; 2; 3; 4]%N.
Proof. vm_compute. repeat split; try reflexivity; try discriminate. left. reflexivity. Qed.

(* a source that delivers 1, 2, 3, 1, 2, 3, ... bytes per call and returns io.EOF
   together with the last bytes: same outcome (instance of key_read_short_reads) *)
Example ex_short_reads :
  let sc := mkSched (fun i => 1 + i mod 3) (fun _ => true) in
  (forall i, 0 < sz sc i) /\
  key_read ex_hkdf ex_open ex_ctr ex_hmac ssrc (read_full_total (sread sc)) ex_k ex_aad
           (mkSS 0 (mkSrc ex_ct None)) ex_sz = (ex_p, AtEof).
Proof. split; [intros i; cbn; lia|]. vm_compute. reflexivity. Qed.

(* constructor faults *)
Example ex_constructor_faults :
  fst (new_dec_reader ex_hkdf src read_full ex_k ex_aad (mkSrc (firstn 23 ex_ct) None)) = None /\
  fst (new_dec_reader ex_hkdf src read_full ex_k ex_aad (mkSrc ex_ct (Some 23))) = None /\
  fst (new_dec_reader ex_hkdf src read_full ex_k ex_aad (mkSrc ex_ct (Some 24))) <> None /\
  new_enc_writer ex_hkdf ex_k (ex_salt ++ ex_prefix) ex_aad (mkSink [] (Some 23)) =
    (None, mkSink (firstn 23 ex_ct) (Some 23)) /\
  fst (new_enc_writer ex_hkdf ex_k (ex_salt ++ ex_prefix) ex_aad (mkSink [] (Some 24))) <> None.
Proof. vm_compute. repeat split; discriminate. Qed.

(* why the keyset theorem asks for other key MATERIAL, not another record: the
   record k45 = k with segment size 45 is not k, yet on the honest one-segment
   stream of k it accepts the first segment it reads - the writer's own segment,
   under the writer's session key: no forgery *)
Definition ex_k45 : skey := GcmHkdf ex_mk SHA256 16 45 0.
Definition ex_p1 : bytes := [1; 2; 3]%N.
Definition ex_ct1 : bytes := key_ciphertext ex_hkdf ex_seal ex_ctr ex_hmac ex_k ex_salt ex_prefix ex_aad ex_p1.
Example ex_same_material_record_accepts :
  ex_k45 <> ex_k /\ k_main ex_k45 = k_main ex_k /\
  first_accept ex_hkdf ex_open ex_ctr ex_hmac ex_k45 ex_aad (mkSrc ex_ct1 None) /\
  derive ex_hkdf ex_k45 ex_salt ex_aad = derive ex_hkdf ex_k ex_salt ex_aad /\
  written_b ex_k ex_salt ex_prefix ex_aad ex_p1 (derive ex_hkdf ex_k45 ex_salt ex_aad)
            (nonce_i ex_k ex_prefix ex_p1 0) (skipn 24 ex_ct1) = true /\
  key_read ex_hkdf ex_open ex_ctr ex_hmac src read_full ex_k45 ex_aad (mkSrc ex_ct1 None) ex_sz = (ex_p1, AtEof).
Proof.
  split; [discriminate|]. split; [reflexivity|]. split; [unfold first_accept; vm_compute; discriminate|].
  vm_compute. repeat split; reflexivity.
Qed.
