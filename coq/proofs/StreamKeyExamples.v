(* C07: the laws used by proofs/StreamKeyProofs.v are inhabited (an injective
   "HKDF" and an ideal segment AEAD that accepts exactly what was sealed), and
   concrete honest / tampered streams compute as the theorems say. *)
From Coq Require Import List NArith Bool Arith Lia.
From Tink Require Import Bytes Stream StreamProofs StreamIO StreamIOProofs StreamKeyProofs.
Import ListNotations.
Open Scope nat_scope.

(* an injective key derivation: (main key, salt, info) can be read off the output *)
Definition ex_hkdf (h : hash) (mk salt info : bytes) (len : nat) : bytes :=
  N.of_nat (length mk) :: mk ++ N.of_nat (length salt) :: salt ++ info.

Lemma ex_hkdf_inj h mk s a l h' mk' s' a' l' :
  ex_hkdf h mk s a l = ex_hkdf h' mk' s' a' l' -> mk = mk' /\ s = s' /\ a = a'.
Proof.
  unfold ex_hkdf. intros H. inversion H as [[H1 H2]]. apply Nat2N.inj in H1.
  apply (app_inv_length _ _ _ _ H1) in H2. destruct H2 as (-> & H2).
  inversion H2 as [[H3 H4]]. apply Nat2N.inj in H3.
  apply (app_inv_length _ _ _ _ H3) in H4. destruct H4 as (-> & ->). auto.
Qed.

(* "AES-GCM" with a 16-byte tag; the opener is ideal: under the one key K0 it
   accepts exactly the sealed segments of the logged stream, under any other
   key nothing *)
Definition ex_seal (K N s : bytes) : bytes := toy_encs (K ++ N) s ++ zeros 12.
Definition ex_open (K0 pre : bytes) (ss : list bytes) (K N c : bytes) : option bytes :=
  if beq K K0 then ideal_decs (ex_seal K0) 12 pre ss N c else None.
Definition ex_ctr (K iv x : bytes) : bytes := x.
Definition ex_hmac (h : hash) (K m : bytes) : bytes := [].

Definition ex_mk : bytes := [1; 2; 3; 4; 5; 6; 7; 8; 9; 10; 11; 12; 13; 14; 15; 16]%N.
Definition ex_mk2 : bytes := [2; 2; 3; 4; 5; 6; 7; 8; 9; 10; 11; 12; 13; 14; 15; 16]%N.
Definition ex_k : skey := GcmHkdf ex_mk SHA256 16 44 0.
Definition ex_k2 : skey := GcmHkdf ex_mk2 SHA256 16 44 0.      (* decoy: same parameters, other key material *)
Definition ex_salt : bytes := [21; 22; 23; 24; 25; 26; 27; 28; 29; 30; 31; 32; 33; 34; 35; 36]%N.
Definition ex_prefix : bytes := [41; 42; 43; 44; 45; 46; 47]%N.
Definition ex_aad : bytes := [5; 6]%N.
Definition ex_p : bytes := [1; 2; 3; 4; 5; 6]%N.                (* 4 bytes fit into the first segment *)
Definition ex_K0 : bytes := fst (derive ex_hkdf ex_k ex_salt ex_aad).
Definition ex_ss : list bytes := segments 28 24 ex_p.
Definition ex_gopen := ex_open ex_K0 ex_prefix ex_ss.

Definition ex_ct : bytes := key_ciphertext ex_hkdf ex_seal ex_ctr ex_hmac ex_k ex_salt ex_prefix ex_aad ex_p.
Definition flip (i : nat) (l : bytes) : bytes := firstn i l ++ [N.lxor (nth i l 0%N) 1] ++ skipn (S i) l.
Definition ex_read (aad' c' : bytes) (sizes : list nat) :=
  key_read ex_hkdf ex_gopen ex_ctr ex_hmac src read_full ex_k aad' (mkSrc c' None) sizes.
Definition ex_ksread (aad' c' : bytes) (sizes : list nat) :=
  keyset_read ex_hkdf ex_gopen ex_ctr ex_hmac [ex_k2; ex_k] aad' (mkSrc c' None) sizes.

(* the three laws of key_manipulation_detected hold of this instance, for all inputs *)
Lemma ex_laws :
  key_valid ex_k = true /\ length ex_salt = k_dk ex_k /\ length ex_prefix = nonce_prefix_size /\
  seg_auth_law ex_hkdf ex_seal ex_gopen ex_ctr ex_hmac ex_k ex_salt ex_prefix ex_aad ex_p /\
  (forall salt' aad', other_key_law ex_hkdf ex_gopen ex_ctr ex_hmac ex_k ex_salt ex_aad salt' aad') /\
  (forall salt' aad', hkdf_no_collision ex_hkdf ex_k ex_salt ex_aad salt' aad').
Proof.
  split; [reflexivity|]. split; [reflexivity|]. split; [reflexivity|]. split; [|split].
  - intros N c s. cbn [seg_dec ex_k seg_enc]. destruct (length c <? 16); [discriminate|].
    unfold ex_gopen, ex_open. fold ex_K0. rewrite beq_refl. intros H.
    apply ideal_decs_auth in H. exact H.
  - intros salt' aad' Hne N c. cbn [seg_dec ex_k]. destruct (length c <? 16); [reflexivity|].
    unfold ex_gopen, ex_open. destruct (beq _ ex_K0) eqn:E; [|reflexivity].
    exfalso. apply Hne. apply beq_eq in E. unfold ex_K0 in E. cbn [derive ex_k fst] in *. rewrite E. reflexivity.
  - intros salt' aad' Hne Heq. cbn [k_hash k_main k_dlen ex_k] in Heq.
    apply ex_hkdf_inj in Heq. destruct Heq as (_ & -> & ->). destruct Hne; congruence.
Qed.

(* LAW 4 for the keyset [decoy; k] *)
Lemma ex_keys_law c' aad' :
  other_keys_law ex_hkdf ex_gopen ex_ctr ex_hmac ex_k [ex_k2; ex_k] c' aad'.
Proof.
  intros ki [<-|[<-|[]]]; [right|left; reflexivity].
  intros N c. cbn [seg_dec ex_k2]. destruct (length c <? 16); [reflexivity|].
  unfold ex_gopen, ex_open. destruct (beq _ ex_K0) eqn:E; [|reflexivity].
  exfalso. apply beq_eq in E. unfold ex_K0 in E. cbn [derive ex_k ex_k2 fst] in E.
  apply ex_hkdf_inj in E. destruct E as (E & _). discriminate.
Qed.

(* honest and tampered streams, single key and keyset [decoy; k] *)
Example ex_runs :
  length ex_ct = 62 /\ hdr_len ex_k = 24 /\ length ex_ss = 2 /\
  let sz := [3; 0; 3; 3; 3; 3] in
  ex_read ex_aad ex_ct sz = (ex_p, AtEof) /\
  ex_read ex_aad (flip 0 ex_ct) sz = ([], Failed) /\              (* header length byte *)
  ex_read ex_aad (flip 1 ex_ct) sz = ([], Failed) /\              (* first salt byte *)
  ex_read ex_aad (flip 16 ex_ct) sz = ([], Failed) /\             (* last salt byte *)
  ex_read ex_aad (flip 17 ex_ct) sz = ([], Failed) /\             (* first nonce-prefix byte *)
  ex_read ex_aad (flip 23 ex_ct) sz = ([], Failed) /\             (* last nonce-prefix byte *)
  ex_read ex_aad (flip 24 ex_ct) sz = ([], Failed) /\             (* first segment *)
  ex_read ex_aad (flip 61 ex_ct) sz = ([1; 2; 3; 4]%N, Failed) /\ (* last segment: first one was delivered *)
  ex_read ex_aad (firstn 23 ex_ct) sz = ([], Failed) /\           (* cut inside the header: constructor error *)
  ex_read ex_aad (firstn 44 ex_ct) sz = ([], Failed) /\            (* last segment dropped: segment 0 is not a last segment *)
  ex_read ex_aad (ex_ct ++ [0%N]) sz = ([1; 2; 3; 4]%N, Failed) /\  (* a byte appended *)
  ex_read [5; 7]%N ex_ct sz = ([], Failed) /\                     (* other associated data *)
  ex_read [] ex_ct sz = ([], Failed) /\
  ex_ksread ex_aad ex_ct sz = (ex_p, AtEof) /\                    (* keyset: decoy is tried first, bytes replayed *)
  ex_ksread ex_aad (flip 1 ex_ct) sz = ([], Failed) /\
  ex_ksread ex_aad (flip 17 ex_ct) sz = ([], Failed) /\
  ex_ksread ex_aad (flip 0 ex_ct) sz = ([], Failed) /\
  ex_ksread [5; 7]%N ex_ct sz = ([], Failed) /\
  ex_ksread ex_aad (firstn 44 ex_ct) sz = ([], Failed) /\
  ex_ksread ex_aad (flip 61 ex_ct) sz = ([1; 2; 3; 4]%N, Failed).
Proof. vm_compute. repeat split; reflexivity. Qed.

(* a source that delivers 1, 2, 3, 1, 2, 3, ... bytes per call and returns io.EOF
   together with the last bytes: same outcome (instance of key_read_short_reads) *)
Example ex_short_reads :
  let sc := mkSched (fun i => 1 + i mod 3) (fun _ => true) in
  (forall i, 0 < sz sc i) /\
  key_read ex_hkdf ex_gopen ex_ctr ex_hmac ssrc (read_full_total (sread sc)) ex_k ex_aad
           (mkSS 0 (mkSrc ex_ct None)) [3; 0; 3; 3; 3; 3] = (ex_p, AtEof).
Proof. split; [intros i; cbn; lia|]. vm_compute. reflexivity. Qed.

(* constructor faults *)
Example ex_constructor_faults :
  fst (new_dec_reader ex_hkdf src read_full ex_k ex_aad (mkSrc (firstn 23 ex_ct) None)) = None /\
  fst (new_dec_reader ex_hkdf src read_full ex_k ex_aad (mkSrc ex_ct (Some 23))) = None /\
  fst (new_dec_reader ex_hkdf src read_full ex_k ex_aad (mkSrc ex_ct (Some 24))) <> None /\
  new_enc_writer ex_hkdf ex_k (ex_salt ++ ex_prefix) ex_aad (mkSink [] (Some 23)) =
    (None, mkSink (firstn 23 ex_ct) (Some 23)) /\
  fst (new_enc_writer ex_hkdf ex_k (ex_salt ++ ex_prefix) ex_aad (mkSink [] (Some 24))) <> None.
Proof. vm_compute. repeat split; discriminate. Qed.

(* ------------------------------------------------------------------ *)
(* an instance for keyset_read_honest: a segment cipher that is correct  *)
(* for ALL keys, nonces and segments, and a decoy key of the same        *)
(* parameters that rejects the beginning of the honest stream            *)
(* ------------------------------------------------------------------ *)
Definition hn_open (K N c : bytes) : option bytes :=
  if length c <? 16 then None else
  if beq (skipn (length c - 12) c) (zeros 12) then toy_decs (K ++ N) (firstn (length c - 12) c) else None.
Definition hn_hmac (h : hash) (K m : bytes) : bytes := zeros (digest_size h).

Lemma hn_laws :
  (forall k n p, length (ex_seal k n p) = length p + 16) /\
  (forall k n p, hn_open k n (ex_seal k n p) = Some p) /\
  (forall k iv x, length (ex_ctr k iv x) = length x) /\
  (forall k iv x, ex_ctr k iv (ex_ctr k iv x) = x) /\
  (forall h k m, length (hn_hmac h k m) = digest_size h).
Proof.
  assert (L : forall k n p, length (ex_seal k n p) = length p + 16).
  { intros. unfold ex_seal. rewrite app_length, toy_len, zeros_length. lia. }
  split; [exact L|]. split; [|repeat split; intros; apply zeros_length].
  intros k n p. unfold hn_open. rewrite L. destruct (Nat.ltb_spec (length p + 16) 16); [lia|].
  unfold ex_seal.
  assert (E : length p + 16 - 12 = length (toy_encs (k ++ n) p)) by (rewrite toy_len; lia).
  rewrite E, skipn_app, Nat.sub_diag, skipn_all, skipn_O, app_nil_l, beq_refl.
  rewrite firstn_app, Nat.sub_diag, firstn_all, firstn_O, app_nil_r. apply toy_dec_enc.
Qed.

Definition hn_ct : bytes := key_ciphertext ex_hkdf ex_seal ex_ctr hn_hmac ex_k ex_salt ex_prefix ex_aad ex_p.

(* law 4 at the honest stream, by enumeration of the prefixes of what follows the header *)
Definition prefixes_rejected (ki : skey) (c' aad' : bytes) : bool :=
  let rest := skipn (hdr_len ki) c' in
  forallb (fun last =>
    forallb (fun i =>
      match seg_dec hn_open ex_ctr hn_hmac ki (derive ex_hkdf ki (firstn (k_dk ki) (skipn 1 c')) aad')
                    (nonce_of (k_nonce_size ki) (firstn nonce_prefix_size (skipn (1 + k_dk ki) c')) 0%N last)
                    (firstn i rest) with
      | None => true | Some _ => false end) (seq 0 (S (length rest)))) [true; false].

Lemma prefixes_rejected_sound ki c' aad' : prefixes_rejected ki c' aad' = true ->
  forall last c, (exists b, skipn (hdr_len ki) c' = c ++ b) ->
    seg_dec hn_open ex_ctr hn_hmac ki (derive ex_hkdf ki (firstn (k_dk ki) (skipn 1 c')) aad')
            (nonce_of (k_nonce_size ki) (firstn nonce_prefix_size (skipn (1 + k_dk ki) c')) 0%N last) c = None.
Proof.
  unfold prefixes_rejected. intros H last c (b & Hb).
  rewrite forallb_forall in H.
  assert (Hl : In last [true; false]) by (destruct last; cbn; auto).
  specialize (H last Hl). rewrite forallb_forall in H.
  specialize (H (length c)). rewrite Hb in H.
  rewrite firstn_app, Nat.sub_diag, firstn_all, firstn_O, app_nil_r in H.
  assert (Hi : In (length c) (seq 0 (S (length (c ++ b))))).
  { apply in_seq. rewrite app_length. lia. }
  specialize (H Hi). destruct (seg_dec _ _ _ _ _ _ _); [discriminate|reflexivity].
Qed.

Lemma hn_keys_law : other_keys_law ex_hkdf hn_open ex_ctr hn_hmac ex_k [ex_k2; ex_k] hn_ct ex_aad.
Proof.
  intros ki [<-|[<-|[]]]; [right|left; reflexivity].
  apply prefixes_rejected_sound. vm_compute. reflexivity.
Qed.

(* the keyset [decoy; k] reads the honest stream: instance of keyset_read_honest, and computed *)
Example hn_keyset_honest :
  keyset_read ex_hkdf hn_open ex_ctr hn_hmac [ex_k2; ex_k] ex_aad (mkSrc hn_ct None) [3; 0; 3; 3; 3; 3] = (ex_p, AtEof).
Proof. vm_compute. reflexivity. Qed.
