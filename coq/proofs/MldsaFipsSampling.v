(* FIPS 204 Algorithms 29-34 (SampleInBall, RejNTTPoly, RejBoundedPoly,
   ExpandA, ExpandS, ExpandMask) of model/MldsaFips.v equal the sampling
   functions of the implementation model (model/MldsaPoly.v, model/Mldsa.v),
   for every XOF with the laws of an extendable-output function (it returns
   the requested number of bytes, each below 256, and a shorter request is a
   prefix of a longer one), when the bounds on the number of Squeeze calls
   are the amounts of output the implementation model requests in one go:
   672 three-byte squeezes (12 SHAKE128 blocks) for RejNTTPoly, 1536
   one-byte squeezes for RejBoundedPoly, 1024 for SampleInBall (after the 8
   sign bytes).  The standard's signed coefficients (s1, s2, y, c) reduce
   modulo q to the canonical representatives of the implementation model. *)
From Coq Require Import List ZArith NArith Bool Arith Lia ZifyN ZifyNat ZifyBool.
From Tink Require Import Bytes Wrap MldsaScalar MldsaScalarProofs MldsaScalarProofs2 MldsaTableProofs
  MldsaKernels MldsaKernelsProofs MldsaPoly Mldsa MldsaPackProofs MldsaHintProofs MldsaNttProofs
  MldsaAlgebraProofs MldsaProofs MldsaConvProofs MldsaNormProofs MldsaSampleProofs MldsaSignVerifyProofs
  MldsaKeyCodecProofs MldsaVerifyIffProofs MldsaFips MldsaFipsBasics.
Import ListNotations.
Local Open Scope Z_scope.

Record xof_laws (X : bytes -> nat -> bytes) : Prop := mk_xof_laws {
  xl_len : forall m n, length (X m n) = n;
  xl_wf : forall m n, wfb (X m n);
  xl_prefix : forall m (a b : nat), firstn a (X m (a + b)%nat) = X m a }.

Definition modq (x : Z) : Z := x mod q.

(* the FIPS parameter record of a parameter record of the implementation model *)
Definition fips_of (P : params) : FIPS.params :=
  FIPS.mkParams (p_tau P) (p_lambda P) (gamma1 P) (p_gamma2 P) (p_k P) (p_l P) (p_eta P) (beta P) (p_omega P).

(* Table 1 of FIPS 204, literally, is what the implementation model computes *)
Lemma fips_of_sets :
  fips_of MLDSA44 = FIPS.ML_DSA_44 /\ fips_of MLDSA65 = FIPS.ML_DSA_65 /\ fips_of MLDSA87 = FIPS.ML_DSA_87.
Proof. repeat split; reflexivity. Qed.

(* the bit widths of the standard, for the three parameter sets *)
Record ffacts (P : params) : Prop := mk_ffacts {
  ff_eta : FIPS.bitlen (p_eta P + p_eta P) = p_etaBits P /\ (0 < p_etaBits P)%nat /\
           2 ^ Z.of_nat (p_etaBits P) <= q /\ 0 <= p_eta P < q /\ 2 * p_eta P < q;
  ff_z : FIPS.bitlen (gamma1 P - 1 + gamma1 P) = zBits P /\ (1 + FIPS.bitlen (gamma1 P - 1))%nat = zBits P;
  ff_w1 : FIPS.bitlen ((FIPS.q - 1) / (2 * p_gamma2 P) - 1) = p_w1Bits P;
  ff_kl : (p_l P + p_k P <= 255)%nat;
  ff_lam : ctLen P = (p_lambda P / 4)%nat }.

Lemma params_ok_ffacts P : params_ok P -> ffacts P.
Proof.
  intros [-> | [-> | ->]]; (split; [repeat split; first [reflexivity | (cbn; lia) | (vm_compute; congruence)] | split; reflexivity | reflexivity | cbn; lia | reflexivity]).
Qed.

(* ------------------------------------------------------------------ *)
(* Squeeze reads the next bytes of one long output                      *)
(* ------------------------------------------------------------------ *)
Lemma squeeze_stream X (HX : xof_laws X) m pos len L : (pos + len <= L)%nat ->
  FIPS.Squeeze X (m, pos) len = ((m, (pos + len)%nat), firstn len (skipn pos (X m L))).
Proof.
  intros Hle. unfold FIPS.Squeeze. cbn [fst snd]. f_equal.
  rewrite sl_firstn_skipn.
  replace L with ((pos + len) + (L - (pos + len)))%nat by lia.
  rewrite <- (xl_prefix X HX m (pos + len) (L - (pos + len))) at 1.
  rewrite skipn_firstn_comm. replace (pos + len - pos)%nat with len by lia.
  rewrite firstn_firstn, Nat.min_id. reflexivity.
Qed.

Lemma skipn_cons_nth {A} (S : list A) pos d : (pos < length S)%nat ->
  skipn pos S = nth pos S d :: skipn (Datatypes.S pos) S.
Proof.
  revert pos. induction S as [|x S IH]; intros [|pos] H; cbn [length] in H; try lia; [reflexivity|].
  cbn [skipn nth]. apply IH. lia.
Qed.

Lemma for_opt_none {St} (body : nat -> St -> option St) cnt : forall lo,
  FIPS.for_ lo cnt (fun i st => FIPS.obind st (body i)) None = None.
Proof. induction cnt as [|cnt IH]; intros lo; cbn [FIPS.for_ FIPS.obind]; [reflexivity | apply IH]. Qed.

(* ------------------------------------------------------------------ *)
(* Algorithm 30                                                         *)
(* ------------------------------------------------------------------ *)
Section RejNTT.
  Variable G : bytes -> nat -> bytes.
  Hypothesis HG : xof_laws G.
  Variable m : bytes.
  Variable L : nat.
  Let S := G m L.

  Lemma RejNTT_loop_unfold n ctx a : FIPS.RejNTTPoly_loop G n ctx a =
    if Nat.ltb (length a) 256 then
      match n with
      | O => None
      | Datatypes.S n' =>
          let '(ctx, s) := FIPS.Squeeze G ctx 3 in
          match FIPS.CoeffFromThreeBytes (Z.of_N (nth 0 s 0%N)) (Z.of_N (nth 1 s 0%N)) (Z.of_N (nth 2 s 0%N)) with
          | Some c => FIPS.RejNTTPoly_loop G n' ctx (a ++ [c])
          | None => FIPS.RejNTTPoly_loop G n' ctx a
          end
      end
    else Some a.
  Proof. destruct n; reflexivity. Qed.

  Lemma RejNTT_loop_eq : forall n pos acc, (pos + 3 * n = L)%nat -> (length acc <= 256)%nat ->
    rejectNTT_stream (256 - length acc) (skipn pos S) acc = FIPS.RejNTTPoly_loop G n (m, pos) (rev acc).
  Proof.
    assert (LS : length S = L) by apply (xl_len G HG).
    assert (WS : wfb S) by apply (xl_wf G HG).
    induction n as [|n IH]; intros pos acc Hp Ha; rewrite RejNTT_loop_unfold, rev_length.
    - destruct (Nat.ltb (length acc) 256) eqn:E.
      + apply Nat.ltb_lt in E. rewrite skipn_all2 by lia.
        destruct (256 - length acc)%nat eqn:E2; [lia | reflexivity].
      + apply Nat.ltb_ge in E. replace (256 - length acc)%nat with O by lia. destruct (skipn pos S); reflexivity.
    - destruct (Nat.ltb (length acc) 256) eqn:E.
      2:{ apply Nat.ltb_ge in E. replace (256 - length acc)%nat with O by lia. destruct (skipn pos S); reflexivity. }
      apply Nat.ltb_lt in E.
      destruct (256 - length acc)%nat as [|need'] eqn:E2; [lia|].
      rewrite (squeeze_stream G HG m pos 3 L) by lia. fold S.
      rewrite (skipn_cons_nth S pos 0%N), (skipn_cons_nth S (Datatypes.S pos) 0%N),
        (skipn_cons_nth S (Datatypes.S (Datatypes.S pos)) 0%N) by lia.
      set (b0 := nth pos S 0%N). set (b1 := nth (Datatypes.S pos) S 0%N). set (b2 := nth (Datatypes.S (Datatypes.S pos)) S 0%N).
      cbn [firstn nth rejectNTT_stream].
      assert (W : forall i, (i < L)%nat -> (nth i S 0%N < 256)%N).
      { intros i Hi. unfold wfb in WS. rewrite Forall_nth in WS. apply WS. lia. }
      rewrite (CoeffFromThreeBytes_eq b0 b1 b2) by (apply W; lia). cbv zeta.
      set (c := Z.lor (Z.lor (Z.of_N b0) (Z.shiftl (Z.of_N b1) 8)) (Z.shiftl (Z.land (Z.of_N b2) 127) 16)).
      replace (Datatypes.S (Datatypes.S (Datatypes.S pos))) with (pos + 3)%nat by lia.
      destruct (c <? mldsa_q).
      + replace need' with (256 - length (c :: acc))%nat by (cbn [length]; lia).
        rewrite IH by (cbn [length]; lia). reflexivity.
      + replace (Datatypes.S need') with (256 - length acc)%nat by lia.
        rewrite IH by lia. reflexivity.
  Qed.
End RejNTT.

Theorem RejNTTPoly_eq G (HG : xof_laws G) rho :
  rejectNTTPoly G rho = FIPS.RejNTTPoly G 672 rho.
Proof.
  unfold rejectNTTPoly, FIPS.RejNTTPoly, FIPS.Absorb, FIPS.Init. cbn [fst snd app].
  change (rejectNTT_blocks * 168)%nat with 2016%nat.
  exact (RejNTT_loop_eq G HG rho 2016 672 0 [] eq_refl ltac:(cbn; lia)).
Qed.

(* ------------------------------------------------------------------ *)
(* Algorithm 31                                                         *)
(* ------------------------------------------------------------------ *)
Section RejBounded.
  Variable H : bytes -> nat -> bytes.
  Hypothesis HH : xof_laws H.
  Variable eta : Z.
  Variable m : bytes.
  Variable L : nat.
  Let S := H m L.

  Lemma RejBounded_loop_unfold P n ctx a : FIPS.eta P = eta -> FIPS.RejBoundedPoly_loop H P n ctx a =
    if Nat.ltb (length a) 256 then
      match n with
      | O => None
      | Datatypes.S n' =>
          let '(ctx, s) := FIPS.Squeeze H ctx 1 in
          let z := Z.of_N (nth 0 s 0%N) in
          let z0 := FIPS.CoeffFromHalfByte eta (z mod 16) in
          let z1 := FIPS.CoeffFromHalfByte eta (z / 16) in
          let a := match z0 with Some c => a ++ [c] | None => a end in
          let a := match z1 with
                   | Some c => if Nat.ltb (length a) 256 then a ++ [c] else a
                   | None => a
                   end in
          FIPS.RejBoundedPoly_loop H P n' ctx a
      end
    else Some a.
  Proof. intros <-. destruct n; reflexivity. Qed.

  Lemma RejBounded_loop_eq P : FIPS.eta P = eta -> forall n pos acc a, (pos + n = L)%nat ->
    (length a <= 256)%nat -> acc = rev (map modq a) ->
    rejectBounded_stream eta (skipn pos S) (256 - length a) acc =
    option_map (map modq) (FIPS.RejBoundedPoly_loop H P n (m, pos) a).
  Proof.
    intros HE.
    assert (LS : length S = L) by apply (xl_len H HH).
    assert (WS : wfb S) by apply (xl_wf H HH).
    assert (REV : forall a c, rev (map modq (a ++ [c])) = c mod q :: rev (map modq a)).
    { intros a c. rewrite map_app, rev_app_distr. reflexivity. }
    induction n as [|n IH]; intros pos acc a Hp Ha ->; rewrite (RejBounded_loop_unfold P _ _ _ HE).
    - destruct (Nat.ltb (length a) 256) eqn:E.
      + apply Nat.ltb_lt in E. rewrite skipn_all2 by lia.
        destruct (256 - length a)%nat eqn:E2; [lia | reflexivity].
      + apply Nat.ltb_ge in E. replace (256 - length a)%nat with O by lia.
        destruct (skipn pos S); cbn [rejectBounded_stream option_map]; rewrite rev_involutive; reflexivity.
    - destruct (Nat.ltb (length a) 256) eqn:E.
      2:{ apply Nat.ltb_ge in E. replace (256 - length a)%nat with O by lia.
          destruct (skipn pos S); cbn [rejectBounded_stream option_map]; rewrite rev_involutive; reflexivity. }
      apply Nat.ltb_lt in E.
      destruct (256 - length a)%nat as [|need'] eqn:E2; [lia|].
      rewrite (squeeze_stream H HH m pos 1 L) by lia. fold S.
      rewrite (skipn_cons_nth S pos 0%N) by lia. set (b := nth pos S 0%N).
      cbn [firstn nth rejectBounded_stream]. cbv zeta.
      assert (Wb : (b < 256)%N).
      { unfold b. unfold wfb in WS. rewrite Forall_nth in WS. apply WS. lia. }
      set (z := Z.of_N b). assert (Rz : 0 <= z < 256) by (unfold z; lia).
      replace (Z.land z 15) with (z mod 16) by (change 15 with (Z.ones 4); rewrite Z.land_ones by lia; reflexivity).
      replace (Z.shiftr z 4) with (z / 16) by (rewrite Z.shiftr_div_pow2 by lia; reflexivity).
      assert (R0 : 0 <= z mod 16 < 16) by (apply Z.mod_pos_bound; lia).
      assert (R1 : 0 <= z / 16 < 16) by (split; [apply Z.div_pos; lia | apply Z.div_lt_upper_bound; lia]).
      destruct (CoeffFromHalfByte_eq eta (z mod 16) R0) as [C0 _].
      destruct (CoeffFromHalfByte_eq eta (z / 16) R1) as [C1 _].
      rewrite C0, C1. replace (Datatypes.S pos) with (pos + 1)%nat by lia.
      destruct (FIPS.CoeffFromHalfByte eta (z mod 16)) as [c0|]; cbn [option_map].
      + destruct need' as [|need''].
        * (* the 256th coefficient: the next round of the standard's loop exits *)
          assert (L256 : length (a ++ [c0]) = 256%nat) by (rewrite app_length; cbn [length]; lia).
          replace (match FIPS.CoeffFromHalfByte eta (z / 16) with
                   | Some c => if Nat.ltb (length (a ++ [c0])) 256 then (a ++ [c0]) ++ [c] else a ++ [c0]
                   | None => a ++ [c0] end) with (a ++ [c0])
            by (destruct (FIPS.CoeffFromHalfByte eta (z / 16)); [rewrite L256; reflexivity | reflexivity]).
          rewrite (RejBounded_loop_unfold P _ _ _ HE), L256. cbn [Nat.ltb Nat.leb option_map].
          rewrite <- REV, rev_involutive. reflexivity.
        * destruct (FIPS.CoeffFromHalfByte eta (z / 16)) as [c1|]; cbn [option_map].
          -- replace (Nat.ltb (length (a ++ [c0])) 256) with true
               by (symmetry; apply Nat.ltb_lt; rewrite app_length; cbn [length]; lia).
             replace need'' with (256 - length ((a ++ [c0]) ++ [c1]))%nat by (rewrite !app_length; cbn [length]; lia).
             apply IH; [lia | rewrite !app_length; cbn [length]; lia | rewrite !REV; reflexivity].
          -- replace (Datatypes.S need'') with (256 - length (a ++ [c0]))%nat by (rewrite !app_length; cbn [length]; lia).
             apply IH; [lia | rewrite !app_length; cbn [length]; lia | rewrite !REV; reflexivity].
      + destruct (FIPS.CoeffFromHalfByte eta (z / 16)) as [c1|]; cbn [option_map].
        * replace (Nat.ltb (length a) 256) with true by (symmetry; apply Nat.ltb_lt; lia).
          replace need' with (256 - length (a ++ [c1]))%nat by (rewrite !app_length; cbn [length]; lia).
          apply IH; [lia | rewrite !app_length; cbn [length]; lia | rewrite !REV; reflexivity].
        * replace (Datatypes.S need') with (256 - length a)%nat by lia.
          apply IH; [lia | lia | reflexivity].
  Qed.
End RejBounded.

Theorem RejBoundedPoly_eq H (HH : xof_laws H) P rho :
  rejectBoundedPoly H (p_eta P) rho =
  option_map (map modq) (FIPS.RejBoundedPoly H (fips_of P) 1536 rho).
Proof.
  unfold rejectBoundedPoly, FIPS.RejBoundedPoly, FIPS.Absorb, FIPS.Init. cbn [fst snd app].
  change rejectBounded_bytes with 1536%nat.
  exact (RejBounded_loop_eq H HH (p_eta P) rho 1536 (fips_of P) eq_refl 1536 0 [] [] eq_refl ltac:(cbn; lia) eq_refl).
Qed.

(* the standard's coefficients are in [-eta, eta] *)
Lemma CoeffFromHalfByte_range eta b c : 0 <= b -> FIPS.CoeffFromHalfByte eta b = Some c -> - eta <= c <= eta.
Proof.
  intros Hb Hc. unfold FIPS.CoeffFromHalfByte in Hc.
  destruct (eta =? 2) eqn:E2; cbn [andb] in Hc.
  - apply Z.eqb_eq in E2. destruct (b <? 15) eqn:Eb.
    + assert (Ec : 2 - b mod 5 = c) by congruence. clear Hc. pose proof (Z.mod_pos_bound b 5 ltac:(lia)). lia.
    + destruct (eta =? 4) eqn:E4; [apply Z.eqb_eq in E4; lia | discriminate].
  - destruct (eta =? 4) eqn:E4; cbn [andb] in Hc; [apply Z.eqb_eq in E4 | discriminate].
    destruct (b <? 9) eqn:Eb; [|discriminate]. apply Z.ltb_lt in Eb.
    assert (Ec : 4 - b = c) by congruence. clear Hc. lia.
Qed.

Lemma RejBounded_loop_range H P : forall n ctx a p,
  Forall (fun c => - FIPS.eta P <= c <= FIPS.eta P) a ->
  FIPS.RejBoundedPoly_loop H P n ctx a = Some p ->
  Forall (fun c => - FIPS.eta P <= c <= FIPS.eta P) p.
Proof.
  induction n as [|n IH]; intros ctx a p Fa Hp; rewrite (RejBounded_loop_unfold H (FIPS.eta P) P _ _ _ eq_refl) in Hp.
  - destruct (Nat.ltb (length a) 256); [discriminate|]. inversion Hp; subst. exact Fa.
  - destruct (Nat.ltb (length a) 256); [|inversion Hp; subst; exact Fa].
    destruct (FIPS.Squeeze H ctx 1) as [ctx' s]. cbv zeta in Hp.
    set (z := Z.of_N (nth 0 s 0%N)) in *. assert (Rz : 0 <= z) by (unfold z; lia).
    assert (R0 : 0 <= z mod 16) by (apply Z.mod_pos_bound; lia).
    assert (R1 : 0 <= z / 16) by (apply Z.div_pos; lia).
    apply IH in Hp; [exact Hp|].
    destruct (FIPS.CoeffFromHalfByte (FIPS.eta P) (z mod 16)) as [c0|] eqn:C0;
      destruct (FIPS.CoeffFromHalfByte (FIPS.eta P) (z / 16)) as [c1|] eqn:C1;
      repeat match goal with |- context [Nat.ltb ?x 256] => destruct (Nat.ltb x 256) end;
      repeat (apply Forall_app; split); auto;
      (constructor; [eapply CoeffFromHalfByte_range; [|eassumption]; assumption | constructor]).
Qed.

Theorem RejBoundedPoly_range H P b rho p : FIPS.RejBoundedPoly H P b rho = Some p ->
  Forall (fun c => - FIPS.eta P <= c <= FIPS.eta P) p.
Proof. apply RejBounded_loop_range. constructor. Qed.

(* ------------------------------------------------------------------ *)
(* Algorithm 29                                                         *)
(* ------------------------------------------------------------------ *)
Lemma nth_bits_of n : forall x t, (t < n)%nat -> nth t (bits_of n x) false = Z.testbit x (Z.of_nat t).
Proof.
  induction n as [|n IH]; intros x [|t] Ht; try lia; cbn [bits_of nth].
  - symmetry. apply Z.bit0_odd.
  - rewrite IH by lia. rewrite Z.div2_spec, Z.shiftr_spec by lia. f_equal. lia.
Qed.

Lemma nth_bits_le_val (s : bytes) : wfb s -> forall t,
  nth t (flat_map bits_of_byte s) false = Z.testbit (Z.of_N (le_val s)) (Z.of_nat t).
Proof.
  induction 1 as [|b s Hb Ws IH]; intros t.
  - cbn. destruct t; rewrite Z.bits_0; reflexivity.
  - cbn [flat_map le_val].
    set (B := Z.of_N b). set (V := Z.of_N (le_val s)).
    assert (RB : 0 <= B < 2 ^ 8) by (unfold B; change (2 ^ 8) with 256; lia).
    assert (RV : 0 <= V) by (unfold V; lia).
    replace (Z.of_N (b + 256 * le_val s)) with (V * 2 ^ 8 + B) by (unfold B, V; change (2 ^ 8) with 256; lia).
    rewrite <- (lor_disjoint_add V B 8) by lia. rewrite Z.lor_spec.
    destruct (Nat.lt_ge_cases t 8) as [Ht | Ht].
    + rewrite app_nth1 by (unfold bits_of_byte; rewrite bits_of_length; exact Ht).
      unfold bits_of_byte. rewrite nth_bits_of by exact Ht. fold B.
      rewrite Z.mul_pow2_bits_low by lia. reflexivity.
    + rewrite app_nth2 by (unfold bits_of_byte; rewrite bits_of_length; exact Ht).
      unfold bits_of_byte at 1. rewrite bits_of_length. rewrite IH. fold V.
      rewrite Z.mul_pow2_bits by lia.
      rewrite <- (Z.mod_small B (2 ^ 8)) by exact RB. rewrite Z.mod_pow2_bits_high by lia.
      rewrite orb_false_r. f_equal. lia.
Qed.

Lemma upd_map {A B} (f : A -> B) i x l : upd i (f x) (map f l) = map f (upd i x l).
Proof. revert i; induction l as [|y l IH]; intros [|i]; cbn; auto; f_equal; apply IH. Qed.

Lemma nth_map_modq c j : nth j (map modq c) 0 = modq (nth j c 0).
Proof. exact (map_nth modq c 0 j). Qed.

Section SampleInBall.
  Variable H : bytes -> nat -> bytes.
  Hypothesis HH : xof_laws H.
  Variable P : FIPS.params.
  Variable m : bytes.
  Variable L : nat.
  Let S := H m L.

  Lemma squeeze_until_eq i : forall n pos, (pos + n = L)%nat ->
    (FIPS.squeeze_until_le H n (m, pos) i = None /\ sib_next i (skipn pos S) = None) \/
    (exists pos' j n', FIPS.squeeze_until_le H n (m, pos) i = Some ((m, pos'), j, n') /\
       sib_next i (skipn pos S) = Some (j, skipn pos' S) /\ (pos' + n' = L)%nat).
  Proof.
    assert (LS : length S = L) by apply (xl_len H HH).
    induction n as [|n IH]; intros pos Hp.
    - left. split; [reflexivity|]. rewrite skipn_all2 by lia. reflexivity.
    - cbn [FIPS.squeeze_until_le]. rewrite (squeeze_stream H HH m pos 1 L) by lia. fold S.
      rewrite (skipn_cons_nth S pos 0%N) by lia. cbn [firstn nth sib_next].
      replace (Nat.ltb i (N.to_nat (nth pos S 0%N))) with (negb (Nat.leb (N.to_nat (nth pos S 0%N)) i))
        by (destruct (Nat.leb (N.to_nat (nth pos S 0%N)) i) eqn:E; cbn [negb]; symmetry;
            [apply Nat.ltb_ge; apply Nat.leb_le in E; lia | apply Nat.ltb_lt; apply Nat.leb_gt in E; lia]).
      replace (Datatypes.S pos) with (pos + 1)%nat by lia.
      destruct (Nat.leb (N.to_nat (nth pos S 0%N)) i); cbn [negb].
      + right. exists (pos + 1)%nat, (N.to_nat (nth pos S 0%N)), n. repeat split. lia.
      + apply IH. lia.
  Qed.

  Let sb := Z.of_N (le_val (firstn 8 S)).
  Let hbits := FIPS.BytesToBits (firstn 8 S).

  Definition sib_body (i : nat) (st : option (FIPS.poly * FIPS.xof_ctx * nat)) :=
    FIPS.obind st (fun '(c, ctx, n) =>
    FIPS.obind (FIPS.squeeze_until_le H n ctx i) (fun '(ctx, j, n) =>
      let c := FIPS.set_nth i (nth j c 0) c in
      let c := FIPS.set_nth j (if nth (i + FIPS.tau P - 256) hbits false then -1 else 1) c in
      Some (c, ctx, n))).

  Lemma sign_value t :
    k_sub 1 (wrapu 32 (wrapu 64 (2 * Z.land (Z.shiftr sb (Z.of_nat t)) 1))) =
    modq (if nth t hbits false then -1 else 1).
  Proof.
    unfold hbits. rewrite BytesToBits_flat_map, nth_bits_le_val by (apply wfb_firstn, (xl_wf H HH)). fold sb.
    replace (Z.land (Z.shiftr sb (Z.of_nat t)) 1) with (Z.b2z (Z.testbit sb (Z.of_nat t))).
    - destruct (Z.testbit sb (Z.of_nat t)); reflexivity.
    - rewrite (land_ones_mod _ 1) by lia. rewrite <- Z.bit0_mod. rewrite Z.shiftr_spec by lia. reflexivity.
  Qed.

  Lemma sib_loop_eq : forall cnt i c pos n, (i + cnt = 256)%nat -> (256 <= i + FIPS.tau P)%nat ->
    (pos + n = L)%nat -> length c = 256%nat ->
    sib_loop cnt i (Z.shiftr sb (Z.of_nat (i + FIPS.tau P - 256))) (skipn pos S) (map modq c) =
    option_map (fun '(c, _, _) => map modq c) (FIPS.for_ i cnt sib_body (Some (c, (m, pos), n))).
  Proof.
    induction cnt as [|cnt IH]; intros i c pos n Hi Ht Hp Lc; cbn [sib_loop FIPS.for_]; [reflexivity|].
    unfold sib_body at 2. cbn [FIPS.obind].
    destruct (squeeze_until_eq i n pos Hp) as [[E1 E2] | (pos' & j & n' & E1 & E2 & E3)]; rewrite E1, E2; cbn [FIPS.obind].
    - unfold sib_body. rewrite for_opt_none. reflexivity.
    - pose proof (sib_next_le _ _ _ _ E2) as Hj.
      rewrite sign_value, nth_map_modq. change (@FIPS.set_nth Z) with (@upd Z). rewrite !upd_map.
      rewrite Z.shiftr_shiftr by lia.
      replace (Z.of_nat (i + FIPS.tau P - 256) + 1) with (Z.of_nat (Datatypes.S i + FIPS.tau P - 256)) by lia.
      apply IH; [lia | lia | exact E3 | rewrite !upd_length; exact Lc].
  Qed.
End SampleInBall.

Theorem SampleInBall_eq H (HH : xof_laws H) P rho : (p_tau P <= 256)%nat ->
  sampleInBall H (p_tau P) rho = option_map (map modq) (FIPS.SampleInBall H (fips_of P) 1024 rho).
Proof.
  intros Ht. unfold sampleInBall, sampleInBall_stream, FIPS.SampleInBall, FIPS.Absorb, FIPS.Init.
  cbn [fst snd app]. change sampleInBall_bytes with 1032%nat.
  rewrite (xl_len H HH). cbn [Nat.ltb Nat.leb].
  match goal with |- context [FIPS.Squeeze H ?c 8] =>
    rewrite (squeeze_stream H HH rho 0 8 1032 ltac:(lia) : FIPS.Squeeze H c 8 = _) end. cbn [Nat.add].
  change (skipn 0 (H rho 1032%nat)) with (H rho 1032%nat).
  pose proof (sib_loop_eq H HH (fips_of P) rho 1032 (p_tau P) (256 - p_tau P) (repeat 0 256) 8 1024) as E.
  cbn [FIPS.tau fips_of] in E.
  replace (256 - p_tau P + p_tau P - 256)%nat with 0%nat in E by lia.
  rewrite Z.shiftr_0_r in E.
  change (map modq (repeat 0 256)) with zero_poly in E. unfold degree.
  rewrite E by (try rewrite repeat_length; lia).
  unfold sib_body. cbn [FIPS.tau fips_of].
  match goal with |- option_map _ ?X = option_map _ (FIPS.obind ?Y _) => change Y with X; destruct X as [[[c ctx] n]|] end; reflexivity.
Qed.

(* SampleInBall's coefficients are -1, 0, 1 *)
Lemma SampleInBall_range H P b rho c : FIPS.SampleInBall H P b rho = Some c ->
  Forall (fun x => -1 <= x <= 1) c /\ length c = 256%nat.
Proof.
  unfold FIPS.SampleInBall.
  destruct (FIPS.Squeeze H (FIPS.Absorb FIPS.Init rho) 8) as [ctx s].
  set (body := fun i st => FIPS.obind st _).
  assert (G : forall cnt lo st c0 ctx0 n0, (Forall (fun x => -1 <= x <= 1) c0 /\ length c0 = 256%nat) ->
     st = Some (c0, ctx0, n0) ->
     forall c1 ctx1 n1, FIPS.for_ lo cnt body st = Some (c1, ctx1, n1) ->
     Forall (fun x => -1 <= x <= 1) c1 /\ length c1 = 256%nat).
  { induction cnt as [|cnt IH]; intros lo st c0 ctx0 n0 [F0 L0] -> c1 ctx1 n1 E; cbn [FIPS.for_] in E.
    - inversion E; subst. auto.
    - unfold body at 2 in E. cbn [FIPS.obind] in E.
      destruct (FIPS.squeeze_until_le H n0 ctx0 lo) as [[[ctx' j] n']|] eqn:ES; cbn [FIPS.obind] in E.
      + eapply IH; [| reflexivity | exact E]. change (@FIPS.set_nth Z) with (@upd Z). rewrite !upd_length. split; [|exact L0].
        assert (U : forall i v l, Forall (fun x => -1 <= x <= 1) l -> -1 <= v <= 1 -> Forall (fun x => -1 <= x <= 1) (upd i v l)).
        { intros i v l Fl Hv. revert i. induction Fl as [|y l Hy Fl IHl]; intros [|i]; cbn [upd]; constructor; auto. }
        apply U; [apply U; [exact F0|] | destruct (nth _ _ false); lia].
        destruct (Nat.lt_ge_cases j (length c0)) as [Hj | Hj]; [|rewrite nth_overflow by exact Hj; lia].
        rewrite Forall_nth in F0. apply F0. exact Hj.
      + unfold body in E. rewrite for_opt_none in E. discriminate. }
  intros E.
  destruct (FIPS.for_ (256 - FIPS.tau P) (FIPS.tau P) body (Some (repeat 0 256, ctx, b))) as [[[c1 ctx1] n1]|] eqn:EF;
    cbn [FIPS.obind] in E; [|discriminate]. inversion E; subst c1.
  eapply G; [| reflexivity | exact EF]. split; [|apply repeat_length].
  apply Forall_forall. intros x Hx. apply repeat_spec in Hx. lia.
Qed.

(* ------------------------------------------------------------------ *)
(* Algorithms 32, 33, 34                                                *)
(* ------------------------------------------------------------------ *)
Theorem ExpandA_eq G (HG : xof_laws G) P rho :
  expandA G P rho = FIPS.ExpandA G (fips_of P) 672 rho.
Proof.
  unfold expandA, FIPS.ExpandA. rewrite array_opt_oseq. cbn [FIPS.k FIPS.l fips_of]. f_equal.
  apply map_ext. intros r. rewrite array_opt_oseq. f_equal. apply map_ext. intros s.
  rewrite RejNTTPoly_eq by exact HG. rewrite !byteN_IntegerToBytes. reflexivity.
Qed.

Lemma oseq_map_option_map {A B C} (g : B -> C) (f1 : A -> option C) (f2 : A -> option B) l :
  (forall x, In x l -> f1 x = option_map g (f2 x)) ->
  oseq (map f1 l) = option_map (map g) (oseq (map f2 l)).
Proof.
  induction l as [|x l IH]; intros E; [reflexivity|]. cbn [map oseq].
  rewrite (E x) by (left; reflexivity). rewrite IH by (intros y Hy; apply E; right; exact Hy).
  destruct (f2 x); cbn [option_map]; [|reflexivity]. destruct (oseq (map f2 l)); reflexivity.
Qed.

Theorem ExpandS_eq H (HH : xof_laws H) P rho : (p_l P + p_k P <= 255)%nat ->
  expandS H P rho =
  option_map (fun '(s1, s2) => (map (map modq) s1, map (map modq) s2)) (FIPS.ExpandS H (fips_of P) 1536 rho).
Proof.
  intros Hkl. unfold expandS, FIPS.ExpandS. rewrite !array_opt_oseq. cbn [FIPS.k FIPS.l fips_of].
  rewrite (oseq_map_option_map (map modq) (fun i => rejectBoundedPoly H (p_eta P) (rho ++ [byteN i; 0%N])) (fun r => FIPS.RejBoundedPoly H (fips_of P) 1536 (rho ++ FIPS.IntegerToBytes (Z.of_nat r) 2))).
  2:{ intros i Hi. apply in_seq in Hi. rewrite RejBoundedPoly_eq by exact HH. rewrite byteN2_IntegerToBytes.
      rewrite (Nat.div_small i 256) by lia. reflexivity. }
  rewrite (oseq_map_option_map (map modq) (fun i => rejectBoundedPoly H (p_eta P) (rho ++ [byteN (i + p_l P); 0%N])) (fun r => FIPS.RejBoundedPoly H (fips_of P) 1536 (rho ++ FIPS.IntegerToBytes (Z.of_nat (r + p_l P)) 2))).
  2:{ intros i Hi. apply in_seq in Hi. rewrite RejBoundedPoly_eq by exact HH. rewrite byteN2_IntegerToBytes.
      rewrite (Nat.div_small (i + p_l P) 256) by lia. reflexivity. }
  destruct (oseq (map _ (seq 0 (p_l P)))); cbn [option_map]; [|reflexivity].
  destruct (oseq (map _ (seq 0 (p_k P)))); reflexivity.
Qed.

Theorem ExpandMask_eq H (HH : xof_laws H) P (FF : ffacts P) (PF : pfacts P) rho mu :
  expandMask H P rho mu = map (map modq) (FIPS.ExpandMask H (fips_of P) rho mu) /\
  Forall (fun p => length p = 256%nat /\ Forall (fun x => - gamma1 P < x <= gamma1 P) p) (FIPS.ExpandMask H (fips_of P) rho mu).
Proof.
  destruct FF as [_ [Z1 Z2] _ _ _]. destruct PF as [_ _ (G1 & G2 & G3) _ _ _].
  unfold expandMask, FIPS.ExpandMask. cbn [FIPS.gamma1 FIPS.l fips_of]. rewrite Z2, array_map, map_map.
  assert (K : forall i, let v := H (rho ++ FIPS.IntegerToBytes (Z.of_nat (mu + i)) 2) (32 * zBits P)%nat in
     map modq (FIPS.BitUnpack v (gamma1 P - 1) (gamma1 P)) = bitUnpack (gamma1 P) (zBits P) v /\
     Forall (fun x => gamma1 P - 2 ^ Z.of_nat (zBits P) < x <= gamma1 P) (FIPS.BitUnpack v (gamma1 P - 1) (gamma1 P)) /\
     length (FIPS.BitUnpack v (gamma1 P - 1) (gamma1 P)) = 256%nat).
  { intros i v. rewrite <- Z1. apply BitUnpack_eq; rewrite ?Z1.
    - unfold zBits. lia.
    - unfold v. apply (xl_len H HH).
    - lia.
    - lia. }
  split.
  - apply map_ext. intros i. destruct (K i) as [K1 _]. cbv zeta in K1. rewrite K1, byteN2_IntegerToBytes. reflexivity.
  - apply Forall_map. apply Forall_forall. intros i _. destruct (K i) as (_ & K2 & K3). cbv zeta in K2, K3.
    split; [exact K3|]. eapply Forall_impl; [|exact K2]. cbv beta. intros x Hx. lia.
Qed.
