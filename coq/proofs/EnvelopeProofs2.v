(* Stretch (C01/C02), KMS envelope closed over the actual data-key AEADs
   (model/EnvelopeDek.v): the hypotheses dek_rt / dek_only of EnvelopeProofs.env_round_trip /
   env_accept_iff are DISCHARGED from the round-trip / exact-acceptance theorems of
   AES-GCM, ChaCha20-Poly1305, XChaCha20-Poly1305 (laws of the standard AEAD) and
   AES-GCM-SIV (proved from the model).  Only the key-encryption AEAD (a remote KMS in
   production) stays abstract, with its laws kek_rt / kek_only explicit; they are
   inhabited by every Tink AEAD, e.g. AES-GCM (aesgcm_is_kek). *)
From Coq Require Import List NArith Bool Arith Lia ZifyN ZifyNat ZifyBool.
From Tink Require Import Bytes AeadFrame AeadFrameProofs Ctr CtrProofs EtMProofs Polyval GcmSiv GcmSivProofs
  Envelope EnvelopeProofs EnvelopeDek ProtoWire ProtoWireProofs.
Import ListNotations.
Open Scope N_scope.

(* ---- generic lifting: any per-key AEAD behind any parser of the serialised DEK ---- *)
Section DekLift.
  Variable K : Type.
  Variable parse : bytes -> option K.
  Variable kenc : K -> bytes -> bytes -> bytes -> outcome bytes.
  Variable kdec : K -> bytes -> bytes -> outcome bytes.
  Variable divlen : nat.

  Definition lift_enc (dek iv p ad : bytes) : outcome bytes :=
    match parse dek with Some k => kenc k iv p ad | None => Err end.
  Definition lift_dec (dek c ad : bytes) : outcome bytes :=
    match parse dek with Some k => kdec k c ad | None => Err end.

  Lemma lift_rt :
    (forall k iv p ad c, length iv = divlen -> kenc k iv p ad = Ok c -> kdec k c ad = Ok p) ->
    dek_rt lift_enc lift_dec divlen.
  Proof.
    intros H dek iv p ad c Hiv. unfold lift_enc, lift_dec. destruct (parse dek) as [k|]; [|discriminate].
    apply H. exact Hiv.
  Qed.

  Lemma lift_only :
    (forall k c ad p, kdec k c ad = Ok p -> exists iv, length iv = divlen /\ kenc k iv p ad = Ok c) ->
    dek_only lift_enc lift_dec divlen.
  Proof.
    intros H dek c ad p. unfold lift_enc, lift_dec. destruct (parse dek) as [k|]; [|discriminate]. apply H.
  Qed.

  Lemma lift_no_panic :
    (forall k c ad, kdec k c ad <> Panic) -> forall dek c ad, lift_dec dek c ad <> Panic.
  Proof. intros H dek c ad. unfold lift_dec. destruct (parse dek); [apply H|discriminate]. Qed.
End DekLift.

(* ---- the per-key theorems of the nonce-based AEADs, for any prefix of at most 5 bytes ---- *)
Section NonceInstances.
  Variable seal : bytes -> bytes -> bytes -> bytes -> bytes.
  Variable open_ : bytes -> bytes -> bytes -> bytes -> option bytes.

  Definition std_laws (seal_max : N) : Prop :=
    seal_len_law seal 16 /\ open_seal_law seal open_ seal_max /\ open_only_seal_law seal open_ seal_max.

  Lemma chacha_side1 : forall m, Some chacha_open_max = Some m -> m = chacha_seal_max + N.of_nat 16.
  Proof. intros m E; inversion E; reflexivity. Qed.
  Lemma chacha_side2 : forall m, Some chacha_tink_ct_max = Some m -> chacha_seal_max + N.of_nat 16 <= m.
  Proof. intros m E; inversion E; vm_compute; discriminate. Qed.

  Lemma aesgcm_rt prefix key iv p ad c : std_laws gcm_seal_max -> length iv = 12%nat ->
    aesgcm_enc seal prefix key iv p ad = Ok c -> aesgcm_dec open_ prefix key c ad = Ok p.
  Proof.
    intros [HL [HO _]] Hiv He. unfold aesgcm_dec. rewrite dec_lenfirst_canon.
    apply (na_round_trip seal open_ 12 16 gcm_seal_max None None gcm_tink_max _ key iv p ad c HL HO);
      [intros m; discriminate | intros m; discriminate | exact Hiv | exact He].
  Qed.

  Lemma aesgcm_only prefix key c ad p : std_laws gcm_seal_max ->
    aesgcm_dec open_ prefix key c ad = Ok p -> exists iv, length iv = 12%nat /\ aesgcm_enc seal prefix key iv p ad = Ok c.
  Proof.
    intros [HL [HO HU]]. unfold aesgcm_dec. rewrite dec_lenfirst_canon.
    apply (na_accept_iff seal open_ 12 16 gcm_seal_max None None gcm_tink_max _ key c ad p HL HO HU);
      [intros m; discriminate | intros m; discriminate | exact gcm_max_order].
  Qed.

  Lemma chacha_rt prefix key iv p ad c : std_laws chacha_seal_max -> length iv = 12%nat ->
    chacha_enc seal prefix key iv p ad = Ok c -> chacha_dec open_ prefix key c ad = Ok p.
  Proof.
    intros [HL [HO _]] Hiv He. unfold chacha_dec. rewrite dec_prefixfirst_canon.
    exact (na_round_trip seal open_ 12 16 chacha_seal_max (Some chacha_open_max) (Some chacha_tink_ct_max)
             (chacha_tink_max prefix) _ key iv p ad c HL HO chacha_side1 chacha_side2 Hiv He).
  Qed.

  Lemma chacha_only prefix key c ad p : std_laws chacha_seal_max -> (length prefix <= 5)%nat ->
    chacha_dec open_ prefix key c ad = Ok p -> exists iv, length iv = 12%nat /\ chacha_enc seal prefix key iv p ad = Ok c.
  Proof.
    intros [HL [HO HU]] Hpl. unfold chacha_dec. rewrite dec_prefixfirst_canon.
    apply (na_accept_iff seal open_ 12 16 chacha_seal_max (Some chacha_open_max) (Some chacha_tink_ct_max)
             (chacha_tink_max prefix) _ key c ad p HL HO HU chacha_side1 chacha_side2).
    unfold chacha_tink_max, chacha_tink_seal_max, chacha_seal_max, MaxInt, lenN. lia.
  Qed.

  Lemma xchacha_ct_small prefix key iv p ad c : seal_len_law seal 16 -> (length prefix <= 5)%nat -> length iv = 24%nat ->
    xchacha_enc seal prefix key iv p ad = Ok c -> lenN c <= MaxInt.
  Proof.
    intros HL Hpl Hiv He. unfold xchacha_enc, na_enc, seal_o in He.
    destruct (N.ltb_spec xchacha_tink_max (lenN p)); [discriminate|].
    destruct (N.ltb_spec chacha_seal_max (lenN p)) as [|Hs]; [discriminate|]. cbn [bind] in He. inversion He.
    unfold lenN in *. rewrite !app_length, HL. unfold chacha_seal_max, MaxInt in *. lia.
  Qed.

  Lemma xchacha_rt prefix key iv p ad c : std_laws chacha_seal_max -> (length prefix <= 5)%nat -> length iv = 24%nat ->
    xchacha_enc seal prefix key iv p ad = Ok c -> xchacha_dec open_ prefix key c ad = Ok p.
  Proof.
    intros [HL [HO HU]] Hpl Hiv He. unfold xchacha_dec.
    rewrite dec_lenprefix_canon by exact (xchacha_ct_small prefix key iv p ad c HL Hpl Hiv He).
    exact (na_round_trip seal open_ 24 16 chacha_seal_max (Some chacha_open_max) (Some chacha_tink_ct_max)
             xchacha_tink_max _ key iv p ad c HL HO chacha_side1 chacha_side2 Hiv He).
  Qed.

  Lemma xchacha_dec_ok_small prefix key c ad p : xchacha_dec open_ prefix key c ad = Ok p -> lenN c <= MaxInt.
  Proof.
    unfold xchacha_dec, na_dec_lenprefix. destruct (Nat.ltb _ _); [discriminate|].
    destruct (N.ltb_spec MaxInt (lenN c)); [discriminate|]. intros _. assumption.
  Qed.

  Lemma xchacha_only prefix key c ad p : std_laws chacha_seal_max ->
    xchacha_dec open_ prefix key c ad = Ok p -> exists iv, length iv = 24%nat /\ xchacha_enc seal prefix key iv p ad = Ok c.
  Proof.
    intros [HL [HO HU]] Hd. pose proof (xchacha_dec_ok_small _ _ _ _ _ Hd) as Hc.
    unfold xchacha_dec in Hd. rewrite dec_lenprefix_canon in Hd by exact Hc. revert Hd.
    apply (na_accept_iff seal open_ 24 16 chacha_seal_max (Some chacha_open_max) (Some chacha_tink_ct_max)
             xchacha_tink_max _ key c ad p HL HO HU chacha_side1 chacha_side2).
    unfold xchacha_tink_max, chacha_tink_seal_max, chacha_seal_max, MaxInt. lia.
  Qed.
End NonceInstances.

(* ---- newDEK and the wire format (no law needed) ---- *)
(* newDEK: a fresh key of a supported size serialises to a DEK that parses back *)
(* dek_proto (one-byte tag, one-byte length, key) is ProtoWire's encoding of { version 0, key_value k } *)
Lemma dek_encode_shape kd k : k <> [] ->
  encode (dek_schema kd) [VInt 0; VBytes k] = varint_enc (dek_field kd * 8 + 2) ++ varint_enc (lenN k) ++ k.
Proof.
  intros Hk. destruct k as [|x k']; [contradiction|].
  unfold encode, dek_schema. cbn [raw_fields raw_val N.eqb app].
  unfold ser, lenN. cbn [map concat]. unfold ser_one. rewrite !app_nil_r. reflexivity.
Qed.

Lemma dek_proto_is_encode kd k : dek_size_ok kd k = true ->
  dek_proto (dek_tag kd) k = encode (dek_schema kd) [VInt 0; VBytes k].
Proof.
  intros Hs.
  assert (Hl : length k = 16%nat \/ length k = 32%nat).
  { destruct kd; cbn [dek_size_ok] in Hs;
      repeat match goal with
             | H : (_ || _)%bool = true |- _ => apply orb_true_iff in H; destruct H
             | H : Nat.eqb _ _ = true |- _ => apply Nat.eqb_eq in H
             end; auto. }
  rewrite dek_encode_shape by (intros ->; cbn in Hl; lia).
  unfold dek_proto, lenN.
  destruct Hl as [Hl|Hl]; rewrite Hl; destruct kd; reflexivity.
Qed.

Lemma dek_parse_proto kd k : dek_size_ok kd k = true -> dek_parse kd (dek_proto (dek_tag kd) k) = Some k.
Proof.
  intros Hs. rewrite (dek_proto_is_encode kd k Hs). unfold dek_parse.
  rewrite decode_encode.
  - cbn [dk_vint dk_vbytes N.eqb andb]. rewrite Hs. reflexivity.
  - destruct kd; vm_compute; reflexivity.
  - unfold dek_schema. cbn [wf_msg wf_val scalar_ok]. reflexivity.
  - rewrite <- (dek_proto_is_encode kd k Hs). unfold dek_proto, two64. cbn [length].
    assert (Hl : (length k <= 32)%nat).
    { destruct kd; cbn [dek_size_ok] in Hs;
        repeat match goal with
               | H : (_ || _)%bool = true |- _ => apply orb_true_iff in H; destruct H
               | H : Nat.eqb _ _ = true |- _ => apply Nat.eqb_eq in H
               end; lia. }
    lia.
Qed.

(* wire format: be32(|encDEK|) || encDEK || <DEK AEAD ciphertext>, encDEK = KEK.Encrypt(serialised DEK, "") *)
Theorem env_wire_format_closed (aes : bytes -> bytes -> bytes)
    (gcm_seal cc_seal xcc_seal : bytes -> bytes -> bytes -> bytes -> bytes)
    (kek_enc : bytes -> bytes -> bytes -> outcome bytes) kd k kekiv dekiv p ad c :
  dek_size_ok kd k = true ->
  env_enc kek_enc (dek_enc aes gcm_seal cc_seal xcc_seal kd) (dek_proto (dek_tag kd) k) kekiv dekiv p ad = Ok c ->
  exists encDEK payload,
    kek_enc kekiv (dek_tag kd :: lenN k :: k) [] = Ok encDEK /\ 1 <= lenN encDEK <= 4096 /\
    dek_prim_enc aes gcm_seal cc_seal xcc_seal kd k dekiv p ad = Ok payload /\
    c = be_bytes 4 (lenN encDEK) ++ encDEK ++ payload.
Proof.
  intros Hs. unfold env_enc. fold (dek_proto (dek_tag kd) k).
  destruct (kek_enc kekiv (dek_proto (dek_tag kd) k) []) as [e| |] eqn:Ee; cbn [bind]; try discriminate.
  destruct (Nat.eqb_spec (length e) 0) as [|H0]; [discriminate|].
  unfold dek_enc. rewrite (dek_parse_proto kd k Hs).
  destruct (dek_prim_enc aes gcm_seal cc_seal xcc_seal kd k dekiv p ad) as [pl| |] eqn:Ep; cbn [bind]; try discriminate.
  unfold build_envelope. destruct (Nat.eqb_spec (length e) 0); [discriminate|].
  destruct (N.ltb_spec maxLengthEncryptedDEK (lenN e)) as [|Hm]; [discriminate|].
  intros Hc; inversion Hc. exists e, pl. unfold maxLengthEncryptedDEK, lenN in *. repeat split; try reflexivity; lia.
Qed.

(* ---- the closed data-key AEAD ---- *)
Section ClosedDek.
  Variable aes : bytes -> bytes -> bytes.
  Variable gcm_seal : bytes -> bytes -> bytes -> bytes -> bytes.
  Variable gcm_open : bytes -> bytes -> bytes -> bytes -> option bytes.
  Variable cc_seal : bytes -> bytes -> bytes -> bytes -> bytes.
  Variable cc_open : bytes -> bytes -> bytes -> bytes -> option bytes.
  Variable xcc_seal : bytes -> bytes -> bytes -> bytes -> bytes.
  Variable xcc_open : bytes -> bytes -> bytes -> bytes -> option bytes.
  Hypothesis aes_len : forall k b, length (aes k b) = 16%nat.
  Hypothesis gcm_laws : std_laws gcm_seal gcm_open gcm_seal_max.
  Hypothesis cc_laws : std_laws cc_seal cc_open chacha_seal_max.
  Hypothesis xcc_laws : std_laws xcc_seal xcc_open chacha_seal_max.

  Notation prim_enc := (dek_prim_enc aes gcm_seal cc_seal xcc_seal).
  Notation prim_dec := (dek_prim_dec aes gcm_open cc_open xcc_open).
  Notation denc := (dek_enc aes gcm_seal cc_seal xcc_seal).
  Notation ddec := (dek_dec aes gcm_open cc_open xcc_open).

  Lemma dek_prim_rt kd k iv p ad c : length iv = dek_ivlen kd ->
    prim_enc kd k iv p ad = Ok c -> prim_dec kd k c ad = Ok p.
  Proof.
    destruct kd; cbn [dek_ivlen dek_prim_enc dek_prim_dec]; intros Hiv He.
    - exact (aesgcm_rt gcm_seal gcm_open [] k iv p ad c gcm_laws Hiv He).
    - exact (chacha_rt cc_seal cc_open [] k iv p ad c cc_laws Hiv He).
    - apply (xchacha_rt xcc_seal xcc_open [] k iv p ad c xcc_laws); [cbn [length]; lia|exact Hiv|exact He].
    - exact (siv_round_trip aes aes_len [] k iv p ad c Hiv He).
  Qed.

  Lemma dek_prim_only kd k c ad p :
    prim_dec kd k c ad = Ok p -> exists iv, length iv = dek_ivlen kd /\ prim_enc kd k iv p ad = Ok c.
  Proof.
    destruct kd; cbn [dek_ivlen dek_prim_enc dek_prim_dec]; intros Hd.
    - exact (aesgcm_only gcm_seal gcm_open [] k c ad p gcm_laws Hd).
    - apply (chacha_only cc_seal cc_open [] k c ad p cc_laws); [cbn [length]; lia|exact Hd].
    - exact (xchacha_only xcc_seal xcc_open [] k c ad p xcc_laws Hd).
    - apply (siv_accept_iff aes aes_len). exact Hd.
  Qed.

  Lemma dek_prim_dec_no_panic kd k c ad : prim_dec kd k c ad <> Panic.
  Proof.
    assert (Hn : forall m, Some chacha_open_max = Some m ->
               lenN c <= m \/ exists m', Some chacha_tink_ct_max = Some m' /\ m' <= m).
    { intros m E; inversion E. right. exists chacha_tink_ct_max. split; [reflexivity|]. vm_compute. discriminate. }
    destruct kd; cbn [dek_prim_dec].
    - unfold aesgcm_dec. rewrite dec_lenfirst_canon. apply na_dec_no_panic. intros m; discriminate.
    - unfold chacha_dec. rewrite dec_prefixfirst_canon. apply na_dec_no_panic. exact Hn.
    - unfold xchacha_dec. destruct (N.le_gt_cases (lenN c) MaxInt) as [Hm|Hm].
      + rewrite dec_lenprefix_canon by exact Hm. apply na_dec_no_panic. exact Hn.
      + unfold na_dec_lenprefix. destruct (Nat.ltb _ _); [discriminate|].
        destruct (N.ltb_spec MaxInt (lenN c)); [discriminate|lia].
    - apply (siv_dec_no_panic aes aes_len).
  Qed.

  (* dek_enc / dek_dec are the generic lifting of the primitives along dek_parse *)
  Lemma dek_enc_is_lift kd : denc kd = lift_enc bytes (dek_parse kd) (prim_enc kd).
  Proof. reflexivity. Qed.
  Lemma dek_dec_is_lift kd : ddec kd = lift_dec bytes (dek_parse kd) (prim_dec kd).
  Proof. reflexivity. Qed.

  Theorem dek_rt_closed kd : dek_rt (denc kd) (ddec kd) (dek_ivlen kd).
  Proof. rewrite dek_enc_is_lift, dek_dec_is_lift. apply lift_rt. apply dek_prim_rt. Qed.

  Theorem dek_only_closed kd : dek_only (denc kd) (ddec kd) (dek_ivlen kd).
  Proof. rewrite dek_enc_is_lift, dek_dec_is_lift. apply lift_only. apply dek_prim_only. Qed.

  Theorem dek_dec_no_panic_closed kd dek c ad : ddec kd dek c ad <> Panic.
  Proof. rewrite dek_dec_is_lift. apply lift_no_panic. apply dek_prim_dec_no_panic. Qed.

  (* ---- the envelope AEAD with only the key-encryption AEAD abstract ---- *)
  Section WithKek.
    Variable kek_enc : bytes -> bytes -> bytes -> outcome bytes.
    Variable kek_dec : bytes -> bytes -> outcome bytes.
    Variable kivlen : nat.

    Theorem env_round_trip_closed kd dek kekiv dekiv p ad c :
      kek_rt kek_enc kek_dec kivlen ->
      length kekiv = kivlen -> length dekiv = dek_ivlen kd ->
      env_enc kek_enc (denc kd) dek kekiv dekiv p ad = Ok c ->
      env_dec kek_dec (ddec kd) c ad = Ok p.
    Proof.
      intros HK H1 H2 He.
      exact (env_round_trip kek_enc kek_dec (denc kd) (ddec kd) kivlen (dek_ivlen kd)
               dek kekiv dekiv p ad c HK (dek_rt_closed kd) H1 H2 He).
    Qed.

    Theorem env_accept_iff_closed kd c ad p :
      kek_rt kek_enc kek_dec kivlen -> kek_only kek_enc kek_dec kivlen -> wfb c ->
      (env_dec kek_dec (ddec kd) c ad = Ok p <->
       exists dek kekiv dekiv, length kekiv = kivlen /\ length dekiv = dek_ivlen kd /\
         env_enc kek_enc (denc kd) dek kekiv dekiv p ad = Ok c).
    Proof.
      intros HK HKO Hw.
      exact (env_accept_iff kek_enc kek_dec (denc kd) (ddec kd) kivlen (dek_ivlen kd) c ad p
               HK (dek_rt_closed kd) HKO (dek_only_closed kd) Hw).
    Qed.

    Theorem env_dec_no_panic_closed kd c ad :
      (forall c ad, kek_dec c ad <> Panic) -> env_dec kek_dec (ddec kd) c ad <> Panic.
    Proof. intros HK. apply env_dec_no_panic; [exact HK|]. intros dek c0 ad0. apply dek_dec_no_panic_closed. Qed.

  End WithKek.
End ClosedDek.

(* ---- the key-encryption laws are inhabited by Tink AEADs: AES-GCM with any prefix ---- *)
Lemma aesgcm_is_kek seal open_ prefix key : std_laws seal open_ gcm_seal_max ->
  kek_rt (aesgcm_enc seal prefix key) (aesgcm_dec open_ prefix key) 12 /\
  kek_only (aesgcm_enc seal prefix key) (aesgcm_dec open_ prefix key) 12.
Proof.
  intros HL. split.
  - intros iv p ad c Hiv He. exact (aesgcm_rt seal open_ prefix key iv p ad c HL Hiv He).
  - intros c ad p Hd. exact (aesgcm_only seal open_ prefix key c ad p HL Hd).
Qed.

(* ---- non-vacuity: a whole envelope with the toy AEAD as KEK and as AES-GCM data key ---- *)
Example env_closed_instance :
  let kenc := aesgcm_enc toy_seal (output_prefix VTink 7) [1] in
  let kdec := aesgcm_dec (toy_open gcm_seal_max) (output_prefix VTink 7) [1] in
  let z := fun _ _ : bytes => zeros 16 in
  let dek := dek_proto (dek_tag DekGcm) (zeros 16) in
  match env_enc kenc (dek_enc z toy_seal toy_seal toy_seal DekGcm) dek (zeros 12) (zeros 12) [1; 2; 3] [9] with
  | Ok c => env_dec kdec (dek_dec z (toy_open gcm_seal_max) (toy_open chacha_seal_max) (toy_open chacha_seal_max) DekGcm) c [9] = Ok [1; 2; 3]
            /\ length c = (4 + (5 + 12 + 18 + 16) + (12 + 3 + 16))%nat
  | _ => False
  end.
Proof. vm_compute. split; reflexivity. Qed.
